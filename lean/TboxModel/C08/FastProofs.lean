/- C08 — helper lemmas: token class, array cabinet ≡ list cabinet, bulk runs. Theorems are in `Props.lean`. -/
import TboxModel.C08.Fast
import TboxModel.C08.CabRefine
namespace Tbox.C08

/-! ### Token -/
namespace Token

theorem ctor_roundtrip (id pos : Nat) (hi : id ≤ sizeMax) (hp : pos ≤ sizeMax) : ctor id pos = ⟨id, pos⟩ := by
  unfold ctor word; unfold sizeMax at hi hp
  rw [Nat.mod_eq_of_lt (by omega), Nat.mod_eq_of_lt (by omega)]

theorem equal_iff (a b : Token) : equal a b = true ↔ a = b := by
  cases a; cases b; simp [equal]

theorem less_iff (a b : Token) : less a b = true ↔ (a.id < b.id ∨ (a.id = b.id ∧ a.pos < b.pos)) := by
  unfold less
  by_cases h : a.id = b.id
  · simp [h]
  · simp [h]

theorem hash_value (t : Token) : hash t = (t.id * 256 + t.pos % 256) % word := by
  unfold hash
  have h1 : t.pos &&& 0xff = t.pos % 256 := Nat.and_two_pow_sub_one_eq_mod t.pos 8
  have h2 : t.pos % 256 < 2 ^ 8 := Nat.mod_lt _ (by decide)
  rw [h1, ← Nat.shiftLeft_add_eq_or_of_lt h2, Nat.shiftLeft_eq]

end Token

/-! ### array cabinet ≡ list cabinet -/
namespace CabA

theorem toCab_ofCab (c : Cab) : (ofCab c).toCab = c := by
  cases c; simp [ofCab, toCab]

theorem lookup_eq (a : CabA) (t : Token) : a.lookup t = a.toCab.lookup t := by
  unfold lookup Cab.lookup
  simp only [toCab, Array.getElem?_toList]
  split
  · rfl
  · cases a.cells[t.pos]? <;> rfl

theorem at_eq (a : CabA) (t : Token) : a.at' t = a.toCab.at' t := by
  simp [at', Cab.at', lookup_eq]

theorem size_eq (a : CabA) : a.size = a.toCab.size := rfl

theorem clear_eq (a : CabA) : a.clear.toCab = a.toCab.clear := by
  simp [clear, Cab.clear, toCab]

theorem update_eq (a : CabA) (t : Token) (o : Nat) :
    (a.update t o).1.toCab = (a.toCab.update t o).1 ∧ (a.update t o).2 = (a.toCab.update t o).2 := by
  unfold update Cab.update
  rw [← lookup_eq]
  cases a.lookup t <;> simp [toCab]

theorem free_eq (a : CabA) (t : Token) :
    (a.free t).1.toCab = (a.toCab.free t).1 ∧ (a.free t).2 = (a.toCab.free t).2 := by
  unfold free Cab.free
  rw [← lookup_eq]
  cases a.lookup t
  · simp [toCab]
  · refine ⟨?_, rfl⟩
    simp only [toCab, Array.toList_setIfInBounds]
    congr 1

theorem alloc_eq (a : CabA) (o : Nat) :
    (a.alloc o).1.toCab = (a.toCab.alloc o).1 ∧ (a.alloc o).2 = (a.toCab.alloc o).2 := by
  unfold alloc Cab.alloc allocId Cab.allocId allocPos Cab.allocPos
  by_cases hw : a.lastId = sizeMax <;> by_cases hf : a.firstFree = sizeMax
  · simp [toCab, hw, hf]
  · simp only [toCab, hw, hf, if_true, ne_eq, not_false_eq_true, Array.getElem?_toList]
    cases a.cells[a.firstFree]? <;> simp
  · simp [toCab, hw, hf]
  · simp only [toCab, hw, hf, if_false, if_true, ne_eq, not_false_eq_true, Array.getElem?_toList]
    cases a.cells[a.firstFree]? <;> simp

theorem act_eq (a : CabA) (x : CbAct) :
    (a.act x).1.toCab = (a.toCab.act x).1 ∧ (a.act x).2 = (a.toCab.act x).2 := by
  cases x with
  | alloc o => exact alloc_eq a o
  | update t o => exact ⟨(update_eq a t o).1, rfl⟩
  | free t => exact ⟨(free_eq a t).1, rfl⟩
  | clear => exact ⟨clear_eq a, rfl⟩

theorem runActs_eq (a : CabA) (xs : List CbAct) : (a.runActs xs).toCab = a.toCab.runActs xs := by
  induction xs generalizing a with
  | nil => rfl
  | cons x xs ih => simp only [runActs, Cab.runActs]; rw [ih, (act_eq a x).1]

theorem allocN_eq (a : CabA) (os : List Nat) (acc : Array Token) :
    (a.allocN os acc).1.toCab = (a.toCab.allocN os).1 ∧
    (a.allocN os acc).2 = acc ++ (a.toCab.allocN os).2.toArray := by
  induction os generalizing a acc with
  | nil => simp [allocN, Cab.allocN]
  | cons o os ih =>
      simp only [allocN, Cab.allocN]
      have h := alloc_eq a o
      have := ih (a.alloc o).1 (acc.push ((a.alloc o).2.getD {}))
      rw [h.1] at this
      refine ⟨this.1, ?_⟩
      rw [this.2, h.2]
      simp

theorem freeN_eq (a : CabA) (ts : List Token) (acc : Array Nat) :
    (a.freeN ts acc).1.toCab = (a.toCab.freeN ts).1 ∧
    (a.freeN ts acc).2 = acc ++ (a.toCab.freeN ts).2.toArray := by
  induction ts generalizing a acc with
  | nil => simp [freeN, Cab.freeN]
  | cons t ts ih =>
      simp only [freeN, Cab.freeN]
      have h := free_eq a t
      have := ih (a.free t).1 (acc.push (a.free t).2)
      rw [h.1] at this
      refine ⟨this.1, ?_⟩
      rw [this.2, h.2]
      simp

theorem atN_eq (a : CabA) (ts : List Token) : a.atN ts = a.toCab.atN ts := by
  simp [atN, Cab.atN, at_eq]

theorem jump_eq (a : CabA) (v : Nat) : (a.jump v).toCab = a.toCab.jump v := rfl

end CabA

/-! ### bulk runs of the list cabinet -/
namespace Cab

theorem pushedCells_length (k : Nat) (os : List Nat) : (pushedCells k os).length = os.length := by
  induction os generalizing k with
  | nil => rfl
  | cons o os ih => simp [pushedCells, ih]

theorem pushedToks_length (k L : Nat) (os : List Nat) : (pushedToks k L os).length = os.length := by
  induction os generalizing k L with
  | nil => rfl
  | cons o os ih => simp [pushedToks, ih]

theorem pushedCells_get (k : Nat) (os : List Nat) (i : Nat) (h : i < os.length) :
    (pushedCells k os)[i]? = some ⟨k + 1 + i, os[i]⟩ := by
  induction os generalizing k i with
  | nil => simp at h
  | cons o os ih =>
      cases i with
      | zero => simp [pushedCells]
      | succ i =>
          simp only [pushedCells, List.getElem?_cons_succ, List.getElem_cons_succ]
          rw [ih (k + 1) i (by simpa using h)]
          congr 2; omega

theorem pushedToks_get (k L : Nat) (os : List Nat) (i : Nat) (h : i < os.length) :
    (pushedToks k L os)[i]? = some ⟨k + 1 + i, L + i⟩ := by
  induction os generalizing k L i with
  | nil => simp at h
  | cons o os ih =>
      cases i with
      | zero => simp [pushedToks]
      | succ i =>
          simp only [pushedToks, List.getElem?_cons_succ]
          rw [ih (k + 1) (L + 1) i (by simpa using h)]
          congr 2 <;> omega

/-- moving the id counter forward keeps the cabinet consistent -/
theorem jump_inv (c : Cab) (v : Nat) (h : Inv c) (h1 : c.lastId ≤ v) (h2 : v ≤ sizeMax) : Inv (c.jump v) := by
  refine ⟨?_, h.idDistinct, h.chain, h.count, ?_, h2, h.noWrap⟩
  · intro p cell hp; have := h.idBound p cell hp; simp only [jump]; omega
  · have := h.lenBound; simp only [jump]; omega

/-- closed form of `n` allocations into a cabinet without free cells -/
theorem allocN_closed (c : Cab) (os : List Nat) (hf : c.firstFree = sizeMax)
    (hw : c.lastId + os.length ≤ sizeMax) :
    c.allocN os = ({ c with lastId := c.lastId + os.length, cells := c.cells ++ pushedCells c.lastId os,
                            count := c.count + os.length },
                   pushedToks c.lastId c.cells.length os) := by
  induction os generalizing c with
  | nil => simp [allocN, pushedCells, pushedToks]
  | cons o os ih =>
      have hne : c.lastId ≠ sizeMax := by simp only [List.length_cons] at hw; omega
      simp only [allocN]
      rw [alloc_push c o hf hne]
      simp only [List.length_cons] at hw
      rw [ih _ rfl (by simp only; omega)]
      simp only [pushedCells, pushedToks, List.length_append, List.length_cons, List.length_nil,
        List.append_assoc, List.cons_append, List.nil_append, Option.getD_some]
      refine Prod.ext ?_ rfl
      simp only []
      congr 1 <;> omega

theorem pushedToks_id_gt (k L : Nat) (os : List Nat) : ∀ t ∈ pushedToks k L os, k < t.id := by
  induction os generalizing k L with
  | nil => simp [pushedToks]
  | cons o os ih =>
      intro t ht
      simp only [pushedToks, List.mem_cons] at ht
      rcases ht with rfl | ht
      · simp
      · have := ih (k + 1) (L + 1) t ht; omega

theorem pushedToks_pairwise (k L : Nat) (os : List Nat) :
    (pushedToks k L os).Pairwise (fun a b => a.id < b.id) := by
  induction os generalizing k L with
  | nil => simp [pushedToks]
  | cons o os ih =>
      simp only [pushedToks, List.pairwise_cons]
      exact ⟨fun t ht => pushedToks_id_gt (k + 1) (L + 1) os t ht, ih (k + 1) (L + 1)⟩

/-- pigeonhole: a duplicate-free list of numbers below `n` has at most `n` elements -/
theorem nodup_bound (F : List Nat) (n : Nat) (hnd : F.Nodup) (hb : ∀ i ∈ F, i < n) : F.length ≤ n := by
  induction n generalizing F with
  | zero =>
      cases F with
      | nil => simp
      | cons a F => exact absurd (hb a List.mem_cons_self) (Nat.not_lt_zero _)
  | succ n ih =>
      by_cases hm : n ∈ F
      · have h1 := ih (F.erase n) (hnd.erase n) (by
          intro i hi
          have := (List.Nodup.mem_erase_iff hnd).1 hi
          have := hb i this.2
          omega)
        rw [List.length_erase_of_mem hm] at h1
        omega
      · have := ih F hnd (by
          intro i hi
          have := hb i hi
          have : i ≠ n := fun e => hm (e ▸ hi)
          omega)
        omega

theorem freeN_length (c : Cab) (ts : List Token) : (c.freeN ts).2.length = ts.length := by
  induction ts generalizing c with
  | nil => rfl
  | cons t ts ih => simp [freeN, ih]

theorem freeN_append (c : Cab) (a b : List Token) :
    c.freeN (a ++ b) = (((c.freeN a).1.freeN b).1, (c.freeN a).2 ++ ((c.freeN a).1.freeN b).2) := by
  induction a generalizing c with
  | nil => simp [freeN]
  | cons t ts ih => simp [freeN, ih]

/-- `free` whatever the token: every other token resolves as before, the token itself to nothing -/
theorem lookup_free' (c : Cab) (t0 t : Token) :
    (c.free t0).1.lookup t = if t = t0 then none else c.lookup t := by
  cases hl : c.lookup t0 with
  | none =>
      rw [free_miss c t0 hl]
      by_cases ht : t = t0
      · subst ht; simp [hl]
      · simp [ht]
  | some o => exact lookup_free c t0 o hl t

theorem free_ret (c : Cab) (t : Token) : (c.free t).2 = c.at' t := by
  unfold free at'
  cases c.lookup t <;> rfl

/-- freeing a list of tokens: a token resolves afterwards iff it is not in the list, to what it resolved to -/
theorem lookup_freeN (c : Cab) (ts : List Token) (t : Token) :
    (c.freeN ts).1.lookup t = if t ∈ ts then none else c.lookup t := by
  induction ts generalizing c with
  | nil => simp [freeN]
  | cons t0 ts ih =>
      simp only [freeN, ih, lookup_free', List.mem_cons]
      by_cases h1 : t ∈ ts <;> by_cases h2 : t = t0 <;> simp [h1, h2]

/-- `count_` after freeing pairwise distinct tokens that all resolve: one less per token -/
theorem count_freeN (c : Cab) (ts : List Token) (hnd : ts.Nodup) (hl : ∀ t ∈ ts, (c.lookup t).isSome)
    (hc : ts.length ≤ c.count) : (c.freeN ts).1.count = c.count - ts.length := by
  induction ts generalizing c with
  | nil => simp [freeN]
  | cons t0 ts ih =>
      obtain ⟨hn0, hnd'⟩ := List.nodup_cons.1 hnd
      obtain ⟨o, ho⟩ := Option.isSome_iff_exists.1 (hl t0 List.mem_cons_self)
      simp only [freeN, List.length_cons] at hc ⊢
      have hcnt : (c.free t0).1.count = c.count - 1 := by
        rw [free_hit c t0 o ho]
        have : c.count ≠ 0 := by omega
        simp [this]
      rw [ih (c.free t0).1 hnd' ?_ (by rw [hcnt]; omega), hcnt]
      · omega
      · intro t ht
        rw [lookup_free']
        have : t ≠ t0 := fun h => hn0 (h ▸ ht)
        simp only [this, if_false]
        exact hl t (List.mem_cons_of_mem _ ht)

/-- each `free` of the run returns what the token resolved to at that moment: its own object the
first time, nothing for a repetition -/
theorem freeN_ret (c : Cab) (ts : List Token) (i : Nat) (t : Token) (h : ts[i]? = some t) :
    (c.freeN ts).2[i]? = some (if t ∈ ts.take i then 0 else c.at' t) := by
  induction ts generalizing c i with
  | nil => simp at h
  | cons t0 ts ih =>
      cases i with
      | zero =>
          simp only [List.getElem?_cons_zero, Option.some.injEq] at h
          subst h
          simp [freeN, free_ret]
      | succ i =>
          simp only [List.getElem?_cons_succ] at h
          simp only [freeN, List.getElem?_cons_succ, List.take_succ_cons, List.mem_cons]
          rw [ih _ i h]
          congr 1
          unfold at'
          rw [lookup_free']
          by_cases h1 : t = t0 <;> by_cases h2 : t ∈ ts.take i <;> simp [h1, h2]

end Cab

/-! ### bulk runs of the pool -/
namespace Pool

/-- facts about `n` complete allocs from a pool whose free list is empty -/
theorem allocMany_fresh (p : Pool) (n : Nat) (h : p.parked = []) :
    (p.allocMany n).2 = List.range' p.nextBlk n ∧
    (p.allocMany n).1.parked = [] ∧ (p.allocMany n).1.nextBlk = p.nextBlk + n ∧
    (p.allocMany n).1.ctor = p.ctor + n ∧ (p.allocMany n).1.dtor = p.dtor ∧
    (p.allocMany n).1.released = p.released ∧ (p.allocMany n).1.keep = p.keep ∧
    (p.allocMany n).1.freeNum = p.freeNum ∧ (p.allocMany n).1.leaked = p.leaked ∧
    (p.allocMany n).1.stat.allocT = p.stat.allocT + n ∧ (p.allocMany n).1.stat.freeT = p.stat.freeT ∧
    (p.allocMany n).1.stat.peakF = p.stat.peakF ∧
    (p.allocMany n).1.stat.peakA = (if n = 0 then p.stat.peakA else max p.stat.peakA (p.stat.allocT + n - p.stat.freeT)) := by
  induction n generalizing p with
  | zero => simp [allocMany, h]
  | succ n ih =>
      have h1 : p.allocFull.1.parked = [] := by simp [allocFull, allocA, h, ctorEnter, allocB]
      obtain ⟨a1, a2, a3, a4, a5, a6, a7, a8, a9, a10, a11, a12, a13⟩ := ih p.allocFull.1 h1
      have e : p.allocFull.2 = p.nextBlk := by simp [allocFull, allocA, h]
      have f1 : p.allocFull.1.nextBlk = p.nextBlk + 1 := by simp [allocFull, allocA, h, ctorEnter, allocB]
      have f2 : p.allocFull.1.ctor = p.ctor + 1 := by simp [allocFull, allocA, h, ctorEnter, allocB]
      have f3 : p.allocFull.1.dtor = p.dtor := by simp [allocFull, allocA, h, ctorEnter, allocB]
      have f4 : p.allocFull.1.released = p.released := by simp [allocFull, allocA, h, ctorEnter, allocB]
      have f5 : p.allocFull.1.keep = p.keep := by simp [allocFull, allocA, h, ctorEnter, allocB]
      have f6 : p.allocFull.1.freeNum = p.freeNum := by simp [allocFull, allocA, h, ctorEnter, allocB]
      have f7 : p.allocFull.1.leaked = p.leaked := by simp [allocFull, allocA, h, ctorEnter, allocB]
      have f8 : p.allocFull.1.stat.allocT = p.stat.allocT + 1 := by simp [allocFull, allocA, h, ctorEnter, allocB]
      have f9 : p.allocFull.1.stat.freeT = p.stat.freeT := by simp [allocFull, allocA, h, ctorEnter, allocB]
      have f10 : p.allocFull.1.stat.peakF = p.stat.peakF := by simp [allocFull, allocA, h, ctorEnter, allocB]
      have f11 : p.allocFull.1.stat.peakA = max p.stat.peakA (p.stat.allocT + 1 - p.stat.freeT) := by
        simp only [allocFull, allocA, h, ctorEnter, allocB]
        rw [Nat.max_def]; split <;> split <;> omega
      simp only [allocMany]
      refine ⟨?_, a2, by omega, by omega, by omega, by rw [a6, f4], by rw [a7, f5], by omega, by omega,
        by omega, by omega, by omega, ?_⟩
      · rw [a1, f1, e, List.range'_succ]
      · rw [a13, f11, f8, f9]
        simp only [Nat.max_def]
        (repeat' split) <;> omega

/-- `n` complete allocs when at least `n` blocks are parked: exactly the parked blocks, head first -/
theorem allocMany_parked (p : Pool) (n : Nat) (h : n ≤ p.parked.length) :
    (p.allocMany n).2 = p.parked.take n ∧ (p.allocMany n).1.parked = p.parked.drop n ∧
    (p.allocMany n).1.nextBlk = p.nextBlk ∧ (p.allocMany n).1.freeNum = p.freeNum - n ∧
    (p.allocMany n).1.ctor = p.ctor + n := by
  induction n generalizing p with
  | zero => simp [allocMany]
  | succ n ih =>
      cases hp : p.parked with
      | nil => simp [hp] at h
      | cons b rest =>
          have e : p.allocFull.2 = b := by simp [allocFull, allocA, hp]
          have f1 : p.allocFull.1.parked = rest := by simp [allocFull, allocA, hp, ctorEnter, allocB]
          have f2 : p.allocFull.1.nextBlk = p.nextBlk := by simp [allocFull, allocA, hp, ctorEnter, allocB]
          have f3 : p.allocFull.1.freeNum = p.freeNum - 1 := by simp [allocFull, allocA, hp, ctorEnter, allocB]
          have f4 : p.allocFull.1.ctor = p.ctor + 1 := by simp [allocFull, allocA, hp, ctorEnter, allocB]
          obtain ⟨a1, a2, a3, a4, a5⟩ := ih p.allocFull.1 (by rw [f1]; simp [hp] at h; omega)
          simp only [allocMany]
          refine ⟨by rw [a1, e, f1]; simp, by rw [a2, f1]; simp, by omega, by omega, by omega⟩

/-- facts about freeing a list of blocks, in order: the first `keep − free_number_` are parked
(the last one parked becomes the head), the others go back to the system -/
theorem freeMany_closed (p : Pool) (bs : List Nat) :
    (p.freeMany bs).parked = (bs.take (p.keep - p.freeNum)).reverse ++ p.parked ∧
    (p.freeMany bs).released = (bs.drop (p.keep - p.freeNum)).reverse ++ p.released ∧
    (p.freeMany bs).freeNum = p.freeNum + min bs.length (p.keep - p.freeNum) ∧
    (p.freeMany bs).dtor = p.dtor + bs.length ∧ (p.freeMany bs).ctor = p.ctor ∧
    (p.freeMany bs).nextBlk = p.nextBlk ∧ (p.freeMany bs).keep = p.keep ∧ (p.freeMany bs).leaked = p.leaked ∧
    (p.freeMany bs).stat.freeT = p.stat.freeT + bs.length ∧ (p.freeMany bs).stat.allocT = p.stat.allocT ∧
    (p.freeMany bs).stat.peakA = p.stat.peakA ∧
    (p.freeMany bs).stat.peakF = max p.stat.peakF (if bs.length = 0 ∨ p.keep ≤ p.freeNum then 0 else p.freeNum + min bs.length (p.keep - p.freeNum)) := by
  induction bs generalizing p with
  | nil => simp [freeMany]
  | cons b bs ih =>
      obtain ⟨a1, a2, a3, a4, a5, a6, a7, a8, a9, a10, a11, a12⟩ := ih (p.free b)
      simp only [freeMany]
      by_cases hk : p.freeNum < p.keep
      · have g1 : (p.free b).parked = b :: p.parked := by simp [free, freeB, dtorEnter, hk]
        have g2 : (p.free b).released = p.released := by simp [free, freeB, dtorEnter, hk]
        have g3 : (p.free b).freeNum = p.freeNum + 1 := by simp [free, freeB, dtorEnter, hk]
        have g4 : (p.free b).dtor = p.dtor + 1 := by simp [free, freeB, dtorEnter, hk]
        have g5 : (p.free b).ctor = p.ctor := by simp [free, freeB, dtorEnter, hk]
        have g6 : (p.free b).nextBlk = p.nextBlk := by simp [free, freeB, dtorEnter, hk]
        have g7 : (p.free b).keep = p.keep := by simp [free, freeB, dtorEnter, hk]
        have g8 : (p.free b).leaked = p.leaked := by simp [free, freeB, dtorEnter, hk]
        have g9 : (p.free b).stat.freeT = p.stat.freeT + 1 := by simp [free, freeB, dtorEnter, hk]
        have g10 : (p.free b).stat.allocT = p.stat.allocT := by simp [free, freeB, dtorEnter, hk]
        have g11 : (p.free b).stat.peakA = p.stat.peakA := by simp [free, freeB, dtorEnter, hk]
        have g12 : (p.free b).stat.peakF = max p.stat.peakF (p.freeNum + 1) := by
          have : (p.free b).stat.peakF = if p.freeNum + 1 > p.stat.peakF then p.freeNum + 1 else p.stat.peakF := by
            simp [free, freeB, dtorEnter, hk]
          rw [this]; split <;> omega
        have hk1 : p.keep - p.freeNum = (p.keep - (p.freeNum + 1)) + 1 := by omega
        rw [g7, g3] at a1 a2 a3 a12
        refine ⟨?_, ?_, ?_, by rw [a4, g4]; simp; omega, by rw [a5, g5], by rw [a6, g6], by rw [a7, g7],
          by rw [a8, g8], by rw [a9, g9]; simp; omega, by rw [a10, g10], by rw [a11, g11], ?_⟩
        · rw [a1, g1, hk1, List.take_succ_cons]; simp
        · rw [a2, g2, hk1, List.drop_succ_cons]
        · rw [a3]; simp only [List.length_cons]; omega
        · rw [a12, g12]
          simp only [List.length_cons, Nat.max_def]
          (repeat' split) <;> omega
      · have g1 : (p.free b).parked = p.parked := by simp [free, freeB, dtorEnter, hk]
        have g2 : (p.free b).released = b :: p.released := by simp [free, freeB, dtorEnter, hk]
        have g3 : (p.free b).freeNum = p.freeNum := by simp [free, freeB, dtorEnter, hk]
        have g4 : (p.free b).dtor = p.dtor + 1 := by simp [free, freeB, dtorEnter, hk]
        have g5 : (p.free b).ctor = p.ctor := by simp [free, freeB, dtorEnter, hk]
        have g6 : (p.free b).nextBlk = p.nextBlk := by simp [free, freeB, dtorEnter, hk]
        have g7 : (p.free b).keep = p.keep := by simp [free, freeB, dtorEnter, hk]
        have g8 : (p.free b).leaked = p.leaked := by simp [free, freeB, dtorEnter, hk]
        have g9 : (p.free b).stat.freeT = p.stat.freeT + 1 := by simp [free, freeB, dtorEnter, hk]
        have g10 : (p.free b).stat.allocT = p.stat.allocT := by simp [free, freeB, dtorEnter, hk]
        have g11 : (p.free b).stat.peakA = p.stat.peakA := by simp [free, freeB, dtorEnter, hk]
        have g12 : (p.free b).stat.peakF = p.stat.peakF := by simp [free, freeB, dtorEnter, hk]
        have hk0 : p.keep - p.freeNum = 0 := by omega
        rw [g7, g3, hk0] at a1 a2 a3
        rw [g7, g3] at a12
        refine ⟨?_, ?_, ?_, by rw [a4, g4]; simp; omega, by rw [a5, g5], by rw [a6, g6], by rw [a7, g7],
          by rw [a8, g8], by rw [a9, g9]; simp; omega, by rw [a10, g10], by rw [a11, g11], ?_⟩
        · rw [a1, g1, hk0]; simp
        · rw [a2, g2, hk0]; simp
        · rw [a3, hk0]; simp
        · rw [a12, g12]
          have : p.keep ≤ p.freeNum := by omega
          simp [this]

theorem bulk_aux (p0 : Pool) (keep n m : Nat) (hm : m ≤ min n keep) (hp0 : p0.parked = []) (hk0 : p0.keep = keep)
    (hf0 : p0.freeNum = 0) (hs0 : p0.stat = {}) (r : Pool × List Nat) (hr : r = p0.allocMany n)
    (p2 : Pool) (hp2 : p2 = r.1.freeMany r.2) (r3 : Pool × List Nat) (hr3 : r3 = p2.allocMany m) :
    r.2 = List.range' p0.nextBlk n ∧ r.2.Nodup ∧ r.1.ctor = p0.ctor + n ∧ r.1.dtor = p0.dtor ∧
    r.1.stat.allocT = n ∧ r.1.stat.peakA = n ∧
    p2.parked = (r.2.take keep).reverse ∧ p2.released = (r.2.drop keep).reverse ++ p0.released ∧
    p2.freeNum = min n keep ∧ p2.parked.length = min n keep ∧
    p2.ctor = p0.ctor + n ∧ p2.dtor = p0.dtor + n ∧
    p2.stat = { allocT := n, freeT := n, peakA := n, peakF := min n keep } ∧
    r3.2 = p2.parked.take m ∧ r3.2.Nodup ∧ (∀ b ∈ r3.2, b ∈ r.2 ∧ b ∉ p2.released.take (n - min n keep)) ∧
    r3.1.nextBlk = p0.nextBlk + n := by
  have A := allocMany_fresh p0 n hp0
  rw [← hr] at A
  obtain ⟨a1, a2, a3, a4, a5, a6, a7, a8, a9, a10, a11, a12, a13⟩ := A
  have B := freeMany_closed r.1 r.2
  rw [← hp2] at B
  obtain ⟨b1, b2, b3, b4, b5, b6, b7, b8, b9, b10, b11, b12⟩ := B
  have hlen : r.2.length = n := by rw [a1]; simp
  have hnd : r.2.Nodup := by rw [a1]; exact List.nodup_range'
  rw [a7, a8, hk0, hf0, a2] at b1
  rw [a7, a8, hk0, hf0, a6] at b2
  rw [a7, a8, hk0, hf0, hlen] at b3
  rw [a7, a8, hk0, hf0, hlen, a12, hs0] at b12
  rw [a13, hs0] at b11
  rw [a10, hs0] at b10
  rw [a11, hs0, hlen] at b9
  have a10' : r.1.stat.allocT = n := by rw [a10, hs0]; show 0 + n = n; omega
  rw [hs0] at a13
  simp only [Nat.sub_zero, List.append_nil, Nat.zero_add] at b1 b2 b3 b9 b10 b11 b12 a13
  have hpl : p2.parked.length = min n keep := by rw [b1]; simp [hlen]; exact Nat.min_comm _ _
  have C := allocMany_parked p2 m (by rw [hpl]; exact hm)
  rw [← hr3] at C
  obtain ⟨c1, c2, c3, c4, c5⟩ := C
  have hsub : ∀ b ∈ p2.parked, b ∈ r.2 ∧ b ∉ (r.2.drop keep).reverse := by
    intro b hb
    rw [b1, List.mem_reverse] at hb
    refine ⟨List.mem_of_mem_take hb, ?_⟩
    rw [List.mem_reverse]
    intro hd
    have h1 : (r.2.take keep ++ r.2.drop keep).Nodup := by rw [List.take_append_drop]; exact hnd
    exact (List.nodup_append.1 h1).2.2 b hb b hd rfl
  have epA : (if n = 0 then (0 : Nat) else max 0 n) = n := by split <;> omega
  have e3 : p2.stat.peakA = n := by rw [b11]; exact epA
  have e4 : p2.stat.peakF = min n keep := by
    rw [b12]
    split <;> omega
  refine ⟨a1, hnd, a4, a5, a10', by rw [a13]; exact epA, b1, b2, b3, hpl, by rw [b5, a4], by rw [b4, a5, hlen], ?_,
    c1, ?_, ?_, by rw [c3, b6, a3]⟩
  · cases hs : p2.stat with
    | mk x1 x2 x3 x4 =>
      rw [hs] at b10 b9 e3 e4
      simp only at b10 b9 e3 e4
      rw [b10, b9, e3, e4]
  · rw [c1]
    have : p2.parked.Nodup := by rw [b1]; exact List.pairwise_reverse.2 ((hnd.sublist (List.take_sublist _ _)).imp (fun h => Ne.symm h))
    exact this.sublist (List.take_sublist _ _)
  · intro b hb
    rw [c1] at hb
    have := hsub b (List.mem_of_mem_take hb)
    refine ⟨this.1, ?_⟩
    intro hd
    rw [b2] at hd
    have hdl : ((r.2.drop keep).reverse).length = n - min n keep := by simp [hlen]; omega
    rw [List.take_left' hdl] at hd
    exact this.2 hd

theorem allocManyTR_eq (p : Pool) (n : Nat) (acc : List Nat) :
    p.allocManyTR n acc = ((p.allocMany n).1, (p.allocMany n).2.reverse ++ acc) := by
  induction n generalizing p acc with
  | zero => simp [allocManyTR, allocMany]
  | succ n ih => simp [allocManyTR, allocMany, ih]

end Pool
end Tbox.C08
