/- C08 — helper lemmas for the kernel-facing part of the Fd model (`Open`, read/write wrappers, fcntl
flags).  Core Lean only.  Property theorems are in `Props.lean`. -/
import TboxModel.C08.FdProofs
namespace Tbox.C08
namespace FdSys

/-! ### `flags` has one entry per descriptor ever opened -/

def FL (s : FdSys) : Prop := s.flags.length = s.nextRes

theorem release_fl (s : FdSys) (v : Option Nat) :
    (s.release v).flags = s.flags ∧ (s.release v).nextRes = s.nextRes := by
  unfold release
  cases v with
  | none => exact ⟨rfl, rfl⟩
  | some d =>
      simp only []
      cases s.details[d]? with
      | none => exact ⟨rfl, rfl⟩
      | some det => simp only []; split <;> exact ⟨rfl, rfl⟩

theorem del_fl (s : FdSys) (h : Nat) : (s.del h).flags = s.flags ∧ (s.del h).nextRes = s.nextRes := by
  unfold del setH
  exact release_fl s _

theorem copyInto_fl (s : FdSys) (d src : Nat) :
    (s.copyInto d src).flags = s.flags ∧ (s.copyInto d src).nextRes = s.nextRes := by
  unfold copyInto
  cases s.detailOf src with
  | none => exact ⟨rfl, rfl⟩
  | some x =>
      simp only [incRef, setH]
      cases s.details[x]? with
      | none => exact ⟨rfl, rfl⟩
      | some det => exact ⟨rfl, rfl⟩

theorem close_fl (s : FdSys) (h : Nat) : (s.close h).flags = s.flags ∧ (s.close h).nextRes = s.nextRes := by
  unfold close
  cases s.detailOf h with
  | none => exact ⟨rfl, rfl⟩
  | some d =>
      simp only []
      cases s.details[d]? with
      | none => exact ⟨rfl, rfl⟩
      | some det => simp only []; split <;> exact ⟨rfl, rfl⟩

theorem setNonBlock_fl (s : FdSys) (h : Nat) (en : Bool) :
    (s.setNonBlock h en).1.flags.length = s.flags.length := by
  unfold setNonBlock
  cases s.target h with
  | none => rfl
  | some fd =>
      simp only []
      cases s.kFlags fd with
      | none => rfl
      | some v => obtain ⟨nb, cx⟩ := v; simp only []; split <;> simp [kSet]

theorem setCloexec_fl (s : FdSys) (h : Nat) :
    (s.setCloexec h).1.flags.length = s.flags.length := by
  unfold setCloexec
  cases s.target h with
  | none => rfl
  | some fd =>
      simp only []
      cases s.kFlags fd with
      | none => rfl
      | some v => obtain ⟨nb, cx⟩ := v; simp only []; split <;> simp [kSet]

/-- every operation except the two `fcntl` setters leaves the flags of the existing descriptors
alone; a successful open appends the entry of the new one -/
theorem step_flags (s : FdSys) (op : FdOp) :
    (∀ h en, op ≠ .setNonBlock h en) → (∀ h, op ≠ .setCloexec h) →
    (s.step op).flags = s.flags ∧ (s.step op).nextRes = s.nextRes ∨
    (s.step op).flags = s.flags ++ [(false, false)] ∧ (s.step op).nextRes = s.nextRes + 1 := by
  intro h1 h2
  cases op with
  | fresh h => exact Or.inl (del_fl s h)
  | opn h fn =>
      right
      have := del_fl s h
      simp only [step, ctorFd]; rw [this.1, this.2]; exact ⟨rfl, rfl⟩
  | opnNeg h k fn => left; have := del_fl s h; simp only [step, ctorNeg]; exact this
  | copyCtor d src =>
      left; simp only [step]
      have a := copyInto_fl (s.del d) d src; have b := del_fl s d
      exact ⟨a.1.trans b.1, a.2.trans b.2⟩
  | moveCtor d src => left; have := del_fl s d; simp only [step, swap, setH]; exact this
  | copyAssign d src =>
      left; simp only [step, copyAssign]
      split
      · exact ⟨rfl, rfl⟩
      · rw [reset_eq_del]
        have a := copyInto_fl (s.del d) d src; have b := del_fl s d
        exact ⟨a.1.trans b.1, a.2.trans b.2⟩
  | moveAssign d src =>
      left; simp only [step, moveAssign]
      split
      · exact ⟨rfl, rfl⟩
      · rw [reset_eq_del]; have := del_fl s d; simp only [swap, setH]; exact this
  | swap a b => left; exact ⟨rfl, rfl⟩
  | reset h => left; simp only [step]; rw [reset_eq_del]; exact del_fl s h
  | close h => left; exact close_fl s h
  | openFile h ok =>
      have := del_fl s h
      simp only [step]
      split
      · right; simp only [ctorFd]; rw [this.1, this.2]; exact ⟨rfl, rfl⟩
      · left; exact this
  | io h k a => left; exact ⟨rfl, rfl⟩
  | setNonBlock h en => exact absurd rfl (h1 h en)
  | isNonBlock h => left; exact ⟨rfl, rfl⟩
  | setCloexec h => exact absurd rfl (h2 h)

theorem step_fl (s : FdSys) (op : FdOp) (hi : FL s) : FL (s.step op) := by
  unfold FL at hi ⊢
  by_cases h1 : ∃ h en, op = .setNonBlock h en
  · obtain ⟨h, en, e⟩ := h1; subst e
    simp only [step]; rw [setNonBlock_fl, (setNonBlock_frame s h en).2.2.2]; exact hi
  · by_cases h2 : ∃ h, op = .setCloexec h
    · obtain ⟨h, e⟩ := h2; subst e
      simp only [step]; rw [setCloexec_fl, (setCloexec_frame s h).2.2.2]; exact hi
    · rcases step_flags s op (fun h en e => h1 ⟨h, en, e⟩) (fun h e => h2 ⟨h, e⟩) with ⟨a, b⟩ | ⟨a, b⟩
      · rw [a, b]; exact hi
      · rw [a, b]; simp [hi]

theorem run_fl (s : FdSys) (ops : List FdOp) (hi : FL s) : FL (s.run ops) := by
  induction ops generalizing s with
  | nil => exact hi
  | cons op ops ih => exact ih _ (step_fl s op hi)

theorem init_fl : FL FdSys.init := rfl

/-! ### what a member function hands to the kernel -/

theorem any_false_of_not_mem (log : List (Nat × Bool)) (x : Nat) (h : x ∉ log.map (·.1)) :
    log.any (·.1 == x) = false := by
  induction log with
  | nil => rfl
  | cons a l ih =>
      simp only [List.map_cons, List.mem_cons, not_or] at h
      simp only [List.any_cons, Bool.or_eq_false_iff]
      refine ⟨?_, ih h.2⟩
      have : ¬ a.1 = x := fun e => h.1 e.symm
      simpa using this

theorem mem_of_any (log : List (Nat × Bool)) (x : Nat) (h : log.any (·.1 == x) = true) : x ∈ log.map (·.1) := by
  induction log with
  | nil => simp at h
  | cons a l ih =>
      simp only [List.any_cons, Bool.or_eq_true] at h
      simp only [List.map_cons, List.mem_cons]
      rcases h with h | h
      · left; have : a.1 = x := by simpa using h
        exact this.symm
      · right; exact ih h

/-- in a consistent state the number handed to the kernel is what `get()` reports, and when it is not
negative it is an open descriptor: never one that has been closed -/
theorem target_open (s : FdSys) (h : Nat) (fd : Int) (hi : FInv s) (ht : s.target h = some fd) :
    s.get h = fd ∧ (0 ≤ fd → s.kOpen fd = true) := by
  obtain ⟨hr, hc⟩ := hi
  unfold target at ht
  cases hx : s.detailOf h with
  | none => simp [hx] at ht
  | some d =>
      simp only [hx] at ht
      cases hd : s.details[d]? with
      | none => simp [hd] at ht
      | some det =>
          simp only [hd, Option.some.injEq] at ht
          subst ht
          refine ⟨by simp [get, hx, hd], ?_⟩
          intro h0
          obtain ⟨det', hd', hf⟩ := hr.noDangle h d (handle_some s h d hx)
          rw [hd] at hd'; cases hd'
          have := hc.fdOpen d det hd hf h0
          unfold kOpen
          simp [h0, this.1, any_false_of_not_mem _ _ this.2]

theorem target_none (s : FdSys) (h : Nat) (hi : FInv s) : s.target h = none ↔ s.detailOf h = none := by
  unfold target
  cases hx : s.detailOf h with
  | none => simp
  | some d =>
      obtain ⟨det, hd, _⟩ := hi.1.noDangle h d (handle_some s h d hx)
      simp [hd]

theorem kFlags_some (s : FdSys) (fd : Int) (hl : FL s) (ho : s.kOpen fd = true) :
    ∃ v, s.kFlags fd = some v ∧ s.flags[fd.toNat]? = some v := by
  unfold kFlags
  simp only [ho, if_true]
  have : fd.toNat < s.flags.length := by
    unfold kOpen at ho
    simp only [Bool.and_eq_true, decide_eq_true_eq] at ho
    rw [hl]; exact ho.1.2
  exact ⟨s.flags[fd.toNat], List.getElem?_eq_getElem this, List.getElem?_eq_getElem this⟩

theorem kOpen_kSet (s : FdSys) (fd fd' : Int) (v : Bool × Bool) : (s.kSet fd v).kOpen fd' = s.kOpen fd' := rfl

theorem kFlags_kSet_self (s : FdSys) (fd : Int) (v w : Bool × Bool) (h : s.kFlags fd = some w) :
    (s.kSet fd v).kFlags fd = some v := by
  unfold kFlags at h ⊢
  rw [kOpen_kSet]
  split at h
  · rename_i ho
    simp only [ho, if_true, kSet]
    have : fd.toNat < s.flags.length := lt_of_getElem? _ _ _ h
    simp [this]
  · cases h

theorem kFlags_kSet_other (s : FdSys) (fd fd' : Int) (v : Bool × Bool) (h0 : 0 ≤ fd) (h0' : 0 ≤ fd')
    (hne : fd' ≠ fd) : (s.kSet fd v).kFlags fd' = s.kFlags fd' := by
  unfold kFlags
  rw [kOpen_kSet]
  split
  · simp only [kSet]
    rw [List.getElem?_set_ne]
    intro e; apply hne; omega
  · rfl

theorem release_handles (s : FdSys) (v : Option Nat) : (s.release v).handles = s.handles := by
  unfold release
  cases v with
  | none => rfl
  | some x =>
      simp only []
      cases s.details[x]? with
      | none => rfl
      | some det => simp only []; split <;> rfl

theorem del_detailOf_ne (s : FdSys) (d src : Nat) (hne : d ≠ src) : (s.del d).detailOf src = s.detailOf src := by
  unfold del setH detailOf
  simp only [release_handles]
  rw [List.getElem?_set_ne hne]

/-! ### every system call of a member function is made on `target` -/

theorem io_calls (s : FdSys) (h k : Nat) (a : Int) (fd : Int) (ht : s.target h = some fd) :
    ∀ c ∈ (s.io h k a).2, c.fd = fd := by
  intro c hc
  simp only [io, ht, List.mem_singleton] at hc
  subst hc; rfl

theorem mem_pair {c a b : Sys} (h : c ∈ [a, b]) : c = a ∨ c = b := by
  simp only [List.mem_cons, List.not_mem_nil, or_false] at h; exact h

theorem mem_one {c a : Sys} (h : c ∈ [a]) : c = a := by
  simp only [List.mem_singleton] at h; exact h

theorem setNonBlock_calls (s : FdSys) (h : Nat) (en : Bool) (fd : Int) (ht : s.target h = some fd) :
    ∀ c ∈ (s.setNonBlock h en).2, c.fd = fd := by
  intro c hc
  simp only [setNonBlock, ht] at hc
  cases hf : s.kFlags fd with
  | none =>
      simp only [hf] at hc
      split at hc
      · rw [mem_one hc]; rfl
      · rcases mem_pair hc with e | e <;> rw [e] <;> rfl
  | some v =>
      obtain ⟨nb, cx⟩ := v
      simp only [hf] at hc
      split at hc
      · rw [mem_one hc]; rfl
      · rcases mem_pair hc with e | e <;> rw [e] <;> rfl

theorem isNonBlock_calls (s : FdSys) (h : Nat) (fd : Int) (ht : s.target h = some fd) :
    ∀ c ∈ (s.isNonBlock h).2, c.fd = fd := by
  intro c hc
  simp only [isNonBlock, ht] at hc
  cases hf : s.kFlags fd with
  | none => simp only [hf] at hc; rw [mem_one hc]; rfl
  | some v => obtain ⟨nb, cx⟩ := v; simp only [hf] at hc; rw [mem_one hc]; rfl

theorem setCloexec_calls (s : FdSys) (h : Nat) (fd : Int) (ht : s.target h = some fd) :
    ∀ c ∈ (s.setCloexec h).2, c.fd = fd := by
  intro c hc
  simp only [setCloexec, ht] at hc
  cases hf : s.kFlags fd with
  | none => simp only [hf] at hc; rw [mem_one hc]; rfl
  | some v =>
      obtain ⟨nb, cx⟩ := v
      simp only [hf] at hc
      split at hc
      · rw [mem_one hc]; rfl
      · rcases mem_pair hc with e | e <;> rw [e] <;> rfl

/-- every call an operation makes is made on the `target` of one of the handles -/
theorem calls_target (s : FdSys) (op : FdOp) (c : Sys) (hc : c ∈ s.calls op) :
    ∃ h fd, s.target h = some fd ∧ c.fd = fd := by
  cases op with
  | io h k a =>
      simp only [calls] at hc
      cases ht : s.target h with
      | none => simp [io, ht] at hc
      | some fd => exact ⟨h, fd, ht, io_calls s h k a fd ht c hc⟩
  | setNonBlock h en =>
      simp only [calls] at hc
      cases ht : s.target h with
      | none => simp [setNonBlock, ht] at hc
      | some fd => exact ⟨h, fd, ht, setNonBlock_calls s h en fd ht c hc⟩
  | isNonBlock h =>
      simp only [calls] at hc
      cases ht : s.target h with
      | none => simp [isNonBlock, ht] at hc
      | some fd => exact ⟨h, fd, ht, isNonBlock_calls s h fd ht c hc⟩
  | setCloexec h =>
      simp only [calls] at hc
      cases ht : s.target h with
      | none => simp [setCloexec, ht] at hc
      | some fd => exact ⟨h, fd, ht, setCloexec_calls s h fd ht c hc⟩
  | fresh _ | opn _ _ | opnNeg _ _ _ | copyCtor _ _ | moveCtor _ _ | copyAssign _ _ | moveAssign _ _ | swap _ _
  | reset _ | close _ | openFile _ _ => simp [calls] at hc

end FdSys
end Tbox.C08
