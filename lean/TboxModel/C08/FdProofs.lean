/- C08 — helper lemmas for the Fd model (core Lean only). Property theorems are in `Props.lean`. -/
import TboxModel.C08.Model
namespace Tbox.C08

theorem count_set_int (l : List (Option Nat)) (i : Nat) (a x : Option Nat) (h : i < l.length) :
    ((l.set i a).count x : Int) =
      (l.count x : Int) - (if l[i]? = some x then 1 else 0) + (if a = x then 1 else 0) := by
  rw [List.count_set h]
  have hpos : l[i]? = some x → 0 < l.count x := by
    intro hx
    apply List.count_pos_iff.2
    rw [List.getElem?_eq_getElem h] at hx
    cases hx; exact List.getElem_mem h
  have e1 : l[i]? = some x ↔ l[i] = x := by rw [List.getElem?_eq_getElem h]; simp
  by_cases h1 : l[i] = x <;> by_cases h2 : a = x
  · have := hpos (e1.2 h1); simp [e1, h1, h2]; omega
  · have := hpos (e1.2 h1); simp [e1, h1, h2]; omega
  · simp [e1, h1, h2]
  · simp [e1, h1, h2]

theorem lt_of_getElem? {α} (l : List α) (p : Nat) (x : α) (h : l[p]? = some x) : p < l.length := by
  rcases Nat.lt_or_ge p l.length with h' | h'
  · exact h'
  · rw [List.getElem?_eq_none h'] at h; cases h

/-- reference counts: every live detail is referenced by exactly `ref ≥ 1` handles and no handle
points to a deleted detail -/
structure RInv (details : List Detail) (handles : List (Option Nat)) : Prop where
  len : handles.length = nFdSlots
  refOk : ∀ (d : Nat) (det : Detail), details[d]? = some det → det.freed = false →
            det.ref = (handles.count (some d) : Int) ∧ 1 ≤ det.ref
  noDangle : ∀ (h d : Nat), handles[h]? = some (some d) →
            ∃ det, details[d]? = some det ∧ det.freed = false

/-- closing: the log has no duplicates; a descriptor held by a live detail has not been closed;
two live details hold different descriptors; an opened descriptor that has not been closed is
still held by a live detail -/
structure CInv (details : List Detail) (log : List (Nat × Bool)) (nextRes : Nat) : Prop where
  logNodup : (log.map (·.1)).Nodup
  logBound : ∀ r, r ∈ log.map (·.1) → r < nextRes
  fdOpen : ∀ (d : Nat) (det : Detail), details[d]? = some det → det.freed = false → 0 ≤ det.fd →
            det.fd.toNat < nextRes ∧ det.fd.toNat ∉ log.map (·.1)
  fdUniq : ∀ (d d' : Nat) (det det' : Detail), details[d]? = some det → details[d']? = some det' →
            det.freed = false → det'.freed = false → 0 ≤ det.fd → det.fd = det'.fd → d = d'
  noLeak : ∀ r, r < nextRes → r ∉ log.map (·.1) →
            ∃ (d : Nat) (det : Detail), details[d]? = some det ∧ det.freed = false ∧ det.fd = (r : Int)

def FInv (s : FdSys) : Prop := RInv s.details s.handles ∧ CInv s.details s.closeLog s.nextRes

theorem getElem?_set_eq' (l : List Detail) (d d' : Nat) (x y : Detail) (hd : l[d]? = some x)
    (h : (l.set d y)[d']? = some det) : (d' = d ∧ det = y) ∨ (d' ≠ d ∧ l[d']? = some det) := by
  have hlt := lt_of_getElem? _ _ _ hd
  rw [List.getElem?_set] at h
  by_cases e : d = d'
  · simp [e] at h; rw [← e] at h; simp [hlt] at h; left; exact ⟨e.symm, h.symm⟩
  · simp [e] at h; right; exact ⟨fun h' => e h'.symm, h⟩

/-! ### reference-count group -/

/-- a detail update that keeps `ref` and `freed` (e.g. `close()`) -/
theorem R_same (details : List Detail) (handles : List (Option Nat)) (d : Nat) (det det' : Detail)
    (hi : RInv details handles) (hd : details[d]? = some det)
    (h1 : det'.ref = det.ref) (h2 : det'.freed = det.freed) : RInv (details.set d det') handles := by
  have hlt := lt_of_getElem? _ _ _ hd
  refine ⟨hi.len, ?_, ?_⟩
  · intro d' x hx hf
    rcases getElem?_set_eq' _ _ _ _ _ hd hx with ⟨e, ex⟩ | ⟨e, ex⟩
    · subst e; subst ex; rw [h1]; exact hi.refOk _ det hd (h2 ▸ hf)
    · exact hi.refOk d' x ex hf
  · intro h d' hh
    obtain ⟨x, hx, hf⟩ := hi.noDangle h d' hh
    by_cases e : d' = d
    · subst e; rw [hd] at hx; cases hx
      exact ⟨det', by simp [hlt], h2 ▸ hf⟩
    · exact ⟨x, by rw [List.getElem?_set_ne (fun h' => e h'.symm)]; exact hx, hf⟩

/-- handle `h` lets go of detail `d` -/
theorem R_dec (details : List Detail) (handles : List (Option Nat)) (h d : Nat) (det : Detail)
    (hi : RInv details handles) (hh : handles[h]? = some (some d)) (hd : details[d]? = some det) :
    RInv (details.set d (if det.ref - 1 = 0 then { det with ref := det.ref - 1, freed := true }
                         else { det with ref := det.ref - 1 })) (handles.set h none) := by
  have hlt := lt_of_getElem? _ _ _ hd
  have hhl := lt_of_getElem? _ _ _ hh
  obtain ⟨det0, hd0, hf0⟩ := hi.noDangle h d hh
  rw [hd] at hd0; cases hd0
  have hr := hi.refOk d det hd hf0
  have hcnt : ∀ x : Nat, ((handles.set h none).count (some x) : Int) =
      handles.count (some x) - (if x = d then 1 else 0) := by
    intro x
    rw [count_set_int _ _ _ _ hhl, hh]
    by_cases e : x = d
    · subst e; simp
    · have e' : ¬ d = x := fun h => e h.symm
      simp [e, e']
  refine ⟨by simp [hi.len], ?_, ?_⟩
  · intro d' x hx hf
    rcases getElem?_set_eq' _ _ _ _ _ hd hx with ⟨e, ex⟩ | ⟨e, ex⟩
    · subst e; subst ex
      rw [hcnt d']
      split at hf
      · simp at hf
      · rename_i hne
        split
        · contradiction
        · simp; omega
    · rw [hcnt d']; simp [e]; exact hi.refOk d' x ex hf
  · intro h' d' hh'
    have hne : h' ≠ h := by
      intro e; subst e; simp [hhl] at hh'
    rw [List.getElem?_set_ne (fun e => hne e.symm)] at hh'
    obtain ⟨x, hx, hf⟩ := hi.noDangle h' d' hh'
    by_cases e : d' = d
    · subst e; rw [hd] at hx; cases hx
      have hmem : some d' ∈ handles.set h none := by
        apply List.mem_iff_getElem?.2
        exact ⟨h', by rw [List.getElem?_set_ne (fun e => hne e.symm)]; exact hh'⟩
      have hpos : 0 < (handles.set h none).count (some d') := List.count_pos_iff.2 hmem
      have hc := hcnt d'
      simp only [if_true] at hc
      refine ⟨(if det.ref - 1 = 0 then { det with ref := det.ref - 1, freed := true }
               else { det with ref := det.ref - 1 }), by simp [hlt], ?_⟩
      split
      · rename_i h0; omega
      · exact hf
    · exact ⟨x, by rw [List.getElem?_set_ne (fun h' => e h'.symm)]; exact hx, hf⟩

/-- the empty handle `h` becomes one more owner of the live detail `x` -/
theorem R_attach (details : List Detail) (handles : List (Option Nat)) (h x : Nat) (det : Detail)
    (hi : RInv details handles) (hh : handles[h]? = some none) (hd : details[x]? = some det)
    (hf : det.freed = false) :
    RInv (details.set x { det with ref := det.ref + 1 }) (handles.set h (some x)) := by
  have hlt := lt_of_getElem? _ _ _ hd
  have hhl := lt_of_getElem? _ _ _ hh
  have hcnt : ∀ y : Nat, ((handles.set h (some x)).count (some y) : Int) =
      handles.count (some y) + (if y = x then 1 else 0) := by
    intro y
    rw [count_set_int _ _ _ _ hhl, hh]
    by_cases e : y = x
    · subst e; simp
    · have e' : ¬ x = y := fun h => e h.symm
      simp [e, e']
  refine ⟨by simp [hi.len], ?_, ?_⟩
  · intro d' y hy hfy
    rcases getElem?_set_eq' _ _ _ _ _ hd hy with ⟨e, ey⟩ | ⟨e, ey⟩
    · subst e; subst ey
      have := hi.refOk d' det hd hf
      rw [hcnt d']; simp; omega
    · rw [hcnt d']; simp [e]; exact hi.refOk d' y ey hfy
  · intro h' d' hh'
    by_cases e : d' = x
    · subst e; exact ⟨{ det with ref := det.ref + 1 }, by simp [hlt], hf⟩
    · have hne : h' ≠ h := by
        intro e'; subst e'; simp [hhl] at hh'; exact e hh'.symm
      rw [List.getElem?_set_ne (fun e => hne e.symm)] at hh'
      obtain ⟨y, hy, hfy⟩ := hi.noDangle h' d' hh'
      exact ⟨y, by rw [List.getElem?_set_ne (fun h' => e h'.symm)]; exact hy, hfy⟩

/-- two handles exchange their pointers -/
theorem R_swap (details : List Detail) (handles : List (Option Nat)) (a b : Nat) (va vb : Option Nat)
    (hi : RInv details handles) (ha : handles[a]? = some va) (hb : handles[b]? = some vb) :
    RInv details ((handles.set a vb).set b va) := by
  have hal := lt_of_getElem? _ _ _ ha
  have hbl := lt_of_getElem? _ _ _ hb
  have hb' : (handles.set a vb)[b]? = some vb := by
    rw [List.getElem?_set]; by_cases e : a = b
    · simp [e, hbl]
    · simp [e, hb]
  have hcnt : ∀ y : Option Nat, (((handles.set a vb).set b va).count y : Int) = handles.count y := by
    intro y
    rw [count_set_int _ _ _ _ (by simpa using hbl), hb', count_set_int _ _ _ _ hal, ha]
    by_cases e1 : va = y <;> by_cases e2 : vb = y <;> simp [e1, e2]
  refine ⟨by simp [hi.len], ?_, ?_⟩
  · intro d det hd hf; rw [hcnt]; exact hi.refOk d det hd hf
  · intro h d hh
    by_cases e : b = h
    · subst e
      rw [List.getElem?_set_self (by simpa using hbl)] at hh
      cases hh; exact hi.noDangle a d ha
    · rw [List.getElem?_set_ne e] at hh
      by_cases e' : a = h
      · subst e'
        rw [List.getElem?_set_self hal] at hh
        cases hh; exact hi.noDangle b d hb
      · rw [List.getElem?_set_ne e'] at hh; exact hi.noDangle h d hh

/-- `new Detail` referenced by the empty handle `h` -/
theorem R_ctor (details : List Detail) (handles : List (Option Nat)) (h : Nat) (det : Detail)
    (hi : RInv details handles) (hh : handles[h]? = some none) (hr : det.ref = 1) (hf : det.freed = false) :
    RInv (details ++ [det]) (handles.set h (some details.length)) := by
  have hhl := lt_of_getElem? _ _ _ hh
  have hcnt : ∀ y : Nat, ((handles.set h (some details.length)).count (some y) : Int) =
      handles.count (some y) + (if y = details.length then 1 else 0) := by
    intro y
    rw [count_set_int _ _ _ _ hhl, hh]
    by_cases e : y = details.length
    · subst e; simp
    · have e' : ¬ details.length = y := fun h => e h.symm
      simp [e, e']
  have hzero : handles.count (some details.length) = 0 := by
    apply List.count_eq_zero.2
    intro hm
    obtain ⟨k, hk⟩ := List.mem_iff_getElem?.1 hm
    obtain ⟨x, hx, _⟩ := hi.noDangle k _ hk
    have := lt_of_getElem? _ _ _ hx
    omega
  refine ⟨by simp [hi.len], ?_, ?_⟩
  · intro d x hx hfx
    rw [List.getElem?_append] at hx
    split at hx
    · rename_i hlt
      rw [hcnt d]; simp [Nat.ne_of_lt hlt]; exact hi.refOk d x hx hfx
    · rename_i hge
      have hd : d = details.length := by
        cases hq : d - details.length with
        | zero => omega
        | succ n => simp [hq] at hx
      subst hd
      simp at hx; subst hx
      rw [hcnt, hzero, hr]; simp
  · intro h' d hh'
    by_cases e : h' = h
    · subst e; simp [hhl] at hh'; subst hh'
      exact ⟨det, by simp, hf⟩
    · rw [List.getElem?_set_ne (fun e' => e e'.symm)] at hh'
      obtain ⟨x, hx, hfx⟩ := hi.noDangle h' d hh'
      have := lt_of_getElem? _ _ _ hx
      exact ⟨x, by rw [List.getElem?_append_left this]; exact hx, hfx⟩

/-! ### close group -/

/-- a detail update that keeps `fd` and `freed` -/
theorem C_same (details : List Detail) (log : List (Nat × Bool)) (n d : Nat) (det det' : Detail)
    (hi : CInv details log n) (hd : details[d]? = some det)
    (h1 : det'.fd = det.fd) (h2 : det'.freed = det.freed) : CInv (details.set d det') log n := by
  have hlt := lt_of_getElem? _ _ _ hd
  have back : ∀ (d' : Nat) (x : Detail), (details.set d det')[d']? = some x →
      ∃ y, details[d']? = some y ∧ y.fd = x.fd ∧ y.freed = x.freed := by
    intro d' x hx
    rcases getElem?_set_eq' _ _ _ _ _ hd hx with ⟨e, ex⟩ | ⟨e, ex⟩
    · subst e; subst ex; exact ⟨det, hd, h1.symm, h2.symm⟩
    · exact ⟨x, ex, rfl, rfl⟩
  refine ⟨hi.logNodup, hi.logBound, ?_, ?_, ?_⟩
  · intro d' x hx hf hfd
    obtain ⟨y, hy, e1, e2⟩ := back d' x hx
    rw [← e1]; exact hi.fdOpen d' y hy (e2 ▸ hf) (e1 ▸ hfd)
  · intro d1 d2 x1 x2 hx1 hx2 hf1 hf2 hfd he
    obtain ⟨y1, hy1, e1, e2⟩ := back d1 x1 hx1
    obtain ⟨y2, hy2, e3, e4⟩ := back d2 x2 hx2
    exact hi.fdUniq d1 d2 y1 y2 hy1 hy2 (e2 ▸ hf1) (e4 ▸ hf2) (e1 ▸ hfd) (by rw [e1, e3]; exact he)
  · intro r hr hnl
    obtain ⟨d', y, hy, hf, hfd⟩ := hi.noLeak r hr hnl
    by_cases e : d' = d
    · subst e; rw [hd] at hy; cases hy
      exact ⟨d', det', by simp [hlt], h2 ▸ hf, h1 ▸ hfd⟩
    · exact ⟨d', y, by rw [List.getElem?_set_ne (fun h' => e h'.symm)]; exact hy, hf, hfd⟩

/-- the live detail `d` stops holding its descriptor (it is deleted, or `close()` sets fd = -1) and
the descriptor, if any, is logged as closed -/
theorem C_retire (details : List Detail) (log : List (Nat × Bool)) (n d : Nat) (det det' : Detail) (fn : Bool)
    (hi : CInv details log n) (hd : details[d]? = some det) (hf : det.freed = false)
    (h' : det'.freed = true ∨ det'.fd < 0) :
    CInv (details.set d det') (if 0 ≤ det.fd then log ++ [(det.fd.toNat, fn)] else log) n := by
  have hlt := lt_of_getElem? _ _ _ hd
  have hmap : ((if 0 ≤ det.fd then log ++ [(det.fd.toNat, fn)] else log).map (·.1)) =
      if 0 ≤ det.fd then log.map (·.1) ++ [det.fd.toNat] else log.map (·.1) := by
    split <;> simp
  have hopen := hi.fdOpen d det hd hf
  refine ⟨?_, ?_, ?_, ?_, ?_⟩
  · rw [hmap]; split
    · rename_i h0
      rw [List.nodup_append]
      refine ⟨hi.logNodup, by simp, ?_⟩
      intro a ha b hb; simp at hb; subst hb
      intro e; subst e; exact (hopen h0).2 ha
    · exact hi.logNodup
  · intro r hr
    rw [hmap] at hr; split at hr
    · rename_i h0
      simp at hr
      rcases hr with hr | hr
      · exact hi.logBound r (by simpa using hr)
      · subst hr; exact (hopen h0).1
    · exact hi.logBound r hr
  · intro d' x hx hfx hfd
    rcases getElem?_set_eq' _ _ _ _ _ hd hx with ⟨e, ex⟩ | ⟨e, ex⟩
    · subst ex; rcases h' with h' | h'
      · rw [h'] at hfx; cases hfx
      · omega
    · have := hi.fdOpen d' x ex hfx hfd
      refine ⟨this.1, ?_⟩
      rw [hmap]; split
      · rename_i h0
        simp only [List.mem_append, List.mem_singleton, not_or]
        refine ⟨this.2, ?_⟩
        intro e2
        have : x.fd = det.fd := by omega
        exact e (hi.fdUniq d' d x det ex hd hfx hf hfd this)
      · exact this.2
  · intro d1 d2 x1 x2 hx1 hx2 hf1 hf2 hfd he
    rcases getElem?_set_eq' _ _ _ _ _ hd hx1 with ⟨e1, ex1⟩ | ⟨e1, ex1⟩
    · subst ex1; rcases h' with h' | h'
      · rw [h'] at hf1; cases hf1
      · omega
    · rcases getElem?_set_eq' _ _ _ _ _ hd hx2 with ⟨e2, ex2⟩ | ⟨e2, ex2⟩
      · subst ex2; rcases h' with h' | h'
        · rw [h'] at hf2; cases hf2
        · omega
      · exact hi.fdUniq d1 d2 x1 x2 ex1 ex2 hf1 hf2 hfd he
  · intro r hr hnl
    rw [hmap] at hnl
    have hnl' : r ∉ log.map (·.1) := by
      intro hm; apply hnl; split
      · simp only [List.mem_append]; exact Or.inl hm
      · exact hm
    obtain ⟨d', y, hy, hfy, hfd⟩ := hi.noLeak r hr hnl'
    have hne : d' ≠ d := by
      intro e; subst e; rw [hd] at hy; cases hy
      have h0 : 0 ≤ det.fd := by omega
      apply hnl; simp only [h0, if_true, List.mem_append, List.mem_singleton]
      right; omega
    exact ⟨d', y, by rw [List.getElem?_set_ne (fun h' => hne h'.symm)]; exact hy, hfy, hfd⟩

/-- `new Detail` holding the freshly opened descriptor number `n` -/
theorem C_ctor (details : List Detail) (log : List (Nat × Bool)) (n : Nat) (det : Detail)
    (hi : CInv details log n) (hfd : det.fd = (n : Int)) (hf : det.freed = false) :
    CInv (details ++ [det]) log (n + 1) := by
  have back : ∀ (d : Nat) (x : Detail), (details ++ [det])[d]? = some x →
      (d < details.length ∧ details[d]? = some x) ∨ (d = details.length ∧ x = det) := by
    intro d x hx
    rw [List.getElem?_append] at hx
    split at hx
    · rename_i hlt; exact Or.inl ⟨hlt, hx⟩
    · right
      cases hq : d - details.length with
      | zero => simp [hq] at hx; exact ⟨by omega, hx.symm⟩
      | succ k => simp [hq] at hx
  refine ⟨hi.logNodup, fun r hr => Nat.lt_succ_of_lt (hi.logBound r hr), ?_, ?_, ?_⟩
  · intro d x hx hfx h0
    rcases back d x hx with ⟨_, ex⟩ | ⟨_, ex⟩
    · have := hi.fdOpen d x ex hfx h0; exact ⟨by omega, this.2⟩
    · subst ex; rw [hfd]
      refine ⟨by simp, ?_⟩
      intro hm
      have := hi.logBound n (by simpa using hm); omega
  · intro d1 d2 x1 x2 hx1 hx2 hf1 hf2 h0 he
    rcases back d1 x1 hx1 with ⟨l1, ex1⟩ | ⟨l1, ex1⟩ <;> rcases back d2 x2 hx2 with ⟨l2, ex2⟩ | ⟨l2, ex2⟩
    · exact hi.fdUniq d1 d2 x1 x2 ex1 ex2 hf1 hf2 h0 he
    · subst ex2; have := (hi.fdOpen d1 x1 ex1 hf1 h0).1; omega
    · subst ex1; have := (hi.fdOpen d2 x2 ex2 hf2 (by omega)).1; omega
    · omega
  · intro r hr hnl
    by_cases e : r = n
    · subst e; exact ⟨details.length, det, by simp, hf, hfd⟩
    · obtain ⟨d, y, hy, hfy, hfd'⟩ := hi.noLeak r (by omega) hnl
      have := lt_of_getElem? _ _ _ hy
      exact ⟨d, y, by rw [List.getElem?_append_left this]; exact hy, hfy, hfd'⟩

/-- `new Detail` holding an invalid (negative) descriptor number -/
theorem C_ctor_neg (details : List Detail) (log : List (Nat × Bool)) (n : Nat) (det : Detail)
    (hi : CInv details log n) (hfd : det.fd < 0) :
    CInv (details ++ [det]) log n := by
  have back : ∀ (d : Nat) (x : Detail), (details ++ [det])[d]? = some x →
      (d < details.length ∧ details[d]? = some x) ∨ (d = details.length ∧ x = det) := by
    intro d x hx
    rw [List.getElem?_append] at hx
    split at hx
    · rename_i hlt; exact Or.inl ⟨hlt, hx⟩
    · right
      cases hq : d - details.length with
      | zero => simp [hq] at hx; exact ⟨by omega, hx.symm⟩
      | succ k => simp [hq] at hx
  refine ⟨hi.logNodup, hi.logBound, ?_, ?_, ?_⟩
  · intro d x hx hfx h0
    rcases back d x hx with ⟨_, ex⟩ | ⟨_, ex⟩
    · exact hi.fdOpen d x ex hfx h0
    · subst ex; omega
  · intro d1 d2 x1 x2 hx1 hx2 hf1 hf2 h0 he
    rcases back d1 x1 hx1 with ⟨l1, ex1⟩ | ⟨l1, ex1⟩ <;> rcases back d2 x2 hx2 with ⟨l2, ex2⟩ | ⟨l2, ex2⟩
    · exact hi.fdUniq d1 d2 x1 x2 ex1 ex2 hf1 hf2 h0 he
    · subst ex2; omega
    · subst ex1; omega
    · omega
  · intro r hr hnl
    obtain ⟨d, y, hy, hfy, hfd'⟩ := hi.noLeak r hr hnl
    have := lt_of_getElem? _ _ _ hy
    exact ⟨d, y, by rw [List.getElem?_append_left this]; exact hy, hfy, hfd'⟩

/-! ### the member functions -/

namespace FdSys

theorem set_same {α} (l : List α) (i : Nat) (a : α) (h : l[i]? = some a) : l.set i a = l := by
  apply List.ext_getElem?
  intro j
  rw [List.getElem?_set]
  by_cases e : i = j
  · subst e
    have hl := lt_of_getElem? _ _ _ h
    simp only [if_true, hl]
    exact h.symm
  · simp [e]

theorem detailOf_eq (s : FdSys) (h : Nat) (v : Option Nat) (hv : s.handles[h]? = some v) :
    s.detailOf h = v := by
  simp [detailOf, hv]

theorem handle_some (s : FdSys) (h x : Nat) (hd : s.detailOf h = some x) : s.handles[h]? = some (some x) := by
  unfold detailOf at hd
  cases hv : s.handles[h]? with
  | none => simp [hv] at hd
  | some v => simp [hv] at hd; rw [hd]

theorem reset_eq_del (s : FdSys) (h : Nat) : s.reset h = s.del h := by
  unfold reset del
  cases hd : s.detailOf h with
  | none => rfl
  | some x =>
    simp only [release, setH]
    cases hx : s.details[x]? with
    | none => rfl
    | some det => simp only []; split <;> rfl

theorem del_inv (s : FdSys) (h : Nat) (hi : FInv s) (hh : h < nFdSlots) :
    FInv (s.del h) ∧ (s.del h).handles[h]? = some none := by
  obtain ⟨hr, hc⟩ := hi
  have hlen : h < s.handles.length := by rw [hr.len]; exact hh
  have hv : s.handles[h]? = some s.handles[h] := List.getElem?_eq_getElem hlen
  generalize s.handles[h] = v at hv
  have hdo := detailOf_eq s h v hv
  unfold del; rw [hdo]
  cases v with
  | none =>
      simp only [release, setH]
      rw [set_same _ _ _ hv]
      exact ⟨⟨hr, hc⟩, hv⟩
  | some d =>
      obtain ⟨det, hd, hf⟩ := hr.noDangle h d hv
      have hR := R_dec s.details s.handles h d det hr hv hd
      simp only [release, hd, setH]
      by_cases h0 : det.ref - 1 = 0
      · simp only [h0, if_true] at hR ⊢
        refine ⟨⟨?_, ?_⟩, by simp [hlen]⟩
        · simpa [h0] using hR
        · have := C_retire s.details s.closeLog s.nextRes d det { det with ref := 0, freed := true } det.hasFn hc hd hf (Or.inl rfl)
          simpa [h0] using this
      · simp only [h0, if_false] at hR ⊢
        refine ⟨⟨hR, ?_⟩, by simp [hlen]⟩
        exact C_same s.details s.closeLog s.nextRes d det _ hc hd rfl rfl

theorem ctorFd_inv (s : FdSys) (h : Nat) (fn : Bool) (hi : FInv s) (hh : s.handles[h]? = some none) :
    FInv (s.ctorFd h fn) := by
  obtain ⟨hr, hc⟩ := hi
  exact ⟨R_ctor s.details s.handles h _ hr hh rfl rfl, C_ctor s.details s.closeLog s.nextRes _ hc rfl rfl⟩

theorem ctorNeg_inv (s : FdSys) (h k : Nat) (fn : Bool) (hi : FInv s) (hh : s.handles[h]? = some none) :
    FInv (s.ctorNeg h k fn) := by
  obtain ⟨hr, hc⟩ := hi
  exact ⟨R_ctor s.details s.handles h _ hr hh rfl rfl,
    C_ctor_neg s.details s.closeLog s.nextRes _ hc (by simp only; exact Int.negSucc_lt_zero k)⟩

theorem copyInto_inv (s : FdSys) (d src : Nat) (hi : FInv s) (hh : s.handles[d]? = some none) :
    FInv (s.copyInto d src) := by
  obtain ⟨hr, hc⟩ := hi
  unfold copyInto
  cases hx : s.detailOf src with
  | none => exact ⟨hr, hc⟩
  | some x =>
      obtain ⟨det, hd, hf⟩ := hr.noDangle src x (handle_some s src x hx)
      simp only [incRef, hd, setH]
      exact ⟨R_attach s.details s.handles d x det hr hh hd hf, C_same s.details s.closeLog s.nextRes x det _ hc hd rfl rfl⟩

theorem swap_inv (s : FdSys) (a b : Nat) (hi : FInv s) (ha : a < nFdSlots) (hb : b < nFdSlots) :
    FInv (s.swap a b) := by
  obtain ⟨hr, hc⟩ := hi
  have hal : a < s.handles.length := by rw [hr.len]; exact ha
  have hbl : b < s.handles.length := by rw [hr.len]; exact hb
  have hva : s.handles[a]? = some s.handles[a] := List.getElem?_eq_getElem hal
  have hvb : s.handles[b]? = some s.handles[b] := List.getElem?_eq_getElem hbl
  unfold swap
  rw [detailOf_eq s a _ hva, detailOf_eq s b _ hvb]
  exact ⟨R_swap s.details s.handles a b _ _ hr hva hvb, hc⟩

theorem close_inv (s : FdSys) (h : Nat) (hi : FInv s) : FInv (s.close h) := by
  obtain ⟨hr, hc⟩ := hi
  unfold close
  cases hx : s.detailOf h with
  | none => exact ⟨hr, hc⟩
  | some d =>
      obtain ⟨det, hd, hf⟩ := hr.noDangle h d (handle_some s h d hx)
      simp only [hd]
      split
      · rename_i h0
        refine ⟨R_same s.details s.handles d det _ hr hd rfl rfl, ?_⟩
        have := C_retire s.details s.closeLog s.nextRes d det { det with fd := -1, hasFn := false } det.hasFn hc hd hf
          (Or.inr (by simp))
        have h0' : 0 ≤ det.fd := h0
        simpa [h0'] using this
      · exact ⟨hr, hc⟩

theorem finit_inv : FInv FdSys.init := by
  refine ⟨⟨by simp [init], by simp [init], ?_⟩, ⟨by simp [init], by simp [init], by simp [init], by simp [init], by simp [init]⟩⟩
  intro h d hh
  simp [init, List.getElem?_replicate] at hh

/-- `fcntl` changes kernel flags only: the heap of details, the handles and the close log are untouched -/
theorem setNonBlock_frame (s : FdSys) (h : Nat) (en : Bool) :
    (s.setNonBlock h en).1.details = s.details ∧ (s.setNonBlock h en).1.handles = s.handles ∧
    (s.setNonBlock h en).1.closeLog = s.closeLog ∧ (s.setNonBlock h en).1.nextRes = s.nextRes := by
  unfold setNonBlock
  cases s.target h with
  | none => exact ⟨rfl, rfl, rfl, rfl⟩
  | some fd =>
      simp only []
      cases s.kFlags fd with
      | none => exact ⟨rfl, rfl, rfl, rfl⟩
      | some v => obtain ⟨nb, cx⟩ := v; simp only []; split <;> exact ⟨rfl, rfl, rfl, rfl⟩

theorem setCloexec_frame (s : FdSys) (h : Nat) :
    (s.setCloexec h).1.details = s.details ∧ (s.setCloexec h).1.handles = s.handles ∧
    (s.setCloexec h).1.closeLog = s.closeLog ∧ (s.setCloexec h).1.nextRes = s.nextRes := by
  unfold setCloexec
  cases s.target h with
  | none => exact ⟨rfl, rfl, rfl, rfl⟩
  | some fd =>
      simp only []
      cases s.kFlags fd with
      | none => exact ⟨rfl, rfl, rfl, rfl⟩
      | some v => obtain ⟨nb, cx⟩ := v; simp only []; split <;> exact ⟨rfl, rfl, rfl, rfl⟩

theorem step_inv (s : FdSys) (op : FdOp) (hi : FInv s) (hok : op.ok = true) : FInv (s.step op) := by
  cases op with
  | openFile h ok =>
      have := del_inv s h hi (by simpa [FdOp.ok] using hok)
      simp only [step]
      split
      · exact ctorFd_inv _ h false this.1 this.2
      · exact this.1
  | io h k a => exact hi
  | isNonBlock h => exact hi
  | setNonBlock h en =>
      obtain ⟨e1, e2, e3, e4⟩ := setNonBlock_frame s h en
      unfold FInv; simp only [step]; rw [e1, e2, e3, e4]; exact hi
  | setCloexec h =>
      obtain ⟨e1, e2, e3, e4⟩ := setCloexec_frame s h
      unfold FInv; simp only [step]; rw [e1, e2, e3, e4]; exact hi
  | fresh h => exact (del_inv s h hi (by simpa [FdOp.ok] using hok)).1
  | opn h fn =>
      have := del_inv s h hi (by simpa [FdOp.ok] using hok)
      exact ctorFd_inv _ h fn this.1 this.2
  | opnNeg h k fn =>
      have := del_inv s h hi (by simpa [FdOp.ok] using hok)
      exact ctorNeg_inv _ h k fn this.1 this.2
  | copyCtor d src =>
      simp [FdOp.ok] at hok
      have := del_inv s d hi hok.1
      exact copyInto_inv _ d src this.1 this.2
  | moveCtor d src =>
      simp [FdOp.ok] at hok
      have := del_inv s d hi hok.1
      exact swap_inv _ d src this.1 hok.1 hok.2.1
  | copyAssign d src =>
      simp [FdOp.ok] at hok
      simp only [step, copyAssign]
      split
      · exact hi
      · rw [reset_eq_del]
        have := del_inv s d hi hok.1
        exact copyInto_inv _ d src this.1 this.2
  | moveAssign d src =>
      simp [FdOp.ok] at hok
      simp only [step, moveAssign]
      split
      · exact hi
      · rw [reset_eq_del]
        have := del_inv s d hi hok.1
        exact swap_inv _ d src this.1 hok.1 hok.2
  | swap a b =>
      simp [FdOp.ok] at hok
      exact swap_inv s a b hi hok.1 hok.2
  | reset h =>
      simp only [step]; rw [reset_eq_del]
      exact (del_inv s h hi (by simpa [FdOp.ok] using hok)).1
  | close h => exact close_inv s h hi

theorem run_inv (s : FdSys) (ops : List FdOp) (hi : FInv s) (hok : ∀ op ∈ ops, op.ok = true) :
    FInv (s.run ops) := by
  induction ops generalizing s with
  | nil => exact hi
  | cons op ops ih =>
      exact ih _ (step_inv s op hi (hok op List.mem_cons_self)) (fun o ho => hok o (List.mem_cons_of_mem _ ho))

/-- what `get()` returns, in terms of the heap -/
theorem get_eq (s : FdSys) (h : Nat) (r : Int) (hr : 0 ≤ r) :
    s.get h = r ↔ ∃ d det, s.handles[h]? = some (some d) ∧ s.details[d]? = some det ∧ det.fd = r := by
  unfold get
  constructor
  · intro hg
    cases hx : s.detailOf h with
    | none => simp [hx] at hg; omega
    | some d =>
        simp only [hx] at hg
        cases hd : s.details[d]? with
        | none => simp [hd] at hg; omega
        | some det => simp [hd] at hg; exact ⟨d, det, handle_some s h d hx, hd, hg⟩
  · rintro ⟨d, det, hh, hd, hfd⟩
    rw [detailOf_eq s h _ hh]
    simp [hd, hfd]

end FdSys
end Tbox.C08
