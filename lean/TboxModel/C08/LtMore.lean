/- C08 — helper lemmas for the per-member theorems of LifetimeTag / Watcher (core Lean only). -/
import TboxModel.C08.LtProofs
namespace Tbox.C08
namespace LtSys

theorem touch_ws (s : LtSys) (d : Nat) (f : LDetail → LDetail) :
    (s.touch d f).ws = s.ws ∧ (s.touch d f).tags = s.tags := by
  unfold touch
  cases s.details[d]? with
  | none => exact ⟨rfl, rfl⟩
  | some det => simp only []; split <;> exact ⟨rfl, rfl⟩

theorem wRelease_ws (s : LtSys) (v : Option Nat) : (s.wRelease v).ws = s.ws ∧ (s.wRelease v).tags = s.tags := by
  cases v with
  | none => exact ⟨rfl, rfl⟩
  | some d => exact touch_ws s d _

theorem wInc_ws (s : LtSys) (v : Option Nat) : (s.wInc v).ws = s.ws ∧ (s.wInc v).tags = s.tags := by
  cases v with
  | none => exact ⟨rfl, rfl⟩
  | some d => exact touch_ws s d _

theorem tRelease_ws (s : LtSys) (v : Option Nat) : (s.tRelease v).ws = s.ws ∧ (s.tRelease v).tags = s.tags := by
  cases v with
  | none => exact ⟨rfl, rfl⟩
  | some d => exact touch_ws s d _

theorem wDrop_ws (s : LtSys) (w : Nat) : (s.wDrop w).ws = s.ws.set w none ∧ (s.wDrop w).tags = s.tags := by
  unfold wDrop setW
  exact ⟨by simp [(wRelease_ws s _).1], (wRelease_ws s _).2⟩

theorem wAttach_ws (s : LtSys) (w : Nat) (v : Option Nat) :
    (s.wAttach w v).ws = s.ws.set w v ∧ (s.wAttach w v).tags = s.tags := by
  unfold wAttach setW
  exact ⟨by simp [(wInc_ws s _).1], (wInc_ws s _).2⟩

theorem tDrop_ws (s : LtSys) (i : Nat) : (s.tDrop i).ws = s.ws ∧ (s.tDrop i).tags = s.tags.set i none := by
  unfold tDrop setT
  exact ⟨(tRelease_ws s _).1, by simp [(tRelease_ws s _).2]⟩

theorem wOf_set_self (s : LtSys) (ws : List (Option Nat)) (w : Nat) (v : Option Nat) (h : w < ws.length) :
    (({ s with ws := ws.set w v } : LtSys)).wOf w = v := by
  simp [wOf, h]

theorem wOf_def (s : LtSys) (w : Nat) : s.wOf w = (s.ws[w]?).join := rfl

/-- a watcher is alive exactly when some tag object owns the record it watches -/
theorem alive_iff (s : LtSys) (hi : LInv s) (w : Nat) :
    s.isAlive w = true ↔ ∃ (d i : Nat), s.ws[w]? = some (some d) ∧ s.tags[i]? = some (some d) := by
  have hl : LI s.details s.tags s.ws := hi.1
  unfold isAlive
  cases hw : s.wOf w with
  | none =>
      simp only []
      constructor
      · intro h; cases h
      · rintro ⟨d, i, h1, _⟩
        rw [wOf_eq s w _ h1] at hw; cases hw
  | some d =>
      have hws := ws_some s w d hw
      obtain ⟨det, hd, hf⟩ := hl.wLive w d hws
      have hr := hl.refOk d det hd hf
      simp only [hd, hf, Bool.not_false, Bool.and_true]
      rw [hr.2.1]
      constructor
      · rintro ⟨i, hi'⟩; exact ⟨d, i, hws, hi'⟩
      · rintro ⟨d', i, h1, h2⟩
        rw [hws] at h1; cases h1; exact ⟨i, h2⟩

/-- two watchers on the same record, in states with the same tags, agree on `isAlive` -/
theorem alive_congr (s s' : LtSys) (hi : LInv s) (hi' : LInv s') (w v : Nat) (ht : s'.tags = s.tags)
    (hw : s'.ws[w]? = s.ws[v]?) : s'.isAlive w = s.isAlive v := by
  have a := alive_iff s hi v
  have b := alive_iff s' hi' w
  rw [ht, hw] at b
  cases h1 : s.isAlive v with
  | true => rw [h1] at a; exact b.2 (a.1 rfl)
  | false =>
      cases h2 : s'.isAlive w with
      | false => rfl
      | true => rw [h2] at b; rw [a.2 (b.1 rfl)] at h1; cases h1

theorem isNull_def (s : LtSys) (w : Nat) : s.isNull w = (s.wOf w).isNone := rfl

theorem run_snoc (s : LtSys) (ops : List LtOp) (op : LtOp) :
    s.run (ops ++ [op]) = (if op.ok (s.run ops) then (s.run ops).step op else s.run ops) := by
  induction ops generalizing s with
  | nil => simp only [List.nil_append, run]; split <;> simp_all
  | cons o ops ih => simp only [List.cons_append, run]; exact ih _

theorem wOf_set (s : LtSys) (w u : Nat) (x : Option Nat) (ws : List (Option Nat)) (hw : w < s.ws.length)
    (e : ws = s.ws.set w x) : (ws[u]?).join = if u = w then x else s.wOf u := by
  subst e
  rw [List.getElem?_set]
  by_cases h : w = u
  · subst h; simp [hw]
  · have : ¬ u = w := fun e => h e.symm
    simp [h, this, wOf]

/-- what the watcher slots hold after each watcher operation (tags are never touched by them) -/
theorem step_ws (s : LtSys) (w v : Nat) (hne : w ≠ v) (hw : w < s.ws.length) :
    ((s.step (.wcopyCtor w v)).ws = s.ws.set w (s.wOf v) ∧ (s.step (.wcopyCtor w v)).tags = s.tags) ∧
    ((s.step (.wcopyAssign w v)).ws = s.ws.set w (s.wOf v) ∧ (s.step (.wcopyAssign w v)).tags = s.tags) ∧
    ((s.step (.wmoveCtor w v)).ws = (s.ws.set w (s.wOf v)).set v none ∧ (s.step (.wmoveCtor w v)).tags = s.tags) ∧
    ((s.step (.wmoveAssign w v)).ws = (s.ws.set w (s.wOf v)).set v none ∧ (s.step (.wmoveAssign w v)).tags = s.tags) := by
  have hd := wDrop_ws s w
  have hv : (s.wDrop w).wOf v = s.wOf v := by
    rw [wOf_def, hd.1, List.getElem?_set_ne hne]; rfl
  have hww : (s.wDrop w).wOf w = none := by
    rw [wOf_def, hd.1]; simp [hw]
  have hcopy : ((s.wDrop w).wAttach w ((s.wDrop w).wOf v)).ws = s.ws.set w (s.wOf v) ∧
      ((s.wDrop w).wAttach w ((s.wDrop w).wOf v)).tags = s.tags := by
    have := wAttach_ws (s.wDrop w) w ((s.wDrop w).wOf v)
    rw [this.1, this.2, hd.1, hd.2, hv, List.set_set]; exact ⟨rfl, rfl⟩
  have hmove : ((s.wDrop w).wSwap w v).ws = (s.ws.set w (s.wOf v)).set v none ∧ ((s.wDrop w).wSwap w v).tags = s.tags := by
    unfold wSwap setW
    simp only [hv, hww, hd.1, hd.2, List.set_set, and_self]
  refine ⟨hcopy, ?_, hmove, ?_⟩
  · simp only [step, hne, if_false]; exact hcopy
  · simp only [step, hne, if_false]; exact hmove

theorem step_ws1 (s : LtSys) (w i : Nat) :
    ((s.step (.wtag w i)).ws = s.ws.set w (s.tagOf i) ∧ (s.step (.wtag w i)).tags = s.tags) ∧
    ((s.step (.wreset w)).ws = s.ws.set w none ∧ (s.step (.wreset w)).tags = s.tags) ∧
    ((s.step (.wnew w)).ws = s.ws.set w none ∧ (s.step (.wnew w)).tags = s.tags) := by
  have hd := wDrop_ws s w
  refine ⟨?_, hd, hd⟩
  simp only [step]
  have := wAttach_ws (s.wDrop w) w ((s.wDrop w).tagOf i)
  rw [this.1, this.2, hd.1, hd.2, List.set_set]
  have : (s.wDrop w).tagOf i = s.tagOf i := by unfold tagOf; rw [hd.2]
  rw [this]; exact ⟨rfl, rfl⟩

end LtSys
end Tbox.C08
