/- C08 — helper lemmas for the LifetimeTag / Watcher model (core Lean only). -/
import TboxModel.C08.FdProofs
namespace Tbox.C08

theorem getElem?_set_cases {α} (l : List α) (d d' : Nat) (x y z : α) (hd : l[d]? = some x)
    (h : (l.set d y)[d']? = some z) : (d' = d ∧ z = y) ∨ (d' ≠ d ∧ l[d']? = some z) := by
  have hlt := lt_of_getElem? _ _ _ hd
  rw [List.getElem?_set] at h
  by_cases e : d = d'
  · simp [e] at h; rw [← e] at h; simp [hlt] at h; left; exact ⟨e.symm, h.symm⟩
  · simp [e] at h; right; exact ⟨fun h' => e h'.symm, h⟩

/-- every record that has not been deleted: `watcher_counter` = number of watchers on it; `alive` iff
its tag object still exists; a record without tag has at least one watcher (else it would have been
deleted).  No watcher and no tag points to a deleted record; a record belongs to one tag slot. -/
structure LI (details : List LDetail) (tags ws : List (Option Nat)) : Prop where
  lenT : tags.length = nLtTags
  lenW : ws.length = nLtWs
  refOk : ∀ (d : Nat) (det : LDetail), details[d]? = some det → det.freed = false →
      det.cnt = (ws.count (some d) : Int) ∧ (det.alive = true ↔ ∃ i : Nat, tags[i]? = some (some d)) ∧
      (det.alive = false → 1 ≤ det.cnt)
  wLive : ∀ (w d : Nat), ws[w]? = some (some d) → ∃ det, details[d]? = some det ∧ det.freed = false
  tLive : ∀ (i d : Nat), tags[i]? = some (some d) → ∃ det, details[d]? = some det ∧ det.freed = false
  tUniq : ∀ (i j d : Nat), tags[i]? = some (some d) → tags[j]? = some (some d) → i = j

def LInv (s : LtSys) : Prop := LI s.details s.tags s.ws ∧ s.bad = false

theorem count_pos_of_get (l : List (Option Nat)) (w : Nat) (v : Option Nat) (h : l[w]? = some v) : 0 < l.count v :=
  List.count_pos_iff.2 (List.mem_iff_getElem?.2 ⟨w, h⟩)

/-- the watcher in slot `w` lets go of record `d` -/
theorem LI_wdec (details : List LDetail) (tags ws : List (Option Nat)) (w d : Nat) (det : LDetail)
    (hi : LI details tags ws) (hw : ws[w]? = some (some d)) (hd : details[d]? = some det) (hf : det.freed = false) :
    LI (details.set d (if det.cnt - 1 = 0 ∧ det.alive = false then { det with cnt := det.cnt - 1, freed := true }
                       else { det with cnt := det.cnt - 1 })) tags (ws.set w none) := by
  have hlt := lt_of_getElem? _ _ _ hd
  have hwl := lt_of_getElem? _ _ _ hw
  have hr := hi.refOk d det hd hf
  have hpos := count_pos_of_get ws w _ hw
  have hcnt : ∀ x : Nat, ((ws.set w none).count (some x) : Int) = ws.count (some x) - (if x = d then 1 else 0) := by
    intro x
    rw [count_set_int _ _ _ _ hwl, hw]
    by_cases e : x = d
    · subst e; simp
    · have e' : ¬ d = x := fun h => e h.symm
      simp [e, e']
  refine ⟨hi.lenT, by simp [hi.lenW], ?_, ?_, ?_, hi.tUniq⟩
  · intro d' x hx hfx
    rcases getElem?_set_cases _ _ _ _ _ _ hd hx with ⟨e, ex⟩ | ⟨e, ex⟩
    · subst e; subst ex
      rw [hcnt d']
      split at hfx
      · simp at hfx
      · rename_i hne
        split
        · contradiction
        · refine ⟨by have h1 := hr.1; simp; omega, hr.2.1, ?_⟩
          intro ha
          simp only at ha ⊢
          have h1 := hr.1
          have : ¬ (det.cnt - 1 = 0) := fun h0 => hne ⟨h0, ha⟩
          omega
    · rw [hcnt d']; simp [e]; exact hi.refOk d' x ex hfx
  · intro w' d' hw'
    have hne : w' ≠ w := by intro e; subst e; simp [hwl] at hw'
    rw [List.getElem?_set_ne (fun e => hne e.symm)] at hw'
    obtain ⟨x, hx, hfx⟩ := hi.wLive w' d' hw'
    by_cases e : d' = d
    · subst e; rw [hd] at hx; cases hx
      have hpos' : 0 < (ws.set w none).count (some d') :=
        count_pos_of_get _ w' _ (by rw [List.getElem?_set_ne (fun e => hne e.symm)]; exact hw')
      have hc := hcnt d'
      simp only [if_true] at hc
      refine ⟨(if det.cnt - 1 = 0 ∧ det.alive = false then { det with cnt := det.cnt - 1, freed := true }
                else { det with cnt := det.cnt - 1 }), by simp [hlt], ?_⟩
      split
      · rename_i h0; have h1 := hr.1; omega
      · exact hf
    · exact ⟨x, by rw [List.getElem?_set_ne (fun h' => e h'.symm)]; exact hx, hfx⟩
  · intro i d' hi'
    obtain ⟨x, hx, hfx⟩ := hi.tLive i d' hi'
    by_cases e : d' = d
    · subst e; rw [hd] at hx; cases hx
      refine ⟨(if det.cnt - 1 = 0 ∧ det.alive = false then { det with cnt := det.cnt - 1, freed := true }
                else { det with cnt := det.cnt - 1 }), by simp [hlt], ?_⟩
      split
      · rename_i h0
        have := (hr.2.1).2 ⟨i, hi'⟩
        rw [this] at h0; simp at h0
      · exact hf
    · exact ⟨x, by rw [List.getElem?_set_ne (fun h' => e h'.symm)]; exact hx, hfx⟩

/-- the null watcher in slot `w` starts watching the live record `d` -/
theorem LI_winc (details : List LDetail) (tags ws : List (Option Nat)) (w d : Nat) (det : LDetail)
    (hi : LI details tags ws) (hw : ws[w]? = some none) (hd : details[d]? = some det) (hf : det.freed = false) :
    LI (details.set d { det with cnt := det.cnt + 1 }) tags (ws.set w (some d)) := by
  have hlt := lt_of_getElem? _ _ _ hd
  have hwl := lt_of_getElem? _ _ _ hw
  have hr := hi.refOk d det hd hf
  have hcnt : ∀ x : Nat, ((ws.set w (some d)).count (some x) : Int) = ws.count (some x) + (if x = d then 1 else 0) := by
    intro x
    rw [count_set_int _ _ _ _ hwl, hw]
    by_cases e : x = d
    · subst e; simp
    · have e' : ¬ d = x := fun h => e h.symm
      simp [e, e']
  refine ⟨hi.lenT, by simp [hi.lenW], ?_, ?_, ?_, hi.tUniq⟩
  · intro d' x hx hfx
    rcases getElem?_set_cases _ _ _ _ _ _ hd hx with ⟨e, ex⟩ | ⟨e, ex⟩
    · subst e; subst ex
      rw [hcnt d']
      refine ⟨by simp; omega, hr.2.1, ?_⟩
      intro _; have h1 := hr.1; simp only; omega
    · rw [hcnt d']; simp [e]; exact hi.refOk d' x ex hfx
  · intro w' d' hw'
    by_cases e : d' = d
    · subst e; exact ⟨{ det with cnt := det.cnt + 1 }, by simp [hlt], hf⟩
    · have hne : w' ≠ w := by
        intro e'; subst e'; simp [hwl] at hw'; exact e hw'.symm
      rw [List.getElem?_set_ne (fun e => hne e.symm)] at hw'
      obtain ⟨y, hy, hfy⟩ := hi.wLive w' d' hw'
      exact ⟨y, by rw [List.getElem?_set_ne (fun h' => e h'.symm)]; exact hy, hfy⟩
  · intro i d' hi'
    by_cases e : d' = d
    · subst e; exact ⟨{ det with cnt := det.cnt + 1 }, by simp [hlt], hf⟩
    · obtain ⟨y, hy, hfy⟩ := hi.tLive i d' hi'
      exact ⟨y, by rw [List.getElem?_set_ne (fun h' => e h'.symm)]; exact hy, hfy⟩

theorem LI_wswap (details : List LDetail) (tags ws : List (Option Nat)) (a b : Nat) (va vb : Option Nat)
    (hi : LI details tags ws) (ha : ws[a]? = some va) (hb : ws[b]? = some vb) :
    LI details tags ((ws.set a vb).set b va) := by
  have hal := lt_of_getElem? _ _ _ ha
  have hbl := lt_of_getElem? _ _ _ hb
  have hb' : (ws.set a vb)[b]? = some vb := by
    rw [List.getElem?_set]; by_cases e : a = b
    · simp [e, hbl]
    · simp [e, hb]
  have hcnt : ∀ y : Option Nat, (((ws.set a vb).set b va).count y : Int) = ws.count y := by
    intro y
    rw [count_set_int _ _ _ _ (by simpa using hbl), hb', count_set_int _ _ _ _ hal, ha]
    by_cases e1 : va = y <;> by_cases e2 : vb = y <;> simp [e1, e2]
  refine ⟨hi.lenT, by simp [hi.lenW], ?_, ?_, hi.tLive, hi.tUniq⟩
  · intro d det hd hf; rw [hcnt]; exact hi.refOk d det hd hf
  · intro h d hh
    by_cases e : b = h
    · subst e
      rw [List.getElem?_set_self (by simpa using hbl)] at hh
      cases hh; exact hi.wLive a d ha
    · rw [List.getElem?_set_ne e] at hh
      by_cases e' : a = h
      · subst e'
        rw [List.getElem?_set_self hal] at hh
        cases hh; exact hi.wLive b d hb
      · rw [List.getElem?_set_ne e'] at hh; exact hi.wLive h d hh

/-- the tag object in slot `i` (record `d`) is destroyed -/
theorem LI_tdrop (details : List LDetail) (tags ws : List (Option Nat)) (i d : Nat) (det : LDetail)
    (hi : LI details tags ws) (ht : tags[i]? = some (some d)) (hd : details[d]? = some det) (hf : det.freed = false) :
    LI (details.set d (if det.cnt = 0 then { det with freed := true } else { det with alive := false }))
       (tags.set i none) ws := by
  have hlt := lt_of_getElem? _ _ _ hd
  have htl := lt_of_getElem? _ _ _ ht
  have hr := hi.refOk d det hd hf
  have tag_iff : ∀ d' : Nat, (∃ j : Nat, (tags.set i none)[j]? = some (some d')) ↔ (d' ≠ d ∧ ∃ j : Nat, tags[j]? = some (some d')) := by
    intro d'
    constructor
    · rintro ⟨j, hj⟩
      have hne : j ≠ i := by intro e; subst e; simp [htl] at hj
      rw [List.getElem?_set_ne (fun e => hne e.symm)] at hj
      refine ⟨?_, j, hj⟩
      intro e; subst e; exact hne (hi.tUniq j i d' hj ht)
    · rintro ⟨hne, j, hj⟩
      have : j ≠ i := by intro e; subst e; rw [ht] at hj; cases hj; exact hne rfl
      exact ⟨j, by rw [List.getElem?_set_ne (fun e => this e.symm)]; exact hj⟩
  refine ⟨by simp [hi.lenT], hi.lenW, ?_, ?_, ?_, ?_⟩
  · intro d' x hx hfx
    rcases getElem?_set_cases _ _ _ _ _ _ hd hx with ⟨e, ex⟩ | ⟨e, ex⟩
    · subst e; subst ex
      split at hfx
      · simp at hfx
      · rename_i hne
        split
        · contradiction
        · refine ⟨hr.1, ?_, ?_⟩
          · rw [tag_iff]; simp
          · intro _; have h1 := hr.1; simp only; omega
    · have := hi.refOk d' x ex hfx
      refine ⟨this.1, ?_, this.2.2⟩
      rw [tag_iff, this.2.1]; simp [e]
  · intro w d' hw
    obtain ⟨x, hx, hfx⟩ := hi.wLive w d' hw
    by_cases e : d' = d
    · subst e; rw [hd] at hx; cases hx
      have hpos := count_pos_of_get ws w _ hw
      refine ⟨(if det.cnt = 0 then { det with freed := true } else { det with alive := false }), by simp [hlt], ?_⟩
      split
      · rename_i h0; have h1 := hr.1; omega
      · exact hf
    · exact ⟨x, by rw [List.getElem?_set_ne (fun h' => e h'.symm)]; exact hx, hfx⟩
  · intro j d' hj
    have := (tag_iff d').1 ⟨j, hj⟩
    obtain ⟨hne, j', hj'⟩ := this
    obtain ⟨x, hx, hfx⟩ := hi.tLive j' d' hj'
    exact ⟨x, by rw [List.getElem?_set_ne (fun h' => hne h'.symm)]; exact hx, hfx⟩
  · intro j k d' hj hk
    have hnj : j ≠ i := by intro e; subst e; simp [htl] at hj
    have hnk : k ≠ i := by intro e; subst e; simp [htl] at hk
    rw [List.getElem?_set_ne (fun e => hnj e.symm)] at hj
    rw [List.getElem?_set_ne (fun e => hnk e.symm)] at hk
    exact hi.tUniq j k d' hj hk

/-- a tag is constructed in the empty slot `i`: a new record -/
theorem LI_tcreate (details : List LDetail) (tags ws : List (Option Nat)) (i : Nat)
    (hi : LI details tags ws) (ht : tags[i]? = some none) :
    LI (details ++ [({} : LDetail)]) (tags.set i (some details.length)) ws := by
  have htl := lt_of_getElem? _ _ _ ht
  have hzero : ws.count (some details.length) = 0 := by
    apply List.count_eq_zero.2
    intro hm
    obtain ⟨k, hk⟩ := List.mem_iff_getElem?.1 hm
    obtain ⟨x, hx, _⟩ := hi.wLive k _ hk
    have := lt_of_getElem? _ _ _ hx
    omega
  have old_lt : ∀ (j d' : Nat), tags[j]? = some (some d') → d' < details.length := by
    intro j d' hj
    obtain ⟨x, hx, _⟩ := hi.tLive j d' hj
    exact lt_of_getElem? _ _ _ hx
  have tag_iff : ∀ d' : Nat, (∃ j : Nat, (tags.set i (some details.length))[j]? = some (some d')) ↔
      (d' = details.length ∨ ∃ j : Nat, tags[j]? = some (some d')) := by
    intro d'
    constructor
    · rintro ⟨j, hj⟩
      by_cases e : j = i
      · subst e; simp [htl] at hj; left; exact hj.symm
      · rw [List.getElem?_set_ne (fun e' => e e'.symm)] at hj; right; exact ⟨j, hj⟩
    · rintro (e | ⟨j, hj⟩)
      · subst e; exact ⟨i, by simp [htl]⟩
      · have : j ≠ i := by intro e; subst e; rw [ht] at hj; cases hj
        exact ⟨j, by rw [List.getElem?_set_ne (fun e => this e.symm)]; exact hj⟩
  have back : ∀ (d : Nat) (x : LDetail), (details ++ [({} : LDetail)])[d]? = some x →
      (d < details.length ∧ details[d]? = some x) ∨ (d = details.length ∧ x = ({} : LDetail)) := by
    intro d x hx
    rw [List.getElem?_append] at hx
    split at hx
    · rename_i hlt; exact Or.inl ⟨hlt, hx⟩
    · right
      cases hq : d - details.length with
      | zero => simp [hq] at hx; exact ⟨by omega, hx.symm⟩
      | succ k => simp [hq] at hx
  refine ⟨by simp [hi.lenT], hi.lenW, ?_, ?_, ?_, ?_⟩
  · intro d x hx hfx
    rcases back d x hx with ⟨hl, ex⟩ | ⟨hl, ex⟩
    · have := hi.refOk d x ex hfx
      refine ⟨this.1, ?_, this.2.2⟩
      rw [tag_iff, this.2.1]
      constructor
      · intro h; exact Or.inr h
      · rintro (e | h)
        · omega
        · exact h
    · subst hl; subst ex
      refine ⟨by simp [hzero], ?_, by simp⟩
      rw [tag_iff]; simp
  · intro w d hw
    obtain ⟨x, hx, hfx⟩ := hi.wLive w d hw
    have := lt_of_getElem? _ _ _ hx
    exact ⟨x, by rw [List.getElem?_append_left this]; exact hx, hfx⟩
  · intro j d hj
    rcases (tag_iff d).1 ⟨j, hj⟩ with e | ⟨j', hj'⟩
    · subst e; exact ⟨({} : LDetail), by simp, rfl⟩
    · obtain ⟨x, hx, hfx⟩ := hi.tLive j' d hj'
      have := lt_of_getElem? _ _ _ hx
      exact ⟨x, by rw [List.getElem?_append_left this]; exact hx, hfx⟩
  · intro j k d hj hk
    by_cases ej : j = i <;> by_cases ek : k = i
    · omega
    · subst ej; simp [htl] at hj; subst hj
      rw [List.getElem?_set_ne (fun e' => ek e'.symm)] at hk
      have := old_lt k _ hk; omega
    · subst ek; simp [htl] at hk; subst hk
      rw [List.getElem?_set_ne (fun e' => ej e'.symm)] at hj
      have := old_lt j _ hj; omega
    · rw [List.getElem?_set_ne (fun e' => ej e'.symm)] at hj
      rw [List.getElem?_set_ne (fun e' => ek e'.symm)] at hk
      exact hi.tUniq j k d hj hk

/-! ### the member functions -/

namespace LtSys

theorem touch_ok (s : LtSys) (d : Nat) (f : LDetail → LDetail) (det : LDetail)
    (hd : s.details[d]? = some det) (hf : det.freed = false) :
    s.touch d f = { s with details := s.details.set d (f det) } := by
  simp [touch, hd, hf]

theorem wOf_eq (s : LtSys) (w : Nat) (v : Option Nat) (h : s.ws[w]? = some v) : s.wOf w = v := by
  simp [wOf, h]

theorem tagOf_eq (s : LtSys) (i : Nat) (v : Option Nat) (h : s.tags[i]? = some v) : s.tagOf i = v := by
  simp [tagOf, h]

theorem ws_some (s : LtSys) (w d : Nat) (h : s.wOf w = some d) : s.ws[w]? = some (some d) := by
  unfold wOf at h
  cases hv : s.ws[w]? with
  | none => simp [hv] at h
  | some v => simp [hv] at h; rw [h]

theorem tags_some (s : LtSys) (i d : Nat) (h : s.tagOf i = some d) : s.tags[i]? = some (some d) := by
  unfold tagOf at h
  cases hv : s.tags[i]? with
  | none => simp [hv] at h
  | some v => simp [hv] at h; rw [h]

theorem wDrop_inv (s : LtSys) (w : Nat) (hi : LInv s) (hw : w < nLtWs) :
    LInv (s.wDrop w) ∧ (s.wDrop w).ws[w]? = some none := by
  obtain ⟨hl, hb⟩ := hi
  have hlen : w < s.ws.length := by rw [hl.lenW]; exact hw
  have hv : s.ws[w]? = some s.ws[w] := List.getElem?_eq_getElem hlen
  generalize s.ws[w] = v at hv
  unfold wDrop; rw [wOf_eq s w v hv]
  cases v with
  | none =>
      simp only [wRelease, setW]
      rw [FdSys.set_same _ _ _ hv]
      exact ⟨⟨hl, hb⟩, hv⟩
  | some d =>
      obtain ⟨det, hd, hf⟩ := hl.wLive w d hv
      simp only [wRelease]
      rw [touch_ok s d _ det hd hf]
      refine ⟨⟨?_, hb⟩, by simp [setW, hlen]⟩
      have := LI_wdec s.details s.tags s.ws w d det hl hv hd hf
      simp only [setW]
      by_cases hc : det.cnt - 1 = 0 ∧ det.alive = false
      · simpa [hc] using this
      · simpa [hc] using this

theorem wAttach_inv (s : LtSys) (w : Nat) (v : Option Nat) (hi : LInv s) (hw : s.ws[w]? = some none)
    (hv : ∀ d, v = some d → ∃ det, s.details[d]? = some det ∧ det.freed = false) : LInv (s.wAttach w v) := by
  obtain ⟨hl, hb⟩ := hi
  unfold wAttach
  cases v with
  | none =>
      simp only [wInc, setW]
      rw [FdSys.set_same _ _ _ hw]
      exact ⟨hl, hb⟩
  | some d =>
      obtain ⟨det, hd, hf⟩ := hv d rfl
      simp only [wInc]
      rw [touch_ok s d _ det hd hf]
      exact ⟨LI_winc s.details s.tags s.ws w d det hl hw hd hf, hb⟩

theorem wSwap_inv (s : LtSys) (a b : Nat) (hi : LInv s) (ha : a < nLtWs) (hb : b < nLtWs) : LInv (s.wSwap a b) := by
  obtain ⟨hl, hbad⟩ := hi
  have hal : a < s.ws.length := by rw [hl.lenW]; exact ha
  have hbl : b < s.ws.length := by rw [hl.lenW]; exact hb
  have hva : s.ws[a]? = some s.ws[a] := List.getElem?_eq_getElem hal
  have hvb : s.ws[b]? = some s.ws[b] := List.getElem?_eq_getElem hbl
  unfold wSwap
  rw [wOf_eq s a _ hva, wOf_eq s b _ hvb]
  exact ⟨LI_wswap s.details s.tags s.ws a b _ _ hl hva hvb, hbad⟩

theorem tDrop_inv (s : LtSys) (i : Nat) (hi : LInv s) (hlt : i < nLtTags) :
    LInv (s.tDrop i) ∧ (s.tDrop i).tags[i]? = some none := by
  obtain ⟨hl, hb⟩ := hi
  have hlen : i < s.tags.length := by rw [hl.lenT]; exact hlt
  have hv : s.tags[i]? = some s.tags[i] := List.getElem?_eq_getElem hlen
  generalize s.tags[i] = v at hv
  unfold tDrop; rw [tagOf_eq s i v hv]
  cases v with
  | none =>
      simp only [tRelease, setT]
      rw [FdSys.set_same _ _ _ hv]
      exact ⟨⟨hl, hb⟩, hv⟩
  | some d =>
      obtain ⟨det, hd, hf⟩ := hl.tLive i d hv
      simp only [tRelease]
      rw [touch_ok s d _ det hd hf]
      refine ⟨⟨?_, hb⟩, by simp [setT, hlen]⟩
      exact LI_tdrop s.details s.tags s.ws i d det hl hv hd hf

theorem tCreate_inv (s : LtSys) (i : Nat) (hi : LInv s) (ht : s.tags[i]? = some none) : LInv (s.tCreate i) :=
  ⟨LI_tcreate s.details s.tags s.ws i hi.1 ht, hi.2⟩

theorem linit_inv : LInv LtSys.init := by
  refine ⟨⟨by simp [init], by simp [init], by simp [init], ?_, ?_, ?_⟩, rfl⟩
  · intro w d h; simp [init, List.getElem?_replicate] at h
  · intro i d h; simp [init, List.getElem?_replicate] at h
  · intro i j d h; simp [init, List.getElem?_replicate] at h

theorem step_inv (s : LtSys) (op : LtOp) (hi : LInv s) (hok : op.ok s = true) : LInv (s.step op) := by
  have attach_w : ∀ (s1 : LtSys) (w x : Nat), LInv s1 → s1.ws[w]? = some none → LInv (s1.wAttach w (s1.wOf x)) := by
    intro s1 w x h1 hw
    apply wAttach_inv s1 w _ h1 hw
    intro d hd
    exact h1.1.wLive x d (ws_some s1 x d hd)
  cases op with
  | tnew i =>
      have := tDrop_inv s i hi (by simpa [LtOp.ok] using hok)
      exact tCreate_inv _ i this.1 this.2
  | tdel i => exact (tDrop_inv s i hi (by simpa [LtOp.ok] using hok)).1
  | tcopy i j =>
      simp [LtOp.ok] at hok
      have := tDrop_inv s i hi hok.1
      exact tCreate_inv _ i this.1 this.2
  | tassign i j => exact hi
  | wnew w => exact (wDrop_inv s w hi (by simpa [LtOp.ok] using hok)).1
  | wtag w i =>
      simp [LtOp.ok] at hok
      have := wDrop_inv s w hi hok.1
      simp only [step]
      apply wAttach_inv _ w _ this.1 this.2
      intro d hd
      exact this.1.1.tLive i d (tags_some _ i d hd)
  | wcopyCtor w v =>
      simp [LtOp.ok] at hok
      have := wDrop_inv s w hi hok.1
      exact attach_w _ w v this.1 this.2
  | wmoveCtor w v =>
      simp [LtOp.ok] at hok
      have := wDrop_inv s w hi hok.1
      exact wSwap_inv _ w v this.1 hok.1 hok.2.1
  | wcopyAssign w v =>
      simp [LtOp.ok] at hok
      simp only [step]
      split
      · exact hi
      · have := wDrop_inv s w hi hok.1
        exact attach_w _ w v this.1 this.2
  | wmoveAssign w v =>
      simp [LtOp.ok] at hok
      simp only [step]
      split
      · exact hi
      · have := wDrop_inv s w hi hok.1
        exact wSwap_inv _ w v this.1 hok.1 hok.2
  | wswap a b =>
      simp [LtOp.ok] at hok
      exact wSwap_inv s a b hi hok.1 hok.2
  | wreset w => exact (wDrop_inv s w hi (by simpa [LtOp.ok] using hok)).1

theorem run_inv (s : LtSys) (ops : List LtOp) (hi : LInv s) : LInv (s.run ops) := by
  induction ops generalizing s with
  | nil => exact hi
  | cons op ops ih =>
      simp only [run]
      split
      · rename_i hok; exact ih _ (step_inv s op hi hok)
      · exact ih _ hi

/-! ### a record whose tag is gone stays that way -/

/-- the tag object of record `d` has been destroyed (`alive == false`; the record may or may not have
been deleted since) -/
def Dead (s : LtSys) (d : Nat) : Prop := ∃ det, s.details[d]? = some det ∧ det.alive = false

theorem touch_dead (s : LtSys) (d0 d : Nat) (f : LDetail → LDetail)
    (hf : ∀ det, det.alive = false → (f det).alive = false) (h : s.Dead d) : (s.touch d0 f).Dead d := by
  obtain ⟨det, hd, ha⟩ := h
  unfold touch
  cases h0 : s.details[d0]? with
  | none => exact ⟨det, hd, ha⟩
  | some det0 =>
      simp only
      split
      · exact ⟨det, hd, ha⟩
      · by_cases e : d0 = d
        · subst e
          rw [hd] at h0; cases h0
          exact ⟨f det, by simp [lt_of_getElem? _ _ _ hd], hf det ha⟩
        · exact ⟨det, by simp only; rw [List.getElem?_set_ne e]; exact hd, ha⟩

theorem wRelease_dead (s : LtSys) (v : Option Nat) (d : Nat) (h : s.Dead d) : (s.wRelease v).Dead d := by
  cases v with
  | none => exact h
  | some d0 =>
      apply touch_dead _ _ _ _ _ h
      intro det ha; simp only; split <;> exact ha

theorem wInc_dead (s : LtSys) (v : Option Nat) (d : Nat) (h : s.Dead d) : (s.wInc v).Dead d := by
  cases v with
  | none => exact h
  | some d0 => exact touch_dead _ _ _ _ (fun det ha => ha) h

theorem tRelease_dead (s : LtSys) (v : Option Nat) (d : Nat) (h : s.Dead d) : (s.tRelease v).Dead d := by
  cases v with
  | none => exact h
  | some d0 =>
      apply touch_dead _ _ _ _ _ h
      intro det ha; split
      · exact ha
      · rfl

theorem tCreate_dead (s : LtSys) (i d : Nat) (h : s.Dead d) : (s.tCreate i).Dead d := by
  obtain ⟨det, hd, ha⟩ := h
  exact ⟨det, by simp only [tCreate]; rw [List.getElem?_append_left (lt_of_getElem? _ _ _ hd)]; exact hd, ha⟩

theorem step_dead (s : LtSys) (op : LtOp) (d : Nat) (h : s.Dead d) : (s.step op).Dead d := by
  have hW : ∀ (t : LtSys) (w : Nat), t.Dead d → (t.wDrop w).Dead d := fun t w ht => wRelease_dead t _ d ht
  have hA : ∀ (t : LtSys) (w : Nat) (v : Option Nat), t.Dead d → (t.wAttach w v).Dead d := fun t w v ht => wInc_dead t v d ht
  have hT : ∀ (t : LtSys) (i : Nat), t.Dead d → (t.tDrop i).Dead d := fun t i ht => tRelease_dead t _ d ht
  cases op with
  | tnew i => exact tCreate_dead _ i d (hT s i h)
  | tdel i => exact hT s i h
  | tcopy i j => exact tCreate_dead _ i d (hT s i h)
  | tassign i j => exact h
  | wnew w => exact hW s w h
  | wtag w i => exact hA _ w _ (hW s w h)
  | wcopyCtor w v => exact hA _ w _ (hW s w h)
  | wmoveCtor w v => exact hW s w h
  | wcopyAssign w v => simp only [step]; split; exact h; exact hA _ w _ (hW s w h)
  | wmoveAssign w v => simp only [step]; split; exact h; exact hW s w h
  | wswap a b => exact h
  | wreset w => exact hW s w h

theorem run_dead (s : LtSys) (ops : List LtOp) (d : Nat) (h : s.Dead d) : (s.run ops).Dead d := by
  induction ops generalizing s with
  | nil => exact h
  | cons op ops ih =>
      simp only [run]
      split
      · exact ih _ (step_dead s op d h)
      · exact ih _ h

end LtSys
end Tbox.C08
