/-
C08 — executable models of the three handle mechanisms.

* `Cab`   — `tbox::cabinet::Cabinet<T>` (modules/base/cabinet.hpp, cabinet_token.h), transcribed
            member by member.  A `Cell` keeps the C++ union as ONE word `w` (object number while
            `id ≠ 0`, `next_free` position while `id = 0`), so the intrusive free list is threaded
            through the cells exactly as in the code.  Objects are numbers (`0` = `nullptr`).
            `clear` follows patches/C08-01 (the id counter is NOT reset; `clearOld` = before) and
            `foreach` follows patches/C08-02 (by index, size re-checked, so callbacks may alloc/clear).
* `Pool`  — `tbox::ObjectPool<T>` (modules/base/object_pool.hpp): the parked-block chain is a list of
            block identities (head = `free_header_`); `malloc` is a source of fresh identities.
* `FdSys` — `tbox::util::Fd` (modules/util/fd.{h,cpp}): a heap of `Detail` records and handle slots
            holding an optional detail pointer; every member function is transcribed (construction from
            an invalid descriptor number included; an empty close function is "no function").
            `close()` follows patches/C08-06 (descriptor and close function taken out of the record before the
            function is called; `closeOld` = before); close functions that call back: `runD`.
* Fast.lean — the class `cabinet::Token` itself (constructors, accessors, order, hash), runs of many calls
            (`allocN`/`freeN`/`atN`, pool `allocMany`/`freeMany`) and `CabA`, the cabinet over an `Array`
            that the driver executes (proved equal to `Cab`).
-/
namespace Tbox.C08

/-- `std::numeric_limits<size_t>::max()` -/
def sizeMax : Nat := 18446744073709551615

/-! ## Cabinet -/

structure Token where
  id  : Nat := 0
  pos : Nat := 0
deriving Repr, DecidableEq

structure Cell where
  id : Nat := 0
  w  : Nat := 0       -- union { T *obj_ptr; Pos next_free; }
deriving Repr, DecidableEq

structure Cab where
  lastId    : Nat := 0
  cells     : List Cell := []
  firstFree : Nat := sizeMax
  count     : Nat := 0
  wrapped   : Bool := false     -- ghost: `allocId` has wrapped around at least once
deriving Repr, DecidableEq

/-- what a `foreach` callback (or the user between iterations) may do to the cabinet -/
inductive CbAct where
  | alloc (obj : Nat)
  | update (t : Token) (obj : Nat)
  | free (t : Token)
  | clear
deriving Repr, DecidableEq

namespace Cab

/-- `allocId` (wraps so that 0 is never handed out) -/
def allocId (c : Cab) : Cab × Nat :=
  if c.lastId = sizeMax then ({ c with lastId := 1, wrapped := true }, 1)
  else ({ c with lastId := c.lastId + 1 }, c.lastId + 1)

/-- `allocPos`; `none` = `cells_.at()` threw `std::out_of_range` -/
def allocPos (c : Cab) : Option (Cab × Nat) :=
  if c.firstFree ≠ sizeMax then
    match c.cells[c.firstFree]? with
    | none => none
    | some cell => some ({ c with firstFree := cell.w }, c.firstFree)
  else
    some ({ c with cells := c.cells ++ [{}] }, c.cells.length)

/-- `alloc(obj)`; `none` = exception -/
def alloc (c : Cab) (obj : Nat) : Cab × Option Token :=
  let (c1, id) := c.allocId
  match c1.allocPos with
  | none => (c1, none)
  | some (c2, pos) =>
      ({ c2 with cells := c2.cells.set pos { id := id, w := obj }, count := c2.count + 1 }, some ⟨id, pos⟩)

/-- the cell a token designates: `!isNull && pos < size && cell.id == token.id` -/
def lookup (c : Cab) (t : Token) : Option Nat :=
  if t.id = 0 then none else
  match c.cells[t.pos]? with
  | none => none
  | some cell => if cell.id = t.id then some cell.w else none

/-- `at(token)` (`nullptr` = 0) -/
def at' (c : Cab) (t : Token) : Nat := (c.lookup t).getD 0

/-- `update(token, obj)` -/
def update (c : Cab) (t : Token) (obj : Nat) : Cab × Bool :=
  match c.lookup t with
  | none => (c, false)
  | some _ => ({ c with cells := c.cells.set t.pos { id := t.id, w := obj } }, true)

/-- `free(token)`; returns the stored pointer (`0` when nothing was freed) -/
def free (c : Cab) (t : Token) : Cab × Nat :=
  match c.lookup t with
  | none => (c, 0)
  | some o =>
      ({ c with cells := c.cells.set t.pos { id := 0, w := c.firstFree },
                firstFree := t.pos,
                count := if c.count = 0 then sizeMax else c.count - 1 }, o)

/-- `clear()` (patches/C08-01: the id counter survives) -/
def clear (c : Cab) : Cab := { c with cells := [], firstFree := sizeMax, count := 0 }

/-- `clear()` before C08-01: `last_id_ = 0` as well -/
def clearOld (c : Cab) : Cab := { c with lastId := 0, cells := [], firstFree := sizeMax, count := 0 }

def size (c : Cab) : Nat := c.count

/-- one API call; the token is what `alloc` returned (`none` for the other calls / an exception) -/
def act (c : Cab) : CbAct → Cab × Option Token
  | .alloc o => c.alloc o
  | .update t o => ((c.update t o).1, none)
  | .free t => ((c.free t).1, none)
  | .clear => (c.clear, none)

def runActs (c : Cab) : List CbAct → Cab
  | [] => c
  | a :: as => ((c.act a).1).runActs as

/-- the tokens the `alloc`s of an action list return, in order (a null token for an exception) -/
def actTokens (c : Cab) : List CbAct → List Token
  | [] => []
  | a :: as =>
      let r := c.act a
      match a with
      | .alloc _ => r.2.getD {} :: r.1.actTokens as
      | _ => r.1.actTokens as

/-- one iteration of the loop in `foreach` (patches/C08-02: by index, `pos < cells_.size()`
re-checked): the callback is a script (`script k` = what the k-th invocation does) -/
def eachStep (script : Nat → List CbAct) (st : Cab × List (Nat × Nat)) (p : Nat) : Cab × List (Nat × Nat) :=
  match st.1.cells[p]? with
  | none => st
  | some cell =>
      if cell.id ≠ 0 then (st.1.runActs (script st.2.length), st.2 ++ [(p, cell.w)]) else st

/-- `foreach(func)` with calls from inside the callback; only positions below the initial
`cells_.size()` are considered.  Returns the callbacks made, in order, as (cell position, object) -/
def foreach (c : Cab) (script : Nat → List CbAct) : Cab × List (Nat × Nat) :=
  (List.range c.cells.length).foldl (eachStep script) (c, [])

/-- everything the callbacks of one `foreach` did, in order -/
def eachActs (c : Cab) (script : Nat → List CbAct) : List CbAct :=
  (List.range (c.foreach script).2.length).flatMap script

end Cab

/-- the operation language of one cabinet -/
inductive CabOp where
  | act (a : CbAct)
  | each (script : Nat → List CbAct)

def Cab.step (c : Cab) : CabOp → Cab
  | .act a => (c.act a).1
  | .each f => (c.foreach f).1

def Cab.run (c : Cab) : List CabOp → Cab
  | [] => c
  | op :: ops => (c.step op).run ops

/-- the same machine with `clear()` as it stood before C08-01 -/
def Cab.stepOld (c : Cab) : CabOp → Cab
  | .act .clear => c.clearOld
  | op => c.step op

def Cab.runOld (c : Cab) : List CabOp → Cab
  | [] => c
  | op :: ops => (c.stepOld op).runOld ops

/-! ### `alloc()` when the vector cannot grow

`Token new_token(allocId(), allocPos())`: `allocPos` calls `cells_.push_back(Cell())`, which throws
`std::bad_alloc` when the reallocation fails (strong guarantee: `cells_` is unchanged).  The two
argument expressions are indeterminately sequenced, so when the exception leaves `alloc()` the id
counter has (`idFirst`) or has not been advanced; nothing else was touched.  With a free cell
(`first_free_` set) no allocation is attempted and `alloc()` cannot fail this way. -/

def Cab.allocThrow (c : Cab) (idFirst : Bool) : Cab := if idFirst then c.allocId.1 else c

/-- histories in which some `alloc()` calls fail with `bad_alloc` -/
inductive CabOpX where
  | op (o : CabOp)
  | allocFail (idFirst : Bool)

def Cab.stepX (c : Cab) : CabOpX → Cab
  | .op o => c.step o
  | .allocFail b => c.allocThrow b

def Cab.runX (c : Cab) : List CabOpX → Cab
  | [] => c
  | x :: xs => (c.stepX x).runX xs

/-! ### calls that throw from inside a `foreach` callback, `reserve()`

`foreach` (cabinet.hpp:172-176) has no handler: an exception that leaves the callback leaves `foreach`
at once and the remaining cells are not visited.  The calls of the cabinet that can throw are
`alloc()` (`push_back` → `std::bad_alloc`, see above) and `reserve(n)` (`std::length_error` when
`n > max_size()`, `std::bad_alloc` when the new storage cannot be had); `std::vector::reserve` gives
the strong guarantee, so a throwing `reserve` is a failed call that changed nothing
(`allocThrow false`).  A callback may catch the exception itself (`caught`) and go on. -/

/-- `std::vector<Cell>::max_size()` of libstdc++ on LP64 for the 16-byte cell: `PTRDIFF_MAX / sizeof(Cell)` -/
def cabMaxCells : Nat := 576460752303423487

/-- `reserve(n)`: no observable state (the model has no capacity); `true` = it threw `std::length_error` -/
def Cab.reserve (c : Cab) (n : Nat) : Cab × Bool := (c, decide (n > cabMaxCells))

/-- a call made from inside a callback: an ordinary one; one that throws whatever the state (`reserve` beyond
`max_size()`; `idAdvanced` as in `allocThrow`, `false` for `reserve`); or `alloc(obj)` when the next
`operator new` fails — with a free cell no allocation is attempted and the call SUCCEEDS, otherwise it throws.
`caught`: the callback catches the exception itself and goes on; otherwise it leaves the callback and `foreach` -/
inductive CbActX where
  | act (a : CbAct)
  | throwing (idAdvanced : Bool) (caught : Bool)
  | allocOom (obj : Nat) (idAdvanced : Bool) (caught : Bool)
deriving Repr, DecidableEq

/-- one invocation of the callback: the calls in order up to the first exception that is not caught;
`true` = the exception left the callback -/
def Cab.runCbX (c : Cab) : List CbActX → Cab × Bool
  | [] => (c, false)
  | .act a :: as => ((c.act a).1).runCbX as
  | .throwing b true :: as => (c.allocThrow b).runCbX as
  | .throwing b false :: _ => (c.allocThrow b, true)
  | .allocOom o b caught :: as =>
      if c.firstFree ≠ sizeMax then ((c.alloc o).1).runCbX as
      else if caught then (c.allocThrow b).runCbX as else (c.allocThrow b, true)

/-- the same invocation as a history of calls (what `runX` executes) -/
def traceCbX (c : Cab) : List CbActX → List CabOpX
  | [] => []
  | .act a :: as => .op (.act a) :: traceCbX (c.act a).1 as
  | .throwing b true :: as => .allocFail b :: traceCbX (c.allocThrow b) as
  | .throwing b false :: _ => [.allocFail b]
  | .allocOom o b caught :: as =>
      if c.firstFree ≠ sizeMax then .op (.act (.alloc o)) :: traceCbX (c.alloc o).1 as
      else if caught then .allocFail b :: traceCbX (c.allocThrow b) as else [.allocFail b]

structure EachX where
  cab : Cab
  vis : List (Nat × Nat) := []        -- callbacks made: (cell position, object)
  aborted : Bool := false             -- an exception has left `foreach`
  trace : List CabOpX := []           -- every call the callbacks made, in order

/-- one iteration of the loop in `foreach` when callbacks may throw -/
def Cab.eachStepX (script : Nat → List CbActX) (st : EachX) (p : Nat) : EachX :=
  if st.aborted then st else
  match st.cab.cells[p]? with
  | none => st
  | some cell =>
      if cell.id ≠ 0 then
        let r := st.cab.runCbX (script st.vis.length)
        { cab := r.1, vis := st.vis ++ [(p, cell.w)], aborted := r.2,
          trace := st.trace ++ traceCbX st.cab (script st.vis.length) }
      else st

def Cab.foreachX (c : Cab) (script : Nat → List CbActX) : EachX :=
  (List.range c.cells.length).foldl (Cab.eachStepX script) { cab := c }

/-- histories of round 5: everything of `CabOpX`, iterations whose callbacks make throwing calls, `reserve` -/
inductive CabOpY where
  | x (o : CabOpX)
  | eachX (script : Nat → List CbActX)
  | reserve (n : Nat)

def Cab.stepY (c : Cab) : CabOpY → Cab
  | .x o => c.stepX o
  | .eachX f => (c.foreachX f).cab
  | .reserve n => (c.reserve n).1

def Cab.runY (c : Cab) : List CabOpY → Cab
  | [] => c
  | y :: ys => (c.stepY y).runY ys

/-- the calls a round-5 history makes, one after the other -/
def Cab.flatY (c : Cab) : List CabOpY → List CabOpX
  | [] => []
  | .x o :: ys => o :: (c.stepX o).flatY ys
  | .eachX f :: ys => (c.foreachX f).trace ++ ((c.foreachX f).cab).flatY ys
  | .reserve _ :: ys => c.flatY ys

/-! ## Object pool -/

structure PStat where
  allocT : Nat := 0     -- total_alloc_times
  freeT  : Nat := 0     -- total_free_times
  peakA  : Nat := 0     -- peak_alloc_number
  peakF  : Nat := 0     -- peak_free_number
deriving Repr, DecidableEq

structure Pool where
  keep     : Nat := sizeMax     -- keep_number_
  freeNum  : Nat := 0           -- free_number_
  parked   : List Nat := []     -- chain from free_header_ through Block::next
  stat     : PStat := {}
  -- the environment the class runs in
  nextBlk  : Nat := 0           -- malloc: every call yields a block distinct from all earlier ones
  released : List Nat := []     -- blocks handed to ::free
  ctor     : Nat := 0           -- constructor / destructor runs of T
  dtor     : Nat := 0
  leaked   : Nat := 0           -- objects still constructed when their pool was destroyed
  thrown   : Nat := 0           -- constructors that exited by an exception (their block is lost: see `allocThrow`)
  lost     : List Nat := []     -- ghost: the blocks of those constructors (owned by nobody: not parked, not released, not in use)
deriving Repr, DecidableEq

namespace Pool

/-- `alloc()` up to the constructor call: take the head of the free list (unlinking it and
decrementing `free_number_` NOW) or `malloc` a block -/
def allocA (p : Pool) : Pool × Nat :=
  match p.parked with
  | [] => ({ p with nextBlk := p.nextBlk + 1 }, p.nextBlk)
  | b :: rest => ({ p with parked := rest, freeNum := p.freeNum - 1 }, b)

/-- `alloc()` after the constructor has returned: the statistics -/
def allocB (p : Pool) : Pool :=
  let a := p.stat.allocT + 1
  let cur := a - p.stat.freeT
  { p with stat := { p.stat with allocT := a, peakA := if cur > p.stat.peakA then cur else p.stat.peakA } }

/-- `free(p)` after the destructor has returned: park the block or hand it to `::free`, statistics -/
def freeB (p0 : Pool) (b : Nat) : Pool :=
  let p1 : Pool :=
    if p0.freeNum < p0.keep then
      let n := p0.freeNum + 1
      { p0 with parked := b :: p0.parked, freeNum := n,
                stat := { p0.stat with peakF := if n > p0.stat.peakF then n else p0.stat.peakF } }
    else { p0 with released := b :: p0.released }
  { p1 with stat := { p1.stat with freeT := p1.stat.freeT + 1 } }

def ctorEnter (p : Pool) : Pool := { p with ctor := p.ctor + 1 }
def dtorEnter (p : Pool) : Pool := { p with dtor := p.dtor + 1 }

/-- `free(p)` of an object whose destructor does nothing to the pool -/
def free (p : Pool) (b : Nat) : Pool := p.dtorEnter.freeB b

/-- `~ObjectPool()` followed by the construction of a new pool `ObjectPool(keep)` in the same
environment -/
def renew (p : Pool) (keep : Nat) : Pool :=
  { keep := keep, nextBlk := p.nextBlk, released := p.parked ++ p.released, ctor := p.ctor, dtor := p.dtor,
    leaked := p.leaked, thrown := p.thrown, lost := p.lost }

/-- the constructor running in block `b` exits by an exception (`alloc()` has no handler: the
exception leaves it before the statistics): nobody owns the block any more — it is neither parked,
nor handed to `::free`, nor in use: it is lost (a memory leak, never an alias) -/
def ctorThrow (p : Pool) (b : Nat) : Pool := { p with thrown := p.thrown + 1, lost := b :: p.lost }

/-- `alloc()` whose constructor THROWS at once (object_pool.hpp:122-139 has no handler): the block was
taken (unlinked from the chain, `free_number_` decremented, or malloc'ed) before the constructor ran -/
def allocThrow (p : Pool) : Pool := p.allocA.1.ctorEnter.ctorThrow p.allocA.2

end Pool

/-- a call of `alloc`/`free` that has started and not yet returned: the constructor / destructor of
the probe object is running (and may call the same pool) -/
inductive Frame where
  | allocF (h v blk : Nat)     -- constructing, in block `blk`, the object destined for slot `h`
  | freeF (h blk : Nat)        -- destroying the object that was in slot `h`
deriving Repr, DecidableEq

def Frame.blk : Frame → Nat
  | .allocF _ _ b => b
  | .freeF _ b => b

def Frame.isAlloc : Frame → Bool
  | .allocF _ _ _ => true
  | .freeF _ _ => false

/-- the slot an `alloc` in progress will store its result in -/
def Frame.target : Frame → Option Nat
  | .allocF h _ _ => some h
  | .freeF _ _ => none

/-- a pool, the user's object slots (`slots[h] = some (block, value)`: a completely constructed
object), the calls in progress (innermost first), and the depth of the nested calls being skipped
because their outermost one was not applicable -/
structure PoolSys where
  pool  : Pool := {}
  slots : List (Option (Nat × Nat)) := []
  stack : List Frame := []
  skip  : Nat := 0
deriving Repr, DecidableEq

def nPoolSlots : Nat := 16

def PoolSys.init : PoolSys := { slots := List.replicate nPoolSlots none }

/-- the pool API seen as events: a call begins, the constructor/destructor runs (the events in
between are the pool calls IT makes), the call ends -/
inductive PEv where
  | abeg (h v : Nat)     -- `alloc(v, …)` enters: block taken, constructor entered
  | aend                 -- the constructor has returned: statistics, pointer stored in slot h
  | fbeg (h : Nat)       -- `free(slot h)` enters: destructor entered
  | fend                 -- the destructor has returned: block parked / released, statistics
  | athr                 -- the constructor of the innermost `alloc` in progress exits by an EXCEPTION (after the nested
                         -- calls it made): no statistics, nothing stored, the block is lost; the exception is caught by
                         -- whoever made the call (an enclosing constructor that lets it pass is the next `athr`)
deriving Repr, DecidableEq

inductive PoolOp where
  | evs (l : List PEv)          -- one (possibly nested) call tree
  | renew (keep : Nat)          -- frees every live object through the old pool first
  | drop (keep : Nat)           -- destroys the pool while objects are live: `~ObjectPool()` runs no
                                -- destructor and returns only the parked blocks; the objects are abandoned
  | athrow (h v : Nat)          -- `alloc(v)` for the empty slot `h` between calls; the constructor throws
deriving Repr, DecidableEq

/-- blocks holding a completely constructed object -/
def PoolSys.liveBlocks (s : PoolSys) : List Nat := s.slots.filterMap (fun o => o.map (·.1))

/-- blocks in use: live objects and objects under construction / destruction -/
def PoolSys.inUse (s : PoolSys) : List Nat := s.liveBlocks ++ s.stack.map Frame.blk

/-- slot `h` is the destination of an `alloc` in progress -/
def PoolSys.reserved (s : PoolSys) (h : Nat) : Bool :=
  s.stack.any fun f => f.target == some h

/-- one event; `some b` = an object starts being constructed in block `b` -/
def PoolSys.ev (s : PoolSys) : PEv → PoolSys × Option Nat
  | .abeg h v =>
      if s.skip > 0 then ({ s with skip := s.skip + 1 }, none) else
      match s.slots[h]? with
      | some none =>
          if s.reserved h then ({ s with skip := 1 }, none) else
          let r := s.pool.allocA
          ({ s with pool := r.1.ctorEnter, stack := .allocF h v r.2 :: s.stack }, some r.2)
      | _ => ({ s with skip := 1 }, none)       -- slot busy / out of range: the call (and what it nests) is not made
  | .aend =>
      if s.skip > 0 then ({ s with skip := s.skip - 1 }, none) else
      match s.stack with
      | .allocF h v b :: rest =>
          ({ s with pool := s.pool.allocB, slots := s.slots.set h (some (b, v)), stack := rest }, none)
      | _ => (s, none)
  | .fbeg h =>
      if s.skip > 0 then ({ s with skip := s.skip + 1 }, none) else
      match s.slots[h]? with
      | some (some (b, _)) =>
          ({ s with pool := s.pool.dtorEnter, slots := s.slots.set h none, stack := .freeF h b :: s.stack }, none)
      | _ => ({ s with skip := 1 }, none)
  | .fend =>
      if s.skip > 0 then ({ s with skip := s.skip - 1 }, none) else
      match s.stack with
      | .freeF _ b :: rest => ({ s with pool := s.pool.freeB b, stack := rest }, none)
      | _ => (s, none)
  | .athr =>
      if s.skip > 0 then ({ s with skip := s.skip - 1 }, none) else
      match s.stack with
      | .allocF _ _ b :: rest => ({ s with pool := s.pool.ctorThrow b, stack := rest }, none)
      | _ => (s, none)

def PoolSys.runEvs (s : PoolSys) : List PEv → PoolSys
  | [] => s
  | e :: es => ((s.ev e).1).runEvs es

def PoolSys.freeSlots (s : PoolSys) : List Nat → PoolSys
  | [] => s
  | h :: hs =>
      match s.slots[h]? with
      | some (some (b, _)) => ({ s with pool := s.pool.free b, slots := s.slots.set h none } : PoolSys).freeSlots hs
      | _ => s.freeSlots hs

/-- `renew`/`drop` are made between calls only -/
def PoolSys.step (s : PoolSys) : PoolOp → PoolSys
  | .evs l => s.runEvs l
  | .renew k =>
      if s.stack ≠ [] then s else
      let s1 := s.freeSlots (List.range s.slots.length)
      { s1 with pool := s1.pool.renew k }
  | .drop k =>
      if s.stack ≠ [] then s else
      { s with pool := { s.pool.renew k with leaked := s.pool.leaked + s.liveBlocks.length },
               slots := List.replicate s.slots.length none }
  | .athrow h _ =>
      if s.stack ≠ [] then s else
      match s.slots[h]? with
      | some none => { s with pool := s.pool.allocThrow }      -- the slot stays empty: `alloc` returned nothing
      | _ => s

def PoolSys.run (s : PoolSys) : List PoolOp → PoolSys
  | [] => s
  | op :: ops => (s.step op).run ops

/-! ## Fd -/

structure Detail where
  fd    : Int := -1
  ref   : Int := 1
  hasFn : Bool := false
  freed : Bool := false       -- `delete detail_` has run
deriving Repr, DecidableEq

structure FdSys where
  details  : List Detail := []          -- heap of `new Detail`; a pointer is an index
  handles  : List (Option Nat) := []    -- `detail_` of each Fd object
  closeLog : List (Nat × Bool) := []    -- every close performed: (descriptor, via close_func?)
  nextRes  : Nat := 0                   -- descriptors are numbered in the order they were opened
  flags    : List (Bool × Bool) := []   -- kernel state of descriptor r: (O_NONBLOCK of its open file description, FD_CLOEXEC)
deriving Repr, DecidableEq

/-- a system call a member function makes on `detail_->fd` (the descriptor number it hands to the kernel) -/
inductive Sys where
  | getfl (fd : Int)
  | setfl (fd : Int) (nb : Bool)
  | getfd (fd : Int)
  | setfd (fd : Int) (cx : Bool)
  | rw (kind : Nat) (fd : Int)          -- 0 read · 1 readv · 2 write · 3 writev
deriving Repr, DecidableEq

def Sys.fd : Sys → Int
  | .getfl f | .setfl f _ | .getfd f | .setfd f _ | .rw _ f => f

def nFdSlots : Nat := 8

def FdSys.init : FdSys := { handles := List.replicate nFdSlots none }

namespace FdSys

def detailOf (s : FdSys) (h : Nat) : Option Nat := (s.handles[h]?).join

/-- the body of `~Fd()` applied to a `detail_` value -/
def release (s : FdSys) : Option Nat → FdSys
  | none => s
  | some d =>
      match s.details[d]? with
      | none => s
      | some det =>
          let r := det.ref - 1
          if r = 0 then
            let log := if det.fd ≥ 0 then s.closeLog ++ [(det.fd.toNat, det.hasFn)] else s.closeLog
            { s with details := s.details.set d { det with ref := r, freed := true }, closeLog := log }
          else { s with details := s.details.set d { det with ref := r } }

/-- `++other.detail_->ref_count` -/
def incRef (s : FdSys) : Option Nat → FdSys
  | none => s
  | some d =>
      match s.details[d]? with
      | none => s
      | some det => { s with details := s.details.set d { det with ref := det.ref + 1 } }

def setH (s : FdSys) (h : Nat) (v : Option Nat) : FdSys := { s with handles := s.handles.set h v }

/-- `~Fd()` of slot `h` followed by `Fd()` in the same storage -/
def del (s : FdSys) (h : Nat) : FdSys := (s.release (s.detailOf h)).setH h none

/-- `Fd(fd)` / `Fd(fd, close_func)` constructed in slot `h` (whose previous object was destroyed) -/
def ctorFd (s : FdSys) (h : Nat) (withFn : Bool) : FdSys :=
  { s with details := s.details ++ [{ fd := (s.nextRes : Int), ref := 1, hasFn := withFn }],
           handles := s.handles.set h (some s.details.length),
           nextRes := s.nextRes + 1,
           flags := s.flags ++ [(false, false)] }    -- a new open file description: blocking, inherited by exec

/-- `Fd(fd)` / `Fd(fd, close_func)` with a NEGATIVE number `-(k+1)` (what a failed `open`/`socket`
returned): a record is created all the same; it never closes anything -/
def ctorNeg (s : FdSys) (h : Nat) (k : Nat) (withFn : Bool) : FdSys :=
  { s with details := s.details ++ [{ fd := Int.negSucc k, ref := 1, hasFn := withFn }],
           handles := s.handles.set h (some s.details.length) }

/-- `swap(other)` -/
def swap (s : FdSys) (a b : Nat) : FdSys :=
  let da := s.detailOf a
  let db := s.detailOf b
  (s.setH a db).setH b da

/-- `reset()`: `Fd tmp; swap(tmp);` and `tmp` dies -/
def reset (s : FdSys) (h : Nat) : FdSys :=
  let d := s.detailOf h
  (s.setH h none).release d

/-- copy constructor body, `this` = slot `d` holding nothing yet -/
def copyInto (s : FdSys) (d src : Nat) : FdSys :=
  match s.detailOf src with
  | none => s
  | some x => (s.incRef (some x)).setH d (some x)

/-- `operator=(const Fd&)` -/
def copyAssign (s : FdSys) (d src : Nat) : FdSys :=
  if d = src then s else (s.reset d).copyInto d src

/-- `operator=(Fd&&)` -/
def moveAssign (s : FdSys) (d src : Nat) : FdSys :=
  if d = src then s else (s.reset d).swap d src

/-- `close()` -/
def close (s : FdSys) (h : Nat) : FdSys :=
  match s.detailOf h with
  | none => s
  | some d =>
      match s.details[d]? with
      | none => s
      | some det =>
          if det.fd ≥ 0 then
            { s with details := s.details.set d { det with fd := -1, hasFn := false },
                     closeLog := s.closeLog ++ [(det.fd.toNat, det.hasFn)] }
          else s

/-- `get()` -/
def get (s : FdSys) (h : Nat) : Int :=
  match s.detailOf h with
  | none => -1
  | some d => match s.details[d]? with
      | none => -1
      | some det => det.fd

/-- `isNull()` -/
def isNull (s : FdSys) (h : Nat) : Bool := s.get h == -1

/-! ### the members that talk to the kernel: `Open`, `read/readv/write/writev`, `setNonBlock`,
`isNonBlock`, `setCloseOnExec` (fd.cpp:103-203).  The kernel is modelled as far as the property needs:
a descriptor number is *open* from the `open`/`dup` that produced it until the one `close` of it; every
descriptor has its own open file description with an O_NONBLOCK status flag and its own FD_CLOEXEC
descriptor flag; `fcntl` on a number that is not open fails with -1 (EBADF).  A call on a number the
model has logged as closed is the dangling use the property forbids (the real kernel may have handed
the number out again): `C08_fd_no_use_after_close` shows no member function ever makes one. -/

/-- is descriptor number `fd` open in the kernel? -/
def kOpen (s : FdSys) (fd : Int) : Bool :=
  decide (0 ≤ fd) && decide (fd.toNat < s.nextRes) && !(s.closeLog.any (·.1 == fd.toNat))

/-- `(O_NONBLOCK, FD_CLOEXEC)` of an open descriptor; `none` = `fcntl` returns -1 -/
def kFlags (s : FdSys) (fd : Int) : Option (Bool × Bool) :=
  if s.kOpen fd then s.flags[fd.toNat]? else none

def kSet (s : FdSys) (fd : Int) (v : Bool × Bool) : FdSys := { s with flags := s.flags.set fd.toNat v }

/-- the number a member function hands to the kernel: `none` = `detail_ == nullptr`, it returns
before any call; otherwise `detail_->fd` (which is -1 once ANY copy has called `close()`) -/
def target (s : FdSys) (h : Nat) : Option Int :=
  match s.detailOf h with
  | none => none
  | some d => match s.details[d]? with
      | none => none
      | some det => some det.fd

/-- `read / readv / write / writev`: `-1` without a call on an empty handle, otherwise exactly one
call on `detail_->fd` whose result is returned unchanged.  `ans` = what the kernel answers for an open
descriptor (a count, or -1 for EINTR/EAGAIN/EIO/…: an oracle); for a number that is not open it answers -1 -/
def io (s : FdSys) (h kind : Nat) (ans : Int) : Int × List Sys :=
  match s.target h with
  | none => (-1, [])
  | some fd => (if s.kOpen fd then ans else -1, [.rw kind fd])

/-- `setNonBlock(enable)`: F_GETFL, then F_SETFL only when the flag word changes.  When F_GETFL fails
`old_flags` is -1 (all bits set): `-1 | O_NONBLOCK = -1` (no second call), `-1 & ~O_NONBLOCK ≠ -1`
(a second call, which fails as well and is logged) -/
def setNonBlock (s : FdSys) (h : Nat) (en : Bool) : FdSys × List Sys :=
  match s.target h with
  | none => (s, [])
  | some fd =>
      match s.kFlags fd with
      | none => (s, if en then [.getfl fd] else [.getfl fd, .setfl fd false])
      | some (nb, cx) =>
          if nb = en then (s, [.getfl fd]) else (s.kSet fd (en, cx), [.getfl fd, .setfl fd en])

/-- `isNonBlock()`: `false` on an empty handle; `(flags & O_NONBLOCK) != 0`, which is TRUE when
F_GETFL failed (flags = -1) -/
def isNonBlock (s : FdSys) (h : Nat) : Bool × List Sys :=
  match s.target h with
  | none => (false, [])
  | some fd =>
      match s.kFlags fd with
      | none => (true, [.getfl fd])
      | some (nb, _) => (nb, [.getfl fd])

/-- `setCloseOnExec()` (after patches/C08-05): F_GETFD, then F_SETFD when FD_CLOEXEC was not set;
`-1 | FD_CLOEXEC = -1`: no second call when F_GETFD failed -/
def setCloexec (s : FdSys) (h : Nat) : FdSys × List Sys :=
  match s.target h with
  | none => (s, [])
  | some fd =>
      match s.kFlags fd with
      | none => (s, [.getfd fd])
      | some (nb, cx) =>
          if cx then (s, [.getfd fd]) else (s.kSet fd (nb, true), [.getfd fd, .setfd fd true])

/-- `setCloseOnExec()` as it stood before C08-05: the new DESCRIPTOR flag word (= 1) was written
with F_SETFL, i.e. as the STATUS flags: O_NONBLOCK is cleared and FD_CLOEXEC stays off -/
def setCloexecOld (s : FdSys) (h : Nat) : FdSys × List Sys :=
  match s.target h with
  | none => (s, [])
  | some fd =>
      match s.kFlags fd with
      | none => (s, [.getfd fd])
      | some (_, cx) =>
          if cx then (s, [.getfd fd]) else (s.kSet fd (false, cx), [.getfd fd, .setfl fd false])

end FdSys

inductive FdOp where
  | fresh (h : Nat)                      -- destroy, default-construct
  | opn (h : Nat) (withFn : Bool)        -- destroy, construct from a newly opened descriptor
  | opnNeg (h k : Nat) (withFn : Bool)   -- destroy, construct from the invalid descriptor number -(k+1)
  | copyCtor (d s : Nat)                 -- destroy d, copy-construct it from s   (d ≠ s)
  | moveCtor (d s : Nat)                 -- destroy d, move-construct it from s   (d ≠ s)
  | copyAssign (d s : Nat)
  | moveAssign (d s : Nat)
  | swap (a b : Nat)
  | reset (h : Nat)
  | close (h : Nat)
  | openFile (h : Nat) (ok : Bool)       -- destroy, move-construct from `Fd::Open(…)`: `Fd(fd)` when `::open` succeeded, `Fd()` when it failed
  | io (h kind : Nat) (ans : Int)        -- read / readv / write / writev with the kernel's answer
  | setNonBlock (h : Nat) (en : Bool)
  | isNonBlock (h : Nat)
  | setCloexec (h : Nat)
deriving Repr, DecidableEq

def FdOp.ok : FdOp → Bool
  | .openFile h _ | .io h _ _ | .setNonBlock h _ | .isNonBlock h | .setCloexec h => h < nFdSlots
  | .fresh h | .reset h | .close h | .opn h _ | .opnNeg h _ _ => h < nFdSlots
  | .copyCtor d s | .moveCtor d s => d < nFdSlots ∧ s < nFdSlots ∧ d ≠ s
  | .copyAssign d s | .moveAssign d s | .swap d s => d < nFdSlots ∧ s < nFdSlots

def FdSys.step (s : FdSys) : FdOp → FdSys
  | .fresh h => s.del h
  | .opn h fn => (s.del h).ctorFd h fn
  | .opnNeg h k fn => (s.del h).ctorNeg h k fn
  | .copyCtor d src => (s.del d).copyInto d src
  | .moveCtor d src => (s.del d).swap d src
  | .copyAssign d src => s.copyAssign d src
  | .moveAssign d src => s.moveAssign d src
  | .swap a b => s.swap a b
  | .reset h => s.reset h
  | .close h => s.close h
  | .openFile h ok => if ok then (s.del h).ctorFd h false else s.del h
  | .io _ _ _ => s
  | .setNonBlock h en => (s.setNonBlock h en).1
  | .isNonBlock _ => s
  | .setCloexec h => (s.setCloexec h).1

/-- the system calls the operation makes on `detail_->fd` (closes are in `closeLog`) -/
def FdSys.calls (s : FdSys) : FdOp → List Sys
  | .io h k a => (s.io h k a).2
  | .setNonBlock h en => (s.setNonBlock h en).2
  | .isNonBlock h => (s.isNonBlock h).2
  | .setCloexec h => (s.setCloexec h).2
  | _ => []

def FdSys.run (s : FdSys) : List FdOp → FdSys
  | [] => s
  | op :: ops => (s.step op).run ops

/-! ### close functions that call back into the handles (re-entrancy)

`Fd(fd, close_func)`: the user's function runs inside `close()`, `reset()` and the destructor.  After
patches/C08-06 `close()` takes the descriptor number and the function OUT of the record before calling
it and touches nothing afterwards; `reset()` / `~Fd()` call it when no handle can reach the record any
more (`ref_count == 0`, `this->detail_` already detached).  So whatever the function does to the handles
happens on a state in which the operation is complete: a program with re-entrant scripts is the flat
sequence "operation, then its script".  Programs are given in pre-order: `(d, op)` with depth `d + 1`
belongs to the script of the nearest preceding item of depth `d`; it runs iff that item's operation did
call a close function (and was itself run). -/

/-- the operation calls a user-supplied close function -/
def FdSys.fires (s : FdSys) (op : FdOp) : Bool := ((s.step op).closeLog.drop s.closeLog.length).any (·.2)

def FdSys.runD (s : FdSys) (fired : List Bool) : List (Nat × FdOp) → FdSys
  | [] => s
  | (d, op) :: rest =>
      let anc := fired.take d
      if anc.length = d ∧ anc.all (· == true) then (s.step op).runD (anc ++ [s.fires op]) rest
      else s.runD (anc ++ List.replicate (d + 1 - anc.length) false) rest

/-- the operations of a re-entrant program that take place, in the order they take place -/
def FdSys.flatD (s : FdSys) (fired : List Bool) : List (Nat × FdOp) → List FdOp
  | [] => []
  | (d, op) :: rest =>
      let anc := fired.take d
      if anc.length = d ∧ anc.all (· == true) then op :: (s.step op).flatD (anc ++ [s.fires op]) rest
      else s.flatD (anc ++ List.replicate (d + 1 - anc.length) false) rest

/-- `close()` as it stood BEFORE patches/C08-06, with a close function that runs `script` (flat operations on
the handles): `close_func(fd)` was called while the record still held the descriptor and the function;
`close_func = nullptr; fd = -1` were written afterwards THROUGH `this->detail_`.  `none` = that pointer
was null by then (the function reset the handle it was called through): a null-pointer write -/
def FdSys.closeOld (s : FdSys) (h : Nat) (script : List FdOp) : Option FdSys :=
  match s.detailOf h with
  | none => some s
  | some d =>
      match s.details[d]? with
      | none => some s
      | some det =>
          if det.fd ≥ 0 then
            if det.hasFn then
              let s1 := { s with closeLog := s.closeLog ++ [(det.fd.toNat, true)] }     -- the function runs: the descriptor is closed
              let s2 := s1.run script                                                    -- … and does this to the handles
              match s2.detailOf h with
              | none => none
              | some d2 =>
                  match s2.details[d2]? with
                  | none => none
                  | some det2 => some { s2 with details := s2.details.set d2 { det2 with fd := -1, hasFn := false } }
            else some (s.close h)
          else some s

/-! ## LifetimeTag / Watcher (modules/base/lifetime_tag.hpp)

`LifetimeTag::Detail {alive, watcher_counter}` records live in a heap list (pointer = index); a tag
slot holds the tag object's `d_` (`none` = no object in the slot), a watcher slot the watcher's `d_`
(`none` = `nullptr`).  Every access to a record goes through `touch`, which raises `bad` when the
record has been deleted (use-after-free / double delete) — the model of the memory error.
Follows patches/C08-03 (copying a null watcher copies null) and C08-04 (`isNull()`). -/

structure LDetail where
  alive : Bool := true
  cnt   : Int := 0          -- watcher_counter
  freed : Bool := false     -- `delete d_` has run
deriving Repr, DecidableEq

structure LtSys where
  details : List LDetail := []
  tags    : List (Option Nat) := []
  ws      : List (Option Nat) := []
  bad     : Bool := false
deriving Repr, DecidableEq

def nLtTags : Nat := 4
def nLtWs : Nat := 6

def LtSys.init : LtSys := { tags := List.replicate nLtTags none, ws := List.replicate nLtWs none }

namespace LtSys

/-- read-modify-write of `*d`; touching a deleted (or never allocated) record is the memory error -/
def touch (s : LtSys) (d : Nat) (f : LDetail → LDetail) : LtSys :=
  match s.details[d]? with
  | none => { s with bad := true }
  | some det => if det.freed then { s with bad := true } else { s with details := s.details.set d (f det) }

/-- `~Watcher()` applied to a `d_` value -/
def wRelease (s : LtSys) : Option Nat → LtSys
  | none => s
  | some d => s.touch d fun det =>
      let c := det.cnt - 1
      if c = 0 ∧ det.alive = false then { det with cnt := c, freed := true } else { det with cnt := c }

/-- `++d_->watcher_counter` -/
def wInc (s : LtSys) : Option Nat → LtSys
  | none => s
  | some d => s.touch d fun det => { det with cnt := det.cnt + 1 }

/-- `~LifetimeTag()` applied to a `d_` value -/
def tRelease (s : LtSys) : Option Nat → LtSys
  | none => s
  | some d => s.touch d fun det =>
      if det.cnt = 0 then { det with freed := true } else { det with alive := false }

def tagOf (s : LtSys) (i : Nat) : Option Nat := (s.tags[i]?).join
def wOf (s : LtSys) (w : Nat) : Option Nat := (s.ws[w]?).join
def setW (s : LtSys) (w : Nat) (v : Option Nat) : LtSys := { s with ws := s.ws.set w v }
def setT (s : LtSys) (i : Nat) (v : Option Nat) : LtSys := { s with tags := s.tags.set i v }

/-- destroy the watcher in slot `w` and default-construct one there; also `reset()` -/
def wDrop (s : LtSys) (w : Nat) : LtSys := (s.wRelease (s.wOf w)).setW w none

/-- the (null) watcher in slot `w` starts watching `v`: `d_ = v; ++d_->watcher_counter` (C08-03:
nothing to count when `v` is null) -/
def wAttach (s : LtSys) (w : Nat) (v : Option Nat) : LtSys := (s.wInc v).setW w v

def wSwap (s : LtSys) (a b : Nat) : LtSys :=
  let da := s.wOf a
  let db := s.wOf b
  (s.setW a db).setW b da

/-- destroy the tag object in slot `i` (if any) -/
def tDrop (s : LtSys) (i : Nat) : LtSys := (s.tRelease (s.tagOf i)).setT i none

/-- construct a tag in the empty slot `i`: `d_(new Detail)` -/
def tCreate (s : LtSys) (i : Nat) : LtSys :=
  { s with details := s.details ++ [{}], tags := s.tags.set i (some s.details.length) }

/-- `isAlive()` / `operator bool`: `d_ != nullptr && d_->alive` (a read of `*d_`) -/
def isAlive (s : LtSys) (w : Nat) : Bool :=
  match s.wOf w with
  | none => false
  | some d => match s.details[d]? with
      | some det => det.alive && !det.freed
      | none => false

/-- `isNull()` (C08-04: `d_ == nullptr`) -/
def isNull (s : LtSys) (w : Nat) : Bool := (s.wOf w).isNone

end LtSys

inductive LtOp where
  | tnew (i : Nat)            -- destroy slot i (if occupied), construct `LifetimeTag()`
  | tdel (i : Nat)            -- destroy the tag in slot i
  | tcopy (i j : Nat)         -- destroy slot i, copy- or move-construct it from tag j: a NEW detail
  | tassign (i j : Nat)       -- copy/move assignment between two tags: nothing happens
  | wnew (w : Nat)            -- destroy, default-construct
  | wtag (w i : Nat)          -- destroy w, construct it from tag i   /  `w = tag`  (reset, bind, count)
  | wcopyCtor (w v : Nat)     -- destroy w, copy-construct it from watcher v      (w ≠ v)
  | wmoveCtor (w v : Nat)     -- destroy w, move-construct it from watcher v      (w ≠ v)
  | wcopyAssign (w v : Nat)
  | wmoveAssign (w v : Nat)
  | wswap (a b : Nat)
  | wreset (w : Nat)
deriving Repr, DecidableEq

/-- slot indices in range, distinct where the C++ needs two objects; ops that read a tag need it to exist -/
def LtOp.ok (s : LtSys) : LtOp → Bool
  | .tnew i | .tdel i => i < nLtTags
  | .tcopy i j => i < nLtTags ∧ j < nLtTags ∧ i ≠ j ∧ (s.tagOf j).isSome
  | .tassign i j => i < nLtTags ∧ j < nLtTags ∧ (s.tagOf i).isSome ∧ (s.tagOf j).isSome
  | .wnew w | .wreset w => w < nLtWs
  | .wtag w i => w < nLtWs ∧ i < nLtTags ∧ (s.tagOf i).isSome
  | .wcopyCtor w v | .wmoveCtor w v => w < nLtWs ∧ v < nLtWs ∧ w ≠ v
  | .wcopyAssign w v | .wmoveAssign w v | .wswap w v => w < nLtWs ∧ v < nLtWs

def LtSys.step (s : LtSys) : LtOp → LtSys
  | .tnew i => (s.tDrop i).tCreate i
  | .tdel i => s.tDrop i
  | .tcopy i _ => (s.tDrop i).tCreate i
  | .tassign _ _ => s
  | .wnew w => s.wDrop w
  | .wtag w i => let s1 := s.wDrop w; s1.wAttach w (s1.tagOf i)
  | .wcopyCtor w v => let s1 := s.wDrop w; s1.wAttach w (s1.wOf v)
  | .wmoveCtor w v => (s.wDrop w).wSwap w v
  | .wcopyAssign w v => if w = v then s else let s1 := s.wDrop w; s1.wAttach w (s1.wOf v)
  | .wmoveAssign w v => if w = v then s else (s.wDrop w).wSwap w v
  | .wswap a b => s.wSwap a b
  | .wreset w => s.wDrop w

/-- ops that are not applicable in the current state (a tag that does not exist) are skipped -/
def LtSys.run (s : LtSys) : List LtOp → LtSys
  | [] => s
  | op :: ops => (if op.ok s then s.step op else s).run ops

end Tbox.C08
