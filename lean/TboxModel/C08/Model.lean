/-
C08 — executable models of the three handle mechanisms.

* `Cab`   — `tbox::cabinet::Cabinet<T>` (modules/base/cabinet.hpp, cabinet_token.h), transcribed
            member by member.  A `Cell` keeps the C++ union as ONE word `w` (object number while
            `id ≠ 0`, `next_free` position while `id = 0`), so the intrusive free list is threaded
            through the cells exactly as in the code.  Objects are numbers (`0` = `nullptr`).
            `clear` follows the repaired code (patches/C08-01-…: the id counter is NOT reset);
            `clearOld` is the function as it stood before the repair (used by the counterexample).
* `Pool`  — `tbox::ObjectPool<T>` (modules/base/object_pool.hpp): the parked-block chain is a list of
            block identities (head = `free_header_`); `malloc` is a source of fresh identities.
* `FdSys` — `tbox::util::Fd` (modules/util/fd.{h,cpp}): a heap of `Detail` records and handle slots
            holding an optional detail pointer; every member function is transcribed.
-/
namespace Tbox.C08

/-- `std::numeric_limits<size_t>::max()` -/
def sizeMax : Nat := 18446744073709551615

/-! ## Cabinet -/

structure Token where
  id  : Nat := 0
  pos : Nat := 0
deriving Repr, DecidableEq

structure Cell where
  id : Nat := 0
  w  : Nat := 0       -- union { T *obj_ptr; Pos next_free; }
deriving Repr, DecidableEq

structure Cab where
  lastId    : Nat := 0
  cells     : List Cell := []
  firstFree : Nat := sizeMax
  count     : Nat := 0
deriving Repr, DecidableEq

namespace Cab

/-- `allocId` (wraps so that 0 is never handed out) -/
def allocId (c : Cab) : Cab × Nat :=
  let l := if c.lastId = sizeMax then 0 else c.lastId
  ({ c with lastId := l + 1 }, l + 1)

/-- `allocPos`; `none` = `cells_.at()` threw `std::out_of_range` -/
def allocPos (c : Cab) : Option (Cab × Nat) :=
  if c.firstFree ≠ sizeMax then
    match c.cells[c.firstFree]? with
    | none => none
    | some cell => some ({ c with firstFree := cell.w }, c.firstFree)
  else
    some ({ c with cells := c.cells ++ [{}] }, c.cells.length)

/-- `alloc(obj)`; `none` = exception -/
def alloc (c : Cab) (obj : Nat) : Cab × Option Token :=
  let (c1, id) := c.allocId
  match c1.allocPos with
  | none => (c1, none)
  | some (c2, pos) =>
      ({ c2 with cells := c2.cells.set pos { id := id, w := obj }, count := c2.count + 1 }, some ⟨id, pos⟩)

/-- the cell a token designates: `!isNull && pos < size && cell.id == token.id` -/
def lookup (c : Cab) (t : Token) : Option Nat :=
  if t.id = 0 then none else
  match c.cells[t.pos]? with
  | none => none
  | some cell => if cell.id = t.id then some cell.w else none

/-- `at(token)` (`nullptr` = 0) -/
def at' (c : Cab) (t : Token) : Nat := (c.lookup t).getD 0

/-- `update(token, obj)` -/
def update (c : Cab) (t : Token) (obj : Nat) : Cab × Bool :=
  match c.lookup t with
  | none => (c, false)
  | some _ => ({ c with cells := c.cells.set t.pos { id := t.id, w := obj } }, true)

/-- `free(token)`; returns the stored pointer (`0` when nothing was freed) -/
def free (c : Cab) (t : Token) : Cab × Nat :=
  match c.lookup t with
  | none => (c, 0)
  | some o =>
      ({ c with cells := c.cells.set t.pos { id := 0, w := c.firstFree },
                firstFree := t.pos,
                count := if c.count = 0 then sizeMax else c.count - 1 }, o)

/-- `clear()` as repaired: the id counter survives -/
def clear (c : Cab) : Cab := { c with cells := [], firstFree := sizeMax, count := 0 }

/-- `clear()` before the repair: `last_id_ = 0` as well -/
def clearOld (_c : Cab) : Cab := { lastId := 0, cells := [], firstFree := sizeMax, count := 0 }

def size (c : Cab) : Nat := c.count

def freeAll (c : Cab) : List Token → Cab
  | [] => c
  | t :: ts => ((c.free t).1).freeAll ts

/-- one iteration of the range-for in `foreach`: the callback is a removal script
(`script k` = the tokens the k-th invocation frees) -/
def eachStep (script : Nat → List Token) (st : Cab × List (Nat × Nat)) (p : Nat) : Cab × List (Nat × Nat) :=
  match st.1.cells[p]? with
  | none => st
  | some cell =>
      if cell.id ≠ 0 then (st.1.freeAll (script st.2.length), st.2 ++ [(p, cell.w)]) else st

/-- `foreach(func)` with removals from inside the callback; returns the callbacks made, in order, as
(cell position, object passed) -/
def foreach (c : Cab) (script : Nat → List Token) : Cab × List (Nat × Nat) :=
  (List.range c.cells.length).foldl (eachStep script) (c, [])

end Cab

/-- the operation language of one cabinet -/
inductive CabOp where
  | alloc (obj : Nat)
  | update (t : Token) (obj : Nat)
  | free (t : Token)
  | clear
  | each (script : Nat → List Token)

def Cab.step (c : Cab) : CabOp → Cab
  | .alloc o => (c.alloc o).1
  | .update t o => (c.update t o).1
  | .free t => (c.free t).1
  | .clear => c.clear
  | .each f => (c.foreach f).1

def Cab.run (c : Cab) : List CabOp → Cab
  | [] => c
  | op :: ops => (c.step op).run ops

/-- the same machine with `clear()` as it stood before the repair -/
def Cab.stepOld (c : Cab) : CabOp → Cab
  | .clear => c.clearOld
  | op => c.step op

def Cab.runOld (c : Cab) : List CabOp → Cab
  | [] => c
  | op :: ops => (c.stepOld op).runOld ops

/-! ## Object pool -/

structure PStat where
  allocT : Nat := 0     -- total_alloc_times
  freeT  : Nat := 0     -- total_free_times
  peakA  : Nat := 0     -- peak_alloc_number
  peakF  : Nat := 0     -- peak_free_number
deriving Repr, DecidableEq

structure Pool where
  keep     : Nat := sizeMax     -- keep_number_
  freeNum  : Nat := 0           -- free_number_
  parked   : List Nat := []     -- chain from free_header_ through Block::next
  stat     : PStat := {}
  -- the environment the class runs in
  nextBlk  : Nat := 0           -- malloc: every call yields a block distinct from all earlier ones
  released : List Nat := []     -- blocks handed to ::free
  ctor     : Nat := 0           -- constructor / destructor runs of T
  dtor     : Nat := 0
deriving Repr, DecidableEq

namespace Pool

/-- `alloc(args…)`: returns the block the object was constructed in -/
def alloc (p : Pool) : Pool × Nat :=
  let r : Pool × Nat := match p.parked with
    | [] => ({ p with nextBlk := p.nextBlk + 1 }, p.nextBlk)
    | b :: rest => ({ p with parked := rest, freeNum := p.freeNum - 1 }, b)
  let p1 := r.1
  let a := p1.stat.allocT + 1
  let cur := a - p1.stat.freeT
  ({ p1 with ctor := p1.ctor + 1,
             stat := { p1.stat with allocT := a, peakA := if cur > p1.stat.peakA then cur else p1.stat.peakA } }, r.2)

/-- `free(p)` -/
def free (p : Pool) (b : Nat) : Pool :=
  let p0 := { p with dtor := p.dtor + 1 }
  let p1 : Pool :=
    if p0.freeNum < p0.keep then
      let n := p0.freeNum + 1
      { p0 with parked := b :: p0.parked, freeNum := n,
                stat := { p0.stat with peakF := if n > p0.stat.peakF then n else p0.stat.peakF } }
    else { p0 with released := b :: p0.released }
  { p1 with stat := { p1.stat with freeT := p1.stat.freeT + 1 } }

/-- `~ObjectPool()` followed by the construction of a new pool `ObjectPool(keep)` in the same
environment -/
def renew (p : Pool) (keep : Nat) : Pool :=
  { keep := keep, nextBlk := p.nextBlk, released := p.parked ++ p.released, ctor := p.ctor, dtor := p.dtor }

end Pool

/-- a pool together with the user's object slots: `slots[h] = some (block, value)` -/
structure PoolSys where
  pool  : Pool := {}
  slots : List (Option (Nat × Nat)) := []
deriving Repr, DecidableEq

def nPoolSlots : Nat := 16

def PoolSys.init : PoolSys := { slots := List.replicate nPoolSlots none }

inductive PoolOp where
  | alloc (h : Nat) (v : Nat)
  | free (h : Nat)
  | renew (keep : Nat)          -- frees every live object through the old pool first
deriving Repr, DecidableEq

def PoolSys.liveBlocks (s : PoolSys) : List Nat := s.slots.filterMap (fun o => o.map (·.1))

def PoolSys.freeSlots (s : PoolSys) : List Nat → PoolSys
  | [] => s
  | h :: hs =>
      match s.slots[h]? with
      | some (some (b, _)) => ({ pool := s.pool.free b, slots := s.slots.set h none } : PoolSys).freeSlots hs
      | _ => s.freeSlots hs

/-- result: new state and `some block` when an object was constructed in `block` -/
def PoolSys.step (s : PoolSys) : PoolOp → PoolSys × Option Nat
  | .alloc h v =>
      match s.slots[h]? with
      | some none =>
          let (p, b) := s.pool.alloc
          ({ pool := p, slots := s.slots.set h (some (b, v)) }, some b)
      | _ => (s, none)        -- slot busy / out of range: nothing happens
  | .free h =>
      match s.slots[h]? with
      | some (some (b, _)) => ({ pool := s.pool.free b, slots := s.slots.set h none }, none)
      | _ => (s, none)
  | .renew k =>
      let s1 := s.freeSlots (List.range s.slots.length)
      ({ s1 with pool := s1.pool.renew k }, none)

def PoolSys.run (s : PoolSys) : List PoolOp → PoolSys
  | [] => s
  | op :: ops => ((s.step op).1).run ops

/-! ## Fd -/

structure Detail where
  fd    : Int := -1
  ref   : Int := 1
  hasFn : Bool := false
  freed : Bool := false       -- `delete detail_` has run
deriving Repr, DecidableEq

structure FdSys where
  details  : List Detail := []          -- heap of `new Detail`; a pointer is an index
  handles  : List (Option Nat) := []    -- `detail_` of each Fd object
  closeLog : List (Nat × Bool) := []    -- every close performed: (descriptor, via close_func?)
  nextRes  : Nat := 0                   -- descriptors are numbered in the order they were opened
deriving Repr, DecidableEq

def nFdSlots : Nat := 8

def FdSys.init : FdSys := { handles := List.replicate nFdSlots none }

namespace FdSys

def detailOf (s : FdSys) (h : Nat) : Option Nat := (s.handles[h]?).join

/-- the body of `~Fd()` applied to a `detail_` value -/
def release (s : FdSys) : Option Nat → FdSys
  | none => s
  | some d =>
      match s.details[d]? with
      | none => s
      | some det =>
          let r := det.ref - 1
          if r = 0 then
            let log := if det.fd ≥ 0 then s.closeLog ++ [(det.fd.toNat, det.hasFn)] else s.closeLog
            { s with details := s.details.set d { det with ref := r, freed := true }, closeLog := log }
          else { s with details := s.details.set d { det with ref := r } }

/-- `++other.detail_->ref_count` -/
def incRef (s : FdSys) : Option Nat → FdSys
  | none => s
  | some d =>
      match s.details[d]? with
      | none => s
      | some det => { s with details := s.details.set d { det with ref := det.ref + 1 } }

def setH (s : FdSys) (h : Nat) (v : Option Nat) : FdSys := { s with handles := s.handles.set h v }

/-- `~Fd()` of slot `h` followed by `Fd()` in the same storage -/
def del (s : FdSys) (h : Nat) : FdSys := (s.release (s.detailOf h)).setH h none

/-- `Fd(fd)` / `Fd(fd, close_func)` constructed in slot `h` (whose previous object was destroyed) -/
def ctorFd (s : FdSys) (h : Nat) (withFn : Bool) : FdSys :=
  { s with details := s.details ++ [{ fd := (s.nextRes : Int), ref := 1, hasFn := withFn }],
           handles := s.handles.set h (some s.details.length),
           nextRes := s.nextRes + 1 }

/-- `swap(other)` -/
def swap (s : FdSys) (a b : Nat) : FdSys :=
  let da := s.detailOf a
  let db := s.detailOf b
  (s.setH a db).setH b da

/-- `reset()`: `Fd tmp; swap(tmp);` and `tmp` dies -/
def reset (s : FdSys) (h : Nat) : FdSys :=
  let d := s.detailOf h
  (s.setH h none).release d

/-- copy constructor body, `this` = slot `d` holding nothing yet -/
def copyInto (s : FdSys) (d src : Nat) : FdSys :=
  match s.detailOf src with
  | none => s
  | some x => (s.incRef (some x)).setH d (some x)

/-- `operator=(const Fd&)` -/
def copyAssign (s : FdSys) (d src : Nat) : FdSys :=
  if d = src then s else (s.reset d).copyInto d src

/-- `operator=(Fd&&)` -/
def moveAssign (s : FdSys) (d src : Nat) : FdSys :=
  if d = src then s else (s.reset d).swap d src

/-- `close()` -/
def close (s : FdSys) (h : Nat) : FdSys :=
  match s.detailOf h with
  | none => s
  | some d =>
      match s.details[d]? with
      | none => s
      | some det =>
          if det.fd ≥ 0 then
            { s with details := s.details.set d { det with fd := -1, hasFn := false },
                     closeLog := s.closeLog ++ [(det.fd.toNat, det.hasFn)] }
          else s

/-- `get()` -/
def get (s : FdSys) (h : Nat) : Int :=
  match s.detailOf h with
  | none => -1
  | some d => match s.details[d]? with
      | none => -1
      | some det => det.fd

/-- `isNull()` -/
def isNull (s : FdSys) (h : Nat) : Bool := s.get h == -1

end FdSys

inductive FdOp where
  | fresh (h : Nat)                      -- destroy, default-construct
  | opn (h : Nat) (withFn : Bool)        -- destroy, construct from a newly opened descriptor
  | copyCtor (d s : Nat)                 -- destroy d, copy-construct it from s   (d ≠ s)
  | moveCtor (d s : Nat)                 -- destroy d, move-construct it from s   (d ≠ s)
  | copyAssign (d s : Nat)
  | moveAssign (d s : Nat)
  | swap (a b : Nat)
  | reset (h : Nat)
  | close (h : Nat)
deriving Repr, DecidableEq

def FdOp.ok : FdOp → Bool
  | .fresh h | .reset h | .close h | .opn h _ => h < nFdSlots
  | .copyCtor d s | .moveCtor d s => d < nFdSlots ∧ s < nFdSlots ∧ d ≠ s
  | .copyAssign d s | .moveAssign d s | .swap d s => d < nFdSlots ∧ s < nFdSlots

def FdSys.step (s : FdSys) : FdOp → FdSys
  | .fresh h => s.del h
  | .opn h fn => (s.del h).ctorFd h fn
  | .copyCtor d src => (s.del d).copyInto d src
  | .moveCtor d src => (s.del d).swap d src
  | .copyAssign d src => s.copyAssign d src
  | .moveAssign d src => s.moveAssign d src
  | .swap a b => s.swap a b
  | .reset h => s.reset h
  | .close h => s.close h

def FdSys.run (s : FdSys) : List FdOp → FdSys
  | [] => s
  | op :: ops => (s.step op).run ops

end Tbox.C08
