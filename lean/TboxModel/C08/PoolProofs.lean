/- C08 — helper lemmas for the object-pool model (core Lean only). -/
import TboxModel.C08.Model
namespace Tbox.C08

def blocksOf (l : List (Option (Nat × Nat))) : List Nat := l.filterMap (fun o => o.map (·.1))

theorem liveBlocks_eq (s : PoolSys) : s.liveBlocks = blocksOf s.slots := rfl

theorem blocksOf_set_some (l : List (Option (Nat × Nat))) (h b v : Nat) (hh : l[h]? = some none) :
    (blocksOf (l.set h (some (b, v)))).Perm (b :: blocksOf l) := by
  induction l generalizing h with
  | nil => simp at hh
  | cons x l ih =>
      cases h with
      | zero =>
          simp at hh; subst hh
          simp [blocksOf]
      | succ n =>
          simp at hh
          have := ih n hh
          cases x with
          | none => simpa [blocksOf] using this
          | some y =>
              simp only [blocksOf, List.set_cons_succ, List.filterMap_cons_some (Option.map_some ..)] at this ⊢
              exact (List.Perm.cons _ this).trans (List.Perm.swap _ _ _)

theorem blocksOf_set_none (l : List (Option (Nat × Nat))) (h b v : Nat) (hh : l[h]? = some (some (b, v))) :
    (blocksOf l).Perm (b :: blocksOf (l.set h none)) := by
  induction l generalizing h with
  | nil => simp at hh
  | cons x l ih =>
      cases h with
      | zero =>
          simp at hh; subst hh
          simp [blocksOf]
      | succ n =>
          simp at hh
          have := ih n hh
          cases x with
          | none => simpa [blocksOf] using this
          | some y =>
              simp only [blocksOf, List.set_cons_succ, List.filterMap_cons_some (Option.map_some ..)] at this ⊢
              exact (List.Perm.cons _ this).trans (List.Perm.swap _ _ _)

/-- the pool invariant, stated against the list `L` of blocks currently holding an object -/
structure PI (p : Pool) (L : List Nat) : Prop where
  parkedNodup : p.parked.Nodup
  liveNodup : L.Nodup
  disjoint : ∀ b, b ∈ p.parked → b ∉ L
  fresh : ∀ b, (b ∈ p.parked ∨ b ∈ L ∨ b ∈ p.released) → b < p.nextBlk
  relDisj : ∀ b, b ∈ p.released → b ∉ p.parked ∧ b ∉ L
  freeNum : p.freeNum = p.parked.length
  keep : p.parked.length ≤ p.keep
  balance : p.ctor = p.dtor + L.length + p.leaked
  statBal : p.stat.allocT = p.stat.freeT + L.length
  statPeakA : L.length ≤ p.stat.peakA
  statPeakF : p.parked.length ≤ p.stat.peakF

def PInv (s : PoolSys) : Prop := PI s.pool s.liveBlocks

theorem pinit_inv : PInv PoolSys.init := by
  have : PoolSys.init.liveBlocks = [] := by simp [PoolSys.init, PoolSys.liveBlocks]
  unfold PInv; rw [this]
  refine ⟨?_, ?_, ?_, ?_, ?_, rfl, ?_, ?_, ?_, ?_, ?_⟩ <;> simp [PoolSys.init]

theorem PI_free (p : Pool) (L L' : List Nat) (b : Nat) (hi : PI p L) (hperm : L.Perm (b :: L')) :
    PI (p.free b) L' ∧ (p.free b).dtor = p.dtor + 1 ∧ (p.free b).ctor = p.ctor := by
  have hmem : ∀ x, x ∈ L ↔ x = b ∨ x ∈ L' := by
    intro x; rw [hperm.mem_iff]; simp
  have hnd : (b :: L').Nodup := hperm.nodup_iff.1 hi.liveNodup
  have hlen := hperm.length_eq
  have hbl : b ∈ L := (hmem b).2 (Or.inl rfl)
  have hbp : b ∉ p.parked := fun hp => hi.disjoint b hp hbl
  have hbr : b ∉ p.released := fun hr => (hi.relDisj b hr).2 hbl
  have hnb : b ∉ L' := (List.nodup_cons.1 hnd).1
  refine ⟨?_, ?_, ?_⟩
  · by_cases hk : p.freeNum < p.keep
    · refine ⟨?_, (List.nodup_cons.1 hnd).2, ?_, ?_, ?_, ?_, ?_, ?_, ?_, ?_, ?_⟩
      · simp [Pool.free, hk]; exact ⟨hbp, hi.parkedNodup⟩
      · intro x hx
        simp [Pool.free, hk] at hx
        rcases hx with hx | hx
        · subst hx; exact hnb
        · intro hx'; exact hi.disjoint x hx ((hmem x).2 (Or.inr hx'))
      · intro x hx
        simp [Pool.free, hk] at hx ⊢
        rcases hx with (hx | hx) | hx | hx
        · subst hx; exact hi.fresh _ (Or.inr (Or.inl hbl))
        · exact hi.fresh x (Or.inl hx)
        · exact hi.fresh x (Or.inr (Or.inl ((hmem x).2 (Or.inr hx))))
        · exact hi.fresh x (Or.inr (Or.inr hx))
      · intro x hx
        simp [Pool.free, hk] at hx ⊢
        have := hi.relDisj x hx
        refine ⟨⟨?_, this.1⟩, ?_⟩
        · intro hxb; subst hxb; exact hbr hx
        · intro hx'; exact this.2 ((hmem x).2 (Or.inr hx'))
      · have hk' : p.parked.length < p.keep := hi.freeNum ▸ hk
        simp [Pool.free, hi.freeNum, hk']
      · have := hi.freeNum; simp [Pool.free, hk]; omega
      · have := hi.balance
        simp [Pool.free, hk] at hlen ⊢; omega
      · have := hi.statBal
        simp [Pool.free, hk] at hlen ⊢; omega
      · have := hi.statPeakA
        simp [Pool.free, hk] at hlen ⊢; omega
      · have h1 := hi.statPeakF; have h2 := hi.freeNum
        have hk' : p.parked.length < p.keep := h2 ▸ hk
        simp only [Pool.free, h2, hk', if_true, List.length_cons]
        split <;> omega
    · refine ⟨?_, (List.nodup_cons.1 hnd).2, ?_, ?_, ?_, ?_, ?_, ?_, ?_, ?_, ?_⟩
      · simp [Pool.free, hk]; exact hi.parkedNodup
      · intro x hx
        simp [Pool.free, hk] at hx
        intro hx'; exact hi.disjoint x hx ((hmem x).2 (Or.inr hx'))
      · intro x hx
        simp [Pool.free, hk] at hx ⊢
        rcases hx with hx | hx | hx | hx
        · exact hi.fresh x (Or.inl hx)
        · exact hi.fresh x (Or.inr (Or.inl ((hmem x).2 (Or.inr hx))))
        · subst hx; exact hi.fresh _ (Or.inr (Or.inl hbl))
        · exact hi.fresh x (Or.inr (Or.inr hx))
      · intro x hx
        simp [Pool.free, hk] at hx ⊢
        rcases hx with hx | hx
        · subst hx; exact ⟨hbp, hnb⟩
        · have := hi.relDisj x hx
          exact ⟨this.1, fun hx' => this.2 ((hmem x).2 (Or.inr hx'))⟩
      · have hk' : ¬ p.parked.length < p.keep := hi.freeNum ▸ hk
        simp [Pool.free, hi.freeNum, hk']
      · have := hi.keep; simp [Pool.free, hk]; exact this
      · have := hi.balance
        simp [Pool.free, hk] at hlen ⊢; omega
      · have := hi.statBal
        simp [Pool.free, hk] at hlen ⊢; omega
      · have := hi.statPeakA
        simp [Pool.free, hk] at hlen ⊢; omega
      · have h1 := hi.statPeakF
        simp [Pool.free, hk]; exact h1
  · simp only [Pool.free]; split <;> rfl
  · simp only [Pool.free]; split <;> rfl

theorem PI_alloc (p : Pool) (L L' : List Nat) (hi : PI p L) (hperm : L'.Perm (p.alloc.2 :: L)) :
    PI p.alloc.1 L' ∧ p.alloc.2 ∉ L ∧ p.alloc.2 ∉ p.released ∧
    p.alloc.1.ctor = p.ctor + 1 ∧ p.alloc.1.dtor = p.dtor := by
  have hmem : ∀ x, x ∈ L' ↔ x = p.alloc.2 ∨ x ∈ L := by
    intro x; rw [hperm.mem_iff]; simp
  have hlen := hperm.length_eq
  cases hp : p.parked with
  | nil =>
      have hb : p.alloc.2 = p.nextBlk := by simp [Pool.alloc, hp]
      have hnl : p.nextBlk ∉ L := fun hx => Nat.lt_irrefl _ (hi.fresh _ (Or.inr (Or.inl hx)))
      have hnr : p.nextBlk ∉ p.released := fun hx => Nat.lt_irrefl _ (hi.fresh _ (Or.inr (Or.inr hx)))
      refine ⟨⟨?_, ?_, ?_, ?_, ?_, ?_, ?_, ?_, ?_, ?_, ?_⟩, hb ▸ hnl, hb ▸ hnr, by simp [Pool.alloc, hp], by simp [Pool.alloc, hp]⟩
      · simp [Pool.alloc, hp]
      · rw [hperm.nodup_iff, List.nodup_cons, hb]
        exact ⟨hnl, hi.liveNodup⟩
      · intro x hx; simp [Pool.alloc, hp] at hx
      · intro x hx
        rw [hmem, hb] at hx
        simp [Pool.alloc, hp] at hx ⊢
        rcases hx with (hx | hx) | hx
        · omega
        · have := hi.fresh x (Or.inr (Or.inl hx)); omega
        · have := hi.fresh x (Or.inr (Or.inr hx)); omega
      · intro x hx
        rw [hmem, hb]
        simp [Pool.alloc, hp] at hx ⊢
        have := hi.relDisj x hx
        refine ⟨?_, this.2⟩
        intro hxb; subst hxb; exact hnr hx
      · have := hi.freeNum; simp [Pool.alloc, hp] at this ⊢; exact this
      · simp [Pool.alloc, hp]
      · have := hi.balance
        simp [Pool.alloc, hp] at hlen ⊢; omega
      · have := hi.statBal
        simp [Pool.alloc, hp] at hlen ⊢; omega
      · have h1 := hi.statPeakA; have h2 := hi.statBal
        simp [Pool.alloc, hp] at hlen ⊢; split <;> omega
      · simp [Pool.alloc, hp]
  | cons b rest =>
      have hb : p.alloc.2 = b := by simp [Pool.alloc, hp]
      have hbp : b ∈ p.parked := by rw [hp]; simp
      have hnl : b ∉ L := hi.disjoint b hbp
      have hnr : b ∉ p.released := fun hx => (hi.relDisj b hx).1 hbp
      have hnd := hi.parkedNodup; rw [hp] at hnd
      refine ⟨⟨?_, ?_, ?_, ?_, ?_, ?_, ?_, ?_, ?_, ?_, ?_⟩, hb ▸ hnl, hb ▸ hnr, by simp [Pool.alloc, hp], by simp [Pool.alloc, hp]⟩
      · simp [Pool.alloc, hp]; exact (List.nodup_cons.1 hnd).2
      · rw [hperm.nodup_iff, List.nodup_cons, hb]
        exact ⟨hnl, hi.liveNodup⟩
      · intro x hx
        rw [hmem, hb]
        simp [Pool.alloc, hp] at hx
        have hxp : x ∈ p.parked := by rw [hp]; simp [hx]
        intro hx'
        rcases hx' with hx' | hx'
        · subst hx'; exact (List.nodup_cons.1 hnd).1 hx
        · exact hi.disjoint x hxp hx'
      · intro x hx
        rw [hmem, hb] at hx
        simp [Pool.alloc, hp] at hx ⊢
        rcases hx with hx | (hx | hx) | hx
        · exact hi.fresh x (Or.inl (by rw [hp]; simp [hx]))
        · subst hx; exact hi.fresh _ (Or.inl hbp)
        · exact hi.fresh x (Or.inr (Or.inl hx))
        · exact hi.fresh x (Or.inr (Or.inr hx))
      · intro x hx
        rw [hmem, hb]
        simp [Pool.alloc, hp] at hx ⊢
        have := hi.relDisj x hx
        rw [hp] at this
        simp at this
        refine ⟨this.1.2, ?_, this.2⟩
        intro hxb; subst hxb; exact hnr hx
      · have := hi.freeNum; simp [Pool.alloc, hp] at this ⊢; omega
      · have := hi.keep; simp [Pool.alloc, hp] at this ⊢; omega
      · have := hi.balance
        simp [Pool.alloc, hp] at hlen ⊢; omega
      · have := hi.statBal
        simp [Pool.alloc, hp] at hlen ⊢; omega
      · have h1 := hi.statPeakA; have h2 := hi.statBal
        simp [Pool.alloc, hp] at hlen ⊢; split <;> omega
      · have := hi.statPeakF; simp [Pool.alloc, hp] at this ⊢; omega

/-- freeing the object in slot `h` -/
theorem free_slot_inv (s : PoolSys) (h b v : Nat) (hi : PInv s) (hh : s.slots[h]? = some (some (b, v))) :
    PInv { pool := s.pool.free b, slots := s.slots.set h none } ∧
    (s.pool.free b).dtor = s.pool.dtor + 1 ∧ (s.pool.free b).ctor = s.pool.ctor :=
  PI_free s.pool _ _ b hi (blocksOf_set_none s.slots h b v hh)

/-- constructing an object for the empty slot `h` -/
theorem alloc_slot_inv (s : PoolSys) (h v : Nat) (hi : PInv s) (hh : s.slots[h]? = some none) :
    PInv { pool := s.pool.alloc.1, slots := s.slots.set h (some (s.pool.alloc.2, v)) } ∧
    s.pool.alloc.2 ∉ s.liveBlocks ∧ s.pool.alloc.2 ∉ s.pool.released ∧
    s.pool.alloc.1.ctor = s.pool.ctor + 1 ∧ s.pool.alloc.1.dtor = s.pool.dtor :=
  PI_alloc s.pool _ _ hi (blocksOf_set_some s.slots h s.pool.alloc.2 v hh)

theorem freeSlots_inv (s : PoolSys) (hs : List Nat) (hi : PInv s) : PInv (s.freeSlots hs) := by
  induction hs generalizing s with
  | nil => exact hi
  | cons h hs ih =>
      unfold PoolSys.freeSlots
      split
      · rename_i b v hh
        exact ih _ (free_slot_inv s h b v hi hh).1
      · exact ih _ hi

theorem blocksOf_all_none (l : List (Option (Nat × Nat))) (h : ∀ k, k < l.length → l[k]? = some none) :
    blocksOf l = [] := by
  induction l with
  | nil => rfl
  | cons x l ih =>
      have h0 := h 0 (by simp)
      simp at h0; subst h0
      have : blocksOf l = [] := ih (fun k hk => by have := h (k + 1) (by simp; omega); simpa using this)
      simpa [blocksOf] using this

theorem freeSlots_all_none (s : PoolSys) (hs : List Nat)
    (h : ∀ k, k < s.slots.length → k ∈ hs ∨ s.slots[k]? = some none) :
    ∀ k, k < (s.freeSlots hs).slots.length → (s.freeSlots hs).slots[k]? = some none := by
  induction hs generalizing s with
  | nil =>
      intro k hk
      rcases h k hk with h' | h'
      · cases h'
      · exact h'
  | cons a hs ih =>
      unfold PoolSys.freeSlots
      split
      · rename_i b v hh
        apply ih
        intro k hk
        simp only [List.length_set] at hk
        by_cases e : k = a
        · subst e; right; simp [hk]
        · rcases h k hk with h' | h'
          · simp only [List.mem_cons] at h'
            rcases h' with h' | h'
            · exact absurd h' e
            · exact Or.inl h'
          · right; simp only; rw [List.getElem?_set_ne (fun e' => e e'.symm)]; exact h'
      · rename_i hnot
        apply ih
        intro k hk
        rcases h k hk with h' | h'
        · simp only [List.mem_cons] at h'
          rcases h' with h' | h'
          · subst h'
            right
            have hv : s.slots[k]? = some s.slots[k] := List.getElem?_eq_getElem hk
            cases hx : s.slots[k] with
            | none => rw [hv, hx]
            | some bv => obtain ⟨b, v⟩ := bv; exact absurd (by rw [hv, hx]) (hnot b v)
          · exact Or.inl h'
        · exact Or.inr h'

theorem renew_inv (s : PoolSys) (k : Nat) (hi : PInv s) (hempty : s.liveBlocks = []) :
    PInv { s with pool := s.pool.renew k } := by
  have hi' : PI s.pool s.liveBlocks := hi
  show PI (s.pool.renew k) s.liveBlocks
  refine ⟨by simp [Pool.renew], hi'.liveNodup, by simp [Pool.renew], ?_, ?_, rfl, by simp [Pool.renew], hi'.balance,
    by simp [Pool.renew, hempty], by simp [hempty], by simp [Pool.renew]⟩
  · intro b hb
    simp [Pool.renew] at hb ⊢
    rcases hb with hb | hb | hb
    · exact hi'.fresh b (Or.inr (Or.inl hb))
    · exact hi'.fresh b (Or.inl hb)
    · exact hi'.fresh b (Or.inr (Or.inr hb))
  · intro b hb
    simp [Pool.renew] at hb ⊢
    rcases hb with hb | hb
    · exact hi'.disjoint b hb
    · exact (hi'.relDisj b hb).2

theorem renew_step_inv (s : PoolSys) (k : Nat) (hi : PInv s) : PInv (s.step (.renew k)).1 := by
  simp only [PoolSys.step]
  have h1 := freeSlots_inv s (List.range s.slots.length) hi
  apply renew_inv _ k h1
  rw [liveBlocks_eq]
  apply blocksOf_all_none
  apply freeSlots_all_none
  intro j hj; left; exact List.mem_range.2 hj

/-- `~ObjectPool()` while objects are live: their blocks are neither parked nor returned, so nothing
the destructor frees is still in use; no destructor of `T` runs — the objects are abandoned -/
theorem drop_step_inv (s : PoolSys) (k : Nat) (hi : PInv s) : PInv (s.step (.drop k)).1 := by
  have hi' : PI s.pool s.liveBlocks := hi
  have he : ({ pool := { s.pool.renew k with leaked := s.pool.leaked + s.liveBlocks.length },
               slots := List.replicate s.slots.length none } : PoolSys).liveBlocks = [] := by
    rw [liveBlocks_eq]; apply blocksOf_all_none
    intro j hj; simp at hj; simp [List.getElem?_replicate, hj]
  simp only [PoolSys.step]
  unfold PInv
  rw [he]
  refine ⟨by simp [Pool.renew], by simp, by simp, ?_, by simp [Pool.renew], rfl, by simp [Pool.renew], ?_, by simp [Pool.renew],
    by simp, by simp [Pool.renew]⟩
  · intro b hb
    simp [Pool.renew] at hb ⊢
    rcases hb with hb | hb
    · exact hi'.fresh b (Or.inl hb)
    · exact hi'.fresh b (Or.inr (Or.inr hb))
  · have := hi'.balance; simp [Pool.renew]; omega

end Tbox.C08
