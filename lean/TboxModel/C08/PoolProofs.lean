/- C08 — helper lemmas for the object-pool model with re-entrant calls (core Lean only). -/
import TboxModel.C08.Model
namespace Tbox.C08

def blocksOf (l : List (Option (Nat × Nat))) : List Nat := l.filterMap (fun o => o.map (·.1))

theorem liveBlocks_eq (s : PoolSys) : s.liveBlocks = blocksOf s.slots := rfl

theorem blocksOf_set_some (l : List (Option (Nat × Nat))) (h b v : Nat) (hh : l[h]? = some none) :
    (blocksOf (l.set h (some (b, v)))).Perm (b :: blocksOf l) := by
  induction l generalizing h with
  | nil => simp at hh
  | cons x l ih =>
      cases h with
      | zero =>
          simp at hh; subst hh
          simp [blocksOf]
      | succ n =>
          simp at hh
          have := ih n hh
          cases x with
          | none => simpa [blocksOf] using this
          | some y =>
              simp only [blocksOf, List.set_cons_succ, List.filterMap_cons_some (Option.map_some ..)] at this ⊢
              exact (List.Perm.cons _ this).trans (List.Perm.swap _ _ _)

theorem blocksOf_set_none (l : List (Option (Nat × Nat))) (h b v : Nat) (hh : l[h]? = some (some (b, v))) :
    (blocksOf l).Perm (b :: blocksOf (l.set h none)) := by
  induction l generalizing h with
  | nil => simp at hh
  | cons x l ih =>
      cases h with
      | zero =>
          simp at hh; subst hh
          simp [blocksOf]
      | succ n =>
          simp at hh
          have := ih n hh
          cases x with
          | none => simpa [blocksOf] using this
          | some y =>
              simp only [blocksOf, List.set_cons_succ, List.filterMap_cons_some (Option.map_some ..)] at this ⊢
              exact (List.Perm.cons _ this).trans (List.Perm.swap _ _ _)

/-- the pool invariant against the list `L` of blocks in use (live objects and objects whose
constructor / destructor is running), `nA` calls of `alloc` and `nF` calls of `free` in progress -/
structure PI (p : Pool) (L : List Nat) (nA nF : Nat) : Prop where
  parkedNodup : p.parked.Nodup
  liveNodup : L.Nodup
  disjoint : ∀ b, b ∈ p.parked → b ∉ L
  fresh : ∀ b, (b ∈ p.parked ∨ b ∈ L ∨ b ∈ p.released) → b < p.nextBlk
  relDisj : ∀ b, b ∈ p.released → b ∉ p.parked ∧ b ∉ L
  freeNum : p.freeNum = p.parked.length
  keep : p.parked.length ≤ p.keep
  balance : p.ctor + nF = p.dtor + L.length + p.leaked + p.thrown
  statBal : p.stat.allocT + nA = p.stat.freeT + L.length
  statPeakA : L.length ≤ p.stat.peakA + nA
  statPeakF : p.parked.length ≤ p.stat.peakF
  lostOk : ∀ b, b ∈ p.lost → b < p.nextBlk ∧ b ∉ p.parked ∧ b ∉ L ∧ b ∉ p.released

theorem PI_perm (p : Pool) (L L' : List Nat) (nA nF : Nat) (hi : PI p L nA nF) (hp : L.Perm L') : PI p L' nA nF := by
  have hm : ∀ x, x ∈ L' ↔ x ∈ L := fun x => hp.mem_iff.symm
  have hl := hp.length_eq
  refine ⟨hi.parkedNodup, hp.nodup_iff.1 hi.liveNodup, ?_, ?_, ?_, hi.freeNum, hi.keep, ?_, ?_, ?_, hi.statPeakF, ?_⟩
  rotate_right
  · intro b hb; have := hi.lostOk b hb; exact ⟨this.1, this.2.1, by rw [hm]; exact this.2.2.1, this.2.2.2⟩
  · intro b hb; rw [hm]; exact hi.disjoint b hb
  · intro b hb; rw [hm] at hb; exact hi.fresh b hb
  · intro b hb; rw [hm]; exact hi.relDisj b hb
  · rw [← hl]; exact hi.balance
  · rw [← hl]; exact hi.statBal
  · rw [← hl]; exact hi.statPeakA

/-- `alloc()` takes its block and enters the constructor -/
theorem PI_allocA (p : Pool) (L : List Nat) (nA nF : Nat) (hi : PI p L nA nF) :
    PI p.allocA.1.ctorEnter (p.allocA.2 :: L) (nA + 1) nF ∧ p.allocA.2 ∉ L ∧ p.allocA.2 ∉ p.released := by
  cases hp : p.parked with
  | nil =>
      have hb : p.allocA.2 = p.nextBlk := by simp [Pool.allocA, hp]
      have hnl : p.nextBlk ∉ L := fun hx => Nat.lt_irrefl _ (hi.fresh _ (Or.inr (Or.inl hx)))
      have hnr : p.nextBlk ∉ p.released := fun hx => Nat.lt_irrefl _ (hi.fresh _ (Or.inr (Or.inr hx)))
      refine ⟨⟨?_, ?_, ?_, ?_, ?_, ?_, ?_, ?_, ?_, ?_, ?_, ?_⟩, hb ▸ hnl, hb ▸ hnr⟩
      rotate_right
      · intro x hx
        have hx' : x ∈ p.lost := by simpa [Pool.allocA, Pool.ctorEnter, hp] using hx
        have := hi.lostOk x hx'
        rw [hb]
        refine ⟨?_, ?_, ?_, ?_⟩
        · simp [Pool.allocA, Pool.ctorEnter, hp]; omega
        · simp [Pool.allocA, Pool.ctorEnter, hp]
        · simp only [List.mem_cons, not_or]; exact ⟨by omega, this.2.2.1⟩
        · simpa [Pool.allocA, Pool.ctorEnter, hp] using this.2.2.2
      · simp [Pool.allocA, Pool.ctorEnter, hp]
      · rw [List.nodup_cons, hb]; exact ⟨hnl, hi.liveNodup⟩
      · intro x hx; simp [Pool.allocA, Pool.ctorEnter, hp] at hx
      · intro x hx
        rw [hb] at hx
        simp [Pool.allocA, Pool.ctorEnter, hp] at hx ⊢
        rcases hx with (hx | hx) | hx
        · omega
        · have := hi.fresh x (Or.inr (Or.inl hx)); omega
        · have := hi.fresh x (Or.inr (Or.inr hx)); omega
      · intro x hx
        rw [hb]
        simp [Pool.allocA, Pool.ctorEnter, hp] at hx ⊢
        have := hi.relDisj x hx
        refine ⟨?_, this.2⟩
        intro hxb; subst hxb; exact hnr hx
      · have := hi.freeNum; simp [Pool.allocA, Pool.ctorEnter, hp] at this ⊢; exact this
      · simp [Pool.allocA, Pool.ctorEnter, hp]
      · have := hi.balance; simp [Pool.allocA, Pool.ctorEnter, hp]; omega
      · have := hi.statBal; simp [Pool.allocA, Pool.ctorEnter, hp]; omega
      · have := hi.statPeakA; simp [Pool.allocA, Pool.ctorEnter, hp]; omega
      · simp [Pool.allocA, Pool.ctorEnter, hp]
  | cons b rest =>
      have hb : p.allocA.2 = b := by simp [Pool.allocA, hp]
      have hbp : b ∈ p.parked := by rw [hp]; simp
      have hnl : b ∉ L := hi.disjoint b hbp
      have hnr : b ∉ p.released := fun hx => (hi.relDisj b hx).1 hbp
      have hnd := hi.parkedNodup; rw [hp] at hnd
      refine ⟨⟨?_, ?_, ?_, ?_, ?_, ?_, ?_, ?_, ?_, ?_, ?_, ?_⟩, hb ▸ hnl, hb ▸ hnr⟩
      rotate_right
      · intro x hx
        have hx' : x ∈ p.lost := by simpa [Pool.allocA, Pool.ctorEnter, hp] using hx
        have := hi.lostOk x hx'
        have hxp := this.2.1
        rw [hp] at hxp
        simp only [List.mem_cons, not_or] at hxp
        rw [hb]
        refine ⟨?_, ?_, ?_, ?_⟩
        · simpa [Pool.allocA, Pool.ctorEnter, hp] using this.1
        · simpa [Pool.allocA, Pool.ctorEnter, hp] using hxp.2
        · simp only [List.mem_cons, not_or]; exact ⟨hxp.1, this.2.2.1⟩
        · simpa [Pool.allocA, Pool.ctorEnter, hp] using this.2.2.2
      · simp [Pool.allocA, Pool.ctorEnter, hp]; exact (List.nodup_cons.1 hnd).2
      · rw [List.nodup_cons, hb]; exact ⟨hnl, hi.liveNodup⟩
      · intro x hx
        rw [hb]
        simp [Pool.allocA, Pool.ctorEnter, hp] at hx
        have hxp : x ∈ p.parked := by rw [hp]; simp [hx]
        simp only [List.mem_cons, not_or]
        refine ⟨?_, hi.disjoint x hxp⟩
        intro e; subst e; exact (List.nodup_cons.1 hnd).1 hx
      · intro x hx
        rw [hb] at hx
        simp [Pool.allocA, Pool.ctorEnter, hp] at hx ⊢
        rcases hx with hx | (hx | hx) | hx
        · exact hi.fresh x (Or.inl (by rw [hp]; simp [hx]))
        · subst hx; exact hi.fresh _ (Or.inl hbp)
        · exact hi.fresh x (Or.inr (Or.inl hx))
        · exact hi.fresh x (Or.inr (Or.inr hx))
      · intro x hx
        rw [hb]
        simp [Pool.allocA, Pool.ctorEnter, hp] at hx ⊢
        have := hi.relDisj x hx
        rw [hp] at this
        simp at this
        refine ⟨this.1.2, ?_, this.2⟩
        intro hxb; subst hxb; exact hnr hx
      · have := hi.freeNum; simp [Pool.allocA, Pool.ctorEnter, hp] at this ⊢; omega
      · have := hi.keep; simp [Pool.allocA, Pool.ctorEnter, hp] at this ⊢; omega
      · have := hi.balance; simp [Pool.allocA, Pool.ctorEnter, hp]; omega
      · have := hi.statBal; simp [Pool.allocA, Pool.ctorEnter, hp]; omega
      · have := hi.statPeakA; simp [Pool.allocA, Pool.ctorEnter, hp]; omega
      · have := hi.statPeakF; simp [Pool.allocA, Pool.ctorEnter, hp] at this ⊢; omega

/-- the constructor has returned: statistics -/
theorem PI_allocB (p : Pool) (L : List Nat) (nA nF : Nat) (hi : PI p L (nA + 1) nF) : PI p.allocB L nA nF := by
  refine ⟨hi.parkedNodup, hi.liveNodup, hi.disjoint, hi.fresh, hi.relDisj, hi.freeNum, hi.keep, hi.balance, ?_, ?_, hi.statPeakF, hi.lostOk⟩
  · have := hi.statBal; simp [Pool.allocB]; omega
  · have h1 := hi.statBal; have h2 := hi.statPeakA
    simp only [Pool.allocB]; split <;> omega

theorem PI_dtorEnter (p : Pool) (L : List Nat) (nA nF : Nat) (hi : PI p L nA nF) : PI p.dtorEnter L nA (nF + 1) := by
  refine ⟨hi.parkedNodup, hi.liveNodup, hi.disjoint, hi.fresh, hi.relDisj, hi.freeNum, hi.keep, ?_, hi.statBal, hi.statPeakA, hi.statPeakF, hi.lostOk⟩
  have := hi.balance; simp [Pool.dtorEnter]; omega

/-- the destructor has returned: the block `b` (in use until now) is parked or released -/
theorem PI_freeB (p : Pool) (L : List Nat) (nA nF b : Nat) (hi : PI p (b :: L) nA (nF + 1)) :
    PI (p.freeB b) L nA nF := by
  have hnd := hi.liveNodup
  have hbl : b ∈ b :: L := by simp
  have hbp : b ∉ p.parked := fun hp => hi.disjoint b hp hbl
  have hbr : b ∉ p.released := fun hr => (hi.relDisj b hr).2 hbl
  have hnb : b ∉ L := (List.nodup_cons.1 hnd).1
  have hk' : (p.freeNum < p.keep) = (p.parked.length < p.keep) := by rw [hi.freeNum]
  by_cases hk : p.parked.length < p.keep
  · refine ⟨?_, (List.nodup_cons.1 hnd).2, ?_, ?_, ?_, ?_, ?_, ?_, ?_, ?_, ?_, ?_⟩
    rotate_right
    · intro x hx
      have hx' : x ∈ p.lost := by simpa [Pool.freeB, hk', hk] using hx
      have := hi.lostOk x hx'
      have hxl := this.2.2.1
      simp only [List.mem_cons, not_or] at hxl
      refine ⟨?_, ?_, hxl.2, ?_⟩
      · simpa [Pool.freeB, hk', hk] using this.1
      · simp [Pool.freeB, hk', hk]; exact ⟨hxl.1, this.2.1⟩
      · simpa [Pool.freeB, hk', hk] using this.2.2.2
    · simp [Pool.freeB, hk', hk]; exact ⟨hbp, hi.parkedNodup⟩
    · intro x hx
      simp [Pool.freeB, hk', hk] at hx
      rcases hx with hx | hx
      · subst hx; exact hnb
      · intro hx'; exact hi.disjoint x hx (List.mem_cons_of_mem _ hx')
    · intro x hx
      simp [Pool.freeB, hk', hk] at hx ⊢
      rcases hx with (hx | hx) | hx | hx
      · subst hx; exact hi.fresh _ (Or.inr (Or.inl hbl))
      · exact hi.fresh x (Or.inl hx)
      · exact hi.fresh x (Or.inr (Or.inl (List.mem_cons_of_mem _ hx)))
      · exact hi.fresh x (Or.inr (Or.inr hx))
    · intro x hx
      simp [Pool.freeB, hk', hk] at hx ⊢
      have := hi.relDisj x hx
      refine ⟨⟨?_, this.1⟩, ?_⟩
      · intro hxb; subst hxb; exact hbr hx
      · intro hx'; exact this.2 (List.mem_cons_of_mem _ hx')
    · simp [Pool.freeB, hk', hk, hi.freeNum]
    · simp [Pool.freeB, hk', hk]; omega
    · have := hi.balance; simp [Pool.freeB, hk', hk] at this ⊢; omega
    · have := hi.statBal; simp [Pool.freeB, hk', hk] at this ⊢; omega
    · have := hi.statPeakA; simp [Pool.freeB, hk', hk] at this ⊢; omega
    · have h1 := hi.statPeakF; have h2 := hi.freeNum
      simp only [Pool.freeB, hk', hk, if_true, h2, List.length_cons]
      split <;> omega
  · refine ⟨?_, (List.nodup_cons.1 hnd).2, ?_, ?_, ?_, ?_, ?_, ?_, ?_, ?_, ?_, ?_⟩
    rotate_right
    · intro x hx
      have hx' : x ∈ p.lost := by simpa [Pool.freeB, hk', hk] using hx
      have := hi.lostOk x hx'
      have hxl := this.2.2.1
      simp only [List.mem_cons, not_or] at hxl
      refine ⟨?_, ?_, hxl.2, ?_⟩
      · simpa [Pool.freeB, hk', hk] using this.1
      · simpa [Pool.freeB, hk', hk] using this.2.1
      · simp [Pool.freeB, hk', hk]; exact ⟨hxl.1, this.2.2.2⟩
    · simp [Pool.freeB, hk', hk]; exact hi.parkedNodup
    · intro x hx
      simp [Pool.freeB, hk', hk] at hx
      intro hx'; exact hi.disjoint x hx (List.mem_cons_of_mem _ hx')
    · intro x hx
      simp [Pool.freeB, hk', hk] at hx ⊢
      rcases hx with hx | hx | hx | hx
      · exact hi.fresh x (Or.inl hx)
      · exact hi.fresh x (Or.inr (Or.inl (List.mem_cons_of_mem _ hx)))
      · subst hx; exact hi.fresh _ (Or.inr (Or.inl hbl))
      · exact hi.fresh x (Or.inr (Or.inr hx))
    · intro x hx
      simp [Pool.freeB, hk', hk] at hx ⊢
      rcases hx with hx | hx
      · subst hx; exact ⟨hbp, hnb⟩
      · have := hi.relDisj x hx
        exact ⟨this.1, fun hx' => this.2 (List.mem_cons_of_mem _ hx')⟩
    · simp [Pool.freeB, hk', hk, hi.freeNum]
    · have := hi.keep; simp [Pool.freeB, hk', hk]; exact this
    · have := hi.balance; simp [Pool.freeB, hk', hk] at this ⊢; omega
    · have := hi.statBal; simp [Pool.freeB, hk', hk] at this ⊢; omega
    · have := hi.statPeakA; simp [Pool.freeB, hk', hk] at this ⊢; omega
    · have h1 := hi.statPeakF; simp [Pool.freeB, hk', hk]; exact h1

/-- the constructor of the object being built in the head block throws: the block leaves the set of
blocks in use without being parked or released -/
theorem PI_throw (q : Pool) (b : Nat) (L : List Nat) (nA nF : Nat) (hi : PI q (b :: L) (nA + 1) nF) :
    PI (q.ctorThrow b) L nA nF := by
  have hbl : b ∈ b :: L := by simp
  refine ⟨hi.parkedNodup, (List.nodup_cons.1 hi.liveNodup).2, ?_, ?_, ?_, hi.freeNum, hi.keep, ?_, ?_, ?_, hi.statPeakF, ?_⟩
  rotate_right
  · intro x hx
    simp only [Pool.ctorThrow, List.mem_cons] at hx ⊢
    rcases hx with hx | hx
    · subst hx
      exact ⟨hi.fresh _ (Or.inr (Or.inl hbl)), fun hp => hi.disjoint _ hp hbl, (List.nodup_cons.1 hi.liveNodup).1,
        fun hr => (hi.relDisj _ hr).2 hbl⟩
    · have := hi.lostOk x hx
      exact ⟨this.1, this.2.1, fun hm => this.2.2.1 (List.mem_cons_of_mem _ hm), this.2.2.2⟩
  · intro x hx hm; exact hi.disjoint x hx (List.mem_cons_of_mem _ hm)
  · intro x hx
    rcases hx with hx | hx | hx
    · exact hi.fresh x (Or.inl hx)
    · exact hi.fresh x (Or.inr (Or.inl (List.mem_cons_of_mem _ hx)))
    · exact hi.fresh x (Or.inr (Or.inr hx))
  · intro x hx
    have := hi.relDisj x hx
    exact ⟨this.1, fun hm => this.2 (List.mem_cons_of_mem _ hm)⟩
  · have := hi.balance; simp only [List.length_cons] at this; simp only [Pool.ctorThrow]; omega
  · have := hi.statBal; simp only [List.length_cons] at this; simp only [Pool.ctorThrow]; omega
  · have := hi.statPeakA; simp only [List.length_cons] at this; simp only [Pool.ctorThrow]; omega

/-! ### the system: slots, calls in progress -/

def nAlloc (s : PoolSys) : Nat := s.stack.countP Frame.isAlloc
def nFree (s : PoolSys) : Nat := s.stack.countP (fun f => !f.isAlloc)

structure SInv (s : PoolSys) : Prop where
  pi : PI s.pool s.inUse (nAlloc s) (nFree s)
  resv : ∀ f h, f ∈ s.stack → f.target = some h → s.slots[h]? = some none
  uniq : s.stack.Pairwise (fun f g => f.target = none ∨ f.target ≠ g.target)

theorem cntA_allocF (h v b : Nat) (st : List Frame) :
    List.countP Frame.isAlloc (Frame.allocF h v b :: st) = List.countP Frame.isAlloc st + 1 := by
  simp [List.countP_cons, Frame.isAlloc]
theorem cntF_allocF (h v b : Nat) (st : List Frame) :
    List.countP (fun f => !f.isAlloc) (Frame.allocF h v b :: st) = List.countP (fun f => !f.isAlloc) st := by
  simp [List.countP_cons, Frame.isAlloc]
theorem cntA_freeF (h b : Nat) (st : List Frame) :
    List.countP Frame.isAlloc (Frame.freeF h b :: st) = List.countP Frame.isAlloc st := by
  simp [List.countP_cons, Frame.isAlloc]
theorem cntF_freeF (h b : Nat) (st : List Frame) :
    List.countP (fun f => !f.isAlloc) (Frame.freeF h b :: st) = List.countP (fun f => !f.isAlloc) st + 1 := by
  simp [List.countP_cons, Frame.isAlloc]

theorem pinit_inv : SInv PoolSys.init := by
  have : PoolSys.init.inUse = [] := by simp [PoolSys.init, PoolSys.inUse, PoolSys.liveBlocks]
  refine ⟨?_, by simp [PoolSys.init], by simp [PoolSys.init]⟩
  rw [this]
  refine ⟨?_, ?_, ?_, ?_, ?_, rfl, ?_, ?_, ?_, ?_, ?_, ?_⟩ <;> simp [PoolSys.init, nAlloc, nFree]

theorem reserved_false (s : PoolSys) (h : Nat) (hr : s.reserved h = false) :
    ∀ f, f ∈ s.stack → f.target ≠ some h := by
  intro f hf e
  have : s.reserved h = true := by
    simp only [PoolSys.reserved, List.any_eq_true]
    exact ⟨f, hf, by simp [e]⟩
  rw [hr] at this; cases this

/-- one event keeps the invariant; a block in which a constructor starts is not in use and was not released -/
theorem ev_inv (s : PoolSys) (e : PEv) (hi : SInv s) :
    SInv (s.ev e).1 ∧ ∀ b, (s.ev e).2 = some b → b ∉ s.inUse ∧ b ∉ s.pool.released := by
  have skipInv : ∀ k, SInv { s with skip := k } := fun k => ⟨hi.pi, hi.resv, hi.uniq⟩
  cases e with
  | abeg h v =>
      simp only [PoolSys.ev]
      split
      · exact ⟨skipInv _, by simp⟩
      · split
        · rename_i hslot
          split
          · exact ⟨skipInv _, by simp⟩
          · rename_i hres
            have hres' : s.reserved h = false := by simpa using hres
            have hA := PI_allocA s.pool s.inUse (nAlloc s) (nFree s) hi.pi
            refine ⟨⟨?_, ?_, ?_⟩, ?_⟩
            · have hp : (s.pool.allocA.2 :: s.inUse).Perm (s.liveBlocks ++ s.pool.allocA.2 :: s.stack.map Frame.blk) :=
                List.perm_middle.symm
              show PI s.pool.allocA.1.ctorEnter (s.liveBlocks ++ s.pool.allocA.2 :: s.stack.map Frame.blk)
                (List.countP Frame.isAlloc (Frame.allocF h v s.pool.allocA.2 :: s.stack))
                (List.countP (fun f => !f.isAlloc) (Frame.allocF h v s.pool.allocA.2 :: s.stack))
              rw [cntA_allocF, cntF_allocF]
              exact PI_perm _ _ _ _ _ hA.1 hp
            · intro f h' hf ht
              simp only [List.mem_cons] at hf
              rcases hf with hf | hf
              · subst hf; simp [Frame.target] at ht; subst ht; exact hslot
              · exact hi.resv f h' hf ht
            · simp only [List.pairwise_cons]
              refine ⟨?_, hi.uniq⟩
              intro g hg
              right
              simp only [Frame.target]
              exact fun e => reserved_false s h hres' g hg e.symm
            · intro b hb; simp at hb; subst hb; exact ⟨hA.2.1, hA.2.2⟩
        · exact ⟨skipInv _, by simp⟩
  | aend =>
      simp only [PoolSys.ev]
      split
      · exact ⟨skipInv _, by simp⟩
      · split
        · rename_i h v b rest hst
          refine ⟨⟨?_, ?_, ?_⟩, by simp⟩
          · have hslot : s.slots[h]? = some none := hi.resv (.allocF h v b) h (by rw [hst]; simp) rfl
            have hpi : PI s.pool (s.liveBlocks ++ b :: rest.map Frame.blk)
                (List.countP Frame.isAlloc rest + 1) (List.countP (fun f => !f.isAlloc) rest) := by
              have := hi.pi
              simp only [PoolSys.inUse, nAlloc, nFree, hst, List.map_cons, cntA_allocF, cntF_allocF] at this
              exact this
            have hB := PI_allocB s.pool _ _ _ hpi
            have hperm : (s.liveBlocks ++ b :: rest.map Frame.blk).Perm
                (blocksOf (s.slots.set h (some (b, v))) ++ rest.map Frame.blk) := by
              have h1 := blocksOf_set_some s.slots h b v hslot
              exact (List.perm_middle).trans (List.Perm.append_right _ h1.symm)
            exact PI_perm _ _ _ _ _ hB hperm
          · intro f h' hf ht
            have hf' : f ∈ s.stack := by rw [hst]; exact List.mem_cons_of_mem _ hf
            have hne : h' ≠ h := by
              intro e; subst e
              have hu := hi.uniq; rw [hst, List.pairwise_cons] at hu
              rcases hu.1 f hf with h0 | h0
              · simp [Frame.target] at h0
              · exact h0 (by show some h' = f.target; rw [ht])
            simp only
            rw [List.getElem?_set_ne (fun e => hne e.symm)]
            exact hi.resv f h' hf' ht
          · have hu := hi.uniq; rw [hst, List.pairwise_cons] at hu; exact hu.2
        · exact ⟨hi, by simp⟩
  | fbeg h =>
      simp only [PoolSys.ev]
      split
      · exact ⟨skipInv _, by simp⟩
      · split
        · rename_i b v hslot
          refine ⟨⟨?_, ?_, ?_⟩, by simp⟩
          · have hD := PI_dtorEnter s.pool s.inUse (nAlloc s) (nFree s) hi.pi
            have hperm : s.inUse.Perm (blocksOf (s.slots.set h none) ++ b :: s.stack.map Frame.blk) := by
              have h1 := blocksOf_set_none s.slots h b v hslot
              simp only [PoolSys.inUse, liveBlocks_eq]
              exact (List.Perm.append_right _ h1).trans List.perm_middle.symm
            show PI s.pool.dtorEnter (blocksOf (s.slots.set h none) ++ b :: s.stack.map Frame.blk)
              (List.countP Frame.isAlloc (Frame.freeF h b :: s.stack)) (List.countP (fun f => !f.isAlloc) (Frame.freeF h b :: s.stack))
            rw [cntA_freeF, cntF_freeF]
            exact PI_perm _ _ _ _ _ hD hperm
          · intro f h' hf ht
            simp only [List.mem_cons] at hf
            rcases hf with hf | hf
            · subst hf; simp [Frame.target] at ht
            · have := hi.resv f h' hf ht
              by_cases e : h' = h
              · subst e; rw [hslot] at this; cases this
              · simp only; rw [List.getElem?_set_ne (fun e' => e e'.symm)]; exact this
          · simp only [List.pairwise_cons]
            exact ⟨fun g _ => Or.inl rfl, hi.uniq⟩
        · exact ⟨skipInv _, by simp⟩
  | fend =>
      simp only [PoolSys.ev]
      split
      · exact ⟨skipInv _, by simp⟩
      · split
        · rename_i h b rest hst
          refine ⟨⟨?_, ?_, ?_⟩, by simp⟩
          · have hpi : PI s.pool (s.liveBlocks ++ b :: rest.map Frame.blk)
                (List.countP Frame.isAlloc rest) (List.countP (fun f => !f.isAlloc) rest + 1) := by
              have := hi.pi
              simp only [PoolSys.inUse, nAlloc, nFree, hst, List.map_cons, cntA_freeF, cntF_freeF] at this
              exact this
            have hperm : (s.liveBlocks ++ b :: rest.map Frame.blk).Perm (b :: (s.liveBlocks ++ rest.map Frame.blk)) :=
              List.perm_middle
            exact PI_freeB s.pool _ _ _ b (PI_perm _ _ _ _ _ hpi hperm)
          · intro f h' hf ht
            exact hi.resv f h' (by rw [hst]; exact List.mem_cons_of_mem _ hf) ht
          · have hu := hi.uniq; rw [hst, List.pairwise_cons] at hu; exact hu.2
        · exact ⟨hi, by simp⟩
  | athr =>
      simp only [PoolSys.ev]
      split
      · exact ⟨skipInv _, by simp⟩
      · split
        · rename_i h v b rest hst
          refine ⟨⟨?_, ?_, ?_⟩, by simp⟩
          · have hpi : PI s.pool (s.liveBlocks ++ b :: rest.map Frame.blk)
                (List.countP Frame.isAlloc rest + 1) (List.countP (fun f => !f.isAlloc) rest) := by
              have := hi.pi
              simp only [PoolSys.inUse, nAlloc, nFree, hst, List.map_cons, cntA_allocF, cntF_allocF] at this
              exact this
            have hperm : (s.liveBlocks ++ b :: rest.map Frame.blk).Perm (b :: (s.liveBlocks ++ rest.map Frame.blk)) :=
              List.perm_middle
            exact PI_throw s.pool b _ _ _ (PI_perm _ _ _ _ _ hpi hperm)
          · intro f h' hf ht
            exact hi.resv f h' (by rw [hst]; exact List.mem_cons_of_mem _ hf) ht
          · have hu := hi.uniq; rw [hst, List.pairwise_cons] at hu; exact hu.2
        · exact ⟨hi, by simp⟩

theorem runEvs_inv (s : PoolSys) (es : List PEv) (hi : SInv s) : SInv (s.runEvs es) := by
  induction es generalizing s with
  | nil => exact hi
  | cons e es ih => exact ih _ (ev_inv s e hi).1

/-- freeing the live object in slot `h` (a destructor that does not call the pool) -/
theorem free_slot_inv (s : PoolSys) (h b v : Nat) (hi : SInv s) (hh : s.slots[h]? = some (some (b, v))) :
    SInv { s with pool := s.pool.free b, slots := s.slots.set h none } := by
  refine ⟨?_, ?_, hi.uniq⟩
  · have hD := PI_dtorEnter s.pool s.inUse (nAlloc s) (nFree s) hi.pi
    have hperm : s.inUse.Perm (b :: (blocksOf (s.slots.set h none) ++ s.stack.map Frame.blk)) := by
      have h1 := blocksOf_set_none s.slots h b v hh
      simp only [PoolSys.inUse, liveBlocks_eq]
      exact List.Perm.append_right _ h1
    exact PI_freeB _ _ _ _ b (PI_perm _ _ _ _ _ hD hperm)
  · intro f h' hf ht
    have := hi.resv f h' hf ht
    by_cases e : h' = h
    · subst e; rw [hh] at this; cases this
    · simp only; rw [List.getElem?_set_ne (fun e' => e e'.symm)]; exact this

theorem freeSlots_inv (s : PoolSys) (hs : List Nat) (hi : SInv s) : SInv (s.freeSlots hs) := by
  induction hs generalizing s with
  | nil => exact hi
  | cons h hs ih =>
      unfold PoolSys.freeSlots
      split
      · rename_i b v hh
        exact ih _ (free_slot_inv s h b v hi hh)
      · exact ih _ hi

theorem freeSlots_stack (s : PoolSys) (hs : List Nat) : (s.freeSlots hs).stack = s.stack := by
  induction hs generalizing s with
  | nil => rfl
  | cons h hs ih => unfold PoolSys.freeSlots; split <;> simp [ih]

theorem blocksOf_all_none (l : List (Option (Nat × Nat))) (h : ∀ k, k < l.length → l[k]? = some none) :
    blocksOf l = [] := by
  induction l with
  | nil => rfl
  | cons x l ih =>
      have h0 := h 0 (by simp)
      simp at h0; subst h0
      have : blocksOf l = [] := ih (fun k hk => by have := h (k + 1) (by simp; omega); simpa using this)
      simpa [blocksOf] using this

theorem freeSlots_all_none (s : PoolSys) (hs : List Nat)
    (h : ∀ k, k < s.slots.length → k ∈ hs ∨ s.slots[k]? = some none) :
    ∀ k, k < (s.freeSlots hs).slots.length → (s.freeSlots hs).slots[k]? = some none := by
  induction hs generalizing s with
  | nil =>
      intro k hk
      rcases h k hk with h' | h'
      · cases h'
      · exact h'
  | cons a hs ih =>
      unfold PoolSys.freeSlots
      split
      · rename_i b v hh
        apply ih
        intro k hk
        simp only [List.length_set] at hk
        by_cases e : k = a
        · subst e; right; simp [hk]
        · rcases h k hk with h' | h'
          · simp only [List.mem_cons] at h'
            rcases h' with h' | h'
            · exact absurd h' e
            · exact Or.inl h'
          · right; simp only; rw [List.getElem?_set_ne (fun e' => e e'.symm)]; exact h'
      · rename_i hnot
        apply ih
        intro k hk
        rcases h k hk with h' | h'
        · simp only [List.mem_cons] at h'
          rcases h' with h' | h'
          · subst h'
            right
            have hv : s.slots[k]? = some s.slots[k] := List.getElem?_eq_getElem hk
            cases hx : s.slots[k] with
            | none => rw [hv, hx]
            | some bv => obtain ⟨b, v⟩ := bv; exact absurd (by rw [hv, hx]) (hnot b v)
          · exact Or.inl h'
        · exact Or.inr h'

theorem renew_pi (p : Pool) (k : Nat) (hi : PI p [] 0 0) : PI (p.renew k) [] 0 0 := by
  refine ⟨by simp [Pool.renew], by simp, by simp, ?_, by simp [Pool.renew], rfl, by simp [Pool.renew], ?_, by simp [Pool.renew],
    by simp, by simp [Pool.renew], ?_⟩
  · intro b hb
    simp [Pool.renew] at hb ⊢
    rcases hb with hb | hb
    · exact hi.fresh b (Or.inl hb)
    · exact hi.fresh b (Or.inr (Or.inr hb))
  · have := hi.balance; simpa [Pool.renew] using this
  · intro b hb
    have hb' : b ∈ p.lost := by simpa [Pool.renew] using hb
    have := hi.lostOk b hb'
    simp [Pool.renew]
    exact ⟨this.1, this.2.1, this.2.2.2⟩

theorem pool_step_inv (s : PoolSys) (op : PoolOp) (hi : SInv s) : SInv (s.step op) := by
  cases op with
  | athrow h v =>
      simp only [PoolSys.step]
      split
      · exact hi
      · split
        · have hA := (PI_allocA s.pool s.inUse (nAlloc s) (nFree s) hi.pi).1
          exact ⟨PI_throw _ _ _ _ _ hA, hi.resv, hi.uniq⟩
        · exact hi
  | evs l => exact runEvs_inv s l hi
  | renew k =>
      simp only [PoolSys.step]
      split
      · exact hi
      · rename_i hst
        have hst' : s.stack = [] := by simpa using hst
        have h1 := freeSlots_inv s (List.range s.slots.length) hi
        have hstk := freeSlots_stack s (List.range s.slots.length)
        have hempty : (s.freeSlots (List.range s.slots.length)).liveBlocks = [] := by
          rw [liveBlocks_eq]
          apply blocksOf_all_none
          apply freeSlots_all_none
          intro j hj; left; exact List.mem_range.2 hj
        have hpi := h1.pi
        simp only [PoolSys.inUse, hempty, hstk, hst', nAlloc, nFree, List.map_nil, List.append_nil, List.countP_nil] at hpi
        refine ⟨?_, ?_, ?_⟩
        · have := renew_pi _ k hpi
          show PI _ ((s.freeSlots (List.range s.slots.length)).liveBlocks ++ List.map Frame.blk (s.freeSlots (List.range s.slots.length)).stack)
            (List.countP Frame.isAlloc (s.freeSlots (List.range s.slots.length)).stack)
            (List.countP (fun f => !f.isAlloc) (s.freeSlots (List.range s.slots.length)).stack)
          rw [hempty, hstk, hst']
          exact this
        · intro f h hf; simp only [hstk, hst'] at hf; cases hf
        · simp only [hstk, hst']; exact List.Pairwise.nil
  | drop k =>
      simp only [PoolSys.step]
      split
      · exact hi
      · rename_i hst
        have hst' : s.stack = [] := by simpa using hst
        have hpi := hi.pi
        simp only [PoolSys.inUse, hst', nAlloc, nFree, List.map_nil, List.append_nil, List.countP_nil] at hpi
        have he : blocksOf (List.replicate s.slots.length (none : Option (Nat × Nat))) = [] := by
          apply blocksOf_all_none
          intro j hj; simp at hj; simp [hj]
        refine ⟨?_, ?_, ?_⟩
        · simp only [PoolSys.inUse, PoolSys.liveBlocks, nAlloc, nFree, hst', List.map_nil, List.append_nil, List.countP_nil]
          have he' : List.filterMap (fun o : Option (Nat × Nat) => o.map (·.1)) (List.replicate s.slots.length none) = [] := he
          rw [he']
          refine ⟨by simp [Pool.renew], by simp, by simp, ?_, by simp [Pool.renew], rfl, by simp [Pool.renew], ?_, by simp [Pool.renew],
            by simp, by simp [Pool.renew], ?_⟩
          · intro b hb
            simp [Pool.renew] at hb ⊢
            rcases hb with hb | hb
            · exact hpi.fresh b (Or.inl hb)
            · exact hpi.fresh b (Or.inr (Or.inr hb))
          · have := hpi.balance; simp [Pool.renew, PoolSys.liveBlocks] at this ⊢; omega
          · intro b hb
            have hb' : b ∈ s.pool.lost := by simpa [Pool.renew] using hb
            have := hpi.lostOk b hb'
            simp [Pool.renew]
            exact ⟨this.1, this.2.1, this.2.2.2⟩
        · intro f h hf; simp only [hst'] at hf; cases hf
        · simp only [hst']; exact List.Pairwise.nil

theorem pool_run_inv (s : PoolSys) (ops : List PoolOp) (hi : SInv s) : SInv (s.run ops) := by
  induction ops generalizing s with
  | nil => exact hi
  | cons op ops ih => exact ih _ (pool_step_inv s op hi)

end Tbox.C08
