/-
C08 — PROPERTY THEOREMS (statements rely on Model.lean / Spec.lean only; helper lemmas live in
CabProofs / CabRefine / PoolProofs / FdProofs).

Property: "A cabinet token resolves to the object stored with it from allocation until it is
freed and to nothing afterwards, even after its slot has been reused by later allocations; live
entries always have distinct tokens and the reported size equals the number of live entries.
The object pool never hands out storage that is still in use and runs exactly one constructor and
one destructor per alloc/free pair.  A shared descriptor handle closes its descriptor exactly
once - on explicit close or when the last copy goes away - and never earlier."

The cabinet model follows the code after patches/C08-01 (clear() keeps the id counter);
`C08_cab_lookup_counterexample` is the failure of the code as it stood before.
Hypothesis shared by the cabinet theorems: `c.lastId + nAllocs ops ≤ sizeMax`, i.e. the 64-bit id
counter does not wrap during the history (decidable; 2^64-1 allocations).
-/
import TboxModel.C08.CabRefine
import TboxModel.C08.CabEach
import TboxModel.C08.CabSize
import TboxModel.C08.PoolProofs
import TboxModel.C08.FdProofs
namespace Tbox.C08
open Cab

/-! ## Cabinet -/

theorem nAllocs_cons (op : CabOp) (ops : List CabOp) : nAllocs (op :: ops) = nAllocs [op] + nAllocs ops := by
  cases op <;> simp [nAllocs] <;> omega

theorem nAllocs_append (a b : List CabOp) : nAllocs (a ++ b) = nAllocs a + nAllocs b := by
  induction a with
  | nil => simp [nAllocs]
  | cons op a ih => rw [List.cons_append, nAllocs_cons, nAllocs_cons (ops := a), ih]; omega

/-- every history keeps the structural invariant and advances the id counter once per `alloc` -/
theorem cab_run_inv (c : Cab) (ops : List CabOp) (h : Inv c) (hw : c.lastId + nAllocs ops ≤ sizeMax) :
    Inv (c.run ops) ∧ (c.run ops).lastId = c.lastId + nAllocs ops := by
  induction ops generalizing c with
  | nil => exact ⟨h, by simp [Cab.run, nAllocs]⟩
  | cons op ops ih =>
      rw [nAllocs_cons] at hw
      have hwo : (∃ o, op = .alloc o) → c.lastId < sizeMax := by
        rintro ⟨o, rfl⟩; simp [nAllocs] at hw; omega
      have h1 := step_inv c op h hwo
      have h2 := step_lastId c op h hwo
      have := ih (c.step op) h1 (by omega)
      refine ⟨this.1, ?_⟩
      have e := this.2
      have e2 := nAllocs_cons op ops
      simp only [Cab.run]; omega

/-- **C08_cab_freelist.** After every history the `next_free` chain starting at `first_free_` is
acyclic (`l.Nodup`), ends at the sentinel, and consists of exactly the cells whose id is 0. -/
theorem C08_cab_freelist (ops : List CabOp) (hw : nAllocs ops ≤ sizeMax) :
    let c := ({} : Cab).run ops
    ∃ l, Chain c.cells c.firstFree l ∧ l.Nodup ∧
      ∀ p, p ∈ l ↔ ∃ cell, c.cells[p]? = some cell ∧ cell.id = 0 :=
  (cab_run_inv {} ops init_inv (by simpa using hw)).1.chain

/-- **C08_cab_alloc_never_throws.** `cells_.at(first_free_)` in `allocPos` never throws: after every
history `alloc` returns a token, whose id is one more than the id counter. -/
theorem C08_cab_alloc_never_throws (ops : List CabOp) (o : Nat) (hw : nAllocs ops < sizeMax) :
    let c := ({} : Cab).run ops
    ∃ pos, (c.alloc o).2 = some ⟨c.lastId + 1, pos⟩ := by
  have := cab_run_inv {} ops init_inv (by simp; omega)
  obtain ⟨_, pos, h, _⟩ := alloc_inv _ o this.1 (by rw [this.2]; simp; omega)
  exact ⟨pos, h⟩

/-- general form of the refinement: from any consistent cabinet related to a specification state -/
theorem cab_run_refines (c : Cab) (s : SpecCab) (ops : List CabOp) (h : Inv c) (r : Refines c s)
    (hw : c.lastId + nAllocs ops ≤ sizeMax) : Refines (c.run ops) (specRun c s ops) := by
  induction ops generalizing c s with
  | nil => exact r
  | cons op ops ih =>
      rw [nAllocs_cons] at hw
      have hwo : (∃ o, op = .alloc o) → c.lastId < sizeMax := by
        rintro ⟨o, rfl⟩; simp [nAllocs] at hw; omega
      have h1 := step_inv c op h hwo
      have h2 := step_lastId c op h hwo
      have r1 : Refines (c.step op) (specStep c s op) := step_refines c s op h r hwo
      exact ih (c.step op) (specStep c s op) h1 r1 (by omega)

/-- **C08_cab_lookup.** For every history of alloc / update / free / clear / iterate-with-removal
operations (without id wrap-around) and every token `t` — issued, stale or forged — `at(t)` is
exactly what the specification says: the object stored under `t` from its `alloc` (or last
`update`) until it is freed or cleared, and nothing from then on, for ever, whatever cells are
reused.  (`SpecCab.dead` only grows and overrides `live`: see `C08_spec_dead_forever`.) -/
theorem C08_cab_lookup (ops : List CabOp) (t : Token) (hw : nAllocs ops ≤ sizeMax) :
    (({} : Cab).run ops).lookup t = (specRun {} {} ops).lookup t :=
  (cab_run_refines {} {} ops init_inv ⟨by intro t; simp [Cab.lookup, SpecCab.lookup], by intro t h; simp at h⟩
    (by simpa using hw)).look t

/-- in the specification a retired token stays retired, whatever happens afterwards -/
theorem C08_spec_dead_forever (c : Cab) (s : SpecCab) (ops : List CabOp) (t : Token)
    (hd : s.dead t = true) : (specRun c s ops).dead t = true ∧ (specRun c s ops).lookup t = none := by
  have key : ∀ (c : Cab) (s : SpecCab), s.dead t = true → (specRun c s ops).dead t = true := by
    induction ops with
    | nil => intro c s hd; exact hd
    | cons op ops ih =>
        intro c s hd
        apply ih
        have hfree : ∀ (s : SpecCab) (t0 : Token), s.dead t = true → (s.free t0).dead t = true := by
          intro s t0 hd; unfold SpecCab.free; split
          · simp [hd]
          · exact hd
        cases op with
        | alloc o => simp only [specStep]; split <;> simpa [SpecCab.alloc] using hd
        | update t0 o => simp only [specStep, SpecCab.update]; split <;> exact hd
        | free t0 => exact hfree s t0 hd
        | clear => simp [specStep, SpecCab.clear, hd]
        | each f =>
            simp only [specStep]
            generalize c.eachFreed f = ts
            induction ts generalizing s with
            | nil => exact hd
            | cons t0 ts ih2 => exact ih2 _ (hfree s t0 hd)
  have := key c s hd
  exact ⟨this, by simp [SpecCab.lookup, this]⟩

/-- **C08_cab_stale_forever.** The statement without the specification: once a token whose id has
been issued (`t.id ≤ last_id_`) resolves to nothing, it resolves to nothing after every further
history — including histories with `clear()` and arbitrary reuse of its cell. -/
theorem C08_cab_stale_forever (pre post : List CabOp) (t : Token)
    (hw : nAllocs (pre ++ post) ≤ sizeMax) :
    let c1 := ({} : Cab).run pre
    t.id ≤ c1.lastId → c1.lookup t = none → (c1.run post).lookup t = none := by
  intro c1 hid hl
  have hsplit := nAllocs_append pre post
  have h1 := cab_run_inv {} pre init_inv (by simp; omega)
  have hw1 : c1.lastId + nAllocs post ≤ sizeMax := by rw [h1.2]; simp; omega
  -- the specification state that marks `t` as retired
  let s : SpecCab := { live := fun t' => if t' = t then none else c1.lookup t', dead := fun t' => decide (t' = t) }
  have r : Refines c1 s := by
    constructor
    · intro t'
      by_cases ht : t' = t
      · simp [s, SpecCab.lookup, ht, hl]
      · simp [s, SpecCab.lookup, ht]
    · intro t' hd
      simp [s] at hd; rw [hd]; exact hid
  have r2 := cab_run_refines c1 s post h1.1 r hw1
  rw [r2.look t]
  exact (C08_spec_dead_forever c1 s post t (by simp [s])).2

theorem run_append (c : Cab) (a b : List CabOp) : c.run (a ++ b) = (c.run a).run b := by
  induction a generalizing c with
  | nil => rfl
  | cons op a ih => simp only [List.cons_append, Cab.run]; exact ih _

/-- **C08_cab_fresh_token.** A token returned by `alloc` differs — already in its id — from every
token returned by an earlier `alloc` of the same cabinet, however many `free`/`clear` lie between. -/
theorem C08_cab_fresh_token (pre mid : List CabOp) (o1 o2 : Nat) (a b : Token)
    (hw : nAllocs pre + nAllocs mid + 2 ≤ sizeMax) :
    let c0 := ({} : Cab).run pre
    let c1 := (c0.alloc o1).1
    (c0.alloc o1).2 = some a → ((c1.run mid).alloc o2).2 = some b → a.id < b.id := by
  intro c0 c1 ha hb
  have h0 := cab_run_inv {} pre init_inv (by simp; omega)
  have hw0 : c0.lastId < sizeMax := by rw [h0.2]; simp; omega
  obtain ⟨hi1, p1, hA, hl1⟩ := alloc_inv c0 o1 h0.1 hw0
  have h2 := cab_run_inv c1 mid hi1 (by rw [hl1, h0.2]; simp; omega)
  obtain ⟨_, p2, hB, _⟩ := alloc_inv (c1.run mid) o2 h2.1 (by rw [h2.2, hl1, h0.2]; simp; omega)
  rw [hA] at ha; rw [hB] at hb
  cases ha; cases hb
  simp only
  rw [h2.2, hl1]; omega

/-- **C08_cab_distinct.** After every history two tokens that both resolve and have the same id are
the same token: live entries have pairwise distinct ids (hence distinct tokens). -/
theorem C08_cab_distinct (ops : List CabOp) (t1 t2 : Token) (hw : nAllocs ops ≤ sizeMax) :
    let c := ({} : Cab).run ops
    (c.lookup t1).isSome → (c.lookup t2).isSome → t1.id = t2.id → t1 = t2 := by
  intro c h1 h2 hid
  have hi := (cab_run_inv {} ops init_inv (by simpa using hw)).1
  obtain ⟨o1, ho1⟩ := Option.isSome_iff_exists.1 h1
  obtain ⟨o2, ho2⟩ := Option.isSome_iff_exists.1 h2
  obtain ⟨hn1, hc1⟩ := (lookup_some c t1 o1).1 ho1
  obtain ⟨_, hc2⟩ := (lookup_some c t2 o2).1 ho2
  exact token_ext _ _ hid (hi.idDistinct _ _ _ _ hc1 hc2 hn1 hid)

/-- **C08_cab_size.** After every history `size()` is the number of live entries: `liveTokens` lists
the tokens that resolve — a token is in it iff `at` finds its entry — without repetition, and
`size()` is its length (`count_` never drifts and never underflows). -/
theorem C08_cab_size (ops : List CabOp) (hw : nAllocs ops ≤ sizeMax) :
    let c := ({} : Cab).run ops
    c.size = c.liveTokens.length ∧ c.liveTokens.Nodup ∧
    ∀ t, t ∈ c.liveTokens ↔ (c.lookup t).isSome = true := by
  intro c
  refine ⟨?_, liveTokens_nodup c, mem_liveTokens c⟩
  rw [liveTokens_length]
  exact (cab_run_inv {} ops init_inv (by simpa using hw)).1.count

/-- **C08_cab_foreach_effect.** Iterating with removals from inside the callback changes the
cabinet exactly as the same removals performed one after the other (`eachFreed` = the tokens the
callbacks free, in order): the iteration itself never touches cells, free list or count, so every
cabinet theorem above covers histories with iterate-with-removal steps. -/
theorem C08_cab_foreach_effect (c : Cab) (f : Nat → List Token) :
    (c.foreach f).1 = c.freeAll (c.eachFreed f) := foreach_eq_freeAll c f

/-- **C08_cab_foreach_remove.** Iteration with removal from inside the callbacks, for every cabinet
and every removal script.  With `vis` the callbacks made, in order, as (cell position, object passed):
(1) positions strictly increase — no entry is visited twice;
(2) the entry of the k-th callback is live at the moment of that callback, i.e. in the cabinet as
    the first k callbacks' removals left it (so an entry removed earlier in the same iteration is
    never visited), and it is an entry of the initial cabinet with the object that was passed;
(3) every entry still live when the iteration ends was visited.
Hence each entry that survives is visited exactly once and nothing else but entries live at their
turn is visited. -/
theorem C08_cab_foreach_remove (c : Cab) (f : Nat → List Token) :
    let vis := (c.foreach f).2
    (vis.map (·.1)).Pairwise (· < ·) ∧
    (∀ (k : Nat) (hk : k < vis.length), ∃ id, id ≠ 0 ∧
        (c.freeAll ((List.range k).flatMap f)).cells[(vis[k]).1]? = some ⟨id, (vis[k]).2⟩ ∧
        c.cells[(vis[k]).1]? = some ⟨id, (vis[k]).2⟩) ∧
    (∀ (p : Nat) (cell : Cell), (c.foreach f).1.cells[p]? = some cell → cell.id ≠ 0 → (p, cell.w) ∈ vis) := by
  intro vis
  have hi := foreach_inv c f c.cells.length
  refine ⟨hi.sorted, ?_, ?_⟩
  · intro k hk
    obtain ⟨id, hid, hcell⟩ := hi.wasLive k hk
    exact ⟨id, hid, hcell, freeAll_live_mono _ _ _ _ hcell hid⟩
  · intro p cell hp hid
    have hlt : p < (c.foreach f).1.cells.length := getElem?_lt _ _ _ hp
    rw [C08_cab_foreach_effect, freeAll_length] at hlt
    exact hi.covered p cell hlt hp hid

/-- **C08_cab_lookup_counterexample.** `clear()` as it stood before patches/C08-01 (id counter reset):
the token of the first allocation is dead after `clear()` and comes back to life — resolving to a
different object — with the next allocation. -/
theorem C08_cab_lookup_counterexample :
    let t : Token := ⟨1, 0⟩
    (({} : Cab).alloc 5).2 = some t ∧
    (({} : Cab).runOld [.alloc 5]).lookup t = some 5 ∧
    (({} : Cab).runOld [.alloc 5, .clear]).lookup t = none ∧
    (({} : Cab).runOld [.alloc 5, .clear, .alloc 6]).lookup t = some 6 := by
  decide

/-- **C08_cab_wrap_counterexample.** The no-wrap hypothesis cannot be dropped: from a consistent
cabinet whose id counter has reached 2^64-1, `allocId` wraps to 1 and hands out, for the reused
cell, a token equal to one freed before — the stale token resolves to the new object.
(Unreachable in practice: 2^64-1 allocations.) -/
theorem C08_cab_wrap_counterexample :
    let c0 : Cab := { lastId := sizeMax, cells := [⟨1, 7⟩], firstFree := sizeMax, count := 1 }
    let t : Token := ⟨1, 0⟩
    c0.lookup t = some 7 ∧ (c0.run [.free t]).lookup t = none ∧
    (c0.run [.free t, .alloc 9]).lookup t = some 9 := by
  decide

/-! ## Object pool -/

theorem pool_step_inv (s : PoolSys) (op : PoolOp) (hi : PInv s) : PInv (s.step op).1 := by
  cases op with
  | alloc h v =>
      simp only [PoolSys.step]
      split
      · rename_i hh; exact (alloc_slot_inv s h v hi hh).1
      · exact hi
  | free h =>
      simp only [PoolSys.step]
      split
      · rename_i b v hh; exact (free_slot_inv s h b v hi hh).1
      · exact hi
  | renew k => exact renew_inv _ k (freeSlots_inv s _ hi)

theorem pool_run_inv (s : PoolSys) (ops : List PoolOp) (hi : PInv s) : PInv (s.run ops) := by
  induction ops generalizing s with
  | nil => exact hi
  | cons op ops ih => exact ih _ (pool_step_inv s op hi)

/-- **C08_pool_no_alias.** After every history of alloc / free / re-creation with any retention
limits: the parked chain has no duplicates, the blocks holding live objects are pairwise distinct,
no parked block holds a live object, no block given back to the system is parked or live; and the
block the next `alloc` constructs its object in is not in use and was not given back. -/
theorem C08_pool_no_alias (ops : List PoolOp) (h v : Nat) :
    let s := PoolSys.init.run ops
    s.pool.parked.Nodup ∧ s.liveBlocks.Nodup ∧ (∀ b, b ∈ s.pool.parked → b ∉ s.liveBlocks) ∧
    (∀ b, b ∈ s.pool.released → b ∉ s.pool.parked ∧ b ∉ s.liveBlocks) ∧
    ∀ b, (s.step (.alloc h v)).2 = some b → b ∉ s.liveBlocks ∧ b ∉ s.pool.released := by
  intro s
  have hi : PI s.pool s.liveBlocks := pool_run_inv _ ops pinit_inv
  refine ⟨hi.parkedNodup, hi.liveNodup, hi.disjoint, hi.relDisj, ?_⟩
  intro b hb
  simp only [PoolSys.step] at hb
  split at hb
  · rename_i hh
    have := alloc_slot_inv s h v hi hh
    simp at hb; rw [← hb]; exact ⟨this.2.1, this.2.2.1⟩
  · simp at hb

/-- **C08_pool_ctor_dtor.** Constructor runs − destructor runs = number of live objects after every
history; an `alloc` that takes place runs exactly one constructor and no destructor, a `free` of a
live object exactly one destructor and no constructor. -/
theorem C08_pool_ctor_dtor (ops : List PoolOp) (h v : Nat) :
    let s := PoolSys.init.run ops
    s.pool.ctor = s.pool.dtor + s.liveBlocks.length ∧
    (s.slots[h]? = some none →
      (s.step (.alloc h v)).1.pool.ctor = s.pool.ctor + 1 ∧ (s.step (.alloc h v)).1.pool.dtor = s.pool.dtor) ∧
    (∀ b w, s.slots[h]? = some (some (b, w)) →
      (s.step (.free h)).1.pool.dtor = s.pool.dtor + 1 ∧ (s.step (.free h)).1.pool.ctor = s.pool.ctor) := by
  intro s
  have hi : PI s.pool s.liveBlocks := pool_run_inv _ ops pinit_inv
  refine ⟨hi.balance, ?_, ?_⟩
  · intro hh
    have := alloc_slot_inv s h v hi hh
    simp only [PoolSys.step, hh]
    exact ⟨this.2.2.2.1, this.2.2.2.2⟩
  · intro b w hh
    have := free_slot_inv s h b w hi hh
    simp only [PoolSys.step, hh]
    exact ⟨this.2.1, this.2.2⟩

/-- **C08_pool_keep.** The number of parked blocks equals `free_number_` and never exceeds the
retention limit. -/
theorem C08_pool_keep (ops : List PoolOp) :
    let s := PoolSys.init.run ops
    s.pool.freeNum = s.pool.parked.length ∧ s.pool.parked.length ≤ s.pool.keep := by
  intro s
  have hi : PI s.pool s.liveBlocks := pool_run_inv _ ops pinit_inv
  exact ⟨hi.freeNum, hi.keep⟩

/-! ## Fd -/

/-- **C08_fd_refcount.** After every history of construct / open / copy / move / assign (self-
assignment included) / swap / reset / close / destroy operations on the handle slots: the
`ref_count` of every detail record that has not been deleted equals the number of handles pointing
to it and is at least 1 (so `TBOX_ASSERT(ref_count > 0)` never fires and a record without handles
has been deleted), and no handle points to a deleted record. -/
theorem C08_fd_refcount (ops : List FdOp) (hok : ∀ op ∈ ops, op.ok = true) :
    let s := FdSys.init.run ops
    (∀ (d : Nat) (det : Detail), s.details[d]? = some det → det.freed = false →
        det.ref = (s.handles.count (some d) : Int) ∧ 1 ≤ det.ref) ∧
    (∀ (h d : Nat), s.handles[h]? = some (some d) → ∃ det, s.details[d]? = some det ∧ det.freed = false) := by
  intro s
  have hi := FdSys.run_inv _ ops FdSys.finit_inv hok
  exact ⟨hi.1.refOk, hi.1.noDangle⟩

/-- **C08_fd_close_once.** After every such history: no descriptor appears twice in the log of
closes performed (close function or `::close`); a descriptor some handle still reports through
`get()` has not been closed ("never earlier"); and every descriptor that was opened is either
closed or still reported by some handle ("exactly once: on explicit close or when the last copy
goes away" — there is no third state in which it leaks). -/
theorem C08_fd_close_once (ops : List FdOp) (hok : ∀ op ∈ ops, op.ok = true) :
    let s := FdSys.init.run ops
    (s.closeLog.map (·.1)).Nodup ∧
    (∀ h, 0 ≤ s.get h → (s.get h).toNat ∉ s.closeLog.map (·.1)) ∧
    (∀ r, r < s.nextRes → (r ∈ s.closeLog.map (·.1) ↔ ¬ ∃ h, s.get h = (r : Int))) := by
  intro s
  have hi := FdSys.run_inv _ ops FdSys.finit_inv hok
  obtain ⟨hr, hc⟩ := hi
  have held : ∀ (h : Nat) (r : Int), 0 ≤ r → s.get h = r → r.toNat ∉ s.closeLog.map (·.1) := by
    intro h r h0 hg
    obtain ⟨d, det, hh, hd, hfd⟩ := (FdSys.get_eq s h r h0).1 hg
    obtain ⟨det', hd', hf⟩ := hr.noDangle h d hh
    rw [hd] at hd'; cases hd'
    rw [← hfd]; exact (hc.fdOpen d det hd hf (by omega)).2
  refine ⟨hc.logNodup, fun h h0 => held h _ h0 rfl, ?_⟩
  intro r hr'
  constructor
  · intro hm ⟨h, hg⟩
    have := held h r (by omega) hg
    rw [Int.toNat_natCast] at this
    exact this hm
  · intro hne
    apply Classical.byContradiction
    intro hnm
    obtain ⟨d, det, hd, hf, hfd⟩ := hc.noLeak r hr' hnm
    have hcount : det.ref = (s.handles.count (some d) : Int) ∧ 1 ≤ det.ref := hr.refOk d det hd hf
    have hpos : 0 < s.handles.count (some d) := by
      have h1 := hcount.1; have h2 := hcount.2
      omega
    obtain ⟨h, hh⟩ := List.mem_iff_getElem?.1 (List.count_pos_iff.1 hpos)
    exact hne ⟨h, (FdSys.get_eq s h r (by omega)).2 ⟨d, det, hh, hd, hfd⟩⟩

/-! ### non-vacuity -/

example : nAllocs [CabOp.alloc 1, .alloc 2, .free ⟨1, 0⟩, .clear, .alloc 3] ≤ sizeMax := by decide

example :
    let c := ({} : Cab).run [.alloc 1, .alloc 2, .free ⟨1, 0⟩, .alloc 3, .clear, .alloc 4]
    c.lookup ⟨1, 0⟩ = none ∧ c.lookup ⟨3, 0⟩ = none ∧ c.lookup ⟨4, 0⟩ = some 4 ∧ c.size = 1 := by decide

example :
    let s := PoolSys.init.run [.renew 1, .alloc 0 7, .alloc 1 8, .free 0, .free 1, .alloc 2 9]
    s.slots[2]? = some (some (0, 9)) ∧ s.pool.released = [1] ∧ s.slots[3]? = some none := by decide

example :
    let c := ({} : Cab).run [.alloc 1, .alloc 2, .alloc 3, .alloc 4, .free ⟨2, 1⟩]
    -- the first callback removes the entry at position 2 (a later one) and itself
    (c.foreach (fun k => if k = 0 then [⟨3, 2⟩, ⟨1, 0⟩] else [])).2 = [(0, 1), (3, 4)] := by decide

example : ∀ op ∈ [FdOp.opn 0 true, .copyAssign 1 0, .copyAssign 0 0, .moveCtor 2 1, .close 2, .reset 0, .fresh 2],
    op.ok = true := by decide

example :
    let s := FdSys.init.run [.opn 0 true, .copyAssign 1 0, .copyAssign 0 0, .moveCtor 2 1, .reset 0]
    s.get 2 = 0 ∧ s.closeLog = [] ∧ (s.step (.fresh 2)).closeLog = [(0, true)] := by decide

end Tbox.C08
