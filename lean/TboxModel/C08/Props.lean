/-
C08 — PROPERTY THEOREMS (statements rely on Model.lean / Spec.lean only; helper lemmas live in
CabProofs / CabRefine / PoolProofs / FdProofs).

Property: "A cabinet token resolves to the object stored with it from allocation until it is
freed and to nothing afterwards, even after its slot has been reused by later allocations; live
entries always have distinct tokens and the reported size equals the number of live entries.
The object pool never hands out storage that is still in use and runs exactly one constructor and
one destructor per alloc/free pair.  A shared descriptor handle closes its descriptor exactly
once - on explicit close or when the last copy goes away - and never earlier."

The cabinet model follows the code after patches/C08-01 (clear() keeps the id counter);
`C08_cab_lookup_counterexample` is the failure of the code as it stood before.
-/
import TboxModel.C08.CabRefine
import TboxModel.C08.CabEach
import TboxModel.C08.CabSize
import TboxModel.C08.PoolProofs
import TboxModel.C08.FdProofs
import TboxModel.C08.LtProofs
import TboxModel.C08.FastProofs
namespace Tbox.C08
open Cab

/-! ## Cabinet

Hypothesis shared by the cabinet theorems: the history ends with `wrapped = false`, i.e. the 64-bit
id counter has not wrapped around (a ghost flag of the model set by `allocId`; decidable; it takes
2^64-1 allocations).  Histories consist of `alloc / update / free / clear` calls and of `foreach`
iterations whose callbacks make any such calls themselves. -/

theorem init_refines : Refines ({} : Cab) ({} : SpecCab) :=
  ⟨by intro t; simp [Cab.lookup, SpecCab.lookup], by intro t h; simp at h⟩

/-- **C08_cab_freelist.** After every history the `next_free` chain starting at `first_free_` is
acyclic (`l.Nodup`), ends at the sentinel, and consists of exactly the cells whose id is 0. -/
theorem C08_cab_freelist (ops : List CabOp) (hw : (({} : Cab).run ops).wrapped = false) :
    let c := ({} : Cab).run ops
    ∃ l, Chain c.cells c.firstFree l ∧ l.Nodup ∧
      ∀ p, p ∈ l ↔ ∃ cell, c.cells[p]? = some cell ∧ cell.id = 0 :=
  (run_inv {} ops init_inv hw).1.chain

/-- **C08_cab_alloc_never_throws.** `cells_.at(first_free_)` in `allocPos` never throws: after every
history `alloc` returns a token, whose id is one more than the id counter. -/
theorem C08_cab_alloc_never_throws (ops : List CabOp) (o : Nat)
    (hw : ((({} : Cab).run ops).alloc o).1.wrapped = false) :
    let c := ({} : Cab).run ops
    ∃ pos, (c.alloc o).2 = some ⟨c.lastId + 1, pos⟩ := by
  intro c
  have hw0 : c.wrapped = false := by
    cases hq : c.wrapped with
    | false => rfl
    | true => have := act_wrapped_mono c (.alloc o) hq; simp only [Cab.act] at this; rw [hw] at this; cases this
  have hi := (run_inv {} ops init_inv hw0).1
  have hne : c.lastId ≠ sizeMax := by
    intro e; have := alloc_wrapped c o; rw [hw, e] at this; simp at this
  have hm : c.lastId ≤ sizeMax := hi.idMax
  obtain ⟨_, pos, h, _⟩ := alloc_inv c o hi (by omega)
  exact ⟨pos, h⟩

/-- **C08_cab_lookup.** For every history and every token `t` — issued, stale or forged — `at(t)` is
exactly what the specification says: the object stored under `t` from its `alloc` (or last `update`)
until it is freed or cleared, and nothing from then on, for ever, whatever cells are reused.
(`SpecCab.dead` only grows and overrides `live`: see `C08_spec_dead_forever`.) -/
theorem C08_cab_lookup (ops : List CabOp) (t : Token) (hw : (({} : Cab).run ops).wrapped = false) :
    (({} : Cab).run ops).lookup t = (specRun {} {} ops).lookup t :=
  (run_refines {} {} ops init_inv init_refines hw).look t

/-- in the specification a retired token stays retired, whatever happens afterwards -/
theorem C08_spec_dead_forever (c : Cab) (s : SpecCab) (ops : List CabOp) (t : Token)
    (hd : s.dead t = true) : (specRun c s ops).dead t = true ∧ (specRun c s ops).lookup t = none := by
  have hact : ∀ (c : Cab) (s : SpecCab) (a : CbAct), s.dead t = true → (specAct c s a).dead t = true := by
    intro c s a hd
    cases a with
    | alloc o => simp only [specAct]; split <;> simpa [SpecCab.alloc] using hd
    | update t0 o => simp only [specAct, SpecCab.update]; split <;> exact hd
    | free t0 => simp only [specAct, SpecCab.free]; split <;> simp [hd]
    | clear => simp [specAct, SpecCab.clear, hd]
  have hacts : ∀ (as : List CbAct) (c : Cab) (s : SpecCab), s.dead t = true → (specActs c s as).dead t = true := by
    intro as
    induction as with
    | nil => intro c s hd; exact hd
    | cons a as ih => intro c s hd; exact ih _ _ (hact c s a hd)
  have key : ∀ (c : Cab) (s : SpecCab), s.dead t = true → (specRun c s ops).dead t = true := by
    induction ops with
    | nil => intro c s hd; exact hd
    | cons op ops ih =>
        intro c s hd
        apply ih
        cases op with
        | act a => exact hact c s a hd
        | each f => exact hacts _ c s hd
  have := key c s hd
  exact ⟨this, by simp [SpecCab.lookup, this]⟩

theorem run_append (c : Cab) (a b : List CabOp) : c.run (a ++ b) = (c.run a).run b := by
  induction a generalizing c with
  | nil => rfl
  | cons op a ih => simp only [List.cons_append, Cab.run]; exact ih _

/-- **C08_cab_stale_forever.** The statement without the specification: once a token whose id has
been issued (`t.id ≤ last_id_`) resolves to nothing, it resolves to nothing after every further
history — including `clear()`, arbitrary reuse of its cell, and allocations made from inside
`foreach` callbacks. -/
theorem C08_cab_stale_forever (pre post : List CabOp) (t : Token)
    (hw : (({} : Cab).run (pre ++ post)).wrapped = false) :
    let c1 := ({} : Cab).run pre
    t.id ≤ c1.lastId → c1.lookup t = none → (c1.run post).lookup t = none := by
  intro c1 hid hl
  rw [run_append] at hw
  have hw1 : c1.wrapped = false := by
    cases hq : c1.wrapped with
    | false => rfl
    | true => have := run_wrapped_mono c1 post hq; rw [hw] at this; cases this
  have h1 := run_inv {} pre init_inv hw1
  let s : SpecCab := { live := fun t' => if t' = t then none else c1.lookup t', dead := fun t' => decide (t' = t) }
  have r : Refines c1 s := by
    constructor
    · intro t'
      by_cases ht : t' = t
      · simp [s, SpecCab.lookup, ht, hl]
      · simp [s, SpecCab.lookup, ht]
    · intro t' hd
      simp [s] at hd; rw [hd]; exact hid
  have r2 := run_refines c1 s post h1.1 r hw
  rw [r2.look t]
  exact (C08_spec_dead_forever c1 s post t (by simp [s])).2

/-- **C08_cab_fresh_token.** A token returned by `alloc` differs — already in its id — from every
token returned by an earlier `alloc` of the same cabinet, however many `free`/`clear`/iterations
lie between. -/
theorem C08_cab_fresh_token (pre mid : List CabOp) (o1 o2 : Nat) (a b : Token)
    (hw : (({} : Cab).run (pre ++ [.act (.alloc o1)] ++ mid ++ [.act (.alloc o2)])).wrapped = false) :
    let c0 := ({} : Cab).run pre
    let c1 := (c0.alloc o1).1
    (c0.alloc o1).2 = some a → ((c1.run mid).alloc o2).2 = some b → a.id < b.id := by
  intro c0 c1 ha hb
  have e : ({} : Cab).run (pre ++ [.act (.alloc o1)] ++ mid ++ [.act (.alloc o2)]) = ((c1.run mid).alloc o2).1 := by
    simp only [run_append, Cab.run, Cab.step, Cab.act]; rfl
  rw [e] at hw
  have hw2 : (c1.run mid).wrapped = false := by
    cases hq : (c1.run mid).wrapped with
    | false => rfl
    | true => have := act_wrapped_mono _ (.alloc o2) hq; simp only [Cab.act] at this; rw [hw] at this; cases this
  have hw1 : c1.wrapped = false := by
    cases hq : c1.wrapped with
    | false => rfl
    | true => have := run_wrapped_mono c1 mid hq; rw [hw2] at this; cases this
  have hw0 : c0.wrapped = false := by
    cases hq : c0.wrapped with
    | false => rfl
    | true => have := act_wrapped_mono c0 (.alloc o1) hq; simp only [Cab.act] at this; rw [hw1] at this; cases this
  have h0 := run_inv {} pre init_inv hw0
  have hne0 : c0.lastId ≠ sizeMax := by
    intro e'; have := alloc_wrapped c0 o1; rw [hw1, e'] at this; simp at this
  have hm0 : c0.lastId ≤ sizeMax := h0.1.idMax
  obtain ⟨hi1, p1, hA, hl1⟩ := alloc_inv c0 o1 h0.1 (by omega)
  have h2 := run_inv c1 mid hi1 hw2
  have hne2 : (c1.run mid).lastId ≠ sizeMax := by
    intro e'; have := alloc_wrapped (c1.run mid) o2; rw [hw, e'] at this; simp at this
  have hm2 : (c1.run mid).lastId ≤ sizeMax := h2.1.idMax
  obtain ⟨_, p2, hB, _⟩ := alloc_inv (c1.run mid) o2 h2.1 (by omega)
  rw [hA] at ha; rw [hB] at hb
  cases ha; cases hb
  have hle : c1.lastId ≤ (c1.run mid).lastId := h2.2
  have hl1' : c1.lastId = c0.lastId + 1 := hl1
  show c0.lastId + 1 < (c1.run mid).lastId + 1
  omega

/-- **C08_cab_distinct.** After every history two tokens that both resolve and have the same id are
the same token: live entries have pairwise distinct ids (hence distinct tokens). -/
theorem C08_cab_distinct (ops : List CabOp) (t1 t2 : Token) (hw : (({} : Cab).run ops).wrapped = false) :
    let c := ({} : Cab).run ops
    (c.lookup t1).isSome → (c.lookup t2).isSome → t1.id = t2.id → t1 = t2 := by
  intro c h1 h2 hid
  have hi := (run_inv {} ops init_inv hw).1
  obtain ⟨o1, ho1⟩ := Option.isSome_iff_exists.1 h1
  obtain ⟨o2, ho2⟩ := Option.isSome_iff_exists.1 h2
  obtain ⟨hn1, hc1⟩ := (lookup_some c t1 o1).1 ho1
  obtain ⟨_, hc2⟩ := (lookup_some c t2 o2).1 ho2
  exact token_ext _ _ hid (hi.idDistinct _ _ _ _ hc1 hc2 hn1 hid)

/-- **C08_cab_size.** After every history `size()` is the number of live entries: `liveTokens` lists
the tokens that resolve — a token is in it iff `at` finds its entry — without repetition, and
`size()` is its length (`count_` never drifts and never underflows). -/
theorem C08_cab_size (ops : List CabOp) (hw : (({} : Cab).run ops).wrapped = false) :
    let c := ({} : Cab).run ops
    c.size = c.liveTokens.length ∧ c.liveTokens.Nodup ∧
    ∀ t, t ∈ c.liveTokens ↔ (c.lookup t).isSome = true := by
  intro c
  refine ⟨?_, liveTokens_nodup c, mem_liveTokens c⟩
  rw [liveTokens_length]
  exact (run_inv {} ops init_inv hw).1.count

/-- **C08_cab_foreach_effect.** An iteration whose callbacks call `free`, `update`, `alloc` or
`clear` changes the cabinet exactly as the same calls made one after the other (`eachActs` = what
the callbacks did, in order): the iteration itself never touches cells, free list or count, so
every cabinet theorem above covers histories with such iterations. -/
theorem C08_cab_foreach_effect (c : Cab) (f : Nat → List CbAct) :
    (c.foreach f).1 = c.runActs (c.eachActs f) := foreach_eq_runActs c f

/-- **C08_cab_foreach_remove.** Iteration with calls from inside the callbacks (code after
patches/C08-02), after every history and for every callback script.  With `vis` the callbacks made,
in order, as (cell position, object passed):
(1) positions strictly increase and lie below the initial number of cells — no entry is visited twice;
(2) the entry of the k-th callback is live at the moment of that callback, i.e. in the cabinet as
    the first k callbacks left it: an entry removed (or cleared) earlier in the same iteration is
    never visited;
(3) every entry that was live when the iteration began and is still live when it ends (same cell,
    same id — ids are never re-issued) was visited.
Hence each surviving entry is visited exactly once, and nothing is visited that is not live at its turn. -/
theorem C08_cab_foreach_remove (ops : List CabOp) (f : Nat → List CbAct)
    (hw : ((({} : Cab).run ops).foreach f).1.wrapped = false) :
    let c := ({} : Cab).run ops
    let vis := (c.foreach f).2
    (vis.map (·.1)).Pairwise (· < ·) ∧ (∀ q, q ∈ vis → q.1 < c.cells.length) ∧
    (∀ (k : Nat) (hk : k < vis.length), ∃ id, id ≠ 0 ∧
        (c.runActs ((List.range k).flatMap f)).cells[(vis[k]).1]? = some ⟨id, (vis[k]).2⟩) ∧
    (∀ (p : Nat) (x : Cell), (c.foreach f).1.cells[p]? = some x → x.id ≠ 0 → x.id ≤ c.lastId →
        p ∈ vis.map (·.1)) := by
  intro c vis
  have hw0 : c.wrapped = false := by
    cases hq : c.wrapped with
    | false => rfl
    | true =>
        have := runActs_wrapped_mono c (c.eachActs f) hq
        rw [← foreach_eq_runActs, hw] at this; cases this
  have hc0 := (run_inv {} ops init_inv hw0).1
  have hi := foreach_inv c f hc0 c.cells.length
  refine ⟨hi.sorted, hi.bound, hi.wasLive, ?_⟩
  intro p x hp hid hold
  have hw' := hw
  rw [foreach_eq_runActs] at hw' hp
  obtain ⟨y, hy, _⟩ := runActs_old_mono c _ p x c.lastId hc0 (Nat.le_refl _) hw' hp hid hold
  have hlt : p < c.cells.length := getElem?_lt _ _ _ hy
  rw [← foreach_eq_runActs] at hp
  exact hi.covered hw p x hlt hp hid hold

/-- **C08_cab_lookup_counterexample.** `clear()` as it stood before patches/C08-01 (id counter reset):
the token of the first allocation is dead after `clear()` and comes back to life — resolving to a
different object — with the next allocation. -/
theorem C08_cab_lookup_counterexample :
    let t : Token := ⟨1, 0⟩
    (({} : Cab).alloc 5).2 = some t ∧
    (({} : Cab).runOld [.act (.alloc 5)]).lookup t = some 5 ∧
    (({} : Cab).runOld [.act (.alloc 5), .act .clear]).lookup t = none ∧
    (({} : Cab).runOld [.act (.alloc 5), .act .clear, .act (.alloc 6)]).lookup t = some 6 := by
  decide

/-- **C08_cab_wrap_counterexample.** The no-wrap hypothesis cannot be dropped: from a consistent
cabinet whose id counter has reached 2^64-1, `allocId` wraps to 1 and hands out, for the reused
cell, a token equal to one freed before — the stale token resolves to the new object.
(Unreachable in practice: 2^64-1 allocations.) -/
theorem C08_cab_wrap_counterexample :
    let c0 : Cab := { lastId := sizeMax, cells := [⟨1, 7⟩], firstFree := sizeMax, count := 1 }
    let t : Token := ⟨1, 0⟩
    c0.lookup t = some 7 ∧ (c0.run [.act (.free t)]).lookup t = none ∧
    (c0.run [.act (.free t), .act (.alloc 9)]).lookup t = some 9 ∧
    (c0.run [.act (.free t), .act (.alloc 9)]).wrapped = true := by
  decide

/-! ## Object pool

Histories are sequences of events `abeg h v … aend` / `fbeg h … fend` (a call of `alloc` / `free`
begins, the probe's constructor / destructor makes the nested events, the call ends), arbitrarily
nested — a constructor or destructor may allocate from and free to the SAME pool — plus
re-creation of the pool between calls.  The theorems hold in EVERY state of such a history,
including the states in the middle of a call (the model takes the block off the free list before
the constructor runs and parks it after the destructor has returned, as the code does). -/

/-- **C08_pool_no_alias.** In every state: the parked chain has no duplicates; the blocks in use —
live objects AND objects whose constructor or destructor is still running — are pairwise distinct;
no parked block is in use; no block given back to the system is parked or in use; and the block in
which the next `alloc` (nested or not) starts constructing is not in use and was not given back. -/
theorem C08_pool_no_alias (ops : List PoolOp) (e : PEv) :
    let s := PoolSys.init.run ops
    s.pool.parked.Nodup ∧ s.inUse.Nodup ∧ (∀ b, b ∈ s.pool.parked → b ∉ s.inUse) ∧
    (∀ b, b ∈ s.pool.released → b ∉ s.pool.parked ∧ b ∉ s.inUse) ∧
    ∀ b, (s.ev e).2 = some b → b ∉ s.inUse ∧ b ∉ s.pool.released := by
  intro s
  have hi : SInv s := pool_run_inv _ ops pinit_inv
  exact ⟨hi.pi.parkedNodup, hi.pi.liveNodup, hi.pi.disjoint, hi.pi.relDisj, (ev_inv s e hi).2⟩

theorem ev_leaked (s : PoolSys) (e : PEv) : (s.ev e).1.pool.leaked = s.pool.leaked := by
  cases e <;> simp only [PoolSys.ev] <;> (repeat' split) <;>
    simp [Pool.allocA, Pool.ctorEnter, Pool.allocB, Pool.dtorEnter, Pool.freeB] <;> (repeat' split) <;> rfl

/-- **C08_pool_ctor_dtor.** In every state: constructor entries + destructors still running =
destructor entries + blocks in use + objects abandoned by `~ObjectPool()` (which runs no destructor)
+ constructors that exited by an exception (no object came into being, so no destructor is owed);
between calls this is `#ctor − #dtor = #live (+ abandoned + thrown)`.  An `alloc` that takes place enters exactly
one constructor and no destructor; a `free` that takes place enters exactly one destructor and no
constructor; the end of a call enters neither. -/
theorem C08_pool_ctor_dtor (ops : List PoolOp) (e : PEv) :
    let s := PoolSys.init.run ops
    s.pool.ctor + nFree s = s.pool.dtor + s.inUse.length + s.pool.leaked + s.pool.thrown ∧
    (s.stack = [] → s.pool.ctor = s.pool.dtor + s.liveBlocks.length + s.pool.leaked + s.pool.thrown) ∧
    (∀ b, (s.ev e).2 = some b → (s.ev e).1.pool.ctor = s.pool.ctor + 1 ∧ (s.ev e).1.pool.dtor = s.pool.dtor) ∧
    (∀ h b w, e = .fbeg h → s.skip = 0 → s.slots[h]? = some (some (b, w)) →
      (s.ev e).1.pool.dtor = s.pool.dtor + 1 ∧ (s.ev e).1.pool.ctor = s.pool.ctor) ∧
    ((e = .aend ∨ e = .fend) → (s.ev e).1.pool.ctor = s.pool.ctor ∧ (s.ev e).1.pool.dtor = s.pool.dtor) := by
  intro s
  have hi : SInv s := pool_run_inv _ ops pinit_inv
  refine ⟨hi.pi.balance, ?_, ?_, ?_, ?_⟩
  · intro hst
    have := hi.pi.balance
    simp only [PoolSys.inUse, nFree, hst, List.map_nil, List.append_nil, List.countP_nil] at this
    omega
  · intro b hb
    cases e with
    | abeg h v =>
        have hp : (s.ev (.abeg h v)).1.pool = s.pool.allocA.1.ctorEnter := by
          simp only [PoolSys.ev] at hb ⊢
          by_cases hsk : s.skip > 0
          · simp [hsk] at hb
          · simp only [hsk, if_false] at hb ⊢
            cases hslot : s.slots[h]? with
            | none => simp [hslot] at hb
            | some o =>
                cases o with
                | some x => simp [hslot] at hb
                | none =>
                    simp only [hslot] at hb ⊢
                    by_cases hres : s.reserved h = true
                    · simp [hres] at hb
                    · simp [hres]
        rw [hp]
        have h1 : s.pool.allocA.1.ctor = s.pool.ctor := by simp only [Pool.allocA]; split <;> rfl
        have h2 : s.pool.allocA.1.dtor = s.pool.dtor := by simp only [Pool.allocA]; split <;> rfl
        exact ⟨by simp [Pool.ctorEnter, h1], by simp [Pool.ctorEnter, h2]⟩
    | aend => simp only [PoolSys.ev] at hb; (repeat' split at hb) <;> simp at hb
    | fbeg h => simp only [PoolSys.ev] at hb; (repeat' split at hb) <;> simp at hb
    | fend => simp only [PoolSys.ev] at hb; (repeat' split at hb) <;> simp at hb
    | athr => simp only [PoolSys.ev] at hb; (repeat' split at hb) <;> simp at hb
  · intro h b w he hsk hslot
    subst he
    simp [PoolSys.ev, hsk, hslot, Pool.dtorEnter]
  · rintro (he | he) <;> subst he <;> simp only [PoolSys.ev] <;> (repeat' split) <;>
      simp [Pool.allocB, Pool.freeB] <;> (repeat' split) <;> exact ⟨rfl, rfl⟩

theorem runEvs_leaked (s : PoolSys) (es : List PEv) : (s.runEvs es).pool.leaked = s.pool.leaked := by
  induction es generalizing s with
  | nil => rfl
  | cons e es ih => simp only [PoolSys.runEvs]; rw [ih, ev_leaked]

/-- with the contract "free every object before the pool dies" (no `drop`) nothing is ever abandoned -/
theorem C08_pool_no_leak (ops : List PoolOp) (hnd : ∀ op ∈ ops, ∀ k, op ≠ .drop k) :
    (PoolSys.init.run ops).pool.leaked = 0 := by
  have key : ∀ (s0 : PoolSys) (ops : List PoolOp), (∀ op ∈ ops, ∀ k, op ≠ .drop k) → s0.pool.leaked = 0 →
      (s0.run ops).pool.leaked = 0 := by
    intro s0 ops
    induction ops generalizing s0 with
    | nil => intro _ h0; exact h0
    | cons op ops ih =>
        intro hnd h0
        apply ih _ (fun o ho => hnd o (List.mem_cons_of_mem _ ho))
        have hfs : ∀ (hs : List Nat) (s1 : PoolSys), s1.pool.leaked = 0 → (s1.freeSlots hs).pool.leaked = 0 := by
          intro hs
          induction hs with
          | nil => intro s1 h1; exact h1
          | cons a hs ih2 =>
              intro s1 h1
              unfold PoolSys.freeSlots
              split
              · rename_i b0 v0 _
                apply ih2
                have : (s1.pool.free b0).leaked = s1.pool.leaked := by
                  simp only [Pool.free, Pool.freeB, Pool.dtorEnter]
                  by_cases hk : s1.pool.freeNum < s1.pool.keep <;> simp [hk]
                simp only; rw [this]; exact h1
              · exact ih2 s1 h1
        cases op with
        | evs l => simp only [PoolSys.step]; rw [runEvs_leaked]; exact h0
        | renew k =>
            simp only [PoolSys.step]; split
            · exact h0
            · simp only [Pool.renew]; exact hfs _ s0 h0
        | drop k => exact absurd rfl (hnd _ List.mem_cons_self k)
        | athrow h v =>
            simp only [PoolSys.step]; split
            · exact h0
            · split
              · simp only [Pool.allocThrow, Pool.ctorThrow, Pool.ctorEnter, Pool.allocA]; split <;> exact h0
              · exact h0
  exact key _ ops hnd rfl

/-- **C08_pool_keep.** In every state the number of parked blocks equals `free_number_` and never
exceeds the retention limit. -/
theorem C08_pool_keep (ops : List PoolOp) :
    let s := PoolSys.init.run ops
    s.pool.freeNum = s.pool.parked.length ∧ s.pool.parked.length ≤ s.pool.keep := by
  intro s
  have hi : SInv s := pool_run_inv _ ops pinit_inv
  exact ⟨hi.pi.freeNum, hi.pi.keep⟩

/-- **C08_pool_stat.** The statistics `getStat()` reports are exact in every state:
`total_alloc_times` + allocs in progress = `total_free_times` + blocks in use (between calls:
`total_alloc_times − total_free_times` = number of live objects of the current pool);
`peak_alloc_number` (+ allocs in progress) is at least the number of blocks in use and
`peak_free_number` at least the number of parked blocks. -/
theorem C08_pool_stat (ops : List PoolOp) :
    let s := PoolSys.init.run ops
    s.pool.stat.allocT + nAlloc s = s.pool.stat.freeT + s.inUse.length ∧
    (s.stack = [] → s.pool.stat.allocT = s.pool.stat.freeT + s.liveBlocks.length ∧ s.liveBlocks.length ≤ s.pool.stat.peakA) ∧
    s.inUse.length ≤ s.pool.stat.peakA + nAlloc s ∧ s.pool.parked.length ≤ s.pool.stat.peakF := by
  intro s
  have hi : SInv s := pool_run_inv _ ops pinit_inv
  refine ⟨hi.pi.statBal, ?_, hi.pi.statPeakA, hi.pi.statPeakF⟩
  intro hst
  have h1 := hi.pi.statBal; have h2 := hi.pi.statPeakA
  simp only [PoolSys.inUse, nAlloc, hst, List.map_nil, List.append_nil, List.countP_nil] at h1 h2
  exact ⟨by omega, by omega⟩

/-! ## Fd -/

/-- **C08_fd_refcount.** After every history of construct / open / copy / move / assign (self-
assignment included) / swap / reset / close / destroy operations on the handle slots: the
`ref_count` of every detail record that has not been deleted equals the number of handles pointing
to it and is at least 1 (so `TBOX_ASSERT(ref_count > 0)` never fires and a record without handles
has been deleted), and no handle points to a deleted record. -/
theorem C08_fd_refcount (ops : List FdOp) (hok : ∀ op ∈ ops, op.ok = true) :
    let s := FdSys.init.run ops
    (∀ (d : Nat) (det : Detail), s.details[d]? = some det → det.freed = false →
        det.ref = (s.handles.count (some d) : Int) ∧ 1 ≤ det.ref) ∧
    (∀ (h d : Nat), s.handles[h]? = some (some d) → ∃ det, s.details[d]? = some det ∧ det.freed = false) := by
  intro s
  have hi := FdSys.run_inv _ ops FdSys.finit_inv hok
  exact ⟨hi.1.refOk, hi.1.noDangle⟩

/-- **C08_fd_close_once.** After every such history: no descriptor appears twice in the log of
closes performed (close function or `::close`); a descriptor some handle still reports through
`get()` has not been closed ("never earlier"); and every descriptor that was opened is either
closed or still reported by some handle ("exactly once: on explicit close or when the last copy
goes away" — there is no third state in which it leaks). -/
theorem C08_fd_close_once (ops : List FdOp) (hok : ∀ op ∈ ops, op.ok = true) :
    let s := FdSys.init.run ops
    (s.closeLog.map (·.1)).Nodup ∧
    (∀ h, 0 ≤ s.get h → (s.get h).toNat ∉ s.closeLog.map (·.1)) ∧
    (∀ r, r < s.nextRes → (r ∈ s.closeLog.map (·.1) ↔ ¬ ∃ h, s.get h = (r : Int))) := by
  intro s
  have hi := FdSys.run_inv _ ops FdSys.finit_inv hok
  obtain ⟨hr, hc⟩ := hi
  have held : ∀ (h : Nat) (r : Int), 0 ≤ r → s.get h = r → r.toNat ∉ s.closeLog.map (·.1) := by
    intro h r h0 hg
    obtain ⟨d, det, hh, hd, hfd⟩ := (FdSys.get_eq s h r h0).1 hg
    obtain ⟨det', hd', hf⟩ := hr.noDangle h d hh
    rw [hd] at hd'; cases hd'
    rw [← hfd]; exact (hc.fdOpen d det hd hf (by omega)).2
  refine ⟨hc.logNodup, fun h h0 => held h _ h0 rfl, ?_⟩
  intro r hr'
  constructor
  · intro hm ⟨h, hg⟩
    have := held h r (by omega) hg
    rw [Int.toNat_natCast] at this
    exact this hm
  · intro hne
    apply Classical.byContradiction
    intro hnm
    obtain ⟨d, det, hd, hf, hfd⟩ := hc.noLeak r hr' hnm
    have hcount : det.ref = (s.handles.count (some d) : Int) ∧ 1 ≤ det.ref := hr.refOk d det hd hf
    have hpos : 0 < s.handles.count (some d) := by
      have h1 := hcount.1; have h2 := hcount.2
      omega
    obtain ⟨h, hh⟩ := List.mem_iff_getElem?.1 (List.count_pos_iff.1 hpos)
    exact hne ⟨h, (FdSys.get_eq s h r (by omega)).2 ⟨d, det, hh, hd, hfd⟩⟩

/-! ## LifetimeTag / Watcher -/

/-- **C08_lt_no_use_after_free.** For every history of tag construction / copy / move / assignment /
destruction and watcher construction / copy / move / assignment / swap / reset / destruction — in
any order, tags before watchers or watchers before tags — no deleted `Detail` record is ever read,
written or deleted again (`bad` is raised by any such access).  In particular the read of
`d_->watcher_counter` in `~LifetimeTag()` that gcc flags with -Wuse-after-free (lifetime_tag.hpp:128)
never touches a record a watcher has deleted: the warning is a false positive. -/
theorem C08_lt_no_use_after_free (ops : List LtOp) : (LtSys.init.run ops).bad = false :=
  (LtSys.run_inv _ ops LtSys.linit_inv).2

/-- **C08_lt_alive.** After every history a watcher reports alive exactly when the tag object whose
record it watches still exists (a record belongs to the one tag object that created it, for life:
copies and moves of tags create their own records and tag assignment changes nothing). -/
theorem C08_lt_alive (ops : List LtOp) (w : Nat) :
    let s := LtSys.init.run ops
    s.isAlive w = true ↔ ∃ (d i : Nat), s.ws[w]? = some (some d) ∧ s.tags[i]? = some (some d) := by
  intro s
  have hi : LI s.details s.tags s.ws := (LtSys.run_inv _ ops LtSys.linit_inv).1
  unfold LtSys.isAlive
  cases hw : s.wOf w with
  | none =>
      simp only []
      constructor
      · intro h; cases h
      · rintro ⟨d, i, h1, _⟩
        rw [LtSys.wOf_eq s w _ h1] at hw; cases hw
  | some d =>
      have hws := LtSys.ws_some s w d hw
      obtain ⟨det, hd, hf⟩ := hi.wLive w d hws
      have hr := hi.refOk d det hd hf
      simp only [hd, hf, Bool.not_false, Bool.and_true]
      rw [hr.2.1]
      constructor
      · rintro ⟨i, hi'⟩; exact ⟨d, i, hws, hi'⟩
      · rintro ⟨d', i, h1, h2⟩
        rw [hws] at h1; cases h1; exact ⟨i, h2⟩

/-- **C08_lt_free_once.** After every history a `Detail` record has been deleted exactly when both
its tag and its last watcher are gone — never earlier (it exists while either remains) and never
left behind — `watcher_counter` of a record equals the number of watchers on it, and a tag slot's
record is its own (no two tags share a record).  Together with `C08_lt_no_use_after_free`
(a second delete would touch a deleted record) each record is deleted exactly once. -/
theorem C08_lt_free_once (ops : List LtOp) :
    let s := LtSys.init.run ops
    (∀ (d : Nat) (det : LDetail), s.details[d]? = some det →
      (det.freed = true ↔ (¬ ∃ i : Nat, s.tags[i]? = some (some d)) ∧ s.ws.count (some d) = 0)) ∧
    (∀ (d : Nat) (det : LDetail), s.details[d]? = some det → det.freed = false →
      det.cnt = (s.ws.count (some d) : Int)) ∧
    (∀ (i j d : Nat), s.tags[i]? = some (some d) → s.tags[j]? = some (some d) → i = j) := by
  intro s
  have hi : LI s.details s.tags s.ws := (LtSys.run_inv _ ops LtSys.linit_inv).1
  refine ⟨?_, fun d det hd hf => (hi.refOk d det hd hf).1, hi.tUniq⟩
  intro d det hd
  constructor
  · intro hfr
    constructor
    · rintro ⟨i, hi'⟩
      obtain ⟨x, hx, hfx⟩ := hi.tLive i d hi'
      rw [hd] at hx; cases hx; rw [hfr] at hfx; cases hfx
    · apply List.count_eq_zero.2
      intro hm
      obtain ⟨w, hw⟩ := List.mem_iff_getElem?.1 hm
      obtain ⟨x, hx, hfx⟩ := hi.wLive w d hw
      rw [hd] at hx; cases hx; rw [hfr] at hfx; cases hfx
  · rintro ⟨hnt, hc⟩
    cases hfr : det.freed with
    | true => rfl
    | false =>
        have hr := hi.refOk d det hd hfr
        cases ha : det.alive with
        | true => exact absurd (hr.2.1.1 ha) hnt
        | false => have := hr.2.2 ha; have h1 := hr.1; omega


/-! ## cabinet::Token (modules/base/cabinet_token.h)

`Cab.alloc` writes the token it returns as the pair `⟨id, pos⟩`; in the code that pair goes through
the class `Token`.  The theorems below are about the class as declared: two full `size_t` members. -/

/-- **C08_tok_roundtrip.** A token gives back exactly the id and the position it was built from, for
EVERY pair of `size_t` values (not only small positions): nothing is truncated, so `Token(id, pos)`
is the pair `⟨id, pos⟩` the cabinet model uses, two tokens built from different pairs differ, and a
token is null exactly when its id is 0. -/
theorem C08_tok_roundtrip (id pos : Nat) (hi : id ≤ sizeMax) (hp : pos ≤ sizeMax) :
    (Token.ctor id pos).id = id ∧ (Token.ctor id pos).pos = pos ∧ Token.ctor id pos = ⟨id, pos⟩ ∧
    ((Token.ctor id pos).isNull = true ↔ id = 0) ∧
    (∀ id' pos', id' ≤ sizeMax → pos' ≤ sizeMax → Token.ctor id pos = Token.ctor id' pos' → id = id' ∧ pos = pos') := by
  have h := Token.ctor_roundtrip id pos hi hp
  refine ⟨by rw [h], by rw [h], h, by rw [h]; simp [Token.isNull], ?_⟩
  intro id' pos' hi' hp' e
  rw [h, Token.ctor_roundtrip id' pos' hi' hp'] at e
  cases e; exact ⟨rfl, rfl⟩

/-- **C08_tok_null.** `Token()` and every token after `reset()` are the null token `(0, 0)`;
`isNull()` is `id == 0` and `operator bool` is its negation. -/
theorem C08_tok_null (t : Token) :
    Token.dflt.isNull = true ∧ t.reset = Token.dflt ∧ (t.isNull = true ↔ t.id = 0) ∧ t.toBool = !t.isNull := by
  refine ⟨rfl, rfl, by simp [Token.isNull], ?_⟩
  simp [Token.toBool, Token.isNull, bne]

/-- **C08_tok_order.** `==` is equality of both members; `<` is a strict total order (lexicographic
on id, then position) compatible with it — what `std::set` / `std::map` keyed by tokens need — and the
four derived operators are the usual ones. -/
theorem C08_tok_order (a b c : Token) :
    (Token.equal a b = true ↔ a = b) ∧ Token.ne a b = !Token.equal a b ∧
    Token.less a a = false ∧ (Token.less a b = true → Token.less b c = true → Token.less a c = true) ∧
    (Token.less a b = true → Token.less b a = false) ∧
    (Token.less a b = true ∨ a = b ∨ Token.less b a = true) ∧
    Token.le a b = !Token.less b a ∧ Token.gt a b = Token.less b a ∧ Token.ge a b = !Token.less a b := by
  have hlt := Token.less_iff
  have key : ∀ x y : Token, Token.less x y = false ↔ ¬ (x.id < y.id ∨ (x.id = y.id ∧ x.pos < y.pos)) := by
    intro x y
    rw [← hlt x y]; simp
  have tri : Token.less a b = true ∨ a = b ∨ Token.less b a = true := by
    rw [hlt, hlt]
    by_cases e : a = b
    · exact Or.inr (Or.inl e)
    · have : a.id ≠ b.id ∨ a.pos ≠ b.pos := by
        apply Classical.byContradiction; intro h
        have h' : a.id = b.id ∧ a.pos = b.pos := by omega
        exact e (Cab.token_ext _ _ h'.1 h'.2)
      omega
  refine ⟨Token.equal_iff a b, rfl, ?_, ?_, ?_, tri, ?_, ?_, rfl⟩
  · rw [key]; omega
  · rw [hlt, hlt, hlt]; omega
  · rw [hlt, key]; omega
  · -- le = less ∨ equal = ¬ (b < a)
    cases h1 : Token.less b a with
    | true =>
        have := (hlt b a).1 h1
        have h2 : Token.less a b = false := by rw [key]; omega
        have h3 : Token.equal a b = false := by
          cases h : Token.equal a b with
          | false => rfl
          | true => have := (Token.equal_iff a b).1 h; subst this; omega
        simp [Token.le, h2, h3]
    | false =>
        have h1' := (key b a).1 h1
        cases h2 : Token.less a b with
        | true => simp [Token.le, h2]
        | false =>
            have h2' := (key a b).1 h2
            have : a = b := Cab.token_ext _ _ (by omega) (by omega)
            simp [Token.le, h2, (Token.equal_iff a b).2 this]
  · cases h1 : Token.less b a with
    | true =>
        have := (hlt b a).1 h1
        have h2 : Token.less a b = false := by rw [key]; omega
        have h3 : Token.equal a b = false := by
          cases h : Token.equal a b with
          | false => rfl
          | true => have := (Token.equal_iff a b).1 h; subst this; omega
        simp [Token.gt, h2, h3]
    | false =>
        have h1' := (key b a).1 h1
        cases h2 : Token.less a b with
        | true => simp [Token.gt, h2]
        | false =>
            have h2' := (key a b).1 h2
            have : a = b := Cab.token_ext _ _ (by omega) (by omega)
            simp [Token.gt, (Token.equal_iff a b).2 this]

/-- **C08_tok_hash.** `hash()` is `(id·256 + pos mod 256) mod 2^64`: equal tokens hash equally (the
contract of `std::hash` for `unordered_map` keys), and for ids below 2^56 the hash determines the id
and the low byte of the position. -/
theorem C08_tok_hash (a b : Token) :
    Token.hash a = (a.id * 256 + a.pos % 256) % Token.word ∧ Token.hash a < Token.word ∧
    (Token.equal a b = true → Token.hash a = Token.hash b) ∧
    (a.id < 2 ^ 56 → b.id < 2 ^ 56 → Token.hash a = Token.hash b → a.id = b.id ∧ a.pos % 256 = b.pos % 256) := by
  refine ⟨Token.hash_value a, ?_, ?_, ?_⟩
  · rw [Token.hash_value]; exact Nat.mod_lt _ (by decide)
  · intro h; rw [(Token.equal_iff a b).1 h]
  · have bound : ∀ x y : Nat, x < 72057594037927936 → y < 256 → x * 256 + y < Token.word := by
      intro x y hx hy; unfold Token.word; omega
    intro ha hb h
    rw [Token.hash_value, Token.hash_value] at h
    have h1 : a.pos % 256 < 256 := Nat.mod_lt _ (by decide)
    have h2 : b.pos % 256 < 256 := Nat.mod_lt _ (by decide)
    have e56 : (2 : Nat) ^ 56 = 72057594037927936 := by rfl
    rw [e56] at ha hb
    have ha' := bound _ _ ha h1
    have hb' := bound _ _ hb h2
    rw [Nat.mod_eq_of_lt ha', Nat.mod_eq_of_lt hb'] at h
    omega

/-! ## many live entries at once (the `bulk` ops of the harness), for every n -/

/-- **C08_cab_bulk_alloc.** `n` allocations in a row into a cabinet without free cells (a new one,
one after `clear()`, or one that never freed) whose id counter stays below 2^64: for EVERY `n` and every
list of objects the i-th token returned is `(last_id_+1+i, cells+i)` — on an empty cabinet ids `1..n` at
positions `0..n−1` — it is the value `Token(id, pos)` holds as long as the cell index fits `size_t`;
after all `n` allocations every one of them resolves to its own object; ids strictly increase (tokens
pairwise distinct); `size()` grew by `n`; and every token that pointed into the old cells resolves as before. -/
theorem C08_cab_bulk_alloc (c : Cab) (objs : List Nat) (hf : c.firstFree = sizeMax)
    (hw : c.lastId + objs.length ≤ sizeMax) :
    let r := c.allocN objs
    r.2.length = objs.length ∧
    (∀ (i : Nat) (h : i < objs.length),
        r.2[i]? = some ⟨c.lastId + 1 + i, c.cells.length + i⟩ ∧
        r.1.lookup ⟨c.lastId + 1 + i, c.cells.length + i⟩ = some objs[i] ∧
        (c.cells.length + i ≤ sizeMax →
          Token.ctor (c.lastId + 1 + i) (c.cells.length + i) = ⟨c.lastId + 1 + i, c.cells.length + i⟩)) ∧
    r.2.Pairwise (fun a b => a.id < b.id) ∧
    r.1.size = c.size + objs.length ∧ r.1.lastId = c.lastId + objs.length ∧
    r.1.firstFree = sizeMax ∧ r.1.wrapped = c.wrapped ∧
    (∀ t : Token, t.pos < c.cells.length → r.1.lookup t = c.lookup t) := by
  intro r
  have hr : r = _ := allocN_closed c objs hf hw
  rw [hr]
  refine ⟨pushedToks_length _ _ _, ?_, pushedToks_pairwise _ _ _, rfl, rfl, hf, rfl, ?_⟩
  · intro i h
    refine ⟨pushedToks_get _ _ _ i h, ?_, fun hp => Token.ctor_roundtrip _ _ (by omega) hp⟩
    rw [lookup_some]
    refine ⟨by simp only; omega, ?_⟩
    simp only
    rw [List.getElem?_append_right (by omega)]
    have : c.cells.length + i - c.cells.length = i := by omega
    rw [this, pushedCells_get _ _ i h]
  · intro t ht
    unfold Cab.lookup
    simp only
    rw [List.getElem?_append_left ht]

/-- **C08_cab_bulk_free.** … and after freeing an ARBITRARY subset of those `n` entries, in any order
(`F` = the indices freed, without repetition): every `free` returns the entry's own object; the freed
tokens resolve to nothing; every other one of the `n` still resolves to its own object; `size()` is
`old size + n − |F|` (`count_` cannot underflow); tokens into the old cells are unaffected. -/
theorem C08_cab_bulk_free (c : Cab) (objs : List Nat) (F : List Nat) (hf : c.firstFree = sizeMax)
    (hw : c.lastId + objs.length ≤ sizeMax) (hnd : F.Nodup) (hb : ∀ i ∈ F, i < objs.length) :
    let r := c.allocN objs
    let tok : Nat → Token := fun i => ⟨c.lastId + 1 + i, c.cells.length + i⟩
    let fr := r.1.freeN (F.map tok)
    (∀ (i : Nat) (h : i < objs.length), fr.1.lookup (tok i) = if i ∈ F then none else some objs[i]) ∧
    (∀ (j : Nat) (h : j < F.length), fr.2[j]? = some (objs[F[j]]'(hb _ (List.getElem_mem h)))) ∧
    fr.1.size + F.length = c.size + objs.length ∧
    (∀ t : Token, t.pos < c.cells.length → fr.1.lookup t = c.lookup t) := by
  intro r tok fr
  obtain ⟨_, hget, _, hsz, _, _, _, hold⟩ := C08_cab_bulk_alloc c objs hf hw
  have tok_inj : ∀ i j, tok i = tok j → i = j := by
    intro i j e
    have := congrArg Token.id e
    simp only [tok] at this; omega
  have mem_iff : ∀ i, tok i ∈ F.map tok ↔ i ∈ F := by
    intro i
    simp only [List.mem_map]
    constructor
    · rintro ⟨j, hj, e⟩; rw [← tok_inj _ _ e]; exact hj
    · intro h; exact ⟨i, h, rfl⟩
  have hlen := nodup_bound F objs.length hnd hb
  refine ⟨?_, ?_, ?_, ?_⟩
  · intro i h
    show (r.1.freeN (F.map tok)).1.lookup (tok i) = _
    rw [lookup_freeN, (hget i h).2.1]
    simp only [mem_iff]
  · intro j h
    have hj : (F.map tok)[j]? = some (tok F[j]) := by simp [h]
    show (r.1.freeN (F.map tok)).2[j]? = _
    rw [freeN_ret _ _ j _ hj]
    have hnot : tok F[j] ∉ (F.map tok).take j := by
      have hdrop : F.drop j = F[j] :: F.drop (j + 1) := List.drop_eq_getElem_cons h
      have hnd' : (F.take j ++ F.drop j).Nodup := by rw [List.take_append_drop]; exact hnd
      have hdisj := (List.nodup_append.1 hnd').2.2
      have hFj : F[j] ∉ F.take j := fun hm => hdisj _ hm _ (by rw [hdrop]; exact List.mem_cons_self) rfl
      rw [← List.map_take]
      intro hm
      obtain ⟨k, hk, e⟩ := List.mem_map.1 hm
      rw [tok_inj _ _ e] at hk
      exact hFj hk
    simp only [hnot, if_false]
    unfold Cab.at'
    rw [(hget _ (hb _ (List.getElem_mem h))).2.1]; rfl
  · show (r.1.freeN (F.map tok)).1.count + F.length = c.count + objs.length
    have hc : r.1.count = c.count + objs.length := hsz
    rw [count_freeN r.1 (F.map tok) ?_ ?_ (by rw [hc, List.length_map]; omega), hc, List.length_map]
    · omega
    · exact List.Pairwise.map tok (fun x y hxy e => hxy (tok_inj x y e)) hnd
    · intro t ht
      obtain ⟨i, hi, e⟩ := List.mem_map.1 ht
      rw [← e, (hget i (hb i hi)).2.1]; rfl
  · intro t ht
    show (r.1.freeN (F.map tok)).1.lookup t = _
    rw [lookup_freeN]
    have : t ∉ F.map tok := by
      intro hm
      obtain ⟨i, _, e⟩ := List.mem_map.1 hm
      have := congrArg Token.pos e
      simp only [tok] at this; omega
    simp only [this, if_false]
    exact hold t ht

/-- **C08_cab_array_refines.** The array implementation `CabA` the driver executes (and with it the
answers to the `bulk` ops: 70 000 and more live entries) is the list model: every member function,
every action list, and the bulk runs commute with `toCab`; returned tokens, pointers and lookups are
equal. -/
theorem C08_cab_array_refines (a : CabA) (xs : List CbAct) (x : CbAct) (t : Token) (os : List Nat)
    (ts : List Token) (accT : Array Token) (accN : Array Nat) (c : Cab) :
    (a.runActs xs).toCab = a.toCab.runActs xs ∧
    ((a.act x).1.toCab = (a.toCab.act x).1 ∧ (a.act x).2 = (a.toCab.act x).2) ∧
    ((a.free t).1.toCab = (a.toCab.free t).1 ∧ (a.free t).2 = (a.toCab.free t).2) ∧
    ((a.update t 0).2 = (a.toCab.update t 0).2) ∧
    a.lookup t = a.toCab.lookup t ∧ a.at' t = a.toCab.at' t ∧ a.size = a.toCab.size ∧
    ((a.allocN os accT).1.toCab = (a.toCab.allocN os).1 ∧ (a.allocN os accT).2 = accT ++ (a.toCab.allocN os).2.toArray) ∧
    ((a.freeN ts accN).1.toCab = (a.toCab.freeN ts).1 ∧ (a.freeN ts accN).2 = accN ++ (a.toCab.freeN ts).2.toArray) ∧
    a.atN ts = a.toCab.atN ts ∧ (CabA.ofCab c).toCab = c :=
  ⟨CabA.runActs_eq a xs, CabA.act_eq a x, CabA.free_eq a t, (CabA.update_eq a t 0).2, CabA.lookup_eq a t,
   CabA.at_eq a t, rfl, CabA.allocN_eq a os accT, CabA.freeN_eq a ts accN, CabA.atN_eq a ts, CabA.toCab_ofCab c⟩

/-- **C08_cab_jump.** The harness reaches ids near 2^64 by writing `last_id_` forward (op `cab jump`);
the state it produces is consistent (every invariant behind the cabinet theorems holds: `run_inv` /
`run_refines` start from any consistent state), lookups and `size()` are untouched, and a history
continued from there that ends unwrapped keeps the invariant. -/
theorem C08_cab_jump (ops post : List CabOp) (v : Nat) (t : Token)
    (hw : (((({} : Cab).run ops).jump v).run post).wrapped = false)
    (h1 : (({} : Cab).run ops).lastId ≤ v) (h2 : v ≤ sizeMax) :
    let c := (({} : Cab).run ops).jump v
    Inv c ∧ c.lookup t = (({} : Cab).run ops).lookup t ∧ c.size = (({} : Cab).run ops).size ∧ Inv (c.run post) := by
  intro c
  have hw1 : c.wrapped = false := by
    cases hq : c.wrapped with
    | false => rfl
    | true => have := run_wrapped_mono c post hq; rw [hw] at this; cases this
  have hi : Inv c := jump_inv _ v (run_inv {} ops init_inv hw1).1 h1 h2
  exact ⟨hi, rfl, rfl, (run_inv c post hi hw).1⟩

/-- **C08_pool_bulk.** Any number of objects alive at once, for every `n` and every retention limit: `n`
allocations from a new pool hand out `n` pairwise different blocks (one constructor each); freeing them
all (in allocation order) parks exactly the first `min n keep` — last parked first in the chain — and
gives the others back, one destructor each; the statistics read `n / n / n / min n keep`; and the next
`m ≤ min n keep` allocations are served from the parked chain only, head first, again pairwise different. -/
theorem C08_pool_bulk (q : Pool) (keep n m : Nat) (hm : m ≤ min n keep) :
    let p0 := q.renew keep
    let r := p0.allocMany n
    let p2 := r.1.freeMany r.2
    let r3 := p2.allocMany m
    r.2 = List.range' p0.nextBlk n ∧ r.2.Nodup ∧ r.1.ctor = p0.ctor + n ∧ r.1.dtor = p0.dtor ∧
    r.1.stat.allocT = n ∧ r.1.stat.peakA = n ∧
    p2.parked = (r.2.take keep).reverse ∧ p2.released = (r.2.drop keep).reverse ++ p0.released ∧
    p2.freeNum = min n keep ∧ p2.parked.length = min n keep ∧
    p2.ctor = p0.ctor + n ∧ p2.dtor = p0.dtor + n ∧
    p2.stat = { allocT := n, freeT := n, peakA := n, peakF := min n keep } ∧
    r3.2 = p2.parked.take m ∧ r3.2.Nodup ∧ (∀ b ∈ r3.2, b ∈ r.2 ∧ b ∉ p2.released.take (n - min n keep)) ∧
    r3.1.nextBlk = p0.nextBlk + n := by
  intro p0 r p2 r3
  exact Pool.bulk_aux p0 keep n m hm rfl rfl rfl rfl r rfl p2 rfl r3 rfl

/-- **C08_lt_dead_forever.** Once the tag object of a record has been destroyed, every watcher on that
record reports "not alive" after every further history — the watchers that were there, and every copy,
move, assignment or swap of them made AFTER the tag died; no later tag (a new `Detail` each) can revive
it.  (A real `new Detail` may reuse the address of a record only after it was deleted, i.e. when no
watcher points to it any more: `C08_lt_free_once`.) -/
theorem C08_lt_dead_forever (pre post : List LtOp) (d w : Nat) :
    let s1 := LtSys.init.run pre
    let s2 := s1.run post
    s1.Dead d → s2.Dead d ∧ (s2.ws[w]? = some (some d) → s2.isAlive w = false) := by
  intro s1 s2 h
  have h2 : s2.Dead d := LtSys.run_dead s1 post d h
  refine ⟨h2, ?_⟩
  intro hw
  obtain ⟨det, hd, ha⟩ := h2
  unfold LtSys.isAlive
  rw [LtSys.wOf_eq s2 w _ hw]
  simp [hd, ha]

/-! ### non-vacuity -/

example : (({} : Cab).run [.act (.alloc 1), .act (.alloc 2), .act (.free ⟨1, 0⟩), .act .clear, .act (.alloc 3)]).wrapped = false := by
  decide

example :
    let c := ({} : Cab).run [.act (.alloc 1), .act (.alloc 2), .act (.free ⟨1, 0⟩), .act (.alloc 3), .act .clear, .act (.alloc 4)]
    c.lookup ⟨1, 0⟩ = none ∧ c.lookup ⟨3, 0⟩ = none ∧ c.lookup ⟨4, 0⟩ = some 4 ∧ c.size = 1 := by decide

example :
    -- keep 1; park a block; then an object whose constructor allocates a child from the same pool
    -- and whose destructor frees that child: the child gets a different block than its parent
    let s := PoolSys.init.run [.renew 1, .evs [.abeg 0 7, .aend, .fbeg 0, .fend],
                               .evs [.abeg 1 8, .abeg 2 9, .aend, .aend], .evs [.fbeg 1, .fbeg 2, .fend, .fend]]
    let m := PoolSys.init.run [.renew 1, .evs [.abeg 0 7, .aend, .fbeg 0, .fend], .evs [.abeg 1 8, .abeg 2 9]]
    m.stack = [.allocF 2 9 1, .allocF 1 8 0] ∧ m.pool.parked = [] ∧
    s.stack = [] ∧ s.pool.parked = [1] ∧ s.pool.released = [0] ∧ s.pool.ctor = 3 ∧ s.pool.dtor = 3 := by decide

example :
    let c := ({} : Cab).run [.act (.alloc 1), .act (.alloc 2), .act (.alloc 3), .act (.alloc 4), .act (.free ⟨2, 1⟩)]
    -- the first callback removes a later entry and itself, then allocates twice (one reuse, one append)
    let r := c.foreach (fun k => if k = 0 then [.free ⟨3, 2⟩, .free ⟨1, 0⟩, .alloc 8, .alloc 9] else [])
    r.2 = [(0, 1), (2, 9), (3, 4)] ∧ r.1.wrapped = false ∧ r.1.size = 3 := by decide

example : ∀ op ∈ [FdOp.opn 0 true, .copyAssign 1 0, .copyAssign 0 0, .moveCtor 2 1, .close 2, .reset 0, .fresh 2],
    op.ok = true := by decide

example :
    let s := FdSys.init.run [.opn 0 true, .copyAssign 1 0, .copyAssign 0 0, .moveCtor 2 1, .reset 0]
    s.get 2 = 0 ∧ s.closeLog = [] ∧ (s.step (.fresh 2)).closeLog = [(0, true)] := by decide

example :
    let s := LtSys.init.run [.tnew 0, .wtag 0 0, .wcopyCtor 1 0, .wcopyCtor 2 3, .tdel 0, .wreset 0]
    s.isAlive 1 = false ∧ s.isNull 1 = false ∧ s.isNull 2 = true ∧
    s.details = [{ alive := false, cnt := 1, freed := false }] ∧
    (s.step (.wnew 1)).details = [{ alive := false, cnt := 0, freed := true }] := by decide

-- tokens: values beyond 16 / 32 / 48 bits survive; the order and the hash on concrete tokens
example : 281474976710657 ≤ sizeMax ∧ 65537 ≤ sizeMax ∧ Token.ctor 281474976710657 65537 = ⟨281474976710657, 65537⟩ ∧
    Token.ctor sizeMax sizeMax = ⟨sizeMax, sizeMax⟩ ∧ (Token.ctor 0 7).isNull = true ∧
    Token.less ⟨1, 65536⟩ ⟨1, 65537⟩ = true ∧ Token.less ⟨2, 0⟩ ⟨1, 65537⟩ = false ∧
    Token.hash ⟨3, 258⟩ = 770 ∧ Token.hash ⟨sizeMax, 255⟩ = sizeMax := by decide

-- bulk: hypotheses of C08_cab_bulk_alloc / C08_cab_bulk_free on a cabinet with history, and what they give
example :
    let c := ({} : Cab).run [.act (.alloc 1), .act (.alloc 2), .act .clear]
    c.firstFree = sizeMax ∧ c.lastId + [5, 6, 7].length ≤ sizeMax ∧ [2, 0].Nodup ∧ (∀ i ∈ [2, 0], i < [5, 6, 7].length) ∧
    (c.allocN [5, 6, 7]).2 = [⟨3, 0⟩, ⟨4, 1⟩, ⟨5, 2⟩] ∧
    (((c.allocN [5, 6, 7]).1.freeN [⟨5, 2⟩, ⟨3, 0⟩]).2 = [7, 5]) ∧
    ((c.allocN [5, 6, 7]).1.freeN [⟨5, 2⟩, ⟨3, 0⟩]).1.atN [⟨3, 0⟩, ⟨4, 1⟩, ⟨5, 2⟩] = [0, 6, 0] := by decide

-- the array cabinet on a history with reuse
example :
    let a := (({} : CabA).allocN [5, 6, 7] #[]).1
    ((a.free ⟨2, 1⟩).1.alloc 9).2 = some ⟨4, 1⟩ ∧ ((a.free ⟨2, 1⟩).1.alloc 9).1.toCab.cells = [⟨1, 5⟩, ⟨4, 9⟩, ⟨3, 7⟩] := by decide

-- pool: 5 objects alive at once with retention limit 2, then 2 served from the chain
example :
    let p0 := ({} : Pool).renew 2
    (2 : Nat) ≤ min 5 2 ∧ (p0.allocMany 5).2 = [0, 1, 2, 3, 4] ∧
    ((p0.allocMany 5).1.freeMany [0, 1, 2, 3, 4]).parked = [1, 0] ∧
    ((p0.allocMany 5).1.freeMany [0, 1, 2, 3, 4]).released = [4, 3, 2] ∧
    (((p0.allocMany 5).1.freeMany [0, 1, 2, 3, 4]).allocMany 2).2 = [1, 0] := by decide

-- a watcher copied after its tag died, then a new tag in the same slot: the copy stays dead
example :
    let s1 := LtSys.init.run [.tnew 0, .wtag 0 0, .tdel 0]
    let s2 := s1.run [.wcopyCtor 1 0, .tnew 0, .wcopyAssign 2 1, .wreset 0]
    s1.Dead 0 ∧ s2.ws[2]? = some (some 0) ∧ s2.isAlive 2 = false ∧ s2.isNull 2 = false := by
  refine ⟨⟨_, rfl, rfl⟩, by decide, by decide, by decide⟩

end Tbox.C08
