/-
C08 — PROPERTY THEOREMS (statements rely on Model.lean / Spec.lean only; helper lemmas live in
CabProofs / CabRefine / PoolProofs / FdProofs).

Property: "A cabinet token resolves to the object stored with it from allocation until it is
freed and to nothing afterwards, even after its slot has been reused by later allocations; live
entries always have distinct tokens and the reported size equals the number of live entries.
The object pool never hands out storage that is still in use and runs exactly one constructor and
one destructor per alloc/free pair.  A shared descriptor handle closes its descriptor exactly
once - on explicit close or when the last copy goes away - and never earlier."

The cabinet model follows the code after patches/C08-01 (clear() keeps the id counter);
`C08_cab_lookup_counterexample` is the failure of the code as it stood before.
-/
import TboxModel.C08.CabRefine
import TboxModel.C08.CabEach
import TboxModel.C08.CabSize
import TboxModel.C08.PoolProofs
import TboxModel.C08.FdProofs
import TboxModel.C08.LtProofs
namespace Tbox.C08
open Cab

/-! ## Cabinet

Hypothesis shared by the cabinet theorems: the history ends with `wrapped = false`, i.e. the 64-bit
id counter has not wrapped around (a ghost flag of the model set by `allocId`; decidable; it takes
2^64-1 allocations).  Histories consist of `alloc / update / free / clear` calls and of `foreach`
iterations whose callbacks make any such calls themselves. -/

theorem init_refines : Refines ({} : Cab) ({} : SpecCab) :=
  ⟨by intro t; simp [Cab.lookup, SpecCab.lookup], by intro t h; simp at h⟩

/-- **C08_cab_freelist.** After every history the `next_free` chain starting at `first_free_` is
acyclic (`l.Nodup`), ends at the sentinel, and consists of exactly the cells whose id is 0. -/
theorem C08_cab_freelist (ops : List CabOp) (hw : (({} : Cab).run ops).wrapped = false) :
    let c := ({} : Cab).run ops
    ∃ l, Chain c.cells c.firstFree l ∧ l.Nodup ∧
      ∀ p, p ∈ l ↔ ∃ cell, c.cells[p]? = some cell ∧ cell.id = 0 :=
  (run_inv {} ops init_inv hw).1.chain

/-- **C08_cab_alloc_never_throws.** `cells_.at(first_free_)` in `allocPos` never throws: after every
history `alloc` returns a token, whose id is one more than the id counter. -/
theorem C08_cab_alloc_never_throws (ops : List CabOp) (o : Nat)
    (hw : ((({} : Cab).run ops).alloc o).1.wrapped = false) :
    let c := ({} : Cab).run ops
    ∃ pos, (c.alloc o).2 = some ⟨c.lastId + 1, pos⟩ := by
  intro c
  have hw0 : c.wrapped = false := by
    cases hq : c.wrapped with
    | false => rfl
    | true => have := act_wrapped_mono c (.alloc o) hq; simp only [Cab.act] at this; rw [hw] at this; cases this
  have hi := (run_inv {} ops init_inv hw0).1
  have hne : c.lastId ≠ sizeMax := by
    intro e; have := alloc_wrapped c o; rw [hw, e] at this; simp at this
  have hm : c.lastId ≤ sizeMax := hi.idMax
  obtain ⟨_, pos, h, _⟩ := alloc_inv c o hi (by omega)
  exact ⟨pos, h⟩

/-- **C08_cab_lookup.** For every history and every token `t` — issued, stale or forged — `at(t)` is
exactly what the specification says: the object stored under `t` from its `alloc` (or last `update`)
until it is freed or cleared, and nothing from then on, for ever, whatever cells are reused.
(`SpecCab.dead` only grows and overrides `live`: see `C08_spec_dead_forever`.) -/
theorem C08_cab_lookup (ops : List CabOp) (t : Token) (hw : (({} : Cab).run ops).wrapped = false) :
    (({} : Cab).run ops).lookup t = (specRun {} {} ops).lookup t :=
  (run_refines {} {} ops init_inv init_refines hw).look t

/-- in the specification a retired token stays retired, whatever happens afterwards -/
theorem C08_spec_dead_forever (c : Cab) (s : SpecCab) (ops : List CabOp) (t : Token)
    (hd : s.dead t = true) : (specRun c s ops).dead t = true ∧ (specRun c s ops).lookup t = none := by
  have hact : ∀ (c : Cab) (s : SpecCab) (a : CbAct), s.dead t = true → (specAct c s a).dead t = true := by
    intro c s a hd
    cases a with
    | alloc o => simp only [specAct]; split <;> simpa [SpecCab.alloc] using hd
    | update t0 o => simp only [specAct, SpecCab.update]; split <;> exact hd
    | free t0 => simp only [specAct, SpecCab.free]; split <;> simp [hd]
    | clear => simp [specAct, SpecCab.clear, hd]
  have hacts : ∀ (as : List CbAct) (c : Cab) (s : SpecCab), s.dead t = true → (specActs c s as).dead t = true := by
    intro as
    induction as with
    | nil => intro c s hd; exact hd
    | cons a as ih => intro c s hd; exact ih _ _ (hact c s a hd)
  have key : ∀ (c : Cab) (s : SpecCab), s.dead t = true → (specRun c s ops).dead t = true := by
    induction ops with
    | nil => intro c s hd; exact hd
    | cons op ops ih =>
        intro c s hd
        apply ih
        cases op with
        | act a => exact hact c s a hd
        | each f => exact hacts _ c s hd
  have := key c s hd
  exact ⟨this, by simp [SpecCab.lookup, this]⟩

theorem run_append (c : Cab) (a b : List CabOp) : c.run (a ++ b) = (c.run a).run b := by
  induction a generalizing c with
  | nil => rfl
  | cons op a ih => simp only [List.cons_append, Cab.run]; exact ih _

/-- **C08_cab_stale_forever.** The statement without the specification: once a token whose id has
been issued (`t.id ≤ last_id_`) resolves to nothing, it resolves to nothing after every further
history — including `clear()`, arbitrary reuse of its cell, and allocations made from inside
`foreach` callbacks. -/
theorem C08_cab_stale_forever (pre post : List CabOp) (t : Token)
    (hw : (({} : Cab).run (pre ++ post)).wrapped = false) :
    let c1 := ({} : Cab).run pre
    t.id ≤ c1.lastId → c1.lookup t = none → (c1.run post).lookup t = none := by
  intro c1 hid hl
  rw [run_append] at hw
  have hw1 : c1.wrapped = false := by
    cases hq : c1.wrapped with
    | false => rfl
    | true => have := run_wrapped_mono c1 post hq; rw [hw] at this; cases this
  have h1 := run_inv {} pre init_inv hw1
  let s : SpecCab := { live := fun t' => if t' = t then none else c1.lookup t', dead := fun t' => decide (t' = t) }
  have r : Refines c1 s := by
    constructor
    · intro t'
      by_cases ht : t' = t
      · simp [s, SpecCab.lookup, ht, hl]
      · simp [s, SpecCab.lookup, ht]
    · intro t' hd
      simp [s] at hd; rw [hd]; exact hid
  have r2 := run_refines c1 s post h1.1 r hw
  rw [r2.look t]
  exact (C08_spec_dead_forever c1 s post t (by simp [s])).2

/-- **C08_cab_fresh_token.** A token returned by `alloc` differs — already in its id — from every
token returned by an earlier `alloc` of the same cabinet, however many `free`/`clear`/iterations
lie between. -/
theorem C08_cab_fresh_token (pre mid : List CabOp) (o1 o2 : Nat) (a b : Token)
    (hw : (({} : Cab).run (pre ++ [.act (.alloc o1)] ++ mid ++ [.act (.alloc o2)])).wrapped = false) :
    let c0 := ({} : Cab).run pre
    let c1 := (c0.alloc o1).1
    (c0.alloc o1).2 = some a → ((c1.run mid).alloc o2).2 = some b → a.id < b.id := by
  intro c0 c1 ha hb
  have e : ({} : Cab).run (pre ++ [.act (.alloc o1)] ++ mid ++ [.act (.alloc o2)]) = ((c1.run mid).alloc o2).1 := by
    simp only [run_append, Cab.run, Cab.step, Cab.act]; rfl
  rw [e] at hw
  have hw2 : (c1.run mid).wrapped = false := by
    cases hq : (c1.run mid).wrapped with
    | false => rfl
    | true => have := act_wrapped_mono _ (.alloc o2) hq; simp only [Cab.act] at this; rw [hw] at this; cases this
  have hw1 : c1.wrapped = false := by
    cases hq : c1.wrapped with
    | false => rfl
    | true => have := run_wrapped_mono c1 mid hq; rw [hw2] at this; cases this
  have hw0 : c0.wrapped = false := by
    cases hq : c0.wrapped with
    | false => rfl
    | true => have := act_wrapped_mono c0 (.alloc o1) hq; simp only [Cab.act] at this; rw [hw1] at this; cases this
  have h0 := run_inv {} pre init_inv hw0
  have hne0 : c0.lastId ≠ sizeMax := by
    intro e'; have := alloc_wrapped c0 o1; rw [hw1, e'] at this; simp at this
  have hm0 : c0.lastId ≤ sizeMax := h0.1.idMax
  obtain ⟨hi1, p1, hA, hl1⟩ := alloc_inv c0 o1 h0.1 (by omega)
  have h2 := run_inv c1 mid hi1 hw2
  have hne2 : (c1.run mid).lastId ≠ sizeMax := by
    intro e'; have := alloc_wrapped (c1.run mid) o2; rw [hw, e'] at this; simp at this
  have hm2 : (c1.run mid).lastId ≤ sizeMax := h2.1.idMax
  obtain ⟨_, p2, hB, _⟩ := alloc_inv (c1.run mid) o2 h2.1 (by omega)
  rw [hA] at ha; rw [hB] at hb
  cases ha; cases hb
  have hle : c1.lastId ≤ (c1.run mid).lastId := h2.2
  have hl1' : c1.lastId = c0.lastId + 1 := hl1
  show c0.lastId + 1 < (c1.run mid).lastId + 1
  omega

/-- **C08_cab_distinct.** After every history two tokens that both resolve and have the same id are
the same token: live entries have pairwise distinct ids (hence distinct tokens). -/
theorem C08_cab_distinct (ops : List CabOp) (t1 t2 : Token) (hw : (({} : Cab).run ops).wrapped = false) :
    let c := ({} : Cab).run ops
    (c.lookup t1).isSome → (c.lookup t2).isSome → t1.id = t2.id → t1 = t2 := by
  intro c h1 h2 hid
  have hi := (run_inv {} ops init_inv hw).1
  obtain ⟨o1, ho1⟩ := Option.isSome_iff_exists.1 h1
  obtain ⟨o2, ho2⟩ := Option.isSome_iff_exists.1 h2
  obtain ⟨hn1, hc1⟩ := (lookup_some c t1 o1).1 ho1
  obtain ⟨_, hc2⟩ := (lookup_some c t2 o2).1 ho2
  exact token_ext _ _ hid (hi.idDistinct _ _ _ _ hc1 hc2 hn1 hid)

/-- **C08_cab_size.** After every history `size()` is the number of live entries: `liveTokens` lists
the tokens that resolve — a token is in it iff `at` finds its entry — without repetition, and
`size()` is its length (`count_` never drifts and never underflows). -/
theorem C08_cab_size (ops : List CabOp) (hw : (({} : Cab).run ops).wrapped = false) :
    let c := ({} : Cab).run ops
    c.size = c.liveTokens.length ∧ c.liveTokens.Nodup ∧
    ∀ t, t ∈ c.liveTokens ↔ (c.lookup t).isSome = true := by
  intro c
  refine ⟨?_, liveTokens_nodup c, mem_liveTokens c⟩
  rw [liveTokens_length]
  exact (run_inv {} ops init_inv hw).1.count

/-- **C08_cab_foreach_effect.** An iteration whose callbacks call `free`, `update`, `alloc` or
`clear` changes the cabinet exactly as the same calls made one after the other (`eachActs` = what
the callbacks did, in order): the iteration itself never touches cells, free list or count, so
every cabinet theorem above covers histories with such iterations. -/
theorem C08_cab_foreach_effect (c : Cab) (f : Nat → List CbAct) :
    (c.foreach f).1 = c.runActs (c.eachActs f) := foreach_eq_runActs c f

/-- **C08_cab_foreach_remove.** Iteration with calls from inside the callbacks (code after
patches/C08-02), after every history and for every callback script.  With `vis` the callbacks made,
in order, as (cell position, object passed):
(1) positions strictly increase and lie below the initial number of cells — no entry is visited twice;
(2) the entry of the k-th callback is live at the moment of that callback, i.e. in the cabinet as
    the first k callbacks left it: an entry removed (or cleared) earlier in the same iteration is
    never visited;
(3) every entry that was live when the iteration began and is still live when it ends (same cell,
    same id — ids are never re-issued) was visited.
Hence each surviving entry is visited exactly once, and nothing is visited that is not live at its turn. -/
theorem C08_cab_foreach_remove (ops : List CabOp) (f : Nat → List CbAct)
    (hw : ((({} : Cab).run ops).foreach f).1.wrapped = false) :
    let c := ({} : Cab).run ops
    let vis := (c.foreach f).2
    (vis.map (·.1)).Pairwise (· < ·) ∧ (∀ q, q ∈ vis → q.1 < c.cells.length) ∧
    (∀ (k : Nat) (hk : k < vis.length), ∃ id, id ≠ 0 ∧
        (c.runActs ((List.range k).flatMap f)).cells[(vis[k]).1]? = some ⟨id, (vis[k]).2⟩) ∧
    (∀ (p : Nat) (x : Cell), (c.foreach f).1.cells[p]? = some x → x.id ≠ 0 → x.id ≤ c.lastId →
        p ∈ vis.map (·.1)) := by
  intro c vis
  have hw0 : c.wrapped = false := by
    cases hq : c.wrapped with
    | false => rfl
    | true =>
        have := runActs_wrapped_mono c (c.eachActs f) hq
        rw [← foreach_eq_runActs, hw] at this; cases this
  have hc0 := (run_inv {} ops init_inv hw0).1
  have hi := foreach_inv c f hc0 c.cells.length
  refine ⟨hi.sorted, hi.bound, hi.wasLive, ?_⟩
  intro p x hp hid hold
  have hw' := hw
  rw [foreach_eq_runActs] at hw' hp
  obtain ⟨y, hy, _⟩ := runActs_old_mono c _ p x c.lastId hc0 (Nat.le_refl _) hw' hp hid hold
  have hlt : p < c.cells.length := getElem?_lt _ _ _ hy
  rw [← foreach_eq_runActs] at hp
  exact hi.covered hw p x hlt hp hid hold

/-- **C08_cab_lookup_counterexample.** `clear()` as it stood before patches/C08-01 (id counter reset):
the token of the first allocation is dead after `clear()` and comes back to life — resolving to a
different object — with the next allocation. -/
theorem C08_cab_lookup_counterexample :
    let t : Token := ⟨1, 0⟩
    (({} : Cab).alloc 5).2 = some t ∧
    (({} : Cab).runOld [.act (.alloc 5)]).lookup t = some 5 ∧
    (({} : Cab).runOld [.act (.alloc 5), .act .clear]).lookup t = none ∧
    (({} : Cab).runOld [.act (.alloc 5), .act .clear, .act (.alloc 6)]).lookup t = some 6 := by
  decide

/-- **C08_cab_wrap_counterexample.** The no-wrap hypothesis cannot be dropped: from a consistent
cabinet whose id counter has reached 2^64-1, `allocId` wraps to 1 and hands out, for the reused
cell, a token equal to one freed before — the stale token resolves to the new object.
(Unreachable in practice: 2^64-1 allocations.) -/
theorem C08_cab_wrap_counterexample :
    let c0 : Cab := { lastId := sizeMax, cells := [⟨1, 7⟩], firstFree := sizeMax, count := 1 }
    let t : Token := ⟨1, 0⟩
    c0.lookup t = some 7 ∧ (c0.run [.act (.free t)]).lookup t = none ∧
    (c0.run [.act (.free t), .act (.alloc 9)]).lookup t = some 9 ∧
    (c0.run [.act (.free t), .act (.alloc 9)]).wrapped = true := by
  decide

/-! ## Object pool

Histories are sequences of events `abeg h v … aend` / `fbeg h … fend` (a call of `alloc` / `free`
begins, the probe's constructor / destructor makes the nested events, the call ends), arbitrarily
nested — a constructor or destructor may allocate from and free to the SAME pool — plus
re-creation of the pool between calls.  The theorems hold in EVERY state of such a history,
including the states in the middle of a call (the model takes the block off the free list before
the constructor runs and parks it after the destructor has returned, as the code does). -/

/-- **C08_pool_no_alias.** In every state: the parked chain has no duplicates; the blocks in use —
live objects AND objects whose constructor or destructor is still running — are pairwise distinct;
no parked block is in use; no block given back to the system is parked or in use; and the block in
which the next `alloc` (nested or not) starts constructing is not in use and was not given back. -/
theorem C08_pool_no_alias (ops : List PoolOp) (e : PEv) :
    let s := PoolSys.init.run ops
    s.pool.parked.Nodup ∧ s.inUse.Nodup ∧ (∀ b, b ∈ s.pool.parked → b ∉ s.inUse) ∧
    (∀ b, b ∈ s.pool.released → b ∉ s.pool.parked ∧ b ∉ s.inUse) ∧
    ∀ b, (s.ev e).2 = some b → b ∉ s.inUse ∧ b ∉ s.pool.released := by
  intro s
  have hi : SInv s := pool_run_inv _ ops pinit_inv
  exact ⟨hi.pi.parkedNodup, hi.pi.liveNodup, hi.pi.disjoint, hi.pi.relDisj, (ev_inv s e hi).2⟩

theorem ev_leaked (s : PoolSys) (e : PEv) : (s.ev e).1.pool.leaked = s.pool.leaked := by
  cases e <;> simp only [PoolSys.ev] <;> (repeat' split) <;>
    simp [Pool.allocA, Pool.ctorEnter, Pool.allocB, Pool.dtorEnter, Pool.freeB] <;> (repeat' split) <;> rfl

/-- **C08_pool_ctor_dtor.** In every state: constructor entries + destructors still running =
destructor entries + blocks in use + objects abandoned by `~ObjectPool()` (which runs no destructor);
between calls this is `#ctor − #dtor = #live (+ abandoned)`.  An `alloc` that takes place enters exactly
one constructor and no destructor; a `free` that takes place enters exactly one destructor and no
constructor; the end of a call enters neither. -/
theorem C08_pool_ctor_dtor (ops : List PoolOp) (e : PEv) :
    let s := PoolSys.init.run ops
    s.pool.ctor + nFree s = s.pool.dtor + s.inUse.length + s.pool.leaked ∧
    (s.stack = [] → s.pool.ctor = s.pool.dtor + s.liveBlocks.length + s.pool.leaked) ∧
    (∀ b, (s.ev e).2 = some b → (s.ev e).1.pool.ctor = s.pool.ctor + 1 ∧ (s.ev e).1.pool.dtor = s.pool.dtor) ∧
    (∀ h b w, e = .fbeg h → s.skip = 0 → s.slots[h]? = some (some (b, w)) →
      (s.ev e).1.pool.dtor = s.pool.dtor + 1 ∧ (s.ev e).1.pool.ctor = s.pool.ctor) ∧
    ((e = .aend ∨ e = .fend) → (s.ev e).1.pool.ctor = s.pool.ctor ∧ (s.ev e).1.pool.dtor = s.pool.dtor) := by
  intro s
  have hi : SInv s := pool_run_inv _ ops pinit_inv
  refine ⟨hi.pi.balance, ?_, ?_, ?_, ?_⟩
  · intro hst
    have := hi.pi.balance
    simp only [PoolSys.inUse, nFree, hst, List.map_nil, List.append_nil, List.countP_nil] at this
    omega
  · intro b hb
    cases e with
    | abeg h v =>
        have hp : (s.ev (.abeg h v)).1.pool = s.pool.allocA.1.ctorEnter := by
          simp only [PoolSys.ev] at hb ⊢
          by_cases hsk : s.skip > 0
          · simp [hsk] at hb
          · simp only [hsk, if_false] at hb ⊢
            cases hslot : s.slots[h]? with
            | none => simp [hslot] at hb
            | some o =>
                cases o with
                | some x => simp [hslot] at hb
                | none =>
                    simp only [hslot] at hb ⊢
                    by_cases hres : s.reserved h = true
                    · simp [hres] at hb
                    · simp [hres]
        rw [hp]
        have h1 : s.pool.allocA.1.ctor = s.pool.ctor := by simp only [Pool.allocA]; split <;> rfl
        have h2 : s.pool.allocA.1.dtor = s.pool.dtor := by simp only [Pool.allocA]; split <;> rfl
        exact ⟨by simp [Pool.ctorEnter, h1], by simp [Pool.ctorEnter, h2]⟩
    | aend => simp only [PoolSys.ev] at hb; (repeat' split at hb) <;> simp at hb
    | fbeg h => simp only [PoolSys.ev] at hb; (repeat' split at hb) <;> simp at hb
    | fend => simp only [PoolSys.ev] at hb; (repeat' split at hb) <;> simp at hb
  · intro h b w he hsk hslot
    subst he
    simp [PoolSys.ev, hsk, hslot, Pool.dtorEnter]
  · rintro (he | he) <;> subst he <;> simp only [PoolSys.ev] <;> (repeat' split) <;>
      simp [Pool.allocB, Pool.freeB] <;> (repeat' split) <;> exact ⟨rfl, rfl⟩

theorem runEvs_leaked (s : PoolSys) (es : List PEv) : (s.runEvs es).pool.leaked = s.pool.leaked := by
  induction es generalizing s with
  | nil => rfl
  | cons e es ih => simp only [PoolSys.runEvs]; rw [ih, ev_leaked]

/-- with the contract "free every object before the pool dies" (no `drop`) nothing is ever abandoned -/
theorem C08_pool_no_leak (ops : List PoolOp) (hnd : ∀ op ∈ ops, ∀ k, op ≠ .drop k) :
    (PoolSys.init.run ops).pool.leaked = 0 := by
  have key : ∀ (s0 : PoolSys) (ops : List PoolOp), (∀ op ∈ ops, ∀ k, op ≠ .drop k) → s0.pool.leaked = 0 →
      (s0.run ops).pool.leaked = 0 := by
    intro s0 ops
    induction ops generalizing s0 with
    | nil => intro _ h0; exact h0
    | cons op ops ih =>
        intro hnd h0
        apply ih _ (fun o ho => hnd o (List.mem_cons_of_mem _ ho))
        have hfs : ∀ (hs : List Nat) (s1 : PoolSys), s1.pool.leaked = 0 → (s1.freeSlots hs).pool.leaked = 0 := by
          intro hs
          induction hs with
          | nil => intro s1 h1; exact h1
          | cons a hs ih2 =>
              intro s1 h1
              unfold PoolSys.freeSlots
              split
              · rename_i b0 v0 _
                apply ih2
                have : (s1.pool.free b0).leaked = s1.pool.leaked := by
                  simp only [Pool.free, Pool.freeB, Pool.dtorEnter]
                  by_cases hk : s1.pool.freeNum < s1.pool.keep <;> simp [hk]
                simp only; rw [this]; exact h1
              · exact ih2 s1 h1
        cases op with
        | evs l => simp only [PoolSys.step]; rw [runEvs_leaked]; exact h0
        | renew k =>
            simp only [PoolSys.step]; split
            · exact h0
            · simp only [Pool.renew]; exact hfs _ s0 h0
        | drop k => exact absurd rfl (hnd _ List.mem_cons_self k)
  exact key _ ops hnd rfl

/-- **C08_pool_keep.** In every state the number of parked blocks equals `free_number_` and never
exceeds the retention limit. -/
theorem C08_pool_keep (ops : List PoolOp) :
    let s := PoolSys.init.run ops
    s.pool.freeNum = s.pool.parked.length ∧ s.pool.parked.length ≤ s.pool.keep := by
  intro s
  have hi : SInv s := pool_run_inv _ ops pinit_inv
  exact ⟨hi.pi.freeNum, hi.pi.keep⟩

/-- **C08_pool_stat.** The statistics `getStat()` reports are exact in every state:
`total_alloc_times` + allocs in progress = `total_free_times` + blocks in use (between calls:
`total_alloc_times − total_free_times` = number of live objects of the current pool);
`peak_alloc_number` (+ allocs in progress) is at least the number of blocks in use and
`peak_free_number` at least the number of parked blocks. -/
theorem C08_pool_stat (ops : List PoolOp) :
    let s := PoolSys.init.run ops
    s.pool.stat.allocT + nAlloc s = s.pool.stat.freeT + s.inUse.length ∧
    (s.stack = [] → s.pool.stat.allocT = s.pool.stat.freeT + s.liveBlocks.length ∧ s.liveBlocks.length ≤ s.pool.stat.peakA) ∧
    s.inUse.length ≤ s.pool.stat.peakA + nAlloc s ∧ s.pool.parked.length ≤ s.pool.stat.peakF := by
  intro s
  have hi : SInv s := pool_run_inv _ ops pinit_inv
  refine ⟨hi.pi.statBal, ?_, hi.pi.statPeakA, hi.pi.statPeakF⟩
  intro hst
  have h1 := hi.pi.statBal; have h2 := hi.pi.statPeakA
  simp only [PoolSys.inUse, nAlloc, hst, List.map_nil, List.append_nil, List.countP_nil] at h1 h2
  exact ⟨by omega, by omega⟩

/-! ## Fd -/

/-- **C08_fd_refcount.** After every history of construct / open / copy / move / assign (self-
assignment included) / swap / reset / close / destroy operations on the handle slots: the
`ref_count` of every detail record that has not been deleted equals the number of handles pointing
to it and is at least 1 (so `TBOX_ASSERT(ref_count > 0)` never fires and a record without handles
has been deleted), and no handle points to a deleted record. -/
theorem C08_fd_refcount (ops : List FdOp) (hok : ∀ op ∈ ops, op.ok = true) :
    let s := FdSys.init.run ops
    (∀ (d : Nat) (det : Detail), s.details[d]? = some det → det.freed = false →
        det.ref = (s.handles.count (some d) : Int) ∧ 1 ≤ det.ref) ∧
    (∀ (h d : Nat), s.handles[h]? = some (some d) → ∃ det, s.details[d]? = some det ∧ det.freed = false) := by
  intro s
  have hi := FdSys.run_inv _ ops FdSys.finit_inv hok
  exact ⟨hi.1.refOk, hi.1.noDangle⟩

/-- **C08_fd_close_once.** After every such history: no descriptor appears twice in the log of
closes performed (close function or `::close`); a descriptor some handle still reports through
`get()` has not been closed ("never earlier"); and every descriptor that was opened is either
closed or still reported by some handle ("exactly once: on explicit close or when the last copy
goes away" — there is no third state in which it leaks). -/
theorem C08_fd_close_once (ops : List FdOp) (hok : ∀ op ∈ ops, op.ok = true) :
    let s := FdSys.init.run ops
    (s.closeLog.map (·.1)).Nodup ∧
    (∀ h, 0 ≤ s.get h → (s.get h).toNat ∉ s.closeLog.map (·.1)) ∧
    (∀ r, r < s.nextRes → (r ∈ s.closeLog.map (·.1) ↔ ¬ ∃ h, s.get h = (r : Int))) := by
  intro s
  have hi := FdSys.run_inv _ ops FdSys.finit_inv hok
  obtain ⟨hr, hc⟩ := hi
  have held : ∀ (h : Nat) (r : Int), 0 ≤ r → s.get h = r → r.toNat ∉ s.closeLog.map (·.1) := by
    intro h r h0 hg
    obtain ⟨d, det, hh, hd, hfd⟩ := (FdSys.get_eq s h r h0).1 hg
    obtain ⟨det', hd', hf⟩ := hr.noDangle h d hh
    rw [hd] at hd'; cases hd'
    rw [← hfd]; exact (hc.fdOpen d det hd hf (by omega)).2
  refine ⟨hc.logNodup, fun h h0 => held h _ h0 rfl, ?_⟩
  intro r hr'
  constructor
  · intro hm ⟨h, hg⟩
    have := held h r (by omega) hg
    rw [Int.toNat_natCast] at this
    exact this hm
  · intro hne
    apply Classical.byContradiction
    intro hnm
    obtain ⟨d, det, hd, hf, hfd⟩ := hc.noLeak r hr' hnm
    have hcount : det.ref = (s.handles.count (some d) : Int) ∧ 1 ≤ det.ref := hr.refOk d det hd hf
    have hpos : 0 < s.handles.count (some d) := by
      have h1 := hcount.1; have h2 := hcount.2
      omega
    obtain ⟨h, hh⟩ := List.mem_iff_getElem?.1 (List.count_pos_iff.1 hpos)
    exact hne ⟨h, (FdSys.get_eq s h r (by omega)).2 ⟨d, det, hh, hd, hfd⟩⟩

/-! ## LifetimeTag / Watcher -/

/-- **C08_lt_no_use_after_free.** For every history of tag construction / copy / move / assignment /
destruction and watcher construction / copy / move / assignment / swap / reset / destruction — in
any order, tags before watchers or watchers before tags — no deleted `Detail` record is ever read,
written or deleted again (`bad` is raised by any such access).  In particular the read of
`d_->watcher_counter` in `~LifetimeTag()` that gcc flags with -Wuse-after-free (lifetime_tag.hpp:128)
never touches a record a watcher has deleted: the warning is a false positive. -/
theorem C08_lt_no_use_after_free (ops : List LtOp) : (LtSys.init.run ops).bad = false :=
  (LtSys.run_inv _ ops LtSys.linit_inv).2

/-- **C08_lt_alive.** After every history a watcher reports alive exactly when the tag object whose
record it watches still exists (a record belongs to the one tag object that created it, for life:
copies and moves of tags create their own records and tag assignment changes nothing). -/
theorem C08_lt_alive (ops : List LtOp) (w : Nat) :
    let s := LtSys.init.run ops
    s.isAlive w = true ↔ ∃ (d i : Nat), s.ws[w]? = some (some d) ∧ s.tags[i]? = some (some d) := by
  intro s
  have hi : LI s.details s.tags s.ws := (LtSys.run_inv _ ops LtSys.linit_inv).1
  unfold LtSys.isAlive
  cases hw : s.wOf w with
  | none =>
      simp only []
      constructor
      · intro h; cases h
      · rintro ⟨d, i, h1, _⟩
        rw [LtSys.wOf_eq s w _ h1] at hw; cases hw
  | some d =>
      have hws := LtSys.ws_some s w d hw
      obtain ⟨det, hd, hf⟩ := hi.wLive w d hws
      have hr := hi.refOk d det hd hf
      simp only [hd, hf, Bool.not_false, Bool.and_true]
      rw [hr.2.1]
      constructor
      · rintro ⟨i, hi'⟩; exact ⟨d, i, hws, hi'⟩
      · rintro ⟨d', i, h1, h2⟩
        rw [hws] at h1; cases h1; exact ⟨i, h2⟩

/-- **C08_lt_free_once.** After every history a `Detail` record has been deleted exactly when both
its tag and its last watcher are gone — never earlier (it exists while either remains) and never
left behind — `watcher_counter` of a record equals the number of watchers on it, and a tag slot's
record is its own (no two tags share a record).  Together with `C08_lt_no_use_after_free`
(a second delete would touch a deleted record) each record is deleted exactly once. -/
theorem C08_lt_free_once (ops : List LtOp) :
    let s := LtSys.init.run ops
    (∀ (d : Nat) (det : LDetail), s.details[d]? = some det →
      (det.freed = true ↔ (¬ ∃ i : Nat, s.tags[i]? = some (some d)) ∧ s.ws.count (some d) = 0)) ∧
    (∀ (d : Nat) (det : LDetail), s.details[d]? = some det → det.freed = false →
      det.cnt = (s.ws.count (some d) : Int)) ∧
    (∀ (i j d : Nat), s.tags[i]? = some (some d) → s.tags[j]? = some (some d) → i = j) := by
  intro s
  have hi : LI s.details s.tags s.ws := (LtSys.run_inv _ ops LtSys.linit_inv).1
  refine ⟨?_, fun d det hd hf => (hi.refOk d det hd hf).1, hi.tUniq⟩
  intro d det hd
  constructor
  · intro hfr
    constructor
    · rintro ⟨i, hi'⟩
      obtain ⟨x, hx, hfx⟩ := hi.tLive i d hi'
      rw [hd] at hx; cases hx; rw [hfr] at hfx; cases hfx
    · apply List.count_eq_zero.2
      intro hm
      obtain ⟨w, hw⟩ := List.mem_iff_getElem?.1 hm
      obtain ⟨x, hx, hfx⟩ := hi.wLive w d hw
      rw [hd] at hx; cases hx; rw [hfr] at hfx; cases hfx
  · rintro ⟨hnt, hc⟩
    cases hfr : det.freed with
    | true => rfl
    | false =>
        have hr := hi.refOk d det hd hfr
        cases ha : det.alive with
        | true => exact absurd (hr.2.1.1 ha) hnt
        | false => have := hr.2.2 ha; have h1 := hr.1; omega

/-! ### non-vacuity -/

example : (({} : Cab).run [.act (.alloc 1), .act (.alloc 2), .act (.free ⟨1, 0⟩), .act .clear, .act (.alloc 3)]).wrapped = false := by
  decide

example :
    let c := ({} : Cab).run [.act (.alloc 1), .act (.alloc 2), .act (.free ⟨1, 0⟩), .act (.alloc 3), .act .clear, .act (.alloc 4)]
    c.lookup ⟨1, 0⟩ = none ∧ c.lookup ⟨3, 0⟩ = none ∧ c.lookup ⟨4, 0⟩ = some 4 ∧ c.size = 1 := by decide

example :
    -- keep 1; park a block; then an object whose constructor allocates a child from the same pool
    -- and whose destructor frees that child: the child gets a different block than its parent
    let s := PoolSys.init.run [.renew 1, .evs [.abeg 0 7, .aend, .fbeg 0, .fend],
                               .evs [.abeg 1 8, .abeg 2 9, .aend, .aend], .evs [.fbeg 1, .fbeg 2, .fend, .fend]]
    let m := PoolSys.init.run [.renew 1, .evs [.abeg 0 7, .aend, .fbeg 0, .fend], .evs [.abeg 1 8, .abeg 2 9]]
    m.stack = [.allocF 2 9 1, .allocF 1 8 0] ∧ m.pool.parked = [] ∧
    s.stack = [] ∧ s.pool.parked = [1] ∧ s.pool.released = [0] ∧ s.pool.ctor = 3 ∧ s.pool.dtor = 3 := by decide

example :
    let c := ({} : Cab).run [.act (.alloc 1), .act (.alloc 2), .act (.alloc 3), .act (.alloc 4), .act (.free ⟨2, 1⟩)]
    -- the first callback removes a later entry and itself, then allocates twice (one reuse, one append)
    let r := c.foreach (fun k => if k = 0 then [.free ⟨3, 2⟩, .free ⟨1, 0⟩, .alloc 8, .alloc 9] else [])
    r.2 = [(0, 1), (2, 9), (3, 4)] ∧ r.1.wrapped = false ∧ r.1.size = 3 := by decide

example : ∀ op ∈ [FdOp.opn 0 true, .copyAssign 1 0, .copyAssign 0 0, .moveCtor 2 1, .close 2, .reset 0, .fresh 2],
    op.ok = true := by decide

example :
    let s := FdSys.init.run [.opn 0 true, .copyAssign 1 0, .copyAssign 0 0, .moveCtor 2 1, .reset 0]
    s.get 2 = 0 ∧ s.closeLog = [] ∧ (s.step (.fresh 2)).closeLog = [(0, true)] := by decide

example :
    let s := LtSys.init.run [.tnew 0, .wtag 0 0, .wcopyCtor 1 0, .wcopyCtor 2 3, .tdel 0, .wreset 0]
    s.isAlive 1 = false ∧ s.isNull 1 = false ∧ s.isNull 2 = true ∧
    s.details = [{ alive := false, cnt := 1, freed := false }] ∧
    (s.step (.wnew 1)).details = [{ alive := false, cnt := 0, freed := true }] := by decide

end Tbox.C08
