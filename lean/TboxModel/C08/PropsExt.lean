/-
C08 — PROPERTY THEOREMS, second file (round 4): the kernel-facing members of `util::Fd`
(`Open`, read/readv/write/writev, `setNonBlock`/`isNonBlock`/`setCloseOnExec`), operations on EMPTY
handles, exception safety of `Cabinet::alloc` / `ObjectPool::alloc`, and the per-member theorems of
`LifetimeTag` / `Watcher`.  Statements rely on Model.lean only; helper lemmas live in FdMore / ExtProofs.
-/
import TboxModel.C08.Props
import TboxModel.C08.FdMore
import TboxModel.C08.LtMore
import TboxModel.C08.ExtProofs
namespace Tbox.C08
open FdSys Cab

/-! ## Fd: no call on a descriptor that has been closed -/

/-- **C08_fd_no_use_after_close.** After every history — `Open`, construct, copy / move / assign,
swap, reset, `close()`, destroy, the read/write wrappers and the `fcntl` members included — and for
every handle `h`: either the handle is empty and its member functions return without a system call,
or the number they hand to the kernel is what `get()` reports, and when that number is not negative
it is a descriptor that is OPEN (opened and not in the log of closes).  So every call any operation
makes (`calls`) is on an open descriptor or on a negative number (which the kernel refuses with
EBADF): after `close()` through one copy no other copy can reach the — possibly re-issued — number. -/
theorem C08_fd_no_use_after_close (ops : List FdOp) (hok : ∀ op ∈ ops, op.ok = true) (h : Nat) :
    let s := FdSys.init.run ops
    (s.target h = none ↔ s.detailOf h = none) ∧
    (∀ fd, s.target h = some fd → s.get h = fd ∧ (0 ≤ fd → s.kOpen fd = true)) ∧
    (∀ (op : FdOp) (c : Sys), c ∈ s.calls op → c.fd < 0 ∨ s.kOpen c.fd = true) := by
  intro s
  have hi := FdSys.run_inv _ ops FdSys.finit_inv hok
  refine ⟨target_none s h hi, fun fd ht => target_open s h fd hi ht, ?_⟩
  intro op c hc
  obtain ⟨h', fd, ht, e⟩ := calls_target s op c hc
  rw [e]
  by_cases h0 : 0 ≤ fd
  · exact Or.inr ((target_open s h' fd hi ht).2 h0)
  · exact Or.inl (by omega)

/-- **C08_fd_close_all_copies.** `close()` through one handle is seen by every copy: afterwards every
handle that shares the record reports a negative number through `get()`, hands that negative number
(never the closed descriptor) to the kernel, and its read/write wrappers return -1. -/
theorem C08_fd_close_all_copies (ops : List FdOp) (hok : ∀ op ∈ ops, op.ok = true) (h h' d k : Nat) (ans : Int) :
    let s := FdSys.init.run ops
    s.detailOf h = some d → s.detailOf h' = some d →
    (s.close h).get h' < 0 ∧ (∃ fd, (s.close h).target h' = some fd ∧ fd < 0) ∧
    ((s.close h).io h' k ans).1 = -1 := by
  intro s hd hd'
  have hi : FInv s := FdSys.run_inv _ ops FdSys.finit_inv hok
  obtain ⟨det, hdet, _⟩ := hi.1.noDangle h d (handle_some s h d hd)
  have hh : (s.close h).handles = s.handles := by
    unfold FdSys.close; simp only [hd, hdet]; split <;> rfl
  have hdo : (s.close h).detailOf h' = some d := by unfold FdSys.detailOf; rw [hh]; exact hd'
  have hlt := lt_of_getElem? _ _ _ hdet
  have hnew : ∃ det', (s.close h).details[d]? = some det' ∧ det'.fd < 0 := by
    unfold FdSys.close; simp only [hd, hdet]
    split
    · exact ⟨{ det with fd := -1, hasFn := false }, by simp [hlt], by simp⟩
    · rename_i hneg; exact ⟨det, hdet, by omega⟩
  obtain ⟨det', hd2, hneg⟩ := hnew
  have hg : (s.close h).get h' = det'.fd := by simp [FdSys.get, hdo, hd2]
  have ht : (s.close h).target h' = some det'.fd := by simp [FdSys.target, hdo, hd2]
  refine ⟨by rw [hg]; exact hneg, ⟨det'.fd, ht, hneg⟩, ?_⟩
  have hko : (s.close h).kOpen det'.fd = false := by
    unfold FdSys.kOpen
    have : ¬ (0 ≤ det'.fd) := by omega
    simp [this]
  simp [FdSys.io, ht, hko]

/-- **C08_fd_io.** The read / readv / write / writev wrappers, after every history: on an empty handle
they return -1 and make NO system call; otherwise they make exactly one call, on the number `get()`
reports, and when that is an open descriptor they return the kernel's answer unchanged — for EVERY
answer (a count, a short count, 0, or -1 for EINTR / EAGAIN / EIO / EPIPE / ENOSPC …) — without
changing any state. -/
theorem C08_fd_io (ops : List FdOp) (hok : ∀ op ∈ ops, op.ok = true) (h k : Nat) (ans : Int) :
    let s := FdSys.init.run ops
    (s.detailOf h = none → s.io h k ans = (-1, [])) ∧
    (s.detailOf h ≠ none → (s.io h k ans).2 = [.rw k (s.get h)] ∧
        (0 ≤ s.get h → (s.io h k ans).1 = ans) ∧ (s.get h < 0 → (s.io h k ans).1 = -1)) ∧
    s.step (.io h k ans) = s := by
  intro s
  have hi := FdSys.run_inv _ ops FdSys.finit_inv hok
  refine ⟨?_, ?_, rfl⟩
  · intro hn
    have := (target_none s h hi).2 hn
    simp [FdSys.io, this]
  · intro hne
    cases ht : s.target h with
    | none => exact absurd ((target_none s h hi).1 ht) hne
    | some fd =>
        obtain ⟨hg, ho⟩ := target_open s h fd hi ht
        rw [hg]
        refine ⟨by simp [FdSys.io, ht], ?_, ?_⟩
        · intro h0; simp [FdSys.io, ht, ho h0]
        · intro hneg
          have : s.kOpen fd = false := by
            unfold FdSys.kOpen
            have : ¬ (0 ≤ fd) := by omega
            simp [this]
          simp [FdSys.io, ht, this]

/-- **C08_fd_open.** `Fd::Open`: when `::open` succeeds the handle is the only owner (`ref_count` 1) of
the new descriptor, which is open, blocking and inherited by exec; when it fails the handle is empty —
`get()` is -1, `isNull()`, nothing was opened and nothing will ever be closed for it.  In both cases
the only descriptor closed by the operation is the one the slot's previous object was the last owner of. -/
theorem C08_fd_open (ops : List FdOp) (hok : ∀ op ∈ ops, op.ok = true) (h : Nat) (hh : h < nFdSlots) :
    let s := FdSys.init.run ops
    let s1 := s.step (.openFile h true)
    let s0 := s.step (.openFile h false)
    (s1.get h = (s.nextRes : Int) ∧ s1.kFlags (s.nextRes : Int) = some (false, false) ∧
      s1.handles.count (s1.detailOf h) = 1 ∧ s1.closeLog = (s.del h).closeLog ∧ s1.nextRes = s.nextRes + 1) ∧
    (s0.detailOf h = none ∧ s0.get h = -1 ∧ s0.isNull h = true ∧ s0.nextRes = s.nextRes ∧ s0 = s.del h) := by
  intro s s1 s0
  have hi := FdSys.run_inv _ ops FdSys.finit_inv hok
  have hl : FL s := run_fl _ ops init_fl
  have hd := del_inv s h hi hh
  have hdl := del_fl s h
  have hlen : h < (s.del h).handles.length := by rw [hd.1.1.len]; exact hh
  constructor
  · have e1 : s1 = (s.del h).ctorFd h false := rfl
    have hi1 : FInv s1 := by rw [e1]; exact ctorFd_inv _ h false hd.1 hd.2
    have hdo : s1.detailOf h = some (s.del h).details.length := by
      rw [e1]; simp [FdSys.detailOf, FdSys.ctorFd, hlen]
    have hdet : s1.details[(s.del h).details.length]? = some { fd := (s.nextRes : Int), ref := 1, hasFn := false } := by
      rw [e1]; simp [FdSys.ctorFd, hdl.2]
    have hg : s1.get h = (s.nextRes : Int) := by simp [FdSys.get, hdo, hdet]
    have hcl : s1.closeLog = (s.del h).closeLog := by rw [e1]; rfl
    have hnr : s1.nextRes = s.nextRes + 1 := by rw [e1]; simp [FdSys.ctorFd, hdl.2]
    refine ⟨hg, ?_, ?_, hcl, hnr⟩
    · have hfl : s1.flags = s.flags ++ [(false, false)] := by rw [e1]; simp [FdSys.ctorFd, hdl.1]
      have hopen : s1.kOpen (s.nextRes : Int) = true := by
        have ht : s1.target h = some (s.nextRes : Int) := by simp [FdSys.target, hdo, hdet]
        exact (target_open s1 h _ hi1 ht).2 (by omega)
      unfold FdSys.kFlags
      simp only [hopen, if_true, hfl, Int.toNat_natCast]
      unfold FL at hl
      rw [← hl]; simp
    · have := (hi1.1.refOk _ _ hdet rfl).1
      rw [hdo]
      simp only at this
      omega
  · have e0 : s0 = s.del h := rfl
    have hdo : s0.detailOf h = none := by rw [e0]; simp [FdSys.detailOf, hd.2]
    refine ⟨hdo, by simp [FdSys.get, hdo], by simp [FdSys.isNull, FdSys.get, hdo], by rw [e0]; exact hdl.2, e0⟩

/-- **C08_fd_empty_source.** Copying or moving FROM an empty handle (default-constructed, moved-from,
reset, or a failed `Open`): the destination lets go of what it held — exactly as `reset()` does, closing
its descriptor if it was the last owner — and ends up empty as well; the source stays empty; no
reference count is touched through the null pointer. -/
theorem C08_fd_empty_source (ops : List FdOp) (hok : ∀ op ∈ ops, op.ok = true) (d src : Nat)
    (hd : d < nFdSlots) (hs : src < nFdSlots) (hne : d ≠ src) :
    let s := FdSys.init.run ops
    s.detailOf src = none →
    (∀ op, op = FdOp.copyCtor d src ∨ op = FdOp.moveCtor d src ∨ op = FdOp.copyAssign d src ∨ op = FdOp.moveAssign d src →
      (s.step op).detailOf d = none ∧ (s.step op).detailOf src = none ∧
      (s.step op).details = (s.reset d).details ∧ (s.step op).closeLog = (s.reset d).closeLog) := by
  intro s hsrc op hop
  have hi : FInv s := FdSys.run_inv _ ops FdSys.finit_inv hok
  have hdel := del_inv s d hi hd
  have hlen : (s.del d).handles.length = nFdSlots := hdel.1.1.len
  have hsrc' : (s.del d).detailOf src = none := by rw [del_detailOf_ne s d src hne]; exact hsrc
  have hd0 : (s.del d).detailOf d = none := by simp [FdSys.detailOf, hdel.2]
  have hsw : (s.del d).swap d src = s.del d := by
    unfold FdSys.swap
    rw [hd0, hsrc']
    unfold FdSys.setH
    have h1 : (s.del d).handles[d]? = some none := hdel.2
    have h2 : (s.del d).handles[src]? = some none := by
      have hl : src < (s.del d).handles.length := by rw [hlen]; exact hs
      unfold FdSys.detailOf at hsrc'
      rw [List.getElem?_eq_getElem hl] at hsrc' ⊢
      simp at hsrc'; rw [hsrc']
    simp only [set_same _ _ _ h1, set_same _ _ _ h2]
  have hcp : (s.del d).copyInto d src = s.del d := by unfold FdSys.copyInto; rw [hsrc']
  have hres : ∀ t : FdSys, t = s.del d →
      t.detailOf d = none ∧ t.detailOf src = none ∧ t.details = (s.reset d).details ∧ t.closeLog = (s.reset d).closeLog := by
    intro t e; subst e; rw [reset_eq_del]; exact ⟨hd0, hsrc', rfl, rfl⟩
  rcases hop with e | e | e | e <;> subst e
  · exact hres _ hcp
  · exact hres _ hsw
  · apply hres; simp only [FdSys.step, FdSys.copyAssign, hne, if_false]; rw [reset_eq_del]; exact hcp
  · apply hres; simp only [FdSys.step, FdSys.moveAssign, hne, if_false]; rw [reset_eq_del]; exact hsw

/-! ## Fd: `fcntl` flags -/

/-- **C08_fd_flags.** After every history, for a handle whose `get()` is the open descriptor `r`
(`kFlags r = (nb, cx)` = its O_NONBLOCK / FD_CLOEXEC):
* `setNonBlock(en)` makes O_NONBLOCK of `r` equal `en`, keeps FD_CLOEXEC of `r`, and `isNonBlock()` then returns `en`;
* `setCloseOnExec()` sets FD_CLOEXEC of `r` and KEEPS O_NONBLOCK of `r` (the code before patches/C08-05
  cleared it: `C08_fd_cloexec_counterexample`);
* neither touches the flags of any other descriptor, the handles, the records or the log of closes;
* F_SETFL / F_SETFD is issued only when the flag actually changes. -/
theorem C08_fd_flags (ops : List FdOp) (hok : ∀ op ∈ ops, op.ok = true) (h : Nat) (en : Bool) (r : Int) (nb cx : Bool) :
    let s := FdSys.init.run ops
    s.target h = some r → 0 ≤ r → s.kFlags r = some (nb, cx) →
    let a := (s.setNonBlock h en).1
    let b := (s.setCloexec h).1
    a.kFlags r = some (en, cx) ∧ (a.isNonBlock h).1 = en ∧ (s.isNonBlock h).1 = nb ∧
    b.kFlags r = some (nb, true) ∧
    (∀ r' : Int, 0 ≤ r' → r' ≠ r → a.kFlags r' = s.kFlags r' ∧ b.kFlags r' = s.kFlags r') ∧
    ((s.setNonBlock h en).2 = if nb = en then [.getfl r] else [.getfl r, .setfl r en]) ∧
    ((s.setCloexec h).2 = if cx then [.getfd r] else [.getfd r, .setfd r true]) := by
  intro s ht h0 hf a b
  have hta : a.target h = some r := by
    have e := setNonBlock_frame s h en
    show (s.setNonBlock h en).1.target h = some r
    unfold FdSys.target FdSys.detailOf at ht ⊢
    rw [e.1, e.2.1]; exact ht
  have ha : a.kFlags r = some (en, cx) := by
    show (s.setNonBlock h en).1.kFlags r = _
    simp only [FdSys.setNonBlock, ht, hf]
    split
    · rename_i e; subst e; exact hf
    · exact kFlags_kSet_self s r _ _ hf
  have hb : b.kFlags r = some (nb, true) := by
    show (s.setCloexec h).1.kFlags r = _
    simp only [FdSys.setCloexec, ht, hf]
    split
    · rename_i e; subst e; exact hf
    · exact kFlags_kSet_self s r _ _ hf
  refine ⟨ha, by simp [FdSys.isNonBlock, hta, ha], by simp [FdSys.isNonBlock, ht, hf], hb, ?_, ?_, ?_⟩
  · intro r' h0' hne
    constructor
    · show (s.setNonBlock h en).1.kFlags r' = _
      simp only [FdSys.setNonBlock, ht, hf]
      split
      · rfl
      · exact kFlags_kSet_other s r r' _ h0 h0' hne
    · show (s.setCloexec h).1.kFlags r' = _
      simp only [FdSys.setCloexec, ht, hf]
      split
      · rfl
      · exact kFlags_kSet_other s r r' _ h0 h0' hne
  · simp only [FdSys.setNonBlock, ht, hf]; split <;> simp_all
  · simp only [FdSys.setCloexec, ht, hf]; split <;> simp_all

/-- **C08_fd_flags_frame.** No other operation changes the flags of an existing descriptor, and on an
empty handle or a handle whose descriptor was closed through any copy the two `fcntl` setters change
nothing at all (`isNonBlock()` is `false` on an empty handle; on a closed one it reads the -1 that
F_GETFL returned and answers `true`). -/
theorem C08_fd_flags_frame (ops : List FdOp) (hok : ∀ op ∈ ops, op.ok = true) (op : FdOp) (h : Nat) (en : Bool) :
    let s := FdSys.init.run ops
    ((∀ h en, op ≠ .setNonBlock h en) → (∀ h, op ≠ .setCloexec h) →
        ∀ r, r < s.nextRes → (s.step op).flags[r]? = s.flags[r]?) ∧
    ((s.target h = none ∨ ∃ fd, s.target h = some fd ∧ fd < 0) →
        (s.setNonBlock h en).1 = s ∧ (s.setCloexec h).1 = s) ∧
    (s.target h = none → (s.isNonBlock h) = (false, [])) ∧
    (∀ fd, s.target h = some fd → fd < 0 → (s.isNonBlock h).1 = true) := by
  intro s
  have hl : FL s := run_fl _ ops init_fl
  have hneg : ∀ fd : Int, fd < 0 → s.kFlags fd = none := by
    intro fd hfd
    have : ¬ (0 ≤ fd) := by omega
    simp [FdSys.kFlags, FdSys.kOpen, this]
  refine ⟨?_, ?_, ?_, ?_⟩
  · intro h1 h2 r hr
    rcases step_flags s op h1 h2 with ⟨e, _⟩ | ⟨e, _⟩
    · rw [e]
    · rw [e, List.getElem?_append_left (by rw [hl]; exact hr)]
  · rintro (ht | ⟨fd, ht, hfd⟩)
    · simp [FdSys.setNonBlock, FdSys.setCloexec, ht]
    · have := hneg fd hfd
      constructor
      · simp only [FdSys.setNonBlock, ht, this]
      · simp only [FdSys.setCloexec, ht, this]
  · intro ht; simp [FdSys.isNonBlock, ht]
  · intro fd ht hfd; simp [FdSys.isNonBlock, ht, hneg fd hfd]

/-- **C08_fd_cloexec_counterexample.** `setCloseOnExec()` as it stood before patches/C08-05 (the
descriptor flag word written with F_SETFL): on a non-blocking descriptor it CLEARS O_NONBLOCK and
leaves FD_CLOEXEC off; the repaired member keeps the one and sets the other. -/
theorem C08_fd_cloexec_counterexample :
    let s := FdSys.init.run [.opn 0 false, .setNonBlock 0 true]
    s.kFlags 0 = some (true, false) ∧
    (s.setCloexecOld 0).1.kFlags 0 = some (false, false) ∧ (s.setCloexecOld 0).2 = [.getfd 0, .setfl 0 false] ∧
    (s.setCloexec 0).1.kFlags 0 = some (true, true) ∧ (s.setCloexec 0).2 = [.getfd 0, .setfd 0 true] := by
  decide

/-! ## Cabinet: `alloc()` failing with `std::bad_alloc` -/

/-- **C08_cab_alloc_bad_alloc.** Exception safety of `Cabinet::alloc`, for every history in which any
number of `alloc()` calls fail because `cells_.push_back` throws (in either evaluation order of
`allocId()` / `allocPos()`), interleaved with every other operation and with iterations whose
callbacks call the cabinet: the cabinet still refines the specification — a failed call stores
nothing, retires nothing, never revives a stale token — the free-list/id/count invariant holds, and
`size()` is the number of live entries.  A failed call itself leaves cells, free list, count and every
lookup exactly as they were (at most the id counter has advanced, so an id is skipped, never reused). -/
theorem C08_cab_alloc_bad_alloc (xs : List CabOpX) (t : Token) (hw : (({} : Cab).runX xs).wrapped = false) :
    let c := ({} : Cab).runX xs
    c.lookup t = (specRunX {} {} xs).lookup t ∧ Inv c ∧ c.size = c.liveTokens.length ∧
    (∀ b, (c.allocThrow b).wrapped = false →
      (c.allocThrow b).lookup t = c.lookup t ∧ (c.allocThrow b).size = c.size ∧ (c.allocThrow b).cells = c.cells ∧
      (c.allocThrow b).firstFree = c.firstFree ∧ c.lastId ≤ (c.allocThrow b).lastId ∧ Inv (c.allocThrow b)) := by
  intro c
  obtain ⟨hi, hr⟩ := runX_inv_refines {} {} xs init_inv init_refines hw
  refine ⟨hr.look t, hi, ?_, ?_⟩
  · rw [liveTokens_length]; exact hi.count
  · intro b hwb
    obtain ⟨e, _⟩ := allocThrow_eq c b hwb hi.idMax
    obtain ⟨hi', hmono⟩ := allocThrow_inv c b hi hwb
    refine ⟨?_, ?_, ?_, ?_, hmono, hi'⟩ <;> rw [e] <;> rfl

/-! ## Object pool: a constructor that throws -/

/-- **C08_pool_ctor_throw.** Exception safety of `ObjectPool::alloc` as coded (no handler around the
placement-new).  Histories (`PoolSys.init.run ops`) may contain any number of `alloc` calls whose
constructor throws (`athrow`), so every pool theorem — no block handed out while in use, parked chain
without duplicates and within the retention limit, constructor/destructor balance, statistics — holds
after them.  The failed call itself: takes the head of the parked chain (or a new block) exactly as a
successful one does, counts one constructor entry and one `thrown`, leaves the statistics and every
live object alone, and the block it took is afterwards neither parked, nor released, nor in use:
it can never be handed out again (no alias) — and is never given back either
(`C08_pool_ctor_throw_leak_counterexample`). -/
theorem C08_pool_ctor_throw (ops : List PoolOp) (h v : Nat) :
    let s := PoolSys.init.run ops
    let s' := s.step (.athrow h v)
    s.stack = [] → s.slots[h]? = some none →
    s'.pool.ctor = s.pool.ctor + 1 ∧ s'.pool.dtor = s.pool.dtor ∧ s'.pool.thrown = s.pool.thrown + 1 ∧
    s'.pool.stat = s.pool.stat ∧ s'.slots = s.slots ∧ s'.inUse = s.inUse ∧ s'.pool.released = s.pool.released ∧
    s'.pool.parked = s.pool.parked.tail ∧ s'.pool.freeNum = s'.pool.parked.length ∧
    (s.pool.allocA.2 ∉ s'.pool.parked ∧ s.pool.allocA.2 ∉ s'.pool.released ∧ s.pool.allocA.2 ∉ s'.inUse) := by
  intro s s' hst hslot
  have hi : SInv s := pool_run_inv _ ops pinit_inv
  have hi' : SInv s' := pool_step_inv s _ hi
  have e : s' = { s with pool := s.pool.allocThrow } := by
    show s.step (.athrow h v) = _
    simp [PoolSys.step, hst, hslot]
  have hA := PI_allocA s.pool s.inUse (nAlloc s) (nFree s) hi.pi
  have hnd := hi.pi.parkedNodup
  rw [e]
  refine ⟨?_, ?_, ?_, ?_, rfl, rfl, ?_, ?_, ?_, ?_, ?_, ?_⟩
  · simp only [Pool.allocThrow, Pool.ctorThrow, Pool.ctorEnter, Pool.allocA]; split <;> rfl
  · simp only [Pool.allocThrow, Pool.ctorThrow, Pool.ctorEnter, Pool.allocA]; split <;> rfl
  · simp only [Pool.allocThrow, Pool.ctorThrow, Pool.ctorEnter, Pool.allocA]; split <;> rfl
  · simp only [Pool.allocThrow, Pool.ctorThrow, Pool.ctorEnter, Pool.allocA]; split <;> rfl
  · simp only [Pool.allocThrow, Pool.ctorThrow, Pool.ctorEnter, Pool.allocA]; split <;> rfl
  · simp only [Pool.allocThrow, Pool.ctorThrow, Pool.ctorEnter, Pool.allocA]; split <;> simp_all
  · have := hi'.pi.freeNum; rw [e] at this; exact this
  · -- not parked any more: it was the head of a chain without duplicates, or a new block
    cases hp : s.pool.parked with
    | nil =>
        simp only [Pool.allocThrow, Pool.ctorThrow, Pool.ctorEnter, Pool.allocA, hp]; simp
    | cons b rest =>
        rw [hp] at hnd
        simp only [Pool.allocThrow, Pool.ctorThrow, Pool.ctorEnter, Pool.allocA, hp]
        exact (List.nodup_cons.1 hnd).1
  · have : ({ s with pool := s.pool.allocThrow } : PoolSys).pool.released = s.pool.released := by
      simp only [Pool.allocThrow, Pool.ctorThrow, Pool.ctorEnter, Pool.allocA]; split <;> rfl
    rw [this]; exact hA.2.2
  · exact hA.2.1

/-- **C08_pool_ctor_throw_leak_counterexample.** The block of a failed construction is lost: with one
parked block, an `alloc` whose constructor throws empties the chain without releasing anything, and
the next `alloc` has to `malloc` (block 1) although block 0 holds no object.  (A handler that hands
the block to `::free` before rethrowing would make `released = [0]`; every observable of the pool —
`parked`, the counters, the statistics — would be the same.) -/
theorem C08_pool_ctor_throw_leak_counterexample :
    let s := PoolSys.init.run [.renew 1, .evs [.abeg 0 7, .aend, .fbeg 0, .fend], .athrow 0 8]
    s.pool.parked = [] ∧ s.pool.released = [] ∧ s.inUse = [] ∧ s.pool.nextBlk = 1 ∧ s.pool.thrown = 1 ∧
    s.pool.ctor = 2 ∧ s.pool.dtor = 1 ∧ ((s.ev (.abeg 0 9)).2 = some 1) := by
  decide

/-! ## LifetimeTag / Watcher: one theorem per constructor / assignment

Every theorem is about the state after ANY history (`LtSys.init.run ops`), so "watcher outliving its
tag", "tag reassigned / copied / moved" and "many watchers" are all instances. -/

/-- **C08_lt_watcher_copy.** `Watcher(const Watcher&)` and `operator=(const Watcher&)` (source ≠
destination): the destination lets go of what it watched and then watches exactly what the source
watches — the same record, or nothing when the source is a null watcher —, so both report the same
`isAlive()` / `isNull()`; the source and every other watcher are unchanged; tags are untouched; no
deleted record is accessed. -/
theorem C08_lt_watcher_copy (ops : List LtOp) (w v : Nat) (hw : w < nLtWs) (hv : v < nLtWs) (hne : w ≠ v) (op : LtOp)
    (hop : op = .wcopyCtor w v ∨ op = .wcopyAssign w v) :
    let s := LtSys.init.run ops
    let s' := s.step op
    s'.wOf w = s.wOf v ∧ (∀ u, u ≠ w → s'.wOf u = s.wOf u) ∧ s'.tags = s.tags ∧
    s'.isAlive w = s.isAlive v ∧ s'.isNull w = s.isNull v ∧ s'.isAlive v = s.isAlive v ∧ s'.bad = false := by
  intro s s'
  have hi : LInv s := LtSys.run_inv _ ops LtSys.linit_inv
  have hok : op.ok s = true := by rcases hop with e | e <;> subst e <;> simp [LtOp.ok, hw, hv, hne]
  have hi' : LInv s' := LtSys.step_inv s op hi hok
  have hlen : w < s.ws.length := by rw [hi.1.lenW]; exact hw
  have hvlen : v < s.ws.length := by rw [hi.1.lenW]; exact hv
  have hws : s'.ws = s.ws.set w (s.wOf v) ∧ s'.tags = s.tags := by
    have := LtSys.step_ws s w v hne hlen
    rcases hop with e | e <;> subst e
    · exact this.1
    · exact this.2.1
  have hof : ∀ u, s'.wOf u = if u = w then s.wOf v else s.wOf u := fun u => LtSys.wOf_set s w u _ _ hlen hws.1
  have hw' : s'.wOf w = s.wOf v := by rw [hof]; simp
  have hu : ∀ u, u ≠ w → s'.wOf u = s.wOf u := by intro u hu; rw [hof]; simp [hu]
  have e1 : s'.ws[w]? = s.ws[v]? := by
    rw [hws.1]; simp only [List.getElem?_set_self hlen]
    rw [LtSys.wOf_def, List.getElem?_eq_getElem hvlen]; rfl
  have e2 : s'.ws[v]? = s.ws[v]? := by rw [hws.1, List.getElem?_set_ne hne]
  refine ⟨hw', hu, hws.2, LtSys.alive_congr s s' hi hi' w v hws.2 e1, ?_, LtSys.alive_congr s s' hi hi' v v hws.2 e2, hi'.2⟩
  rw [LtSys.isNull_def, LtSys.isNull_def, hw']

/-- **C08_lt_watcher_move.** `Watcher(Watcher&&)` and `operator=(Watcher&&)` (source ≠ destination):
the destination takes over exactly what the source watched and the source becomes a null watcher
(`isNull()`, not alive); every other watcher is unchanged.  Self copy- and self move-assignment change
nothing at all. -/
theorem C08_lt_watcher_move (ops : List LtOp) (w v : Nat) (hw : w < nLtWs) (hv : v < nLtWs) (hne : w ≠ v) (op : LtOp)
    (hop : op = .wmoveCtor w v ∨ op = .wmoveAssign w v) :
    let s := LtSys.init.run ops
    let s' := s.step op
    s'.wOf w = s.wOf v ∧ s'.wOf v = none ∧ s'.isNull v = true ∧ s'.isAlive v = false ∧
    (∀ u, u ≠ w → u ≠ v → s'.wOf u = s.wOf u) ∧ s'.tags = s.tags ∧
    s'.isAlive w = s.isAlive v ∧ s'.bad = false ∧
    s.step (.wcopyAssign w w) = s ∧ s.step (.wmoveAssign w w) = s := by
  intro s s'
  have hi : LInv s := LtSys.run_inv _ ops LtSys.linit_inv
  have hok : op.ok s = true := by rcases hop with e | e <;> subst e <;> simp [LtOp.ok, hw, hv, hne]
  have hi' : LInv s' := LtSys.step_inv s op hi hok
  have hlen : w < s.ws.length := by rw [hi.1.lenW]; exact hw
  have hvlen : v < s.ws.length := by rw [hi.1.lenW]; exact hv
  have hws : s'.ws = (s.ws.set w (s.wOf v)).set v none ∧ s'.tags = s.tags := by
    have := LtSys.step_ws s w v hne hlen
    rcases hop with e | e <;> subst e
    · exact this.2.2.1
    · exact this.2.2.2
  have hne' : v ≠ w := fun e => hne e.symm
  have gw : s'.ws[w]? = some (s.wOf v) := by
    rw [hws.1, List.getElem?_set_ne hne', List.getElem?_set_self hlen]
  have gv : s'.ws[v]? = some none := by
    rw [hws.1, List.getElem?_set_self (by simpa using hvlen)]
  have gu : ∀ u, u ≠ w → u ≠ v → s'.ws[u]? = s.ws[u]? := by
    intro u h1 h2
    rw [hws.1, List.getElem?_set_ne (fun e => h2 e.symm), List.getElem?_set_ne (fun e => h1 e.symm)]
  have hw' : s'.wOf w = s.wOf v := by rw [LtSys.wOf_def, gw]; rfl
  have hv' : s'.wOf v = none := by rw [LtSys.wOf_def, gv]; rfl
  have e1 : s'.ws[w]? = s.ws[v]? := by
    rw [gw, LtSys.wOf_def, List.getElem?_eq_getElem hvlen]; rfl
  refine ⟨hw', hv', by rw [LtSys.isNull_def, hv']; rfl, by simp [LtSys.isAlive, hv'], ?_, hws.2,
    LtSys.alive_congr s s' hi hi' w v hws.2 e1, hi'.2, by simp [LtSys.step], by simp [LtSys.step]⟩
  intro u h1 h2
  rw [LtSys.wOf_def, LtSys.wOf_def, gu u h1 h2]

/-- **C08_lt_watcher_bind.** `Watcher(const LifetimeTag&)`, `operator=(const LifetimeTag&)` and
`LifetimeTag::get()` on an existing tag: the watcher lets go of what it watched and watches that
tag's own record; it is alive and not null; the other watchers are unchanged.  `reset()` and the
destructor (followed by `Watcher()`) leave a null watcher.  `swap` exchanges what two watchers watch. -/
theorem C08_lt_watcher_bind (ops : List LtOp) (w i : Nat) (hw : w < nLtWs) (hi' : i < nLtTags) :
    let s := LtSys.init.run ops
    ((s.tagOf i).isSome →
      (s.step (.wtag w i)).wOf w = s.tagOf i ∧ (s.step (.wtag w i)).isAlive w = true ∧ (s.step (.wtag w i)).isNull w = false ∧
      (∀ u, u ≠ w → (s.step (.wtag w i)).wOf u = s.wOf u) ∧ (s.step (.wtag w i)).bad = false) ∧
    ((s.step (.wreset w)).wOf w = none ∧ (s.step (.wnew w)).wOf w = none ∧ (s.step (.wreset w)).isAlive w = false ∧
      (∀ u, u ≠ w → (s.step (.wreset w)).wOf u = s.wOf u) ∧ (s.step (.wreset w)).bad = false) ∧
    (∀ a b, (s.step (.wswap a b)).wOf a = (if a < nLtWs ∧ b < nLtWs then s.wOf b else (s.step (.wswap a b)).wOf a)) := by
  intro s
  have hi : LInv s := LtSys.run_inv _ ops LtSys.linit_inv
  have hlen : w < s.ws.length := by rw [hi.1.lenW]; exact hw
  have h1 := LtSys.step_ws1 s w i
  refine ⟨?_, ?_, ?_⟩
  · intro hsome
    have hok : (LtOp.wtag w i).ok s = true := by simp [LtOp.ok, hw, hi', hsome]
    have hin := LtSys.step_inv s _ hi hok
    have hof : ∀ u, (s.step (.wtag w i)).wOf u = if u = w then s.tagOf i else s.wOf u :=
      fun u => LtSys.wOf_set s w u _ _ hlen h1.1.1
    have hw' : (s.step (.wtag w i)).wOf w = s.tagOf i := by rw [hof]; simp
    obtain ⟨d, hd⟩ := Option.isSome_iff_exists.1 hsome
    have hal : (s.step (.wtag w i)).isAlive w = true := by
      rw [LtSys.alive_iff _ hin]
      refine ⟨d, i, ?_, ?_⟩
      · rw [h1.1.1, List.getElem?_set_self hlen, hd]
      · rw [h1.1.2]; exact LtSys.tags_some s i d hd
    refine ⟨hw', hal, by rw [LtSys.isNull_def, hw', hd]; rfl, ?_, hin.2⟩
    intro u hu; rw [hof]; simp [hu]
  · have hok : (LtOp.wreset w).ok s = true := by simp [LtOp.ok, hw]
    have hin := LtSys.step_inv s _ hi hok
    have hof : ∀ u, (s.step (.wreset w)).wOf u = if u = w then none else s.wOf u :=
      fun u => LtSys.wOf_set s w u _ _ hlen h1.2.1.1
    have hof2 : ∀ u, (s.step (.wnew w)).wOf u = if u = w then none else s.wOf u :=
      fun u => LtSys.wOf_set s w u _ _ hlen h1.2.2.1
    have hw' : (s.step (.wreset w)).wOf w = none := by rw [hof]; simp
    refine ⟨hw', by rw [hof2]; simp, by simp [LtSys.isAlive, hw'], ?_, hin.2⟩
    intro u hu; rw [hof]; simp [hu]
  · intro a b
    split
    · rename_i hab
      have hal : a < s.ws.length := by rw [hi.1.lenW]; exact hab.1
      have hbl : b < s.ws.length := by rw [hi.1.lenW]; exact hab.2
      simp only [LtSys.step, LtSys.wSwap, LtSys.setW, LtSys.wOf_def]
      by_cases e : a = b
      · subst e; simp [hal]
      · rw [List.getElem?_set_ne (fun e' => e e'.symm), List.getElem?_set_self hal]; rfl
    · rfl

/-- **C08_lt_tag_copy.** `LifetimeTag(const LifetimeTag&)` / `LifetimeTag(LifetimeTag&&)` give the new
tag object a record of its OWN — a new one that no watcher watches yet — and tag assignment (copy or
move) changes nothing: watchers of the source keep watching the source (and stay alive), watchers of
the assigned-to tag keep watching it; no watcher ever follows a copy. -/
theorem C08_lt_tag_copy (ops : List LtOp) (i j : Nat) (hi' : i < nLtTags) (hj : j < nLtTags) (hne : i ≠ j) :
    let s := LtSys.init.run ops
    let s' := s.step (.tcopy i j)
    (s.tagOf j).isSome →
    s'.tagOf i = some s.details.length ∧ s'.ws.count (some s.details.length) = 0 ∧ s'.ws = s.ws ∧
    s'.tagOf j = s.tagOf j ∧ (∀ w, s.wOf w = s.tagOf j → s'.isAlive w = true) ∧ s'.bad = false ∧
    s.step (.tassign i j) = s ∧ s.step (.tassign j i) = s := by
  intro s s' hsome
  have hi : LInv s := LtSys.run_inv _ ops LtSys.linit_inv
  have hok : (LtOp.tcopy i j).ok s = true := by simp [LtOp.ok, hi', hj, hne, hsome]
  have hin : LInv s' := LtSys.step_inv s _ hi hok
  have hd := LtSys.tDrop_ws s i
  have hilen : i < s.tags.length := by rw [hi.1.lenT]; exact hi'
  have hdl : (s.tDrop i).details.length = s.details.length := by
    unfold LtSys.tDrop LtSys.setT LtSys.tRelease
    cases s.tagOf i with
    | none => rfl
    | some d =>
        simp only [LtSys.touch]
        cases s.details[d]? with
        | none => rfl
        | some det => simp only []; split <;> simp
  have hws : s'.ws = s.ws := by show ((s.tDrop i).tCreate i).ws = s.ws; simp [LtSys.tCreate, hd.1]
  have htags : s'.tags = (s.tags.set i none).set i (some s.details.length) := by
    show ((s.tDrop i).tCreate i).tags = _; simp [LtSys.tCreate, hd.2, hdl]
  have hti : s'.tagOf i = some s.details.length := by
    unfold LtSys.tagOf; rw [htags]; simp [hilen]
  have htj : s'.tagOf j = s.tagOf j := by
    unfold LtSys.tagOf; rw [htags]
    rw [List.getElem?_set_ne hne, List.getElem?_set_ne hne]
  have hcnt : s'.ws.count (some s.details.length) = 0 := by
    rw [hws]
    apply List.count_eq_zero.2
    intro hm
    obtain ⟨w, hw⟩ := List.mem_iff_getElem?.1 hm
    obtain ⟨x, hx, _⟩ := hi.1.wLive w _ hw
    have := lt_of_getElem? _ _ _ hx
    omega
  refine ⟨hti, hcnt, hws, htj, ?_, hin.2, rfl, rfl⟩
  intro w hw
  obtain ⟨d, hdj⟩ := Option.isSome_iff_exists.1 hsome
  rw [LtSys.alive_iff _ hin]
  refine ⟨d, j, ?_, ?_⟩
  · rw [hws]; apply LtSys.ws_some; rw [hw, hdj]
  · apply LtSys.tags_some; rw [htj, hdj]

/-- **C08_lt_outlive.** Watchers outliving their tag: when a tag object that has `n ≥ 1` watchers is
destroyed its record is NOT deleted, all `n` watchers — however many — report "not alive" and "not
null" from then on, and the record is deleted only when the last of them lets go (`C08_lt_free_once`);
a tag without watchers takes its record with it. -/
theorem C08_lt_outlive (ops : List LtOp) (i d : Nat) (hi' : i < nLtTags) :
    let s := LtSys.init.run ops
    let s' := s.step (.tdel i)
    s.tagOf i = some d →
    (∀ w, s.wOf w = some d → s'.isAlive w = false ∧ s'.isNull w = false) ∧
    (∀ det, s'.details[d]? = some det → (det.freed = true ↔ s.ws.count (some d) = 0)) ∧
    s'.ws = s.ws ∧ s'.bad = false := by
  intro s s' htag
  have hi : LInv s := LtSys.run_inv _ ops LtSys.linit_inv
  have hok : (LtOp.tdel i).ok s = true := by simp [LtOp.ok, hi']
  have hin : LInv s' := LtSys.step_inv s _ hi hok
  have hd := LtSys.tDrop_ws s i
  have hws : s'.ws = s.ws := hd.1
  have htags : s'.tags = s.tags.set i none := hd.2
  have hilen : i < s.tags.length := by rw [hi.1.lenT]; exact hi'
  have hnotag : ¬ ∃ k : Nat, s'.tags[k]? = some (some d) := by
    rintro ⟨k, hk⟩
    rw [htags] at hk
    by_cases e : i = k
    · subst e; simp [hilen] at hk
    · rw [List.getElem?_set_ne e] at hk
      exact e (hi.1.tUniq i k d (LtSys.tags_some s i d htag) hk)
  refine ⟨?_, ?_, hws, hin.2⟩
  · intro w hw
    constructor
    · cases hal : s'.isAlive w with
      | false => rfl
      | true =>
          obtain ⟨d', k, h1, h2⟩ := (LtSys.alive_iff _ hin w).1 hal
          rw [hws, LtSys.ws_some s w d hw] at h1
          cases h1
          exact absurd ⟨k, h2⟩ hnotag
    · rw [LtSys.isNull_def]
      have : s'.wOf w = some d := by rw [LtSys.wOf_def, hws]; exact hw
      rw [this]; rfl
  · intro det hdet
    have hl : LI s'.details s'.tags s'.ws := hin.1
    constructor
    · intro hfr
      apply List.count_eq_zero.2
      intro hm
      rw [← hws] at hm
      obtain ⟨w, hw⟩ := List.mem_iff_getElem?.1 hm
      obtain ⟨x, hx, hfx⟩ := hl.wLive w d hw
      rw [hdet] at hx; cases hx; rw [hfr] at hfx; cases hfx
    · intro hc
      cases hfr : det.freed with
      | true => rfl
      | false =>
          have hr := hl.refOk d det hdet hfr
          cases ha : det.alive with
          | true => exact absurd (hr.2.1.1 ha) hnotag
          | false => have := hr.2.2 ha; have h1 := hr.1; rw [hws, hc] at h1; omega

/-! ### non-vacuity -/

example : ∀ op ∈ [FdOp.opn 0 true, .copyCtor 1 0, .setNonBlock 1 true, .close 0, .io 1 0 5, .openFile 2 true, .openFile 3 false,
    .setCloexec 2, .isNonBlock 1], op.ok = true := by decide

example :
    let s := FdSys.init.run [.opn 0 true, .copyCtor 1 0, .setNonBlock 1 true, .close 0]
    -- the copy sees the close: it hands -1 to the kernel, its reads fail, isNonBlock reads the failed F_GETFL
    s.detailOf 0 = some 0 ∧ s.detailOf 1 = some 0 ∧ s.target 1 = some (-1) ∧ s.io 1 0 5 = (-1, [.rw 0 (-1)]) ∧
    s.isNonBlock 1 = (true, [.getfl (-1)]) ∧ (s.setNonBlock 1 false).2 = [.getfl (-1), .setfl (-1) false] ∧
    s.closeLog = [(0, true)] := by decide

example :
    let s := FdSys.init.run [.openFile 2 true, .openFile 3 false, .setNonBlock 2 true]
    s.target 2 = some 0 ∧ (0 : Int) ≤ 0 ∧ s.kFlags 0 = some (true, false) ∧ s.target 3 = none ∧
    s.io 2 2 (-1) = (-1, [.rw 2 0]) ∧ s.io 2 2 7 = (7, [.rw 2 0]) ∧ s.io 3 2 7 = (-1, []) := by decide

example :
    let s := FdSys.init.run [.opn 0 true, .openFile 1 false]
    (1 : Nat) < nFdSlots ∧ s.detailOf 1 = none ∧ (s.step (.copyAssign 0 1)).closeLog = [(0, true)] ∧
    (s.step (.moveAssign 0 1)).detailOf 0 = none := by decide

-- a history with two failed allocations (both evaluation orders) between successful ones
example :
    let xs : List CabOpX := [.op (.act (.alloc 1)), .allocFail true, .op (.act (.alloc 2)), .op (.act (.free ⟨1, 0⟩)), .op (.act (.alloc 3)), .allocFail false]
    (({} : Cab).runX xs).wrapped = false ∧ (({} : Cab).runX xs).lastId = 4 ∧ (({} : Cab).runX xs).lookup ⟨3, 1⟩ = some 2 ∧
    (({} : Cab).runX xs).lookup ⟨4, 0⟩ = some 3 ∧ (({} : Cab).runX xs).lookup ⟨1, 0⟩ = none ∧ (({} : Cab).runX xs).size = 2 := by decide

-- LifetimeTag: three watchers on one tag (ctor, assignment, get()), a copy and a move among them, the tag dies
example :
    let s := LtSys.init.run [.tnew 0, .wtag 0 0, .wtag 1 0, .wtag 2 0, .wcopyAssign 3 1, .wmoveCtor 4 2]
    (3 : Nat) < nLtWs ∧ (s.tagOf 0).isSome ∧ s.tagOf 0 = some 0 ∧ s.ws.count (some 0) = 4 ∧ s.isNull 2 = true ∧
    (s.step (.tdel 0)).isAlive 3 = false ∧ (s.step (.tdel 0)).details = [{ alive := false, cnt := 4, freed := false }] ∧
    (s.step (.tcopy 1 0)).tagOf 1 = some 1 ∧ (s.step (.tcopy 1 0)).isAlive 4 = true := by decide

end Tbox.C08
