/-
C08 — PROPERTY THEOREMS, third file (round 5): exceptions in nested places (a pooled constructor that
throws while nested inside other pool calls; `alloc()` / `reserve()` throwing inside a `foreach`
callback, caught there or leaving `foreach`), close functions that call back into the handles, and
the property as ONE statement (`C08_no_dangle_no_alias`).  Statements rely on Model.lean / Spec.lean
only; helper lemmas live in R5Proofs.
-/
import TboxModel.C08.PropsExt
import TboxModel.C08.R5Proofs
namespace Tbox.C08
open Cab FdSys

/-! ## Object pool: constructors that throw anywhere in a tree of nested calls -/

/-- **C08_pool_lost_never_reused.** Histories now contain `athr` events: the constructor of the innermost
`alloc` in progress exits by an exception after whatever nested `alloc`/`free` calls it made — caught by
the constructor / destructor / user code that made the call, or passed on by an enclosing constructor
(the next `athr`).  `Pool.lost` collects the blocks of those constructors.  In EVERY state of every
history: a lost block is neither parked, nor in use, nor handed to `::free`, and the block in which
the next `alloc` (nested or not) starts constructing is never a lost one — the leak of
`ObjectPool::alloc` (no handler around the placement-new) can never turn into a dangling or aliased
object.  All pool theorems (`C08_pool_no_alias`, `_ctor_dtor`, `_keep`, `_stat`) quantify over these
histories as well.  The throwing constructor itself: its frame goes, nothing is stored in its slot,
statistics / parked chain / released blocks / counters of constructor and destructor entries are
untouched, `thrown` is counted, and the frames and objects around it are as they were. -/
theorem C08_pool_lost_never_reused (ops : List PoolOp) (e : PEv) :
    let s := PoolSys.init.run ops
    (∀ b, b ∈ s.pool.lost → b ∉ s.pool.parked ∧ b ∉ s.inUse ∧ b ∉ s.pool.released) ∧
    (∀ b, (s.ev e).2 = some b → b ∉ s.pool.lost) ∧
    (∀ h v b rest, s.skip = 0 → s.stack = .allocF h v b :: rest →
      let s' := (s.ev .athr).1
      s'.stack = rest ∧ s'.slots = s.slots ∧ s'.pool.stat = s.pool.stat ∧ s'.pool.parked = s.pool.parked ∧
      s'.pool.freeNum = s.pool.freeNum ∧ s'.pool.released = s.pool.released ∧ s'.pool.lost = b :: s.pool.lost ∧
      s'.pool.thrown = s.pool.thrown + 1 ∧ s'.pool.ctor = s.pool.ctor ∧ s'.pool.dtor = s.pool.dtor ∧
      s'.inUse.Perm (s.inUse.erase b)) := by
  intro s
  have hi : SInv s := pool_run_inv _ ops pinit_inv
  refine ⟨?_, ?_, ?_⟩
  · intro b hb
    have := hi.pi.lostOk b hb
    exact ⟨this.2.1, this.2.2.1, this.2.2.2⟩
  · intro b hb hl
    have e1 := ev_some_block s e b hb
    have := hi.pi.lostOk b hl
    rcases allocA_block s.pool with h1 | h1
    · rw [← e1] at h1; exact this.2.1 h1
    · rw [← e1] at h1; omega
  · intro h v b rest hsk hst s'
    have es : s' = { s with pool := s.pool.ctorThrow b, stack := rest } := by
      show (s.ev .athr).1 = _
      simp [PoolSys.ev, hsk, hst]
    clear_value s'
    subst es
    refine ⟨rfl, rfl, rfl, rfl, rfl, rfl, rfl, rfl, rfl, rfl, ?_⟩
    have hnd := hi.pi.liveNodup
    simp only [PoolSys.inUse, hst, List.map_cons, Frame.blk] at hnd
    have hb : b ∉ s.liveBlocks := by
      intro hm
      have := (List.nodup_append.1 hnd).2.2 b hm b (by simp)
      exact this rfl
    have : (s.liveBlocks ++ b :: rest.map Frame.blk).erase b = s.liveBlocks ++ rest.map Frame.blk := by
      rw [List.erase_append_right _ hb]; simp
    have e1 : s.inUse = s.liveBlocks ++ b :: rest.map Frame.blk := by simp [PoolSys.inUse, hst, Frame.blk]
    have e2 : ({ s with pool := s.pool.ctorThrow b, stack := rest } : PoolSys).inUse = s.liveBlocks ++ rest.map Frame.blk := rfl
    rw [e1, e2, this]

/-- **C08_pool_athrow_is_events.** The round-4 operation "a constructor throws between calls" is the
two-event tree `abeg h v, athr`. -/
theorem C08_pool_athrow_is_events (s : PoolSys) (h v : Nat) (hst : s.stack = []) (hsk : s.skip = 0)
    (hslot : s.slots[h]? = some none) :
    s.step (.athrow h v) = s.step (.evs [.abeg h v, .athr]) := by
  simp [PoolSys.step, PoolSys.runEvs, PoolSys.ev, hst, hsk, hslot, PoolSys.reserved, Pool.allocThrow]

/-! ## Cabinet: `alloc()` / `reserve()` throwing inside a `foreach` callback, `reserve()` -/

theorem runY_append (c : Cab) (a b : List CabOpY) : c.runY (a ++ b) = (c.runY a).runY b := by
  induction a generalizing c with
  | nil => rfl
  | cons y a ih => simp only [List.cons_append, Cab.runY]; exact ih _

theorem specRunX_dead (c : Cab) (s : SpecCab) (xs : List CabOpX) (t : Token) (hd : s.dead t = true) :
    (specRunX c s xs).dead t = true := by
  induction xs generalizing c s with
  | nil => exact hd
  | cons x xs ih =>
      cases x with
      | op o => exact ih _ _ (C08_spec_dead_forever c s [o] t hd).1
      | allocFail b => exact ih _ _ hd

/-- **C08_cab_each_throw.** Histories in which, besides everything of `C08_cab_alloc_bad_alloc`, the
callbacks of `foreach` make calls that THROW — `alloc()` with `bad_alloc` in either evaluation order,
`reserve()` with `length_error` / `bad_alloc` — and either catch the exception themselves or let it
leave `foreach` (the iteration stops there: no later cell is visited), and `reserve(n)` is called for
any `n`:
(1) the cabinet after the history is the cabinet after the flat sequence of calls that were made
    (`flatY`), so it refines the specification for every token, the free-list/id/count invariant
    holds and `size()` is the number of live entries;
(2) an iteration without throwing calls is `foreach` of the earlier theorems;
(3) `reserve(n)` never changes any lookup (it throws exactly when `n` exceeds `max_size()`);
(4) once an exception has left `foreach` nothing more is visited or called. -/
theorem C08_cab_each_throw (ys : List CabOpY) (t : Token) (hw : (({} : Cab).runY ys).wrapped = false) :
    let c := ({} : Cab).runY ys
    (c = ({} : Cab).runX (({} : Cab).flatY ys) ∧ c.lookup t = (specRunX {} {} (({} : Cab).flatY ys)).lookup t ∧
      Inv c ∧ c.size = c.liveTokens.length) ∧
    (∀ f : Nat → List CbAct, ((c.foreachX (fun k => (f k).map .act)).cab, (c.foreachX (fun k => (f k).map .act)).vis) = c.foreach f ∧
      (c.foreachX (fun k => (f k).map .act)).aborted = false) ∧
    (∀ n, (c.reserve n).1 = c ∧ ((c.reserve n).2 = true ↔ cabMaxCells < n)) ∧
    (∀ (f : Nat → List CbActX) (ps : List Nat) (st : EachX), st.aborted = true → ps.foldl (Cab.eachStepX f) st = st) := by
  intro c
  have e : c = ({} : Cab).runX (({} : Cab).flatY ys) := runY_eq_runX {} ys
  have hw' : (({} : Cab).runX (({} : Cab).flatY ys)).wrapped = false := by rw [← e]; exact hw
  obtain ⟨hi, hr⟩ := runX_inv_refines {} {} _ init_inv init_refines hw'
  refine ⟨⟨e, ?_, ?_, ?_⟩, fun f => foreachX_plain c f, ?_, fun f ps st h => foldX_aborted f ps st h⟩
  · rw [e]; exact hr.look t
  · rw [e]; exact hi
  · rw [e, liveTokens_length]; exact hi.count
  · intro n; simp [Cab.reserve]

/-- **C08_cab_each_throw_stale.** … and in those histories a token that has been issued and resolves to
nothing resolves to nothing for ever, whatever throws later. -/
theorem C08_cab_each_throw_stale (pre post : List CabOpY) (t : Token)
    (hw : (({} : Cab).runY (pre ++ post)).wrapped = false) :
    let c1 := ({} : Cab).runY pre
    t.id ≤ c1.lastId → c1.lookup t = none → (c1.runY post).lookup t = none := by
  intro c1 hid hl
  rw [runY_append] at hw
  have e2 : c1.runY post = c1.runX (c1.flatY post) := runY_eq_runX c1 post
  rw [e2] at hw ⊢
  have hw1 : c1.wrapped = false := by
    cases hq : c1.wrapped with
    | false => rfl
    | true => have := runX_wrapped_mono c1 (c1.flatY post) hq; rw [hw] at this; cases this
  have e1 : c1 = ({} : Cab).runX (({} : Cab).flatY pre) := runY_eq_runX {} pre
  have hi1 : Inv c1 := by
    rw [e1]; exact (runX_inv_refines {} {} _ init_inv init_refines (by rw [← e1]; exact hw1)).1
  let s : SpecCab := { live := fun t' => if t' = t then none else c1.lookup t', dead := fun t' => decide (t' = t) }
  have r : Refines c1 s := by
    constructor
    · intro t'
      by_cases ht : t' = t
      · simp [s, SpecCab.lookup, ht, hl]
      · simp [s, SpecCab.lookup, ht]
    · intro t' hd
      simp [s] at hd; rw [hd]; exact hid
  have r2 := (runX_inv_refines c1 s _ hi1 r hw).2
  rw [r2.look t]
  have := specRunX_dead c1 s (c1.flatY post) t (by simp [s])
  simp [SpecCab.lookup, this]

/-! ## Fd: close functions that call back into the handles -/

/-- **C08_fd_reentrant.** Programs in which the close function of `close()` / `reset()` / a destructor
runs a script of operations on the handles (any operations, on any handles — the one being closed and
its copies included — nested to any depth): with the code after patches/C08-06 such a program IS the
flat history of the operations that take place (`flatD`, each a member of the program), so every
theorem about histories holds after it; spelled out: reference counts are the numbers of handles, no
descriptor is closed twice — however often the close function re-enters `close()` on a copy —, none is
closed while a handle still reports it, every opened descriptor is closed or still held, and no member
function hands a closed descriptor to the kernel. -/
theorem C08_fd_reentrant (prog : List (Nat × FdOp)) (hok : ∀ x ∈ prog, x.2.ok = true) (h : Nat) :
    let s := FdSys.init.runD [] prog
    s = FdSys.init.run (FdSys.init.flatD [] prog) ∧ (∀ op ∈ FdSys.init.flatD [] prog, op ∈ prog.map (·.2)) ∧
    (∀ (d : Nat) (det : Detail), s.details[d]? = some det → det.freed = false →
        det.ref = (s.handles.count (some d) : Int) ∧ 1 ≤ det.ref) ∧
    (s.closeLog.map (·.1)).Nodup ∧
    (0 ≤ s.get h → (s.get h).toNat ∉ s.closeLog.map (·.1)) ∧
    (∀ r, r < s.nextRes → (r ∈ s.closeLog.map (·.1) ↔ ¬ ∃ h, s.get h = (r : Int))) ∧
    (∀ fd, s.target h = some fd → 0 ≤ fd → s.kOpen fd = true) := by
  intro s
  have e : s = FdSys.init.run (FdSys.init.flatD [] prog) := runD_eq_run _ _ _
  have hmem := flatD_mem FdSys.init [] prog
  have hok' : ∀ op ∈ FdSys.init.flatD [] prog, op.ok = true := by
    intro op hop
    obtain ⟨x, hx, e'⟩ := List.mem_map.1 (hmem op hop)
    rw [← e']; exact hok x hx
  have h1 := C08_fd_refcount _ hok'
  have h2 := C08_fd_close_once _ hok'
  have h3 := C08_fd_no_use_after_close _ hok' h
  simp only at h1 h2 h3
  rw [← e] at h1 h2 h3
  exact ⟨e, hmem, h1.1, h2.1, h2.2.1 h, h2.2.2, fun fd ht h0 => (h3.2.1 fd ht).2 h0⟩

/-- **C08_fd_reentrant_close_counterexample.** `close()` as it stood before patches/C08-06 (the close
function was called while the record still held the descriptor and the function): (a) a close
function that calls `close()` on a COPY of the handle is called a second time for the same descriptor
— the descriptor is closed twice; (b) one that resets the handle it is being called through makes
`close()` write through a null `detail_` afterwards (and has closed the descriptor twice as well).
After the patch the same programs close descriptor 0 exactly once. -/
theorem C08_fd_reentrant_close_counterexample :
    let s := FdSys.init.run [.opn 0 true, .copyCtor 1 0]
    let s1 := FdSys.init.run [.opn 0 true]
    (∃ r, s.closeOld 0 [.close 1] = some r ∧ r.closeLog = [(0, true), (0, true)]) ∧
    s1.closeOld 0 [.reset 0] = none ∧
    (FdSys.init.runD [] [(0, .opn 0 true), (0, .copyCtor 1 0), (0, .close 0), (1, .close 1)]).closeLog = [(0, true)] ∧
    (FdSys.init.runD [] [(0, .opn 0 true), (0, .close 0), (1, .reset 0), (1, .close 0)]).closeLog = [(0, true)] := by
  refine ⟨⟨_, rfl, by decide⟩, by decide, by decide, by decide⟩

/-! ## The property as one statement -/

/-- **C08_no_dangle_no_alias.** *Handles never dangle or alias: cabinet tokens, pooled objects, shared fds.*
For every history of a cabinet (alloc / update / free / clear / iteration with calls — also throwing
ones — from inside the callbacks / failed allocations / reserve) whose id counter has not wrapped, every
history of a pool (alloc / free nested to any depth in constructors and destructors, constructors that
throw, any retention limit, re-creation) and every program of descriptor-handle operations (construct /
open / copy / move / assign / swap / reset / close / destroy / the kernel-facing members, with close
functions that call back into the handles):

* **cabinet** — a token resolves to exactly what the specification holds for it: the object stored with it
  from its allocation (or last update) until it is freed or cleared; a token that has been issued and
  resolves to nothing resolves to nothing after every continuation of the history, whatever cells are
  reused; two tokens that both resolve and share an id are the same token; `size()` is the number of
  tokens that resolve.
* **pool** — the block in which an `alloc` starts constructing is not in use (neither a live object
  nor one under construction / destruction), was not given back to the system and is not the lost
  block of a constructor that threw; blocks in use are pairwise distinct and none of them is parked;
  constructor entries and destructor entries balance against the objects in use (one of each per
  alloc/free pair; a constructor that threw owes no destructor).
* **descriptor handles** — no descriptor is closed twice; none is closed while a handle still reports
  it ("never earlier"); every opened descriptor is either closed or still reported by a handle
  ("exactly once, on explicit close or when the last copy goes away"). -/
theorem C08_no_dangle_no_alias
    (cabPre cabPost : List CabOpY) (t t' : Token) (poolOps : List PoolOp) (e : PEv)
    (fdProg : List (Nat × FdOp)) (h : Nat)
    (hw : (({} : Cab).runY (cabPre ++ cabPost)).wrapped = false)
    (hok : ∀ x ∈ fdProg, x.2.ok = true) :
    let c1 := ({} : Cab).runY cabPre
    let c := ({} : Cab).runY (cabPre ++ cabPost)
    let p := PoolSys.init.run poolOps
    let f := FdSys.init.runD [] fdProg
    -- cabinet
    (c.lookup t = (specRunX {} {} (({} : Cab).flatY (cabPre ++ cabPost))).lookup t ∧
     (t.id ≤ c1.lastId → c1.lookup t = none → c.lookup t = none) ∧
     ((c.lookup t).isSome → (c.lookup t').isSome → t.id = t'.id → t = t') ∧
     c.size = c.liveTokens.length ∧ (∀ u, u ∈ c.liveTokens ↔ (c.lookup u).isSome = true) ∧ c.liveTokens.Nodup) ∧
    -- pool
    ((∀ b, (p.ev e).2 = some b → b ∉ p.inUse ∧ b ∉ p.pool.released ∧ b ∉ p.pool.lost) ∧
     p.inUse.Nodup ∧ (∀ b, b ∈ p.pool.parked → b ∉ p.inUse) ∧ p.pool.parked.Nodup ∧
     p.pool.ctor + nFree p = p.pool.dtor + p.inUse.length + p.pool.leaked + p.pool.thrown) ∧
    -- descriptor handles
    ((f.closeLog.map (·.1)).Nodup ∧ (0 ≤ f.get h → (f.get h).toNat ∉ f.closeLog.map (·.1)) ∧
     (∀ r, r < f.nextRes → (r ∈ f.closeLog.map (·.1) ↔ ¬ ∃ h, f.get h = (r : Int)))) := by
  intro c1 c p f
  have hcab := C08_cab_each_throw (cabPre ++ cabPost) t hw
  obtain ⟨⟨ec, hlook, hinv, hsize⟩, _, _, _⟩ := hcab
  have hstale := C08_cab_each_throw_stale cabPre cabPost t hw
  have hpool := C08_pool_no_alias poolOps e
  have hlost := C08_pool_lost_never_reused poolOps e
  have hbal := C08_pool_ctor_dtor poolOps e
  have hfd := C08_fd_reentrant fdProg hok h
  refine ⟨⟨hlook, ?_, ?_, hsize, mem_liveTokens c, liveTokens_nodup c⟩, ⟨?_, hpool.2.1, hpool.2.2.1, hpool.1, hbal.1⟩,
    ⟨hfd.2.2.2.1, hfd.2.2.2.2.1, hfd.2.2.2.2.2.1⟩⟩
  · intro hid hl
    have := hstale hid hl
    rw [← runY_append] at this
    exact this
  · intro h1 h2 hid
    obtain ⟨o1, ho1⟩ := Option.isSome_iff_exists.1 h1
    obtain ⟨o2, ho2⟩ := Option.isSome_iff_exists.1 h2
    obtain ⟨hn1, hc1⟩ := (lookup_some c t o1).1 ho1
    obtain ⟨_, hc2⟩ := (lookup_some c t' o2).1 ho2
    exact token_ext _ _ hid (hinv.idDistinct _ _ _ _ hc1 hc2 hn1 hid)
  · intro b hb
    exact ⟨(hpool.2.2.2.2 b hb).1, (hpool.2.2.2.2 b hb).2, hlost.2.1 b hb⟩

/-! ### non-vacuity -/

-- a tree of nested calls in which an inner constructor throws and is caught by the outer one, then one
-- in which the exception passes through both; the lost blocks 1, 2, 3 are never handed out again
example :
    let s := PoolSys.init.run [.renew 2, .evs [.abeg 0 7, .abeg 1 8, .athr, .aend], .evs [.abeg 2 1, .abeg 3 2, .athr, .athr],
                               .evs [.fbeg 0, .fend], .evs [.abeg 4 5, .aend]]
    s.pool.lost = [2, 3, 1] ∧ s.pool.thrown = 3 ∧ s.pool.ctor = 5 ∧ s.pool.dtor = 1 ∧ s.stack = [] ∧ s.skip = 0 ∧
    s.slots[4]? = some (some (0, 5)) ∧ s.pool.parked = [] ∧ s.pool.stat = { allocT := 2, freeT := 1, peakA := 1, peakF := 1 } := by
  decide

example :
    let s := PoolSys.init.run [.evs [.abeg 0 7, .abeg 1 8]]
    s.skip = 0 ∧ s.stack = [.allocF 1 8 1, .allocF 0 7 0] ∧ ((s.ev .athr).1).stack = [.allocF 0 7 0] := by decide

example : (PoolSys.init).stack = [] ∧ (PoolSys.init).skip = 0 ∧ (PoolSys.init).slots[3]? = some none := by decide

-- a callback whose alloc fails and is caught, a later one whose reserve throws out of foreach
example :
    let ys : List CabOpY := [.x (.op (.act (.alloc 1))), .x (.op (.act (.alloc 2))), .x (.op (.act (.alloc 3))),
      .eachX (fun k => if k = 0 then [.act (.free ⟨2, 1⟩), .throwing true true, .act (.alloc 9)]
                       else if k = 1 then [.throwing false false, .act .clear] else []), .reserve 5, .reserve (cabMaxCells + 1)]
    let c := ({} : Cab).runY ys
    c.wrapped = false ∧ c.lookup ⟨5, 1⟩ = some 9 ∧ c.lookup ⟨2, 1⟩ = none ∧ c.size = 3 ∧ c.lastId = 5 ∧
    ((({} : Cab).runY (ys.take 3)).foreachX (fun k => if k = 0 then [.act (.free ⟨2, 1⟩), .throwing true true, .act (.alloc 9)]
                       else if k = 1 then [.throwing false false, .act .clear] else [])).vis = [(0, 1), (1, 9)] ∧
    ((c.reserve (cabMaxCells + 1)).2 = true) := by decide

example : ∀ x ∈ [((0 : Nat), FdOp.opn 0 true), (0, .copyCtor 1 0), (0, .close 0), (1, .close 1), (1, .reset 0), (2, .opn 2 true), (0, .fresh 1)],
    x.2.ok = true := by decide

example :
    -- close 0 fires; its script closes the copy (nothing more to close), resets handle 0 (shared: no close);
    -- `(2, opn 2)` belongs to `reset 0`, which did not call a close function: it does not run
    let s := FdSys.init.runD [] [(0, .opn 0 true), (0, .copyCtor 1 0), (0, .close 0), (1, .close 1), (1, .reset 0), (2, .opn 2 true), (0, .fresh 1)]
    s.closeLog = [(0, true)] ∧ s.nextRes = 1 ∧
    FdSys.init.flatD [] [(0, .opn 0 true), (0, .copyCtor 1 0), (0, .close 0), (1, .close 1), (1, .reset 0), (2, .opn 2 true), (0, .fresh 1)]
      = [.opn 0 true, .copyCtor 1 0, .close 0, .close 1, .reset 0, .fresh 1] := by decide

end Tbox.C08
