/- C08 — helper lemmas of round 5: iterations whose callbacks throw, re-entrant close functions,
nested constructor exceptions (core Lean only). -/
import TboxModel.C08.ExtProofs
import TboxModel.C08.PoolProofs
import TboxModel.C08.FdMore
namespace Tbox.C08
open Cab

/-! ### cabinet: throwing calls inside callbacks -/

theorem runX_append (c : Cab) (a b : List CabOpX) : c.runX (a ++ b) = (c.runX a).runX b := by
  induction a generalizing c with
  | nil => rfl
  | cons x a ih => simp only [List.cons_append, Cab.runX]; exact ih _

theorem specRunX_append (c : Cab) (s : SpecCab) (a b : List CabOpX) :
    specRunX c s (a ++ b) = specRunX (c.runX a) (specRunX c s a) b := by
  induction a generalizing c s with
  | nil => rfl
  | cons x a ih =>
      cases x with
      | op o => simp only [List.cons_append, specRunX, Cab.runX, Cab.stepX]; exact ih _ _
      | allocFail f => simp only [List.cons_append, specRunX, Cab.runX, Cab.stepX]; exact ih _ _

/-- one callback invocation is the history of the calls it made -/
theorem runCbX_eq (c : Cab) (l : List CbActX) : (c.runCbX l).1 = c.runX (traceCbX c l) := by
  induction l generalizing c with
  | nil => rfl
  | cons a as ih =>
      cases a with
      | act a => simp only [Cab.runCbX, traceCbX, Cab.runX, Cab.stepX, Cab.step]; exact ih _
      | throwing b caught =>
          cases caught with
          | true => simp only [Cab.runCbX, traceCbX, Cab.runX, Cab.stepX]; exact ih _
          | false => simp only [Cab.runCbX, traceCbX, Cab.runX, Cab.stepX]
      | allocOom o b caught =>
          simp only [Cab.runCbX, traceCbX]
          split
          · simp only [Cab.runX, Cab.stepX, Cab.step, Cab.act]; exact ih _
          · cases caught with
            | true => simp only [if_true, Cab.runX, Cab.stepX]; exact ih _
            | false => simp [Cab.runX, Cab.stepX]

theorem eachStepX_trace (c : Cab) (f : Nat → List CbActX) (st : EachX) (p : Nat) (h : st.cab = c.runX st.trace) :
    (Cab.eachStepX f st p).cab = c.runX (Cab.eachStepX f st p).trace := by
  unfold Cab.eachStepX
  split
  · exact h
  · split
    · exact h
    · split
      · simp only [runX_append, ← h]; exact runCbX_eq _ _
      · exact h

theorem foldX_trace (c : Cab) (f : Nat → List CbActX) (ps : List Nat) (st : EachX) (h : st.cab = c.runX st.trace) :
    (ps.foldl (Cab.eachStepX f) st).cab = c.runX (ps.foldl (Cab.eachStepX f) st).trace := by
  induction ps generalizing st with
  | nil => exact h
  | cons p ps ih => simp only [List.foldl_cons]; exact ih _ (eachStepX_trace c f st p h)

/-- an iteration with throwing calls changes the cabinet exactly as the calls its callbacks made -/
theorem foreachX_eq_runX (c : Cab) (f : Nat → List CbActX) : (c.foreachX f).cab = c.runX (c.foreachX f).trace :=
  foldX_trace c f _ { cab := c } rfl

theorem runY_eq_runX (c : Cab) (ys : List CabOpY) : c.runY ys = c.runX (c.flatY ys) := by
  induction ys generalizing c with
  | nil => rfl
  | cons y ys ih =>
      cases y with
      | x o => simp only [Cab.runY, Cab.flatY, Cab.stepY, Cab.runX]; exact ih _
      | eachX f =>
          simp only [Cab.runY, Cab.flatY, Cab.stepY, runX_append]
          rw [← foreachX_eq_runX]; exact ih _
      | reserve n => simp only [Cab.runY, Cab.flatY, Cab.stepY, Cab.reserve]; exact ih _

/-- the fold of `foreachX` once an exception has left `foreach`: nothing more happens -/
theorem foldX_aborted (f : Nat → List CbActX) (ps : List Nat) (st : EachX) (h : st.aborted = true) :
    ps.foldl (Cab.eachStepX f) st = st := by
  induction ps with
  | nil => rfl
  | cons p ps ih => simp only [List.foldl_cons]; rw [show Cab.eachStepX f st p = st by simp [Cab.eachStepX, h]]; exact ih

/-- without throwing calls `foreachX` is `foreach` -/
theorem runCbX_plain (c : Cab) (l : List CbAct) : c.runCbX (l.map .act) = (c.runActs l, false) := by
  induction l generalizing c with
  | nil => rfl
  | cons a as ih => simp only [List.map_cons, Cab.runCbX, Cab.runActs]; exact ih _

theorem foldX_plain (f : Nat → List CbAct) (ps : List Nat) (st : EachX) (h : st.aborted = false) :
    let r := ps.foldl (Cab.eachStepX (fun k => (f k).map .act)) st
    (r.cab, r.vis) = ps.foldl (Cab.eachStep f) (st.cab, st.vis) ∧ r.aborted = false := by
  induction ps generalizing st with
  | nil => exact ⟨rfl, h⟩
  | cons p ps ih =>
      simp only [List.foldl_cons]
      have key : let st' := Cab.eachStepX (fun k => (f k).map .act) st p
          (st'.cab, st'.vis) = Cab.eachStep f (st.cab, st.vis) p ∧ st'.aborted = false := by
        simp only [Cab.eachStepX, Cab.eachStep, h]
        cases hc : st.cab.cells[p]? with
        | none => simp [h]
        | some cell =>
            by_cases hid : cell.id = 0
            · simp [hid, h]
            · simp [hid, runCbX_plain]
      obtain ⟨k1, k2⟩ := key
      have := ih _ k2
      simp only at this k1
      rw [k1] at this
      exact this

theorem foreachX_plain (c : Cab) (f : Nat → List CbAct) :
    let r := c.foreachX (fun k => (f k).map .act)
    (r.cab, r.vis) = c.foreach f ∧ r.aborted = false :=
  foldX_plain f _ { cab := c } rfl

/-! ### Fd: re-entrant programs are flat histories -/

theorem runD_eq_run (s : FdSys) (fired : List Bool) (l : List (Nat × FdOp)) :
    s.runD fired l = s.run (s.flatD fired l) := by
  induction l generalizing s fired with
  | nil => rfl
  | cons x rest ih =>
      obtain ⟨d, op⟩ := x
      simp only [FdSys.runD, FdSys.flatD]
      split
      · simp only [FdSys.run]; exact ih _ _
      · exact ih _ _

theorem flatD_mem (s : FdSys) (fired : List Bool) (l : List (Nat × FdOp)) :
    ∀ op ∈ s.flatD fired l, op ∈ l.map (·.2) := by
  induction l generalizing s fired with
  | nil => intro op h; cases h
  | cons x rest ih =>
      obtain ⟨d, o⟩ := x
      intro op h
      simp only [FdSys.flatD] at h
      split at h
      · simp only [List.mem_cons] at h
        rcases h with h | h
        · simp [h]
        · exact List.mem_cons_of_mem _ (ih _ _ op h)
      · exact List.mem_cons_of_mem _ (ih _ _ op h)

/-- with depth 0 only, a program is the plain history -/
theorem flatD_depth0 (s : FdSys) (fired : List Bool) (ops : List FdOp) :
    s.flatD fired (ops.map fun o => (0, o)) = ops := by
  induction ops generalizing s fired with
  | nil => rfl
  | cons o ops ih => simp only [List.map_cons, FdSys.flatD, List.take_zero, List.length_nil, List.all_nil, and_self, if_true]; rw [ih]

/-! ### pool: a block handed out is the head of the chain or a new one -/

theorem ev_some_block (s : PoolSys) (e : PEv) (b : Nat) (h : (s.ev e).2 = some b) : b = s.pool.allocA.2 := by
  cases e with
  | abeg h' v =>
      simp only [PoolSys.ev] at h
      (repeat' split at h) <;> simp at h
      exact h.symm
  | aend => simp only [PoolSys.ev] at h; (repeat' split at h) <;> simp at h
  | fbeg h' => simp only [PoolSys.ev] at h; (repeat' split at h) <;> simp at h
  | fend => simp only [PoolSys.ev] at h; (repeat' split at h) <;> simp at h
  | athr => simp only [PoolSys.ev] at h; (repeat' split at h) <;> simp at h

theorem allocA_block (p : Pool) : p.allocA.2 ∈ p.parked ∨ p.allocA.2 = p.nextBlk := by
  unfold Pool.allocA
  split
  · right; rfl
  · rename_i b rest hp; left; simp [hp]

end Tbox.C08
