/-
C08 — abstract specification of the cabinet: a partial map from tokens to objects together
with the set of tokens that have been retired.  A retired token never resolves again — that is
the "to nothing afterwards, for ever" of the property statement, built into the specification:
`dead` only grows and takes precedence over `live`.
-/
import TboxModel.C08.Model
namespace Tbox.C08

structure SpecCab where
  live : Token → Option Nat := fun _ => none
  dead : Token → Bool := fun _ => false

namespace SpecCab

def lookup (s : SpecCab) (t : Token) : Option Nat := if s.dead t then none else s.live t

/-- a new entry stored under the token the cabinet handed out -/
def alloc (s : SpecCab) (tok : Token) (o : Nat) : SpecCab :=
  { s with live := fun t => if t = tok then some o else s.live t }

def update (s : SpecCab) (t0 : Token) (o : Nat) : SpecCab :=
  if (s.lookup t0).isSome then { s with live := fun t => if t = t0 then some o else s.live t } else s

def free (s : SpecCab) (t0 : Token) : SpecCab :=
  if (s.lookup t0).isSome then
    { live := fun t => if t = t0 then none else s.live t, dead := fun t => decide (t = t0) || s.dead t }
  else s

def clear (s : SpecCab) : SpecCab :=
  { live := fun _ => none, dead := fun t => s.dead t || (s.lookup t).isSome }

end SpecCab

/-- the specification follows the cabinet only to learn which token `alloc` returned -/
def specAct (c : Cab) (s : SpecCab) : CbAct → SpecCab
  | .alloc o => match (c.alloc o).2 with
      | some tok => s.alloc tok o
      | none => s
  | .update t o => s.update t o
  | .free t => s.free t
  | .clear => s.clear

def specActs (c : Cab) (s : SpecCab) : List CbAct → SpecCab
  | [] => s
  | a :: as => specActs (c.act a).1 (specAct c s a) as

/-- an iteration is specified as the calls its callbacks made, one after the other -/
def specStep (c : Cab) (s : SpecCab) : CabOp → SpecCab
  | .act a => specAct c s a
  | .each f => specActs c s (c.eachActs f)

def specRun (c : Cab) (s : SpecCab) : List CabOp → SpecCab
  | [] => s
  | op :: ops => specRun (c.step op) (specStep c s op) ops

/-- a failed `alloc()` stores nothing and retires nothing -/
def specRunX (c : Cab) (s : SpecCab) : List CabOpX → SpecCab
  | [] => s
  | .op o :: xs => specRunX (c.step o) (specStep c s o) xs
  | .allocFail b :: xs => specRunX (c.allocThrow b) s xs

/-- the tokens that currently resolve, one per occupied cell, in cell order -/
def Cab.tokenAt (cells : List Cell) (k p : Nat) : Option Token :=
  match cells[p - k]? with
  | some cell => if cell.id ≠ 0 then some ⟨cell.id, p⟩ else none
  | none => none

def Cab.liveTokens (c : Cab) : List Token :=
  (List.range c.cells.length).filterMap (Cab.tokenAt c.cells 0)

end Tbox.C08
