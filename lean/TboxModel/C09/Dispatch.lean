/-
C09 — helper lemmas for the interleaving model of Dispatch under the global lock.
-/
import TboxModel.C09.Model
namespace Tbox.C09

variable {α β : Type}

/-- the not yet executed part of the call whose thread holds the lock -/
def Sys.pending (s : Sys α β) : List α :=
  match s.holder with
  | some t => ((s.threads t).cur).getD []
  | none => []

/-- calls thread `t` has started, in order -/
def Sys.started (s : Sys α β) (t : Nat) : List β :=
  (s.order.filter (fun p => p.1 == t)).map (·.2)

/-- invariant of the locked system, relative to the program `prog` -/
structure LInv (acts : β → List α) (prog : Nat → List β) (s : Sys α β) : Prop where
  onlyHolder : ∀ t, (s.threads t).cur ≠ none → s.holder = some t
  contiguous : s.trace ++ s.pending = (s.order.map (fun p => acts p.2)).flatten
  perThread : ∀ t, s.started t ++ (s.threads t).todo = prog t

theorem init_inv (acts : β → List α) (prog : Nat → List β) : LInv acts prog (sysInit prog : Sys α β) := by
  refine ⟨?_, ?_, ?_⟩
  · intro t h; simp [sysInit] at h
  · simp [sysInit, Sys.pending]
  · intro t; simp [sysInit, Sys.started]


theorem sysStep_idle (acts : β → List α) (b : Bool) (s : Sys α β) (t : Nat) (hc : (s.threads t).cur = none)
    (htd : (s.threads t).todo = []) : sysStep acts b s t = s := by
  simp [sysStep, hc, htd]

theorem sysStep_blocked (acts : β → List α) (s : Sys α β) (t u : Nat) (hc : (s.threads t).cur = none) (c : β) (rest : List β)
    (htd : (s.threads t).todo = c :: rest) (hh : s.holder = some u) : sysStep acts true s t = s := by
  simp [sysStep, hc, htd, hh]

theorem sysStep_acquire (acts : β → List α) (s : Sys α β) (t : Nat) (hc : (s.threads t).cur = none) (c : β) (rest : List β)
    (htd : (s.threads t).todo = c :: rest) (hh : s.holder = none) :
    sysStep acts true s t = ({ s with threads := s.setThread t ({ todo := rest, cur := some (acts c) } : TState α β)
                                      holder := some t
                                      order := s.order ++ [(t, c)] } : Sys α β) := by
  simp [sysStep, hc, htd, hh]

theorem sysStep_release (acts : β → List α) (b : Bool) (s : Sys α β) (t : Nat) (hc : (s.threads t).cur = some []) :
    sysStep acts b s t = { s with threads := s.setThread t { s.threads t with cur := none }, holder := none } := by
  simp [sysStep, hc]

theorem sysStep_act (acts : β → List α) (b : Bool) (s : Sys α β) (t : Nat) (a : α) (as : List α) (hc : (s.threads t).cur = some (a :: as)) :
    sysStep acts b s t = { s with threads := s.setThread t { s.threads t with cur := some as }, trace := s.trace ++ [a] } := by
  simp [sysStep, hc]

theorem step_inv (acts : β → List α) (prog : Nat → List β) (s : Sys α β) (t : Nat) (h : LInv acts prog s) :
    LInv acts prog (sysStep acts true s t) := by
  cases hc : (s.threads t).cur with
  | none =>
    cases htd : (s.threads t).todo with
    | nil => rw [sysStep_idle acts true s t hc htd]; exact h
    | cons c rest =>
      cases hh : s.holder with
      | some u => rw [sysStep_blocked acts s t u hc c rest htd hh]; exact h
      | none =>
        rw [sysStep_acquire acts s t hc c rest htd hh]
        have hpend : s.pending = [] := by simp [Sys.pending, hh]
        refine ⟨?_, ?_, ?_⟩
        · intro u hu
          simp only [Sys.setThread] at hu
          by_cases hut : u = t
          · simp [hut]
          · simp only [hut, ↓reduceIte] at hu
            have := h.onlyHolder u hu
            rw [hh] at this; cases this
        · have := h.contiguous
          rw [hpend] at this
          simp only [Sys.pending, Sys.setThread, ↓reduceIte, Option.getD_some, List.map_append,
            List.flatten_append, List.map_cons, List.map_nil, List.flatten_cons, List.flatten_nil,
            List.append_nil]
          rw [← this]; simp
        · intro u
          have := h.perThread u
          simp only [Sys.started, Sys.setThread, List.filter_append]
          by_cases hut : u = t
          · subst hut
            simp only [Sys.started, htd] at this
            simp [← this]
          · simp only [Sys.started] at this
            have hne : (t == u) = false := by simp; omega
            simp [hut, hne, this]
  | some l =>
    have hhold : s.holder = some t := h.onlyHolder t (by simp [hc])
    cases l with
    | nil =>
      rw [sysStep_release acts true s t hc]
      refine ⟨?_, ?_, ?_⟩
      · intro u hu
        simp only [Sys.setThread] at hu
        by_cases hut : u = t
        · simp [hut] at hu
        · simp only [hut, ↓reduceIte] at hu
          have := h.onlyHolder u hu
          rw [hhold] at this; cases this; exact absurd rfl hut
      · have := h.contiguous
        simp only [Sys.pending, hhold, hc, Option.getD_some, List.append_nil] at this
        simp [Sys.pending, this]
      · intro u
        have := h.perThread u
        simp only [Sys.started, Sys.setThread] at this ⊢
        by_cases hut : u = t
        · subst hut; simpa using this
        · simpa [hut] using this
    | cons a as =>
      rw [sysStep_act acts true s t a as hc]
      refine ⟨?_, ?_, ?_⟩
      · intro u hu
        simp only [Sys.setThread] at hu
        by_cases hut : u = t
        · rw [hut]; exact hhold
        · simp only [hut, ↓reduceIte] at hu
          exact h.onlyHolder u hu
      · have := h.contiguous
        simp only [Sys.pending, hhold, hc, Option.getD_some] at this
        simp [Sys.pending, hhold, Sys.setThread, ← this]
      · intro u
        have := h.perThread u
        simp only [Sys.started, Sys.setThread] at this ⊢
        by_cases hut : u = t
        · subst hut; simpa using this
        · simpa [hut] using this

theorem run_inv (acts : β → List α) (prog : Nat → List β) (sched : List Nat) : ∀ (s : Sys α β), LInv acts prog s →
    LInv acts prog (sysRun acts true s sched) := by
  induction sched with
  | nil => intro s h; exact h
  | cons t ts ih => intro s h; exact ih _ (step_inv acts prog s t h)

/-- when every thread `< n` is done and the lock is free nothing is pending -/
theorem pending_nil_of_free (s : Sys α β) (h : s.holder = none) : s.pending = [] := by
  simp [Sys.pending, h]

theorem map_flatten_flatten {γ : Type} (f : α → List γ) (ls : List (List α)) :
    (ls.flatten.map f).flatten = (ls.map (fun l => (l.map f).flatten)).flatten := by
  induction ls with
  | nil => rfl
  | cons l ls ih => simp only [List.flatten_cons, List.map_append, List.flatten_append, List.map_cons, ih]

end Tbox.C09
