/-
C09 — helper lemmas for the file sink under write faults (`flushW`, oracle of `write` results).
-/
import TboxModel.C09.Model
namespace Tbox.C09

theorem writeAll_split : ∀ (o : List (Option Nat)) (data : Bytes),
    (writeAll o data).1 ++ (writeAll o data).2 = data := by
  intro o
  induction o with
  | nil => intro data; simp [writeAll]
  | cons x os ih =>
    intro data
    cases x with
    | none => simp [writeAll]
    | some k =>
      simp only [writeAll]
      split
      · rename_i h; simp [List.isEmpty_iff.mp h]
      · split
        · simp
        · simp only [List.append_assoc, ih, List.take_append_drop]


/-- ghost view under write faults: closed files are whole groups of records; the open file
plus the cache is the concatenation of the records since the last rollover -/
structure WInv (s : FileSt) (recs : List Bytes) : Prop where
  groups : ∃ (gc : List (List Bytes)) (gcur : List Bytes),
    s.closed = gc.map List.flatten ∧ gc.flatten ++ gcur = recs ∧ curData s ++ s.cache = gcur.flatten
  idle : s.cur = none → s.cache = []

theorem winv_init : WInv {} [] := ⟨⟨[], [], rfl, rfl, rfl⟩, fun _ => rfl⟩

theorem fileBatchW_inv (max : Nat) (s : FileSt) (recs : List Bytes)
    (b : List Bytes × List (Option Nat)) (h : WInv s recs) :
    WInv (fileBatchW max s b) (recs ++ b.1) := by
  unfold fileBatchW
  by_cases hb : b.1 = []
  · simp [hb]; exact h
  · have hbe : b.1.isEmpty = false := by cases hb' : b.1 <;> simp_all
    simp only [hbe, Bool.false_eq_true, ↓reduceIte]
    obtain ⟨gc, gcur, hcl, hrec, hdat⟩ := h.groups
    have hsp := writeAll_split b.2 (s.cache ++ b.1.flatten)
    have hcd : curData { s with cache := s.cache ++ b.1.flatten } = curData s := rfl
    have hct : curTotal { s with cache := s.cache ++ b.1.flatten } = curTotal s := rfl
    simp only [flushW, hcd, hct]
    have hall : curData s ++ (writeAll b.2 (s.cache ++ b.1.flatten)).1 ++ (writeAll b.2 (s.cache ++ b.1.flatten)).2
        = (gcur ++ b.1).flatten := by
      rw [List.append_assoc, hsp, ← List.append_assoc, hdat]; simp
    by_cases hr : (writeAll b.2 (s.cache ++ b.1.flatten)).2 = []
    · rw [hr, List.append_nil] at hall
      simp only [hr, List.isEmpty_nil, ↓reduceIte]
      by_cases hm : curTotal s + (writeAll b.2 (s.cache ++ b.1.flatten)).1.length ≥ max
      · rw [if_pos hm]
        refine ⟨⟨gc ++ [gcur ++ b.1], [], by simp [hcl, hall], by simp [← hrec], rfl⟩, fun _ => rfl⟩
      · rw [if_neg hm]
        refine ⟨⟨gc, gcur ++ b.1, hcl, by simp [← hrec], by
          show curData s ++ (writeAll b.2 (s.cache ++ b.1.flatten)).1 ++ [] = _
          rw [List.append_nil]; exact hall⟩, fun _ => rfl⟩
    · have hne : (writeAll b.2 (s.cache ++ b.1.flatten)).2.isEmpty = false := by
        cases hh : (writeAll b.2 (s.cache ++ b.1.flatten)).2 <;> simp_all
      simp only [hne, Bool.false_eq_true, ↓reduceIte]
      refine ⟨⟨gc, gcur ++ b.1, hcl, by simp [← hrec], by
        show curData s ++ (writeAll b.2 (s.cache ++ b.1.flatten)).1 ++ (writeAll b.2 (s.cache ++ b.1.flatten)).2 = _
        exact hall⟩, fun hc => by cases hc⟩

theorem files_flatten (s : FileSt) : s.files.flatten = s.closed.flatten ++ curData s := by
  obtain ⟨closed, cur, total, cache⟩ := s
  cases cur <;> simp [FileSt.files, curData]

theorem flatten_map_flatten (g : List (List Bytes)) : (g.map List.flatten).flatten = g.flatten.flatten := by
  induction g with
  | nil => rfl
  | cons x xs ih => simp [ih]

theorem fileRunW_inv (max : Nat) (bs : List (List Bytes × List (Option Nat))) :
    ∀ (s : FileSt) (recs : List Bytes), WInv s recs →
      WInv (fileRunW max s bs) (recs ++ (bs.map (·.1)).flatten) := by
  induction bs with
  | nil => intro s recs h; simpa [fileRunW] using h
  | cons b bs ih =>
    intro s recs h
    have := ih _ _ (fileBatchW_inv max s recs b h)
    simpa [fileRunW, List.append_assoc] using this

end Tbox.C09
