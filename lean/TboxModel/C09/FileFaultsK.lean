/-
C09 — helper lemmas for the file sink and the stdout sink with EVERY kernel answer taken from an
oracle (`flushK`, `writeLoop`, `FOracle`): short counts, EINTR, hard errors, failing open.
-/
import TboxModel.C09.Model
import TboxModel.C09.FileFaults
namespace Tbox.C09

theorem writeLoop_split : ∀ (o : List WAns) (data : Bytes),
    (writeLoop o data).1 ++ (writeLoop o data).2 = data := by
  intro o
  induction o with
  | nil => intro data; simp [writeLoop]
  | cons x os ih =>
    intro data
    cases x with
    | acc k =>
      simp only [writeLoop]
      split
      · rename_i h; simp [List.isEmpty_iff.mp h]
      · split
        · simp
        · simp only [List.append_assoc, ih, List.take_append_drop]
    | eintr =>
      simp only [writeLoop]
      split
      · rename_i h; simp [List.isEmpty_iff.mp h]
      · exact ih data
    | err => simp [writeLoop]

/-- without a hard answer the loop writes everything -/
theorem writeLoop_soft : ∀ (o : List WAns) (data : Bytes), (∀ a ∈ o, a.soft = true) →
    writeLoop o data = (data, []) := by
  intro o
  induction o with
  | nil => intro data _; simp [writeLoop]
  | cons x os ih =>
    intro data h
    have hx := h x (by simp)
    have hos : ∀ a ∈ os, a.soft = true := fun a ha => h a (by simp [ha])
    cases x with
    | acc k =>
      have hk : k ≠ 0 := by simpa [WAns.soft] using hx
      simp only [writeLoop]
      split
      · rename_i hd; simp [List.isEmpty_iff.mp hd]
      · simp [ih _ hos]
    | eintr =>
      simp only [writeLoop]
      split
      · rename_i hd; simp [List.isEmpty_iff.mp hd]
      · exact ih data hos
    | err => simp [WAns.soft] at hx

theorem writeLoop_len : ∀ (o : List WAns) (data : Bytes),
    ((writeLoop o data).1.length, (writeLoop o data).2.length) = writeLoopLen o data.length := by
  intro o
  induction o with
  | nil => intro data; simp [writeLoop, writeLoopLen]
  | cons x os ih =>
    intro data
    cases x with
    | acc k =>
      simp only [writeLoop, writeLoopLen]
      by_cases hd : data = []
      · simp [hd]
      · have h1 : data.isEmpty = false := by cases data <;> simp_all
        have h2 : data.length ≠ 0 := by cases data <;> simp_all
        simp only [h1, h2, Bool.false_eq_true, ↓reduceIte]
        by_cases hk : k = 0
        · simp [hk]
        · simp only [hk, ↓reduceIte]
          have := ih (data.drop k)
          simp only [List.length_drop] at this
          rw [← this]; simp
    | eintr =>
      simp only [writeLoop, writeLoopLen]
      by_cases hd : data = []
      · simp [hd]
      · have h1 : data.isEmpty = false := by cases data <;> simp_all
        have h2 : data.length ≠ 0 := by cases data <;> simp_all
        simp only [h1, h2, Bool.false_eq_true, ↓reduceIte]
        exact ih data
    | err => simp [writeLoop, writeLoopLen]

/-- the length-level flush executed by the trace acceptor is the length image of `flushK` -/
theorem flushK_len (max : Nat) (s : FileSt) (o : FOracle) : (flushK max s o).len = flushKLen max s.len o := by
  obtain ⟨closed, cur, total, cache⟩ := s
  have hl := writeLoop_len o.writes cache
  have h1 : (writeLoopLen o.writes cache.length).1 = (writeLoop o.writes cache).1.length := by rw [← hl]
  have h2 : (writeLoopLen o.writes cache.length).2 = (writeLoop o.writes cache).2.length := by rw [← hl]
  have he : ((writeLoop o.writes cache).2.isEmpty = false) ↔ ((writeLoop o.writes cache).2.length ≠ 0) := by
    cases (writeLoop o.writes cache).2 <;> simp
  cases cur with
  | none =>
    by_cases hop : (o.dirOk && o.openOk) = true
    · simp only [flushK, flushKLen, FileSt.len, hop, h1, h2, Option.map_none, ↓reduceIte]
      by_cases hr : (writeLoop o.writes cache).2 = []
      · simp only [hr, List.isEmpty_nil, List.length_nil]
        by_cases hm : max ≤ (writeLoop o.writes cache).1.length <;> simp [hm]
      · have hne := he.mpr (by cases hh : (writeLoop o.writes cache).2 <;> simp_all)
        have hne' : (writeLoop o.writes cache).2.length ≠ 0 := he.mp hne
        simp [hne, hne']
    · have hop' : (o.dirOk && o.openOk) = false := by simpa using hop
      simp [flushK, flushKLen, FileSt.len, hop']
  | some d0 =>
    simp only [flushK, flushKLen, FileSt.len, h1, h2, Option.map_some]
    by_cases hr : (writeLoop o.writes cache).2 = []
    · simp only [hr, List.isEmpty_nil, List.length_nil]
      by_cases hm : max ≤ total + (writeLoop o.writes cache).1.length <;> simp [hm]
    · have hne := he.mpr (by cases hh : (writeLoop o.writes cache).2 <;> simp_all)
      have hne' : (writeLoop o.writes cache).2.length ≠ 0 := he.mp hne
      simp [hne, hne']

/-- ghost view with every kernel answer from the oracle: closed files are whole groups of
records; the open file (none yet when `open` failed) plus the cache is the concatenation of the
records since the last rollover; the counter is the size of the open file; closed files reached
the limit and an open file whose batch is complete is below it -/
structure KInv (max : Nat) (s : FileSt) (recs : List Bytes) : Prop where
  groups : ∃ (gc : List (List Bytes)) (gcur : List Bytes),
    s.closed = gc.map List.flatten ∧ gc.flatten ++ gcur = recs ∧ curData s ++ s.cache = gcur.flatten
  totalOk : ∀ d, s.cur = some d → s.total = d.length
  closedFull : ∀ f ∈ s.closed, max ≤ f.length
  openBelow : ∀ d, s.cur = some d → s.cache = [] → d.length < max

theorem kinv_init (max : Nat) : KInv max {} [] :=
  ⟨⟨[], [], rfl, rfl, rfl⟩, (by intro d h; cases h), (by intro f h; cases h), (by intro d h; cases h)⟩

/-- one `flush()` on a state whose cache already holds the new records -/
theorem flushK_inv (max : Nat) (s : FileSt) (o : FOracle) (gc : List (List Bytes)) (g : List Bytes)
    (hcl : s.closed = gc.map List.flatten) (hdat : curData s ++ s.cache = g.flatten)
    (htot : ∀ d, s.cur = some d → s.total = d.length) (hfull : ∀ f ∈ s.closed, max ≤ f.length) :
    let s' := flushK max s o
    (∃ (gc' : List (List Bytes)) (g' : List Bytes), s'.closed = gc'.map List.flatten ∧
        gc'.flatten ++ g' = gc.flatten ++ g ∧ curData s' ++ s'.cache = g'.flatten) ∧
    (∀ d, s'.cur = some d → s'.total = d.length) ∧ (∀ f ∈ s'.closed, max ≤ f.length) ∧
    (∀ d, s'.cur = some d → s'.cache = [] → d.length < max) ∨
    (s' = s ∧ s.cur = none) := by
  intro s'
  obtain ⟨closed, cur, total, cache⟩ := s
  simp only at hcl hdat htot hfull
  cases cur with
  | none =>
    by_cases hop : (o.dirOk && o.openOk) = true
    · left
      have hsp := writeLoop_split o.writes cache
      simp only [curData, List.nil_append] at hdat
      by_cases hr : (writeLoop o.writes cache).2 = []
      · rw [hr, List.append_nil] at hsp
        by_cases hm : (writeLoop o.writes cache).1.length ≥ max
        · have : s' = { closed := closed ++ [(writeLoop o.writes cache).1], cur := none,
                        total := (writeLoop o.writes cache).1.length, cache := [] } := by
            simp [s', flushK, hop, hr, hm]
          rw [this]
          refine ⟨⟨gc ++ [g], [], by simp [hcl, hsp.trans hdat], by simp, rfl⟩, (by intro d h; cases h), ?_, (by intro d h; cases h)⟩
          intro f hf
          rcases List.mem_append.mp hf with h | h
          · exact hfull f h
          · simp at h; subst h; exact hm
        · have : s' = { closed := closed, cur := some (writeLoop o.writes cache).1,
                        total := (writeLoop o.writes cache).1.length, cache := [] } := by
            simp [s', flushK, hop, hr, hm]
          rw [this]
          refine ⟨⟨gc, g, hcl, rfl, by simp [curData, hsp.trans hdat]⟩, (by intro d h; cases h; rfl), hfull, ?_⟩
          intro d h _; cases h; omega
      · have hne : (writeLoop o.writes cache).2.isEmpty = false := by
          cases hh : (writeLoop o.writes cache).2 <;> simp_all
        have : s' = { closed := closed, cur := some (writeLoop o.writes cache).1,
                      total := (writeLoop o.writes cache).1.length, cache := (writeLoop o.writes cache).2 } := by
          simp [s', flushK, hop, hne]
        rw [this]
        refine ⟨⟨gc, g, hcl, rfl, by simpa [curData] using hsp.trans hdat⟩, (by intro d h; cases h; rfl), hfull, ?_⟩
        intro d _ hc; exact absurd hc hr
    · right
      have hop' : (o.dirOk && o.openOk) = false := by simpa using hop
      exact ⟨by simp [s', flushK, hop'], rfl⟩
  | some d0 =>
    left
    have ht0 : total = d0.length := htot d0 rfl
    have hsp := writeLoop_split o.writes cache
    simp only [curData] at hdat
    have hall : d0 ++ (writeLoop o.writes cache).1 ++ (writeLoop o.writes cache).2 = g.flatten := by
      rw [List.append_assoc, hsp, hdat]
    by_cases hr : (writeLoop o.writes cache).2 = []
    · rw [hr, List.append_nil] at hall
      by_cases hm : total + (writeLoop o.writes cache).1.length ≥ max
      · have : s' = { closed := closed ++ [d0 ++ (writeLoop o.writes cache).1], cur := none,
                      total := total + (writeLoop o.writes cache).1.length, cache := [] } := by
          simp [s', flushK, hr, hm]
        rw [this]
        refine ⟨⟨gc ++ [g], [], by simp [hcl, hall], by simp, rfl⟩, (by intro d h; cases h), ?_, (by intro d h; cases h)⟩
        intro f hf
        rcases List.mem_append.mp hf with h | h
        · exact hfull f h
        · simp at h; subst h; simp only [List.length_append]; omega
      · have : s' = { closed := closed, cur := some (d0 ++ (writeLoop o.writes cache).1),
                      total := total + (writeLoop o.writes cache).1.length, cache := [] } := by
          simp [s', flushK, hr, hm]
        rw [this]
        refine ⟨⟨gc, g, hcl, rfl, by simp [curData, hall]⟩, (by intro d h; cases h; simp [ht0]), hfull, ?_⟩
        intro d h _; cases h; simp only [List.length_append]; omega
    · have hne : (writeLoop o.writes cache).2.isEmpty = false := by
        cases hh : (writeLoop o.writes cache).2 <;> simp_all
      have : s' = { closed := closed, cur := some (d0 ++ (writeLoop o.writes cache).1),
                    total := total + (writeLoop o.writes cache).1.length, cache := (writeLoop o.writes cache).2 } := by
        simp [s', flushK, hne]
      rw [this]
      refine ⟨⟨gc, g, hcl, rfl, by simpa [curData] using hall⟩, (by intro d h; cases h; simp [ht0]), hfull, ?_⟩
      intro d _ hc; exact absurd hc hr

theorem fileBatchK_inv (max : Nat) (s : FileSt) (recs : List Bytes) (b : List Bytes × FOracle)
    (h : KInv max s recs) : KInv max (fileBatchK max s b) (recs ++ b.1) := by
  unfold fileBatchK
  by_cases hb : b.1 = []
  · simp [hb]; exact h
  · have hbe : b.1.isEmpty = false := by cases hb' : b.1 <;> simp_all
    simp only [hbe, Bool.false_eq_true, ↓reduceIte]
    obtain ⟨gc, gcur, hcl, hrec, hdat⟩ := h.groups
    have hdat' : curData { s with cache := s.cache ++ b.1.flatten } ++ (s.cache ++ b.1.flatten) = (gcur ++ b.1).flatten := by
      show curData s ++ (s.cache ++ b.1.flatten) = _
      rw [← List.append_assoc, hdat]; simp
    have key := flushK_inv max { s with cache := s.cache ++ b.1.flatten } b.2 gc (gcur ++ b.1) hcl hdat' h.totalOk h.closedFull
    simp only at key
    rcases key with ⟨⟨gc', g', h1, h2, h3⟩, h4, h5, h6⟩ | ⟨hsame, hnone⟩
    · exact ⟨⟨gc', g', h1, by rw [h2, ← hrec]; simp, h3⟩, h4, h5, h6⟩
    · rw [hsame]
      refine ⟨⟨gc, gcur ++ b.1, hcl, by rw [← hrec]; simp, hdat'⟩, ?_, h.closedFull, ?_⟩
      · intro d hd; simp only at hd hnone; rw [hnone] at hd; cases hd
      · intro d hd; simp only at hd hnone; rw [hnone] at hd; cases hd

theorem fileRunK_inv (max : Nat) (bs : List (List Bytes × FOracle)) :
    ∀ (s : FileSt) (recs : List Bytes), KInv max s recs →
      KInv max (fileRunK max s bs) (recs ++ (bs.map (·.1)).flatten) := by
  induction bs with
  | nil => intro s recs h; simpa [fileRunK] using h
  | cons b bs ih =>
    intro s recs h
    have := ih _ _ (fileBatchK_inv max s recs b h)
    simpa [fileRunK, List.append_assoc] using this

/-- the retry in `onDisable()` keeps the invariant (no record is added) -/
theorem disableK_inv (max : Nat) (s : FileSt) (recs : List Bytes) (o : FOracle) (h : KInv max s recs) :
    KInv max (disableK max s o) recs := by
  unfold disableK
  split
  · exact h
  · obtain ⟨gc, gcur, hcl, hrec, hdat⟩ := h.groups
    have key := flushK_inv max s o gc gcur hcl hdat h.totalOk h.closedFull
    simp only at key
    rcases key with ⟨⟨gc', g', h1, h2, h3⟩, h4, h5, h6⟩ | ⟨hsame, _⟩
    · exact ⟨⟨gc', g', h1, by rw [h2, hrec], h3⟩, h4, h5, h6⟩
    · rw [hsame]; exact h

/-- a flush whose kernel answers are all clean leaves nothing in the cache -/
theorem flushK_clean (max : Nat) (s : FileSt) (o : FOracle) (hd : o.dirOk = true) (ho : o.openOk = true)
    (hw : ∀ a ∈ o.writes, a.soft = true) : (flushK max s o).cache = [] := by
  obtain ⟨closed, cur, total, cache⟩ := s
  have hl := writeLoop_soft o.writes cache hw
  cases cur <;> simp only [flushK, hd, ho, hl, Bool.and_self] <;> (repeat' split) <;> simp_all

end Tbox.C09
