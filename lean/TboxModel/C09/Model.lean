/-
C09 — executable model of the logging path (core Lean only).

Transcribed from  modules/base/log_impl.cpp (LogPrintfFunc, Dispatch, channel list),
modules/log/sink.cpp (filter), modules/log/async_sink.cpp (front end = two appends,
back end = re-framer over an accumulating buffer, record rendering),
modules/log/async_file_sink.cpp (flush / rollover).  The async pipe is used through its
contract only (property C10): the byte stream delivered to the back end is the
concatenation of the appends, cut into chunks at arbitrary places.
-/
import TboxModel.C09.GenTables
namespace Tbox.C09

abbrev Byte := UInt8
abbrev Bytes := List UInt8

/-! ## (a) LogPrintfFunc: format into a stack buffer, retry with the exact size, truncate -/

/-- size of the first stack buffer is `min(2048, max) + 1` -/
def stackLimit : Nat := 2048

structure FmtSt where
  buffSize : Nat
  trunc : Bool
  deriving Repr, DecidableEq

inductive FmtRes where
  | done (text : Bytes) (trunc : Bool)     -- Dispatch(content) with text_len/text_ptr/text_trunc
  | again (s : FmtSt)
  deriving Repr, DecidableEq

/-- one round of the `for (;;)` loop. `vsnprintf(buffer, buff_size, …)` stores the first
`buff_size - 1` bytes of the formatted message `msg` and returns `msg.length`. -/
def fmtRound (msg : Bytes) (max : Nat) (s : FmtSt) : FmtRes :=
  let buffer := msg.take (s.buffSize - 1)
  let len := if s.trunc then max else msg.length
  if len < s.buffSize then .done (buffer.take len) s.trunc
  else if len ≤ max then .again { s with buffSize := len + 1 }
  else .again { buffSize := max + 1, trunc := true }

def fmtLoop (msg : Bytes) (max : Nat) : Nat → FmtSt → Nat → Option (Bytes × Bool × Nat)
  | 0, _, _ => none
  | fuel + 1, s, rounds =>
    match fmtRound msg max s with
    | .done t tr => some (t, tr, rounds + 1)
    | .again s' => fmtLoop msg max fuel s' (rounds + 1)

def fmtInit (max : Nat) : FmtSt := { buffSize := min stackLimit max + 1, trunc := false }

/-- the `with_args` path: (text, truncated, rounds taken); `none` = more than 3 rounds -/
def formatText (msg : Bytes) (max : Nat) : Option (Bytes × Bool × Nat) :=
  fmtLoop msg max 3 (fmtInit max) 0

/-- the code as found re-read the global maximum in every round (patches/C09-03 reads it once):
`maxes` = the value seen by each round; result = (`text_len` dispatched, bytes really formatted
into the buffer, truncated flag) -/
def fmtLoopVar (L : Nat) : List Nat → FmtSt → Option (Nat × Nat × Bool)
  | [], _ => none
  | max :: rest, s =>
    let written := min L (s.buffSize - 1)
    let len := if s.trunc then max else L
    if len < s.buffSize then some (len, written, s.trunc)
    else if len ≤ max then fmtLoopVar L rest { s with buffSize := len + 1 }
    else fmtLoopVar L rest { buffSize := max + 1, trunc := true }

/-- the `LogPuts` path (with_args = 0): strlen, clamp -/
def putsText (msg : Bytes) (max : Nat) : Bytes × Bool :=
  if msg.length > max then (msg.take max, true) else (msg, false)

/-- level clamp of LogPrintfFunc -/
def clampLevel (l : Int) : Nat := if l < 0 then 0 else if l ≥ 8 then 7 else l.toNat

/-! ### (a') the same loop with the C++ widths: `uint32_t buff_size`, `size_t len`, `int` result of
`vsnprintf`, `uint32_t text_len`

`vsnprintf` returns an `int`: the formatted length `L` when `L ≤ INT_MAX`, a NEGATIVE value when
formatting fails (`fail`: encoding error of `%lc`/`%ls`) or the result would be longer than
`INT_MAX` (EOVERFLOW).  The code as found assigns it to a `size_t`: −1 becomes `SIZE_MAX`. -/

def sizeMax : Nat := 2 ^ 64 - 1
def intMax : Nat := 2147483647
def u32 (n : Nat) : Nat := n % 2 ^ 32
def usize (n : Nat) : Nat := n % 2 ^ 64

/-- does `vsnprintf` return a negative value -/
def vsnFails (L : Nat) (fail : Bool) : Bool := fail || decide (L > intMax)

structure FmtStW where
  buffSize : Nat        -- value of the `uint32_t`
  trunc : Bool
  deriving Repr, DecidableEq

inductive FmtResW where
  /-- `Dispatch` with `text_len`, `text_trunc`; `formatted` = how many leading bytes of the buffer
  hold formatted text (0 after a failed `vsnprintf`: the contents are unspecified) -/
  | done (textLen : Nat) (trunc : Bool) (formatted : Nat)
  | again (s : FmtStW)
  /-- after patches/C09-07: formatting failed, the format string itself is logged (the `LogPuts` path) -/
  | fallback
  deriving Repr, DecidableEq

/-- one round, the code AS FOUND -/
def fmtRoundWAsFound (L : Nat) (fail : Bool) (max : Nat) (s : FmtStW) : FmtResW :=
  let neg := vsnFails L fail
  let r := if neg then sizeMax else L
  let len := if s.trunc then max else r
  if len < s.buffSize then .done (u32 len) s.trunc (if neg then 0 else min L (s.buffSize - 1))
  else if len ≤ max then .again { s with buffSize := u32 (usize (len + 1)) }
  else .again { buffSize := u32 (usize (max + 1)), trunc := true }

/-- one round after patches/C09-07: a negative result leaves the loop for the fallback -/
def fmtRoundW (L : Nat) (fail : Bool) (max : Nat) (s : FmtStW) : FmtResW :=
  if vsnFails L fail then .fallback else fmtRoundWAsFound L false max s

def fmtLoopW (round : FmtStW → FmtResW) : Nat → FmtStW → Nat → Option (FmtResW × Nat)
  | 0, _, _ => none
  | fuel + 1, s, rounds =>
    match round s with
    | .again s' => fmtLoopW round fuel s' (rounds + 1)
    | r => some (r, rounds + 1)

def fmtInitW (max : Nat) : FmtStW := { buffSize := u32 (min stackLimit max + 1), trunc := false }

/-- `LogPrintfFunc`, `with_args` path, with widths: `none` = the loop is still running after `fuel` rounds -/
def formatW (L : Nat) (fail : Bool) (max : Nat) (fuel : Nat := 3) : Option (FmtResW × Nat) :=
  fmtLoopW (fmtRoundW L fail max) fuel (fmtInitW max) 0

def formatWAsFound (L : Nat) (fail : Bool) (max : Nat) (fuel : Nat := 3) : Option (FmtResW × Nat) :=
  fmtLoopW (fmtRoundWAsFound L fail max) fuel (fmtInitW max) 0

/-- the `LogPuts` path with widths: `content.text_len = strlen(fmt)` narrows to 32 bits BEFORE the
comparison with the maximum: (text_len, truncated) -/
def putsW (L : Nat) (max : Nat) : Nat × Bool :=
  let tl := u32 L
  if tl > max then (u32 max, true) else (tl, false)

/-! ### (c') a sink callback that logs: the dispatch lock is a plain `std::mutex`

`Dispatch()` calls every channel function while it holds `_lock`; a channel function that calls
`LogPrintfFunc` itself runs into `CantDispatch()`, which locks `_lock` again — the calling
thread blocks on a mutex it owns (formally undefined for `std::mutex`; glibc: blocks for ever).
`RAct.call` is such a nested log call among the actions of a call. -/

inductive RAct (α β : Type) where
  | emit (a : α)
  | call (c : β)

structure RThread (α β : Type) where
  todo : List β := []
  cur : Option (List (RAct α β)) := none

structure RSys (α β : Type) where
  threads : Nat → RThread α β
  holder : Option Nat := none
  trace : List α := []

def rsysStep {α β} (acts : β → List (RAct α β)) (s : RSys α β) (t : Nat) : RSys α β :=
  let th := s.threads t
  let setT (x : RThread α β) : Nat → RThread α β := fun i => if i = t then x else s.threads i
  match th.cur with
  | none =>
    match th.todo with
    | [] => s
    | c :: rest =>
      if s.holder.isSome then s            -- blocked on the mutex
      else { s with threads := setT { todo := rest, cur := some (acts c) }, holder := some t }
  | some [] => { s with threads := setT { th with cur := none }, holder := none }
  | some (.emit a :: as) => { s with threads := setT { th with cur := some as }, trace := s.trace ++ [a] }
  | some (.call _ :: _) => s               -- the holder itself blocks on `_lock`: no step, for ever

def rsysRun {α β} (acts : β → List (RAct α β)) (s : RSys α β) (sched : List Nat) : RSys α β :=
  sched.foldl (rsysStep acts) s

/-! ## (b) Sink::filter — per-module level, else the default level -/

structure FilterCfg where
  modules : List (String × Int) := []     -- std::map<std::string,int> as an association list
  default : Int := 8                       -- LOG_LEVEL_MAX
  deriving Repr

def FilterCfg.lookup (c : FilterCfg) (m : String) : Option Int :=
  (c.modules.find? (fun p => p.1 == m)).map (·.2)

def FilterCfg.setDefault (c : FilterCfg) (l : Int) : FilterCfg := { c with default := l }

/-- `setLevel(module, level)`: empty module name sets the default -/
def FilterCfg.setModule (c : FilterCfg) (m : String) (l : Int) : FilterCfg :=
  if m.isEmpty then { c with default := l }
  else { c with modules := (m, l) :: c.modules.filter (fun p => !(p.1 == m)) }

def FilterCfg.unset (c : FilterCfg) (m : String) : FilterCfg :=
  { c with modules := c.modules.filter (fun p => !(p.1 == m)) }

def filter (c : FilterCfg) (level : Int) (m : String) : Bool :=
  match c.lookup m with
  | some l => level ≤ l
  | none => level ≤ c.default

/-! ## (c) dispatch under the one global lock — a small interleaving model

A *call* `c : β` performs the atomic actions `acts c` while `Dispatch(content)` walks the
channel list (for an async sink: append header, then append text).  A thread is a list of
calls.  A schedule is a list of thread ids; one scheduled step of thread `t` is: acquire
the lock (only if free), perform the next action, or release.  `locked = false` is the
mutant without the lock (acquire always succeeds). -/

structure TState (α β : Type) where
  todo : List β := []                        -- calls not yet started (β = a call, e.g. a record)
  cur : Option (List α) := none              -- remaining actions of the call in progress

structure Sys (α β : Type) where
  threads : Nat → TState α β
  holder : Option Nat := none
  trace : List α := []                       -- actions in execution order
  order : List (Nat × β) := []               -- calls in lock-acquisition order

def Sys.setThread {α β} (s : Sys α β) (t : Nat) (th : TState α β) : Nat → TState α β :=
  fun i => if i = t then th else s.threads i

def sysInit {α β} (prog : Nat → List β) : Sys α β :=
  { threads := fun t => { todo := prog t } }

/-- `acts c` = the atomic actions call `c` performs while it holds the lock -/
def sysStep {α β} (acts : β → List α) (locked : Bool) (s : Sys α β) (t : Nat) : Sys α β :=
  let th := s.threads t
  match th.cur with
  | none =>
    match th.todo with
    | [] => s
    | c :: rest =>
      if locked && s.holder.isSome then s      -- blocked on the mutex
      else { s with threads := s.setThread t { todo := rest, cur := some (acts c) },
                    holder := some t, order := s.order ++ [(t, c)] }
  | some [] => { s with threads := s.setThread t { th with cur := none }, holder := none }
  | some (a :: as) => { s with threads := s.setThread t { th with cur := some as }, trace := s.trace ++ [a] }

def sysRun {α β} (acts : β → List α) (locked : Bool) (s : Sys α β) (sched : List Nat) : Sys α β :=
  sched.foldl (sysStep acts locked) s

/-- all threads `< n` have finished -/
def Sys.quiescent {α β} (s : Sys α β) (n : Nat) : Bool :=
  (List.range n).all fun t => (s.threads t).todo.isEmpty && (s.threads t).cur.isNone

/-! ## (d) async sink: front end = two appends; back end = resumable re-framer

`H` is `sizeof(LogContent)` and `tl hb` reads the `text_len` field out of the `H` header
bytes.  Both are parameters: the theorems hold for every layout. -/

/-- what `onLogFrontEnd` appends to the pipe for a record (header bytes, text) -/
def frontAppends (r : Bytes × Bytes) : List Bytes :=
  if r.2.length ≠ 0 then [r.1, r.2] else [r.1]

def frame (r : Bytes × Bytes) : Bytes := r.1 ++ r.2

def frames (rs : List (Bytes × Bytes)) : Bytes := (rs.map frame).flatten

/-- the `while (buffer_.readableSize() >= sizeof(LogContent))` loop of onLogBackEndReadPipe -/
def drainF (H : Nat) (tl : Bytes → Nat) : Nat → Bytes → List (Bytes × Bytes) × Bytes
  | 0, buf => ([], buf)
  | fuel + 1, buf =>
    if buf.length < H then ([], buf)
    else
      let hb := buf.take H
      let n := tl hb
      if H + n > buf.length then ([], buf)            -- frame incomplete: break
      else
        let r := drainF H tl fuel (buf.drop (H + n))
        ((hb, (buf.drop H).take n) :: r.1, r.2)

def drain (H : Nat) (tl : Bytes → Nat) (buf : Bytes) : List (Bytes × Bytes) × Bytes :=
  drainF H tl (buf.length + 1) buf

/-- one pipe callback: append the chunk to the accumulating buffer, drain -/
def backChunk (H : Nat) (tl : Bytes → Nat) (buf chunk : Bytes) : List (Bytes × Bytes) × Bytes :=
  drain H tl (buf ++ chunk)

/-- all callbacks: the batch of records emitted by each callback, and the final buffer -/
def feed (H : Nat) (tl : Bytes → Nat) : Bytes → List Bytes → List (List (Bytes × Bytes)) × Bytes
  | buf, [] => ([], buf)
  | buf, c :: cs =>
    let r := backChunk H tl buf c
    let r' := feed H tl r.2 cs
    (r.1 :: r'.1, r'.2)

/-! ## (e) record rendering (AsyncSink::onLogBackEnd), colour off -/

structure Rec where
  level : Nat            -- already clamped to 0..7
  ts : Bytes             -- "YYYY-mm-dd HH:MM:SS.uuuuuu" (not modelled further)
  tid : Bytes            -- decimal thread id
  module : Bytes
  func : Option Bytes    -- nullptr = none
  text : Bytes
  trunc : Bool
  file : Option Bytes    -- basename; nullptr = none
  line : Bytes           -- decimal (with sign)
  deriving Repr, DecidableEq

def levelCodes : List Char := ['F', 'E', 'W', 'N', 'I', 'I', 'D', 'T']
def levelCode (l : Nat) : Byte := (levelCodes.getD l '?').toNat.toUInt8

/-- "(TRUNCATED) " -/
def truncMarker : Bytes := [40, 84, 82, 85, 78, 67, 65, 84, 69, 68, 41, 32]
/-- "() " -/
def funcSuffix : Bytes := [40, 41, 32]
/-- "-- " -/
def filePrefix : Bytes := [45, 45, 32]

/-- size of the `char buff[1024]` each prefix/suffix piece is formatted into -/
def pieceLimit : Nat := 1024

def Rec.head (r : Rec) : Bytes := [levelCode r.level, 32] ++ r.ts ++ [32] ++ r.tid ++ [32] ++ r.module ++ [32]
def Rec.funcPiece (r : Rec) : Bytes := match r.func with | some f => f ++ funcSuffix | none => []
/-- after patches/C09-01: the marker is printed whenever `text_trunc` is set (the code as found
printed it only inside `if (content.text_len > 0)`, losing it for max = 0) -/
def Rec.textPiece (r : Rec) : Bytes :=
  (if r.text.length > 0 then r.text ++ [32] else []) ++ (if r.trunc then truncMarker else [])
/-- the code as found (kept for the counterexample theorem) -/
def Rec.textPieceAsFound (r : Rec) : Bytes :=
  if r.text.length > 0 then r.text ++ [32] ++ (if r.trunc then truncMarker else []) else []
def Rec.filePiece (r : Rec) : Bytes := match r.file with | some f => filePrefix ++ f ++ [58] ++ r.line | none => []

/-- every `snprintf(buff, sizeof(buff), …)` piece fits its 1 KiB buffer — what the code AS FOUND needed (it appended
`len` bytes out of a 1024-byte array: `pieceAsFound`); after patches/C09-08 no longer a hypothesis of anything (`piece`) -/
def Rec.piecesFit (r : Rec) : Bool :=
  r.head.length < pieceLimit && r.funcPiece.length < pieceLimit && r.filePiece.length < pieceLimit

def render (r : Rec) : Bytes := r.head ++ r.funcPiece ++ r.textPiece ++ r.filePiece ++ [10]
def renderAsFound (r : Rec) : Bytes := r.head ++ r.funcPiece ++ r.textPieceAsFound ++ r.filePiece ++ [10]


/-! ### colour, the synchronous stdout sink, syslog

`enableColor(true)` brackets every record with `"\033[<code>m"` … `"\033[0m"`; the per-level
codes are `genColorCodes`, regenerated from log_impl.cpp on every run. -/

def colorCode (l : Nat) : Bytes := genColorCodes.getD l []
/-- `"\033[%sm"` -/
def colorOn (l : Nat) : Bytes := [27, 91] ++ colorCode l ++ [109]
/-- `"\033[0m"` -/
def colorOff : Bytes := [27, 91, 48, 109]

/-- AsyncSink::onLogBackEnd up to (not including) `endline()` -/
def renderBody (color : Bool) (r : Rec) : Bytes :=
  (if color then colorOn r.level else []) ++ r.head ++ r.funcPiece ++ r.textPiece ++ r.filePiece
    ++ (if color then colorOff else [])

/-- AsyncFileSink / AsyncStdoutSink: `endline()` pushes a newline -/
def renderC (color : Bool) (r : Rec) : Bytes := renderBody color r ++ [10]

/-- SyncStdoutSink::onLogFrontEnd: the printf sequence as coded, ending with `puts("\033[0m")`
(colour) or `putchar('\n')` -/
def renderSync (color : Bool) (r : Rec) : Bytes :=
  (if color then [27, 91] ++ colorCode r.level ++ [109] else [])
  ++ ([levelCode r.level, 32] ++ r.ts ++ [32] ++ r.tid ++ [32] ++ r.module ++ [32])
  ++ (match r.func with | some f => f ++ funcSuffix | none => [])
  ++ (if r.text.length > 0 then r.text ++ [32] else [])
  ++ (if r.trunc then truncMarker else [])
  ++ (match r.file with | some f => filePrefix ++ f ++ [58] ++ r.line | none => [])
  ++ (if color then colorOff ++ [10] else [10])

/-- what a `const char*` argument of `%s` denotes: the bytes before the first NUL -/
def cstr (bs : Bytes) : Bytes := bs.takeWhile (· != 0)

/-- AsyncSyslogSink::endline: `cache_` + NUL handed to `syslog(LOG_INFO, "%s", cache_.data())` -/
def syslogMsg (color : Bool) (r : Rec) : Bytes := cstr (renderBody color r ++ [0])

/-! ## (f) AsyncFileSink::flush — write the cache, roll over between batches -/

structure FileSt where
  closed : List Bytes := []     -- files already rolled over (fd closed), in creation order
  cur : Option Bytes := none    -- contents of the file behind the open fd_
  total : Nat := 0              -- total_write_size_
  cache : Bytes := []
  deriving Repr, DecidableEq

/-- all files in creation order -/
def FileSt.files (s : FileSt) : List Bytes := s.closed ++ s.cur.toList

/-- `flush()` with a successful, complete `write`: `checkAndCreateLogFile()` opens a new file
(and zeroes the counter) only when no fd is open; the whole cache is written to it; the fd is
closed when the counter reaches the limit -/
def flush (max : Nat) (s : FileSt) : FileSt :=
  let d0 := match s.cur with | some d => d | none => []
  let t0 := match s.cur with | some _ => s.total | none => 0
  let d := d0 ++ s.cache
  let total := t0 + s.cache.length
  if total ≥ max then { closed := s.closed ++ [d], cur := none, total := total, cache := [] }
  else { closed := s.closed, cur := some d, total := total, cache := [] }

/-- one back-end callback that produced `batch` (rendered records): every record is appended
to the cache; `flush()` is called iff at least one record was produced -/
def fileBatch (max : Nat) (s : FileSt) (batch : List Bytes) : FileSt :=
  if batch.isEmpty then s else flush max { s with cache := s.cache ++ batch.flatten }

def fileRun (max : Nat) (s : FileSt) (batches : List (List Bytes)) : FileSt :=
  batches.foldl (fileBatch max) s


/-! ### write faults: `write(2)` may accept fewer bytes than asked (oracle) -/

/-- contents / byte counter of the file behind the open fd (a fresh file if none is open) -/
def curData (s : FileSt) : Bytes := match s.cur with | some d => d | none => []
def curTotal (s : FileSt) : Nat := match s.cur with | some _ => s.total | none => 0

/-- the write loop of the repaired `flush()` (patches/C09-04): each `write` result comes from the
oracle — `some k`, k ≥ 1: `k` bytes accepted (at most what was asked); `some 0`/`none`: error, stop.
An exhausted oracle means complete writes.  Returns (bytes written, bytes left). -/
def writeAll : List (Option Nat) → Bytes → Bytes × Bytes
  | [], data => (data, [])
  | none :: _, data => ([], data)
  | some k :: os, data =>
    if data.isEmpty then ([], [])
    else if k = 0 then ([], data)
    else let r := writeAll os (data.drop k); (data.take k ++ r.1, r.2)

/-- repaired `flush()`: what was written is removed from the cache; an unwritten tail stays in
the cache, the fd stays open and no rollover is decided until the tail is on disk -/
def flushW (max : Nat) (s : FileSt) (o : List (Option Nat)) : FileSt :=
  let d0 := curData s
  let t0 := curTotal s
  let r := writeAll o s.cache
  let d := d0 ++ r.1
  let total := t0 + r.1.length
  if r.2.isEmpty then
    if total ≥ max then { closed := s.closed ++ [d], cur := none, total := total, cache := [] }
    else { closed := s.closed, cur := some d, total := total, cache := [] }
  else { closed := s.closed, cur := some d, total := total, cache := r.2 }

def fileBatchW (max : Nat) (s : FileSt) (b : List Bytes × List (Option Nat)) : FileSt :=
  if b.1.isEmpty then s else flushW max { s with cache := s.cache ++ b.1.flatten } b.2

def fileRunW (max : Nat) (s : FileSt) (bs : List (List Bytes × List (Option Nat))) : FileSt :=
  bs.foldl (fileBatchW max) s

/-- the code as found: one `write`; if it returns anything but the full size the bytes it did
write stay in the file, the counter and the cache are left as they were -/
def flushAsFound (max : Nat) (s : FileSt) (o : Option Nat) : FileSt :=
  let d0 := curData s
  let t0 := curTotal s
  let k := match o with | some k => min k s.cache.length | none => 0
  if k = s.cache.length then
    let total := t0 + s.cache.length
    if total ≥ max then { closed := s.closed ++ [d0 ++ s.cache], cur := none, total := total, cache := [] }
    else { closed := s.closed, cur := some (d0 ++ s.cache), total := total, cache := [] }
  else { closed := s.closed, cur := some (d0 ++ s.cache.take k), total := t0, cache := s.cache }

def fileBatchAsFound (max : Nat) (s : FileSt) (b : List Bytes × Option Nat) : FileSt :=
  if b.1.isEmpty then s else flushAsFound max { s with cache := s.cache ++ b.1.flatten } b.2

/-! ### (f'') the kernel's answers as an oracle — `write` / `open` / `close` on the log file

Every system call `flush()` makes on the log file takes its result from the oracle:
`write` may accept `k` of the `n` bytes asked, fail with EINTR (the loop retries) or fail hard
(ENOSPC, EFBIG, EDQUOT, EIO, …; `write` returning 0 is treated the same way by the code);
`MakeDirectory` / `open` may fail when a new file is due (EMFILE, ENOSPC, EACCES).  The result
of `close` is ignored by the code (`CHECK_CLOSE_RESET_FD`), and so are `unlink`/`symlink` of the
`latest.log` link: they have no influence on the state below.  An exhausted `writes` list means
complete writes (the finite oracle is also what ends the EINTR retry loop). -/

inductive WAns where
  | acc (k : Nat)     -- `k` bytes accepted (clamped to what was asked; `k = 0`: write returned 0)
  | eintr             -- −1 / EINTR: retried
  | err               -- −1 / any other errno: the loop stops
  deriving Repr, DecidableEq

/-- the write loop of `flush()`: (bytes that reached the file, bytes left in the cache) -/
def writeLoop : List WAns → Bytes → Bytes × Bytes
  | [], data => (data, [])
  | .acc k :: os, data =>
    if data.isEmpty then ([], [])
    else if k = 0 then ([], data)
    else let r := writeLoop os (data.drop k); (data.take k ++ r.1, r.2)
  | .eintr :: os, data => if data.isEmpty then ([], []) else writeLoop os data
  | .err :: _, data => ([], data)

structure FOracle where
  dirOk : Bool := true          -- MakeDirectory succeeded (consulted only when no fd is open)
  openOk : Bool := true         -- open(O_CREAT|O_WRONLY|O_APPEND) succeeded (same)
  writes : List WAns := []
  deriving Repr, DecidableEq

/-- `AsyncFileSink::flush()` as coded (after patches/C09-04), every kernel answer from the oracle.
* no fd open: `checkAndCreateLogFile()`; on failure `flush()` returns, the cache is kept whole;
  on success a new empty file, counter zeroed;
* write loop; what was accepted leaves the cache;
* an unwritten tail: return — same file, fd stays open, NO rollover decision;
* otherwise close the fd iff the counter reached the limit. -/
def flushK (max : Nat) (s : FileSt) (o : FOracle) : FileSt :=
  let start : Option (Bytes × Nat) :=
    match s.cur with
    | some d => some (d, s.total)
    | none => if o.dirOk && o.openOk then some ([], 0) else none
  match start with
  | none => s
  | some (d0, t0) =>
    let r := writeLoop o.writes s.cache
    let d := d0 ++ r.1
    let total := t0 + r.1.length
    if !r.2.isEmpty then { closed := s.closed, cur := some d, total := total, cache := r.2 }
    else if total ≥ max then { closed := s.closed ++ [d], cur := none, total := total, cache := [] }
    else { closed := s.closed, cur := some d, total := total, cache := [] }

def fileBatchK (max : Nat) (s : FileSt) (b : List Bytes × FOracle) : FileSt :=
  if b.1.isEmpty then s else flushK max { s with cache := s.cache ++ b.1.flatten } b.2

def fileRunK (max : Nat) (s : FileSt) (bs : List (List Bytes × FOracle)) : FileSt :=
  bs.foldl (fileBatchK max) s

/-- the variant WITHOUT the early return on an unwritten tail (the rollover check runs in the
middle of a batch) — kept for the counterexample theorem that shows why the return matters -/
def flushKNoReturn (max : Nat) (s : FileSt) (o : FOracle) : FileSt :=
  let start : Option (Bytes × Nat) :=
    match s.cur with
    | some d => some (d, s.total)
    | none => if o.dirOk && o.openOk then some ([], 0) else none
  match start with
  | none => s
  | some (d0, t0) =>
    let r := writeLoop o.writes s.cache
    let d := d0 ++ r.1
    let total := t0 + r.1.length
    if total ≥ max then { closed := s.closed ++ [d], cur := none, total := total, cache := r.2 }
    else { closed := s.closed, cur := some d, total := total, cache := r.2 }

def fileBatchKNoReturn (max : Nat) (s : FileSt) (b : List Bytes × FOracle) : FileSt :=
  if b.1.isEmpty then s else flushKNoReturn max { s with cache := s.cache ++ b.1.flatten } b.2

/-- `AsyncSink::onDisable()` after patches/C09-06: once the pipe has delivered everything, an
unwritten tail left by an earlier write error is flushed once more -/
def disableK (max : Nat) (s : FileSt) (o : FOracle) : FileSt :=
  if s.cache.isEmpty then s else flushK max s o

/-! ### the same, on lengths only (what the trace acceptor executes; `C09_flushK_len` proves it is
the length image of `flushK`) -/

structure FileLen where
  closed : List Nat := []
  cur : Option Nat := none
  total : Nat := 0
  cache : Nat := 0
  deriving Repr, DecidableEq

def FileSt.len (s : FileSt) : FileLen :=
  { closed := s.closed.map List.length, cur := s.cur.map List.length, total := s.total, cache := s.cache.length }

/-- (bytes accepted, bytes left) -/
def writeLoopLen : List WAns → Nat → Nat × Nat
  | [], n => (n, 0)
  | .acc k :: os, n =>
    if n = 0 then (0, 0)
    else if k = 0 then (0, n)
    else let r := writeLoopLen os (n - k); (min k n + r.1, r.2)
  | .eintr :: os, n => if n = 0 then (0, 0) else writeLoopLen os n
  | .err :: _, n => (0, n)

def flushKLen (max : Nat) (s : FileLen) (o : FOracle) : FileLen :=
  let start : Option (Nat × Nat) :=
    match s.cur with
    | some d => some (d, s.total)
    | none => if o.dirOk && o.openOk then some (0, 0) else none
  match start with
  | none => s
  | some (d0, t0) =>
    let r := writeLoopLen o.writes s.cache
    let d := d0 + r.1
    let total := t0 + r.1
    if r.2 != 0 then { closed := s.closed, cur := some d, total := total, cache := r.2 }
    else if total ≥ max then { closed := s.closed ++ [d], cur := none, total := total, cache := 0 }
    else { closed := s.closed, cur := some d, total := total, cache := 0 }

/-! ### the stdout sinks under write faults on fd 1 -/

/-- `AsyncStdoutSink::flush()` as found: ONE `write(1, …)`, its result ignored, the cache cleared:
what reaches fd 1 is the accepted prefix, the rest of the batch is dropped -/
def stdoutFlushAsFound (o : WAns) (cache : Bytes) : Bytes :=
  match o with
  | .acc k => cache.take k
  | _ => []

/-- after patches/C09-05: the same write loop as the file sink (EAGAIN on a non-blocking stdout
waits for POLLOUT and retries: the oracle's `eintr`); a hard error (EPIPE, EBADF, EIO) drops the
rest of the batch.  Returns what reached fd 1. -/
def stdoutFlush (os : List WAns) (cache : Bytes) : Bytes := (writeLoop os cache).1

def stdoutBatch (b : List Bytes × List WAns) : Bytes :=
  if b.1.isEmpty then [] else stdoutFlush b.2 b.1.flatten

/-- everything that reached fd 1 over a sequence of back-end batches -/
def stdoutRun (bs : List (List Bytes × List WAns)) : Bytes := (bs.map stdoutBatch).flatten

/-- an answer that does not end the loop with bytes left: a positive count or a retry -/
def WAns.soft : WAns → Bool
  | .acc k => k != 0
  | .eintr => true
  | .err => false

/-! ### (g') the EAGAIN branch of `AsyncStdoutSink::flush()`: `poll(POLLOUT, -1)`, its answer an oracle

On a non-blocking stdout that is full `write` fails with EAGAIN; the code then waits in
`poll(&pfd, 1, -1)` and goes round the loop again WHATEVER `poll` returned: 1 (writable, or
POLLERR/POLLHUP: the next `write` reports it), −1/EINTR (a handled signal landed on the back-end
thread — `poll` is never restarted, SA_RESTART or not), −1/another errno (ENOMEM, EINVAL), 0 (cannot
happen with an infinite timeout; treated the same).  Every `write` on fd 1 is therefore answered by
a `SAns`: the `WAns` cases plus `again p` = EAGAIN followed by one `poll` answered `p`. -/

inductive PAns where
  | ready       -- 1: revents set
  | eintr       -- −1 / EINTR
  | err         -- −1 / ENOMEM, EINVAL, EFAULT
  | timeout     -- 0
  deriving Repr, DecidableEq

inductive SAns where
  | acc (k : Nat)
  | eintr
  | again (p : PAns)     -- −1 / EAGAIN (EWOULDBLOCK), then `poll` answered `p`
  | err                  -- −1 / EPIPE, EBADF, EIO, …
  deriving Repr, DecidableEq

/-- the loop of `AsyncStdoutSink::flush()` as coded: (bytes that reached fd 1, bytes dropped by `cache_.clear()`) -/
def stdoutLoop : List SAns → Bytes → Bytes × Bytes
  | [], data => (data, [])
  | .acc k :: os, data =>
    if data.isEmpty then ([], [])
    else if k = 0 then ([], data)
    else let r := stdoutLoop os (data.drop k); (data.take k ++ r.1, r.2)
  | .eintr :: os, data => if data.isEmpty then ([], []) else stdoutLoop os data
  | .again _ :: os, data => if data.isEmpty then ([], []) else stdoutLoop os data     -- result of poll() not looked at
  | .err :: _, data => ([], data)

/-- the variant that gives up when `poll` fails (the seeded change C09-6: `if (::poll(…) < 0) break;`) — kept for the
counterexample theorem -/
def stdoutLoopPollBreaks : List SAns → Bytes → Bytes × Bytes
  | [], data => (data, [])
  | .acc k :: os, data =>
    if data.isEmpty then ([], [])
    else if k = 0 then ([], data)
    else let r := stdoutLoopPollBreaks os (data.drop k); (data.take k ++ r.1, r.2)
  | .eintr :: os, data => if data.isEmpty then ([], []) else stdoutLoopPollBreaks os data
  | .again p :: os, data =>
    if data.isEmpty then ([], [])
    else if p = .eintr || p = .err then ([], data)
    else stdoutLoopPollBreaks os data
  | .err :: _, data => ([], data)

/-- forgetting the `poll` answer: the loop of the file sink -/
def SAns.toW : SAns → WAns
  | .acc k => .acc k
  | .eintr => .eintr
  | .again _ => .eintr
  | .err => .err

/-- an answer that does not end the loop with bytes left -/
def SAns.soft : SAns → Bool
  | .acc k => k != 0
  | .eintr => true
  | .again _ => true
  | .err => false

def stdoutFlushP (os : List SAns) (cache : Bytes) : Bytes := (stdoutLoop os cache).1

def stdoutBatchP (b : List Bytes × List SAns) : Bytes :=
  if b.1.isEmpty then [] else stdoutFlushP b.2 b.1.flatten

/-- everything that reached fd 1 over a sequence of back-end batches, every `write` and `poll` answered by the oracle -/
def stdoutRunP (bs : List (List Bytes × List SAns)) : Bytes := (bs.map stdoutBatchP).flatten

/-- replace every `poll` answer -/
def SAns.setPoll (f : PAns → PAns) : SAns → SAns
  | .again p => .again (f p)
  | a => a

/-! ### (e'') the 1 KiB pieces of `onLogBackEnd`: `snprintf(buff, sizeof(buff), …)` then `append`

`snprintf` stores at most `cap − 1` bytes and a NUL and returns the length the WHOLE text would have.
The code as found appended `ret` bytes of `buff` whatever `ret` was; after patches/C09-08 a piece that
does not fit the stack buffer is formatted straight into the cache (`vsnprintf` into the grown vector). -/

/-- contents of `buff` (as far as defined) after `snprintf(buff, cap, "%s…", s)`, and its return value -/
def snprintfInto (cap : Nat) (s : Bytes) : Bytes × Nat :=
  (if cap = 0 then [] else s.take (cap - 1) ++ [0], s.length)

/-- as found: `append(buff, ret)` reads `buff[0 .. ret)`; `none` = the read leaves the `cap`-byte array -/
def pieceAsFound (cap : Nat) (s : Bytes) : Option Bytes :=
  let r := snprintfInto cap s
  if r.2 ≤ cap then some (r.1.take r.2) else none

/-- after patches/C09-08: the stack buffer when the piece fits, otherwise formatted into the cache itself
(`resize(old + ret + 1)`, `vsnprintf(…, ret + 1, …)`, `pop_back()` the NUL) -/
def piece (cap : Nat) (s : Bytes) : Bytes :=
  let r := snprintfInto cap s
  if r.2 < cap then r.1.take r.2
  else (snprintfInto (r.2 + 1) s).1.take r.2

/-- `AsyncSink::onLogBackEnd` piece by piece through `piece pieceLimit` (colour off) -/
def renderPieces (r : Rec) : Bytes :=
  piece pieceLimit r.head ++ (match r.func with | some _ => piece pieceLimit r.funcPiece | none => [])
    ++ r.textPiece ++ (match r.file with | some _ => piece pieceLimit r.filePiece | none => []) ++ [10]

/-! ### (f''') reconfiguration of an enabled file sink: `setFilePath` / `setFilePrefix` / `setFileSyncEnable`

As found, all three ended in `CHECK_CLOSE_RESET_FD(fd_)` — also when the new value EQUALS the old one: the next
`flush()` opens a new file.  `cache_` was not touched: a tail retained after a write error went to the NEW
file (`closeNow`, `fileRunAsFound`).  After patches/C09-09 they end in `closeLogFile()`: the file is closed at once
only when no fd is open or nothing is cached; otherwise `need_reopen_` is set and `flush()` closes the file at the
place where it checks the size limit — after the early return on an unwritten tail, i.e. only between batches.
`setFileMaxSize` only stores the limit. -/

/-- `CHECK_CLOSE_RESET_FD(fd_)` -/
def closeNow (s : FileSt) : FileSt :=
  match s.cur with
  | some d => { s with closed := s.closed ++ [d], cur := none }
  | none => s

def closeNowLen (s : FileLen) : FileLen :=
  match s.cur with
  | some d => { s with closed := s.closed ++ [d], cur := none }
  | none => s

/-- the file sink with the flag of patches/C09-09 -/
structure FileStR where
  st : FileSt := {}
  need : Bool := false          -- need_reopen_
  deriving Repr, DecidableEq

structure FileLenR where
  st : FileLen := {}
  need : Bool := false
  deriving Repr, DecidableEq

def FileStR.len (s : FileStR) : FileLenR := { st := s.st.len, need := s.need }

/-- `closeLogFile()`: `if (fd_ >= 0 && !cache_.empty()) need_reopen_ = true; else CHECK_CLOSE_RESET_FD(fd_);` -/
def reopenK (s : FileStR) : FileStR :=
  if s.st.cur.isSome && !s.st.cache.isEmpty then { s with need := true } else { s with st := closeNow s.st }

def reopenLen (s : FileLenR) : FileLenR :=
  if s.st.cur.isSome && s.st.cache != 0 then { s with need := true } else { s with st := closeNowLen s.st }

/-- `flush()` after patches/C09-09: `flushK`, whose last statement now reads
`if (need_reopen_ || total_write_size_ >= file_max_size_) { CHECK_CLOSE_RESET_FD(fd_); need_reopen_ = false; }`.
The two early returns of `flush()` (no file could be opened; an unwritten tail is left) come BEFORE that statement and
leave the flag as it is.  When it is reached with the flag set the file is closed whatever its size (`closeNow` of a state
whose file the limit check has already closed changes nothing). -/
def flushR (max : Nat) (s : FileStR) (o : FOracle) : FileStR :=
  let s' := flushK max s.st o
  let ran := s.st.cur.isSome || (o.dirOk && o.openOk)
  if ran && s'.cache.isEmpty && s.need then { st := closeNow s', need := false } else { st := s', need := s.need }

def flushRLen (max : Nat) (s : FileLenR) (o : FOracle) : FileLenR :=
  let s' := flushKLen max s.st o
  let ran := s.st.cur.isSome || (o.dirOk && o.openOk)
  if ran && s'.cache == 0 && s.need then { st := closeNowLen s', need := false } else { st := s', need := s.need }

def fileBatchR (max : Nat) (s : FileStR) (b : List Bytes × FOracle) : FileStR :=
  if b.1.isEmpty then s else flushR max { s with st := { s.st with cache := s.st.cache ++ b.1.flatten } } b.2

/-- the retry of `AsyncSink::onDisable()` (patches/C09-06) -/
def disableR (max : Nat) (s : FileStR) (o : FOracle) : FileStR :=
  if s.st.cache.isEmpty then s else flushR max s o

/-- a history of a file sink in use: back-end batches (with the kernel's answers), reconfigurations at ANY moment, changes of
the limit, and the retry made by `disable()` (the state — open fd, cache, flag — survives disable/enable) -/
inductive FOp where
  | batch (recs : List Bytes) (o : FOracle)
  | reopen
  | setMax (m : Nat)
  | retry (o : FOracle)

def fileStepR (st : Nat × FileStR) : FOp → Nat × FileStR
  | .batch recs o => (st.1, fileBatchR st.1 st.2 (recs, o))
  | .reopen => (st.1, reopenK st.2)
  | .setMax m => (m, st.2)
  | .retry o => (st.1, disableR st.1 st.2 o)

def fileRunR (max : Nat) (ops : List FOp) : Nat × FileStR := ops.foldl fileStepR (max, {})

def FOp.recs : FOp → List Bytes
  | .batch recs _ => recs
  | _ => []

/-- the code as found: every reconfiguration closes the file at once -/
def fileStepAsFound (st : Nat × FileSt) : FOp → Nat × FileSt
  | .batch recs o => (st.1, fileBatchK st.1 st.2 (recs, o))
  | .reopen => (st.1, closeNow st.2)
  | .setMax m => (m, st.2)
  | .retry o => (st.1, disableK st.1 st.2 o)

def fileRunAsFound (max : Nat) (ops : List FOp) : Nat × FileSt := ops.foldl fileStepAsFound (max, {})

/-- the whole back end of an AsyncFileSink over the chunks the pipe delivers -/
def backEnd (H : Nat) (tl : Bytes → Nat) (rend : Bytes × Bytes → Bytes) (max : Nat)
    (chunks : List Bytes) : FileSt × Bytes :=
  let r := feed H tl [] chunks
  (fileRun max {} (r.1.map (·.map rend)), r.2)

end Tbox.C09
