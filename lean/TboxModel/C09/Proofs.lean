/-
C09 — helper lemmas: format loop, filter table, file sink invariant.
-/
import TboxModel.C09.Model
namespace Tbox.C09

/-! ### (a) the format loop -/

theorem formatText_spec (msg : Bytes) (max : Nat) :
    ∃ r, formatText msg max = some (msg.take max, decide (max < msg.length), r) ∧ r ≤ 2 := by
  by_cases h1 : msg.length < min stackLimit max + 1
  · -- fits the first stack buffer
    refine ⟨1, ?_, by omega⟩
    have hle : msg.length ≤ max := by omega
    have h2 : ¬ max < msg.length := by omega
    have ht : List.take msg.length (List.take (min stackLimit max) msg) = msg := by
      rw [List.take_take, List.take_of_length_le (by omega)]
    simp [formatText, fmtLoop, fmtRound, fmtInit, h1, h2, ht, List.take_of_length_le hle]
  · by_cases h2 : msg.length ≤ max
    · -- second round with the exact size
      refine ⟨2, ?_, by omega⟩
      have h3 : ¬ max < msg.length := by omega
      simp [formatText, fmtLoop, fmtRound, fmtInit, h1, h2, h3, List.take_of_length_le h2]
    · -- truncation
      refine ⟨2, ?_, by omega⟩
      have h3 : max < msg.length := by omega
      simp [formatText, fmtLoop, fmtRound, fmtInit, h1, h2, h3, List.take_take]

/-! ### (b) the filter table -/

theorem find_filter_ne (l : List (String × Int)) (m m' : String) (h : m' ≠ m) :
    (l.filter (fun p => !(p.1 == m))).find? (fun p => p.1 == m') = l.find? (fun p => p.1 == m') := by
  induction l with
  | nil => rfl
  | cons p l ih =>
    by_cases hp : p.1 = m
    · have : (m == m') = false := by simp; exact fun e => h e.symm
      simp [hp, ih, this]
    · simp [hp, List.find?_cons, ih]

theorem find_filter_self (l : List (String × Int)) (m : String) :
    (l.filter (fun p => !(p.1 == m))).find? (fun p => p.1 == m) = none := by
  simp [List.find?_eq_none]

/-! ### (f) the file sink -/

/-- ghost view: which records went into which file -/
structure FInv (max : Nat) (s : FileSt) (recs : List Bytes) : Prop where
  cacheEmpty : s.cache = []
  groups : ∃ (gc : List (List Bytes)) (go : Option (List Bytes)),
    s.closed = gc.map List.flatten ∧ s.cur = go.map List.flatten ∧ (gc ++ go.toList).flatten = recs
  totalOk : ∀ d, s.cur = some d → s.total = d.length ∧ d.length < max
  closedFull : ∀ f ∈ s.closed, max ≤ f.length

theorem finv_init (max : Nat) : FInv max {} [] :=
  ⟨rfl, ⟨[], none, rfl, rfl, rfl⟩, (by intro d h; cases h), (by intro f h; cases h)⟩

theorem fileBatch_inv (max : Nat) (s : FileSt) (recs batch : List Bytes) (h : FInv max s recs) :
    FInv max (fileBatch max s batch) (recs ++ batch) := by
  unfold fileBatch
  by_cases hb : batch = []
  · simp [hb]; exact h
  · have hbe : batch.isEmpty = false := by cases batch <;> simp_all
    simp only [hbe, Bool.false_eq_true, ↓reduceIte]
    obtain ⟨gc, go, hcl, hcur, hfl⟩ := h.groups
    have hcache := h.cacheEmpty
    cases go with
    | none =>
      simp only [Option.map_none] at hcur
      simp only [flush, hcur, hcache, List.nil_append, Nat.zero_add]
      by_cases hm : max ≤ batch.flatten.length
      · simp only [ge_iff_le, hm, ↓reduceIte]
        refine ⟨rfl, ⟨gc ++ [batch], none, by simp [hcl], rfl, ?_⟩, (by intro d hd; cases hd), ?_⟩
        · simp at hfl; simp [hfl]
        · intro f hf
          simp only [List.mem_append, List.mem_singleton] at hf
          rcases hf with hf | hf
          · exact h.closedFull f hf
          · rw [hf]; exact hm
      · simp only [ge_iff_le, hm, ↓reduceIte]
        refine ⟨rfl, ⟨gc, some batch, hcl, rfl, ?_⟩, ?_, h.closedFull⟩
        · simp at hfl; simp [hfl]
        · intro d hd; cases hd; exact ⟨rfl, by omega⟩
    | some g =>
      simp only [Option.map_some] at hcur
      have ht := h.totalOk _ hcur
      simp only [flush, hcur, hcache, List.nil_append, ht.1]
      have hlen : (g.flatten ++ batch.flatten).length = g.flatten.length + batch.flatten.length := by simp
      by_cases hm : max ≤ g.flatten.length + batch.flatten.length
      · simp only [ge_iff_le, hm, ↓reduceIte]
        refine ⟨rfl, ⟨gc ++ [g ++ batch], none, by simp [hcl], rfl, ?_⟩, (by intro d hd; cases hd), ?_⟩
        · simp at hfl; simp [← hfl]
        · intro f hf
          simp only [List.mem_append, List.mem_singleton] at hf
          rcases hf with hf | hf
          · exact h.closedFull f hf
          · rw [hf, hlen]; exact hm
      · simp only [ge_iff_le, hm, ↓reduceIte]
        refine ⟨rfl, ⟨gc, some (g ++ batch), hcl, by simp, ?_⟩, ?_, h.closedFull⟩
        · simp at hfl; simp [← hfl]
        · intro d hd; cases hd; exact ⟨hlen.symm, by omega⟩

theorem fileRun_inv (max : Nat) (batches : List (List Bytes)) : ∀ (s : FileSt) (recs : List Bytes),
    FInv max s recs → FInv max (fileRun max s batches) (recs ++ batches.flatten) := by
  induction batches with
  | nil => intro s recs h; simpa [fileRun] using h
  | cons b bs ih =>
    intro s recs h
    have := ih _ _ (fileBatch_inv max s recs b h)
    simpa [fileRun, List.append_assoc] using this

end Tbox.C09
