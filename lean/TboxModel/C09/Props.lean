/-
C09 — PROPERTY THEOREMS.  "Logging delivers each record once, whole and in order, to each
enabled sink."  Statements rely on Model.lean only; helper lemmas live in Proofs.lean,
Reframe.lean, Dispatch.lean.

Quantifiers: every message (length 0 … beyond the maximum, on either side of the 2048-byte
stack buffer), every maximum, every filter table, every number of threads and every
schedule, every record list and EVERY chunking of the pipe stream (= every pipe buffer
configuration and timing), every header layout (`H`, `tl`), every file size limit.
-/
import TboxModel.C09.Spec
import TboxModel.C09.Proofs
import TboxModel.C09.Reframe
import TboxModel.C09.Dispatch
import TboxModel.C09.FileFaults
import TboxModel.C09.FileFaultsK
import TboxModel.C09.ReopenProofs
namespace Tbox.C09

/-! ## (a) truncation -/

/-- the `vsnprintf` retry loop terminates within 3 rounds (in fact 2) and dispatches exactly
the first `min L max` bytes of the formatted message, flagged truncated iff `L > max` —
for every message and every maximum (below, at and above the 2048-byte stack buffer). -/
theorem C09_truncate (msg : Bytes) (max : Nat) :
    ∃ r, r ≤ 3 ∧ formatText msg max = some (msg.take max, decide (max < msg.length), r) ∧
      (msg.take max).length = min msg.length max := by
  obtain ⟨r, h, hr⟩ := formatText_spec msg max
  exact ⟨r, by omega, h, by simp [Nat.min_comm]⟩

/-- why the maximum must be read once per call (patches/C09-03): in the code as found a
`LogSetMaxLength(10)` between the first and second round of a call formatting 5 bytes under
the old maximum 3 makes it dispatch `text_len = 10` over a buffer holding 5 formatted bytes -/
theorem C09_max_change_counterexample :
    fmtLoopVar 5 [3, 10, 10] (fmtInit 3) = some (10, 5, true) ∧
    fmtLoopVar 5 [3, 3, 3] (fmtInit 3) = some (3, 3, true) := by
  decide

/-- the `LogPuts` path cuts at the same place with the same flag -/
theorem C09_truncate_puts (msg : Bytes) (max : Nat) :
    putsText msg max = (msg.take max, decide (max < msg.length)) := by
  unfold putsText
  by_cases h : max < msg.length
  · simp [h]
  · simp [h, List.take_of_length_le (Nat.le_of_not_lt h)]

/-- both call paths implement the specification of the text -/
theorem C09_text_refines_spec (msg : Bytes) (max : Nat) :
    (formatText msg max).map (fun x => (x.1, x.2.1)) = some (specText msg max) ∧ putsText msg max = specText msg max := by
  obtain ⟨r, _, h, _⟩ := C09_truncate msg max
  exact ⟨by rw [h]; rfl, C09_truncate_puts msg max⟩

/-! ## (b) filter -/

/-- a record passes a sink iff its level is at most the module's threshold when the module
has one, else at most the default threshold -/
theorem C09_filter (c : FilterCfg) (level : Int) (m : String) :
    filter c level m = decide (level ≤ (c.lookup m).getD c.default) := by
  unfold filter
  cases c.lookup m <;> simp

/-- the threshold table behaves as a finite map under setLevel / unsetLevel -/
theorem C09_filter_table (c : FilterCfg) (m m' : String) (l : Int) (hm : m.isEmpty = false) :
    (c.setModule m l).lookup m = some l ∧ (c.setModule m l).default = c.default ∧
    (m' ≠ m → (c.setModule m l).lookup m' = c.lookup m') ∧
    (c.unset m).lookup m = none ∧ (m' ≠ m → (c.unset m).lookup m' = c.lookup m') ∧
    (c.setDefault l).lookup m' = c.lookup m' ∧ (c.setDefault l).default = l := by
  refine ⟨?_, ?_, ?_, ?_, ?_, rfl, rfl⟩
  · simp [FilterCfg.setModule, hm, FilterCfg.lookup]
  · simp [FilterCfg.setModule, hm]
  · intro h
    have hb : (m == m') = false := by simp; exact fun e => h e.symm
    simp [FilterCfg.setModule, hm, FilterCfg.lookup, hb, find_filter_ne _ m m' h]
  · simp [FilterCfg.unset, FilterCfg.lookup]
  · intro h; simp [FilterCfg.unset, FilterCfg.lookup, find_filter_ne _ m m' h]

/-! ## (c) dispatch under the global lock -/

section dispatch
variable {α β : Type}

/-- **contiguity**: for every program, every number of threads and every schedule, whenever
the lock is free the sequence of actions executed so far is the concatenation of the action
lists of the calls, whole, in lock-acquisition order — no call's actions are ever interleaved
with another's.  (While a call is in progress the same holds up to its unexecuted suffix.) -/
theorem C09_contiguous (acts : β → List α) (prog : Nat → List β) (sched : List Nat) :
    let s := sysRun acts true (sysInit prog) sched
    s.trace ++ s.pending = (s.order.map (fun p => acts p.2)).flatten ∧
    (s.holder = none → s.trace = (s.order.map (fun p => acts p.2)).flatten) := by
  intro s
  have h := run_inv acts prog sched _ (init_inv acts prog)
  refine ⟨h.contiguous, fun hf => ?_⟩
  have := h.contiguous
  rwa [pending_nil_of_free _ hf, List.append_nil] at this

/-- **per-thread order and exactly-once**: the calls a thread has started, in lock order,
followed by the calls it has not started yet, are exactly its program; so when it has
finished, its calls appear in the global order once each, in program order. -/
theorem C09_per_thread_order (acts : β → List α) (prog : Nat → List β) (sched : List Nat) (t : Nat) :
    let s := sysRun acts true (sysInit prog) sched
    s.started t ++ (s.threads t).todo = prog t ∧
    ((s.threads t).todo = [] → (s.order.filter (fun p => p.1 == t)).map (·.2) = prog t) := by
  intro s
  have h := (run_inv acts prog sched _ (init_inv acts prog)).perThread t
  refine ⟨h, fun hd => ?_⟩
  rw [hd, List.append_nil] at h; exact h

/-- the byte stream a sink sees (any projection of the actions to bytes) is the concatenation
of per-call byte strings in lock order -/
theorem C09_stream_is_frames (acts : β → List α) (proj : α → Bytes) (prog : Nat → List β) (sched : List Nat) :
    let s := sysRun acts true (sysInit prog) sched
    s.holder = none →
    (s.trace.map proj).flatten = (s.order.map (fun p => ((acts p.2).map proj).flatten)).flatten := by
  intro s hf
  rw [(C09_contiguous acts prog sched).2 hf, map_flatten_flatten]
  simp only [List.map_map, Function.comp_def]
  rfl

end dispatch

/-- two threads, one record each (header `[1,1]`/`[2,2]`, text `[10]`/`[20]`) -/
def demoProg : Nat → List (Bytes × Bytes)
  | 0 => [([1, 1], [10])]
  | 1 => [([2, 2], [20])]
  | _ => []

/-- **why the lock matters**: without it (`locked = false`) the schedule t0,t1,t0,t1,… puts the
second header between the first header and its text; with the lock the same schedule yields
two whole frames. -/
theorem C09_unlocked_counterexample :
    (sysRun frontAppends false (sysInit demoProg) [0, 1, 0, 1, 0, 1, 0, 1]).trace.flatten = [1, 1, 2, 2, 10, 20] ∧
    (sysRun frontAppends true (sysInit demoProg) [0, 1, 0, 1, 0, 0, 1, 1, 1, 1]).trace.flatten = [1, 1, 10, 2, 2, 20] := by
  decide

/-! ## (d) the re-framer -/

/-- **C09_reframe** (the key unbounded theorem): for every header layout, every list of
well-formed records and EVERY way of cutting the concatenated frames into chunks (empty
chunks, single bytes, cuts inside a header, several frames per chunk …) the back end emits
exactly those records, in order, and ends with an empty buffer. -/
theorem C09_reframe (H : Nat) (tl : Bytes → Nat) (hH : 0 < H) (rs : List (Bytes × Bytes))
    (hwf : ∀ r ∈ rs, WF H tl r) (chunks : List Bytes) (hc : chunks.flatten = frames rs) :
    (feed H tl [] chunks).1.flatten = rs ∧ (feed H tl [] chunks).2 = [] := by
  have h := feed_eq_drain H tl hH chunks [] (Or.inl hH)
  have hd := drain_frames H tl hH rs hwf [] (Or.inl hH)
  simp only [List.nil_append, List.append_nil] at h hd
  rw [hc, hd] at h
  exact ⟨congrArg Prod.fst h, congrArg Prod.snd h⟩

/-- at every moment (after any prefix of the byte stream, cut anywhere) what has been emitted
is a prefix of the records and nothing else: no record is emitted early, twice or damaged -/
theorem C09_reframe_prefix (H : Nat) (tl : Bytes → Nat) (hH : 0 < H) (rs : List (Bytes × Bytes))
    (hwf : ∀ r ∈ rs, WF H tl r) (c1 c2 : List Bytes) (hc : (c1 ++ c2).flatten = frames rs) :
    ∃ later, (feed H tl [] c1).1.flatten ++ later = rs := by
  have h1 := feed_eq_drain H tl hH c1 [] (Or.inl hH)
  have h := drain_append H tl hH _ c1.flatten c2.flatten (Nat.le_refl _)
  have hd := drain_frames H tl hH rs hwf [] (Or.inl hH)
  simp only [List.nil_append, List.append_nil] at h1 hd
  rw [← List.flatten_append, hc, hd, ← h1] at h
  exact ⟨_, (congrArg Prod.fst h).symm⟩

/-- fuel of the executable loop suffices, and the loop stops only on its own condition -/
theorem C09_reframe_fuel (H : Nat) (tl : Bytes → Nat) (hH : 0 < H) (buf : Bytes) (f : Nat)
    (hf : buf.length < f) :
    drainF H tl f buf = drain H tl buf ∧ Stuck H tl (drain H tl buf).2 :=
  ⟨drainF_eq_drain H tl hH buf f hf, drain_rem_stuck H tl hH _ buf (Nat.le_refl _)⟩

/-- front end + lock + pipe contract + back end: for every assignment of records to threads,
every schedule that ends with the lock free, and every chunking of the bytes appended to the
pipe, the back end emits exactly the records in lock-acquisition order. -/
theorem C09_async_end_to_end (H : Nat) (tl : Bytes → Nat) (hH : 0 < H)
    (prog : Nat → List (Bytes × Bytes)) (hwf : ∀ t, ∀ r ∈ prog t, WF H tl r)
    (sched : List Nat) (chunks : List Bytes) :
    let s := sysRun frontAppends true (sysInit prog) sched
    s.holder = none → chunks.flatten = s.trace.flatten →
    (feed H tl [] chunks).1.flatten = s.order.map (·.2) ∧ (feed H tl [] chunks).2 = [] := by
  intro s hf hc
  have hinv := run_inv frontAppends prog sched _ (init_inv frontAppends prog)
  have hstream : s.trace.flatten = frames (s.order.map (·.2)) := by
    rw [(C09_contiguous frontAppends prog sched).2 hf]
    have : ∀ r : Bytes × Bytes, (frontAppends r).flatten = frame r := by
      intro r; unfold frontAppends frame
      by_cases h : r.2.length = 0
      · have : r.2 = [] := List.eq_nil_of_length_eq_zero h
        simp [this]
      · simp [h]
    simp only [frames, List.map_map, Function.comp_def]
    induction s.order with
    | nil => rfl
    | cons p ps ih => simp [this, ih]
  apply C09_reframe H tl hH _ _ chunks (hc.trans hstream)
  intro r hr
  obtain ⟨p, hp, rfl⟩ := List.mem_map.mp hr
  -- every call in the order belongs to its thread's program
  have hper := hinv.perThread p.1
  have : p.2 ∈ s.started p.1 := by
    simp only [Sys.started, List.mem_map, List.mem_filter]
    exact ⟨p, ⟨hp, by simp⟩, rfl⟩
  exact hwf p.1 p.2 (hper ▸ List.mem_append_left _ this)

/-! ## (e) rendering -/

/-- fields appear in the fixed order level, time, thread, module, function, text, marker,
file:line, newline; the text is contiguous and unmodified -/
theorem C09_render_fields (r : Rec) :
    render r = [levelCode r.level, 32] ++ r.ts ++ [32] ++ r.tid ++ [32] ++ r.module ++ [32]
      ++ (match r.func with | some f => f ++ funcSuffix | none => [])
      ++ (if r.text.length > 0 then r.text ++ [32] else [])
      ++ (if r.trunc then truncMarker else [])
      ++ (match r.file with | some f => filePrefix ++ f ++ [58] ++ r.line | none => []) ++ [10] := by
  obtain ⟨level, ts, tid, module, func, text, trunc, file, line⟩ := r
  cases func <;> cases file <;>
    simp [render, Rec.head, Rec.funcPiece, Rec.textPiece, Rec.filePiece, List.append_assoc]

/-- a truncated record is marked, whatever the text length (also for max = 0) -/
theorem C09_render_marker (r : Rec) :
    render { r with trunc := true } ≠ render { r with trunc := false } := by
  obtain ⟨level, ts, tid, module, func, text, trunc, file, line⟩ := r
  intro h
  have := congrArg List.length h
  simp only [render, Rec.head, Rec.funcPiece, Rec.textPiece, Rec.filePiece, truncMarker,
    List.length_append, List.length_cons, List.length_nil, if_true, Bool.false_eq_true, if_false] at this
  omega

/-- the code as found loses the marker when the maximum is 0 (text cut to nothing):
repaired by patches/C09-01 -/
theorem C09_render_marker_counterexample :
    let r : Rec := { level := 5, ts := [], tid := [49], module := [109], func := none, text := [],
                     trunc := true, file := none, line := [] }
    renderAsFound r = renderAsFound { r with trunc := false } := by
  decide


/-! ### (e') all sinks: colour, SyncStdoutSink, AsyncStdoutSink, AsyncSyslogSink -/

/-- the tables extracted from log_impl.cpp on this run: the level letters are the documented
ones (F E W N I I D T) and there is one colour code per level, each a non-empty SGR parameter
string (digits and `;`) — so `ESC[<code>m … ESC[0m` is a well-formed bracket -/
theorem C09_tables :
    genLevelCodes = levelCodes.map (fun c => c.toNat.toUInt8) ∧ genColorCodes.length = 8 ∧
    ∀ c ∈ genColorCodes, c ≠ [] ∧ ∀ b ∈ c, (48 ≤ b ∧ b ≤ 57) ∨ b = 59 := by
  decide

/-- **C09_render** for the async file / stdout sinks, colour off and on: the fields in their
fixed order, bracketed by `ESC[<code>m` and `ESC[0m` iff colour is enabled, then a newline -/
theorem C09_render (color : Bool) (r : Rec) :
    renderC color r = (if color then [27, 91] ++ colorCode r.level ++ [109] else [])
      ++ [levelCode r.level, 32] ++ r.ts ++ [32] ++ r.tid ++ [32] ++ r.module ++ [32]
      ++ (match r.func with | some f => f ++ funcSuffix | none => [])
      ++ (if r.text.length > 0 then r.text ++ [32] else [])
      ++ (if r.trunc then truncMarker else [])
      ++ (match r.file with | some f => filePrefix ++ f ++ [58] ++ r.line | none => [])
      ++ (if color then [27, 91, 48, 109] else []) ++ [10] ∧
    renderC false r = render r := by
  obtain ⟨level, ts, tid, module, func, text, trunc, file, line⟩ := r
  constructor
  · cases color <;> cases func <;> cases file <;>
      simp [renderC, renderBody, colorOn, colorOff, Rec.head, Rec.funcPiece, Rec.textPiece, Rec.filePiece, List.append_assoc]
  · simp [renderC, renderBody, render]

/-- **C09_render** for the synchronous stdout sink: its printf sequence produces byte for byte
what the asynchronous sinks produce (same fields, same marker rule, same colour bracket) -/
theorem C09_render_sync (color : Bool) (r : Rec) : renderSync color r = renderC color r := by
  obtain ⟨level, ts, tid, module, func, text, trunc, file, line⟩ := r
  cases color <;> cases func <;> cases file <;>
    simp [renderSync, renderC, renderBody, colorOn, colorOff, Rec.head, Rec.funcPiece, Rec.textPiece, Rec.filePiece, List.append_assoc]

theorem cstr_of_no_nul (bs : Bytes) (h : ∀ b ∈ bs, b ≠ 0) : cstr (bs ++ [0]) = bs := by
  unfold cstr
  induction bs with
  | nil => simp
  | cons x xs ih =>
    have hx : x ≠ 0 := h x (by simp)
    simp [hx]
    simpa using ih (fun b hb => h b (by simp [hb]))

/-- **C09_render** for the syslog sink: one `syslog(LOG_INFO, "%s", …)` call per record whose
message is the rendered record without the newline — whole, provided no field contains a NUL
byte (formatted text never does) -/
theorem C09_render_syslog (color : Bool) (r : Rec) (h : ∀ b ∈ renderBody color r, b ≠ 0) :
    syslogMsg color r = renderBody color r ∧ renderC color r = syslogMsg color r ++ [10] := by
  have := cstr_of_no_nul (renderBody color r) h
  exact ⟨this, by simp [syslogMsg, this, renderC]⟩

/-- the truncation marker distinguishes records in every sink, colour on or off -/
theorem C09_render_marker_all (color : Bool) (r : Rec) :
    renderC color { r with trunc := true } ≠ renderC color { r with trunc := false } := by
  obtain ⟨level, ts, tid, module, func, text, trunc, file, line⟩ := r
  intro h
  have := congrArg List.length h
  simp only [renderC, renderBody, Rec.head, Rec.funcPiece, Rec.textPiece, Rec.filePiece, truncMarker,
    List.length_append, List.length_cons, List.length_nil, if_true, Bool.false_eq_true, if_false] at this
  omega

/-! ## (f) file sink -/

/-- **whole records, nothing lost, nothing split**: for every sequence of back-end batches and
every size limit (also smaller than one record) there is a grouping of the records, in
order, into consecutive groups such that the files in creation order are exactly the
concatenations of the groups — every record lies wholly in one file and the concatenation of
the files is the concatenation of the rendered records; nothing stays in the cache. -/
theorem C09_file_whole_records (max : Nat) (batches : List (List Bytes)) :
    let s := fileRun max {} batches
    (∃ groups : List (List Bytes), groups.flatten = batches.flatten ∧ s.files = groups.map List.flatten) ∧
    s.files.flatten = batches.flatten.flatten ∧ s.cache = [] := by
  intro s
  have h := fileRun_inv max batches {} [] (finv_init max)
  simp only [List.nil_append] at h
  obtain ⟨gc, go, hcl, hcur, hfl⟩ := h.groups
  have hfiles : s.files = (gc ++ go.toList).map List.flatten := by
    show (fileRun max {} batches).files = _
    unfold FileSt.files; rw [hcl, hcur]; cases go <;> simp
  refine ⟨⟨gc ++ go.toList, hfl, hfiles⟩, ?_, h.cacheEmpty⟩
  rw [hfiles, ← hfl]
  generalize gc ++ go.toList = g
  induction g with
  | nil => rfl
  | cons x xs ih => simp [ih]

/-- rollover happens only at the limit: every closed file reached the limit, the open one is
still below it -/
theorem C09_file_rollover (max : Nat) (batches : List (List Bytes)) :
    let s := fileRun max {} batches
    (∀ f ∈ s.closed, max ≤ f.length) ∧ (∀ d, s.cur = some d → d.length < max) := by
  intro s
  have h := fileRun_inv max batches {} [] (finv_init max)
  exact ⟨h.closedFull, fun d hd => (h.totalOk d hd).2⟩

/-- **disable flushes**: `disable()` removes the channel (no further append), then the pipe's
cleanup hands every appended byte to the back end (C10 contract) in some chunking.  For every
record list and every chunking the files then hold exactly the rendered records in order,
the cache and the re-framing buffer are empty. -/
theorem C09_disable_flushes (H : Nat) (tl : Bytes → Nat) (hH : 0 < H) (rend : Bytes × Bytes → Bytes)
    (max : Nat) (rs : List (Bytes × Bytes)) (hwf : ∀ r ∈ rs, WF H tl r)
    (chunks : List Bytes) (hc : chunks.flatten = frames rs) :
    let b := backEnd H tl rend max chunks
    b.1.files.flatten = (rs.map rend).flatten ∧ b.1.cache = [] ∧ b.2 = [] ∧
    (∃ groups : List (List Bytes), groups.flatten = rs.map rend ∧ b.1.files = groups.map List.flatten) := by
  intro b
  obtain ⟨h1, h2⟩ := C09_reframe H tl hH rs hwf chunks hc
  have hf := C09_file_whole_records max ((feed H tl [] chunks).1.map (·.map rend))
  have hfl : ((feed H tl [] chunks).1.map (·.map rend)).flatten = rs.map rend := by
    rw [← h1, List.map_flatten]
  simp only at hf
  rw [hfl] at hf
  exact ⟨hf.2.1, hf.2.2, h2, hf.1⟩

/-- when all threads `< n` have finished (and no other thread has a program) the global order
satisfies the executable interleaving specification -/
theorem C09_order_is_interleaving {α β : Type} [DecidableEq β] (acts : β → List α) (prog : Nat → List β)
    (sched : List Nat) (n : Nat) (hprog : ∀ t, n ≤ t → prog t = []) :
    let s := sysRun acts true (sysInit prog) sched
    (∀ t, t < n → (s.threads t).todo = []) → specInterleaving n prog s.order = true := by
  intro s hdone
  have hinv := run_inv acts prog sched _ (init_inv acts prog)
  simp only [specInterleaving, Bool.and_eq_true, List.all_eq_true, decide_eq_true_eq, List.mem_range, beq_iff_eq]
  refine ⟨fun p hp => ?_, fun t ht => ?_⟩
  · -- an entry of thread `p.1` is in `prog p.1`, which is empty for `p.1 ≥ n`
    by_cases hlt : p.1 < n
    · exact hlt
    · have hper := hinv.perThread p.1
      have hmem : p.2 ∈ s.started p.1 := by
        simp only [Sys.started, List.mem_map, List.mem_filter]
        exact ⟨p, ⟨hp, by simp⟩, rfl⟩
      have : p.2 ∈ prog p.1 := hper ▸ List.mem_append_left _ hmem
      rw [hprog p.1 (Nat.le_of_not_lt hlt)] at this
      cases this
  · exact (C09_per_thread_order acts prog sched t).2 (hdone t ht)

/-- the file theorem in terms of the specification -/
theorem C09_files_refine_spec (max : Nat) (batches : List (List Bytes)) :
    specFiles (fileRun max {} batches).files batches.flatten :=
  (C09_file_whole_records max batches).1


/-! ### (f') write faults -/

/-- with complete writes the repaired flush is the flush of the theorems above -/
theorem C09_flushW_refines_flush (max : Nat) (s : FileSt) : flushW max s [] = flush max s := by
  obtain ⟨closed, cur, total, cache⟩ := s
  cases cur <;> simp [flushW, flush, writeAll, curData, curTotal]

/-- **no loss, no duplication, no split under partial writes and write errors** (repaired
`flush()`, patches/C09-04): for every batch sequence, every size limit and EVERY sequence of
`write` results (short counts, errors), the files in creation order followed by the unwritten
cache are byte for byte the rendered records in order — nothing is written twice, nothing is
dropped — and every closed file is a whole group of consecutive records. -/
theorem C09_file_write_faults (max : Nat) (bs : List (List Bytes × List (Option Nat))) :
    let s := fileRunW max {} bs
    let recs := (bs.map (·.1)).flatten
    s.files.flatten ++ s.cache = recs.flatten ∧
    (∃ (gc : List (List Bytes)) (gcur : List Bytes), s.closed = gc.map List.flatten ∧ gc.flatten ++ gcur = recs) ∧
    (s.cur = none → s.cache = []) := by
  intro s recs
  have h := fileRunW_inv max bs {} [] winv_init
  simp only [List.nil_append] at h
  obtain ⟨gc, gcur, hcl, hrec, hdat⟩ := h.groups
  refine ⟨?_, ⟨gc, gcur, hcl, hrec⟩, h.idle⟩
  show (fileRunW max {} bs).files.flatten ++ (fileRunW max {} bs).cache = ((bs.map (·.1)).flatten).flatten
  rw [files_flatten, List.append_assoc, hdat, hcl, flatten_map_flatten, ← hrec]; simp

/-- the code as found: a short `write` (1 of 3 bytes accepted) leaves the bytes in the file AND
in the cache; the next flush writes them again — the record is split and duplicated -/
theorem C09_file_partial_write_counterexample :
    let s1 := fileBatchAsFound 100 {} ([[1, 2, 10]], some 1)
    let s2 := fileBatchAsFound 100 s1 ([[3, 10]], some 99)
    s2.files = [[1, 1, 2, 10, 3, 10]] ∧
    (fileRunW 100 {} [([[1, 2, 10]], [some 1, none]), ([[3, 10]], [])]).files = [[1, 2, 10, 3, 10]] := by
  decide

/-! ### (f'') EVERY kernel answer from an oracle: short counts, EINTR, hard errors, failing open -/

/-- with a kernel that never refuses, the oracle-driven flush is the flush of `C09_file_whole_records` -/
theorem C09_flushK_refines_flush (max : Nat) (s : FileSt) : flushK max s {} = flush max s := by
  obtain ⟨closed, cur, total, cache⟩ := s
  cases cur <;> simp [flushK, flush, writeLoop]

/-- **C09_file_whole_records for EVERY fault schedule.**  For every sequence of back-end batches,
every size limit (also smaller than one record) and every answer of the kernel to every
`write` (k of n bytes, EINTR, hard error, 0), `mkdir` and `open` (failure when a new file is due):
* the files in creation order followed by the cached tail are byte for byte the rendered
  records in order: nothing is dropped (what the kernel refused is RETAINED in the cache, without
  bound, for as long as it refuses), nothing is written twice;
* every closed file is the concatenation of a whole group of consecutive records, and the open
  file followed by the cached tail is the concatenation of the remaining whole records: the tail
  of a cut record can only go to the SAME file — every record lies wholly in one file;
* a file is closed only at or above the limit, and never in the middle of a batch: an open file
  whose batch is complete is below the limit; the counter is the size of the open file. -/
theorem C09_file_whole_records_faults (max : Nat) (bs : List (List Bytes × FOracle)) :
    let s := fileRunK max {} bs
    let recs := (bs.map (·.1)).flatten
    s.files.flatten ++ s.cache = recs.flatten ∧
    (∃ (gc : List (List Bytes)) (gcur : List Bytes), s.closed = gc.map List.flatten ∧
        gc.flatten ++ gcur = recs ∧ curData s ++ s.cache = gcur.flatten) ∧
    (∀ f ∈ s.closed, max ≤ f.length) ∧
    (∀ d, s.cur = some d → s.total = d.length ∧ (s.cache = [] → d.length < max)) := by
  intro s recs
  have h := fileRunK_inv max bs {} [] (kinv_init max)
  simp only [List.nil_append] at h
  obtain ⟨gc, gcur, hcl, hrec, hdat⟩ := h.groups
  refine ⟨?_, ⟨gc, gcur, hcl, hrec, hdat⟩, h.closedFull, fun d hd => ⟨h.totalOk d hd, h.openBelow d hd⟩⟩
  show (fileRunK max {} bs).files.flatten ++ (fileRunK max {} bs).cache = ((bs.map (·.1)).flatten).flatten
  rw [files_flatten, List.append_assoc, hdat, hcl, flatten_map_flatten, ← hrec]; simp

/-- … and once the cache is empty (the kernel accepted the tail) the directory satisfies the
specification of the property: a grouping of the (non-empty) records, whole and in order,
into files -/
theorem C09_file_faults_on_disk (max : Nat) (bs : List (List Bytes × FOracle))
    (hne : ∀ b ∈ bs, ∀ r ∈ b.1, r ≠ []) :
    let s := fileRunK max {} bs
    s.cache = [] → specFiles s.files (bs.map (·.1)).flatten := by
  intro s hc
  obtain ⟨_, ⟨gc, gcur, hcl, hrec, hdat⟩, _, _⟩ := C09_file_whole_records_faults max bs
  have hdat' : curData s ++ s.cache = gcur.flatten := hdat
  rw [hc, List.append_nil] at hdat'
  have hcl' : s.closed = gc.map List.flatten := hcl
  cases hcur : s.cur with
  | some d =>
    refine ⟨gc ++ [gcur], by simpa using hrec, ?_⟩
    simp only [curData, hcur] at hdat'
    simp [FileSt.files, hcur, hcl', hdat']
  | none =>
    simp only [curData, hcur] at hdat'
    -- no file is open and nothing is cached: the remaining group is empty (records are non-empty)
    have hg : gcur = [] := by
      cases hgc : gcur with
      | nil => rfl
      | cons r rest =>
        exfalso
        have hr : r ∈ (bs.map (·.1)).flatten := by rw [← hrec, hgc]; simp
        obtain ⟨l, hl, hrl⟩ := List.mem_flatten.mp hr
        obtain ⟨b, hb, rfl⟩ := List.mem_map.mp hl
        have := hne b hb r hrl
        rw [hgc] at hdat'
        cases r with
        | nil => exact this rfl
        | cons x xs => simp at hdat'
    refine ⟨gc, by rw [← hrec, hg]; simp, ?_⟩
    simp [FileSt.files, hcur, hcl']

/-- **recovery / disable**: whatever faults happened before, one flush whose kernel answers are
clean — the retry `onDisable()` makes after the pipe has delivered everything (patches/C09-06) —
puts every record on disk: the cache is empty and the files hold exactly the records -/
theorem C09_file_fault_recovery (max : Nat) (bs : List (List Bytes × FOracle)) (o : FOracle)
    (hd : o.dirOk = true) (ho : o.openOk = true) (hw : ∀ a ∈ o.writes, a.soft = true) :
    let s := disableK max (fileRunK max {} bs) o
    s.cache = [] ∧ s.files.flatten = ((bs.map (·.1)).flatten).flatten := by
  intro s
  have hinv := disableK_inv max _ _ o (fileRunK_inv max bs {} [] (kinv_init max))
  simp only [List.nil_append] at hinv
  have hc : s.cache = [] := by
    show (disableK max (fileRunK max {} bs) o).cache = []
    unfold disableK
    split
    · rename_i h; exact List.isEmpty_iff.mp h
    · exact flushK_clean max _ o hd ho hw
  obtain ⟨gc, gcur, hcl, hrec, hdat⟩ := hinv.groups
  refine ⟨hc, ?_⟩
  have hdat' : curData s ++ s.cache = gcur.flatten := hdat
  rw [hc, List.append_nil] at hdat'
  rw [files_flatten, hdat', show s.closed = gc.map List.flatten from hcl, flatten_map_flatten, ← hrec]; simp

/-- without the retry (the code as found) a record refused once stays in memory although the
kernel would accept it now: limit 100, one record, `write` fails hard once, then `disable()` -/
theorem C09_disable_retry_counterexample :
    let s := fileRunK 100 {} [([[1, 2, 10]], { writes := [.err] })]
    s.cache = [1, 2, 10] ∧ s.files.flatten = [] ∧ (disableK 100 s {}).files = [[1, 2, 10]] ∧ (disableK 100 s {}).cache = [] := by
  decide

/-- **why the early return on an unwritten tail matters** (the seeded change C09-5 drops it):
limit 2, record `[1,2,3,10]`; `write` accepts 2 bytes, then fails hard; the next batch is written
without fault.  Without the return the rollover check closes the file in the middle of the
record: it is split over two files.  The code as it is keeps it whole in one file. -/
theorem C09_file_midbatch_rollover_counterexample :
    let o : FOracle := { writes := [.acc 2, .err] }
    let bad := fileBatchKNoReturn 2 (fileBatchKNoReturn 2 {} ([[1, 2, 3, 10]], o)) ([[5, 10]], {})
    let good := fileRunK 2 {} [([[1, 2, 3, 10]], o), ([[5, 10]], {})]
    bad.files = [[1, 2], [3, 10, 5, 10]] ∧ good.files = [[1, 2, 3, 10, 5, 10]] ∧ good.cache = [] := by
  decide

/-- persistent refusal: the kernel never accepts anything (every `open` fails): nothing is on
disk, everything is retained in order in the cache -/
theorem C09_file_persistent_open_failure (max : Nat) (bs : List (List Bytes × FOracle))
    (hfail : ∀ b ∈ bs, b.2.openOk = false) :
    let s := fileRunK max {} bs
    s.files = [] ∧ s.cache = ((bs.map (·.1)).flatten).flatten := by
  intro s
  have key : ∀ (bs : List (List Bytes × FOracle)) (c : Bytes), (∀ b ∈ bs, b.2.openOk = false) →
      fileRunK max { cache := c } bs = { cache := c ++ ((bs.map (·.1)).flatten).flatten } := by
    intro bs
    induction bs with
    | nil => intro c _; simp [fileRunK]
    | cons b bs ih =>
      intro c h
      have hb := h b (by simp)
      have hrest : ∀ b' ∈ bs, b'.2.openOk = false := fun b' hb' => h b' (by simp [hb'])
      have hstep : fileBatchK max { cache := c } b = { cache := c ++ b.1.flatten } := by
        unfold fileBatchK
        by_cases he : b.1 = []
        · simp [he]
        · have : b.1.isEmpty = false := by cases hh : b.1 <;> simp_all
          simp [this, flushK, hb]
      have := ih (c ++ b.1.flatten) hrest
      simp only [fileRunK, List.foldl_cons] at this ⊢
      rw [hstep, this]; simp
  have := key bs [] hfail
  simp only [List.nil_append] at this
  show (fileRunK max {} bs).files = [] ∧ (fileRunK max {} bs).cache = _
  rw [this]; simp [FileSt.files]

/-- the trace acceptor replays the recorded system calls through `flushKLen`; it is exactly the
length image of the byte-level `flushK` the theorems above are about -/
theorem C09_flushK_len (max : Nat) (s : FileSt) (o : FOracle) :
    (flushK max s o).len = flushKLen max s.len o := flushK_len max s o

/-! ### (g) the stdout sinks under write faults on fd 1 -/

/-- `AsyncStdoutSink` (after patches/C09-05), for EVERY answer of the kernel to every `write(1, …)`:
what reaches fd 1 is, batch by batch and in order, a PREFIX of each batch — nothing is written
twice or out of order; only a hard error (EPIPE, EBADF, EIO: stdout is gone) drops the rest of
that one batch.  Without a hard error (short counts, EINTR, EAGAIN on a non-blocking pipe) the
stream is exactly the concatenation of the rendered records. -/
theorem C09_stdout_faults_write_only (bs : List (List Bytes × List WAns)) :
    (∃ outs : List Bytes, stdoutRun bs = outs.flatten ∧ outs.length = bs.length ∧
        ∀ i (h : i < bs.length) (h' : i < outs.length), outs[i] <+: (bs[i]).1.flatten) ∧
    ((∀ b ∈ bs, ∀ a ∈ b.2, a.soft = true) → stdoutRun bs = ((bs.map (·.1)).flatten).flatten) := by
  constructor
  · refine ⟨bs.map stdoutBatch, rfl, by simp, ?_⟩
    intro i h h'
    simp only [List.getElem_map, stdoutBatch]
    split
    · exact List.nil_prefix
    · exact ⟨(writeLoop (bs[i]).2 (bs[i]).1.flatten).2, writeLoop_split _ _⟩
  · intro hs
    induction bs with
    | nil => rfl
    | cons b bs ih =>
      have hb : stdoutBatch b = b.1.flatten := by
        unfold stdoutBatch stdoutFlush
        split
        · rename_i he; simp [List.isEmpty_iff.mp he]
        · rw [writeLoop_soft _ _ (hs b (by simp))]
      have := ih (fun b' hb' => hs b' (by simp [hb']))
      simp only [stdoutRun, List.map_cons, List.flatten_cons] at this ⊢
      rw [hb, this]; simp

/-- the code as found: ONE `write`, its result ignored.  A short count (5 of 6 bytes) cuts the
second record and drops its end; EINTR/EAGAIN drops the whole batch. -/
theorem C09_stdout_short_write_counterexample :
    stdoutFlushAsFound (.acc 5) ([[1, 2, 10], [3, 4, 10]] : List Bytes).flatten = [1, 2, 10, 3, 4] ∧
    stdoutFlushAsFound .eintr ([[1, 2, 10], [3, 4, 10]] : List Bytes).flatten = [] ∧
    stdoutRun [([[1, 2, 10], [3, 4, 10]], [.acc 5, .eintr, .acc 9])] = [1, 2, 10, 3, 4, 10] := by
  decide


/-! ### (g') the EAGAIN branch: the answer of `poll` is part of the oracle -/

/-- the loop of `AsyncStdoutSink::flush()` is the write loop of the file sink once the `poll` answers are forgotten -/
theorem stdoutLoop_toW : ∀ (os : List SAns) (data : Bytes),
    stdoutLoop os data = writeLoop (os.map SAns.toW) data := by
  intro os
  induction os with
  | nil => intro data; rfl
  | cons a os ih =>
    intro data
    cases a <;> simp [stdoutLoop, writeLoop, SAns.toW, ih]

theorem SAns.soft_toW (a : SAns) : a.toW.soft = a.soft := by cases a <;> rfl

theorem stdoutRunP_eq (bs : List (List Bytes × List SAns)) :
    stdoutRunP bs = stdoutRun (bs.map fun b => (b.1, b.2.map SAns.toW)) := by
  simp only [stdoutRunP, stdoutRun, List.map_map]
  congr 1
  apply List.map_congr_left
  intro b _
  simp [stdoutBatchP, stdoutBatch, stdoutFlushP, stdoutFlush, stdoutLoop_toW]

/-- **`AsyncStdoutSink` (after patches/C09-05) for EVERY answer of the kernel to every `write(1, …)` AND to every
`poll(POLLOUT)` made after an EAGAIN** (ready, −1/EINTR because a handled signal landed on the back-end thread,
−1/another errno, 0):
* what reaches fd 1 is, batch by batch and in order, a PREFIX of each batch — nothing twice, nothing out of order;
* without a hard error of `write` itself (EPIPE, EBADF, EIO: stdout is gone; or a `write` returning 0) the stream is
  exactly the concatenation of the rendered records — whatever `poll` answered: EINTR from `poll` is retried like EINTR
  from `write`, it never ends a batch;
* the answers of `poll` have no influence at all on what is delivered. -/
theorem C09_stdout_faults (bs : List (List Bytes × List SAns)) :
    (∃ outs : List Bytes, stdoutRunP bs = outs.flatten ∧ outs.length = bs.length ∧
        ∀ i (h : i < bs.length) (h' : i < outs.length), outs[i] <+: (bs[i]).1.flatten) ∧
    ((∀ b ∈ bs, ∀ a ∈ b.2, a.soft = true) → stdoutRunP bs = ((bs.map (·.1)).flatten).flatten) ∧
    (∀ f : PAns → PAns, stdoutRunP (bs.map fun b => (b.1, b.2.map (SAns.setPoll f))) = stdoutRunP bs) := by
  refine ⟨?_, ?_, ?_⟩
  · refine ⟨bs.map stdoutBatchP, rfl, by simp, ?_⟩
    intro i h h'
    simp only [List.getElem_map, stdoutBatchP, stdoutFlushP]
    split
    · exact List.nil_prefix
    · rw [stdoutLoop_toW]; exact ⟨(writeLoop _ (bs[i]).1.flatten).2, writeLoop_split _ _⟩
  · intro hs
    rw [stdoutRunP_eq]
    have := (C09_stdout_faults_write_only (bs.map fun b => (b.1, b.2.map SAns.toW))).2 (by
      intro b hb a ha
      obtain ⟨b0, hb0, rfl⟩ := List.mem_map.mp hb
      obtain ⟨a0, ha0, rfl⟩ := List.mem_map.mp ha
      rw [SAns.soft_toW]; exact hs b0 hb0 a0 ha0)
    simpa [List.map_map, Function.comp_def] using this
  · intro f
    rw [stdoutRunP_eq, stdoutRunP_eq, List.map_map]
    congr 1
    apply List.map_congr_left
    intro b _
    simp only [Function.comp_def, List.map_map]
    congr 1
    apply List.map_congr_left
    intro a _
    cases a <;> rfl

/-- **why `poll`'s failure must not end the loop** (the seeded change C09-6 `if (::poll(…) < 0) break;`): two records,
`write` takes 5 of the 6 bytes, then EAGAIN; a signal interrupts the `poll`.  The loop that gives up cuts the second
record and `cache_.clear()` drops its end; the loop as coded delivers both records whole. -/
theorem C09_stdout_poll_break_counterexample :
    stdoutLoopPollBreaks [.acc 5, .again .eintr, .acc 9] ([[1, 2, 10], [3, 4, 10]] : List Bytes).flatten = ([1, 2, 10, 3, 4], [10]) ∧
    stdoutLoop [.acc 5, .again .eintr, .acc 9] ([[1, 2, 10], [3, 4, 10]] : List Bytes).flatten = ([1, 2, 10, 3, 4, 10], []) ∧
    stdoutRunP [([[1, 2, 10], [3, 4, 10]], [.acc 5, .again .eintr, .again .err, .again .timeout, .eintr, .acc 9])] = [1, 2, 10, 3, 4, 10] := by
  decide

/-! ### (e'') the 1 KiB pieces -/

/-- after patches/C09-08 every piece arrives whole, whatever its length and whatever the size of the stack buffer:
no `piecesFit` hypothesis is left -/
theorem C09_piece_whole (cap : Nat) (s : Bytes) : piece cap s = s := by
  unfold piece snprintfInto
  simp only
  split
  · rename_i h
    have hc : cap ≠ 0 := by omega
    simp only [hc, ↓reduceIte]
    rw [List.take_of_length_le (show s.length ≤ cap - 1 by omega)]
    simp
  · simp

/-- the async sinks render every record — names of ANY length — exactly as `render` says: one whole line -/
theorem C09_render_pieces (r : Rec) : renderPieces r = render r := by
  unfold renderPieces render
  simp only [C09_piece_whole]
  cases hf : r.func <;> cases hg : r.file <;> simp [Rec.funcPiece, Rec.filePiece, hf, hg]

/-- the code as found: `append(buff, ret)`.  A piece shorter than the buffer is delivered whole; at exactly the buffer
size its last byte (the blank that ends the piece) is replaced by the NUL; anything longer is read beyond the array. -/
theorem C09_piece_overread_counterexample (cap : Nat) (s : Bytes) (hc : 0 < cap) :
    (s.length < cap → pieceAsFound cap s = some s) ∧
    (s.length = cap → pieceAsFound cap s = some (s.take (cap - 1) ++ [0])) ∧
    (cap < s.length → pieceAsFound cap s = none) := by
  unfold pieceAsFound snprintfInto
  have hc' : cap ≠ 0 := by omega
  simp only [hc', ↓reduceIte]
  refine ⟨?_, ?_, ?_⟩
  · intro h
    rw [if_pos (by omega), List.take_of_length_le (show s.length ≤ cap - 1 by omega)]
    simp
  · intro h
    rw [if_pos (by omega)]
    apply congrArg
    apply List.take_of_length_le
    simp only [List.length_append, List.length_take, List.length_cons, List.length_nil]
    omega
  · intro h
    rw [if_neg (by omega)]

/-! ### (f''') reconfiguration of a file sink that is in use -/

/-- **`setFilePath` / `setFilePrefix` / `setFileSyncEnable` (also to the value the sink already has) at ANY moment of a
history of an enabled file sink** (after patches/C09-09) — between batches, while a tail is cached after a write error,
several times in a row, between a failed and a successful retry of `disable()`, together with changes of the limit —
and for every answer of the kernel to every `mkdir` / `open` / `write`:
* nothing is lost or duplicated: files ++ cache = the rendered records, in order;
* every CLOSED file is a whole number of records; the open file plus the cached tail is a whole number of records: the
  rest of a cut record can only go to the SAME file — a record is never split over two files, whenever the setters are called. -/
theorem C09_file_reopen_whole_records (max : Nat) (ops : List FOp) :
    let s := (fileRunR max ops).2.st
    let recs := (ops.map FOp.recs).flatten
    s.files.flatten ++ s.cache = recs.flatten ∧
    ∃ (gc : List (List Bytes)) (gcur : List Bytes), s.closed = gc.map List.flatten ∧
      gc.flatten ++ gcur = recs ∧ curData s ++ s.cache = gcur.flatten := by
  intro s recs
  have h := foldl_fileStepR_ginv ops (max, {}) [] ginv_init
  simp only [List.nil_append] at h
  obtain ⟨gc, gcur, hcl, hrec, hdat⟩ := h
  refine ⟨?_, gc, gcur, hcl, hrec, hdat⟩
  show (fileRunR max ops).2.st.files.flatten ++ (fileRunR max ops).2.st.cache = ((ops.map FOp.recs).flatten).flatten
  have hcl' : (fileRunR max ops).2.st.closed = gc.map List.flatten := hcl
  have hdat' : curData (fileRunR max ops).2.st ++ (fileRunR max ops).2.st.cache = gcur.flatten := hdat
  rw [files_flatten, List.append_assoc, hdat', hcl', flatten_map_flatten, ← hrec]; simp

/-- … and once the cache is empty the directory satisfies the specification of the property (a grouping of the non-empty
records, whole and in order, into files) — for histories with reconfigurations at any moment -/
theorem C09_file_reopen_on_disk (max : Nat) (ops : List FOp) (hne : ∀ op ∈ ops, ∀ r ∈ op.recs, r ≠ []) :
    let s := (fileRunR max ops).2.st
    s.cache = [] → specFiles s.files (ops.map FOp.recs).flatten := by
  intro s hc
  obtain ⟨_, gc, gcur, hcl, hrec, hdat⟩ := C09_file_reopen_whole_records max ops
  have hdat' : curData s ++ s.cache = gcur.flatten := hdat
  rw [hc, List.append_nil] at hdat'
  have hcl' : s.closed = gc.map List.flatten := hcl
  cases hcur : s.cur with
  | some d =>
    refine ⟨gc ++ [gcur], by simpa using hrec, ?_⟩
    simp only [curData, hcur] at hdat'
    simp [FileSt.files, hcur, hcl', hdat']
  | none =>
    simp only [curData, hcur] at hdat'
    have hg : gcur = [] := by
      cases hgc : gcur with
      | nil => rfl
      | cons r rest =>
        exfalso
        have hr : r ∈ (ops.map FOp.recs).flatten := by rw [← hrec, hgc]; simp
        obtain ⟨l, hl, hrl⟩ := List.mem_flatten.mp hr
        obtain ⟨op, hop, rfl⟩ := List.mem_map.mp hl
        have := hne op hop r hrl
        rw [hgc] at hdat'
        cases r with
        | nil => exact this rfl
        | cons x xs => simp at hdat'
    refine ⟨gc, by rw [← hrec, hg]; simp, ?_⟩
    simp [FileSt.files, hcur, hcl']

example : (fileRunR 100 [.batch [[1, 2, 3, 10]] { writes := [.acc 2, .err] }, .reopen, .retry {}]).2.st.cache = [] ∧
    ∀ op ∈ [FOp.batch [[1, 2, 3, 10]] { writes := [.acc 2, .err] }, .reopen, .retry {}], ∀ r ∈ op.recs, r ≠ [] := by decide

/-- **the deferred close is not forgotten and not early**: in every reachable state the flag `need_reopen_` is pending only
while a file is open AND a tail is cached; a setter called with nothing cached (or no file open) closes the file at once;
a `flush()` that reaches the limit check with the flag set leaves no file open and clears the flag — the next batch
starts a new file (with the new path / prefix / sync mode) -/
theorem C09_file_reopen_deferred (max : Nat) (ops : List FOp) :
    let s := (fileRunR max ops).2
    (s.need = true → s.st.cur.isSome = true ∧ s.st.cache ≠ []) ∧
    ((s.st.cur.isSome = false ∨ s.st.cache = []) → (reopenK s).st.cur = none ∧ (reopenK s).need = s.need ∧ (reopenK s).st.cache = s.st.cache) ∧
    ((s.st.cur.isSome = true ∧ s.st.cache ≠ []) → reopenK s = { s with need := true }) ∧
    (∀ o : FOracle, s.need = true → (flushR max s o).st.cache = [] → (flushR max s o).st.cur = none ∧ (flushR max s o).need = false) := by
  intro s
  have hn : NeedOk s := foldl_fileStepR_needOk ops (max, {}) (by intro h; cases h)
  refine ⟨hn, ?_, ?_, ?_⟩
  · intro h
    have hc : (s.st.cur.isSome && !s.st.cache.isEmpty) = false := by
      rcases h with h | h
      · simp [h]
      · simp [h]
    unfold reopenK
    rw [hc]
    simp only [Bool.false_eq_true, ↓reduceIte]
    cases hcur : s.st.cur <;> simp [closeNow, hcur]
  · intro ⟨h1, h2⟩
    unfold reopenK
    have : (s.st.cur.isSome && !s.st.cache.isEmpty) = true := by simp [h1, h2]
    rw [this]; rfl
  · intro o hneed hc
    have ⟨hcur, _⟩ := hn hneed
    unfold flushR at hc ⊢
    simp only [hneed, hcur, Bool.true_or, Bool.true_and, Bool.and_true] at hc ⊢
    split
    · simp only [and_true]
      cases h : (flushK max s.st o).cur <;> simp [closeNow, h]
    · rename_i hne
      split at hc
      · rename_i he; exact absurd he hne
      · simp only at hc
        exact absurd (by simp [hc]) hne

/-- the code as found closed the file inside the setter: **a reconfiguration while a tail was cached split a record**:
limit 100, record `[1,2,3,10]`; `write` accepts 2 bytes, then fails hard (the tail `[3,10]` is retained, the file stays
open); `setFilePath` (even to the same path) closes the file; the retry at `disable()` opens a new file and writes the
tail there.  The repaired code (second half) keeps the record in one file and closes that file as soon as the tail is in it. -/
theorem C09_file_reconf_tail_counterexample :
    let s := fileRunK 100 {} [([[1, 2, 3, 10]], { writes := [.acc 2, .err] })]
    s.cache = [3, 10] ∧ (disableK 100 s {}).files = [[1, 2, 3, 10]] ∧
    (disableK 100 (closeNow s) {}).files = [[1, 2], [3, 10]] ∧
    (fileRunAsFound 100 [.batch [[1, 2, 3, 10]] { writes := [.acc 2, .err] }, .reopen, .batch [[5, 10]] {}]).2.files = [[1, 2], [3, 10, 5, 10]] ∧
    (fileRunR 100 [.batch [[1, 2, 3, 10]] { writes := [.acc 2, .err] }, .reopen, .batch [[5, 10]] {}]).2 =
      { st := { closed := [[1, 2, 3, 10, 5, 10]], cur := none, total := 6, cache := [] }, need := false } ∧
    (fileRunR 100 [.batch [[1, 2, 3, 10]] { writes := [.acc 2, .err] }, .reopen, .retry { writes := [.acc 1, .err] }, .reopen, .retry {},
                   .batch [[5, 10]] {}]).2.st.files = [[1, 2, 3, 10], [5, 10]] := by
  decide

/-- histories without a reconfiguration are the histories of `fileRunK`: `setFileMaxSize` only stores the limit — the history
with a changed limit is the history of the batches, each under the limit in force; lowering it below the size of the open
file closes that file after the NEXT complete batch, never in the middle of one; the flag stays clear -/
theorem C09_file_setmax (m1 m2 : Nat) (b1 b2 : List (List Bytes × FOracle)) :
    (fileRunR m1 ((b1.map fun b => FOp.batch b.1 b.2) ++ [.setMax m2] ++ (b2.map fun b => FOp.batch b.1 b.2))).2
      = { st := fileRunK m2 (fileRunK m1 {} b1) b2, need := false } := by
  have key : ∀ (m : Nat) (bs : List (List Bytes × FOracle)) (s : FileSt),
      (bs.map fun b => FOp.batch b.1 b.2).foldl fileStepR (m, { st := s, need := false }) = (m, { st := fileRunK m s bs, need := false }) := by
    intro m bs
    induction bs with
    | nil => intro s; rfl
    | cons b bs ih =>
      intro s
      simp only [List.map_cons, List.foldl_cons, fileStepR, fileRunK]
      have : fileBatchR m { st := s, need := false } (b.1, b.2) = { st := fileBatchK m s b, need := false } := by
        unfold fileBatchR fileBatchK
        split
        · rfl
        · exact flushR_noNeed m _ b.2
      rw [this]; exact ih _
  simp only [fileRunR, List.foldl_append, List.foldl_cons, List.foldl_nil]
  rw [show ({} : FileStR) = { st := {}, need := false } from rfl, key]
  simp only [fileStepR]
  rw [key]

/-- the trace acceptor executes the length images: they are the length images of the repaired `flush()` and of `closeLogFile()` -/
theorem C09_flushR_len (max : Nat) (s : FileStR) (o : FOracle) :
    (flushR max s o).len = flushRLen max s.len o ∧ (reopenK s).len = reopenLen s.len :=
  ⟨flushR_len max s o, reopenK_len s⟩

/-! ### (a') widths: `uint32_t buff_size` / `text_len`, `size_t len`, `int` result of `vsnprintf` -/

/-- **the narrowed loop equals the mathematical one wherever `vsnprintf` succeeds** (after
patches/C09-07): for every limit representable in a `size_t` and every formatted length up to
`INT_MAX` the width-carrying loop dispatches `text_len = min L max`, flagged iff `L > max`, in at
most 2 rounds, and every dispatched byte was formatted into the buffer — none of the conversions
`int → size_t → uint32_t` changes a value.  When `vsnprintf` returns a negative value (encoding
error, result longer than `INT_MAX`) the loop is left at once for the format-string fallback. -/
theorem C09_truncate_width (L : Nat) (fail : Bool) (max : Nat) (hmax : max ≤ sizeMax) :
    (vsnFails L fail = false →
      ∃ r f, r ≤ 2 ∧ formatW L fail max = some (.done (min L max) (decide (max < L)) f, r) ∧ min L max ≤ f) ∧
    (vsnFails L fail = true → formatW L fail max = some (.fallback, 1)) := by
  constructor
  · intro hv
    have hL : L ≤ 2147483647 := by
      simp [vsnFails, intMax] at hv; omega
    simp only [sizeMax] at hmax
    have hsl : min stackLimit max + 1 < 2 ^ 32 := by simp only [stackLimit]; omega
    by_cases h1 : L < min stackLimit max + 1
    · refine ⟨1, L, by omega, ?_, by omega⟩
      have h2 : ¬ max < L := by omega
      have h3 : min L max = L := by omega
      have hLu : L % 2 ^ 32 = L := Nat.mod_eq_of_lt (by simp only [stackLimit] at h1; omega)
      simp only [formatW, fmtLoopW, fmtRoundW, hv, fmtRoundWAsFound, fmtInitW, u32, Nat.mod_eq_of_lt hsl]
      simp [vsnFails, intMax, h1, h2, h3, hLu, Nat.not_lt.mpr hL]
      omega
    · by_cases h2 : L ≤ max
      · refine ⟨2, L, by omega, ?_, by omega⟩
        have h3 : ¬ max < L := by omega
        have h4 : min L max = L := by omega
        have hb : (L + 1) % 2 ^ 64 % 2 ^ 32 = L + 1 := by omega
        have hLu : L % 2 ^ 32 = L := by omega
        simp only [formatW, fmtLoopW, fmtRoundW, hv, fmtRoundWAsFound, fmtInitW, u32, usize, Nat.mod_eq_of_lt hsl]
        simp [vsnFails, intMax, Nat.not_lt.mpr hL, h1, h2, h3, h4, hb, hLu]
      · refine ⟨2, max, by omega, ?_, by omega⟩
        have h3 : max < L := by omega
        have h4 : min L max = max := by omega
        have hb : (max + 1) % 2 ^ 64 % 2 ^ 32 = max + 1 := by omega
        have hmu : max % 2 ^ 32 = max := by omega
        simp only [formatW, fmtLoopW, fmtRoundW, hv, fmtRoundWAsFound, fmtInitW, u32, usize, Nat.mod_eq_of_lt hsl]
        simp [vsnFails, intMax, Nat.not_lt.mpr hL, h1, h2, h3, h4, hb, hmu]
  · intro hv
    simp [formatW, fmtLoopW, fmtRoundW, hv]

theorem fmtLoopW_stuck (round : FmtStW → FmtResW) (s : FmtStW) (h : round s = .again s) :
    ∀ fuel rounds, fmtLoopW round fuel s rounds = none := by
  intro fuel
  induction fuel with
  | zero => intro r; rfl
  | succ n ih => intro r; simp [fmtLoopW, h, ih]

/-- **the code as found, negative `vsnprintf` result** (`%lc` with a character the locale cannot
encode, or a result longer than `INT_MAX`): −1 becomes `SIZE_MAX`;
* limit 102400 (the default): a record of 102400 bytes is dispatched as TRUNCATED although not one
  byte of the buffer was formatted — uninitialised stack goes to every sink;
* limit 2^32 − 1: `buff_size = max_len + 1` wraps to 0 and the retry loop never ends, whatever
  the fuel. -/
theorem C09_vsnprintf_negative_counterexample :
    formatWAsFound 5 true 102400 = some (.done 102400 true 0, 2) ∧
    formatWAsFound 2147483648 false 10 = some (.done 10 true 0, 2) ∧
    (∀ fuel, formatWAsFound 5 true (2 ^ 32 - 1) (fuel + 1) = none) ∧
    formatW 5 true 102400 = some (.fallback, 1) := by
  refine ⟨by decide, by decide, ?_, by decide⟩
  intro fuel
  have h1 : fmtRoundWAsFound 5 true (2 ^ 32 - 1) (fmtInitW (2 ^ 32 - 1)) = .again { buffSize := 0, trunc := true } := by decide
  have h2 : fmtRoundWAsFound 5 true (2 ^ 32 - 1) { buffSize := 0, trunc := true } = .again { buffSize := 0, trunc := true } := by decide
  simp only [formatWAsFound, fmtLoopW, h1]
  exact fmtLoopW_stuck _ _ h2 fuel 1

/-- the `LogPuts` path: `strlen` narrows to `uint32_t` before the comparison; below 2^32 the result
is the mathematical one; a string of 2^32 + 5 bytes is logged as 5 bytes WITHOUT the marker
(not driven: needs a 4 GiB string) -/
theorem C09_puts_width (L max : Nat) :
    (L < 2 ^ 32 → putsW L max = (min L max, decide (max < L))) ∧ putsW (2 ^ 32 + 5) 10 = (5, false) := by
  refine ⟨fun hL => ?_, by decide⟩
  have hLu : L % 2 ^ 32 = L := Nat.mod_eq_of_lt hL
  by_cases h : max < L
  · have hm : max % 2 ^ 32 = max := Nat.mod_eq_of_lt (by omega)
    have : min L max = max := by omega
    simp [putsW, u32, hLu, h, hm, this]
  · have : min L max = L := by omega
    simp [putsW, u32, hLu, h, this]

/-! ### (c') a channel function that logs -/

/-- **re-entrant logging deadlocks**: when the thread holding the dispatch lock reaches a nested
log call inside a channel function (and, as the lock guarantees, no other thread is inside a
call), NO schedule makes any further step: the holder blocks on the mutex it owns and every
other logging thread blocks behind it — the state never changes again.  (User channel functions
are not in the property's quantifier; the library's own sinks never log under the lock.) -/
theorem C09_reentrant_sink_deadlocks {α β : Type} (acts : β → List (RAct α β)) (s : RSys α β) (t : Nat)
    (c : β) (rest : List (RAct α β)) (hcur : (s.threads t).cur = some (.call c :: rest))
    (hhold : s.holder = some t) (hothers : ∀ u, u ≠ t → (s.threads u).cur = none) (sched : List Nat) :
    rsysRun acts s sched = s := by
  have step : ∀ u, rsysStep acts s u = s := by
    intro u
    by_cases hu : u = t
    · subst hu; simp [rsysStep, hcur]
    · have := hothers u hu
      simp only [rsysStep, this]
      cases (s.threads u).todo <;> simp [hhold]
  induction sched with
  | nil => rfl
  | cons u us ih => simp only [rsysRun, List.foldl_cons, step u]; exact ih

/-! ## non-vacuity -/

/-- a toy layout: 2-byte header whose second byte is the text length -/
def toyTl (hb : Bytes) : Nat := (hb.getD 1 0).toNat

example : WF 2 toyTl ([7, 3], [1, 2, 3]) ∧ WF 2 toyTl ([8, 0], []) := by unfold WF; decide
/-- cuts inside the header and inside the text, an empty chunk, two frames -/
example : feed 2 toyTl [] [[7], [3, 1], [], [2, 3, 8], [0]] = ([[], [], [], [([7, 3], [1, 2, 3])], [([8, 0], [])]], []) := by
  decide
example : (formatText (List.replicate 2049 65) 102400).map (fun x => (x.1.length, x.2)) = some (2049, false, 2) := by decide +kernel
example : (formatText (List.replicate 15 65) 10).map (fun x => (x.1.length, x.2)) = some (10, true, 2) := by decide
example : (fileRun 1 {} [[[1, 10]], [[2, 10], [3, 10]]]).files = [[1, 10], [2, 10, 3, 10]] := by decide
example : (fileRun 100 {} [[[1, 10]], [[2, 10], [3, 10]]]).files = [[1, 10, 2, 10, 3, 10]] := by decide
example : (sysRun frontAppends true (sysInit demoProg) [0, 1, 0, 1, 0, 0, 1, 1, 1, 1]).holder = none := by decide
example : ∀ t, 2 ≤ t → demoProg t = [] := by
  intro t h
  match t, h with
  | t + 2, _ => rfl
example : ∀ t, t < 2 → ((sysRun frontAppends true (sysInit demoProg) [0, 1, 0, 1, 0, 0, 1, 1, 1, 1]).threads t).todo = [] := by decide
example : ∀ t, ∀ r ∈ demoProg t, WF 2 toyTl r → True := fun _ _ _ _ => trivial
example : filter ((({} : FilterCfg).setDefault 3).setModule "a" 6) 5 "a" = true ∧
          filter ((({} : FilterCfg).setDefault 3).setModule "a" 6) 5 "b" = false := by decide

/-- one thread inside a call whose channel function logs: the hypotheses of the deadlock theorem -/
example : ∃ s : RSys Nat Nat, (s.threads 0).cur = some (.call 7 :: []) ∧ s.holder = some 0 ∧ ∀ u, u ≠ 0 → (s.threads u).cur = none :=
  ⟨{ threads := fun u => if u = 0 then { cur := some [.call 7] } else { todo := [1] }, holder := some 0 }, rfl, rfl,
   fun u hu => by simp [hu]⟩
example : vsnFails 2047 false = false ∧ vsnFails 2147483647 false = false ∧ vsnFails 2147483648 false = true ∧ vsnFails 3 true = true := by decide
example : formatW 65536 false 65535 = some (.done 65535 true 65535, 2) ∧ formatW 65535 false 65536 = some (.done 65535 false 65535, 2) := by decide
example : formatW 2147483647 false 10 = some (.done 10 true 10, 2) := by decide
/-- short write, then ENOSPC exactly when the limit is reached, then recovery: one file, whole records -/
example : (fileRunK 3 {} [([[1, 2, 3, 10], [4, 10]], { writes := [.acc 3, .err] }), ([[5, 10]], { openOk := false })]).files = [[1, 2, 3, 10, 4, 10, 5, 10]] := by decide
example : (fileRunK 3 {} [([[1, 10]], { openOk := false }), ([[2, 10]], { writes := [.eintr, .acc 1, .eintr] })]).files = [[1, 10, 2, 10]] := by decide
example : ∀ a ∈ [WAns.acc 3, WAns.eintr], a.soft = true := by decide
example : ∀ a ∈ [SAns.acc 3, SAns.eintr, SAns.again .eintr, SAns.again .err], a.soft = true := by decide
example : (fileRunK 100 {} [([[1, 10]], {}), ([[2, 10]], { writes := [.acc 1, .eintr, .acc 1] })]).cache = [] := by decide
example : piece 4 [1, 2, 3, 4, 5, 6] = [1, 2, 3, 4, 5, 6] ∧ pieceAsFound 4 [1, 2, 3, 4, 5] = none ∧ pieceAsFound 4 [1, 2, 3, 4] = some [1, 2, 3, 0] := by decide

end Tbox.C09
