/-
C09 — PROPERTY THEOREMS.  "Logging delivers each record once, whole and in order, to each
enabled sink."  Statements rely on Model.lean only; helper lemmas live in Proofs.lean,
Reframe.lean, Dispatch.lean.

Quantifiers: every message (length 0 … beyond the maximum, on either side of the 2048-byte
stack buffer), every maximum, every filter table, every number of threads and every
schedule, every record list and EVERY chunking of the pipe stream (= every pipe buffer
configuration and timing), every header layout (`H`, `tl`), every file size limit.
-/
import TboxModel.C09.Spec
import TboxModel.C09.Proofs
import TboxModel.C09.Reframe
import TboxModel.C09.Dispatch
import TboxModel.C09.FileFaults
namespace Tbox.C09

/-! ## (a) truncation -/

/-- the `vsnprintf` retry loop terminates within 3 rounds (in fact 2) and dispatches exactly
the first `min L max` bytes of the formatted message, flagged truncated iff `L > max` —
for every message and every maximum (below, at and above the 2048-byte stack buffer). -/
theorem C09_truncate (msg : Bytes) (max : Nat) :
    ∃ r, r ≤ 3 ∧ formatText msg max = some (msg.take max, decide (max < msg.length), r) ∧
      (msg.take max).length = min msg.length max := by
  obtain ⟨r, h, hr⟩ := formatText_spec msg max
  exact ⟨r, by omega, h, by simp [Nat.min_comm]⟩

/-- why the maximum must be read once per call (patches/C09-03): in the code as found a
`LogSetMaxLength(10)` between the first and second round of a call formatting 5 bytes under
the old maximum 3 makes it dispatch `text_len = 10` over a buffer holding 5 formatted bytes -/
theorem C09_max_change_counterexample :
    fmtLoopVar 5 [3, 10, 10] (fmtInit 3) = some (10, 5, true) ∧
    fmtLoopVar 5 [3, 3, 3] (fmtInit 3) = some (3, 3, true) := by
  decide

/-- the `LogPuts` path cuts at the same place with the same flag -/
theorem C09_truncate_puts (msg : Bytes) (max : Nat) :
    putsText msg max = (msg.take max, decide (max < msg.length)) := by
  unfold putsText
  by_cases h : max < msg.length
  · simp [h]
  · simp [h, List.take_of_length_le (Nat.le_of_not_lt h)]

/-- both call paths implement the specification of the text -/
theorem C09_text_refines_spec (msg : Bytes) (max : Nat) :
    (formatText msg max).map (fun x => (x.1, x.2.1)) = some (specText msg max) ∧ putsText msg max = specText msg max := by
  obtain ⟨r, _, h, _⟩ := C09_truncate msg max
  exact ⟨by rw [h]; rfl, C09_truncate_puts msg max⟩

/-! ## (b) filter -/

/-- a record passes a sink iff its level is at most the module's threshold when the module
has one, else at most the default threshold -/
theorem C09_filter (c : FilterCfg) (level : Int) (m : String) :
    filter c level m = decide (level ≤ (c.lookup m).getD c.default) := by
  unfold filter
  cases c.lookup m <;> simp

/-- the threshold table behaves as a finite map under setLevel / unsetLevel -/
theorem C09_filter_table (c : FilterCfg) (m m' : String) (l : Int) (hm : m.isEmpty = false) :
    (c.setModule m l).lookup m = some l ∧ (c.setModule m l).default = c.default ∧
    (m' ≠ m → (c.setModule m l).lookup m' = c.lookup m') ∧
    (c.unset m).lookup m = none ∧ (m' ≠ m → (c.unset m).lookup m' = c.lookup m') ∧
    (c.setDefault l).lookup m' = c.lookup m' ∧ (c.setDefault l).default = l := by
  refine ⟨?_, ?_, ?_, ?_, ?_, rfl, rfl⟩
  · simp [FilterCfg.setModule, hm, FilterCfg.lookup]
  · simp [FilterCfg.setModule, hm]
  · intro h
    have hb : (m == m') = false := by simp; exact fun e => h e.symm
    simp [FilterCfg.setModule, hm, FilterCfg.lookup, hb, find_filter_ne _ m m' h]
  · simp [FilterCfg.unset, FilterCfg.lookup]
  · intro h; simp [FilterCfg.unset, FilterCfg.lookup, find_filter_ne _ m m' h]

/-! ## (c) dispatch under the global lock -/

section dispatch
variable {α β : Type}

/-- **contiguity**: for every program, every number of threads and every schedule, whenever
the lock is free the sequence of actions executed so far is the concatenation of the action
lists of the calls, whole, in lock-acquisition order — no call's actions are ever interleaved
with another's.  (While a call is in progress the same holds up to its unexecuted suffix.) -/
theorem C09_contiguous (acts : β → List α) (prog : Nat → List β) (sched : List Nat) :
    let s := sysRun acts true (sysInit prog) sched
    s.trace ++ s.pending = (s.order.map (fun p => acts p.2)).flatten ∧
    (s.holder = none → s.trace = (s.order.map (fun p => acts p.2)).flatten) := by
  intro s
  have h := run_inv acts prog sched _ (init_inv acts prog)
  refine ⟨h.contiguous, fun hf => ?_⟩
  have := h.contiguous
  rwa [pending_nil_of_free _ hf, List.append_nil] at this

/-- **per-thread order and exactly-once**: the calls a thread has started, in lock order,
followed by the calls it has not started yet, are exactly its program; so when it has
finished, its calls appear in the global order once each, in program order. -/
theorem C09_per_thread_order (acts : β → List α) (prog : Nat → List β) (sched : List Nat) (t : Nat) :
    let s := sysRun acts true (sysInit prog) sched
    s.started t ++ (s.threads t).todo = prog t ∧
    ((s.threads t).todo = [] → (s.order.filter (fun p => p.1 == t)).map (·.2) = prog t) := by
  intro s
  have h := (run_inv acts prog sched _ (init_inv acts prog)).perThread t
  refine ⟨h, fun hd => ?_⟩
  rw [hd, List.append_nil] at h; exact h

/-- the byte stream a sink sees (any projection of the actions to bytes) is the concatenation
of per-call byte strings in lock order -/
theorem C09_stream_is_frames (acts : β → List α) (proj : α → Bytes) (prog : Nat → List β) (sched : List Nat) :
    let s := sysRun acts true (sysInit prog) sched
    s.holder = none →
    (s.trace.map proj).flatten = (s.order.map (fun p => ((acts p.2).map proj).flatten)).flatten := by
  intro s hf
  rw [(C09_contiguous acts prog sched).2 hf, map_flatten_flatten]
  simp only [List.map_map, Function.comp_def]
  rfl

end dispatch

/-- two threads, one record each (header `[1,1]`/`[2,2]`, text `[10]`/`[20]`) -/
def demoProg : Nat → List (Bytes × Bytes)
  | 0 => [([1, 1], [10])]
  | 1 => [([2, 2], [20])]
  | _ => []

/-- **why the lock matters**: without it (`locked = false`) the schedule t0,t1,t0,t1,… puts the
second header between the first header and its text; with the lock the same schedule yields
two whole frames. -/
theorem C09_unlocked_counterexample :
    (sysRun frontAppends false (sysInit demoProg) [0, 1, 0, 1, 0, 1, 0, 1]).trace.flatten = [1, 1, 2, 2, 10, 20] ∧
    (sysRun frontAppends true (sysInit demoProg) [0, 1, 0, 1, 0, 0, 1, 1, 1, 1]).trace.flatten = [1, 1, 10, 2, 2, 20] := by
  decide

/-! ## (d) the re-framer -/

/-- **C09_reframe** (the key unbounded theorem): for every header layout, every list of
well-formed records and EVERY way of cutting the concatenated frames into chunks (empty
chunks, single bytes, cuts inside a header, several frames per chunk …) the back end emits
exactly those records, in order, and ends with an empty buffer. -/
theorem C09_reframe (H : Nat) (tl : Bytes → Nat) (hH : 0 < H) (rs : List (Bytes × Bytes))
    (hwf : ∀ r ∈ rs, WF H tl r) (chunks : List Bytes) (hc : chunks.flatten = frames rs) :
    (feed H tl [] chunks).1.flatten = rs ∧ (feed H tl [] chunks).2 = [] := by
  have h := feed_eq_drain H tl hH chunks [] (Or.inl hH)
  have hd := drain_frames H tl hH rs hwf [] (Or.inl hH)
  simp only [List.nil_append, List.append_nil] at h hd
  rw [hc, hd] at h
  exact ⟨congrArg Prod.fst h, congrArg Prod.snd h⟩

/-- at every moment (after any prefix of the byte stream, cut anywhere) what has been emitted
is a prefix of the records and nothing else: no record is emitted early, twice or damaged -/
theorem C09_reframe_prefix (H : Nat) (tl : Bytes → Nat) (hH : 0 < H) (rs : List (Bytes × Bytes))
    (hwf : ∀ r ∈ rs, WF H tl r) (c1 c2 : List Bytes) (hc : (c1 ++ c2).flatten = frames rs) :
    ∃ later, (feed H tl [] c1).1.flatten ++ later = rs := by
  have h1 := feed_eq_drain H tl hH c1 [] (Or.inl hH)
  have h := drain_append H tl hH _ c1.flatten c2.flatten (Nat.le_refl _)
  have hd := drain_frames H tl hH rs hwf [] (Or.inl hH)
  simp only [List.nil_append, List.append_nil] at h1 hd
  rw [← List.flatten_append, hc, hd, ← h1] at h
  exact ⟨_, (congrArg Prod.fst h).symm⟩

/-- fuel of the executable loop suffices, and the loop stops only on its own condition -/
theorem C09_reframe_fuel (H : Nat) (tl : Bytes → Nat) (hH : 0 < H) (buf : Bytes) (f : Nat)
    (hf : buf.length < f) :
    drainF H tl f buf = drain H tl buf ∧ Stuck H tl (drain H tl buf).2 :=
  ⟨drainF_eq_drain H tl hH buf f hf, drain_rem_stuck H tl hH _ buf (Nat.le_refl _)⟩

/-- front end + lock + pipe contract + back end: for every assignment of records to threads,
every schedule that ends with the lock free, and every chunking of the bytes appended to the
pipe, the back end emits exactly the records in lock-acquisition order. -/
theorem C09_async_end_to_end (H : Nat) (tl : Bytes → Nat) (hH : 0 < H)
    (prog : Nat → List (Bytes × Bytes)) (hwf : ∀ t, ∀ r ∈ prog t, WF H tl r)
    (sched : List Nat) (chunks : List Bytes) :
    let s := sysRun frontAppends true (sysInit prog) sched
    s.holder = none → chunks.flatten = s.trace.flatten →
    (feed H tl [] chunks).1.flatten = s.order.map (·.2) ∧ (feed H tl [] chunks).2 = [] := by
  intro s hf hc
  have hinv := run_inv frontAppends prog sched _ (init_inv frontAppends prog)
  have hstream : s.trace.flatten = frames (s.order.map (·.2)) := by
    rw [(C09_contiguous frontAppends prog sched).2 hf]
    have : ∀ r : Bytes × Bytes, (frontAppends r).flatten = frame r := by
      intro r; unfold frontAppends frame
      by_cases h : r.2.length = 0
      · have : r.2 = [] := List.eq_nil_of_length_eq_zero h
        simp [this]
      · simp [h]
    simp only [frames, List.map_map, Function.comp_def]
    induction s.order with
    | nil => rfl
    | cons p ps ih => simp [this, ih]
  apply C09_reframe H tl hH _ _ chunks (hc.trans hstream)
  intro r hr
  obtain ⟨p, hp, rfl⟩ := List.mem_map.mp hr
  -- every call in the order belongs to its thread's program
  have hper := hinv.perThread p.1
  have : p.2 ∈ s.started p.1 := by
    simp only [Sys.started, List.mem_map, List.mem_filter]
    exact ⟨p, ⟨hp, by simp⟩, rfl⟩
  exact hwf p.1 p.2 (hper ▸ List.mem_append_left _ this)

/-! ## (e) rendering -/

/-- fields appear in the fixed order level, time, thread, module, function, text, marker,
file:line, newline; the text is contiguous and unmodified -/
theorem C09_render_fields (r : Rec) :
    render r = [levelCode r.level, 32] ++ r.ts ++ [32] ++ r.tid ++ [32] ++ r.module ++ [32]
      ++ (match r.func with | some f => f ++ funcSuffix | none => [])
      ++ (if r.text.length > 0 then r.text ++ [32] else [])
      ++ (if r.trunc then truncMarker else [])
      ++ (match r.file with | some f => filePrefix ++ f ++ [58] ++ r.line | none => []) ++ [10] := by
  obtain ⟨level, ts, tid, module, func, text, trunc, file, line⟩ := r
  cases func <;> cases file <;>
    simp [render, Rec.head, Rec.funcPiece, Rec.textPiece, Rec.filePiece, List.append_assoc]

/-- a truncated record is marked, whatever the text length (also for max = 0) -/
theorem C09_render_marker (r : Rec) :
    render { r with trunc := true } ≠ render { r with trunc := false } := by
  obtain ⟨level, ts, tid, module, func, text, trunc, file, line⟩ := r
  intro h
  have := congrArg List.length h
  simp only [render, Rec.head, Rec.funcPiece, Rec.textPiece, Rec.filePiece, truncMarker,
    List.length_append, List.length_cons, List.length_nil, if_true, Bool.false_eq_true, if_false] at this
  omega

/-- the code as found loses the marker when the maximum is 0 (text cut to nothing):
repaired by patches/C09-01 -/
theorem C09_render_marker_counterexample :
    let r : Rec := { level := 5, ts := [], tid := [49], module := [109], func := none, text := [],
                     trunc := true, file := none, line := [] }
    renderAsFound r = renderAsFound { r with trunc := false } := by
  decide


/-! ### (e') all sinks: colour, SyncStdoutSink, AsyncStdoutSink, AsyncSyslogSink -/

/-- the tables extracted from log_impl.cpp on this run: the level letters are the documented
ones (F E W N I I D T) and there is one colour code per level, each a non-empty SGR parameter
string (digits and `;`) — so `ESC[<code>m … ESC[0m` is a well-formed bracket -/
theorem C09_tables :
    genLevelCodes = levelCodes.map (fun c => c.toNat.toUInt8) ∧ genColorCodes.length = 8 ∧
    ∀ c ∈ genColorCodes, c ≠ [] ∧ ∀ b ∈ c, (48 ≤ b ∧ b ≤ 57) ∨ b = 59 := by
  decide

/-- **C09_render** for the async file / stdout sinks, colour off and on: the fields in their
fixed order, bracketed by `ESC[<code>m` and `ESC[0m` iff colour is enabled, then a newline -/
theorem C09_render (color : Bool) (r : Rec) :
    renderC color r = (if color then [27, 91] ++ colorCode r.level ++ [109] else [])
      ++ [levelCode r.level, 32] ++ r.ts ++ [32] ++ r.tid ++ [32] ++ r.module ++ [32]
      ++ (match r.func with | some f => f ++ funcSuffix | none => [])
      ++ (if r.text.length > 0 then r.text ++ [32] else [])
      ++ (if r.trunc then truncMarker else [])
      ++ (match r.file with | some f => filePrefix ++ f ++ [58] ++ r.line | none => [])
      ++ (if color then [27, 91, 48, 109] else []) ++ [10] ∧
    renderC false r = render r := by
  obtain ⟨level, ts, tid, module, func, text, trunc, file, line⟩ := r
  constructor
  · cases color <;> cases func <;> cases file <;>
      simp [renderC, renderBody, colorOn, colorOff, Rec.head, Rec.funcPiece, Rec.textPiece, Rec.filePiece, List.append_assoc]
  · simp [renderC, renderBody, render]

/-- **C09_render** for the synchronous stdout sink: its printf sequence produces byte for byte
what the asynchronous sinks produce (same fields, same marker rule, same colour bracket) -/
theorem C09_render_sync (color : Bool) (r : Rec) : renderSync color r = renderC color r := by
  obtain ⟨level, ts, tid, module, func, text, trunc, file, line⟩ := r
  cases color <;> cases func <;> cases file <;>
    simp [renderSync, renderC, renderBody, colorOn, colorOff, Rec.head, Rec.funcPiece, Rec.textPiece, Rec.filePiece, List.append_assoc]

theorem cstr_of_no_nul (bs : Bytes) (h : ∀ b ∈ bs, b ≠ 0) : cstr (bs ++ [0]) = bs := by
  unfold cstr
  induction bs with
  | nil => simp
  | cons x xs ih =>
    have hx : x ≠ 0 := h x (by simp)
    simp [hx]
    simpa using ih (fun b hb => h b (by simp [hb]))

/-- **C09_render** for the syslog sink: one `syslog(LOG_INFO, "%s", …)` call per record whose
message is the rendered record without the newline — whole, provided no field contains a NUL
byte (formatted text never does) -/
theorem C09_render_syslog (color : Bool) (r : Rec) (h : ∀ b ∈ renderBody color r, b ≠ 0) :
    syslogMsg color r = renderBody color r ∧ renderC color r = syslogMsg color r ++ [10] := by
  have := cstr_of_no_nul (renderBody color r) h
  exact ⟨this, by simp [syslogMsg, this, renderC]⟩

/-- the truncation marker distinguishes records in every sink, colour on or off -/
theorem C09_render_marker_all (color : Bool) (r : Rec) :
    renderC color { r with trunc := true } ≠ renderC color { r with trunc := false } := by
  obtain ⟨level, ts, tid, module, func, text, trunc, file, line⟩ := r
  intro h
  have := congrArg List.length h
  simp only [renderC, renderBody, Rec.head, Rec.funcPiece, Rec.textPiece, Rec.filePiece, truncMarker,
    List.length_append, List.length_cons, List.length_nil, if_true, Bool.false_eq_true, if_false] at this
  omega

/-! ## (f) file sink -/

/-- **whole records, nothing lost, nothing split**: for every sequence of back-end batches and
every size limit (also smaller than one record) there is a grouping of the records, in
order, into consecutive groups such that the files in creation order are exactly the
concatenations of the groups — every record lies wholly in one file and the concatenation of
the files is the concatenation of the rendered records; nothing stays in the cache. -/
theorem C09_file_whole_records (max : Nat) (batches : List (List Bytes)) :
    let s := fileRun max {} batches
    (∃ groups : List (List Bytes), groups.flatten = batches.flatten ∧ s.files = groups.map List.flatten) ∧
    s.files.flatten = batches.flatten.flatten ∧ s.cache = [] := by
  intro s
  have h := fileRun_inv max batches {} [] (finv_init max)
  simp only [List.nil_append] at h
  obtain ⟨gc, go, hcl, hcur, hfl⟩ := h.groups
  have hfiles : s.files = (gc ++ go.toList).map List.flatten := by
    show (fileRun max {} batches).files = _
    unfold FileSt.files; rw [hcl, hcur]; cases go <;> simp
  refine ⟨⟨gc ++ go.toList, hfl, hfiles⟩, ?_, h.cacheEmpty⟩
  rw [hfiles, ← hfl]
  generalize gc ++ go.toList = g
  induction g with
  | nil => rfl
  | cons x xs ih => simp [ih]

/-- rollover happens only at the limit: every closed file reached the limit, the open one is
still below it -/
theorem C09_file_rollover (max : Nat) (batches : List (List Bytes)) :
    let s := fileRun max {} batches
    (∀ f ∈ s.closed, max ≤ f.length) ∧ (∀ d, s.cur = some d → d.length < max) := by
  intro s
  have h := fileRun_inv max batches {} [] (finv_init max)
  exact ⟨h.closedFull, fun d hd => (h.totalOk d hd).2⟩

/-- **disable flushes**: `disable()` removes the channel (no further append), then the pipe's
cleanup hands every appended byte to the back end (C10 contract) in some chunking.  For every
record list and every chunking the files then hold exactly the rendered records in order,
the cache and the re-framing buffer are empty. -/
theorem C09_disable_flushes (H : Nat) (tl : Bytes → Nat) (hH : 0 < H) (rend : Bytes × Bytes → Bytes)
    (max : Nat) (rs : List (Bytes × Bytes)) (hwf : ∀ r ∈ rs, WF H tl r)
    (chunks : List Bytes) (hc : chunks.flatten = frames rs) :
    let b := backEnd H tl rend max chunks
    b.1.files.flatten = (rs.map rend).flatten ∧ b.1.cache = [] ∧ b.2 = [] ∧
    (∃ groups : List (List Bytes), groups.flatten = rs.map rend ∧ b.1.files = groups.map List.flatten) := by
  intro b
  obtain ⟨h1, h2⟩ := C09_reframe H tl hH rs hwf chunks hc
  have hf := C09_file_whole_records max ((feed H tl [] chunks).1.map (·.map rend))
  have hfl : ((feed H tl [] chunks).1.map (·.map rend)).flatten = rs.map rend := by
    rw [← h1, List.map_flatten]
  simp only at hf
  rw [hfl] at hf
  exact ⟨hf.2.1, hf.2.2, h2, hf.1⟩

/-- when all threads `< n` have finished (and no other thread has a program) the global order
satisfies the executable interleaving specification -/
theorem C09_order_is_interleaving {α β : Type} [DecidableEq β] (acts : β → List α) (prog : Nat → List β)
    (sched : List Nat) (n : Nat) (hprog : ∀ t, n ≤ t → prog t = []) :
    let s := sysRun acts true (sysInit prog) sched
    (∀ t, t < n → (s.threads t).todo = []) → specInterleaving n prog s.order = true := by
  intro s hdone
  have hinv := run_inv acts prog sched _ (init_inv acts prog)
  simp only [specInterleaving, Bool.and_eq_true, List.all_eq_true, decide_eq_true_eq, List.mem_range, beq_iff_eq]
  refine ⟨fun p hp => ?_, fun t ht => ?_⟩
  · -- an entry of thread `p.1` is in `prog p.1`, which is empty for `p.1 ≥ n`
    by_cases hlt : p.1 < n
    · exact hlt
    · have hper := hinv.perThread p.1
      have hmem : p.2 ∈ s.started p.1 := by
        simp only [Sys.started, List.mem_map, List.mem_filter]
        exact ⟨p, ⟨hp, by simp⟩, rfl⟩
      have : p.2 ∈ prog p.1 := hper ▸ List.mem_append_left _ hmem
      rw [hprog p.1 (Nat.le_of_not_lt hlt)] at this
      cases this
  · exact (C09_per_thread_order acts prog sched t).2 (hdone t ht)

/-- the file theorem in terms of the specification -/
theorem C09_files_refine_spec (max : Nat) (batches : List (List Bytes)) :
    specFiles (fileRun max {} batches).files batches.flatten :=
  (C09_file_whole_records max batches).1


/-! ### (f') write faults -/

/-- with complete writes the repaired flush is the flush of the theorems above -/
theorem C09_flushW_refines_flush (max : Nat) (s : FileSt) : flushW max s [] = flush max s := by
  obtain ⟨closed, cur, total, cache⟩ := s
  cases cur <;> simp [flushW, flush, writeAll, curData, curTotal]

/-- **no loss, no duplication, no split under partial writes and write errors** (repaired
`flush()`, patches/C09-04): for every batch sequence, every size limit and EVERY sequence of
`write` results (short counts, errors), the files in creation order followed by the unwritten
cache are byte for byte the rendered records in order — nothing is written twice, nothing is
dropped — and every closed file is a whole group of consecutive records. -/
theorem C09_file_write_faults (max : Nat) (bs : List (List Bytes × List (Option Nat))) :
    let s := fileRunW max {} bs
    let recs := (bs.map (·.1)).flatten
    s.files.flatten ++ s.cache = recs.flatten ∧
    (∃ (gc : List (List Bytes)) (gcur : List Bytes), s.closed = gc.map List.flatten ∧ gc.flatten ++ gcur = recs) ∧
    (s.cur = none → s.cache = []) := by
  intro s recs
  have h := fileRunW_inv max bs {} [] winv_init
  simp only [List.nil_append] at h
  obtain ⟨gc, gcur, hcl, hrec, hdat⟩ := h.groups
  refine ⟨?_, ⟨gc, gcur, hcl, hrec⟩, h.idle⟩
  show (fileRunW max {} bs).files.flatten ++ (fileRunW max {} bs).cache = ((bs.map (·.1)).flatten).flatten
  rw [files_flatten, List.append_assoc, hdat, hcl, flatten_map_flatten, ← hrec]; simp

/-- the code as found: a short `write` (1 of 3 bytes accepted) leaves the bytes in the file AND
in the cache; the next flush writes them again — the record is split and duplicated -/
theorem C09_file_partial_write_counterexample :
    let s1 := fileBatchAsFound 100 {} ([[1, 2, 10]], some 1)
    let s2 := fileBatchAsFound 100 s1 ([[3, 10]], some 99)
    s2.files = [[1, 1, 2, 10, 3, 10]] ∧
    (fileRunW 100 {} [([[1, 2, 10]], [some 1, none]), ([[3, 10]], [])]).files = [[1, 2, 10, 3, 10]] := by
  decide

/-! ## non-vacuity -/

/-- a toy layout: 2-byte header whose second byte is the text length -/
def toyTl (hb : Bytes) : Nat := (hb.getD 1 0).toNat

example : WF 2 toyTl ([7, 3], [1, 2, 3]) ∧ WF 2 toyTl ([8, 0], []) := by unfold WF; decide
/-- cuts inside the header and inside the text, an empty chunk, two frames -/
example : feed 2 toyTl [] [[7], [3, 1], [], [2, 3, 8], [0]] = ([[], [], [], [([7, 3], [1, 2, 3])], [([8, 0], [])]], []) := by
  decide
example : (formatText (List.replicate 2049 65) 102400).map (fun x => (x.1.length, x.2)) = some (2049, false, 2) := by decide +kernel
example : (formatText (List.replicate 15 65) 10).map (fun x => (x.1.length, x.2)) = some (10, true, 2) := by decide
example : (fileRun 1 {} [[[1, 10]], [[2, 10], [3, 10]]]).files = [[1, 10], [2, 10, 3, 10]] := by decide
example : (fileRun 100 {} [[[1, 10]], [[2, 10], [3, 10]]]).files = [[1, 10, 2, 10, 3, 10]] := by decide
example : (sysRun frontAppends true (sysInit demoProg) [0, 1, 0, 1, 0, 0, 1, 1, 1, 1]).holder = none := by decide
example : ∀ t, 2 ≤ t → demoProg t = [] := by
  intro t h
  match t, h with
  | t + 2, _ => rfl
example : ∀ t, t < 2 → ((sysRun frontAppends true (sysInit demoProg) [0, 1, 0, 1, 0, 0, 1, 1, 1, 1]).threads t).todo = [] := by decide
example : ∀ t, ∀ r ∈ demoProg t, WF 2 toyTl r → True := fun _ _ _ _ => trivial
example : filter ((({} : FilterCfg).setDefault 3).setModule "a" 6) 5 "a" = true ∧
          filter ((({} : FilterCfg).setDefault 3).setModule "a" 6) 5 "b" = false := by decide

end Tbox.C09
