/-
C09 — helper lemmas for the re-framer (`drain`/`feed`): fuel irrelevance, the loop exits only
on its own condition, compositionality over appended input, whole frames are emitted.
-/
import TboxModel.C09.Model
namespace Tbox.C09

variable (H : Nat) (tl : Bytes → Nat)

/-- the loop condition of the re-framer is false: fewer than a header, or an incomplete frame -/
def Stuck (buf : Bytes) : Prop := buf.length < H ∨ H + tl (buf.take H) > buf.length

theorem drainF_fuel (hH : 0 < H) : ∀ (n : Nat) (buf : Bytes), buf.length ≤ n → ∀ f g,
    buf.length < f → buf.length < g → drainF H tl f buf = drainF H tl g buf := by
  intro n
  induction n with
  | zero =>
    intro buf hb f g hf hg
    cases f with
    | zero => omega
    | succ f =>
      cases g with
      | zero => omega
      | succ g =>
        have : buf.length < H := by omega
        simp [drainF, this]
  | succ n ih =>
    intro buf hb f g hf hg
    cases f with
    | zero => omega
    | succ f =>
      cases g with
      | zero => omega
      | succ g =>
        simp only [drainF]
        split
        · rfl
        · split
          · rfl
          · rw [ih (buf.drop (H + tl (buf.take H))) (by simp; omega) f g (by simp; omega) (by simp; omega)]

/-- any fuel above the buffer length gives the result of `drain` (the fuel suffices) -/
theorem drainF_eq_drain (hH : 0 < H) (buf : Bytes) (f : Nat) (hf : buf.length < f) :
    drainF H tl f buf = drain H tl buf :=
  drainF_fuel H tl hH buf.length buf (Nat.le_refl _) f (buf.length + 1) hf (Nat.lt_succ_self _)

theorem drain_stuck (buf : Bytes) (h : Stuck H tl buf) : drain H tl buf = ([], buf) := by
  unfold drain
  simp only [drainF]
  rcases h with h | h
  · simp [h]
  · split
    · rfl
    · simp

/-- one unfolding of the loop on a buffer that starts with a complete frame -/
theorem drain_step (hH : 0 < H) (buf : Bytes) (h1 : ¬ buf.length < H)
    (h2 : ¬ H + tl (buf.take H) > buf.length) :
    drain H tl buf =
      ((buf.take H, (buf.drop H).take (tl (buf.take H))) :: (drain H tl (buf.drop (H + tl (buf.take H)))).1,
       (drain H tl (buf.drop (H + tl (buf.take H)))).2) := by
  conv => lhs; unfold drain
  simp only [drainF, h1, h2, ↓reduceIte]
  rw [drainF_eq_drain H tl hH _ _ (by simp; omega)]

theorem drain_rem_stuck (hH : 0 < H) : ∀ (n : Nat) (buf : Bytes), buf.length ≤ n →
    Stuck H tl (drain H tl buf).2 := by
  intro n
  induction n with
  | zero =>
    intro buf hb
    have hs : Stuck H tl buf := Or.inl (by omega)
    rw [drain_stuck H tl buf hs]; exact hs
  | succ n ih =>
    intro buf hb
    by_cases h1 : buf.length < H
    · rw [drain_stuck H tl buf (Or.inl h1)]; exact Or.inl h1
    · by_cases h2 : H + tl (buf.take H) > buf.length
      · rw [drain_stuck H tl buf (Or.inr h2)]; exact Or.inr h2
      · rw [drain_step H tl hH buf h1 h2]
        exact ih _ (by simp; omega)

/-- **compositionality / resumability**: draining `buf ++ c` is draining `buf`, then draining
what was left over followed by `c`.  (A complete frame at the head of `buf` is the same
complete frame at the head of `buf ++ c`, because `text_len` is read from the first `H` bytes.) -/
theorem drain_append (hH : 0 < H) : ∀ (n : Nat) (buf c : Bytes), buf.length ≤ n →
    drain H tl (buf ++ c) =
      ((drain H tl buf).1 ++ (drain H tl ((drain H tl buf).2 ++ c)).1,
       (drain H tl ((drain H tl buf).2 ++ c)).2) := by
  intro n
  induction n with
  | zero =>
    intro buf c hb
    have hs : Stuck H tl buf := Or.inl (by omega)
    rw [drain_stuck H tl buf hs]; simp
  | succ n ih =>
    intro buf c hb
    by_cases h1 : buf.length < H
    · rw [drain_stuck H tl buf (Or.inl h1)]; simp
    · by_cases h2 : H + tl (buf.take H) > buf.length
      · rw [drain_stuck H tl buf (Or.inr h2)]; simp
      · have hle : H ≤ buf.length := by omega
        have htake : (buf ++ c).take H = buf.take H := by
          rw [List.take_append_of_le_length hle]
        have h1' : ¬ (buf ++ c).length < H := by simp; omega
        have h2' : ¬ H + tl ((buf ++ c).take H) > (buf ++ c).length := by
          rw [htake]; simp; omega
        rw [drain_step H tl hH (buf ++ c) h1' h2', drain_step H tl hH buf h1 h2, htake]
        have hd : (buf ++ c).drop (H + tl (buf.take H)) = buf.drop (H + tl (buf.take H)) ++ c := by
          rw [List.drop_append_of_le_length (by omega)]
        have ht : ((buf ++ c).drop H).take (tl (buf.take H)) = (buf.drop H).take (tl (buf.take H)) := by
          rw [List.drop_append_of_le_length hle, List.take_append_of_le_length (by simp; omega)]
        rw [hd, ht, ih (buf.drop (H + tl (buf.take H))) c (by simp; omega)]
        simp

/-- a well-formed record: the header has `H` bytes and its `text_len` field is the text length -/
def WF (r : Bytes × Bytes) : Prop := r.1.length = H ∧ tl r.1 = r.2.length

theorem drain_frame (hH : 0 < H) (r : Bytes × Bytes) (h : WF H tl r) (rest : Bytes) :
    drain H tl (frame r ++ rest) = (r :: (drain H tl rest).1, (drain H tl rest).2) := by
  obtain ⟨hb, tx⟩ := r
  obtain ⟨hl, ht⟩ := h
  simp only at hl ht
  have htake : (frame (hb, tx) ++ rest).take H = hb := by
    simp only [frame, List.append_assoc]
    rw [← hl]; simp
  have h1 : ¬ (frame (hb, tx) ++ rest).length < H := by simp [frame]; omega
  have h2 : ¬ H + tl ((frame (hb, tx) ++ rest).take H) > (frame (hb, tx) ++ rest).length := by
    rw [htake, ht]; simp [frame]; omega
  rw [drain_step H tl hH _ h1 h2, htake, ht]
  have hd1 : (frame (hb, tx) ++ rest).drop H = tx ++ rest := by
    simp only [frame, List.append_assoc]
    rw [← hl]; simp
  have hd2 : (frame (hb, tx) ++ rest).drop (H + tx.length) = rest := by
    rw [← List.drop_drop, hd1]; simp
  rw [hd1, hd2]; simp

theorem drain_frames (hH : 0 < H) (rs : List (Bytes × Bytes)) (h : ∀ r ∈ rs, WF H tl r) (p : Bytes)
    (hp : Stuck H tl p) : drain H tl (frames rs ++ p) = (rs, p) := by
  induction rs with
  | nil => simpa [frames] using drain_stuck H tl p hp
  | cons r rs ih =>
    have : frames (r :: rs) = frame r ++ frames rs := by simp [frames]
    rw [this, List.append_assoc, drain_frame H tl hH r (h r (by simp)),
        ih (fun x hx => h x (by simp [hx]))]

/-- feeding chunk after chunk from a stuck buffer is draining the concatenation -/
theorem feed_eq_drain (hH : 0 < H) (chunks : List Bytes) : ∀ (buf : Bytes), Stuck H tl buf →
    ((feed H tl buf chunks).1.flatten, (feed H tl buf chunks).2) = drain H tl (buf ++ chunks.flatten) := by
  induction chunks with
  | nil => intro buf hs; simp [feed, drain_stuck H tl buf hs]
  | cons c cs ih =>
    intro buf hs
    simp only [feed, backChunk, List.flatten_cons]
    have hst := drain_rem_stuck H tl hH _ (buf ++ c) (Nat.le_refl _)
    have := ih _ hst
    rw [← List.append_assoc, drain_append H tl hH _ (buf ++ c) cs.flatten (Nat.le_refl _), ← this]

end Tbox.C09
