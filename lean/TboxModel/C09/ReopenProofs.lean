/-
C09 — helper lemmas for the reconfiguration of a file sink in use after patches/C09-09 (`reopenK`, `flushR`,
`fileRunR`): the grouping invariant of `flushK` without the limit facts (a reconfiguration closes files below
the limit), carried through reconfigurations at any moment.
-/
import TboxModel.C09.Model
import TboxModel.C09.FileFaults
import TboxModel.C09.FileFaultsK
namespace Tbox.C09

theorem flushK_shape (max : Nat) (s : FileSt) (o : FOracle) :
    (flushK max s o = s ∧ s.cur = none ∧ (o.dirOk && o.openOk) = false) ∨
    ((s.cur.isSome || (o.dirOk && o.openOk)) = true ∧ ∃ w rest, w ++ rest = s.cache ∧
      (((flushK max s o).closed = s.closed ∧ (flushK max s o).cur = some (curData s ++ w) ∧ (flushK max s o).cache = rest) ∨
       (rest = [] ∧ (flushK max s o).closed = s.closed ++ [curData s ++ w] ∧ (flushK max s o).cur = none ∧ (flushK max s o).cache = []))) := by
  obtain ⟨closed, cur, total, cache⟩ := s
  have hsp := writeLoop_split o.writes cache
  cases cur with
  | none =>
    by_cases hop : (o.dirOk && o.openOk) = true
    · right
      refine ⟨by simp [hop], (writeLoop o.writes cache).1, (writeLoop o.writes cache).2, hsp, ?_⟩
      by_cases hr : (writeLoop o.writes cache).2 = []
      · by_cases hm : (writeLoop o.writes cache).1.length ≥ max
        · right; simp [flushK, hop, hr, hm, curData]
        · left; simp [flushK, hop, hr, hm, curData]
      · have hne : (writeLoop o.writes cache).2.isEmpty = false := by
          cases hh : (writeLoop o.writes cache).2 <;> simp_all
        left; simp [flushK, hop, hne, curData]
    · left
      have hop' : (o.dirOk && o.openOk) = false := by simpa using hop
      exact ⟨by simp [flushK, hop'], rfl, hop'⟩
  | some d0 =>
    right
    refine ⟨by simp, (writeLoop o.writes cache).1, (writeLoop o.writes cache).2, hsp, ?_⟩
    by_cases hr : (writeLoop o.writes cache).2 = []
    · by_cases hm : total + (writeLoop o.writes cache).1.length ≥ max
      · right; simp [flushK, hr, hm, curData]
      · left; simp [flushK, hr, hm, curData]
    · have hne : (writeLoop o.writes cache).2.isEmpty = false := by
        cases hh : (writeLoop o.writes cache).2 <;> simp_all
      left; simp [flushK, hne, curData]

/-- closed files are whole groups of records, in order; the open file plus the cache is the concatenation of the
records since the last close -/
def GInv (s : FileSt) (recs : List Bytes) : Prop :=
  ∃ (gc : List (List Bytes)) (gcur : List Bytes),
    s.closed = gc.map List.flatten ∧ gc.flatten ++ gcur = recs ∧ curData s ++ s.cache = gcur.flatten

theorem ginv_init : GInv {} [] := ⟨[], [], rfl, rfl, rfl⟩

theorem flushK_ginv (max : Nat) (s : FileSt) (o : FOracle) (recs : List Bytes) (h : GInv s recs) :
    GInv (flushK max s o) recs := by
  obtain ⟨gc, g, hcl, hrec, hdat⟩ := h
  rcases flushK_shape max s o with ⟨hsame, _, _⟩ | ⟨_, w, rest, hw, ⟨h1, h2, h3⟩ | ⟨hr, h1, h2, h3⟩⟩
  · rw [hsame]; exact ⟨gc, g, hcl, hrec, hdat⟩
  · refine ⟨gc, g, by rw [h1, hcl], hrec, ?_⟩
    have hcd : curData (flushK max s o) = curData s ++ w := by simp [curData, h2]
    rw [h3, hcd, List.append_assoc, hw, hdat]
  · subst hr
    rw [List.append_nil] at hw
    refine ⟨gc ++ [g], [], ?_, by simpa using hrec, ?_⟩
    · rw [h1, hcl, hw, hdat]; simp
    · rw [h3]; simp [curData, h2]

theorem append_ginv (s : FileSt) (recs b : List Bytes) (h : GInv s recs) :
    GInv { s with cache := s.cache ++ b.flatten } (recs ++ b) := by
  obtain ⟨gc, g, hcl, hrec, hdat⟩ := h
  refine ⟨gc, g ++ b, hcl, by rw [← hrec]; simp, ?_⟩
  show curData s ++ (s.cache ++ b.flatten) = _
  rw [← List.append_assoc, hdat]; simp

theorem closeNow_ginv (s : FileSt) (recs : List Bytes) (h : GInv s recs) (hc : s.cache = []) :
    GInv (closeNow s) recs := by
  obtain ⟨gc, g, hcl, hrec, hdat⟩ := h
  rw [hc, List.append_nil] at hdat
  cases hcur : s.cur with
  | none =>
    have : closeNow s = s := by simp [closeNow, hcur]
    rw [this]; exact ⟨gc, g, hcl, hrec, by rw [hc, List.append_nil]; exact hdat⟩
  | some d =>
    have : closeNow s = { s with closed := s.closed ++ [d], cur := none } := by simp [closeNow, hcur]
    rw [this]
    refine ⟨gc ++ [g], [], ?_, by simpa using hrec, ?_⟩
    · simp only [hcl, List.map_append, List.map_cons, List.map_nil]
      rw [← hdat]; simp [curData, hcur]
    · simp [curData, hc]

theorem closeNow_cur_none (s : FileSt) (h : s.cur = none) : closeNow s = s := by simp [closeNow, h]

theorem flushR_ginv (max : Nat) (s : FileStR) (o : FOracle) (recs : List Bytes) (h : GInv s.st recs) :
    GInv (flushR max s o).st recs := by
  have hk := flushK_ginv max s.st o recs h
  unfold flushR
  simp only
  split
  · rename_i hc
    simp only [Bool.and_eq_true, List.isEmpty_iff] at hc
    exact closeNow_ginv _ _ hk hc.1.2
  · exact hk

theorem reopenK_ginv (s : FileStR) (recs : List Bytes) (h : GInv s.st recs) : GInv (reopenK s).st recs := by
  unfold reopenK
  split
  · exact h
  · rename_i hc
    simp only [Bool.and_eq_true, Bool.not_eq_true', not_and, Bool.not_eq_false] at hc
    cases hcur : s.st.cur with
    | none => simp only [closeNow_cur_none _ hcur]; exact h
    | some d =>
      have := hc (by simp [hcur])
      exact closeNow_ginv _ _ h (List.isEmpty_iff.mp this)

theorem fileBatchR_ginv (max : Nat) (s : FileStR) (recs : List Bytes) (b : List Bytes × FOracle) (h : GInv s.st recs) :
    GInv (fileBatchR max s b).st (recs ++ b.1) := by
  unfold fileBatchR
  split
  · rename_i he; rw [List.isEmpty_iff.mp he, List.append_nil]; exact h
  · exact flushR_ginv max _ b.2 _ (append_ginv s.st recs b.1 h)

theorem disableR_ginv (max : Nat) (s : FileStR) (o : FOracle) (recs : List Bytes) (h : GInv s.st recs) :
    GInv (disableR max s o).st recs := by
  unfold disableR
  split
  · exact h
  · exact flushR_ginv max s o recs h

theorem fileStepR_ginv (st : Nat × FileStR) (op : FOp) (recs : List Bytes) (h : GInv st.2.st recs) :
    GInv (fileStepR st op).2.st (recs ++ op.recs) := by
  cases op with
  | batch r o => exact fileBatchR_ginv st.1 st.2 recs (r, o) h
  | reopen => simpa [fileStepR, FOp.recs] using reopenK_ginv st.2 recs h
  | setMax m => simpa [fileStepR, FOp.recs] using h
  | retry o => simpa [fileStepR, FOp.recs] using disableR_ginv st.1 st.2 o recs h

theorem foldl_fileStepR_ginv (ops : List FOp) : ∀ (st : Nat × FileStR) (recs : List Bytes), GInv st.2.st recs →
    GInv (ops.foldl fileStepR st).2.st (recs ++ (ops.map FOp.recs).flatten) := by
  induction ops with
  | nil => intro st recs h; simpa using h
  | cons op ops ih =>
    intro st recs h
    have := ih _ _ (fileStepR_ginv st op recs h)
    simpa [List.append_assoc] using this

/-! the flag is pending only while a file is open and a tail is cached -/

def NeedOk (s : FileStR) : Prop := s.need = true → s.st.cur.isSome = true ∧ s.st.cache ≠ []

theorem flushR_needOk (max : Nat) (s : FileStR) (o : FOracle) (h : NeedOk s) : NeedOk (flushR max s o) := by
  intro hn
  unfold flushR at hn ⊢
  simp only at hn ⊢
  split at hn
  · cases hn
  · rename_i hc
    simp only at hn
    have ⟨hcur, _⟩ := h hn
    rw [if_neg hc]
    simp only
    simp only [hn, hcur, Bool.true_or, Bool.true_and, Bool.and_true, Bool.not_eq_true, List.isEmpty_eq_false_iff] at hc
    refine ⟨?_, hc⟩
    rcases flushK_shape max s.st o with ⟨_, hnone, _⟩ | ⟨_, w, rest, _, ⟨_, h2, _⟩ | ⟨_, _, _, h3⟩⟩
    · rw [hnone] at hcur; cases hcur
    · rw [h2]; rfl
    · exact absurd h3 hc

theorem reopenK_needOk (s : FileStR) (h : NeedOk s) : NeedOk (reopenK s) := by
  intro hn
  unfold reopenK at hn ⊢
  split
  · rename_i hc
    simp only [Bool.and_eq_true, Bool.not_eq_true', List.isEmpty_eq_false_iff] at hc
    exact hc
  · rename_i hc
    rw [if_neg hc] at hn
    have ⟨h1, h2⟩ := h hn
    exact absurd (by simp [h1, h2]) hc

theorem fileStepR_needOk (st : Nat × FileStR) (op : FOp) (h : NeedOk st.2) : NeedOk (fileStepR st op).2 := by
  cases op with
  | batch r o =>
    show NeedOk (fileBatchR st.1 st.2 (r, o))
    unfold fileBatchR
    split
    · exact h
    · apply flushR_needOk
      intro hn
      have ⟨h1, h2⟩ := h hn
      exact ⟨h1, by simp [h2]⟩
  | reopen => exact reopenK_needOk st.2 h
  | setMax m => exact h
  | retry o =>
    show NeedOk (disableR st.1 st.2 o)
    unfold disableR
    split
    · exact h
    · exact flushR_needOk _ _ _ h

theorem foldl_fileStepR_needOk (ops : List FOp) : ∀ (st : Nat × FileStR), NeedOk st.2 → NeedOk (ops.foldl fileStepR st).2 := by
  induction ops with
  | nil => intro st h; exact h
  | cons op ops ih => intro st h; exact ih _ (fileStepR_needOk st op h)

/-- without a pending flag the repaired `flush()` is `flushK` -/
theorem flushR_noNeed (max : Nat) (s : FileSt) (o : FOracle) : flushR max { st := s, need := false } o = { st := flushK max s o, need := false } := by
  simp [flushR]

/-- the length image of the repaired `flush()` and of `closeLogFile()` (what the trace acceptor executes) -/
theorem closeNow_len (s : FileSt) : (closeNow s).len = closeNowLen s.len := by
  cases h : s.cur <;> simp [closeNow, closeNowLen, FileSt.len, h]

theorem flushR_len (max : Nat) (s : FileStR) (o : FOracle) : (flushR max s o).len = flushRLen max s.len o := by
  unfold flushR flushRLen FileStR.len
  simp only [← flushK_len]
  have h1 : (s.st.len.cur.isSome) = s.st.cur.isSome := by cases h : s.st.cur <;> simp [FileSt.len, h]
  have h2 : ((flushK max s.st o).len.cache == 0) = (flushK max s.st o).cache.isEmpty := by
    cases h : (flushK max s.st o).cache <;> simp [FileSt.len, h]
  rw [h1, h2]
  split <;> simp [closeNow_len]

theorem reopenK_len (s : FileStR) : (reopenK s).len = reopenLen s.len := by
  unfold reopenK reopenLen FileStR.len
  have h1 : (s.st.len.cur.isSome) = s.st.cur.isSome := by cases h : s.st.cur <;> simp [FileSt.len, h]
  have h2 : (s.st.len.cache != 0) = !s.st.cache.isEmpty := by
    cases h : s.st.cache <;> simp [FileSt.len, h]
  simp only [h1, h2]
  split <;> simp [closeNow_len]

end Tbox.C09
