/-
C09 — the abstract specification the property statement describes (executable).

* the text of a record is the message cut to the maximum, flagged iff it was longer;
* a sink holds, for the global order of calls, exactly the calls that pass its filter;
* the global order is an interleaving of the threads' programs (per-thread projection);
* a log directory is a grouping of the rendered records, in order, into whole-record files.
-/
import TboxModel.C09.Model
namespace Tbox.C09

/-- "text longer than the configured maximum is cut to exactly that maximum and marked" -/
def specText (msg : Bytes) (max : Nat) : Bytes × Bool := (msg.take max, decide (max < msg.length))

/-- what an enabled sink with filter table `c` must contain, given the global call order -/
def specSink {ρ : Type} (c : FilterCfg) (level : ρ → Int) (module : ρ → String) (order : List ρ) : List ρ :=
  order.filter fun r => filter c (level r) (module r)

/-- `order` is an interleaving of the programs of threads `< n`: every entry belongs to a thread
`< n` and each thread's projection is its program (so: exactly once, in per-thread order) -/
def specInterleaving {β : Type} [DecidableEq β] (n : Nat) (prog : Nat → List β) (order : List (Nat × β)) : Bool :=
  order.all (fun p => p.1 < n) &&
  (List.range n).all fun t => (order.filter (fun p => p.1 == t)).map (·.2) == prog t

/-- files in creation order hold the records whole and in order -/
def specFiles (files : List Bytes) (records : List Bytes) : Prop :=
  ∃ groups : List (List Bytes), groups.flatten = records ∧ files = groups.map List.flatten

end Tbox.C09
