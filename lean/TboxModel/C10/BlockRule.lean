/-
C10 — the block rule of the trace acceptor, executable (core Lean only; used by the driver):
a run of the pipe is observed as the sequence of blocks handed to the sink.  `blockRule` says
  * every block is non-empty and at most one buffer long,
  * a block shorter than a buffer ends exactly where an append ends (only the timed / quit
    hand-over produces partial blocks, and it needs the producer lock, i.e. no append in flight),
  * the blocks concatenate to the concatenation of the appends in acquisition order.
`TboxModel/C10/BlockShape.lean` proves that every model execution satisfies it.
-/
namespace Tbox.C10

/-- running sums `a+n₁, a+n₁+n₂, …` -/
def sums : Nat → List Nat → List Nat
  | _, [] => []
  | a, n :: ns => (a + n) :: sums (a + n) ns

/-- stream offsets at which an append ends (0 = before the first) -/
def boundsOf (appends : List (List UInt8)) : List Nat := 0 :: sums 0 (appends.map (·.length))

/-- from stream offset `off` on, every block is a whole buffer or ends at a bound -/
def shaped (size : Nat) (bounds : List Nat) : Nat → List (List UInt8) → Bool
  | _, [] => true
  | off, b :: bs => (b.length == size || bounds.contains (off + b.length)) && shaped size bounds (off + b.length) bs

def blockRule (size : Nat) (appends : List (List UInt8)) (blocks : List (List UInt8)) : Bool :=
  blocks.all (fun b => decide (1 ≤ b.length) && decide (b.length ≤ size)) &&
  shaped size (boundsOf appends) 0 blocks &&
  blocks.flatten == appends.flatten

end Tbox.C10
