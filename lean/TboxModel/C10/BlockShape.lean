/- C10 — every model execution satisfies the acceptor's block rule (`BlockRule.lean`). -/
import TboxModel.C10.Progress
import TboxModel.C10.BlockRule
namespace Tbox.C10

def total (l : List (List UInt8)) : Nat := l.flatten.length

theorem total_append (a b : List (List UInt8)) : total (a ++ b) = total a + total b := by
  simp [total]

theorem shaped_append (size : Nat) (B : List Nat) (l : List (List UInt8)) (b : List UInt8) (off : Nat) :
    shaped size B off (l ++ [b]) =
      (shaped size B off l && (b.length == size || B.contains (off + total l + b.length))) := by
  induction l generalizing off with
  | nil => simp [shaped, total]
  | cons x xs ih =>
    simp only [List.cons_append, shaped, ih, total, List.flatten_cons, List.length_append]
    rw [Bool.and_assoc]
    congr 2
    simp [Nat.add_assoc]

theorem shaped_prefix (size : Nat) (B : List Nat) (l m : List (List UInt8)) (off : Nat)
    (h : shaped size B off (l ++ m) = true) : shaped size B off l = true := by
  induction l generalizing off with
  | nil => simp [shaped]
  | cons x xs ih =>
    simp only [List.cons_append, shaped, Bool.and_eq_true] at h ⊢
    exact ⟨h.1, ih _ h.2⟩

theorem shaped_mono (size : Nat) (B B' : List Nat) (hsub : ∀ n, n ∈ B → n ∈ B') (l : List (List UInt8)) (off : Nat)
    (h : shaped size B off l = true) : shaped size B' off l = true := by
  induction l generalizing off with
  | nil => simp [shaped]
  | cons x xs ih =>
    simp only [shaped, Bool.and_eq_true, Bool.or_eq_true, List.contains_iff_mem] at h ⊢
    exact ⟨h.1.imp id (hsub _), ih _ h.2⟩

theorem sums_append (a : Nat) (l m : List Nat) : sums a (l ++ m) = sums a l ++ sums (a + l.sum) m := by
  induction l generalizing a with
  | nil => simp [sums]
  | cons x xs ih => simp [sums, ih, Nat.add_assoc]

theorem last_mem_sums (a : Nat) (l : List Nat) : a + l.sum ∈ a :: sums a l := by
  induction l generalizing a with
  | nil => simp
  | cons x xs ih =>
    have := ih (a + x)
    simp only [sums, List.sum_cons, List.mem_cons] at this ⊢
    rcases this with h | h
    · right; left; omega
    · right; right; rwa [Nat.add_assoc] at h

/-- the end of everything appended so far is a bound -/
theorem total_mem_bounds (l : List (List UInt8)) : l.flatten.length ∈ boundsOf l := by
  have h := last_mem_sums 0 (l.map (·.length))
  rw [List.length_flatten]
  simp only [Nat.zero_add] at h
  exact h

theorem bounds_mono (l : List (List UInt8)) (d : List UInt8) : ∀ n, n ∈ boundsOf l → n ∈ boundsOf (l ++ [d]) := by
  intro n h
  simp only [boundsOf, List.map_append, sums_append, List.mem_cons, List.mem_append] at h ⊢
  rcases h with h | h
  · exact Or.inl h
  · exact Or.inr (Or.inl h)

/-- the queue of blocks in pipe order, delivered ones first -/
def blocksOf (s : State) : List (List UInt8) := s.delivered ++ s.full

def ShapeInv (s : State) : Prop :=
  shaped s.cfg.size (boundsOf (s.acq.map (·.2))) 0 (blocksOf s) = true

theorem step_shapeinv (s : State) (st : Step) (hv : valid s st = true) (_hs : Shape s) (hst : StreamInv s)
    (h : ShapeInv s) : ShapeInv (step s st) := by
  unfold ShapeInv blocksOf at *
  cases st with
  | acquire p =>
    simp only [step]
    split
    · simp only [List.map_append, List.map_cons, List.map_nil]
      exact shaped_mono _ _ _ (bounds_mono _ _) _ _ h
    · exact h
  | pWrite =>
    simp only [step]
    split
    · rename_i o b ho hc
      rcases wc_cases { s with late := s.late || s.stop } o b with ⟨hf, hcu, hlen⟩ | ⟨hf, hcu, hlen⟩
      · simp only [wc_cfg, wc_acq, wc_delivered, hf, ← List.append_assoc]
        rw [shaped_append]
        simp only at hlen
        simp [h, hlen]
      · simpa [hf] using h
    · exact h
  | bGrab =>
    simp only [step, valid] at *
    split
    · split
      · rename_i hc
        simp only [Bool.and_eq_true, Option.isNone_iff_eq_none] at hc
        split
        · rename_i b hb
          simp only [← List.append_assoc]
          rw [shaped_append]
          simp only [h, Bool.true_and, Bool.or_eq_true, List.contains_iff_mem]
          right
          have hw : (s.delivered ++ s.full).flatten.length + b.length = (s.acq.map (·.2)).flatten.length := by
            have := congrArg List.length hst
            simp only [written, appended, hb, hc.2, currOf, remainOf, List.append_nil, List.length_append,
              List.flatten_append] at this ⊢
            omega
          have := total_mem_bounds (s.acq.map (·.2))
          simp only [total, Nat.zero_add]
          rw [hw]; exact this
        · exact h
      · exact h
    · exact h
  | bPop =>
    simp only [step]
    split
    · split
      · rename_i b rest hf
        simpa [hf, List.append_assoc] using h
      · exact h
    · exact h
  | _ =>
    simp only [step] <;> (repeat' split) <;> exact h

theorem exec_shapeinv (prog0) (sts : List Step) : ∀ (s s' : State), Inv prog0 s → ShapeInv s →
    exec s sts = some s' → ShapeInv s' := by
  induction sts with
  | nil => intro s s' _ h he; simp [exec] at he; subst he; exact h
  | cons st sts ih =>
    intro s s' hi h he
    simp only [exec] at he
    split at he
    · rename_i hv
      exact ih _ _ (step_inv prog0 s st hv hi) (step_shapeinv s st hv hi.shape hi.stream h) he
    · cases he

end Tbox.C10
