/- C10 — completeness of the model w.r.t. `pack`: for every order of appends and every choice of
timed hand-overs there is a model execution (a complete run: cleanup returned, nothing late) whose
delivered block sequence is exactly `pack …`. -/
import TboxModel.C10.Proofs
import TboxModel.C10.Pack
namespace Tbox.C10

def Reach (s s' : State) : Prop := ∃ sts, exec s sts = some s'

theorem Reach.refl (s : State) : Reach s s := ⟨[], rfl⟩
theorem Reach.trans {a b c : State} (h1 : Reach a b) (h2 : Reach b c) : Reach a c := by
  obtain ⟨l1, e1⟩ := h1; obtain ⟨l2, e2⟩ := h2
  exact ⟨l1 ++ l2, by rw [exec_append, e1]; exact e2⟩
theorem Reach.of_exec {a b : State} (l : List Step) (h : exec a l = some b) : Reach a b := ⟨l, h⟩

def optOf (c : Buf) : Option Buf := if c.isEmpty then none else some c

/-- quiet state: back end at the top of its loop, nothing queued, `minN` buffers in existence -/
def Q (cfg : Cfg) (prog : Nat → List (List UInt8)) (curr : Option Buf) (owner : Option Owner)
    (deliv : List Buf) (acq : List (Nat × List UInt8)) : State :=
  { cfg := cfg, prog := prog, curr := curr, full := [], free := cfg.minN - currCount curr, buffNum := cfg.minN,
    stop := false, owner := owner, bpc := .top, joined := false, delivered := deliv, acq := acq, active := 0,
    late := false }

/-- one full buffer `b` queued, no current buffer -/
def QF (cfg : Cfg) (prog : Nat → List (List UInt8)) (b : Buf) (owner : Option Owner)
    (deliv : List Buf) (acq : List (Nat × List UInt8)) : State :=
  { cfg := cfg, prog := prog, curr := none, full := [b], free := cfg.minN - 1, buffNum := cfg.minN,
    stop := false, owner := owner, bpc := .top, joined := false, delivered := deliv, acq := acq, active := 0,
    late := false }

theorem cycleFull (cfg : Cfg) (hm : 1 ≤ cfg.minN) (prog b) (owner : Option Owner)
    (hown : ∀ o, owner = some o → o.tid ≠ sinkTid) (deliv acq) :
    Reach (QF cfg prog b owner deliv acq) (Q cfg prog none owner (deliv ++ [b]) acq) := by
  apply Reach.of_exec [.bTop, .bGrab, .bPop, .bCbRet, .bPushFree, .bPop]
  cases owner with
  | none => simp [exec, valid, step, QF, Q, currCount]; omega
  | some o => have := hown o rfl; simp [exec, valid, step, QF, Q, currCount, this]; omega

theorem cycleGrab (cfg : Cfg) (hm : 1 ≤ cfg.minN) (prog c deliv acq) :
    Reach (Q cfg prog (some c) none deliv acq) (Q cfg prog none none (deliv ++ [c]) acq) := by
  apply Reach.of_exec [.bTop, .bWake true, .bGrab, .bPop, .bCbRet, .bPushFree, .bPop]
  simp [exec, valid, step, Q, currCount]
  omega

theorem feed_lt (size : Nat) (hs : 1 ≤ size) : ∀ (fuel : Nat) (c d : List UInt8), c.length < size →
    (feed size fuel c d).2.length < size := by
  intro fuel
  induction fuel with
  | zero => intro c d h; simpa [feed] using h
  | succ n ih =>
    intro c d h
    unfold feed
    split
    · exact h
    · dsimp only
      split
      · exact ih [] _ (by simp only [List.length_nil]; omega)
      · rename_i hne
        simp only [List.length_append, List.length_take, beq_iff_eq] at hne ⊢
        omega

/-- the chunk loop of one append, from a quiet state with the producer lock held -/
theorem chunks (cfg : Cfg) (hm : 1 ≤ cfg.minN) (hs : 1 ≤ cfg.size) (prog) (p : Nat) (hp7 : p ≠ sinkTid) (acq) :
    ∀ (fuel : Nat) (c r : List UInt8) (deliv : List Buf), c.length < cfg.size → r.length ≤ fuel →
    Reach (Q cfg prog (optOf c) (some ⟨p, r, false⟩) deliv acq)
          (Q cfg prog (optOf (feed cfg.size fuel c r).2) (some ⟨p, [], false⟩) (deliv ++ (feed cfg.size fuel c r).1) acq) := by
  intro fuel
  induction fuel with
  | zero =>
    intro c r deliv hc hr
    have : r = [] := List.eq_nil_of_length_eq_zero (by omega)
    subst this
    simp only [feed, List.append_nil]
    exact Reach.refl _
  | succ n ih =>
    intro c r deliv hc hr
    cases hrn : r with
    | nil =>
      simp only [feed, List.isEmpty_nil, if_true, List.append_nil]
      exact Reach.refl _
    | cons x xs =>
      rw [← hrn]
      have hrne : r ≠ [] := by simp [hrn]
      have hrpos : 1 ≤ r.length := List.length_pos_iff.mpr hrne
      -- step 1: make sure there is a current buffer
      have h1 : Reach (Q cfg prog (optOf c) (some ⟨p, r, false⟩) deliv acq)
                      (Q cfg prog (some c) (some ⟨p, r, false⟩) deliv acq) := by
        unfold optOf
        split
        · rename_i hce
          have : c = [] := by simpa using hce
          subst this
          apply Reach.of_exec [.pTake]
          have hr' : r.isEmpty = false := by simp [hrne]
          simp [exec, valid, step, Q, currCount, hr']
          omega
        · exact Reach.refl _
      refine h1.trans ?_
      -- step 2: write one chunk
      unfold feed
      have hr' : r.isEmpty = false := by simp [hrne]
      simp only [hr', Bool.false_eq_true, if_false]
      split
      · rename_i hfull
        simp only [beq_iff_eq] at hfull
        have h2 : Reach (Q cfg prog (some c) (some ⟨p, r, false⟩) deliv acq)
            (QF cfg prog (c ++ r.take (min r.length (cfg.size - c.length)))
              (some ⟨p, r.drop (min r.length (cfg.size - c.length)), false⟩) deliv acq) := by
          apply Reach.of_exec [.pWrite]
          simp [exec, valid, step, Q, QF, writeChunk, currCount, hr', hfull]
        refine h2.trans ((cycleFull cfg hm prog _ _ (by intro o ho; cases ho; exact hp7) deliv acq).trans ?_)
        have hlen : (r.drop (min r.length (cfg.size - c.length))).length ≤ n := by
          simp only [List.length_drop]; omega
        have := ih [] (r.drop (min r.length (cfg.size - c.length))) (deliv ++ [c ++ r.take (min r.length (cfg.size - c.length))])
          (by simp only [List.length_nil]; omega) hlen
        simpa [optOf, List.append_assoc] using this
      · rename_i hnf
        simp only [beq_iff_eq] at hnf
        have hdrop : r.drop (min r.length (cfg.size - c.length)) = [] := by
          simp only [List.length_append, List.length_take] at hnf
          apply List.drop_eq_nil_of_le; omega
        have hne : (c ++ r.take (min r.length (cfg.size - c.length))).isEmpty = false := by
          simp only [List.isEmpty_eq_false_iff, ne_eq, List.append_eq_nil_iff, not_and]
          intro _ h
          have := congrArg List.length h
          simp only [List.length_take, List.length_nil] at this
          omega
        apply Reach.of_exec [.pWrite]
        have hnf' := hnf
        simp only [List.length_append, List.length_take] at hnf'
        simp [exec, valid, step, Q, writeChunk, currCount, hr', optOf, hne, hdrop]
        omega

/-- one whole append of thread `p` from a quiet state -/
theorem oneAppend (cfg : Cfg) (hm : 1 ≤ cfg.minN) (hs : 1 ≤ cfg.size) (prog) (p : Nat) (d : List UInt8)
    (rest : List (List UInt8)) (hp7 : p ≠ sinkTid) (hp : prog p = d :: rest) (c : List UInt8) (hc : c.length < cfg.size) (deliv acq) :
    Reach (Q cfg prog (optOf c) none deliv acq)
          (Q cfg (fun q => if q = p then rest else prog q) (optOf (feed cfg.size d.length c d).2) none
             (deliv ++ (feed cfg.size d.length c d).1) (acq ++ [(p, d)])) := by
  have h1 : Reach (Q cfg prog (optOf c) none deliv acq)
      (Q cfg (fun q => if q = p then rest else prog q) (optOf c) (some ⟨p, d, false⟩) deliv (acq ++ [(p, d)])) := by
    apply Reach.of_exec [.acquire p]
    simp [exec, valid, step, Q, hp, hp7]
  have h2 := chunks cfg hm hs (fun q => if q = p then rest else prog q) p hp7 (acq ++ [(p, d)]) d.length c d deliv hc (Nat.le_refl _)
  have h3 : Reach (Q cfg (fun q => if q = p then rest else prog q) (optOf (feed cfg.size d.length c d).2)
        (some ⟨p, [], false⟩) (deliv ++ (feed cfg.size d.length c d).1) (acq ++ [(p, d)]))
      (Q cfg (fun q => if q = p then rest else prog q) (optOf (feed cfg.size d.length c d).2) none
        (deliv ++ (feed cfg.size d.length c d).1) (acq ++ [(p, d)])) := by
    apply Reach.of_exec [.release]
    simp [exec, valid, step, Q]
  exact h1.trans (h2.trans h3)

/-- cleanup from a quiet state: the rest of the current buffer is handed over and the back end exits -/
theorem finalPhase (cfg : Cfg) (hm : 1 ≤ cfg.minN) (prog) (c : List UInt8) (deliv acq) :
    ∃ s, Reach (Q cfg prog (optOf c) none deliv acq) s ∧ s.joined = true ∧ s.late = false ∧
      s.delivered = deliv ++ (if c.isEmpty then [] else [c]) ∧ s.acq = acq := by
  unfold optOf
  split
  · refine ⟨_, Reach.of_exec [.cleanupSignal, .bTop, .bWake false, .bGrab, .bPop, .join] rfl, ?_⟩
    simp [step, Q]
  · have hx : exec (Q cfg prog (some c) none deliv acq)
        [.cleanupSignal, .bTop, .bWake false, .bGrab, .bPop, .bCbRet, .bPushFree, .bPop, .join] =
        some { cfg := cfg, prog := prog, curr := none, full := [], free := cfg.minN, buffNum := cfg.minN, stop := true,
               owner := none, bpc := .exited, joined := true, delivered := deliv ++ [c], acq := acq, active := 0,
               late := false } := by
      simp [exec, valid, step, Q, currCount]
      omega
    refine ⟨_, Reach.of_exec _ hx, ?_⟩
    simp

/-- thread `p`'s appends in `ord`, in order -/
def progOf : List (Nat × List UInt8 × Bool) → Nat → List (List UInt8)
  | [], _ => []
  | (q, d, _) :: rest, p => if q = p then d :: progOf rest p else progOf rest p

theorem realize (cfg : Cfg) (hm : 1 ≤ cfg.minN) (hs : 1 ≤ cfg.size) :
    ∀ (ord : List (Nat × List UInt8 × Bool)) (prog : Nat → List (List UInt8)) (c : List UInt8) (deliv acq),
    (∀ x ∈ ord, x.1 ≠ sinkTid) → (∀ p, prog p = progOf ord p) → c.length < cfg.size →
    ∃ s, Reach (Q cfg prog (optOf c) none deliv acq) s ∧ s.joined = true ∧ s.late = false ∧
      s.delivered = deliv ++ pack cfg.size c (ord.map (fun x => (x.2.1, x.2.2))) ∧
      s.acq = acq ++ ord.map (fun x => (x.1, x.2.1)) := by
  intro ord
  induction ord with
  | nil =>
    intro prog c deliv acq _ _ _
    obtain ⟨s, hr, hj, hl, hd, ha⟩ := finalPhase cfg hm prog c deliv acq
    exact ⟨s, hr, hj, hl, by simpa [pack] using hd, by simpa using ha⟩
  | cons x rest ih =>
    obtain ⟨p, d, g⟩ := x
    intro prog c deliv acq h7 hprog hc
    have hp7 : p ≠ sinkTid := h7 (p, d, g) (by simp)
    have h7' : ∀ x ∈ rest, x.1 ≠ sinkTid := fun x hx => h7 x (by simp [hx])
    have hp : prog p = d :: progOf rest p := by rw [hprog p]; simp [progOf]
    have h1 := oneAppend cfg hm hs prog p d (progOf rest p) hp7 hp c hc deliv acq
    have hprog' : ∀ q, (fun q => if q = p then progOf rest p else prog q) q = progOf rest q := by
      intro q
      by_cases hq : q = p
      · simp [hq]
      · have hpq : ¬ p = q := fun h => hq h.symm
        simp [hq, hprog q, progOf, hpq]
    have hlt := feed_lt cfg.size hs d.length c d hc
    by_cases hg : (g && !(feed cfg.size d.length c d).2.isEmpty) = true
    · -- timed hand-over of the partial buffer after this append
      have hne : (feed cfg.size d.length c d).2.isEmpty = false := by
        simp only [Bool.and_eq_true, Bool.not_eq_true'] at hg; exact hg.2
      have h2 := cycleGrab cfg hm (fun q => if q = p then progOf rest p else prog q) (feed cfg.size d.length c d).2
        (deliv ++ (feed cfg.size d.length c d).1) (acq ++ [(p, d)])
      have hopt : optOf (feed cfg.size d.length c d).2 = some (feed cfg.size d.length c d).2 := by simp [optOf, hne]
      rw [hopt] at h1
      obtain ⟨s, hr, hj, hl, hd, ha⟩ := ih _ [] (deliv ++ (feed cfg.size d.length c d).1 ++ [(feed cfg.size d.length c d).2])
        (acq ++ [(p, d)]) h7' hprog' (by simp only [List.length_nil]; omega)
      have hq0 : optOf ([] : List UInt8) = none := by simp [optOf]
      rw [hq0] at hr
      refine ⟨s, h1.trans (h2.trans hr), hj, hl, ?_, ?_⟩
      · simp only [List.map_cons, pack, hg, if_true, hd, List.append_assoc]
      · simp [ha, List.append_assoc]
    · obtain ⟨s, hr, hj, hl, hd, ha⟩ := ih _ (feed cfg.size d.length c d).2 (deliv ++ (feed cfg.size d.length c d).1)
        (acq ++ [(p, d)]) h7' hprog' hlt
      refine ⟨s, h1.trans hr, hj, hl, ?_, ?_⟩
      · simp only [List.map_cons, pack, hg, Bool.false_eq_true, if_false, hd, List.append_assoc]
      · simp [ha, List.append_assoc]

end Tbox.C10
