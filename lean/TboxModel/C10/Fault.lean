/-
C10 — fault schedules and the object-level API of `tbox::util::AsyncPipe` (round 5).

(1) Allocation failure while the pool grows from `buff_min_num` to `buff_max_num`
    (`free_buffers_.push_back(new Buffer(cfg_.buff_size))` in `appendLockless`, async_pipe.cpp l.262-266):
    `new` throws `std::bad_alloc`, the exception leaves `append` (both lock guards release), the caller is told.
    `XStep.allocFail` is that event, enabled exactly where `pTake` would allocate; the kernel/allocator's answer is an
    oracle input: executions are lists of `XStep`, failures may occur at ANY enabled point, any number of times.
    `fixed = false` is the code as found (`++buff_num_` BEFORE the allocation: the counter keeps a buffer that never
    existed), `fixed = true` the repaired order (count after the allocation succeeded).
    Ghost: the aborted append stays in `acq` with exactly the prefix it wrote (`cutLast`).
(2) The API around a lifecycle: `initialize` (validation, second call, thread-creation / allocation failure),
    `setCallback`, `cleanup` (idempotent, no-op when not initialised), destructor = cleanup.
(3) `appendLockless` without `appendLock`: a two-caller model without mutual exclusion (counterexample only).
-/
import TboxModel.C10.Progress
import TboxModel.C10.Spec
namespace Tbox.C10

/-! ### (1) allocation failure -/

inductive XStep where
  | base (st : Step)
  | allocFail
deriving Repr, DecidableEq

/-- enabled exactly where `pTake` would allocate: the owner runs, needs a buffer, none is free, the limit is not reached -/
def allocFailValid (s : State) : Bool :=
  match s.owner with
  | some o => !o.blocked && !o.remain.isEmpty && s.curr.isNone && s.free == 0 && decide (s.buffNum < s.cfg.maxN)
  | none => false

/-- the last acquired append keeps only what it wrote: its last `k` bytes never entered the pipe -/
def cutLast (acq : List (Nat × List UInt8)) (k : Nat) : List (Nat × List UInt8) :=
  match acq.getLast? with
  | some (p, d) => acq.dropLast ++ [(p, d.take (d.length - k))]
  | none => acq

def allocFailStep (fixed : Bool) (s : State) : State :=
  match s.owner with
  | some o => { s with owner := none, buffNum := if fixed then s.buffNum else s.buffNum + 1,
                       acq := cutLast s.acq o.remain.length, late := s.late || s.stop }
  | none => s

def xvalid (s : State) : XStep → Bool
  | .base st => valid s st
  | .allocFail => allocFailValid s

def xstep (fixed : Bool) (s : State) : XStep → State
  | .base st => step s st
  | .allocFail => allocFailStep fixed s

def xexec (fixed : Bool) (s : State) : List XStep → Option State
  | [] => some s
  | st :: sts => if xvalid s st then xexec fixed (xstep fixed s st) sts else none

/-- the append in flight is the last one acquired, and what it still has to write is a suffix of it -/
def LastInv (s : State) : Prop :=
  ∀ o, s.owner = some o → ∃ ini pre, s.acq = ini ++ [(o.tid, pre ++ o.remain)]

theorem cutLast_snoc (ini : List (Nat × List UInt8)) (p : Nat) (pre rem : List UInt8) :
    cutLast (ini ++ [(p, pre ++ rem)]) rem.length = ini ++ [(p, pre)] := by
  simp [cutLast]

theorem step_last (s : State) (st : Step) (hv : valid s st = true) (h : LastInv s) : LastInv (step s st) := by
  unfold LastInv at *
  cases st with
  | acquire p =>
    simp only [step]
    split
    · rename_i d rest hd
      intro o ho
      simp only [Option.some.injEq] at ho
      subst ho
      exact ⟨s.acq, [], by simp⟩
    · exact h
  | pWrite =>
    simp only [step]
    split
    · rename_i o b ho hc
      intro o' ho'
      rw [wc_owner] at ho'
      simp only [Option.some.injEq] at ho'
      subst ho'
      obtain ⟨ini, pre, hacq⟩ := h o ho
      refine ⟨ini, pre ++ o.remain.take (chunkLen { s with late := s.late || s.stop } o b), ?_⟩
      rw [wc_acq]
      simp only [hacq, List.append_assoc, List.take_append_drop]
    · exact h
  | release => intro o ho; simp [step] at ho
  | pTake =>
    intro o' ho'
    cases hso : s.owner with
    | none => simp [step, hso] at ho'
    | some o =>
      obtain ⟨ini, pre, hacq⟩ := h o hso
      by_cases h1 : 0 < s.free
      · simp [step, hso, h1] at ho' ⊢
        subst ho'; exact ⟨ini, pre, hacq⟩
      · by_cases h2 : s.buffNum < s.cfg.maxN
        · simp [step, hso, h1, h2] at ho' ⊢
          subst ho'; exact ⟨ini, pre, hacq⟩
        · simp [step, hso, h1, h2] at ho' ⊢
          subst ho'; exact ⟨ini, pre, hacq⟩
  | pWake =>
    intro o' ho'
    cases hso : s.owner with
    | none => simp [step, hso] at ho'
    | some o =>
      obtain ⟨ini, pre, hacq⟩ := h o hso
      simp only [step, hso, Option.some.injEq] at ho' ⊢
      subst ho'
      exact ⟨ini, pre, hacq⟩
  | cleanupSignal => intro o ho; exact h o (by simpa [step] using ho)
  | join => intro o ho; exact h o (by simpa [step] using ho)
  | bTop => intro o ho; simp only [step] at ho ⊢; split at ho <;> split <;> simp_all
  | bWake t => intro o ho; simp only [step] at ho ⊢; (repeat' split at ho) <;> (repeat' split) <;> simp_all
  | bGrab => intro o ho; simp only [step] at ho ⊢; (repeat' split at ho) <;> (repeat' split) <;> simp_all
  | bPop => intro o ho; simp only [step] at ho ⊢; (repeat' split at ho) <;> (repeat' split) <;> simp_all
  | bCbRet => intro o ho; simp only [step] at ho ⊢; (repeat' split at ho) <;> (repeat' split) <;> simp_all
  | bPushFree => intro o ho; simp only [step] at ho ⊢; (repeat' split at ho) <;> (repeat' split) <;> simp_all

/-- the invariants that survive allocation failures (per-thread program order is replaced by `LastInv`: an aborted
append is recorded with its written prefix, so `acq` is no longer the plain program) -/
structure XInv (s : State) : Prop where
  cfgOk : s.cfg.ok = true
  shape : Shape s
  acc : Acc s
  stream : StreamInv s
  blocks : Blocks s
  flush : Flush s
  last : LastInv s

theorem allocFail_xinv (s : State) (hv : allocFailValid s = true) (h : XInv s) : XInv (allocFailStep true s) := by
  unfold allocFailValid at hv
  cases ho : s.owner with
  | none => simp [ho] at hv
  | some o =>
    simp only [ho, Bool.and_eq_true, Bool.not_eq_true', Option.isNone_iff_eq_none, beq_iff_eq, decide_eq_true_eq,
      List.isEmpty_eq_false_iff] at hv
    obtain ⟨⟨⟨⟨hb, hr⟩, hc⟩, hf⟩, hn⟩ := hv
    obtain ⟨ini, pre, hacq⟩ := h.last o ho
    have hcut : cutLast s.acq o.remain.length = ini ++ [(o.tid, pre)] := by rw [hacq]; exact cutLast_snoc ini o.tid pre o.remain
    simp only [allocFailStep, ho]
    refine ⟨h.cfgOk, ?_, ?_, ?_, ?_, ?_, ?_⟩
    · obtain ⟨h1, h2, h3, h4, h5⟩ := h.shape
      exact ⟨by intro o' ho'; simp at ho', h2, h3, h4, by intro o' ho'; simp at ho'⟩
    · obtain ⟨h1, h2, h3⟩ := h.acc
      exact ⟨by simpa using h1, by simpa using h2, by simpa using h3⟩
    · have hs := h.stream
      unfold StreamInv written appended at hs ⊢
      simp only [ho, remainOf, hacq, List.map_append, List.map_cons, List.map_nil, List.flatten_append, List.flatten_cons,
        List.flatten_nil, List.append_nil] at hs
      simp only [remainOf, hcut, List.map_append, List.map_cons, List.map_nil, List.flatten_append, List.flatten_cons,
        List.flatten_nil, List.append_nil]
      have : (s.delivered.flatten ++ s.full.flatten ++ currOf s.curr) ++ o.remain = ((ini.map (·.2)).flatten ++ pre) ++ o.remain := by
        simpa [List.append_assoc] using hs
      exact List.append_cancel_right this
    · obtain ⟨h1, h2, h3, h4, h5⟩ := h.blocks
      exact ⟨h1, h2, h3, by intro hx; simp [hc] at hx, by intro o' ho'; simp at ho'⟩
    · obtain ⟨h1, h2, h3⟩ := h.flush
      refine ⟨by intro _ _; rfl, ?_, ?_⟩
      · intro hl hp; simp only [Bool.or_eq_false_iff] at hl; exact h2 hl.1 hp
      · intro hl hp; simp only [Bool.or_eq_false_iff] at hl; exact h3 hl.1 hp
    · intro o' ho'; simp at ho'

theorem xstep_xinv (s : State) (st : XStep) (hv : xvalid s st = true) (h : XInv s) : XInv (xstep true s st) := by
  cases st with
  | allocFail => exact allocFail_xinv s hv h
  | base st =>
    have hc := (Cfg.ok_iff s.cfg).mp h.cfgOk
    simp only [xvalid] at hv
    exact ⟨by simp only [xstep]; rw [step_cfg]; exact h.cfgOk, step_shape s st hv h.shape, step_acc s st hv h.shape h.acc,
      step_stream s st hv h.shape h.stream, step_blocks s st hv hc.1 h.blocks, step_flush s st hv h.shape h.flush,
      step_last s st hv h.last⟩

theorem xexec_xinv (sts : List XStep) : ∀ (s s' : State), XInv s → xexec true s sts = some s' → XInv s' := by
  induction sts with
  | nil => intro s s' h he; simp [xexec] at he; subst he; exact h
  | cons st sts ih =>
    intro s s' h he
    simp only [xexec] at he
    split at he
    · rename_i hv; exact ih _ _ (xstep_xinv s st hv h) he
    · cases he

theorem init_xinv (cfg : Cfg) (prog) (h : cfg.ok = true) : XInv (init cfg prog) := by
  have hi := init_inv cfg prog h
  exact ⟨hi.cfgOk, hi.shape, hi.acc, hi.stream, hi.blocks, hi.flush, by intro o ho; simp [init] at ho⟩

/-- every state satisfying the fault-tolerant invariants satisfies the full bundle for the program read off the state itself
(so the progress lemmas of Progress.lean apply after any number of allocation failures) -/
theorem XInv.toInv {s : State} (h : XInv s) :
    Inv (fun p => ((s.acq.filter (fun a => a.1 == p)).map (·.2)) ++ s.prog p) s :=
  ⟨h.cfgOk, h.shape, h.acc, h.stream, h.blocks, h.flush, fun _ => rfl⟩

theorem xstep_cfg (fixed : Bool) (s : State) (st : XStep) : (xstep fixed s st).cfg = s.cfg := by
  cases st with
  | base st => exact step_cfg s st
  | allocFail => simp only [xstep, allocFailStep]; split <;> rfl

theorem xexec_cfg (fixed : Bool) (sts : List XStep) : ∀ (s s' : State), xexec fixed s sts = some s' → s'.cfg = s.cfg := by
  induction sts with
  | nil => intro s s' he; simp [xexec] at he; subst he; rfl
  | cons st sts ih =>
    intro s s' he
    simp only [xexec] at he
    split at he
    · rw [ih _ _ he, xstep_cfg]
    · cases he

/-- no buffer exists anywhere and a producer waits for one: the back end can run for ever, it never frees a buffer -/
def Dead (s : State) : Prop :=
  s.free = 0 ∧ s.full = [] ∧ s.curr = none ∧ inflight s.bpc = 0 ∧ ∃ o, s.owner = some o ∧ o.blocked = true

theorem dead_stays (s : State) (st : Step) (hb : st.isBackend = true) (h : Dead s) : Dead (step s st) := by
  obtain ⟨h1, h2, h3, h4, o, ho, hbk⟩ := h
  cases st <;> simp only [Step.isBackend] at hb <;> try (exact absurd hb (by decide))
  all_goals (simp only [step]; (repeat' split) <;> simp_all [Dead, inflight])

theorem dead_forever (bs : List Step) : ∀ (s s' : State), (∀ st ∈ bs, st.isBackend = true) → Dead s → exec s bs = some s' →
    Dead s' ∧ valid s' .pWake = false := by
  induction bs with
  | nil =>
    intro s s' _ h he
    simp [exec] at he; subst he
    obtain ⟨h1, _, _, _, o, ho, hbk⟩ := h
    exact ⟨⟨h1, ‹_›, ‹_›, ‹_›, o, ho, hbk⟩, by simp [valid, ho, h1]⟩
  | cons st bs ih =>
    intro s s' hall h he
    simp only [exec] at he
    split at he
    · exact ih _ _ (fun x hx => hall x (by simp [hx])) (dead_stays s st (hall st (by simp)) h) he
    · cases he

/-! ### (2) the API around a lifecycle -/

inductive InitResult where
  | ok          -- returned true, back-end thread started
  | refused     -- returned false, object untouched
  | terminated  -- std::terminate (destructor of a joinable std::thread) — code as found, second initialize
  | threw       -- std::system_error / std::bad_alloc reached the caller
deriving Repr, DecidableEq

inductive InitFault where
  | none
  | thread            -- pthread_create fails (EAGAIN)
  | alloc (k : Nat)   -- the k-th of the buff_min_num buffer allocations fails
deriving Repr, DecidableEq

structure Obj where
  inited : Bool := false
  cb : Bool := false         -- a sink callback is installed
  stranded : Nat := 0        -- buffers left in free_buffers_ by an initialize() that threw (never counted in buff_num_)
  life : Option State := none

/-- state of a lifecycle started on an object that carries `extra` stranded buffers -/
def initOn (extra : Nat) (cfg : Cfg) (prog : Nat → List (List UInt8)) : State :=
  { init cfg prog with free := cfg.minN + extra }

/-- `AsyncPipe::Impl::initialize`.  `fixed = false`: the code as found has no `inited_` check. -/
def Obj.initialize (fixed : Bool) (o : Obj) (cfg : Cfg) (prog : Nat → List (List UInt8)) (f : InitFault) : Obj × InitResult :=
  if fixed && o.inited then (o, .refused)
  else if !cfg.ok then (o, .refused)
  else if o.inited then (o, .terminated)
  else match f with
    | .alloc k =>
      if 1 ≤ k ∧ k ≤ cfg.minN then ({ o with stranded := o.stranded + (k - 1) }, .threw)
      else ({ o with inited := true, life := some (initOn o.stranded cfg prog) }, .ok)
    | .thread => ({ o with stranded := o.stranded + cfg.minN }, .threw)
    | .none => ({ o with inited := true, life := some (initOn o.stranded cfg prog) }, .ok)

def Obj.setCallback (o : Obj) (b : Bool) : Obj := { o with cb := b }

/-- `cleanup()` after the lifecycle has run to `join`: no-op when not initialised; otherwise every buffer (also the stranded
ones, they sit in free_buffers_) is deleted, the callback is reset, the object can be initialised again -/
def Obj.cleanup (o : Obj) : Obj :=
  if o.inited then { inited := false, cb := false, stranded := 0, life := none } else o

/-- `~AsyncPipe` → `~Impl` → `cleanup()` -/
def Obj.destroy (o : Obj) : Obj := o.cleanup

/-! ### (3) `appendLockless` without `appendLock` -/

/-- shared state of two callers running the append loop with no mutual exclusion, at the granularity of one loop iteration
(the races INSIDE an iteration — `size_` and `curr_buffer_` themselves — are ignored: already this is broken) -/
structure NL where
  curr : List UInt8 := []
  out : List (List UInt8) := []
  rem : Nat → List UInt8

def nlStep (size : Nat) (s : NL) (p : Nat) : NL :=
  let r := s.rem p
  let n := min r.length (size - s.curr.length)
  let c := s.curr ++ r.take n
  let rem' := fun q => if q = p then r.drop n else s.rem q
  if c.length == size then { curr := [], out := s.out ++ [c], rem := rem' } else { curr := c, out := s.out, rem := rem' }

def nlRun (size : Nat) (s : NL) (ps : List Nat) : NL := ps.foldl (nlStep size) s

end Tbox.C10
