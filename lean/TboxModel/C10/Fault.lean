/-
C10 — fault schedules and the object-level API of `tbox::util::AsyncPipe` (round 5).

(1) Allocation failure while the pool grows from `buff_min_num` to `buff_max_num`
    (`free_buffers_.push_back(new Buffer(cfg_.buff_size))` in `appendLockless`, async_pipe.cpp l.262-266):
    `new` throws `std::bad_alloc`, the exception leaves `append` (both lock guards release), the caller is told.
    `XStep.allocFail` is that event, enabled exactly where `pTake` would allocate; the kernel/allocator's answer is an
    oracle input: executions are lists of `XStep`, failures may occur at ANY enabled point, any number of times.
    `fixed = false` is the code as found (`++buff_num_` BEFORE the allocation: the counter keeps a buffer that never
    existed), `fixed = true` the repaired order (count after the allocation succeeded).
    Ghost: the aborted append stays in `acq` with exactly the prefix it wrote (`cutLast`).
(2) The API around a lifecycle: `initialize` (validation, second call, thread-creation / allocation failure),
    `setCallback`, `cleanup` (idempotent, no-op when not initialised), destructor = cleanup.
(3) `appendLockless` without `appendLock`: a two-caller model without mutual exclusion (counterexample only).
-/
import TboxModel.C10.Progress
import TboxModel.C10.Spec
import TboxModel.C10.XModel
namespace Tbox.C10

/-- the append in flight is the last one acquired, and what it still has to write is a suffix of it -/
def LastInv (s : State) : Prop :=
  ∀ o, s.owner = some o → ∃ ini pre, s.acq = ini ++ [(o.tid, pre ++ o.remain)]

theorem cutLast_snoc (ini : List (Nat × List UInt8)) (p : Nat) (pre rem : List UInt8) :
    cutLast (ini ++ [(p, pre ++ rem)]) rem.length = ini ++ [(p, pre)] := by
  simp [cutLast]

theorem step_last (s : State) (st : Step) (hv : valid s st = true) (h : LastInv s) : LastInv (step s st) := by
  unfold LastInv at *
  cases st with
  | acquire p =>
    simp only [step]
    split
    · rename_i d rest hd
      intro o ho
      simp only [Option.some.injEq] at ho
      subst ho
      exact ⟨s.acq, [], by simp⟩
    · exact h
  | pWrite =>
    simp only [step]
    split
    · rename_i o b ho hc
      intro o' ho'
      rw [wc_owner] at ho'
      simp only [Option.some.injEq] at ho'
      subst ho'
      obtain ⟨ini, pre, hacq⟩ := h o ho
      refine ⟨ini, pre ++ o.remain.take (chunkLen { s with late := s.late || s.stop } o b), ?_⟩
      rw [wc_acq]
      simp only [hacq, List.append_assoc, List.take_append_drop]
    · exact h
  | release => intro o ho; simp [step] at ho
  | pTake =>
    intro o' ho'
    cases hso : s.owner with
    | none => simp [step, hso] at ho'
    | some o =>
      obtain ⟨ini, pre, hacq⟩ := h o hso
      by_cases h1 : 0 < s.free
      · simp [step, hso, h1] at ho' ⊢
        subst ho'; exact ⟨ini, pre, hacq⟩
      · by_cases h2 : s.buffNum < s.cfg.maxN
        · simp [step, hso, h1, h2] at ho' ⊢
          subst ho'; exact ⟨ini, pre, hacq⟩
        · simp [step, hso, h1, h2] at ho' ⊢
          subst ho'; exact ⟨ini, pre, hacq⟩
  | pWake =>
    intro o' ho'
    cases hso : s.owner with
    | none => simp [step, hso] at ho'
    | some o =>
      obtain ⟨ini, pre, hacq⟩ := h o hso
      simp only [step, hso, Option.some.injEq] at ho' ⊢
      subst ho'
      exact ⟨ini, pre, hacq⟩
  | cleanupSignal => intro o ho; exact h o (by simpa [step] using ho)
  | join => intro o ho; exact h o (by simpa [step] using ho)
  | bTop => intro o ho; simp only [step] at ho ⊢; split at ho <;> split <;> simp_all
  | bWake t => intro o ho; simp only [step] at ho ⊢; (repeat' split at ho) <;> (repeat' split) <;> simp_all
  | bGrab => intro o ho; simp only [step] at ho ⊢; (repeat' split at ho) <;> (repeat' split) <;> simp_all
  | bPop => intro o ho; simp only [step] at ho ⊢; (repeat' split at ho) <;> (repeat' split) <;> simp_all
  | bCbRet => intro o ho; simp only [step] at ho ⊢; (repeat' split at ho) <;> (repeat' split) <;> simp_all
  | bPushFree => intro o ho; simp only [step] at ho ⊢; (repeat' split at ho) <;> (repeat' split) <;> simp_all

/-- the invariants that survive allocation failures (per-thread program order is replaced by `LastInv`: an aborted
append is recorded with its written prefix, so `acq` is no longer the plain program) -/
structure XInv (s : State) : Prop where
  cfgOk : s.cfg.ok = true
  shape : Shape s
  acc : Acc s
  stream : StreamInv s
  blocks : Blocks s
  flush : Flush s
  last : LastInv s

theorem allocFail_xinv (s : State) (hv : allocFailValid s = true) (h : XInv s) : XInv (allocFailStep true s) := by
  unfold allocFailValid at hv
  cases ho : s.owner with
  | none => simp [ho] at hv
  | some o =>
    simp only [ho, Bool.and_eq_true, Bool.not_eq_true', Option.isNone_iff_eq_none, beq_iff_eq, decide_eq_true_eq,
      List.isEmpty_eq_false_iff] at hv
    obtain ⟨⟨⟨⟨hb, hr⟩, hc⟩, hf⟩, hn⟩ := hv
    obtain ⟨ini, pre, hacq⟩ := h.last o ho
    have hcut : cutLast s.acq o.remain.length = ini ++ [(o.tid, pre)] := by rw [hacq]; exact cutLast_snoc ini o.tid pre o.remain
    simp only [allocFailStep, ho]
    refine ⟨h.cfgOk, ?_, ?_, ?_, ?_, ?_, ?_⟩
    · obtain ⟨h1, h2, h3, h4, h5⟩ := h.shape
      exact ⟨by intro o' ho'; simp at ho', h2, h3, h4, by intro o' ho'; simp at ho'⟩
    · obtain ⟨h1, h2, h3⟩ := h.acc
      exact ⟨by simpa using h1, by simpa using h2, by simpa using h3⟩
    · have hs := h.stream
      unfold StreamInv written appended at hs ⊢
      simp only [ho, remainOf, hacq, List.map_append, List.map_cons, List.map_nil, List.flatten_append, List.flatten_cons,
        List.flatten_nil, List.append_nil] at hs
      simp only [remainOf, hcut, List.map_append, List.map_cons, List.map_nil, List.flatten_append, List.flatten_cons,
        List.flatten_nil, List.append_nil]
      have : (s.delivered.flatten ++ s.full.flatten ++ currOf s.curr) ++ o.remain = ((ini.map (·.2)).flatten ++ pre) ++ o.remain := by
        simpa [List.append_assoc] using hs
      exact List.append_cancel_right this
    · obtain ⟨h1, h2, h3, h4, h5⟩ := h.blocks
      exact ⟨h1, h2, h3, by intro hx; simp [hc] at hx, by intro o' ho'; simp at ho'⟩
    · obtain ⟨h1, h2, h3⟩ := h.flush
      refine ⟨by intro _ _; rfl, ?_, ?_⟩
      · intro hl hp; simp only [Bool.or_eq_false_iff] at hl; exact h2 hl.1 hp
      · intro hl hp; simp only [Bool.or_eq_false_iff] at hl; exact h3 hl.1 hp
    · intro o' ho'; simp at ho'

theorem xstep_xinv (s : State) (st : XStep) (hv : xvalid s st = true) (h : XInv s) : XInv (xstep true s st) := by
  cases st with
  | allocFail => exact allocFail_xinv s hv h
  | base st =>
    have hc := (Cfg.ok_iff s.cfg).mp h.cfgOk
    simp only [xvalid] at hv
    exact ⟨by simp only [xstep]; rw [step_cfg]; exact h.cfgOk, step_shape s st hv h.shape, step_acc s st hv h.shape h.acc,
      step_stream s st hv h.shape h.stream, step_blocks s st hv hc.1 h.blocks, step_flush s st hv h.shape h.flush,
      step_last s st hv h.last⟩

theorem xexec_xinv (sts : List XStep) : ∀ (s s' : State), XInv s → xexec true s sts = some s' → XInv s' := by
  induction sts with
  | nil => intro s s' h he; simp [xexec] at he; subst he; exact h
  | cons st sts ih =>
    intro s s' h he
    simp only [xexec] at he
    split at he
    · rename_i hv; exact ih _ _ (xstep_xinv s st hv h) he
    · cases he

theorem init_xinv (cfg : Cfg) (prog) (h : cfg.ok = true) : XInv (init cfg prog) := by
  have hi := init_inv cfg prog h
  exact ⟨hi.cfgOk, hi.shape, hi.acc, hi.stream, hi.blocks, hi.flush, by intro o ho; simp [init] at ho⟩

/-- every state satisfying the fault-tolerant invariants satisfies the full bundle for the program read off the state itself
(so the progress lemmas of Progress.lean apply after any number of allocation failures) -/
theorem XInv.toInv {s : State} (h : XInv s) :
    Inv (fun p => ((s.acq.filter (fun a => a.1 == p)).map (·.2)) ++ s.prog p) s :=
  ⟨h.cfgOk, h.shape, h.acc, h.stream, h.blocks, h.flush, fun _ => rfl⟩

theorem xstep_cfg (fixed : Bool) (s : State) (st : XStep) : (xstep fixed s st).cfg = s.cfg := by
  cases st with
  | base st => exact step_cfg s st
  | allocFail => simp only [xstep, allocFailStep]; split <;> rfl

theorem xexec_cfg (fixed : Bool) (sts : List XStep) : ∀ (s s' : State), xexec fixed s sts = some s' → s'.cfg = s.cfg := by
  induction sts with
  | nil => intro s s' he; simp [xexec] at he; subst he; rfl
  | cons st sts ih =>
    intro s s' he
    simp only [xexec] at he
    split at he
    · rw [ih _ _ he, xstep_cfg]
    · cases he

/-! ### per-thread order under allocation failure (round 6) -/

/-- `as` is `ds` in the same order, where an entry may be cut to a prefix (an append aborted by `bad_alloc` is recorded with
exactly the prefix it wrote; every other append is recorded whole — a list is a prefix of itself) -/
def CutsOf : List (List UInt8) → List (List UInt8) → Prop
  | [], [] => True
  | a :: as, d :: ds => a <+: d ∧ CutsOf as ds
  | _, _ => False

theorem cutsOf_snoc : ∀ (as ds : List (List UInt8)) (a d : List UInt8), CutsOf as ds → a <+: d → CutsOf (as ++ [a]) (ds ++ [d])
  | [], [], a, d, _, h => by simp [CutsOf, h]
  | [], _ :: _, _, _, h, _ => by simp [CutsOf] at h
  | _ :: _, [], _, _, h, _ => by simp [CutsOf] at h
  | x :: as, y :: ds, a, d, h, hp => by
    simp only [CutsOf, List.cons_append] at h ⊢
    exact ⟨h.1, cutsOf_snoc as ds a d h.2 hp⟩

theorem cutsOf_snoc_inv : ∀ (as orig : List (List UInt8)) (a : List UInt8), CutsOf (as ++ [a]) orig →
    ∃ ds d, orig = ds ++ [d] ∧ CutsOf as ds ∧ a <+: d
  | [], [], _, h => by simp [CutsOf] at h
  | [], [d], a, h => by simp only [List.nil_append, CutsOf] at h; exact ⟨[], d, rfl, by simp [CutsOf], h.1⟩
  | [], _ :: _ :: _, _, h => by simp [CutsOf] at h
  | _ :: _, [], _, h => by simp [CutsOf] at h
  | x :: as, y :: orig, a, h => by
    simp only [List.cons_append, CutsOf] at h
    obtain ⟨ds, d, h1, h2, h3⟩ := cutsOf_snoc_inv as orig a h.2
    exact ⟨y :: ds, d, by simp [h1], by simp [CutsOf, h.1, h2], h3⟩

/-- per-thread order with allocation failures: what thread `p` has had recorded so far is, in order, its program so far — each
append whole or (aborted) cut to a prefix — and what it still will append is the rest of its program -/
def XProgInv (prog0 : Nat → List (List UInt8)) (s : State) : Prop :=
  ∀ p, ∃ orig, orig ++ s.prog p = prog0 p ∧ CutsOf ((s.acq.filter (fun a => a.1 == p)).map (·.2)) orig

theorem cutsOf_refl : ∀ (l : List (List UInt8)), CutsOf l l
  | [] => by simp [CutsOf]
  | x :: l => by simp [CutsOf, cutsOf_refl l]

theorem step_xprog (prog0) (s : State) (st : Step) (h : XProgInv prog0 s) : XProgInv prog0 (step s st) := by
  cases st with
  | acquire q =>
    simp only [step]
    split
    · rename_i d rest hd
      intro p
      obtain ⟨orig, h1, h2⟩ := h p
      by_cases hp : p = q
      · subst hp
        refine ⟨orig ++ [d], by simp [← h1, hd], ?_⟩
        simp only [List.filter_append, List.filter_cons, List.filter_nil, beq_self_eq_true, if_true, List.map_append, List.map_cons, List.map_nil]
        exact cutsOf_snoc _ _ _ _ h2 (List.prefix_refl d)
      · have hqp : (q == p) = false := by simp [Ne.symm hp]
        refine ⟨orig, by simp [hp, h1], ?_⟩
        simpa [List.filter_append, hqp] using h2
    · exact h
  | pWrite =>
    simp only [step]; split
    · intro p; simpa using h p
    · exact h
  | _ => simp only [step] <;> (repeat' split) <;> exact h

theorem allocFail_xprog (prog0) (s : State) (hl : LastInv s) (h : XProgInv prog0 s) : XProgInv prog0 (allocFailStep true s) := by
  cases ho : s.owner with
  | none => simpa [allocFailStep, ho] using h
  | some o =>
    obtain ⟨ini, pre, hacq⟩ := hl o ho
    have hcut : cutLast s.acq o.remain.length = ini ++ [(o.tid, pre)] := by rw [hacq]; exact cutLast_snoc ini o.tid pre o.remain
    intro p
    obtain ⟨orig, h1, h2⟩ := h p
    simp only [allocFailStep, ho, hcut]
    refine ⟨orig, h1, ?_⟩
    rw [hacq] at h2
    by_cases hp : o.tid = p
    · subst hp
      simp only [List.filter_append, List.filter_cons, List.filter_nil, beq_self_eq_true, if_true, List.map_append, List.map_cons,
        List.map_nil] at h2 ⊢
      obtain ⟨ds, d, hd1, hd2, hd3⟩ := cutsOf_snoc_inv _ _ _ h2
      rw [hd1]
      exact cutsOf_snoc _ _ _ _ hd2 (List.IsPrefix.trans (List.prefix_append pre o.remain) hd3)
    · have hqp : (o.tid == p) = false := by simp [hp]
      simpa [List.filter_append, hqp] using h2

theorem xexec_xprog (prog0) (sts : List XStep) : ∀ (s s' : State), XInv s → XProgInv prog0 s → xexec true s sts = some s' →
    XProgInv prog0 s' := by
  induction sts with
  | nil => intro s s' _ h he; simp [xexec] at he; subst he; exact h
  | cons st sts ih =>
    intro s s' hi h he
    simp only [xexec] at he
    split at he
    · rename_i hv
      refine ih _ _ (xstep_xinv s st hv hi) ?_ he
      cases st with
      | base b => exact step_xprog prog0 s b h
      | allocFail => exact allocFail_xprog prog0 s hi.last h
    · cases he

/-! ### the same with a global ghost: how many recorded appends are cut (round 6) -/

/-- `acq` against the list `O` of the same appends UNCUT: same threads in the same order, each recorded append a prefix of the original -/
def Cuts2 : List (Nat × List UInt8) → List (Nat × List UInt8) → Prop
  | [], [] => True
  | a :: as, o :: os => a.1 = o.1 ∧ a.2 <+: o.2 ∧ Cuts2 as os
  | _, _ => False

/-- number of entries that really are cut -/
def nCut : List (Nat × List UInt8) → List (Nat × List UInt8) → Nat
  | a :: as, o :: os => (if a.2 = o.2 then 0 else 1) + nCut as os
  | _, _ => 0

theorem cuts2_snoc : ∀ (as os : List (Nat × List UInt8)) (a o : Nat × List UInt8), Cuts2 as os → a.1 = o.1 → a.2 <+: o.2 →
    Cuts2 (as ++ [a]) (os ++ [o]) ∧ nCut (as ++ [a]) (os ++ [o]) = nCut as os + (if a.2 = o.2 then 0 else 1)
  | [], [], a, o, _, h1, h2 => by simp [Cuts2, nCut, h1, h2]
  | [], _ :: _, _, _, h, _, _ => by simp [Cuts2] at h
  | _ :: _, [], _, _, h, _, _ => by simp [Cuts2] at h
  | x :: as, y :: os, a, o, h, h1, h2 => by
    simp only [Cuts2, List.cons_append, nCut] at h ⊢
    obtain ⟨ih1, ih2⟩ := cuts2_snoc as os a o h.2.2 h1 h2
    exact ⟨⟨h.1, h.2.1, ih1⟩, by rw [ih2]; omega⟩

theorem cuts2_snoc_inv : ∀ (as O : List (Nat × List UInt8)) (a : Nat × List UInt8), Cuts2 (as ++ [a]) O →
    ∃ os o, O = os ++ [o] ∧ Cuts2 as os ∧ a.1 = o.1 ∧ a.2 <+: o.2
  | [], [], _, h => by simp [Cuts2] at h
  | [], [o], a, h => by simp only [List.nil_append, Cuts2] at h; exact ⟨[], o, rfl, by simp [Cuts2], h.1, h.2.1⟩
  | [], _ :: _ :: _, _, h => by simp [Cuts2] at h
  | _ :: _, [], _, h => by simp [Cuts2] at h
  | x :: as, y :: O, a, h => by
    simp only [List.cons_append, Cuts2] at h
    obtain ⟨os, o, h1, h2, h3, h4⟩ := cuts2_snoc_inv as O a h.2.2
    exact ⟨y :: os, o, by simp [h1], by simp [Cuts2, h.1, h.2.1, h2], h3, h4⟩

/-- the fault-tolerant order invariant with a global ghost: `O` = the appends acquired so far, uncut.  `O` obeys the plain
per-thread order invariant, `acq` is `O` with at most `n` entries cut -/
def XOrd (prog0 : Nat → List (List UInt8)) (s : State) (n : Nat) : Prop :=
  ∃ O, (∀ p, ((O.filter (fun a => a.1 == p)).map (·.2)) ++ s.prog p = prog0 p) ∧ Cuts2 s.acq O ∧ nCut s.acq O ≤ n

theorem step_xord (prog0) (s : State) (st : Step) (n : Nat) (h : XOrd prog0 s n) : XOrd prog0 (step s st) n := by
  cases st with
  | acquire q =>
    simp only [step]
    split
    · rename_i d rest hd
      obtain ⟨O, h1, h2, h3⟩ := h
      obtain ⟨c1, c2⟩ := cuts2_snoc s.acq O (q, d) (q, d) h2 rfl (List.prefix_refl d)
      refine ⟨O ++ [(q, d)], ?_, c1, by rw [c2]; simpa using h3⟩
      intro p
      have := h1 p
      by_cases hp : p = q
      · subst hp; simp [List.filter_append, hd] at this ⊢; exact this
      · have hqp : (q == p) = false := by simp [Ne.symm hp]
        simp [List.filter_append, hp, hqp] at this ⊢; exact this
    · exact h
  | pWrite =>
    simp only [step]; split
    · obtain ⟨O, h1, h2, h3⟩ := h
      exact ⟨O, by intro p; simpa using h1 p, by simpa using h2, by simpa using h3⟩
    · exact h
  | _ => simp only [step] <;> (repeat' split) <;> exact h

theorem allocFail_xord (prog0) (s : State) (n : Nat) (hl : LastInv s) (h : XOrd prog0 s n) :
    XOrd prog0 (allocFailStep true s) (n + 1) := by
  cases ho : s.owner with
  | none =>
    obtain ⟨O, h1, h2, h3⟩ := h
    exact ⟨O, by simpa [allocFailStep, ho] using h1, by simpa [allocFailStep, ho] using h2, by simp only [allocFailStep, ho]; omega⟩
  | some o =>
    obtain ⟨ini, pre, hacq⟩ := hl o ho
    have hcut : cutLast s.acq o.remain.length = ini ++ [(o.tid, pre)] := by rw [hacq]; exact cutLast_snoc ini o.tid pre o.remain
    obtain ⟨O, h1, h2, h3⟩ := h
    rw [hacq] at h2 h3
    obtain ⟨os, ol, hO, hc, ht, hp⟩ := cuts2_snoc_inv _ _ _ h2
    subst hO
    have hp' : pre <+: ol.2 := List.IsPrefix.trans (List.prefix_append pre o.remain) hp
    obtain ⟨c1, c2⟩ := cuts2_snoc ini os (o.tid, pre) ol hc ht hp'
    obtain ⟨_, c3⟩ := cuts2_snoc ini os (o.tid, pre ++ o.remain) ol hc ht hp
    refine ⟨os ++ [ol], by simpa [allocFailStep, ho] using h1, by simp only [allocFailStep, ho, hcut]; exact c1, ?_⟩
    simp only [allocFailStep, ho, hcut]
    rw [c2]; rw [c3] at h3
    split <;> split at h3 <;> omega

def nFail (xs : List XStep) : Nat := (xs.filter (· == XStep.allocFail)).length

theorem xexec_xord (prog0) (sts : List XStep) : ∀ (s s' : State) (n : Nat), XInv s → XOrd prog0 s n → xexec true s sts = some s' →
    XOrd prog0 s' (n + nFail sts) := by
  induction sts with
  | nil => intro s s' n _ h he; simp [xexec] at he; subst he; simpa [nFail] using h
  | cons st sts ih =>
    intro s s' n hi h he
    simp only [xexec] at he
    split at he
    · rename_i hv
      cases st with
      | base b =>
        have := ih _ _ n (xstep_xinv s (.base b) hv hi) (step_xord prog0 s b n h) he
        simpa [nFail, List.filter_cons] using this
      | allocFail =>
        have := ih _ _ (n + 1) (xstep_xinv s .allocFail hv hi) (allocFail_xord prog0 s n hi.last h) he
        simp only [nFail, List.filter_cons, beq_self_eq_true, if_true, List.length_cons] at this ⊢
        have e : n + 1 + (List.filter (fun x => x == XStep.allocFail) sts).length = n + ((List.filter (fun x => x == XStep.allocFail) sts).length + 1) := by omega
        rw [← e]; exact this
    · cases he

theorem cuts2_eq_of_nCut_zero : ∀ (as os : List (Nat × List UInt8)), Cuts2 as os → nCut as os = 0 → as = os
  | [], [], _, _ => rfl
  | [], _ :: _, h, _ => by simp [Cuts2] at h
  | _ :: _, [], h, _ => by simp [Cuts2] at h
  | a :: as, o :: os, h, hn => by
    simp only [Cuts2, nCut] at h hn
    have h2 : a.2 = o.2 := by
      by_cases e : a.2 = o.2
      · exact e
      · simp [e] at hn
    have hr : nCut as os = 0 := by simpa [h2] using hn
    have hao : a = o := Prod.ext h.1 h2
    rw [cuts2_eq_of_nCut_zero as os h.2.2 hr, hao]

/-- no buffer exists anywhere and a producer waits for one: the back end can run for ever, it never frees a buffer -/
def Dead (s : State) : Prop :=
  s.free = 0 ∧ s.full = [] ∧ s.curr = none ∧ inflight s.bpc = 0 ∧ ∃ o, s.owner = some o ∧ o.blocked = true

theorem dead_stays (s : State) (st : Step) (hb : st.isBackend = true) (h : Dead s) : Dead (step s st) := by
  obtain ⟨h1, h2, h3, h4, o, ho, hbk⟩ := h
  cases st <;> simp only [Step.isBackend] at hb <;> try (exact absurd hb (by decide))
  all_goals (simp only [step]; (repeat' split) <;> simp_all [Dead, inflight])

theorem dead_forever (bs : List Step) : ∀ (s s' : State), (∀ st ∈ bs, st.isBackend = true) → Dead s → exec s bs = some s' →
    Dead s' ∧ valid s' .pWake = false := by
  induction bs with
  | nil =>
    intro s s' _ h he
    simp [exec] at he; subst he
    obtain ⟨h1, _, _, _, o, ho, hbk⟩ := h
    exact ⟨⟨h1, ‹_›, ‹_›, ‹_›, o, ho, hbk⟩, by simp [valid, ho, h1]⟩
  | cons st bs ih =>
    intro s s' hall h he
    simp only [exec] at he
    split at he
    · exact ih _ _ (fun x hx => hall x (by simp [hx])) (dead_stays s st (hall st (by simp)) h) he
    · cases he

/-! ### (2) the API around a lifecycle -/

inductive InitResult where
  | ok          -- returned true, back-end thread started
  | refused     -- returned false, object untouched
  | terminated  -- std::terminate (destructor of a joinable std::thread) — code as found, second initialize
  | threw       -- std::system_error / std::bad_alloc reached the caller
deriving Repr, DecidableEq

inductive InitFault where
  | none
  | thread            -- pthread_create fails (EAGAIN)
  | alloc (k : Nat)   -- the k-th of the buff_min_num buffer allocations fails
deriving Repr, DecidableEq

structure Obj where
  inited : Bool := false
  cb : Bool := false         -- a sink callback is installed
  stranded : Nat := 0        -- buffers left in free_buffers_ by an initialize() that threw (never counted in buff_num_)
  life : Option State := none

/-- `AsyncPipe::Impl::initialize`.  `fixed = false`: the code as found has no `inited_` check. -/
def Obj.initialize (fixed : Bool) (o : Obj) (cfg : Cfg) (prog : Nat → List (List UInt8)) (f : InitFault) : Obj × InitResult :=
  if fixed && o.inited then (o, .refused)
  else if !cfg.ok then (o, .refused)
  else if o.inited then (o, .terminated)
  else match f with
    | .alloc k =>
      if 1 ≤ k ∧ k ≤ cfg.minN then ({ o with stranded := o.stranded + (k - 1) }, .threw)
      else ({ o with inited := true, life := some (initOn o.stranded cfg prog) }, .ok)
    | .thread => ({ o with stranded := o.stranded + cfg.minN }, .threw)
    | .none => ({ o with inited := true, life := some (initOn o.stranded cfg prog) }, .ok)

def Obj.setCallback (o : Obj) (b : Bool) : Obj := { o with cb := b }

/-- `cleanup()` after the lifecycle has run to `join`: no-op when not initialised; otherwise every buffer (also the stranded
ones, they sit in free_buffers_) is deleted, the callback is reset, the object can be initialised again -/
def Obj.cleanup (o : Obj) : Obj :=
  if o.inited then { inited := false, cb := false, stranded := 0, life := none } else o

/-- `~AsyncPipe` → `~Impl` → `cleanup()` -/
def Obj.destroy (o : Obj) : Obj := o.cleanup

/-! ### (3) `appendLockless` without `appendLock` -/

/-- shared state of two callers running the append loop with no mutual exclusion, at the granularity of one loop iteration
(the races INSIDE an iteration — `size_` and `curr_buffer_` themselves — are ignored: already this is broken) -/
structure NL where
  curr : List UInt8 := []
  out : List (List UInt8) := []
  rem : Nat → List UInt8

def nlStep (size : Nat) (s : NL) (p : Nat) : NL :=
  let r := s.rem p
  let n := min r.length (size - s.curr.length)
  let c := s.curr ++ r.take n
  let rem' := fun q => if q = p then r.drop n else s.rem q
  if c.length == size then { curr := [], out := s.out ++ [c], rem := rem' } else { curr := c, out := s.out, rem := rem' }

def nlRun (size : Nat) (s : NL) (ps : List Nat) : NL := ps.foldl (nlStep size) s

end Tbox.C10
