/- C10 — lock discipline of the model: Eraser-style lockset criterion + honest footprints. -/
import TboxModel.C10.Proofs
namespace Tbox.C10

set_option linter.unusedSimpArgs false in
theorem lockset (s1 s2 : State) (st1 st2 : Step) (f : Field)
    (h1 : f ∈ touches s1 st1) (h2 : f ∈ touches s2 st2) :
    (st1.thread = .backend ∧ st2.thread = .backend) ∨ (st1.thread = .main ∧ st2.thread = .main) ∨
    ∃ l, l ∈ held true s1 st1 ∧ l ∈ held true s2 st2 := by
  cases f <;> cases st1 <;> simp only [touches, held, Step.thread] at h1 ⊢ <;>
    (try (simp at h1; done)) <;>
    (cases st2 <;> simp only [touches] at h2 <;> simp only [held, Step.thread] at * <;> (try (simp at h2; done))) <;>
    (repeat' split at h1) <;> (try (simp at h1; done)) <;>
    (repeat' split at h2) <;> (try (simp at h2; done)) <;>
    simp_all

theorem fills_iff (s : State) (o : Owner) (b : Buf) (ho : s.owner = some o) (hc : s.curr = some b) :
    fills s = true ↔ (chunkBuf s o b).length = s.cfg.size := by
  simp [fills, ho, hc, chunkBuf_len]

theorem footprint (s : State) (st : Step) :
    (Field.curr ∉ touches s st → (step s st).curr = s.curr) ∧
    (Field.full ∉ touches s st → (step s st).full = s.full) ∧
    (Field.free ∉ touches s st → (step s st).free = s.free) ∧
    (Field.buffNum ∉ touches s st → (step s st).buffNum = s.buffNum) ∧
    (Field.stop ∉ touches s st → (step s st).stop = s.stop) := by
  cases st with
  | pWrite =>
    cases ho : s.owner with
    | none => simp [step, ho]
    | some o =>
      cases hc : s.curr with
      | none => simp [step, ho, hc]
      | some b =>
        have hfi := fills_iff s o b ho hc
        have hstep : step s .pWrite = writeChunk { s with late := s.late || s.stop } o b := by
          simp [step, ho, hc]
        rw [hstep]
        simp only [touches]
        rcases wc_cases { s with late := s.late || s.stop } o b with ⟨hf, hcu, hlen⟩ | ⟨hf, hcu, hlen⟩
        · have : fills s = true := hfi.mpr hlen
          simp [this]
        · have : fills s = false := by
            cases h : fills s
            · rfl
            · exact absurd (hfi.mp h) hlen
          simp [this, hf]
  | _ =>
    simp only [step, touches] <;> (repeat' split) <;> simp_all

end Tbox.C10
