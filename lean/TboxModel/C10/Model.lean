/-
C10 — interleaving model of `tbox::util::AsyncPipe` (modules/util/async_pipe.{h,cpp}).

Threads: any number of producers (calling `append`), ONE back-end thread (`threadFunc`), and
the thread calling `cleanup()`.  A `Step` is one atomic region of the code — a stretch that
runs under one of the four mutexes, plus thread-local work adjacent to it (Lipton
reduction: work on data only the running thread can reach commutes with everything else):

  producer  `acquire p`   curr_buffer_mutex_ taken by thread p for its next append (l.232/238)
            `pTake`       the `if (curr_buffer_ == nullptr)` block under free_buffers_mutex_
                          (+ nested buff_num_mutex_): take a free buffer, or allocate one while
                          buff_num_ < max, or block on free_buffers_cv_ (l.252-274)
            `pWake`       free_buffers_cv_.wait returns (predicate `!free_buffers_.empty()`)
            `pWrite`      Buffer::append into curr_buffer_ and, when it became full, the
                          hand-over under full_buffers_mutex_ (l.275-284)
            `release`     the producer mutex is released (remain_size == 0)
  back end  `bTop`        top of the outer loop: lock full_buffers_mutex_, test empty (l.296-297)
            `bWake t`     one evaluation of the wait_for predicate (t = the wait timed out)
            `bGrab`       the timed/quit hand-over of the partial buffer, only if
                          curr_buffer_mutex_.try_lock() succeeds (l.317-328)
            `bPop`        pop the front of full_buffers_ and enter the sink callback, or leave
                          the inner loop (l.331-347)
            `bCbRet`      callback returns, reset, the buff_num_ decision (l.348-356)
            `bPushFree`   buffer goes back to free_buffers_ + notify (l.358-360)
  cleanup   `cleanupSignal` stop_signal_ = true (+ notify_all), `join` backend_thread_.join()

The wait for `full_buffers_cv_` is modelled as "any number of predicate evaluations, each
may or may not be a time-out": notifications only make evaluations happen earlier, so every
real schedule is a schedule of the model whether or not a notification is lost.
Buffers are byte lists (capacity = cfg.size); free buffers are all empty, so `free` is a count.
`appendLock(); appendLockless()…; appendUnlock()` is one `acquire … release` whose data is the
concatenation of the lockless appends.  Re-entrant use (the sink callback appends to the same pipe) is
`acquire sinkTid` while the back end is inside the callback; the callback returns (`bCbRet`) only
after that nested append has released the producer lock.
Ghost fields (used by theorems only): `delivered`, `acq`, `active`, `late`.
-/
namespace Tbox.C10

abbrev Buf := List UInt8

structure Cfg where
  size     : Nat
  minN     : Nat
  maxN     : Nat
  interval : Nat
deriving Repr, DecidableEq

/-- the four checks of `AsyncPipe::Impl::initialize` -/
def Cfg.ok (c : Cfg) : Bool :=
  decide (1 ≤ c.size) && decide (1 ≤ c.minN) && decide (c.minN ≤ c.maxN) && decide (1 ≤ c.interval)

/-- the producer inside `append` (= holder of curr_buffer_mutex_) -/
structure Owner where
  tid     : Nat
  remain  : List UInt8          -- `ptr .. ptr+remain_size`
  blocked : Bool                -- inside free_buffers_cv_.wait
deriving Repr, DecidableEq

/-- program counter of the back-end thread; `quit` = is_wake_for_quit of the current round -/
inductive BPc where
  | top
  | waiting
  | woke (timeup quit : Bool)
  | drain (quit : Bool)
  | inCb (quit : Bool)
  | pushFree (quit : Bool)
  | exited
deriving Repr, DecidableEq

structure State where
  cfg       : Cfg
  prog      : Nat → List (List UInt8)      -- what each producer thread will still append, in order
  curr      : Option Buf := none           -- curr_buffer_
  full      : List Buf := []               -- full_buffers_ (front first)
  free      : Nat                          -- free_buffers_.size()
  buffNum   : Nat                          -- buff_num_
  stop      : Bool := false                -- stop_signal_
  owner     : Option Owner := none         -- curr_buffer_mutex_
  bpc       : BPc := .top
  joined    : Bool := false
  delivered : List Buf := []               -- ghost: blocks handed to the sink, oldest first
  acq       : List (Nat × List UInt8) := []  -- ghost: appends in producer-lock acquisition order
  active    : Nat := 0                     -- ghost: sink callbacks currently executing
  late      : Bool := false                -- ghost: a producer was inside / entered append after cleanup began

/-- state after a successful `initialize(cfg)` -/
def init (cfg : Cfg) (prog : Nat → List (List UInt8)) : State :=
  { cfg := cfg, prog := prog, free := cfg.minN, buffNum := cfg.minN }

inductive Step where
  | acquire (p : Nat)
  | pTake
  | pWake
  | pWrite
  | release
  | bTop
  | bWake (timeout : Bool)
  | bGrab
  | bPop
  | bCbRet
  | bPushFree
  | cleanupSignal
  | join
deriving Repr, DecidableEq

def Step.isProducer : Step → Bool
  | .acquire _ | .pTake | .pWake | .pWrite | .release => true
  | _ => false

def Step.isBackend : Step → Bool
  | .bTop | .bWake _ | .bGrab | .bPop | .bCbRet | .bPushFree => true
  | _ => false

/-- pseudo producer id of the sink callback: an `append` made from INSIDE the sink callback (re-entrant use:
an ack / echo, a logger whose sink logs) is an ordinary append executed by the back-end thread, which
for its duration is one more producer — `acquire sinkTid … release` while the pc is `inCb` -/
def sinkTid : Nat := 8

def BPc.isInCb : BPc → Bool
  | .inCb _ => true
  | _ => false

/-- is the step enabled? -/
def valid (s : State) : Step → Bool
  | .acquire p => s.owner.isNone && !(s.prog p).isEmpty && !s.joined && (p != sinkTid || s.bpc.isInCb)
  | .pTake => match s.owner with
      | some o => !o.blocked && !o.remain.isEmpty && s.curr.isNone
      | none => false
  | .pWake => match s.owner with
      | some o => o.blocked && decide (0 < s.free)
      | none => false
  | .pWrite => match s.owner with
      | some o => !o.blocked && !o.remain.isEmpty && s.curr.isSome
      | none => false
  | .release => match s.owner with
      | some o => !o.blocked && o.remain.isEmpty
      | none => false
  | .bTop => s.bpc == .top
  | .bWake _ => s.bpc == .waiting
  | .bGrab => match s.bpc with | .woke _ _ => true | _ => false
  | .bPop => match s.bpc with | .drain _ => true | _ => false
  | .bCbRet => match s.bpc with      -- the callback returns only after its nested append (if any) has returned
      | .inCb _ => (match s.owner with | some o => o.tid != sinkTid | none => true)
      | _ => false
  | .bPushFree => match s.bpc with | .pushFree _ => true | _ => false
  | .cleanupSignal => !s.stop
  | .join => s.stop && s.bpc == .exited && !s.joined

/-- `Buffer::append` + the `full()` hand-over of one loop iteration -/
def writeChunk (s : State) (o : Owner) (b : Buf) : State :=
  let n := min o.remain.length (s.cfg.size - b.length)
  let b' := b ++ o.remain.take n
  let o' := { o with remain := o.remain.drop n }
  if b'.length == s.cfg.size then
    { s with full := s.full ++ [b'], curr := none, owner := some o' }
  else
    { s with curr := some b', owner := some o' }

def step (s : State) : Step → State
  | .acquire p =>
      match s.prog p with
      | d :: rest =>
          { s with owner := some { tid := p, remain := d, blocked := false },
                   prog := fun q => if q = p then rest else s.prog q,
                   acq := s.acq ++ [(p, d)], late := s.late || s.stop }
      | [] => s
  | .pTake =>
      match s.owner with
      | some o =>
          let s := { s with late := s.late || s.stop }
          if 0 < s.free then { s with curr := some [], free := s.free - 1 }
          else if s.buffNum < s.cfg.maxN then { s with buffNum := s.buffNum + 1, curr := some [] }
          else { s with owner := some { o with blocked := true } }
      | none => s
  | .pWake =>
      match s.owner with
      | some o => { s with curr := some [], free := s.free - 1, owner := some { o with blocked := false },
                           late := s.late || s.stop }
      | none => s
  | .pWrite =>
      match s.owner, s.curr with
      | some o, some b => writeChunk { s with late := s.late || s.stop } o b
      | _, _ => s
  | .release => { s with owner := none, late := s.late || s.stop }
  | .bTop => if s.full.isEmpty then { s with bpc := .waiting } else { s with bpc := .woke false false }
  | .bWake timeout =>
      if s.stop then { s with bpc := .woke false true }
      else if !s.full.isEmpty then { s with bpc := .woke false false }
      else if timeout then { s with bpc := .woke true false }
      else s
  | .bGrab =>
      match s.bpc with
      | .woke t q =>
          if (t || q) && s.owner.isNone then
            match s.curr with
            | some b => { s with full := s.full ++ [b], curr := none, bpc := .drain q }
            | none => { s with bpc := .drain q }
          else { s with bpc := .drain q }
      | _ => s
  | .bPop =>
      match s.bpc with
      | .drain q =>
          match s.full with
          | b :: rest => { s with full := rest, delivered := s.delivered ++ [b], active := s.active + 1, bpc := .inCb q }
          | [] => { s with bpc := if q then .exited else .top }
      | _ => s
  | .bCbRet =>
      match s.bpc with
      | .inCb q =>
          if s.cfg.minN < s.buffNum then { s with active := s.active - 1, buffNum := s.buffNum - 1, bpc := .drain q }
          else { s with active := s.active - 1, bpc := .pushFree q }
      | _ => s
  | .bPushFree =>
      match s.bpc with
      | .pushFree q => { s with free := s.free + 1, bpc := .drain q }
      | _ => s
  | .cleanupSignal => { s with stop := true, late := s.late || s.owner.isSome }
  | .join => { s with joined := true }

/-- the object state after the REST of `cleanup()` (after `join`: stop_signal_ = false, the current and
the free buffers deleted, free_buffers_ cleared — full_buffers_ is only *asserted* empty, never
cleared) followed by a new `initialize(cfg')` on the same object: the start of the next lifecycle.
(`cleanup()` also resets the callback, so `setCallback` must be called again.) -/
def reinit (s : State) (cfg' : Cfg) (prog' : Nat → List (List UInt8)) : State :=
  { cfg := cfg', prog := prog', curr := none, full := s.full, free := cfg'.minN, buffNum := cfg'.minN,
    stop := false, owner := s.owner, bpc := .top, joined := false }

/-- run a step list (= one interleaving); `none` as soon as a step is not enabled -/
def exec (s : State) : List Step → Option State
  | [] => some s
  | st :: sts => if valid s st then exec (step s st) sts else none

/-- the step the back-end thread takes next (its code is sequential; when it waits, the
time-out is what is guaranteed to come) -/
def beNext (s : State) : Option Step :=
  match s.bpc with
  | .top => some .bTop
  | .waiting => some (.bWake true)
  | .woke _ _ => some .bGrab
  | .drain _ => some .bPop
  | .inCb _ => some .bCbRet
  | .pushFree _ => some .bPushFree
  | .exited => none

/-! ### lock discipline annotations -/

inductive Lock where | currM | fullM | freeM | bnM
deriving Repr, DecidableEq

inductive Field where | curr | full | free | buffNum | stop
deriving Repr, DecidableEq

inductive Thread where | producer | backend | main
deriving Repr, DecidableEq

def Step.thread : Step → Thread
  | .acquire _ | .pTake | .pWake | .pWrite | .release => .producer
  | .bTop | .bWake _ | .bGrab | .bPop | .bCbRet | .bPushFree => .backend
  | .cleanupSignal | .join => .main

/-- will this `pWrite` fill the current buffer (and so enter the full_buffers_mutex_ region)? -/
def fills (s : State) : Bool :=
  match s.owner, s.curr with
  | some o, some b => b.length + min o.remain.length (s.cfg.size - b.length) == s.cfg.size
  | _, _ => false

/-- mutexes held by the executing thread during the step.  `stopLocked` = the repaired
`cleanup()` (stop_signal_ set under full_buffers_mutex_); `false` = the code as found. -/
def held (stopLocked : Bool) (s : State) : Step → List Lock
  | .acquire _ => [.currM]
  | .pTake => [.currM, .freeM, .bnM]
  | .pWake => [.currM, .freeM]
  | .pWrite => if fills s then [.currM, .fullM] else [.currM]
  | .release => [.currM]
  | .bTop => [.fullM]
  | .bWake _ => [.fullM]
  | .bGrab => match s.bpc with
      | .woke t q => if (t || q) && s.owner.isNone then [.currM] else []
      | _ => []
  | .bPop => [.fullM]
  | .bCbRet => [.bnM]
  | .bPushFree => [.freeM]
  | .cleanupSignal => if stopLocked then [.fullM] else []
  | .join => []

/-- shared fields read or written by the step -/
def touches (s : State) : Step → List Field
  | .acquire _ => []
  | .pTake => [.curr, .free, .buffNum]
  | .pWake => [.curr, .free]
  | .pWrite => if fills s then [.curr, .full] else [.curr]
  | .release => []
  | .bTop => [.full]
  | .bWake _ => [.full, .stop]
  | .bGrab => match s.bpc with
      | .woke t q => if (t || q) && s.owner.isNone then [.curr, .full] else []
      | _ => []
  | .bPop => [.full]
  | .bCbRet => [.buffNum]
  | .bPushFree => [.free]
  | .cleanupSignal => [.stop]
  | .join => []

end Tbox.C10
