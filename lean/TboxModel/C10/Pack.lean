/-
C10 — constructive description of the observable block sequences: `pack` feeds the appends, in
order, into a current buffer of `size` bytes, emitting every buffer that fills up; after an append
whose flag is set the partial current buffer (if any) is emitted too (the timed hand-over), and at
the end what is left is emitted (the hand-over of cleanup).  Core Lean only.
-/
namespace Tbox.C10

/-- feed `d` into current buffer `c` (|c| < size): the buffers that fill up, and the new current buffer.
`fuel ≥ d.length` suffices. -/
def feed (size : Nat) : Nat → List UInt8 → List UInt8 → List (List UInt8) × List UInt8
  | 0, c, _ => ([], c)
  | fuel + 1, c, d =>
    if d.isEmpty then ([], c) else
    let n := min d.length (size - c.length)
    let c' := c ++ d.take n
    if c'.length == size then
      let r := feed size fuel [] (d.drop n)
      (c' :: r.1, r.2)
    else ([], c')

def pack (size : Nat) : List UInt8 → List (List UInt8 × Bool) → List (List UInt8)
  | c, [] => if c.isEmpty then [] else [c]
  | c, (d, g) :: rest =>
    let r := feed size d.length c d
    if g && !r.2.isEmpty then r.1 ++ [r.2] ++ pack size [] rest else r.1 ++ pack size r.2 rest

end Tbox.C10
