/- C10 — every observable accepted by `blockRule` is a `pack` of the appends for some choice of
timed hand-overs (pure list / arithmetic reasoning; the model is not involved). -/
import TboxModel.C10.BlockRule
import TboxModel.C10.Complete
namespace Tbox.C10

/-! ### lengths only -/

def feedL (size : Nat) : Nat → Nat → Nat → List Nat × Nat
  | 0, c, _ => ([], c)
  | fuel + 1, c, d =>
    if d = 0 then ([], c) else
    let n := min d (size - c)
    if c + n = size then
      let r := feedL size fuel 0 (d - n)
      (size :: r.1, r.2)
    else ([], c + n)

def packL (size : Nat) : Nat → List (Nat × Bool) → List Nat
  | c, [] => if c = 0 then [] else [c]
  | c, (d, g) :: rest =>
    let r := feedL size d c d
    if g && r.2 != 0 then r.1 ++ [r.2] ++ packL size 0 rest else r.1 ++ packL size r.2 rest

theorem feed_len (size : Nat) : ∀ (fuel : Nat) (c d : List UInt8),
    ((feed size fuel c d).1.map (·.length) = (feedL size fuel c.length d.length).1) ∧
    ((feed size fuel c d).2.length = (feedL size fuel c.length d.length).2) := by
  intro fuel
  induction fuel with
  | zero => intro c d; simp [feed, feedL]
  | succ n ih =>
    intro c d
    unfold feed feedL
    by_cases hd : d = []
    · subst hd; simp
    · have h1 : d.isEmpty = false := by simp [hd]
      have h2 : ¬ d.length = 0 := by simpa using hd
      simp only [h1, Bool.false_eq_true, if_false, h2, List.length_append, List.length_take, beq_iff_eq]
      have hmin : min (min d.length (size - c.length)) d.length = min d.length (size - c.length) := by omega
      rw [hmin]
      split
      · rename_i hfull
        have := ih [] (d.drop (min d.length (size - c.length)))
        simp only [List.length_nil, List.length_drop] at this
        simp [this.1, this.2, hfull]
      · simp

theorem pack_len (size : Nat) : ∀ (l : List (List UInt8 × Bool)) (c : List UInt8),
    (pack size c l).map (·.length) = packL size c.length (l.map (fun x => (x.1.length, x.2))) := by
  intro l
  induction l with
  | nil => intro c; cases c <;> simp [pack, packL]
  | cons x rest ih =>
    intro c
    obtain ⟨d, g⟩ := x
    have hf := feed_len size d.length c d
    simp only [pack, packL, List.map_cons]
    have he : ((feed size d.length c d).2.isEmpty) = ((feedL size d.length c.length d.length).2 == 0) := by
      rw [← hf.2]; cases (feed size d.length c d).2 <;> simp
    by_cases hg : (g && !(feed size d.length c d).2.isEmpty) = true
    · have hg' : (g && (feedL size d.length c.length d.length).2 != 0) = true := by
        simpa [he, bne] using hg
      simp only [hg, hg', if_true, List.map_append, List.map_cons, List.map_nil, hf.1, hf.2, ih, List.length_nil]
    · have hg' : ¬ (g && (feedL size d.length c.length d.length).2 != 0) = true := by
        simpa [he, bne] using hg
      simp only [hg, hg', Bool.false_eq_true, if_false, List.map_append, hf.1, ih, hf.2]

/-! ### the numeric core -/

def ShL (size : Nat) (B : List Nat) : Nat → List Nat → Prop
  | _, [] => True
  | off, l :: ls => (l = size ∨ off + l ∈ B) ∧ ShL size B (off + l) ls

/-- no bound lies strictly inside an append: `p` = where the next append starts -/
def Sep (B : List Nat) : Nat → List Nat → Prop
  | _, [] => True
  | p, d :: rest => (∀ n ∈ B, n ≤ p ∨ p + d ≤ n) ∧ Sep B (p + d) rest

theorem feedL_bounds (size : Nat) (hs : 1 ≤ size) : ∀ (fuel c d : Nat), c < size →
    (feedL size fuel c d).2 < size ∧ (feedL size fuel c d).2 ≤ c + d := by
  intro fuel
  induction fuel with
  | zero => intro c d h; simp [feedL]; omega
  | succ n ih =>
    intro c d h
    unfold feedL
    split
    · simp; omega
    · dsimp only
      split
      · have := ih 0 (d - min d (size - c)) (by omega)
        simp only; omega
      · simp only; omega

theorem feedL_blocks (size : Nat) (hs : 1 ≤ size) (B : List Nat) : ∀ (fuel c d : Nat) (ls : List Nat) (off T : Nat),
    c < size → d ≤ fuel → (∀ l ∈ ls, 1 ≤ l ∧ l ≤ size) → ls.sum = c + d + T →
    (c = 0 ∨ ∃ x xs, ls = x :: xs ∧ c < x) → ShL size B off ls →
    (∀ n ∈ B, n ≤ off + c ∨ off + c + d ≤ n) →
    ∃ ls', ls = (feedL size fuel c d).1 ++ ls' ∧ ls'.sum = (feedL size fuel c d).2 + T ∧
      ((feedL size fuel c d).2 = 0 ∨ ∃ x xs, ls' = x :: xs ∧ (feedL size fuel c d).2 ≤ x) ∧
      ShL size B (off + c + d - (feedL size fuel c d).2) ls' := by
  intro fuel
  induction fuel with
  | zero =>
    intro c d ls off T hc hd hall hsum hP hsh hsep
    have : d = 0 := by omega
    subst this
    refine ⟨ls, by simp [feedL], by simpa [feedL] using hsum, ?_, by simpa [feedL] using hsh⟩
    rcases hP with h | ⟨x, xs, h1, h2⟩
    · exact Or.inl (by simpa [feedL] using h)
    · exact Or.inr ⟨x, xs, h1, by simp [feedL]; omega⟩
  | succ n ih =>
    intro c d ls off T hc hd hall hsum hP hsh hsep
    unfold feedL
    by_cases hd0 : d = 0
    · subst hd0
      simp only [if_true]
      refine ⟨ls, by simp, by simpa using hsum, ?_, by simpa using hsh⟩
      rcases hP with h | ⟨x, xs, h1, h2⟩
      · exact Or.inl h
      · exact Or.inr ⟨x, xs, h1, by omega⟩
    · simp only [hd0, if_false]
      -- the block list is not empty and its first block ends after `c`
      obtain ⟨x, xs, hls, hcx⟩ : ∃ x xs, ls = x :: xs ∧ (c = 0 ∨ c < x) := by
        rcases hP with h | ⟨x, xs, h1, h2⟩
        · cases ls with
          | nil => simp at hsum; omega
          | cons x xs => exact ⟨x, xs, rfl, Or.inl h⟩
        · exact ⟨x, xs, h1, Or.inr h2⟩
      subst hls
      have hx := hall x (by simp)
      simp only [ShL] at hsh
      -- a partial first block ends at a bound, and no bound lies strictly inside the append
      have hxge : x = size ∨ c + d ≤ x := by
        rcases hsh.1 with h | h
        · exact Or.inl h
        · rcases hsep _ h with h' | h'
          · rcases hcx with h0 | h0 <;> omega
          · exact Or.inr (by omega)
      split
      · rename_i hfull
        have hxs : x = size := by rcases hxge with h | h <;> omega
        subst hxs
        simp only [List.sum_cons] at hsum
        obtain ⟨ls', h1, h2, h3, h4⟩ := ih 0 (d - min d (x - c)) xs (off + x) T (by omega) (by omega)
          (fun l hl => hall l (by simp [hl])) (by omega) (Or.inl rfl) hsh.2
          (fun n hn => by rcases hsep n hn with h | h <;> omega)
        refine ⟨ls', by simp [h1], h2, h3, ?_⟩
        have : off + x + 0 + (d - min d (x - c)) = off + c + d := by omega
        rw [this] at h4
        exact h4
      · rename_i hnf
        have hmin : min d (size - c) = d := by omega
        simp only [hmin]
        refine ⟨x :: xs, by simp, by simpa using hsum, Or.inr ⟨x, xs, rfl, by rcases hxge with h | h <;> omega⟩, ?_⟩
        have : off + c + d - (c + d) = off := by omega
        rw [this]
        simpa [ShL] using hsh

theorem packL_complete (size : Nat) (hs : 1 ≤ size) (B : List Nat) : ∀ (as : List Nat) (c : Nat) (ls : List Nat) (off : Nat),
    c < size → (∀ l ∈ ls, 1 ≤ l ∧ l ≤ size) → ls.sum = c + as.sum →
    (c = 0 ∨ ∃ x xs, ls = x :: xs ∧ c < x) → ShL size B off ls → Sep B (off + c) as →
    ∃ gs : List Bool, gs.length = as.length ∧ ls = packL size c (as.zip gs) := by
  intro as
  induction as with
  | nil =>
    intro c ls off hc hall hsum hP hsh hsep
    refine ⟨[], rfl, ?_⟩
    simp only [List.sum_nil, Nat.add_zero] at hsum
    rcases hP with h | ⟨x, xs, h1, h2⟩
    · subst h
      cases ls with
      | nil => simp [packL]
      | cons x xs => have := hall x (by simp); simp at hsum; omega
    · subst h1; simp at hsum; omega
  | cons d rest ih =>
    intro c ls off hc hall hsum hP hsh hsep
    simp only [Sep] at hsep
    simp only [List.sum_cons] at hsum
    obtain ⟨ls', h1, h2, h3, h4⟩ := feedL_blocks size hs B d c d ls off rest.sum hc (Nat.le_refl _) hall
      (by omega) hP hsh hsep.1
    have hb := feedL_bounds size hs d c d hc
    have hall' : ∀ l ∈ ls', 1 ≤ l ∧ l ≤ size := fun l hl => hall l (by rw [h1]; simp [hl])
    by_cases hA : (feedL size d c d).2 ≠ 0 ∧ ∃ xs, ls' = (feedL size d c d).2 :: xs
    · -- a block boundary exactly at the end of this append: the partial buffer was handed over
      obtain ⟨hne, xs, hxs⟩ := hA
      subst hxs
      simp only [ShL] at h4
      simp only [List.sum_cons] at h2
      have hoff : off + c + d - (feedL size d c d).2 + (feedL size d c d).2 = off + c + d := by omega
      rw [hoff] at h4
      obtain ⟨gs, hg1, hg2⟩ := ih 0 xs (off + c + d) (by omega) (fun l hl => hall' l (by simp [hl])) (by omega)
        (Or.inl rfl) h4.2 (by simpa using hsep.2)
      refine ⟨true :: gs, by simp [hg1], ?_⟩
      simp only [List.zip_cons_cons, packL, Bool.true_and, bne_iff_ne, ne_eq, hne, not_false_eq_true, if_true]
      rw [h1, hg2]; simp
    · have hP' : (feedL size d c d).2 = 0 ∨ ∃ x xs, ls' = x :: xs ∧ (feedL size d c d).2 < x := by
        rcases h3 with h | ⟨x, xs, hx1, hx2⟩
        · exact Or.inl h
        · by_cases h0 : (feedL size d c d).2 = 0
          · exact Or.inl h0
          · refine Or.inr ⟨x, xs, hx1, ?_⟩
            rcases Nat.lt_or_ge (feedL size d c d).2 x with h | h
            · exact h
            · exfalso; apply hA; refine ⟨h0, xs, ?_⟩; rw [hx1]; congr 1; omega
      have hoff : off + c + d - (feedL size d c d).2 + (feedL size d c d).2 = off + c + d := by omega
      obtain ⟨gs, hg1, hg2⟩ := ih (feedL size d c d).2 ls' (off + c + d - (feedL size d c d).2) hb.1 hall' h2 hP' h4
        (by rw [hoff]; exact hsep.2)
      refine ⟨false :: gs, by simp [hg1], ?_⟩
      simp only [List.zip_cons_cons, packL, Bool.false_and, Bool.false_eq_true, if_false]
      rw [h1, hg2]

/-! ### from `blockRule` to `pack` -/

theorem shaped_ShL (size : Nat) (B : List Nat) : ∀ (blocks : List (List UInt8)) (off : Nat),
    shaped size B off blocks = true → ShL size B off (blocks.map (·.length)) := by
  intro blocks
  induction blocks with
  | nil => intro off _; simp [ShL]
  | cons b bs ih =>
    intro off h
    simp only [shaped, Bool.and_eq_true, Bool.or_eq_true, beq_iff_eq, List.contains_iff_mem] at h
    exact ⟨h.1, ih _ h.2⟩

theorem sums_ge (a : Nat) (l : List Nat) : ∀ n ∈ sums a l, a ≤ n := by
  induction l generalizing a with
  | nil => intro n h; simp [sums] at h
  | cons x xs ih =>
    intro n h
    simp only [sums, List.mem_cons] at h
    rcases h with h | h
    · omega
    · have := ih _ n h; omega

theorem sep_sums (as : List Nat) : ∀ (p : Nat) (Bp : List Nat), (∀ n ∈ Bp, n ≤ p) → Sep (Bp ++ sums p as) p as := by
  induction as with
  | nil => intro p Bp _; simp [Sep]
  | cons d rest ih =>
    intro p Bp hB
    simp only [Sep, sums]
    constructor
    · intro n hn
      simp only [List.mem_append, List.mem_cons] at hn
      rcases hn with h | h | h
      · exact Or.inl (hB n h)
      · exact Or.inr (by omega)
      · exact Or.inr (sums_ge _ _ n h)
    · have := ih (p + d) (Bp ++ [p + d]) (by
        intro n hn
        simp only [List.mem_append, List.mem_singleton] at hn
        rcases hn with h | h
        · have := hB n h; omega
        · omega)
      simpa [List.append_assoc] using this

theorem feed_flatten (size : Nat) (hs : 1 ≤ size) : ∀ (fuel : Nat) (c d : List UInt8), c.length < size → d.length ≤ fuel →
    (feed size fuel c d).1.flatten ++ (feed size fuel c d).2 = c ++ d := by
  intro fuel
  induction fuel with
  | zero =>
    intro c d _ hd
    have : d = [] := List.eq_nil_of_length_eq_zero (by omega)
    subst this; simp [feed]
  | succ n ih =>
    intro c d hc hd
    unfold feed
    by_cases hd0 : d = []
    · subst hd0; simp
    · have h1 : d.isEmpty = false := by simp [hd0]
      have hpos : 1 ≤ d.length := List.length_pos_iff.mpr hd0
      simp only [h1, Bool.false_eq_true, if_false]
      split
      · have := ih [] (d.drop (min d.length (size - c.length))) (by simp only [List.length_nil]; omega)
          (by simp only [List.length_drop]; omega)
        simp only [List.flatten_cons, List.append_assoc, this, List.nil_append, List.take_append_drop]
      · rename_i hnf
        simp only [List.length_append, List.length_take, beq_iff_eq] at hnf
        have : min d.length (size - c.length) = d.length := by omega
        simp [this]

theorem pack_flatten (size : Nat) (hs : 1 ≤ size) : ∀ (l : List (List UInt8 × Bool)) (c : List UInt8), c.length < size →
    (pack size c l).flatten = c ++ (l.map (·.1)).flatten := by
  intro l
  induction l with
  | nil => intro c _; cases c <;> simp [pack]
  | cons x rest ih =>
    intro c hc
    obtain ⟨d, g⟩ := x
    have hf := feed_flatten size hs d.length c d hc (Nat.le_refl _)
    have hlt := feed_lt size hs d.length c d hc
    simp only [pack, List.map_cons, List.flatten_cons]
    split
    · simp only [List.flatten_append, List.flatten_cons, List.flatten_nil, List.append_nil,
        ih [] (by simp only [List.length_nil]; omega), List.nil_append]
      rw [← List.append_assoc, hf, List.append_assoc]
    · simp only [List.flatten_append, ih _ hlt]
      rw [← List.append_assoc, hf, List.append_assoc]

theorem eq_of_lengths {α : Type} : ∀ (a b : List (List α)), a.map (·.length) = b.map (·.length) →
    a.flatten = b.flatten → a = b := by
  intro a
  induction a with
  | nil => intro b h _; cases b with | nil => rfl | cons y ys => simp at h
  | cons x xs ih =>
    intro b h hf
    cases b with
    | nil => simp at h
    | cons y ys =>
      simp only [List.map_cons, List.cons.injEq] at h
      simp only [List.flatten_cons] at hf
      obtain ⟨h1, h2⟩ := List.append_inj hf h.1
      rw [h1, ih ys h.2 h2]

theorem map_zip_len (as : List (List UInt8)) : ∀ (gs : List Bool),
    (as.zip gs).map (fun x => (x.1.length, x.2)) = (as.map (·.length)).zip gs := by
  induction as with
  | nil => intro gs; simp
  | cons a rest ih => intro gs; cases gs with | nil => simp | cons g gs => simp [ih]

theorem map_zip_fst (as : List (List UInt8)) : ∀ (gs : List Bool), gs.length = as.length →
    (as.zip gs).map (·.1) = as := by
  induction as with
  | nil => intro gs _; simp
  | cons a rest ih => intro gs h; cases gs with | nil => simp at h | cons g gs => simp at h; simp [ih gs h]

/-- **every observable accepted by `blockRule` is a `pack`** of the appends for some choice of timed hand-overs -/
theorem blockRule_pack (size : Nat) (hs : 1 ≤ size) (appends blocks : List (List UInt8))
    (h : blockRule size appends blocks = true) :
    ∃ gs : List Bool, gs.length = appends.length ∧ blocks = pack size [] (appends.zip gs) := by
  simp only [blockRule, Bool.and_eq_true, List.all_eq_true, decide_eq_true_eq, beq_iff_eq] at h
  obtain ⟨⟨hall, hsh⟩, hfl⟩ := h
  have hsum : (blocks.map (·.length)).sum = 0 + (appends.map (·.length)).sum := by
    have := congrArg List.length hfl
    rw [List.length_flatten, List.length_flatten] at this
    simpa using this
  have hsep : Sep (boundsOf appends) (0 + 0) (appends.map (·.length)) := by
    have := sep_sums (appends.map (·.length)) 0 [0] (by simp)
    simpa [boundsOf] using this
  obtain ⟨gs, hg1, hg2⟩ := packL_complete size hs (boundsOf appends) (appends.map (·.length)) 0
    (blocks.map (·.length)) 0 (by omega)
    (by intro l hl; simp only [List.mem_map] at hl; obtain ⟨b, hb, rfl⟩ := hl; exact hall b hb)
    hsum (Or.inl rfl) (shaped_ShL _ _ _ _ hsh) hsep
  have hg1' : gs.length = appends.length := by simpa using hg1
  refine ⟨gs, hg1', ?_⟩
  apply eq_of_lengths
  · rw [pack_len, map_zip_len]; simpa using hg2
  · rw [pack_flatten size hs _ _ (by simp only [List.length_nil]; omega), map_zip_fst _ _ hg1', hfl]; simp

end Tbox.C10
