/- C10 — progress arguments: the back end, running alone, releases back-pressure and
terminates after the stop signal (variant functions `mu`, `nu` strictly decrease). -/
import TboxModel.C10.Proofs
namespace Tbox.C10

theorem exec_cfg (sts : List Step) : ∀ (s s' : State), exec s sts = some s' → s'.cfg = s.cfg := by
  induction sts with
  | nil => intro s s' he; simp [exec] at he; subst he; rfl
  | cons st sts ih =>
    intro s s' he
    simp only [exec] at he
    split at he
    · rw [ih _ _ he, step_cfg]
    · cases he

theorem beNext_backend (s : State) (st : Step) (h : beNext s = some st) : st.isBackend = true := by
  unfold beNext at h
  split at h <;> simp at h <;> subst h <;> rfl

theorem backend_owner (s : State) (st : Step) (h : st.isBackend = true) : (step s st).owner = s.owner := by
  cases st <;> simp [Step.isBackend] at h <;> simp only [step] <;> (repeat' split) <;> rfl

/-! ### back-pressure is released -/

def rankBP : BPc → Nat
  | .top => 4 | .waiting => 3 | .woke _ _ => 2 | .drain _ => 1 | .inCb _ => 2 | .pushFree _ => 1 | .exited => 0

/-- variant: bounds the number of back-end steps until a buffer is recycled -/
def mu (s : State) : Nat := 5 * s.full.length + rankBP s.bpc

theorem backend_progress (s : State) (hs : Shape s) (ha : Acc s) (hmin : 1 ≤ s.cfg.minN)
    (o : Owner) (ho : s.owner = some o) (hns : o.tid ≠ sinkTid) (hb : o.blocked = true) (hf : s.free = 0) (hne : s.bpc ≠ .exited) :
    ∃ st, beNext s = some st ∧ valid s st = true ∧
      (0 < (step s st).free ∨ (mu (step s st) < mu s ∧ (step s st).bpc ≠ .exited)) := by
  have hcn := hs.blockedCurr o ho hb
  have hcount := ha.count
  have hlo := ha.lo
  simp only [hcn, hf, currCount] at hcount
  cases hpc : s.bpc with
  | top =>
    refine ⟨.bTop, by simp [beNext, hpc], by simp [valid, hpc], Or.inr ?_⟩
    simp only [step]; split <;> simp [mu, rankBP, hpc]
  | waiting =>
    refine ⟨.bWake true, by simp [beNext, hpc], by simp [valid, hpc], Or.inr ?_⟩
    simp only [step]; (repeat' split) <;> simp_all [mu, rankBP]
  | woke t q =>
    refine ⟨.bGrab, by simp [beNext, hpc], by simp [valid, hpc], Or.inr ?_⟩
    simp [step, hpc, ho, mu, rankBP]
  | drain q =>
    refine ⟨.bPop, by simp [beNext, hpc], by simp [valid, hpc], Or.inr ?_⟩
    simp only [hpc, inflight] at hcount
    cases hfl : s.full with
    | nil => simp [hfl] at hcount; omega
    | cons b rest => simp [step, hpc, hfl, mu, rankBP]; omega
  | inCb q =>
    refine ⟨.bCbRet, by simp [beNext, hpc], by simp [valid, hpc, ho, hns], Or.inr ?_⟩
    simp only [step, hpc]; split <;> simp [mu, rankBP, hpc]
  | pushFree q =>
    exact ⟨.bPushFree, by simp [beNext, hpc], by simp [valid, hpc], Or.inl (by simp [step, hpc])⟩
  | exited => exact absurd hpc hne

theorem backpressure_released (prog0) : ∀ (n : Nat) (s : State), Inv prog0 s →
    ∀ o, s.owner = some o → o.tid ≠ sinkTid → o.blocked = true → s.bpc ≠ .exited → mu s < n →
    ∃ bs s', (∀ st ∈ bs, st.isBackend = true) ∧ bs.length ≤ mu s ∧ exec s bs = some s' ∧
      0 < s'.free ∧ s'.owner = s.owner := by
  intro n
  induction n with
  | zero => intro s _ o _ _ _ _ h; omega
  | succ n ih =>
    intro s hi o ho hns hb hne hlt
    by_cases hf : s.free = 0
    · have hmin := ((Cfg.ok_iff s.cfg).mp hi.cfgOk).2.1
      obtain ⟨st, hnx, hv, hprog⟩ := backend_progress s hi.shape hi.acc hmin o ho hns hb hf hne
      have hbe := beNext_backend s st hnx
      have how := backend_owner s st hbe
      rcases hprog with hfree | ⟨hmu, hne'⟩
      · refine ⟨[st], step s st, ?_, ?_, by simp [exec, hv], hfree, how⟩
        · intro x hx; simp at hx; subst hx; exact hbe
        · have : 1 ≤ mu s := by
            unfold mu rankBP; cases hpc : s.bpc <;> simp_all <;> omega
          simpa using this
      · obtain ⟨bs, s', hbs, hlen, hex, hfree, how'⟩ :=
          ih (step s st) (step_inv prog0 s st hv hi) o (how ▸ ho) hns hb hne' (by omega)
        refine ⟨st :: bs, s', ?_, by simp; omega, by simp [exec, hv, hex], hfree, how'.trans how⟩
        intro x hx; simp at hx; rcases hx with hx | hx
        · subst hx; exact hbe
        · exact hbs x hx
    · exact ⟨[], s, by simp, by simp, by simp [exec], by omega, rfl⟩

/-! ### the back end exits after the stop signal -/

def rankQ (s : State) : Nat :=
  match s.bpc with
  | .top => if s.full.isEmpty then 10 else 17
  | .waiting => 9
  | .woke _ false => 16
  | .woke _ true => 4
  | .drain false => 11
  | .inCb false => 13
  | .pushFree false => 12
  | .drain true => 1
  | .inCb true => 3
  | .pushFree true => 2
  | .exited => 0

/-- variant: bounds the number of back-end steps until the thread has exited -/
def nu (s : State) : Nat := 6 * (s.full.length + currCount s.curr) + rankQ s

theorem quit_progress (s : State) (hstop : s.stop = true) (hown : s.owner = none) (hne : s.bpc ≠ .exited) :
    ∃ st, beNext s = some st ∧ valid s st = true ∧ nu (step s st) < nu s := by
  cases hpc : s.bpc with
  | top =>
    refine ⟨.bTop, by simp [beNext, hpc], by simp [valid, hpc], ?_⟩
    simp only [step]; split <;> simp_all [nu, rankQ]
  | waiting =>
    refine ⟨.bWake true, by simp [beNext, hpc], by simp [valid, hpc], ?_⟩
    simp [step, hstop, nu, rankQ, hpc]
  | woke t q =>
    refine ⟨.bGrab, by simp [beNext, hpc], by simp [valid, hpc], ?_⟩
    cases q <;> cases t <;> simp only [step, hpc] <;> (repeat' split) <;>
      simp_all [nu, rankQ, currCount] <;> omega
  | drain q =>
    refine ⟨.bPop, by simp [beNext, hpc], by simp [valid, hpc], ?_⟩
    cases q <;> simp only [step, hpc] <;> (repeat' split) <;> simp_all [nu, rankQ, currCount] <;> omega
  | inCb q =>
    refine ⟨.bCbRet, by simp [beNext, hpc], by simp [valid, hpc, hown], ?_⟩
    cases q <;> simp only [step, hpc] <;> (repeat' split) <;> simp_all [nu, rankQ, currCount]
  | pushFree q =>
    refine ⟨.bPushFree, by simp [beNext, hpc], by simp [valid, hpc], ?_⟩
    cases q <;> simp_all [step, nu, rankQ, currCount]
  | exited => exact absurd hpc hne

theorem backend_keeps (s : State) (st : Step) (h : st.isBackend = true) :
    (step s st).stop = s.stop ∧ (step s st).late = s.late ∧ (step s st).joined = s.joined := by
  cases st <;> simp [Step.isBackend] at h <;> simp only [step] <;> (repeat' split) <;> simp

theorem cleanup_terminates (prog0) : ∀ (n : Nat) (s : State), Inv prog0 s → s.stop = true → s.late = false →
    nu s < n →
    ∃ bs s', (∀ st ∈ bs, st.isBackend = true) ∧ bs.length ≤ nu s ∧ exec s bs = some s' ∧
      s'.bpc = .exited ∧ s'.stop = true ∧ s'.joined = s.joined := by
  intro n
  induction n with
  | zero => intro s _ _ _ h; omega
  | succ n ih =>
    intro s hi hstop hl hlt
    by_cases hx : s.bpc = .exited
    · exact ⟨[], s, by simp, by simp, by simp [exec], hx, hstop, rfl⟩
    · have hown := hi.flush.ownerNone hl hstop
      obtain ⟨st, hnx, hv, hnu⟩ := quit_progress s hstop hown hx
      have hbe := beNext_backend s st hnx
      obtain ⟨k1, k2, k3⟩ := backend_keeps s st hbe
      obtain ⟨bs, s', hbs, hlen, hex, hpc, hst, hjn⟩ :=
        ih (step s st) (step_inv prog0 s st hv hi) (k1 ▸ hstop) (k2 ▸ hl) (by omega)
      refine ⟨st :: bs, s', ?_, by simp; omega, by simp [exec, hv, hex], hpc, hst, hjn.trans k3⟩
      intro x hx; simp at hx; rcases hx with hx | hx
      · subst hx; exact hbe
      · exact hbs x hx

end Tbox.C10
