/- C10 — inductive invariants of the async-pipe model and their preservation by every step. -/
import TboxModel.C10.Model
namespace Tbox.C10

def inCbN : BPc → Nat | .inCb _ => 1 | _ => 0
def BPc.quit : BPc → Bool
  | .woke _ q => q | .drain q => q | .inCb q => q | .pushFree q => q | .exited => true | _ => false

def chunkLen (s : State) (o : Owner) (b : Buf) : Nat := min o.remain.length (s.cfg.size - b.length)
def chunkBuf (s : State) (o : Owner) (b : Buf) : Buf := b ++ o.remain.take (chunkLen s o b)

@[simp] theorem wc_owner (s o b) : (writeChunk s o b).owner = some { o with remain := o.remain.drop (chunkLen s o b) } := by
  unfold writeChunk chunkLen; simp only; split <;> rfl
@[simp] theorem wc_bpc (s o b) : (writeChunk s o b).bpc = s.bpc := by unfold writeChunk; simp only; split <;> rfl
@[simp] theorem wc_active (s o b) : (writeChunk s o b).active = s.active := by unfold writeChunk; simp only; split <;> rfl
@[simp] theorem wc_stop (s o b) : (writeChunk s o b).stop = s.stop := by unfold writeChunk; simp only; split <;> rfl
@[simp] theorem wc_joined (s o b) : (writeChunk s o b).joined = s.joined := by unfold writeChunk; simp only; split <;> rfl
@[simp] theorem wc_late (s o b) : (writeChunk s o b).late = s.late := by unfold writeChunk; simp only; split <;> rfl
@[simp] theorem wc_free (s o b) : (writeChunk s o b).free = s.free := by unfold writeChunk; simp only; split <;> rfl
@[simp] theorem wc_buffNum (s o b) : (writeChunk s o b).buffNum = s.buffNum := by unfold writeChunk; simp only; split <;> rfl
@[simp] theorem wc_delivered (s o b) : (writeChunk s o b).delivered = s.delivered := by unfold writeChunk; simp only; split <;> rfl
@[simp] theorem wc_acq (s o b) : (writeChunk s o b).acq = s.acq := by unfold writeChunk; simp only; split <;> rfl
@[simp] theorem wc_cfg (s o b) : (writeChunk s o b).cfg = s.cfg := by unfold writeChunk; simp only; split <;> rfl
@[simp] theorem wc_prog (s o b) : (writeChunk s o b).prog = s.prog := by unfold writeChunk; simp only; split <;> rfl

theorem wc_cases (s : State) (o : Owner) (b : Buf) :
    ((writeChunk s o b).full = s.full ++ [chunkBuf s o b] ∧ (writeChunk s o b).curr = none ∧
        (chunkBuf s o b).length = s.cfg.size) ∨
    ((writeChunk s o b).full = s.full ∧ (writeChunk s o b).curr = some (chunkBuf s o b) ∧
        (chunkBuf s o b).length ≠ s.cfg.size) := by
  unfold writeChunk chunkBuf chunkLen
  simp only
  split
  · rename_i h; left; exact ⟨rfl, rfl, by simpa using h⟩
  · rename_i h; right; exact ⟨rfl, rfl, by simpa using h⟩

structure Shape (s : State) : Prop where
  blockedCurr : ∀ o, s.owner = some o → o.blocked = true → s.curr = none
  active : s.active = inCbN s.bpc
  quitStop : s.bpc.quit = true → s.stop = true
  joinedExited : s.joined = true → s.bpc = .exited
  sinkOwner : ∀ o, s.owner = some o → o.tid = sinkTid → s.bpc.isInCb = true

theorem step_shape (s : State) (st : Step) (hv : valid s st = true) (h : Shape s) : Shape (step s st) := by
  obtain ⟨h1, h2, h3, h4, h5⟩ := h
  cases st <;> simp only [step, valid] at * <;> (repeat' split) <;>
    (constructor <;> simp_all [inCbN, BPc.quit, BPc.isInCb] <;> try grind)

/-! ### buffer accounting -/

def inflight : BPc → Nat | .inCb _ => 1 | .pushFree _ => 1 | _ => 0
def currCount : Option Buf → Nat | some _ => 1 | none => 0

structure Acc (s : State) : Prop where
  count : s.buffNum = s.free + currCount s.curr + s.full.length + inflight s.bpc
  lo : s.cfg.minN ≤ s.buffNum
  hi : s.buffNum ≤ s.cfg.maxN

theorem step_cfg (s : State) (st : Step) : (step s st).cfg = s.cfg := by
  cases st <;> simp only [step] <;> (repeat' split) <;> simp

theorem step_acc (s : State) (st : Step) (hv : valid s st = true) (hs : Shape s) (h : Acc s) :
    Acc (step s st) := by
  obtain ⟨h1, h2, h3⟩ := h
  have hb := hs.blockedCurr
  cases st with
  | pWrite =>
    simp only [step]
    split
    · rename_i o b ho hc
      rcases wc_cases { s with late := s.late || s.stop } o b with ⟨hf, hcu, _⟩ | ⟨hf, hcu, _⟩ <;>
        (constructor <;> simp_all [inflight, currCount] <;> try omega)
    · exact ⟨h1, h2, h3⟩
  | _ =>
    simp only [step, valid] at * <;> (repeat' split) <;>
      (constructor <;> simp_all [inflight, currCount] <;> try omega)

/-! ### the byte stream -/

def remainOf : Option Owner → List UInt8
  | some o => o.remain
  | none => []

def currOf : Option Buf → List UInt8
  | some b => b
  | none => []

/-- bytes that have left the producers' hands, in pipe order -/
def written (s : State) : List UInt8 := s.delivered.flatten ++ s.full.flatten ++ currOf s.curr

/-- all appends whose producer lock has been acquired so far, in acquisition order -/
def appended (s : State) : List UInt8 := (s.acq.map (·.2)).flatten

def StreamInv (s : State) : Prop := written s ++ remainOf s.owner = appended s

theorem chunk_split (s : State) (o : Owner) (b : Buf) :
    chunkBuf s o b ++ o.remain.drop (chunkLen s o b) = b ++ o.remain := by
  simp [chunkBuf, List.append_assoc]

theorem step_stream (s : State) (st : Step) (hv : valid s st = true) (hs : Shape s) (h : StreamInv s) :
    StreamInv (step s st) := by
  have hb := hs.blockedCurr
  unfold StreamInv written appended at *
  cases st with
  | pWrite =>
    simp only [step]
    split
    · rename_i o b ho hc
      have hsp := chunk_split { s with late := s.late || s.stop } o b
      rcases wc_cases { s with late := s.late || s.stop } o b with ⟨hf, hcu, _⟩ | ⟨hf, hcu, _⟩
      · simp only [hf, hcu, wc_owner, wc_delivered, wc_acq, currOf, remainOf, List.flatten_append,
          List.flatten_cons, List.flatten_nil, List.append_nil, List.append_assoc] at h ⊢
        simp only [ho, hc] at h
        rw [hsp]; simpa [List.append_assoc] using h
      · simp only [hf, hcu, wc_owner, wc_delivered, wc_acq, currOf, remainOf, List.append_assoc] at h ⊢
        simp only [ho, hc] at h
        rw [hsp]; simpa [List.append_assoc] using h
    · exact h
  | acquire p =>
    simp only [step, valid, Bool.and_eq_true, Option.isNone_iff_eq_none] at *
    split
    · simp only [hv.1.1, remainOf, List.append_nil] at h
      simp [remainOf, ← h, List.append_assoc]
    · exact h
  | release =>
    simp only [step, valid] at *
    split at hv
    · rename_i o ho
      simp only [Bool.and_eq_true, List.isEmpty_iff] at hv
      simpa [ho, remainOf, hv.2] using h
    · cases hv
  | _ =>
    simp only [step, valid] at * <;> (repeat' split) <;> simp_all [currOf, remainOf]

/-! ### block shape -/

structure Blocks (s : State) : Prop where
  fullOk : ∀ b ∈ s.full, 1 ≤ b.length ∧ b.length ≤ s.cfg.size
  delivOk : ∀ b ∈ s.delivered, 1 ≤ b.length ∧ b.length ≤ s.cfg.size
  currLt : ∀ b, s.curr = some b → b.length < s.cfg.size
  currNe : s.curr = some [] → ∃ o, s.owner = some o ∧ o.remain ≠ []
  blockedRem : ∀ o, s.owner = some o → o.blocked = true → o.remain ≠ []

theorem chunkBuf_len (s : State) (o : Owner) (b : Buf) :
    (chunkBuf s o b).length = b.length + min o.remain.length (s.cfg.size - b.length) := by
  simp [chunkBuf, chunkLen]

theorem step_blocks (s : State) (st : Step) (hv : valid s st = true) (hsz : 1 ≤ s.cfg.size)
    (h : Blocks s) : Blocks (step s st) := by
  obtain ⟨h1, h2, h3, h4, h5⟩ := h
  cases st with
  | pWrite =>
    simp only [step, valid] at *
    split
    · rename_i o b ho hc
      simp only [ho, hc, Bool.and_eq_true, Bool.not_eq_true', Option.isSome_some, Bool.and_true,
        List.isEmpty_eq_false_iff] at hv
      have hl := chunkBuf_len { s with late := s.late || s.stop } o b
      have hlt := h3 b hc
      have hrem : 1 ≤ o.remain.length := List.length_pos_iff.mpr hv.2
      simp only at hl
      rcases wc_cases { s with late := s.late || s.stop } o b with ⟨hf, hcu, hlen⟩ | ⟨hf, hcu, hlen⟩
      · refine ⟨?_, by simpa using h2, by simp [hcu], by simp [hcu], by simp [hv.1]⟩
        intro x hx
        simp only [hf, List.mem_append, List.mem_singleton] at hx
        rcases hx with hx | hx
        · simpa using h1 x hx
        · subst hx; simp only [wc_cfg]; simp only at hlen; omega
      · refine ⟨by simpa [hf] using h1, by simpa using h2, ?_, ?_, by simp [hv.1]⟩
        · intro x hx; simp only [hcu, Option.some.injEq] at hx; subst hx
          simp only [wc_cfg]; simp only at hlen; omega
        · intro hx; simp only [hcu, Option.some.injEq] at hx
          have := congrArg List.length hx
          simp only [List.length_nil] at this; omega
    · exact ⟨h1, h2, h3, h4, h5⟩
  | bGrab =>
    simp only [step, valid] at *
    split
    · split
      · rename_i hc
        simp only [Bool.and_eq_true, Option.isNone_iff_eq_none] at hc
        split
        · rename_i b hb
          refine ⟨?_, h2, by simp, by simp, h5⟩
          intro x hx
          simp only [List.mem_append, List.mem_singleton] at hx
          rcases hx with hx | hx
          · exact h1 x hx
          · subst hx
            have := h3 x hb
            refine ⟨?_, by show x.length ≤ s.cfg.size; omega⟩
            cases x with
            | nil => obtain ⟨o, ho, _⟩ := h4 hb; simp [hc.2] at ho
            | cons a t => simp
        · exact ⟨h1, h2, by simpa using h3, by simpa using h4, h5⟩
      · exact ⟨h1, h2, by simpa using h3, by simpa using h4, h5⟩
    · exact ⟨h1, h2, h3, h4, h5⟩
  | release =>
    simp only [step, valid] at *
    split at hv
    · rename_i o ho
      simp only [Bool.and_eq_true, List.isEmpty_iff] at hv
      refine ⟨h1, h2, h3, ?_, by simp⟩
      intro hc
      obtain ⟨o', ho', hr⟩ := h4 hc
      rw [ho] at ho'; cases ho'; exact absurd hv.2 hr
    · cases hv
  | bPop =>
    simp only [step, valid] at *
    split
    · split
      · rename_i b rest hf
        refine ⟨fun x hx => h1 x (by simp [hf, hx]), ?_, h3, h4, h5⟩
        intro x hx
        simp only [List.mem_append, List.mem_singleton] at hx
        rcases hx with hx | hx
        · exact h2 x hx
        · subst hx; exact h1 x (by simp [hf])
      · exact ⟨h1, h2, h3, h4, h5⟩
    · exact ⟨h1, h2, h3, h4, h5⟩
  | _ =>
    simp only [step, valid] at * <;> (repeat' split) <;> (constructor <;> simp_all <;> try omega)

/-! ### cleanup flushes -/

def BPc.pastGrab : BPc → Bool
  | .drain q => q | .inCb q => q | .pushFree q => q | .exited => true | _ => false

structure Flush (s : State) : Prop where
  ownerNone : s.late = false → s.stop = true → s.owner = none
  currNone : s.late = false → s.bpc.pastGrab = true → s.curr = none
  fullNone : s.late = false → s.bpc = .exited → s.full = []

theorem step_flush (s : State) (st : Step) (hv : valid s st = true) (hs : Shape s) (h : Flush s) :
    Flush (step s st) := by
  obtain ⟨h1, h2, h3⟩ := h
  have hq := hs.quitStop
  cases st <;> simp only [step, valid] at * <;> (repeat' split) <;>
    (constructor <;> simp_all [BPc.pastGrab, BPc.quit] <;> try (cases hpc : s.bpc <;> simp_all <;> grind))

/-! ### per-thread order -/

def ProgInv (prog0 : Nat → List (List UInt8)) (s : State) : Prop :=
  ∀ p, ((s.acq.filter (fun a => a.1 == p)).map (·.2)) ++ s.prog p = prog0 p

theorem step_prog (prog0) (s : State) (st : Step) (h : ProgInv prog0 s) : ProgInv prog0 (step s st) := by
  cases st with
  | acquire q =>
    simp only [step]
    split
    · rename_i d rest hd
      intro p
      have := h p
      by_cases hp : p = q
      · subst hp; simp [List.filter_append, hd] at this ⊢; exact this
      · have hqp : (q == p) = false := by simp [Ne.symm hp]
        simp [List.filter_append, hp, hqp] at this ⊢; exact this
    · exact h
  | pWrite =>
    simp only [step]; split
    · intro p; simpa using h p
    · exact h
  | _ => simp only [step] <;> (repeat' split) <;> exact h

/-! ### the bundle, and its preservation along every interleaving -/

structure Inv (prog0 : Nat → List (List UInt8)) (s : State) : Prop where
  cfgOk : s.cfg.ok = true
  shape : Shape s
  acc : Acc s
  stream : StreamInv s
  blocks : Blocks s
  flush : Flush s
  prog : ProgInv prog0 s

theorem Cfg.ok_iff (c : Cfg) : c.ok = true ↔ 1 ≤ c.size ∧ 1 ≤ c.minN ∧ c.minN ≤ c.maxN ∧ 1 ≤ c.interval := by
  simp [Cfg.ok, and_assoc]

theorem init_inv (cfg : Cfg) (prog) (h : cfg.ok = true) : Inv prog (init cfg prog) := by
  have hc := (Cfg.ok_iff cfg).mp h
  refine ⟨h, ?_, ?_, ?_, ?_, ?_, ?_⟩
  · constructor <;> simp [init, inCbN, BPc.quit, BPc.isInCb]
  · constructor <;> simp [init, inflight, currCount, hc.2.2.1]
  · simp [StreamInv, init, written, appended, currOf, remainOf]
  · constructor <;> simp [init]
  · constructor <;> simp [init, BPc.pastGrab]
  · intro p; simp [init]

theorem step_inv (prog0) (s : State) (st : Step) (hv : valid s st = true) (h : Inv prog0 s) :
    Inv prog0 (step s st) := by
  have hc := (Cfg.ok_iff s.cfg).mp h.cfgOk
  exact ⟨by rw [step_cfg]; exact h.cfgOk, step_shape s st hv h.shape, step_acc s st hv h.shape h.acc,
    step_stream s st hv h.shape h.stream, step_blocks s st hv hc.1 h.blocks,
    step_flush s st hv h.shape h.flush, step_prog prog0 s st h.prog⟩

theorem exec_inv (prog0) (sts : List Step) : ∀ (s s' : State), Inv prog0 s → exec s sts = some s' → Inv prog0 s' := by
  induction sts with
  | nil => intro s s' h he; simp [exec] at he; subst he; exact h
  | cons st sts ih =>
    intro s s' h he
    simp only [exec] at he
    split at he
    · rename_i hv; exact ih _ _ (step_inv prog0 s st hv h) he
    · cases he

theorem exec_append (s : State) (a b : List Step) :
    exec s (a ++ b) = (exec s a).bind (fun s' => exec s' b) := by
  induction a generalizing s with
  | nil => simp [exec]
  | cons st a ih => simp only [List.cons_append, exec]; split <;> simp [ih]

end Tbox.C10
