/-
C10 — PROPERTY THEOREMS.  "Async pipe: lossless ordered contiguous appends; cleanup flushes
and returns."

Every theorem quantifies over EVERY configuration accepted by `initialize` (`cfg.ok`: buffer
size ≥ 1, 1 ≤ min ≤ max buffer count, interval ≥ 1), every assignment `prog` of append
sequences to producer threads (any number of threads, any sizes — smaller than, equal to, many
times a buffer) and EVERY interleaving `sts` of the atomic steps of producers, back-end thread
and cleanup: `exec (init cfg prog) sts = some s` says `sts` is such an interleaving.  The timed
flush may fire at any moment (`bWake true`), so all intervals and all timings are covered.
-/
import TboxModel.C10.Progress
import TboxModel.C10.Locks
import TboxModel.C10.Spec
import TboxModel.C10.BlockShape
import TboxModel.C10.Sched
import TboxModel.C10.PackRule
import TboxModel.C10.Fault
import TboxModel.C10.Replay
namespace Tbox.C10

/-- **lossless, no duplication, contiguous, acquisition order.**  What has been delivered to the
sink, followed by the queued full buffers, the partial current buffer and the unwritten rest of
the append in flight, is exactly the concatenation of all appends in the order in which their
producers obtained the producer lock.  So every append is one contiguous run of the stream,
nothing is lost, duplicated or reordered. -/
theorem C10_stream (cfg : Cfg) (prog) (hc : cfg.ok = true) (sts : List Step) (s : State)
    (he : exec (init cfg prog) sts = some s) :
    s.delivered.flatten ++ s.full.flatten ++ currOf s.curr ++ remainOf s.owner
      = (s.acq.map (·.2)).flatten :=
  (exec_inv prog sts _ s (init_inv cfg prog hc) he).stream

/-- **per-thread order kept**: the appends of thread `p` appear in the acquisition order exactly
in `p`'s program order — what `p` has appended so far followed by what it still will is `p`'s
program. -/
theorem C10_per_thread_order (cfg : Cfg) (prog) (hc : cfg.ok = true) (sts : List Step) (s : State)
    (he : exec (init cfg prog) sts = some s) (p : Nat) :
    ((s.acq.filter (fun a => a.1 == p)).map (·.2)) ++ s.prog p = prog p :=
  (exec_inv prog sts _ s (init_inv cfg prog hc) he).prog p

/-- **sink callbacks never overlap**: at most one callback is executing in any reachable state
(and exactly when the back-end thread's program counter is inside it). -/
theorem C10_callbacks_serial (cfg : Cfg) (prog) (hc : cfg.ok = true) (sts : List Step) (s : State)
    (he : exec (init cfg prog) sts = some s) :
    s.active ≤ 1 ∧ (s.active = 1 ↔ ∃ q, s.bpc = .inCb q) := by
  have h := (exec_inv prog sts _ s (init_inv cfg prog hc) he).shape.active
  rw [h]
  cases hb : s.bpc <;> simp [inCbN]

/-- every block handed to the sink is non-empty and at most one buffer long -/
theorem C10_blocks_wellformed (cfg : Cfg) (prog) (hc : cfg.ok = true) (sts : List Step) (s : State)
    (he : exec (init cfg prog) sts = some s) :
    ∀ b ∈ s.delivered, 1 ≤ b.length ∧ b.length ≤ cfg.size := by
  have h := exec_inv prog sts _ s (init_inv cfg prog hc) he
  have hcfg : s.cfg = cfg := exec_cfg _ _ _ he
  intro b hb
  have := h.blocks.delivOk b hb
  rwa [hcfg] at this

/-- **buffers bounded, back-pressure is sound, no deadlock.**
(1) `min ≤ buff_num_ ≤ max` and `buff_num_` counts exactly the buffers in existence;
(2) a producer is blocked only when there is no current buffer, and if moreover no free buffer
is available then ALL buffers are queued or in flight at the back end — at least one;
(3) in that situation, for a producer other than the sink callback itself (a nested append that has
to wait for a buffer waits for its own thread: see `C10_nested_backpressure_self_deadlock`), as long
as the back-end thread runs, the back end alone (its next
`beNext` steps, no help from anyone) reaches a state with a free buffer in at most `mu s`
steps, where the blocked producer's `pWake` is enabled. -/
theorem C10_buffers_bounded (cfg : Cfg) (prog) (hc : cfg.ok = true) (sts : List Step) (s : State)
    (he : exec (init cfg prog) sts = some s) :
    (cfg.minN ≤ s.buffNum ∧ s.buffNum ≤ cfg.maxN ∧
      s.buffNum = s.free + currCount s.curr + s.full.length + inflight s.bpc) ∧
    (∀ o, s.owner = some o → o.blocked = true →
      s.curr = none ∧ (s.free = 0 → s.full.length + inflight s.bpc = s.buffNum ∧ 1 ≤ s.buffNum)) ∧
    (∀ o, s.owner = some o → o.tid ≠ sinkTid → o.blocked = true → s.bpc ≠ .exited →
      ∃ bs s', (∀ st ∈ bs, st.isBackend = true) ∧ bs.length ≤ mu s ∧ exec s bs = some s' ∧
        0 < s'.free ∧ valid s' .pWake = true) := by
  have h := exec_inv prog sts _ s (init_inv cfg prog hc) he
  have hcfg : s.cfg = cfg := exec_cfg _ _ _ he
  have hok := (Cfg.ok_iff cfg).mp hc
  refine ⟨⟨hcfg ▸ h.acc.lo, hcfg ▸ h.acc.hi, h.acc.count⟩, ?_, ?_⟩
  · intro o ho hb
    have hcn := h.shape.blockedCurr o ho hb
    refine ⟨hcn, fun hf => ?_⟩
    have := h.acc.count
    have hlo := h.acc.lo
    rw [hcfg] at hlo
    simp only [hcn, hf, currCount] at this
    omega
  · intro o ho hns hb hne
    obtain ⟨bs, s', hbs, hlen, hex, hfree, how⟩ := backpressure_released prog (mu s + 1) s h o ho hns hb hne (by omega)
    refine ⟨bs, s', hbs, by omega, hex, hfree, ?_⟩
    simp [valid, how, ho, hb, hfree]

/-- **cleanup flushes**: if no producer was inside `append` when cleanup began and none entered
afterwards (`late = false`), then once `join` has returned everything ever appended has been
delivered to the sink — nothing is left in any buffer. -/
theorem C10_cleanup_flushes (cfg : Cfg) (prog) (hc : cfg.ok = true) (sts : List Step) (s : State)
    (he : exec (init cfg prog) sts = some s) (hj : s.joined = true) (hl : s.late = false) :
    s.delivered.flatten = (s.acq.map (·.2)).flatten ∧ s.full = [] ∧ s.curr = none ∧ s.owner = none := by
  have h := exec_inv prog sts _ s (init_inv cfg prog hc) he
  have hx := h.shape.joinedExited hj
  have hstop := h.shape.quitStop (by simp [hx, BPc.quit])
  have h1 := h.flush.ownerNone hl hstop
  have h2 := h.flush.currNone hl (by simp [hx, BPc.pastGrab])
  have h3 := h.flush.fullNone hl hx
  have hs := h.stream
  simp only [StreamInv, written, appended, h1, h2, h3, currOf, remainOf, List.flatten_nil, List.append_nil] at hs
  exact ⟨hs, h3, h2, h1⟩

/-- **cleanup terminates** (no producer active): from any reachable state in which cleanup has
begun and no producer interferes, the back-end thread on its own reaches `exited` — so
`join` is enabled — within `nu s` of its steps.  (Liveness = this + the scheduler eventually
running the back-end thread, and the timed wait eventually timing out; see LEVEL_NOTE.) -/
theorem C10_cleanup_terminates (cfg : Cfg) (prog) (hc : cfg.ok = true) (sts : List Step) (s : State)
    (he : exec (init cfg prog) sts = some s) (hstop : s.stop = true) (hl : s.late = false)
    (hj : s.joined = false) :
    ∃ bs s', (∀ st ∈ bs, st.isBackend = true) ∧ bs.length ≤ nu s ∧ exec s bs = some s' ∧
      valid s' .join = true := by
  have h := exec_inv prog sts _ s (init_inv cfg prog hc) he
  obtain ⟨bs, s', hbs, hlen, hex, hpc, hst, hjn⟩ := cleanup_terminates prog (nu s + 1) s h hstop hl (by omega)
  exact ⟨bs, s', hbs, by omega, hex, by simp [valid, hpc, hst, hjn, hj]⟩

/-- **lock discipline** (the repaired `cleanup`, stop flag set under full_buffers_mutex_): any
two steps that touch a common shared field are either both steps of the single back-end thread,
both of the cleanup thread, or hold a common mutex — in particular `full_buffers_` which the
timed hand-over touches under the producer mutex only. -/
theorem C10_lock_discipline (s1 s2 : State) (st1 st2 : Step) (f : Field)
    (h1 : f ∈ touches s1 st1) (h2 : f ∈ touches s2 st2) :
    (st1.thread = .backend ∧ st2.thread = .backend) ∨ (st1.thread = .main ∧ st2.thread = .main) ∨
    ∃ l, l ∈ held true s1 st1 ∧ l ∈ held true s2 st2 :=
  lockset s1 s2 st1 st2 f h1 h2

/-- the annotation is honest about writes: a step changes a shared field only if it lists it -/
theorem C10_footprint (s : State) (st : Step) :
    (Field.curr ∉ touches s st → (step s st).curr = s.curr) ∧
    (Field.full ∉ touches s st → (step s st).full = s.full) ∧
    (Field.free ∉ touches s st → (step s st).free = s.free) ∧
    (Field.buffNum ∉ touches s st → (step s st).buffNum = s.buffNum) ∧
    (Field.stop ∉ touches s st → (step s st).stop = s.stop) :=
  footprint s st

/-- the code AS FOUND (`stop_signal_ = true` outside any lock) violates the discipline: the
write in `cleanup()` and the read in the back end's wait predicate share no mutex. -/
theorem C10_stop_unlocked_counterexample :
    ∃ (s : State) (st1 st2 : Step) (f : Field), f ∈ touches s st1 ∧ f ∈ touches s st2 ∧
      st1.thread ≠ st2.thread ∧ ¬ ∃ l, l ∈ held false s st1 ∧ l ∈ held false s st2 :=
  ⟨init ⟨1, 1, 1, 1⟩ (fun _ => []), .cleanupSignal, .bWake false, .stop, by decide, by decide, by decide,
    by simp [held]⟩

/-- the hypothesis `late = false` of `C10_cleanup_flushes` cannot be dropped: an append that is
in flight when cleanup begins makes `try_lock` fail at the final hand-over, the back end exits,
and the bytes written afterwards are never delivered (outside the property statement, which
speaks of what was appended BEFORE cleanup began; recorded as an observation). -/
theorem C10_cleanup_flushes_needs_quiescence :
    (exec (init ⟨2, 1, 1, 1⟩ (fun p => if p = 0 then [[1]] else []))
      [.acquire 0, .pTake, .cleanupSignal, .bTop, .bWake false, .bGrab, .bPop, .join, .pWrite, .release]).map
      (fun s => (s.joined, s.late, s.delivered, s.acq.map (·.2))) = some (true, true, [], [[1]]) := by decide

/-! ### the trace acceptor's block rule is sound (and its reconstruction certified) -/

/-- **block shape**: in every reachable state the blocks handed to the sink so far (and those still
queued) are each a whole buffer or end exactly at the end of an append — a partial block is only
ever produced by the timed / quit hand-over, which needs the producer lock. -/
theorem C10_blocks_shaped (cfg : Cfg) (prog) (hc : cfg.ok = true) (sts : List Step) (s : State)
    (he : exec (init cfg prog) sts = some s) :
    shaped cfg.size (boundsOf (s.acq.map (·.2))) 0 (s.delivered ++ s.full) = true ∧
    shaped cfg.size (boundsOf (s.acq.map (·.2))) 0 s.delivered = true := by
  have hi := init_inv cfg prog hc
  have h := exec_shapeinv prog sts _ s hi (by simp [ShapeInv, blocksOf, init, shaped]) he
  have hcfg : s.cfg = cfg := exec_cfg _ _ _ he
  unfold ShapeInv blocksOf at h
  rw [hcfg] at h
  exact ⟨h, shaped_prefix _ _ _ _ _ h⟩

/-- **soundness of the acceptor**: the observable of every complete model run (cleanup returned, no
late append) passes `blockRule` — the very function lean/Driver/C10.lean evaluates on the blocks
recorded from the real pipe.  A run the driver rejects by this rule is therefore not a run of the model. -/
theorem C10_observable_accepted (cfg : Cfg) (prog) (hc : cfg.ok = true) (sts : List Step) (s : State)
    (he : exec (init cfg prog) sts = some s) (hj : s.joined = true) (hl : s.late = false) :
    blockRule cfg.size (s.acq.map (·.2)) s.delivered = true := by
  have hw := C10_blocks_wellformed cfg prog hc sts s he
  have hsh := (C10_blocks_shaped cfg prog hc sts s he).2
  have hfl := (C10_cleanup_flushes cfg prog hc sts s he hj hl).1
  simp only [blockRule, Bool.and_eq_true, List.all_eq_true, decide_eq_true_eq, beq_iff_eq]
  exact ⟨⟨hw, hsh⟩, hfl⟩

/-- **reconstruction certified per run**: whatever the reconstruction `schedule` (the function the
driver runs on the observed order of appends and block boundaries) returns, the steps it recorded are
an execution of the model from `init cfg prog` ending in the state it reports; so when it reports no
error and `delivered = observed blocks`, the observed run IS a run of the model. -/
theorem C10_reconstruction_certified (cfg : Cfg) (prog) (order) (bounds : List Nat) (mx : Nat) :
    let a := schedule cfg prog order bounds mx
    exec (init cfg prog) a.rsteps.reverse = some a.s := by
  have h := schedule_certified cfg prog order bounds mx
  have h0 : (schedule cfg prog order bounds mx).s0 = init cfg prog := by
    simp only [schedule, s0_step, s0_backendUntil, s0_flushAll, s0_appends]
  simp only at h ⊢
  rw [h0] at h
  exact h
theorem progOf_zip (ord : List (Nat × List UInt8)) : ∀ (gs : List Bool), gs.length = ord.length → ∀ p,
    progOf ((ord.zip gs).map (fun x => (x.1.1, x.1.2, x.2))) p = (ord.filter (fun a => a.1 == p)).map (·.2) := by
  induction ord with
  | nil => intro gs _ p; simp [progOf]
  | cons a rest ih =>
    intro gs h p
    cases gs with
    | nil => simp at h
    | cons g gs =>
      simp only [List.length_cons, Nat.add_right_cancel_iff] at h
      simp only [List.zip_cons_cons, List.map_cons, progOf, List.filter_cons]
      by_cases hp : a.1 = p
      · simp [hp, ih gs h p]
      · simp [hp, ih gs h p]

/-- **completeness of the model w.r.t. the acceptor's rule** (general, not per run): every observable
of a complete run that `blockRule` accepts — any order `ord` of appends (thread, bytes) and any block
sequence with `blockRule cfg.size (appends) blocks` — is produced by some execution of the model
from `init cfg prog` (`prog` = the per-thread projection of `ord`): cleanup has returned, nothing
was late, the appends were acquired in the order `ord` and the sink received exactly `blocks`.
With `C10_observable_accepted` (soundness): `blockRule` is EXACTLY the set of observables of the model. -/
theorem C10_complete (cfg : Cfg) (hc : cfg.ok = true) (ord : List (Nat × List UInt8)) (blocks : List (List UInt8))
    (prog : Nat → List (List UInt8)) (hprog : ∀ p, prog p = (ord.filter (fun a => a.1 == p)).map (·.2))
    (h7 : ∀ a ∈ ord, a.1 ≠ sinkTid)
    (hr : blockRule cfg.size (ord.map (·.2)) blocks = true) :
    ∃ sts s, exec (init cfg prog) sts = some s ∧ s.joined = true ∧ s.late = false ∧
      s.delivered = blocks ∧ s.acq = ord := by
  have hok := (Cfg.ok_iff cfg).mp hc
  obtain ⟨gs, hg1, hg2⟩ := blockRule_pack cfg.size hok.1 _ _ hr
  simp only [List.length_map] at hg1
  obtain ⟨s, ⟨sts, hex⟩, hj, hl, hd, ha⟩ := realize cfg hok.2.1 hok.1
    ((ord.zip gs).map (fun x => (x.1.1, x.1.2, x.2))) prog [] [] []
    (by intro x hx
        simp only [List.mem_map] at hx
        obtain ⟨y, hy, rfl⟩ := hx
        exact h7 y.1 (List.of_mem_zip hy).1)
    (fun p => by rw [hprog p, progOf_zip ord gs hg1 p]) (by simp only [List.length_nil]; omega)
  have hinit : Q cfg prog (optOf []) none [] [] = init cfg prog := by simp [Q, init, optOf, currCount]
  rw [hinit] at hex
  refine ⟨sts, s, hex, hj, hl, ?_, ?_⟩
  · rw [hd, hg2]
    simp only [List.nil_append, List.map_map]
    congr 1
    clear hg2 hr hprog hex hd ha h7
    induction ord generalizing gs with
    | nil => simp
    | cons a rest ih => cases gs with
      | nil => simp at hg1
      | cons g gs => simp at hg1; simp [ih gs hg1]
  · rw [ha]
    simp only [List.nil_append, List.map_map]
    clear hg2 hr hprog hex hd ha h7
    induction ord generalizing gs with
    | nil => simp
    | cons a rest ih => cases gs with
      | nil => simp at hg1
      | cons g gs => simp at hg1; simp [ih gs hg1]


/-! ### re-entrant use: the sink callback appends to the same pipe -/

/-- locks the back-end thread holds BETWEEN its steps (inside a step see `held`): only the producer
mutex, and only while a nested append made by the sink callback is in progress -/
def backendHolds (s : State) : List Lock :=
  match s.owner with
  | some o => if o.tid = sinkTid then [.currM] else []
  | none => []

/-- **the sink may append**: (1) the back-end thread owns `curr_buffer_mutex_` between steps only inside
a nested append made from the running callback — never `full_buffers_mutex_`; (2) when the callback is
entered (`bPop` delivering a block) the back-end thread holds no mutex at all, in timed, quit and
buffer-full rounds alike; (3) hence a nested append is enabled exactly like any producer's: as soon as
the producer mutex is free — the back end cannot block on itself.  (The seeded variant that keeps the
mutex of the timed hand-over until the end of the round falsifies (2); the re-entrant harness cases
observe it as a `timeout`.) -/
theorem C10_sink_may_append (cfg : Cfg) (prog) (hc : cfg.ok = true) (sts : List Step) (s : State)
    (he : exec (init cfg prog) sts = some s) :
    (backendHolds s ≠ [] → backendHolds s = [.currM] ∧ s.bpc.isInCb = true) ∧
    (valid s .bPop = true → (step s .bPop).bpc.isInCb = true → backendHolds (step s .bPop) = []) ∧
    (s.bpc.isInCb = true → s.owner = none → (s.prog sinkTid).isEmpty = false → s.joined = false →
      valid s (.acquire sinkTid) = true) := by
  have h := exec_inv prog sts _ s (init_inv cfg prog hc) he
  refine ⟨?_, ?_, ?_⟩
  · intro hne
    unfold backendHolds at hne ⊢
    cases ho : s.owner with
    | none => simp [ho] at hne
    | some o =>
      by_cases ht : o.tid = sinkTid
      · exact ⟨by simp [ht], h.shape.sinkOwner o ho ht⟩
      · simp [ho, ht] at hne
  · intro hv _
    have hown : (step s .bPop).owner = s.owner := backend_owner s .bPop rfl
    unfold backendHolds
    rw [hown]
    cases ho : s.owner with
    | none => rfl
    | some o =>
      by_cases ht : o.tid = sinkTid
      · have hin := h.shape.sinkOwner o ho ht
        simp only [valid] at hv
        cases hpc : s.bpc <;> simp [hpc, BPc.isInCb] at hin hv
      · simp [ht]
  · intro hin ho hp hj
    simp [valid, ho, hp, hj, hin]

/-- nested back-pressure: a nested append that needs a buffer when none is free and the limit is
reached waits for the only thread that recycles buffers — itself.  One 2-byte buffer (min = max = 1),
the callback for the first block appends 3 bytes: the back end is stuck for ever (only `cleanupSignal`
remains enabled, `join` never).  This is what the CURRENT code does by design; it is an assumption of
re-entrant use ("a sink appends at most what fits without waiting"), not a defect. -/
theorem C10_nested_backpressure_self_deadlock :
    (exec (init ⟨2, 1, 1, 1⟩ (fun p => if p = 0 then [[1, 2]] else if p = sinkTid then [[7, 8, 9]] else []))
      [.acquire 0, .pTake, .pWrite, .release, .bTop, .bGrab, .bPop, .acquire sinkTid, .pTake]).map
      (fun s => (s.owner.map (fun o => (o.tid, o.blocked)), s.free, s.bpc,
        [Step.pTake, .pWake, .pWrite, .release, .bTop, .bWake true, .bGrab, .bPop, .bCbRet, .bPushFree, .join,
         .acquire 0, .acquire sinkTid].all (fun st => !valid s st))) =
      some (some (sinkTid, true), 0, .inCb false, true) := by decide

/-- a nested append that fits is an ordinary append of the pseudo-producer `sinkTid`: delivered by a later flush -/
example : (exec (init ⟨4, 1, 2, 1⟩ (fun p => if p = 0 then [[1, 2, 3, 4]] else if p = sinkTid then [[9]] else []))
      [.acquire 0, .pTake, .pWrite, .release, .bTop, .bGrab, .bPop, .acquire sinkTid, .pTake, .pWrite, .release,
       .bCbRet, .bPop, .bTop, .bWake true, .bGrab, .bPop, .bCbRet, .bPushFree, .bPop,
       .cleanupSignal, .bTop, .bWake false, .bGrab, .bPop, .join]).map
      (fun s => (s.delivered, s.acq.map (·.1), s.joined, s.late)) = some ([[1, 2, 3, 4], [9]], [0, sinkTid], true, false) := by decide

/-! ### several lifecycles on one object -/

/-- **re-initialisation starts fresh**: after a cleanup that began with no append in flight, what
`cleanup()` leaves behind plus a new `initialize(cfg')` is exactly the initial state of a new
pipe — so every theorem above holds for each `initialize … cleanup` lifecycle of one object. -/
theorem C10_reinit_fresh (cfg : Cfg) (prog) (hc : cfg.ok = true) (sts : List Step) (s : State)
    (he : exec (init cfg prog) sts = some s) (hj : s.joined = true) (hl : s.late = false)
    (cfg' : Cfg) (prog') : reinit s cfg' prog' = init cfg' prog' := by
  obtain ⟨_, hf, _, ho⟩ := C10_cleanup_flushes cfg prog hc sts s he hj hl
  simp [reinit, init, hf, ho]

/-! ### appends concurrent with cleanup (outside the statement; documented) -/

/-- a producer blocked on back-pressure after the back-end thread has exited is stuck for ever:
no step of the model is enabled any more -/
theorem stuck_after_exit (s : State) (o : Owner) (ho : s.owner = some o) (hb : o.blocked = true)
    (hf : s.free = 0) (hx : s.bpc = .exited) (hs : s.stop = true) (hj : s.joined = true) :
    ∀ st, valid s st = false := by
  intro st
  cases st <;> simp [valid, ho, hb, hf, hx, hs, hj]

/-- such a state is reachable when an append is in flight while cleanup begins (1-byte buffer,
one buffer, append of 2 bytes): `cleanup()` returns, the producer never does. -/
theorem C10_late_append_can_block_forever :
    (exec (init ⟨1, 1, 1, 1⟩ (fun p => if p = 0 then [[1, 2]] else []))
      [.acquire 0, .pTake, .cleanupSignal, .bTop, .bWake false, .bGrab, .bPop, .join, .pWrite, .pTake]).map
      (fun s => (s.owner.map (·.blocked), s.free, s.bpc, s.stop, s.joined, s.late)) =
      some (some true, 0, .exited, true, true, true) := by decide

/-! ### fault schedules: allocation failure while the pool grows from min to max (round 5) -/

/-- **allocation failures are survived (repaired code).**  Executions are lists of `XStep`: the atomic steps of the model and,
at ANY point where `appendLockless` would allocate a buffer (`allocFailValid`), the allocator's answer "no"
(`std::bad_alloc` leaves `append`; the caller is told).  For every configuration, program and every such execution:
(1) the stream equation still holds, where `acq` records for a failed append exactly the prefix it had written — nothing
else is lost, duplicated, reordered or torn; (2) `buff_num_` still counts exactly the buffers in existence and stays within
[min, max]; (3) every delivered block is well-formed; (4) callbacks stay serial. -/
theorem C10_alloc_failure_safe (cfg : Cfg) (prog) (hc : cfg.ok = true) (xs : List XStep) (s : State)
    (he : xexec true (init cfg prog) xs = some s) :
    (s.delivered.flatten ++ s.full.flatten ++ currOf s.curr ++ remainOf s.owner = (s.acq.map (·.2)).flatten) ∧
    (cfg.minN ≤ s.buffNum ∧ s.buffNum ≤ cfg.maxN ∧
      s.buffNum = s.free + currCount s.curr + s.full.length + inflight s.bpc) ∧
    (∀ b ∈ s.delivered, 1 ≤ b.length ∧ b.length ≤ cfg.size) ∧ s.active ≤ 1 := by
  have h := xexec_xinv xs _ s (init_xinv cfg prog hc) he
  have hcfg : s.cfg = cfg := xexec_cfg true xs _ s he
  refine ⟨h.stream, ⟨hcfg ▸ h.acc.lo, hcfg ▸ h.acc.hi, h.acc.count⟩, ?_, ?_⟩
  · intro b hb
    have := h.blocks.delivOk b hb
    rwa [hcfg] at this
  · rw [h.shape.active]; cases s.bpc <;> simp [inCbN]

/-- the failed append loses exactly its unwritten rest (and nothing that was already in the pipe): the concatenation of the
recorded appends after the failure, followed by the rest that was dropped, is the concatenation before it -/
theorem C10_alloc_failure_drops_exactly_the_rest (cfg : Cfg) (prog) (hc : cfg.ok = true) (xs : List XStep) (s : State)
    (he : xexec true (init cfg prog) xs = some s) (o : Owner) (ho : s.owner = some o) (fixed : Bool) :
    ((allocFailStep fixed s).acq.map (·.2)).flatten ++ o.remain = (s.acq.map (·.2)).flatten ∧
    (allocFailStep fixed s).owner = none ∧ (allocFailStep fixed s).delivered = s.delivered ∧
    (allocFailStep fixed s).full = s.full ∧ (allocFailStep fixed s).curr = s.curr := by
  have h := xexec_xinv xs _ s (init_xinv cfg prog hc) he
  obtain ⟨ini, pre, hacq⟩ := h.last o ho
  simp only [allocFailStep, ho, hacq, cutLast_snoc, and_self, and_true]
  simp [List.append_assoc]

/-- **no deadlock, cleanup still returns** after any number of allocation failures (repaired code): a blocked producer is
released by the back end alone within `mu s` steps, and after the stop signal the back end alone reaches `join` within
`nu s` steps — exactly as without failures. -/
theorem C10_alloc_failure_no_deadlock (cfg : Cfg) (prog) (hc : cfg.ok = true) (xs : List XStep) (s : State)
    (he : xexec true (init cfg prog) xs = some s) :
    (∀ o, s.owner = some o → o.tid ≠ sinkTid → o.blocked = true → s.bpc ≠ .exited →
      ∃ bs s', (∀ st ∈ bs, st.isBackend = true) ∧ bs.length ≤ mu s ∧ exec s bs = some s' ∧
        0 < s'.free ∧ valid s' .pWake = true) ∧
    (s.stop = true → s.late = false → s.joined = false →
      ∃ bs s', (∀ st ∈ bs, st.isBackend = true) ∧ bs.length ≤ nu s ∧ exec s bs = some s' ∧ valid s' .join = true) := by
  have h := (xexec_xinv xs _ s (init_xinv cfg prog hc) he).toInv
  constructor
  · intro o ho hns hb hne
    obtain ⟨bs, s', hbs, hlen, hex, hfree, how⟩ := backpressure_released _ (mu s + 1) s h o ho hns hb hne (by omega)
    refine ⟨bs, s', hbs, by omega, hex, hfree, ?_⟩
    simp [valid, how, ho, hb, hfree]
  · intro hstop hl hj
    obtain ⟨bs, s', hbs, hlen, hex, hpc, hst, hjn⟩ := cleanup_terminates _ (nu s + 1) s h hstop hl (by omega)
    exact ⟨bs, s', hbs, by omega, hex, by simp [valid, hpc, hst, hjn, hj]⟩

def cfgAF : Cfg := { size := 1, minN := 1, maxN := 2, interval := 1 }
def progAF : Nat → List (List UInt8) := fun p => if p = 0 then [[1, 2]] else if p = 1 then [[3]] else []
/-- thread 0 fills the only buffer, the allocation of the second one fails; thread 1 finds `buff_num_` at the limit and
waits; the back end delivers the block and, seeing `buff_num_ > min`, DELETES the buffer instead of recycling it -/
def stepsAF : List XStep :=
  [.base (.acquire 0), .base .pTake, .base .pWrite, .allocFail, .base (.acquire 1), .base .pTake,
   .base .bTop, .base .bGrab, .base .bPop, .base .bCbRet, .base .bPop]

def deadB (s : State) : Bool :=
  s.free == 0 && s.full.isEmpty && s.curr.isNone && inflight s.bpc == 0 &&
    (match s.owner with | some o => o.blocked | none => false)

theorem deadB_dead (s : State) (h : deadB s = true) : Dead s := by
  unfold deadB at h
  cases ho : s.owner with
  | none => simp [ho] at h
  | some o =>
    simp only [ho, Bool.and_eq_true, beq_iff_eq, List.isEmpty_iff, Option.isNone_iff_eq_none] at h
    exact ⟨h.1.1.1.1, h.1.1.1.2, h.1.1.2, h.1.2, o, ho, h.2⟩

/-- the code AS FOUND (`++buff_num_` before `new Buffer`): ONE failed allocation leaves `buff_num_` counting a buffer that
does not exist; a reachable state has NO buffer anywhere, a producer waiting for one, `buff_num_` = 1 ≠ 0 buffers — and
however long the back end runs, the producer's wake-up is never enabled: the pipe is dead (replayed on the real code:
`P run timeout`).  With the repaired order the same history is covered by `C10_alloc_failure_no_deadlock`. -/
theorem C10_alloc_failure_count_leak_counterexample :
    ∃ s, xexec false (init cfgAF progAF) stepsAF = some s ∧ Dead s ∧
      s.buffNum ≠ s.free + currCount s.curr + s.full.length + inflight s.bpc ∧
      ∀ bs s', (∀ st ∈ bs, st.isBackend = true) → exec s bs = some s' → valid s' .pWake = false := by
  have h : (xexec false (init cfgAF progAF) stepsAF).map
      (fun s => (deadB s, s.buffNum, s.free + currCount s.curr + s.full.length + inflight s.bpc)) = some (true, 1, 0) := by decide
  cases hx : xexec false (init cfgAF progAF) stepsAF with
  | none => simp [hx] at h
  | some s =>
    simp only [hx, Option.map_some, Option.some.injEq, Prod.mk.injEq] at h
    refine ⟨s, rfl, deadB_dead s h.1, by omega, ?_⟩
    intro bs s' hbs hex
    exact (dead_forever bs s s' hbs (deadB_dead s h.1) hex).2

/-- non-vacuity: with the repaired order the same failure is survived — thread 1 allocates, both appends' surviving bytes are delivered -/
example : (xexec true (init cfgAF progAF)
    [.base (.acquire 0), .base .pTake, .base .pWrite, .allocFail, .base (.acquire 1), .base .pTake, .base .pWrite, .base .release,
     .base .bTop, .base .bGrab, .base .bPop, .base .bCbRet, .base .bPop, .base .bCbRet, .base .bPushFree, .base .bPop]).map
    (fun s => (s.delivered, s.acq, s.buffNum, s.free)) = some ([[1], [3]], [(0, [1]), (1, [3])], 1, 1) := by decide

/-! ### the API around a lifecycle (round 5) -/

/-- **initialize validates**: it returns true exactly for an accepted configuration on an object that is not running, and a
refusal leaves the object untouched -/
theorem C10_api_init_validates (o : Obj) (cfg : Cfg) (prog) :
    ((o.initialize true cfg prog .none).2 = .ok ↔ (cfg.ok = true ∧ o.inited = false)) ∧
    ((o.initialize true cfg prog .none).2 = .refused → (o.initialize true cfg prog .none).1 = o) := by
  unfold Obj.initialize
  cases hi : o.inited <;> cases hk : cfg.ok <;> simp

/-- **a second initialize is refused** (repaired code), whatever the configuration and whatever would fail: the running
lifecycle is untouched -/
theorem C10_api_init_twice_refused (o : Obj) (cfg : Cfg) (prog) (f : InitFault) (h : o.inited = true) :
    o.initialize true cfg prog f = (o, .refused) := by
  simp [Obj.initialize, h]

/-- the code AS FOUND has no such check: a second `initialize` with a valid configuration overwrites `cfg_`, pushes into
`free_buffers_` under the running back-end thread and destroys the joinable `std::thread` — `std::terminate` (replayed on
the real code: TSan data race, then abort) -/
theorem C10_api_init_twice_counterexample :
    ∃ (o : Obj) (cfg : Cfg), o.inited = true ∧ cfg.ok = true ∧
      (o.initialize false cfg (fun _ => []) .none).2 = .terminated :=
  ⟨{ inited := true }, ⟨1, 1, 1, 1⟩, rfl, by decide, by decide⟩

/-- **every lifecycle starts fresh**: a successful initialize on an object without stranded buffers starts exactly
`init cfg prog` — the state every theorem of this file starts from -/
theorem C10_api_fresh_lifecycle (o : Obj) (cfg : Cfg) (prog) (hs : o.stranded = 0)
    (hr : (o.initialize true cfg prog .none).2 = .ok) :
    (o.initialize true cfg prog .none).1.life = some (init cfg prog) ∧ (o.initialize true cfg prog .none).1.inited = true := by
  have := (C10_api_init_validates o cfg prog).1.mp hr
  simp [Obj.initialize, this.1, this.2, initOn, hs, init]

/-- **cleanup is idempotent**, a no-op on an object that is not initialised, resets the callback, and the destructor is a cleanup -/
theorem C10_api_cleanup_idempotent (o : Obj) :
    o.cleanup.cleanup = o.cleanup ∧ (o.inited = false → o.cleanup = o) ∧ o.cleanup.inited = false ∧
    (o.inited = true → o.cleanup.cb = false ∧ o.cleanup.stranded = 0) ∧ o.destroy = o.cleanup := by
  unfold Obj.destroy Obj.cleanup
  cases hi : o.inited <;> simp [hi]

/-- an `initialize` that THROWS (thread creation failed) leaves its `buff_min_num` buffers in `free_buffers_`; a later
successful `initialize` on the same object adds its own and counts only those: more buffers exist than `buff_num_` says
(harmless for the stream, outside `C10_buffers_bounded`; `cleanup()` deletes them all).  Destroy or clean up such an object. -/
theorem C10_api_init_threw_strands_buffers_counterexample :
    let o1 := (({} : Obj).initialize true ⟨8, 2, 3, 5⟩ (fun _ => []) .thread)
    let o2 := (o1.1.initialize true ⟨8, 2, 3, 5⟩ (fun _ => []) .none)
    o1.2 = .threw ∧ o2.2 = .ok ∧ o2.1.life.map (fun s => (s.free, s.buffNum)) = some (4, 2) := by decide

/-- **after a quiescent cleanup nothing runs**: once `join` has returned and no append was late, NO step of any thread is
enabled — the unlocked tail of `cleanup()` (deleting `curr_buffer_` and the free buffers, resetting `cb_`) and a following
`initialize()` on the same object execute alone. -/
theorem C10_quiescent_after_cleanup (cfg : Cfg) (prog) (hc : cfg.ok = true) (sts : List Step) (s : State)
    (he : exec (init cfg prog) sts = some s) (hj : s.joined = true) (hl : s.late = false) :
    ∀ st, valid s st = false := by
  have h := exec_inv prog sts _ s (init_inv cfg prog hc) he
  have hx := h.shape.joinedExited hj
  have hstop := h.shape.quitStop (by simp [hx, BPc.quit])
  have ho := (C10_cleanup_flushes cfg prog hc sts s he hj hl).2.2.2
  intro st
  cases st <;> simp [valid, hx, hstop, ho, hj]

/-- a sink callback that calls `cleanup()` on its own pipe waits for its own thread: while the callback runs, `join` is
never enabled (the real code: `std::thread::join` throws EDEADLK out of the callback → `std::terminate`; documented
experiment `exp cbcleanup`).  Outside the statement: the sink must not clean up its own pipe. -/
theorem C10_sink_cannot_join_itself (s : State) (h : s.bpc.isInCb = true) : valid s .join = false := by
  cases hb : s.bpc <;> simp [hb, BPc.isInCb] at h <;> simp [valid, hb]

/-! ### `appendLockless` without `appendLock` (contract violation; counterexample kept) -/

def progNL : Nat → List (List UInt8) := fun p => if p = 0 then [[0xA0, 1, 2]] else if p = 1 then [[0xA1, 3, 4]] else []

/-- two callers of `appendLockless` that do NOT hold the producer lock, 2-byte buffers, loop iterations alternating: each
append is torn across blocks and the stream is rejected by the specification — `appendLock()` is what makes an append
contiguous.  (Serialised as the lock would, the same appends are accepted.) -/
theorem C10_lockless_without_lock_counterexample :
    let run := fun ps => nlRun 2 { rem := fun p => ((progNL p).headD []) } ps
    ((run [0, 1, 0, 1]).out, (run [0, 1, 0, 1]).curr) = ([[0xA0, 1], [0xA1, 3], [2, 4]], []) ∧
    Spec.accept progNL (run [0, 1, 0, 1]).out.flatten = false ∧
    Spec.accept progNL (run [0, 0, 1, 1]).out.flatten = true := by decide

/-! ### round 6: per-thread order under allocation failure, the step-level replay, exact-fill boundaries -/

/-- **per-thread order survives allocation failures** (repaired code).  For every configuration, program, thread `p` and every
execution with allocation failures at ANY enabled points: what has been recorded for `p` in acquisition order is, entry by entry
and in order, the part `orig` of `p`'s program it has issued so far — each append whole, or cut to the prefix it wrote when it
was aborted by `bad_alloc` (`CutsOf`) — and what `p` will still append is exactly the rest of its program.  No append of `p`
overtakes another, none is duplicated, none disappears (an aborted one is still recorded, possibly with the empty prefix). -/
theorem C10_alloc_failure_per_thread_order (cfg : Cfg) (prog) (hc : cfg.ok = true) (xs : List XStep) (s : State)
    (he : xexec true (init cfg prog) xs = some s) (p : Nat) :
    ∃ orig, orig ++ s.prog p = prog p ∧ CutsOf ((s.acq.filter (fun a => a.1 == p)).map (·.2)) orig :=
  xexec_xprog prog xs _ s (init_xinv cfg prog hc) (fun q => ⟨[], by simp [init], by simp [init, CutsOf]⟩) he p

/-- **only failed appends are cut, and at most one per failure.**  There is a list `O` — the appends acquired so far, UNCUT —
that obeys the plain per-thread order law (`O` filtered by thread, followed by what the thread will still append, is its program)
and of which the recorded acquisition list is an entry-by-entry image: same thread, data a prefix (`Cuts2`); the number of
entries that really differ is at most the number of allocation failures in the execution.  In particular an execution without
failures records every append whole (`acq = O`). -/
theorem C10_alloc_failure_order_exact (cfg : Cfg) (prog) (hc : cfg.ok = true) (xs : List XStep) (s : State)
    (he : xexec true (init cfg prog) xs = some s) :
    ∃ O, (∀ p, ((O.filter (fun a => a.1 == p)).map (·.2)) ++ s.prog p = prog p) ∧ Cuts2 s.acq O ∧ nCut s.acq O ≤ nFail xs ∧
      (nFail xs = 0 → s.acq = O) := by
  have h := xexec_xord prog xs _ s 0 (init_xinv cfg prog hc) ⟨[], by intro p; simp [init], by simp [init, Cuts2], by simp [init, nCut]⟩ he
  obtain ⟨O, h1, h2, h3⟩ := h
  refine ⟨O, h1, h2, by simpa using h3, fun h0 => cuts2_eq_of_nCut_zero _ _ h2 (by rw [h0] at h3; omega)⟩

/-- without failures nothing is cut: the fault-tolerant statement specialises to `C10_per_thread_order` -/
example : CutsOf [[1, 2], [3]] [[1, 2, 9], [3]] ∧ ¬ CutsOf [[3], [1, 2]] [[1, 2, 9], [3]] := by
  refine ⟨by simp [CutsOf], ?_⟩
  simp [CutsOf]

/-- **the step-level replay is certified** — for every start state and EVERY event list (well-formed or not): the steps `replay`
(the function lean/Driver/C10.lean runs on the mutex / condition-variable events recorded from the real pipe) has recorded are an
execution of the model from the start state, ending in the state it reports.  A recorded interleaving that `replay` follows to
the end without error IS a model execution; one it cannot follow is reported as a broken correspondence. -/
theorem C10_replay_certified (s0 : State) (evs : List Ev) :
    xexec true s0 (replay s0 evs).core.rsteps.reverse = some (replay s0 evs).core.s :=
  replay_certified s0 evs

/-- hence every theorem about executions applies to what the replay reconstructs: for an accepted configuration, the state the
replay of ANY event list reports satisfies the stream equation, the buffer accounting, well-formed blocks, serial callbacks and
per-thread order (whatever the real pipe did, if the replay followed it, it did nothing the theorems exclude) -/
theorem C10_replay_sound (cfg : Cfg) (prog) (hc : cfg.ok = true) (evs : List Ev) :
    let s := (replay (init cfg prog) evs).core.s
    (s.delivered.flatten ++ s.full.flatten ++ currOf s.curr ++ remainOf s.owner = (s.acq.map (·.2)).flatten) ∧
    (cfg.minN ≤ s.buffNum ∧ s.buffNum ≤ cfg.maxN ∧ s.buffNum = s.free + currCount s.curr + s.full.length + inflight s.bpc) ∧
    (∀ b ∈ s.delivered, 1 ≤ b.length ∧ b.length ≤ cfg.size) ∧ s.active ≤ 1 ∧
    (∀ p, ∃ orig, orig ++ s.prog p = prog p ∧ CutsOf ((s.acq.filter (fun a => a.1 == p)).map (·.2)) orig) := by
  have he := replay_certified (init cfg prog) evs
  obtain ⟨h1, h2, h3, h4⟩ := C10_alloc_failure_safe cfg prog hc _ _ he
  exact ⟨h1, h2, h3, h4, fun p => C10_alloc_failure_per_thread_order cfg prog hc _ _ he p⟩

def mkEvs (l : List (Char × Char × Nat)) : List Ev := l.map fun x => { k := x.1, m := x.2.1, t := x.2.2 }

/-- non-vacuity: a recorded lifecycle (8-byte buffers; thread 0 appends 8 bytes = exactly one buffer while the back end sits in
its timed wait; the hand-over wakes it; cleanup) is followed to the end: no error, joined, not late, the block delivered -/
def evsDemo : List Ev := mkEvs
  [('L','F',9), ('W','F',9), ('L','C',0), ('L','R',0), ('U','R',0), ('L','F',0), ('N','-',0), ('U','F',0), ('U','C',0), ('u','C',0),
   ('X','F',9), ('U','F',9), ('L','F',9), ('U','F',9), ('L','B',9), ('U','B',9), ('L','R',9), ('N','-',9), ('U','R',9),
   ('L','F',9), ('U','F',9), ('L','F',9), ('W','F',9), ('L','F',10), ('U','F',10), ('N','-',10), ('X','F',9), ('U','F',9),
   ('p','C',9), ('T','C',9), ('U','C',9), ('L','F',9), ('U','F',9)]

def progDemo : Nat → List (List UInt8) := fun p => if p = 0 then [[1, 2, 3, 4, 5, 6, 7, 8]] else []

set_option maxRecDepth 20000 in
example : let r := replay (init ⟨8, 1, 2, 5⟩ progDemo) evsDemo
    (r.err, r.core.s.delivered, r.core.s.joined, r.core.s.late, r.noNotify, r.core.rsteps.length) =
      (none, [[1, 2, 3, 4, 5, 6, 7, 8]], true, false, 0, 19) := by decide

set_option maxRecDepth 20000 in
/-- … and a log in which the back end's try_lock SUCCEEDS while the append still holds the producer lock is not followed -/
example : (replay (init ⟨8, 1, 2, 5⟩ progDemo) (mkEvs
    [('L','F',9), ('W','F',9), ('L','C',0), ('X','F',9), ('U','F',9), ('p','C',9), ('T','C',9)])).err.isSome = true := by decide

/-- **exact-fill boundaries** (lesson g: an append equal in size to the space left in `curr_buffer_`, ±1).  One iteration of the
append loop with `k` bytes still to write into a current buffer `b` with `space = size − |b| > 0` bytes left:
`k < space` — everything is written, the buffer stays current, no hand-over; `k = space` — everything is written, the buffer is
EXACTLY full and is handed over, nothing remains and no new buffer is taken (the loop ends with `curr_buffer_ == nullptr`);
`k > space` — `space` bytes are written, the buffer is handed over, `k − space ≥ 1` bytes remain for the next iteration. -/
theorem C10_exact_fill_boundary (s : State) (o : Owner) (b : Buf) (hb : b.length < s.cfg.size) :
    (o.remain.length < s.cfg.size - b.length →
      (writeChunk s o b).full = s.full ∧ (writeChunk s o b).curr = some (b ++ o.remain) ∧
      (writeChunk s o b).owner = some { o with remain := [] }) ∧
    (o.remain.length = s.cfg.size - b.length →
      (writeChunk s o b).full = s.full ++ [b ++ o.remain] ∧ (writeChunk s o b).curr = none ∧
      (writeChunk s o b).owner = some { o with remain := [] }) ∧
    (s.cfg.size - b.length < o.remain.length →
      (writeChunk s o b).full = s.full ++ [b ++ o.remain.take (s.cfg.size - b.length)] ∧ (writeChunk s o b).curr = none ∧
      (writeChunk s o b).owner = some { o with remain := o.remain.drop (s.cfg.size - b.length) } ∧
      (o.remain.drop (s.cfg.size - b.length)).length = o.remain.length - (s.cfg.size - b.length)) := by
  refine ⟨fun h => ?_, fun h => ?_, fun h => ?_⟩
  · have hm : min o.remain.length (s.cfg.size - b.length) = o.remain.length := by omega
    have hne : ¬ (b.length + o.remain.length = s.cfg.size) := by omega
    simp [writeChunk, hm, hne]
  · have hm : min o.remain.length (s.cfg.size - b.length) = o.remain.length := by omega
    have heq : b.length + o.remain.length = s.cfg.size := by omega
    simp [writeChunk, hm, heq]
  · have hm : min o.remain.length (s.cfg.size - b.length) = s.cfg.size - b.length := by omega
    have heq : b.length + (s.cfg.size - b.length) = s.cfg.size := by omega
    have hlen : (o.remain.take (s.cfg.size - b.length)).length = s.cfg.size - b.length := by
      rw [List.length_take]; omega
    have heq2 : (b ++ o.remain.take (s.cfg.size - b.length)).length = s.cfg.size := by rw [List.length_append, hlen]; omega
    unfold writeChunk
    simp only [hm]
    rw [if_pos (by simpa using heq2)]
    exact ⟨rfl, rfl, rfl, by rw [List.length_drop]⟩

/-- an append of exactly `buff_size × buff_max_num` bytes into a fresh pipe fills every buffer the pipe may own and RETURNS
without waiting (back end not even scheduled): 2-byte buffers, at most 2 of them, 4 bytes; with one byte more the producer
blocks on back-pressure — with one byte less the last buffer stays current -/
example : (exec (init ⟨2, 1, 2, 1⟩ (fun p => if p = 0 then [[1, 2, 3, 4]] else []))
    [.acquire 0, .pTake, .pWrite, .pTake, .pWrite, .release]).map (fun s => (s.full, s.curr, s.owner.isNone, s.buffNum, s.free)) =
    some ([[1, 2], [3, 4]], none, true, 2, 0) := by decide
example : (exec (init ⟨2, 1, 2, 1⟩ (fun p => if p = 0 then [[1, 2, 3, 4, 5]] else []))
    [.acquire 0, .pTake, .pWrite, .pTake, .pWrite, .pTake]).map (fun s => (s.full.length, s.owner.map (·.blocked))) =
    some (2, some true) := by decide
example : (exec (init ⟨2, 1, 2, 1⟩ (fun p => if p = 0 then [[1, 2, 3]] else []))
    [.acquire 0, .pTake, .pWrite, .pTake, .pWrite, .release]).map (fun s => (s.full, s.curr)) = some ([[1, 2]], some [3]) := by decide
/-- the timed flush fires at the very moment the buffer became full: the hand-over of the full buffer wins, the timed grab finds
`curr_buffer_ == nullptr` and takes nothing — the block is delivered once -/
example : (exec (init ⟨2, 1, 2, 1⟩ (fun p => if p = 0 then [[1], [2]] else []))
    [.acquire 0, .pTake, .pWrite, .release, .bTop, .bWake true, .acquire 0, .pWrite, .release, .bGrab, .bPop, .bCbRet, .bPushFree, .bPop]).map
    (fun s => (s.delivered, s.full, s.curr)) = some ([[1, 2]], [], none) := by decide

/-! ### non-vacuity: concrete interleavings satisfying the hypotheses -/

def cfg2 : Cfg := { size := 2, minN := 1, maxN := 1, interval := 1 }
def prog2 : Nat → List (List UInt8) := fun p => if p = 0 then [[1, 2, 3]] else if p = 1 then [[9]] else []

/-- one buffer of 2 bytes, thread 0 appends 3 bytes and blocks on back-pressure, the back end
delivers, thread 1 appends 1 byte, timed flush never needed; cleanup flushes the rest -/
def demo : List Step :=
  [.acquire 0, .pTake, .pWrite, .pTake,            -- [1,2] queued, producer blocked (max = 1)
   .bTop, .bGrab, .bPop, .bCbRet, .bPushFree,      -- delivered [1,2], buffer recycled
   .pWake, .pWrite, .release,                      -- [3] in curr
   .acquire 1, .pWrite, .release,                  -- [3,9] full -> queued
   .cleanupSignal, .bPop, .bCbRet, .bPushFree, .bPop, .bTop, .bWake false,   -- delivered [3,9]; stop seen
   .bGrab, .bPop, .join]

example : cfg2.ok = true := by decide
example : (exec (init cfg2 prog2) demo).isSome = true := by decide
example : (exec (init cfg2 prog2) demo).map (fun s => (s.delivered, s.joined, s.late)) =
    some ([[1, 2], [3, 9]], true, false) := by decide
/-- a blocked producer with no free buffer is reachable (hypotheses of part 3 of C10_buffers_bounded) -/
example : (exec (init cfg2 prog2) (demo.take 4)).map
    (fun s => (s.owner.map (·.blocked), s.free, s.bpc != .exited)) = some (some true, 0, true) := by decide
/-- the demo run passes the acceptor's rule, and the reconstruction reproduces it -/
example : blockRule 2 [[1, 2, 3], [9]] [[1, 2], [3, 9]] = true := by decide
example : blockRule 2 [[1, 2, 3], [9]] [[1], [2, 3], [9]] = false := by decide   -- partial block inside an append
example : (schedule cfg2 prog2 [(0, [1, 2, 3]), (1, [9])] [2, 4] 1).err.isNone = true := by decide
example : (schedule cfg2 prog2 [(0, [1, 2, 3]), (1, [9])] [2, 4] 1).s.delivered = [[1, 2], [3, 9]] := by decide
/-- the timed hand-over is refused while an append is in flight (try_lock fails) -/
example : (exec (init cfg2 prog2) [.acquire 0, .pTake, .bTop, .bWake true, .bGrab]).map
    (fun s => (s.curr, s.full)) = some (some [], []) := by decide

end Tbox.C10
