/-
C10 — step-by-step replay of a RECORDED interleaving as a model execution (round 6).

The harness records every operation the pipe's threads make on the pipe's four mutexes and two condition variables
(props/C10/harness.cpp, "step-level event log"): one relaxed counter, stamps taken INSIDE the critical sections only
(`L` right after the mutex was acquired, `U` right before it is released, `W` before a wait releases it, `X` after the wait
re-acquired it, `T` after a successful try_lock).  Two sections of one mutex never interleave in the log, and any two steps of
the model that touch a common field hold a common mutex or belong to one thread (`C10_lock_discipline`), so the log order of
conflicting steps IS their real order.  Three kinds of event lie outside a section and are treated as windows:
`p`/`t` (before / after a try_lock that failed) and `u` (after the producer mutex was really released).

`replay` maps the events to the unique list of model steps (`XStep`: the steps of Model.lean + the allocator's "no"):

  producer p   L C  acquire p            U C  (last, non-filling pWrite) — the release itself at `u C` or at the next acquisition
               L R  pTake when a free buffer exists (no buff_num_ section follows)
               U B  1st section: pTake (blocks: `W R` follows) / allocFail (`U R` follows) / nothing (`L B` follows: it allocates);
                    2nd section (`++buff_num_`): pTake — the allocating pTake is linearised where the counter changes
               X R  pWake (unless the thread waits again: predicate false)          L F  pWrite that fills the buffer
  back end     L F  bTop (+ the first evaluation of the wait predicate) or bPop     X F  bWake (timeout ⇔ the thread does not wait again)
               p/T/t C  bGrab (a round that is neither timed nor quit has no event: bGrab follows at once)
               L B  bCbRet          L R  bPushFree
  cleanup      L F  cleanupSignal;  after the last event: join

Every step goes through `Core.step`, which checks `xvalid` and extends a PROOF that the steps so far are an execution from
`init cfg prog`: whatever the control flow of `replay` does, a `Core` is a certified execution (`replay_certified`).  The model
decides every branch the code takes from its own state (free buffer / allocate / block, buffer full or not, predicate true or
false, try_lock free or held) and the next recorded event of that thread must agree — any disagreement is a failed
reconstruction (M-break in the driver).
-/
import TboxModel.C10.XModel
namespace Tbox.C10

theorem xexec_snoc (s : State) (l : List XStep) (st : XStep) (s1 : State) (h : xexec true s l = some s1)
    (hv : xvalid s1 st = true) : xexec true s (l ++ [st]) = some (xstep true s1 st) := by
  induction l generalizing s with
  | nil => simp [xexec] at h; subst h; simp [xexec, hv]
  | cons x xs ih =>
    simp only [List.cons_append, xexec] at h ⊢
    split
    · rename_i hx; simp only [hx, if_true] at h; exact ih _ h
    · rename_i hx; simp [hx] at h

/-- a model execution from `s0`, carried together with the proof that it is one -/
structure Core (s0 : State) where
  s : State
  rsteps : List XStep                 -- newest first
  cert : xexec true s0 rsteps.reverse = some s

def Core.start (s0 : State) : Core s0 := ⟨s0, [], rfl⟩

/-- the ONLY way a `Core` advances: one enabled step -/
def Core.step {s0} (c : Core s0) (st : XStep) : Option (Core s0) :=
  if h : xvalid c.s st = true then
    some ⟨xstep true c.s st, st :: c.rsteps, by rw [List.reverse_cons]; exact xexec_snoc _ _ _ _ c.cert h⟩
  else none

/-! ### events -/

structure Ev where
  k : Char      -- L U u T t p W X N
  m : Char      -- C F R B -
  t : Nat       -- 0..7 producer, 8 nested append of the sink, 9 back end, 10 cleanup()
deriving Repr, DecidableEq

/-- an event with the look-ahead the replay needs (one backward pass, `annotate`) -/
structure AEv where
  e : Ev
  nk : Char       -- kind / mutex of the next event of the same thread (N and u skipped); '-' = none
  nm : Char
  notif : Bool    -- a notify by this thread follows before its next L / p event
  nacq : Nat      -- thread of the next `L C` event (no `T C` before it); 99 = none
deriving Repr

structure Look where
  nxt : Array (Char × Char) := Array.replicate 11 ('-', '-')
  nseen : Array Bool := Array.replicate 11 false
  nacq : Nat := 99

def annotate (evs : List Ev) : List AEv :=
  (evs.foldr (fun e (acc : List AEv × Look) =>
    let lk := acc.2
    let nx := lk.nxt.getD e.t ('-', '-')
    let a : AEv := { e := e, nk := nx.1, nm := nx.2, notif := lk.nseen.getD e.t false, nacq := lk.nacq }
    let lk' : Look :=
      if e.k == 'N' then { lk with nseen := lk.nseen.setIfInBounds e.t true }
      else if e.k == 'u' then lk
      else { nxt := lk.nxt.setIfInBounds e.t (e.k, e.m),
             nseen := if e.k == 'L' || e.k == 'p' then lk.nseen.setIfInBounds e.t false else lk.nseen,
             nacq := if e.m == 'C' && e.k == 'L' then e.t else if e.m == 'C' && e.k == 'T' then 99 else lk.nacq }
    (a :: acc.1, lk')) ([], {})).1

/-! ### the replay -/

structure Rp (s0 : State) where
  core : Core s0
  err : Option String := none
  n : Nat := 0
  pendRel : Option Nat := none     -- producer whose `U C` was seen; its `release` is applied at `u C` / the next acquisition
  hoisted : Option Nat := none     -- producer whose `acquire` was applied ahead of its `L C` event (explains a failed try_lock)
  tlDone : Bool := false           -- the failing try_lock in progress has already been replayed
  tlPending : Bool := false        -- a try_lock that will fail is in progress and nothing holds the producer lock yet
  bsec : Array Nat := Array.replicate 9 0   -- buff_num_ sections seen inside the current free_buffers_ section, per producer
  noNotify : Nat := 0              -- hand-overs / recycles / stop signals with no notify following
  blockedSeen : Bool := false
  spurious : Nat := 0              -- wake-ups of a wait with the predicate still false
  windowFix : Nat := 0             -- failed try_locks explained through a window (hoisted acquire / lazy release)
  beHoldsC : Bool := false         -- the back end holds the producer mutex (between a successful try_lock and its unlock)

variable {s0 : State}

def Rp.fail (a : Rp s0) (msg : String) : Rp s0 :=
  if a.err.isSome then a else { a with err := some s!"event #{a.n}: {msg}" }

def Rp.st (a : Rp s0) (x : XStep) : Rp s0 :=
  if a.err.isSome then a else
  match a.core.step x with
  | some c => { a with core := c }
  | none => a.fail s!"model step {repr x} is not enabled"

def Rp.b (a : Rp s0) (s : Step) : Rp s0 := a.st (.base s)

def Rp.req (a : Rp s0) (c : Bool) (msg : String) : Rp s0 := if c then a else a.fail msg

def Rp.flushRel (a : Rp s0) : Rp s0 :=
  match a.pendRel with
  | some _ => { (a.b .release) with pendRel := none }
  | none => a

/-- a round that is neither timed nor quit skips the try_lock: `bGrab` has no event and follows at once -/
def Rp.autoGrab (a : Rp s0) : Rp s0 :=
  match a.core.s.bpc with
  | .woke t q => if !(t || q) then a.b .bGrab else a
  | _ => a

def isWaiting (s : State) : Bool := s.bpc == .waiting

def Rp.setB (a : Rp s0) (p k : Nat) : Rp s0 := { a with bsec := a.bsec.setIfInBounds p k }

def Rp.producer (a : Rp s0) (x : AEv) : Rp s0 :=
  let p := x.e.t
  let s := a.core.s
  match x.e.k, x.e.m with
  | 'L', 'C' =>
    if a.hoisted == some p then { a with hoisted := none } else
    let a := (a.flushRel).b (.acquire p)
    if a.tlPending then { (a.b .bGrab) with tlDone := true, tlPending := false, windowFix := a.windowFix + 1 } else a
  | 'U', 'C' =>
    match s.owner with
    | some o =>
      if o.tid != p then a.fail s!"thread {p} releases the producer lock, the model's owner is thread {o.tid}" else
      let a := if o.remain.isEmpty then a
               else (a.req (!fills s) "the append returns without a hand-over, in the model its last write fills the buffer").b .pWrite
      let a := a.req ((match a.core.s.owner with | some o' => o'.remain.isEmpty | none => false))
                 "the append returns with data still unwritten in the model"
      { a with pendRel := some p }
    | none => a          -- the append was aborted by an allocation failure: the model released at `allocFail`
  | 'u', 'C' => if a.pendRel == some p then a.flushRel else a
  | 'L', 'R' =>
    let a := { a with bsec := a.bsec.setIfInBounds p 0 }
    if x.nk == 'L' && x.nm == 'B' then a.req (s.free == 0) "free_buffers_ empty in the code, not in the model"
    else (a.req (decide (0 < s.free)) "a free buffer is taken in the code, the model has none").b .pTake
  | 'L', 'B' => a
  | 'U', 'B' =>
    let k := a.bsec.getD p 0
    if k == 0 then
      match x.nk, x.nm with
      | 'L', 'B' => (a.req (decide (s.buffNum < s.cfg.maxN)) "the code grows the pool, buff_num_ is at the limit in the model").setB p 1
      | 'W', 'R' =>
        let a := ((a.req (!decide (s.buffNum < s.cfg.maxN)) "the code waits for a buffer, the model may still allocate").b .pTake)
        { (a.setB p 1) with blockedSeen := true }
      | 'U', 'R' => (a.st .allocFail).setB p 1
      | _, _ => a.fail "unexpected continuation after the buff_num_ section of an append"
    else if k == 1 then
      ((a.req (s.free == 0 && decide (s.buffNum < s.cfg.maxN)) "++buff_num_ in the code, the model cannot allocate here").b .pTake).setB p 2
    else a.fail "a third buff_num_ section inside one free_buffers_ section"
  | 'W', 'R' => a
  | 'X', 'R' => if x.nk == 'W' then { a with spurious := a.spurious + 1 } else a.b .pWake
  | 'U', 'R' => a
  | 'L', 'F' =>
    let a := (a.req (fills s) "hand-over of the current buffer in the code, in the model it is not full").b .pWrite
    if x.notif then a else { a with noNotify := a.noNotify + 1 }
  | 'U', 'F' => a
  | 'N', _ => a
  | k, m => a.fail s!"unexpected event {k}{m} of producer {p}"

def Rp.backend (a : Rp s0) (x : AEv) : Rp s0 :=
  let a := if a.pendRel == some sinkTid then a.flushRel else a
  -- the timed hand-over is ONE atomic region: nothing but the unlock may follow the successful try_lock (C10_sink_may_append (2):
  -- the back end holds no mutex when it enters the sink callback)
  let a := a.req (!a.beHoldsC || (x.e.k == 'U' && x.e.m == 'C') || x.e.k == 'N')
             "the back end keeps the producer mutex beyond the timed hand-over"
  let s := a.core.s
  match x.e.k, x.e.m with
  | 'L', 'F' =>
    match s.bpc with
    | .top =>
      let a := a.b .bTop
      let a := if isWaiting a.core.s then a.b (.bWake false) else a     -- wait_for evaluates its predicate before it waits
      a.autoGrab
    | .drain _ => a.b .bPop
    | _ => a.fail "the back end locks full_buffers_mutex_, the model is neither at the top of a round nor draining"
  | 'W', 'F' => a.req (isWaiting s) "the back end waits, the wait predicate is true in the model"
  | 'X', 'F' =>
    let a := a.req (isWaiting s) "the back end returns from a wait the model is not in"
    if x.nk == 'W' then
      let a := a.b (.bWake false)
      { (a.req (isWaiting a.core.s) "the back end waits again, the wait predicate is true in the model") with spurious := a.spurious + 1 }
    else (a.b (.bWake true)).autoGrab
  | 'U', 'F' => a
  | 'p', 'C' =>
    let ok := match s.bpc with | .woke t q => t || q | _ => false
    let a := a.req ok "try_lock in the code, the model's round is neither timed nor quit"
    if x.nk == 't' then
      if s.owner.isSome then { (a.b .bGrab) with tlDone := true } else { a with tlPending := true }
    else a
  | 'T', 'C' =>
    let a := a.flushRel
    { ((a.req a.core.s.owner.isNone "try_lock succeeded in the code while an append holds the producer lock in the model").b .bGrab)
      with beHoldsC := true }
  | 't', 'C' =>
    if a.tlDone then { a with tlDone := false } else
    let a := { a with tlPending := false }
    if s.owner.isSome then a.b .bGrab
    else if x.nacq ≤ 7 then
      { (((a.b (.acquire x.nacq)).b .bGrab)) with hoisted := some x.nacq, windowFix := a.windowFix + 1 }
    else a.fail "try_lock failed in the code, no append holds or is about to hold the producer lock"
  | 'U', 'C' => { a with beHoldsC := false }
  | 'L', 'B' => a.b .bCbRet
  | 'U', 'B' => a
  | 'L', 'R' =>
    let a := a.b .bPushFree
    if x.notif then a else { a with noNotify := a.noNotify + 1 }
  | 'U', 'R' => a
  | 'N', _ => a
  | k, m => a.fail s!"unexpected event {k}{m} of the back end"

def Rp.cleaner (a : Rp s0) (x : AEv) : Rp s0 :=
  match x.e.k, x.e.m with
  | 'L', 'F' =>
    let a := (a.flushRel).b .cleanupSignal
    if x.notif then a else { a with noNotify := a.noNotify + 1 }
  | 'U', 'F' => a
  | 'N', _ => a
  | k, m => a.fail s!"unexpected event {k}{m} of the thread inside cleanup()"

def Rp.event (a : Rp s0) (x : AEv) : Rp s0 :=
  if a.err.isSome then a else
  let a := { a with n := a.n + 1 }
  if x.e.t ≤ 8 then a.producer x
  else if x.e.t == 9 then a.backend x
  else if x.e.t == 10 then a.cleaner x
  else a.fail "event of an unknown thread"

/-- replay a whole recorded lifecycle: all events, then `join` (the back end must have exited) -/
def replay (s0 : State) (evs : List Ev) : Rp s0 :=
  let a : Rp s0 := { core := Core.start s0 }
  let a := (annotate evs).foldl Rp.event a
  let a := a.flushRel
  let a := a.req (a.core.s.bpc == .exited) "the log ends, the back end has not exited in the model"
  a.b .join

/-- **the replay is certified**: whatever `replay` returns — for EVERY start state and event list — the steps it
recorded are an execution of the model (with allocation failures as oracle steps) from that state ending in the state it
reports.  When it reports no error, every recorded event was matched by an enabled model step, and if moreover
`delivered = the observed blocks`, the recorded interleaving of the real pipe IS that model execution. -/
theorem replay_certified (s0 : State) (evs : List Ev) :
    xexec true s0 (replay s0 evs).core.rsteps.reverse = some (replay s0 evs).core.s :=
  (replay s0 evs).core.cert

end Tbox.C10
