/-
C10 — reconstruction of a model interleaving from an observed run (used by the driver), with a
certificate: whatever `schedule` returns, the step list it recorded IS an execution of the model
from `init cfg prog` ending in the state it reports (`schedule_certified`).  So when the driver
finds `err = none` and `delivered = observed blocks`, a model execution with exactly that
observable exists — completeness of the model w.r.t. that run, checked per run.
-/
import TboxModel.C10.Model
namespace Tbox.C10

structure Sch where
  s0 : State
  s : State
  rsteps : List Step := []        -- steps taken so far, newest first
  n : Nat := 0
  err : Option String := none
  blockedSeen : Bool := false

def Sch.step (a : Sch) (st : Step) : Sch :=
  if a.err.isSome then a
  else if valid a.s st then { a with s := Tbox.C10.step a.s st, rsteps := st :: a.rsteps, n := a.n + 1 }
  else { a with err := some s!"model step {repr st} is not enabled after {a.n} steps" }

/-- run the back-end thread alone until `p` holds -/
def Sch.backendUntil (a : Sch) (p : State → Bool) : Nat → Sch
  | 0 => if a.err.isSome || p a.s then a else { a with err := some "back end makes no progress in the model" }
  | fuel + 1 =>
    if a.err.isSome || p a.s then a else
    match beNext a.s with
    | some st => (a.step st).backendUntil p fuel
    | none => { a with err := some "back end has exited in the model" }

/-- the chunk loop of one append: take a buffer if needed (waiting for the back end when blocked), write -/
def Sch.appendLoop (a : Sch) : Nat → Sch
  | 0 => a
  | fuel + 1 =>
    if a.err.isSome then a else
    match a.s.owner with
    | none => a
    | some o =>
      if o.remain.isEmpty then a else
      let a1 := if a.s.curr.isNone then
                  let a2 := a.step .pTake
                  match a2.s.owner with
                  | some o' => if o'.blocked then
                      ({ a2 with blockedSeen := true }.backendUntil (fun s => decide (0 < s.free)) (8 * (a2.s.buffNum + 2))).step .pWake
                    else a2
                  | none => a2
                else a
      (a1.step .pWrite).appendLoop fuel

/-- one whole `append` of thread `p` (the head of its program) -/
def Sch.appendOne (a : Sch) (p : Nat) : Sch :=
  let a := a.step (.acquire p)
  let fuel := match a.s.owner with | some o => o.remain.length + 2 | none => 0
  (a.appendLoop fuel).step .release

/-- appends of length 0 at the head of thread p's program -/
def Sch.flushEmpties (a : Sch) (p : Nat) : Nat → Sch
  | 0 => a
  | fuel + 1 =>
    if a.err.isSome then a else
    match a.s.prog p with
    | [] :: _ => (a.appendOne p).flushEmpties p fuel
    | _ => a

/-- an append by the sink callback (`sinkTid`) needs the back end inside a callback: advance it to the
next one.  Only buffers that are already queued are delivered for that (no timed hand-over is forced). -/
def Sch.hostNested (a : Sch) (p : Nat) : Sch :=
  if p != sinkTid || a.err.isSome || a.s.bpc.isInCb then a
  else if a.s.full.isEmpty then { a with err := some "no sink callback in progress or pending to host the nested append" }
  else a.backendUntil (fun s => s.bpc.isInCb) (8 * (a.s.buffNum + 3))

/-- the appends in observed order; `w` = stream offset so far; a block boundary at the end of an
append with a partial current buffer = the timed hand-over took it there -/
def Sch.appends (a : Sch) (bounds : List Nat) (maxEmpties : Nat) (w : Nat) : List (Nat × List UInt8) → Sch
  | [] => a
  | pd :: rest =>
    let a := a.hostNested pd.1
    let a1 := (a.flushEmpties pd.1 maxEmpties).appendOne pd.1
    let w1 := w + pd.2.length
    let a2 := if a1.s.curr.isSome && bounds.contains w1 then
                a1.backendUntil (fun s => s.curr.isNone) (8 * (a1.s.buffNum + 3))
              else a1
    a2.appends bounds maxEmpties w1 rest

def Sch.flushAll (a : Sch) (maxEmpties : Nat) : List Nat → Sch
  | [] => a
  | p :: ps => (a.flushEmpties p maxEmpties).flushAll maxEmpties ps

def schedule (cfg : Cfg) (prog : Nat → List (List UInt8)) (order : List (Nat × List UInt8))
    (bounds : List Nat) (maxEmpties : Nat) : Sch :=
  let a0 : Sch := { s0 := init cfg prog, s := init cfg prog }
  let a := a0.appends bounds maxEmpties 0 order
  let a := a.flushAll maxEmpties (List.range 8)
  let a := a.step .cleanupSignal
  let a := a.backendUntil (fun s => s.bpc == .exited) (8 * (a.s.buffNum + 4))
  a.step .join

/-! ### the certificate -/

def Cert (a : Sch) : Prop := exec a.s0 a.rsteps.reverse = some a.s

theorem exec_snoc (s : State) (l : List Step) (st : Step) (s1 : State) (h : exec s l = some s1)
    (hv : valid s1 st = true) : exec s (l ++ [st]) = some (step s1 st) := by
  induction l generalizing s with
  | nil => simp [exec] at h; subst h; simp [exec, hv]
  | cons x xs ih =>
    simp only [List.cons_append, exec] at h ⊢
    split
    · rename_i hx; simp only [hx, if_true] at h; exact ih _ h
    · rename_i hx; simp [hx] at h

theorem cert_step (a : Sch) (st : Step) (h : Cert a) : Cert (a.step st) := by
  unfold Sch.step
  split
  · exact h
  · split
    · rename_i hv
      simp only [Cert, List.reverse_cons]
      exact exec_snoc _ _ _ _ h hv
    · exact h

theorem cert_backendUntil (p : State → Bool) (fuel : Nat) : ∀ (a : Sch), Cert a → Cert (a.backendUntil p fuel) := by
  induction fuel with
  | zero => intro a h; unfold Sch.backendUntil; split <;> exact h
  | succ n ih =>
    intro a h
    unfold Sch.backendUntil
    split
    · exact h
    · split
      · exact ih _ (cert_step a _ h)
      · exact h

theorem cert_appendLoop (fuel : Nat) : ∀ (a : Sch), Cert a → Cert (a.appendLoop fuel) := by
  induction fuel with
  | zero => intro a h; exact h
  | succ n ih =>
    intro a h
    unfold Sch.appendLoop
    split
    · exact h
    · split
      · exact h
      · split
        · exact h
        · apply ih
          apply cert_step
          split
          · dsimp only
            split
            · split
              · apply cert_step
                apply cert_backendUntil
                exact cert_step a _ h
              · exact cert_step a _ h
            · exact cert_step a _ h
          · exact h

theorem cert_appendOne (a : Sch) (p : Nat) (h : Cert a) : Cert (a.appendOne p) := by
  unfold Sch.appendOne
  exact cert_step _ _ (cert_appendLoop _ _ (cert_step a _ h))

theorem cert_flushEmpties (p : Nat) (fuel : Nat) : ∀ (a : Sch), Cert a → Cert (a.flushEmpties p fuel) := by
  induction fuel with
  | zero => intro a h; exact h
  | succ n ih =>
    intro a h
    unfold Sch.flushEmpties
    split
    · exact h
    · split
      · exact ih _ (cert_appendOne a p h)
      · exact h

theorem cert_hostNested (a : Sch) (p : Nat) (h : Cert a) : Cert (a.hostNested p) := by
  unfold Sch.hostNested
  split
  · exact h
  · split
    · exact h
    · exact cert_backendUntil _ _ _ h

theorem cert_appends (bounds : List Nat) (mx : Nat) (l : List (Nat × List UInt8)) :
    ∀ (a : Sch) (w : Nat), Cert a → Cert (a.appends bounds mx w l) := by
  induction l with
  | nil => intro a w h; exact h
  | cons pd rest ih =>
    intro a w h
    unfold Sch.appends
    apply ih
    have h1 := cert_appendOne _ pd.1 (cert_flushEmpties pd.1 mx _ (cert_hostNested a pd.1 h))
    split
    · exact cert_backendUntil _ _ _ h1
    · exact h1

theorem cert_flushAll (mx : Nat) (ps : List Nat) : ∀ (a : Sch), Cert a → Cert (a.flushAll mx ps) := by
  induction ps with
  | nil => intro a h; exact h
  | cons p ps ih => intro a h; unfold Sch.flushAll; exact ih _ (cert_flushEmpties p mx a h)

theorem s0_step (a : Sch) (st : Step) : (a.step st).s0 = a.s0 := by
  unfold Sch.step; split; rfl; split <;> rfl

theorem s0_backendUntil (p : State → Bool) (fuel : Nat) : ∀ (a : Sch), (a.backendUntil p fuel).s0 = a.s0 := by
  induction fuel with
  | zero => intro a; unfold Sch.backendUntil; split <;> rfl
  | succ n ih =>
    intro a; unfold Sch.backendUntil
    split
    · rfl
    · split
      · rw [ih, s0_step]
      · rfl

theorem s0_appendLoop (fuel : Nat) : ∀ (a : Sch), (a.appendLoop fuel).s0 = a.s0 := by
  induction fuel with
  | zero => intro a; rfl
  | succ n ih =>
    intro a; unfold Sch.appendLoop
    split
    · rfl
    · split
      · rfl
      · split
        · rfl
        · rw [ih, s0_step]
          split
          · dsimp only
            split
            · split
              · rw [s0_step, s0_backendUntil]; exact s0_step a _
              · exact s0_step a _
            · exact s0_step a _
          · rfl

theorem s0_appendOne (a : Sch) (p : Nat) : (a.appendOne p).s0 = a.s0 := by
  unfold Sch.appendOne; rw [s0_step, s0_appendLoop, s0_step]

theorem s0_flushEmpties (p : Nat) (fuel : Nat) : ∀ (a : Sch), (a.flushEmpties p fuel).s0 = a.s0 := by
  induction fuel with
  | zero => intro a; rfl
  | succ n ih =>
    intro a; unfold Sch.flushEmpties
    split
    · rfl
    · split
      · rw [ih, s0_appendOne]
      · rfl

theorem s0_hostNested (a : Sch) (p : Nat) : (a.hostNested p).s0 = a.s0 := by
  unfold Sch.hostNested
  split
  · rfl
  · split
    · rfl
    · exact s0_backendUntil _ _ _

theorem s0_appends (bounds : List Nat) (mx : Nat) (l : List (Nat × List UInt8)) :
    ∀ (a : Sch) (w : Nat), (a.appends bounds mx w l).s0 = a.s0 := by
  induction l with
  | nil => intro a w; rfl
  | cons pd rest ih =>
    intro a w; unfold Sch.appends; rw [ih]
    split
    · rw [s0_backendUntil, s0_appendOne, s0_flushEmpties, s0_hostNested]
    · rw [s0_appendOne, s0_flushEmpties, s0_hostNested]

theorem s0_flushAll (mx : Nat) (ps : List Nat) : ∀ (a : Sch), (a.flushAll mx ps).s0 = a.s0 := by
  induction ps with
  | nil => intro a; rfl
  | cons p ps ih => intro a; unfold Sch.flushAll; rw [ih, s0_flushEmpties]

/-- **certificate**: the recorded steps are a model execution from `init cfg prog` ending in the reported state -/
theorem schedule_certified (cfg : Cfg) (prog) (order) (bounds : List Nat) (mx : Nat) :
    let a := schedule cfg prog order bounds mx
    exec a.s0 a.rsteps.reverse = some a.s := by
  unfold schedule
  simp only
  apply cert_step
  apply cert_backendUntil
  apply cert_step
  apply cert_flushAll
  apply cert_appends
  simp [Cert, exec]

end Tbox.C10
