/-
C10 — abstract specification, executable: "the delivered byte stream is an interleaving of
the appended byte strings in which every append is contiguous and each producer thread's
appends keep their order; nothing is lost or duplicated".

To make the decision deterministic the harness appends *tagged* strings: the first byte of a
non-empty append identifies the producer thread (`0xA0 + tid`, tid < 8; tid 8 = the sink callback's own
nested appends, an ordinary pseudo-producer).  `parse` then reads the
stream left to right: the first byte names the thread, the next pending (non-empty) append of
that thread must be a prefix of what is left.  `accept` additionally demands that nothing
pending is left over.  `parse_sound`: an accepted stream IS the concatenation of the order found.
-/
namespace Tbox.C10.Spec

def tidOfByte (b : UInt8) : Option Nat :=
  if 0xA0 ≤ b.toNat ∧ b.toNat < 0xA9 then some (b.toNat - 0xA0) else none

/-- zero-length appends leave no trace in the stream -/
def dropEmpties : List (List UInt8) → List (List UInt8)
  | [] :: rest => dropEmpties rest
  | l => l

abbrev Prog := Nat → List (List UInt8)

def Prog.set (g : Prog) (p : Nat) (l : List (List UInt8)) : Prog := fun q => if q = p then l else g q

/-- left-to-right parse; returns the order of appends found and what is still pending -/
def parse : Nat → Prog → List UInt8 → Option (List (Nat × List UInt8) × Prog)
  | 0, _, _ => none
  | _ + 1, g, [] => some ([], g)
  | fuel + 1, g, b :: rest =>
      match tidOfByte b with
      | none => none
      | some p =>
          match dropEmpties (g p) with
          | [] => none
          | d :: ds =>
              if d.isPrefixOf (b :: rest) then
                match parse fuel (g.set p ds) ((b :: rest).drop d.length) with
                | some (ord, g') => some ((p, d) :: ord, g')
                | none => none
              else none

/-- the whole decision: the stream parses and no thread (0..8) has a non-empty append pending -/
def accept (g : Prog) (stream : List UInt8) : Bool :=
  match parse (stream.length + 1) g stream with
  | some (_, g') => (List.range 9).all fun p => (dropEmpties (g' p)).isEmpty
  | none => false

theorem isPrefixOf_take_drop {α} [BEq α] [LawfulBEq α] {d l : List α} (h : d.isPrefixOf l = true) :
    l = d ++ l.drop d.length := by
  have := List.isPrefixOf_iff_prefix.mp h
  obtain ⟨t, ht⟩ := this
  subst ht
  simp

/-- an accepted stream is exactly the concatenation of the appends in the order found:
every append contiguous, nothing between them -/
theorem parse_sound (fuel : Nat) (g : Prog) (s : List UInt8) (ord) (g' : Prog)
    (h : parse fuel g s = some (ord, g')) : s = (ord.map (·.2)).flatten := by
  induction fuel generalizing g s ord g' with
  | zero => simp [parse] at h
  | succ n ih =>
    cases s with
    | nil => simp [parse] at h; obtain ⟨h1, _⟩ := h; subst h1; simp
    | cons b rest =>
      simp only [parse] at h
      split at h
      · cases h
      · rename_i p _
        split at h
        · cases h
        · rename_i d ds _
          split at h
          · rename_i hp
            split at h
            · rename_i ord' g'' hrec
              cases h
              have := ih _ _ _ _ hrec
              simp only [List.map_cons, List.flatten_cons]
              rw [← this]
              exact isPrefixOf_take_drop hp
            · cases h
          · cases h

end Tbox.C10.Spec
