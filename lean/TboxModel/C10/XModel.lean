/-
C10 — the model extended by the allocator's answers (round 5; split off in round 6 so that the driver can link it):
`XStep.allocFail` = `new Buffer` throws `std::bad_alloc` while the pool grows (async_pipe.cpp l.270); the exception leaves
`append`, both lock guards release, the caller is told.  Enabled exactly where `pTake` would allocate.  `fixed = false` is the
code as found (`++buff_num_` BEFORE the allocation), `fixed = true` the repaired order.  Ghost: the aborted append stays in
`acq` with exactly the prefix it wrote (`cutLast`).
-/
import TboxModel.C10.Model
namespace Tbox.C10

/-! ### (1) allocation failure -/

inductive XStep where
  | base (st : Step)
  | allocFail
deriving Repr, DecidableEq

/-- enabled exactly where `pTake` would allocate: the owner runs, needs a buffer, none is free, the limit is not reached -/
def allocFailValid (s : State) : Bool :=
  match s.owner with
  | some o => !o.blocked && !o.remain.isEmpty && s.curr.isNone && s.free == 0 && decide (s.buffNum < s.cfg.maxN)
  | none => false

/-- the last acquired append keeps only what it wrote: its last `k` bytes never entered the pipe -/
def cutLast (acq : List (Nat × List UInt8)) (k : Nat) : List (Nat × List UInt8) :=
  match acq.getLast? with
  | some (p, d) => acq.dropLast ++ [(p, d.take (d.length - k))]
  | none => acq

def allocFailStep (fixed : Bool) (s : State) : State :=
  match s.owner with
  | some o => { s with owner := none, buffNum := if fixed then s.buffNum else s.buffNum + 1,
                       acq := cutLast s.acq o.remain.length, late := s.late || s.stop }
  | none => s

def xvalid (s : State) : XStep → Bool
  | .base st => valid s st
  | .allocFail => allocFailValid s

def xstep (fixed : Bool) (s : State) : XStep → State
  | .base st => step s st
  | .allocFail => allocFailStep fixed s

def xexec (fixed : Bool) (s : State) : List XStep → Option State
  | [] => some s
  | st :: sts => if xvalid s st then xexec fixed (xstep fixed s st) sts else none

/-- state of a lifecycle started on an object that carries `extra` stranded buffers -/
def initOn (extra : Nat) (cfg : Cfg) (prog : Nat → List (List UInt8)) : State :=
  { init cfg prog with free := cfg.minN + extra }

theorem initOn_zero (cfg : Cfg) (prog : Nat → List (List UInt8)) : initOn 0 cfg prog = init cfg prog := by
  simp [initOn, init]

end Tbox.C10
