/-
C11 — arena model of `tbox::main::Module` WITH user hooks that call back into the module
tree (hook scripts).

All modules live in one store indexed by their identity, so a hook of one module can call the
public API of ANY other module (itself, an ancestor, a sibling, the root, a free-standing
module), `add()` children, or throw.  `initialize / start / stop / cleanup` are the same
transcription of module.cpp as in Model.lean, but by recursion on fuel (a hook may re-enter
anything) and with index loops over `children_` (a hook may `add()` to the vector that is being
walked).  `g` selects the code:

* `g = true`  — module.cpp with patches/C11-02 (a lifecycle call on a module that is already
  inside one of its lifecycle functions is refused; index loops);
* `g = false` — module.cpp before that patch (re-entrant calls go through).
* `x = true`  — module.cpp with patches/C11-07 (an exception that leaves a child's `initialize()` /
  `start()` is caught by the parent, which rolls back exactly as for a failing required child and
  rethrows);  `x = false` — before that patch: no try/catch anywhere, the exception unwinds every frame.

Hook scripts are one-shot: the script of a hook is taken (and cleared) when the hook runs.
The event of a hook is recorded when the hook returns (after its script); a hook that throws is
recorded as a failed `onInit`/`onStart` resp. as a run `onStop`/`onCleanup`, and the exception
propagates to the caller of the outermost API function (the scope-exit action restores the
re-entrancy flag of every frame it passes).  `td` is set when the exception left an `onStop` /
`onCleanup` hook: module.cpp does not (and cannot sensibly) recover from a teardown hook that
throws — `~Module()` is `noexcept`, so on the destructor path it is `std::terminate` — and the
theorems exclude such runs through `td = false`.  Running out of fuel is reported like an exception
with `oof` set (the driver prints it; the theorems exclude it through `oof = false`).
-/
import TboxModel.C11.Model
namespace Tbox.C11.Arena
open Tbox.C11

inductive Api | init | start | stop | cleanup
  deriving DecidableEq, Repr

inductive Hook | onInit | onStart | onStop | onCleanup
  deriving DecidableEq, Repr

/-- one step of a hook script -/
inductive Act where
  | call (target : Nat) (api : Api)        -- target->api()  (result ignored)
  | add (parent child : Nat) (req : Bool)  -- parent->add(child, req) of an existing free-standing module
  | throw                                  -- throw std::runtime_error
  deriving DecidableEq, Repr

structure Node where
  alive : Bool := false
  dying : Bool := false        -- its destructor has begun
  named : Bool := false
  cfg : Bool := false
  initOk : Bool := false
  startOk : Bool := false
  st : St := .none
  busy : Bool := false         -- inside one of its own lifecycle functions (patch C11-02)
  hasParent : Bool := false
  parent : Nat := 0
  kids : List (Nat × Bool) := []
  sInit : List Act := []
  sStart : List Act := []
  sStop : List Act := []
  sCleanup : List Act := []
  deriving Repr, Inhabited

/-- all modules by identity (association list: latest binding first; absent = dead default) -/
structure Store where
  l : List (Nat × Node) := []

def Store.get (σ : Store) (n : Nat) : Node :=
  match σ.l.find? (fun p => p.1 == n) with
  | some p => p.2
  | none => {}

instance : CoeFun Store (fun _ => Nat → Node) := ⟨Store.get⟩

def Store.set (σ : Store) (n : Nat) (v : Node) : Store := ⟨(n, v) :: σ.l.filter (fun p => p.1 != n)⟩

theorem find_filter_ne (n m : Nat) (h : m ≠ n) : ∀ l : List (Nat × Node),
    (l.filter (fun p => p.1 != n)).find? (fun p => p.1 == m) = l.find? (fun p => p.1 == m)
  | [] => rfl
  | a :: l => by
    have ih := find_filter_ne n m h l
    by_cases ha : a.1 = n
    · have hm : ¬ a.1 = m := fun e => h (e.symm.trans ha)
      have h1 : (a.1 != n) = false := by simp [ha]
      have h2 : (a.1 == m) = false := by simp [hm]
      rw [List.filter_cons, h1, List.find?_cons, h2]
      simpa using ih
    · have h1 : (a.1 != n) = true := by simp [ha]
      rw [List.filter_cons, h1]
      simp only [if_true, List.find?_cons]
      cases a.1 == m
      · simpa using ih
      · rfl

theorem Store.get_set (σ : Store) (n m : Nat) (v : Node) :
    (σ.set n v).get m = if m = n then v else σ.get m := by
  unfold Store.get Store.set
  by_cases h : m = n
  · subst h; simp
  · have h' : (n == m) = false := by simpa using fun e => h e.symm
    simp only [List.find?_cons, h', h, if_false]
    rw [find_filter_ne n m h]

def Store.setSt (σ : Store) (n : Nat) (s : St) : Store := let x := σ.get n; σ.set n { x with st := s }
def Store.setBusy (σ : Store) (n : Nat) (b : Bool) : Store := let x := σ.get n; σ.set n { x with busy := b }

def Node.slot (x : Node) : Hook → List Act
  | .onInit => x.sInit | .onStart => x.sStart | .onStop => x.sStop | .onCleanup => x.sCleanup

def Node.clearSlot (x : Node) : Hook → Node
  | .onInit => { x with sInit := [] } | .onStart => { x with sStart := [] }
  | .onStop => { x with sStop := [] } | .onCleanup => { x with sCleanup := [] }

def Node.setSlot (x : Node) (h : Hook) (a : List Act) : Node :=
  match h with
  | .onInit => { x with sInit := a } | .onStart => { x with sStart := a }
  | .onStop => { x with sStop := a } | .onCleanup => { x with sCleanup := a }

structure Res where
  σ : Store
  ret : Bool
  tr : List Ev
  thrown : Bool
  oof : Bool := false
  /-- an exception left an `onStop` / `onCleanup` hook (the region the theorems exclude) -/
  td : Bool := false

def Res.ok (σ : Store) (ret : Bool) (tr : List Ev) : Res := ⟨σ, ret, tr, false, false, false⟩
def Res.outOfFuel (σ : Store) : Res := ⟨σ, false, [], true, true, false⟩
/-- outside what the theorems speak about: the fuel of the executable model ran out, or a teardown hook threw -/
def Res.bad (r : Res) : Bool := r.oof || r.td

/-- may a script touch this module (it exists and its destructor has not begun) -/
def callable (σ : Store) (t : Nat) : Bool := (σ t).alive && !(σ t).dying

/-- the root of `n`'s tree, by walking `parent_` (bounded; parent links form a forest) -/
def rootOf (σ : Store) : Nat → Nat → Nat
  | 0, n => n
  | f + 1, n => if (σ n).hasParent then rootOf σ f (σ n).parent else n

def hasUnnamedKid (σ : Store) (ks : List (Nat × Bool)) : Bool := ks.any fun k => !(σ k.1).named

/-- `p->add(c, req)`.  `none` = not a well-formed request (dead/dying module): nothing is called.
Otherwise the new store and what `add()` returns. -/
def addOp (σ : Store) (p c : Nat) (req : Bool) : Option (Store × Bool) :=
  if !(callable σ p && callable σ c) then none
  else if (σ p).st ≠ .none then some (σ, false)
  else if (σ c).hasParent then some (σ, false)
  else if rootOf σ 1000 p = c then some (σ, false)      -- patches/C11-08: `child` is `this` or one of its ancestors
  else if !(σ c).named && hasUnnamedKid σ (σ p).kids then some (σ, false)
  else
    let x := σ.get p
    let σ1 := σ.set p { x with kids := x.kids ++ [(c, req)] }
    let y := σ1.get c
    some (σ1.set c { y with hasParent := true, parent := p }, true)

/-- `add()` before patches/C11-08: a parentless `child` that is `this` itself or the root of the tree `this` hangs in is
accepted — the "tree" then contains a cycle (used by the counterexample only) -/
def addOpOrig (σ : Store) (p c : Nat) (req : Bool) : Option (Store × Bool) :=
  if !(callable σ p && callable σ c) then none
  else if (σ p).st ≠ .none then some (σ, false)
  else if (σ c).hasParent then some (σ, false)
  else if !(σ c).named && hasUnnamedKid σ (σ p).kids then some (σ, false)
  else
    let x := σ.get p
    let σ1 := σ.set p { x with kids := x.kids ++ [(c, req)] }
    let y := σ1.get c
    some (σ1.set c { y with hasParent := true, parent := p }, true)

def undo : Api → Api
  | .init => .cleanup | .start => .stop | a => a

mutual
/-- a public lifecycle function of module `n` (`own = false`: called by `~Module`, where the
virtual hooks of `n` itself resolve to the empty base hooks).  The re-entrancy flag is released by a
scope-exit action, i.e. also when an exception passes through. -/
def aCall (g x : Bool) : Nat → Store → Nat → Api → Bool → Res
  | 0, σ, _, _, _ => Res.outOfFuel σ
  | f + 1, σ, n, a, own =>
    if g && (σ n).busy then Res.ok σ false []          -- refused: already inside a lifecycle function
    else
      let σ1 := if g then σ.setBusy n true else σ
      let r := match a with
        | .init => bInit g x f σ1 n
        | .start => bStart g x f σ1 n
        | .stop => bStop g x f σ1 n own
        | .cleanup => bCleanup g x f σ1 n own
      { r with σ := if g then r.σ.setBusy n false else r.σ }

/-- `Module::initialize()` after the re-entrancy check -/
def bInit (g x : Bool) : Nat → Store → Nat → Res
  | 0, σ, _ => Res.outOfFuel σ
  | f + 1, σ, n =>
    if (σ n).st ≠ .none then Res.ok σ false []
    else if (σ n).named && !(σ n).cfg then Res.ok σ false []
    else
      let ok := (σ n).initOk
      let h := runHook g x f σ n .onInit
      if h.thrown then ⟨h.σ, false, h.tr ++ [Ev.init n false], true, h.oof, h.td⟩
      else if !ok then ⟨h.σ, false, h.tr ++ [Ev.init n false], false, h.oof, h.td⟩
      else
        let l := fwdLoop g x f h.σ n .init 0
        let pre := h.tr ++ [Ev.init n true] ++ l.tr
        if l.thrown && !(x && l.ret) then ⟨l.σ, false, pre, true, h.oof || l.oof, h.td || l.td⟩
        else if !l.thrown && l.ret then ⟨l.σ.setSt n .inited, true, pre, false, h.oof || l.oof, h.td || l.td⟩
        else
          -- a required child failed, or (patch C11-07) a child's initialize() threw: the children before it are
          -- rolled back, now this module; then `return false` resp. `throw;`
          let c := runHook g x f l.σ n .onCleanup
          ⟨c.σ, false, pre ++ c.tr ++ [Ev.cleanup n], l.thrown || c.thrown, h.oof || l.oof || c.oof,
            h.td || l.td || c.td || c.thrown⟩

/-- `Module::start()` after the re-entrancy check -/
def bStart (g x : Bool) : Nat → Store → Nat → Res
  | 0, σ, _ => Res.outOfFuel σ
  | f + 1, σ, n =>
    if (σ n).st ≠ .inited then Res.ok σ false []
    else
      let ok := (σ n).startOk
      let h := runHook g x f σ n .onStart
      if h.thrown then ⟨h.σ, false, h.tr ++ [Ev.start n false], true, h.oof, h.td⟩
      else if !ok then ⟨h.σ, false, h.tr ++ [Ev.start n false], false, h.oof, h.td⟩
      else
        let l := fwdLoop g x f h.σ n .start 0
        let pre := h.tr ++ [Ev.start n true] ++ l.tr
        if l.thrown && !(x && l.ret) then ⟨l.σ, false, pre, true, h.oof || l.oof, h.td || l.td⟩
        else if !l.thrown && l.ret then ⟨l.σ.setSt n .running, true, pre, false, h.oof || l.oof, h.td || l.td⟩
        else
          let c := runHook g x f l.σ n .onStop
          ⟨c.σ, false, pre ++ c.tr ++ [Ev.stop n], l.thrown || c.thrown, h.oof || l.oof || c.oof,
            h.td || l.td || c.td || c.thrown⟩

/-- `Module::stop()` after the re-entrancy check (also the first step of `cleanup()`) -/
def bStop (g x : Bool) : Nat → Store → Nat → Bool → Res
  | 0, σ, _, _ => Res.outOfFuel σ
  | f + 1, σ, n, own =>
    if (σ n).st ≠ .running then Res.ok σ true []
    else
      let l := revLoop g x f σ n .stop (σ n).kids.length
      if l.thrown then ⟨l.σ, false, l.tr, true, l.oof, l.td⟩
      else if own then
        let h := runHook g x f l.σ n .onStop
        if h.thrown then ⟨h.σ, false, l.tr ++ h.tr ++ [Ev.stop n], true, l.oof || h.oof, true⟩
        else ⟨h.σ.setSt n .inited, true, l.tr ++ h.tr ++ [Ev.stop n], false, l.oof || h.oof, l.td || h.td⟩
      else ⟨l.σ.setSt n .inited, true, l.tr, false, l.oof, l.td⟩

/-- `Module::cleanup()` after the re-entrancy check -/
def bCleanup (g x : Bool) : Nat → Store → Nat → Bool → Res
  | 0, σ, _, _ => Res.outOfFuel σ
  | f + 1, σ, n, own =>
    if (σ n).st = .none then Res.ok σ true []
    else
      let s := bStop g x f σ n own
      if s.thrown then s
      else
        let l := revLoop g x f s.σ n .cleanup (s.σ n).kids.length
        if l.thrown then ⟨l.σ, false, s.tr ++ l.tr, true, s.oof || l.oof, s.td || l.td⟩
        else if own then
          let h := runHook g x f l.σ n .onCleanup
          if h.thrown then ⟨h.σ, false, s.tr ++ l.tr ++ h.tr ++ [Ev.cleanup n], true, s.oof || l.oof || h.oof, true⟩
          else ⟨h.σ.setSt n .none, true, s.tr ++ l.tr ++ h.tr ++ [Ev.cleanup n], false, s.oof || l.oof || h.oof,
                 s.td || l.td || h.td⟩
        else ⟨l.σ.setSt n .none, true, s.tr ++ l.tr, false, s.oof || l.oof, s.td || l.td⟩

/-- `for (i = from; i < children_.size(); ++i) { ok = children_[i]->api();  [catch (...) { roll back; throw; }]
if (!ok && required) { roll back; return false; } }`.  A thrown result with `ret = true` tells the caller that the catch
handler has rolled back the earlier children and still has to undo the module itself (patch C11-07, `x`). -/
def fwdLoop (g x : Bool) : Nat → Store → Nat → Api → Nat → Res
  | 0, σ, _, _, _ => Res.outOfFuel σ
  | f + 1, σ, n, a, i =>
    match (σ n).kids[i]? with
    | none => Res.ok σ true []
    | some (c, req) =>
      let r := aCall g x f σ c a true
      if r.thrown && !x then ⟨r.σ, false, r.tr, true, r.oof, r.td⟩
      else if r.thrown || (!r.ret && req) then
        let b := revLoop g x f r.σ n (undo a) i
        ⟨b.σ, r.thrown && !b.thrown, r.tr ++ b.tr, r.thrown || b.thrown, r.oof || b.oof, r.td || b.td⟩
      else
        let l := fwdLoop g x f r.σ n a (i + 1)
        ⟨l.σ, l.ret, r.tr ++ l.tr, l.thrown, r.oof || l.oof, r.td || l.td⟩

/-- `while (i > 0) children_[--i]->api();` -/
def revLoop (g x : Bool) : Nat → Store → Nat → Api → Nat → Res
  | 0, σ, _, _, _ => Res.outOfFuel σ
  | _ + 1, σ, _, _, 0 => Res.ok σ true []
  | f + 1, σ, n, a, j + 1 =>
    match (σ n).kids[j]? with
    | none => revLoop g x f σ n a j
    | some (c, _) =>
      let r := aCall g x f σ c a true
      if r.thrown then ⟨r.σ, false, r.tr, true, r.oof, r.td⟩
      else
        let l := revLoop g x f r.σ n a j
        ⟨l.σ, true, r.tr ++ l.tr, l.thrown, r.oof || l.oof, r.td || l.td⟩

/-- a user hook of module `n`: take its (one-shot) script and run it -/
def runHook (g x : Bool) : Nat → Store → Nat → Hook → Res
  | 0, σ, _, _ => Res.outOfFuel σ
  | f + 1, σ, n, h => runActs g x f (σ.set n ((σ n).clearSlot h)) ((σ n).slot h)

def runActs (g x : Bool) : Nat → Store → List Act → Res
  | 0, σ, _ => Res.outOfFuel σ
  | _ + 1, σ, [] => Res.ok σ true []
  | _ + 1, σ, .throw :: _ => ⟨σ, false, [], true, false, false⟩
  | f + 1, σ, .call t a :: rest =>
    if callable σ t then
      let r := aCall g x f σ t a true
      if r.thrown then ⟨r.σ, false, r.tr, true, r.oof, r.td⟩
      else
        let q := runActs g x f r.σ rest
        ⟨q.σ, true, r.tr ++ q.tr, q.thrown, r.oof || q.oof, r.td || q.td⟩
    else runActs g x f σ rest
  | f + 1, σ, .add p c req :: rest =>
    match addOp σ p c req with
    | none => runActs g x f σ rest
    | some (σ', _) => runActs g x f σ' rest
end

/-- `delete n`: `~Module()` = `cleanup()` with the base hooks for `n` itself, then delete the
children in registration order -/
def aDestroy (g x : Bool) : Nat → Store → Nat → Res
  | 0, σ, _ => Res.outOfFuel σ
  | f + 1, σ, n =>
    let nd := σ.get n
    let σ0 := σ.set n { nd with dying := true }
    let c := aCall g x f σ0 n .cleanup false
    if c.thrown then c
    else
      let r := (c.σ n).kids.foldl (fun (acc : Res) k =>
        if acc.thrown then acc
        else
          let d := aDestroy g x f acc.σ k.1
          ⟨d.σ, true, acc.tr ++ d.tr, d.thrown, acc.oof || d.oof, acc.td || d.td⟩) ⟨c.σ, true, c.tr, false, c.oof, c.td⟩
      { r with σ := r.σ.set n {} }

/-- `fillDefaultConfig(js)` on an empty object creates the key of every named module of the tree
(`js_parent[name_]`), so a following `initialize(js)` finds every key: `cfg := true` below `n` -/
def fillAll : Nat → Store → Nat → Store
  | 0, σ, _ => σ
  | f + 1, σ, n =>
    let x := σ.get n
    (x.kids.foldl (fun acc k => fillAll f acc k.1) (σ.set n { x with cfg := true }))

def mkKids : List (Mod × Bool) → Kids
  | [] => .nil
  | (m, r) :: rest => .cons m r (mkKids rest)

/-- the tree below module `n` of the store (driver glue for `toJson`; the fuel bounds the depth) -/
def toMod : Nat → Store → Nat → Mod
  | 0, σ, n => .node ⟨n, (σ.get n).named, (σ.get n).cfg, (σ.get n).initOk, (σ.get n).startOk, (σ.get n).st⟩ .nil
  | f + 1, σ, n =>
    .node ⟨n, (σ.get n).named, (σ.get n).cfg, (σ.get n).initOk, (σ.get n).startOk, (σ.get n).st⟩
      (mkKids ((σ.get n).kids.map fun k => (toMod f σ k.1, k.2)))

def fuel0 : Nat := 4000

end Tbox.C11.Arena
