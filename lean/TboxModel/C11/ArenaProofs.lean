/-
C11 — helper lemmas for the arena model (hook scripts): with the re-entrancy guard (`g = true`)
and the catch-roll-back-rethrow of patches/C11-07 (`x = true`) every public lifecycle call, whatever
the hook scripts do (calls on any module, add(), nested calls from nested hooks, exceptions thrown
from `onInit`/`onStart` or from anything they call …), moves the hook automaton of EVERY module
exactly as it moves that module's `state_` — also when the call ends with an exception; a module
that is inside one of its own lifecycle functions is not touched by anything its hooks trigger.
-/
import TboxModel.C11.Arena
import TboxModel.C11.Track
namespace Tbox.C11.Arena
open Tbox.C11

/-! ### store plumbing -/
@[simp] theorem get_set_same (σ : Store) (n : Nat) (v : Node) : (σ.set n v).get n = v := by
  rw [Store.get_set]; simp
theorem get_set_other (σ : Store) (n m : Nat) (v : Node) (h : m ≠ n) : (σ.set n v).get m = σ.get m := by
  rw [Store.get_set]; simp [h]

theorem setSt_get (σ : Store) (n m : Nat) (s : St) :
    ((σ.setSt n s).get m).st = (if m = n then s else (σ.get m).st) ∧ ((σ.setSt n s).get m).busy = (σ.get m).busy := by
  unfold Store.setSt
  by_cases h : m = n
  · subst h; simp
  · simp [get_set_other _ _ _ _ h, h]

theorem setBusy_get (σ : Store) (n m : Nat) (b : Bool) :
    ((σ.setBusy n b).get m).st = (σ.get m).st ∧ ((σ.setBusy n b).get m).busy = (if m = n then b else (σ.get m).busy) := by
  unfold Store.setBusy
  by_cases h : m = n
  · subst h; simp
  · simp [get_set_other _ _ _ _ h, h]

/-! ### the tracking relation -/

/-- what a step from `σ` to `σ'` with hooks `tr` may do to module `m`: the re-entrancy flag is
kept; a busy module keeps its `state_` and none of its hooks run; the hooks of a module that is
not busy walk its automaton from the old to the new `state_` -/
def Qm (σ σ' : Store) (tr : List Ev) (m : Nat) : Prop :=
  (σ'.get m).busy = (σ.get m).busy ∧
  (if (σ.get m).busy then (σ'.get m).st = (σ.get m).st ∧ ∀ e ∈ tr, e.id ≠ m
   else hookRun m (σ.get m).st tr = some (σ'.get m).st)

def Q (σ σ' : Store) (tr : List Ev) : Prop := ∀ m, Qm σ σ' tr m

theorem Qm.refl (σ : Store) (m : Nat) : Qm σ σ [] m := by
  refine ⟨rfl, ?_⟩; split <;> simp [hookRun]

theorem Q.refl (σ : Store) : Q σ σ [] := fun m => Qm.refl σ m

theorem Qm.trans {σ σ' σ'' : Store} {a b : List Ev} {m : Nat} (h1 : Qm σ σ' a m) (h2 : Qm σ' σ'' b m) :
    Qm σ σ'' (a ++ b) m := by
  obtain ⟨b1, c1⟩ := h1
  obtain ⟨b2, c2⟩ := h2
  refine ⟨b2.trans b1, ?_⟩
  rw [b1] at c2
  split
  · rename_i hb
    simp only [hb, if_true] at c1 c2
    refine ⟨c2.1.trans c1.1, ?_⟩
    intro e he
    rcases List.mem_append.1 he with he | he
    · exact c1.2 e he
    · exact c2.2 e he
  · rename_i hb
    simp only [hb] at c1 c2
    rw [hookRun_append, c1]; exact c2

theorem Q.trans {σ σ' σ'' : Store} {a b : List Ev} (h1 : Q σ σ' a) (h2 : Q σ' σ'' b) : Q σ σ'' (a ++ b) :=
  fun m => (h1 m).trans (h2 m)

/-- a store change that touches neither `state_` nor the busy flag of `m` -/
theorem Qm.same {σ σ' : Store} {m : Nat} (h1 : (σ'.get m).st = (σ.get m).st) (h2 : (σ'.get m).busy = (σ.get m).busy) :
    Qm σ σ' [] m := by
  refine ⟨h2, ?_⟩; split <;> simp [hookRun, h1]

/-- a hook of another module `n ≠ m` runs, nothing else changes for `m` -/
theorem Qm.other_ev (σ : Store) {m : Nat} {e : Ev} (h : e.id ≠ m) : Qm σ σ [e] m := by
  refine ⟨rfl, ?_⟩
  split
  · exact ⟨rfl, by simpa using h⟩
  · exact hookRun_skip m _ [e] (by simpa using h)

/-- the frozen part of `Q` for a busy module -/
theorem Q.frozen {σ σ' : Store} {tr : List Ev} (h : Q σ σ' tr) {n : Nat} (hb : (σ.get n).busy = true) :
    (σ'.get n).st = (σ.get n).st ∧ (σ'.get n).busy = true ∧ ∀ s, hookRun n s tr = some s := by
  obtain ⟨b1, c1⟩ := h n
  simp only [hb, if_true] at c1
  exact ⟨c1.1, b1.trans hb, fun s => hookRun_skip n s tr c1.2⟩

/-! ### `add()` touches neither states nor flags -/
theorem addOp_same (σ σ' : Store) (p c : Nat) (req ok : Bool) (h : addOp σ p c req = some (σ', ok)) (m : Nat) :
    (σ'.get m).st = (σ.get m).st ∧ (σ'.get m).busy = (σ.get m).busy := by
  unfold addOp at h
  split at h
  · simp at h
  split at h
  · simp only [Option.some.injEq, Prod.mk.injEq] at h; rw [← h.1]; exact ⟨rfl, rfl⟩
  split at h
  · simp only [Option.some.injEq, Prod.mk.injEq] at h; rw [← h.1]; exact ⟨rfl, rfl⟩
  split at h
  · simp only [Option.some.injEq, Prod.mk.injEq] at h; rw [← h.1]; exact ⟨rfl, rfl⟩
  split at h
  · simp only [Option.some.injEq, Prod.mk.injEq] at h; rw [← h.1]; exact ⟨rfl, rfl⟩
  · simp only [Option.some.injEq, Prod.mk.injEq] at h
    rw [← h.1]
    by_cases hc : m = c
    · subst hc
      simp only [get_set_same]
      by_cases hp : m = p
      · subst hp; simp
      · simp [get_set_other _ _ _ _ hp]
    · rw [get_set_other _ _ _ _ hc]
      by_cases hp : m = p
      · subst hp; simp
      · simp [get_set_other _ _ _ _ hp]

theorem clearSlot_same (x : Node) (h : Hook) : (x.clearSlot h).st = x.st ∧ (x.clearSlot h).busy = x.busy := by
  cases h <;> exact ⟨rfl, rfl⟩

theorem Qm.congr {σa σa' σb σb' : Store} {tr : List Ev} {m : Nat}
    (h1 : (σb.get m).st = (σa.get m).st) (h2 : (σb.get m).busy = (σa.get m).busy)
    (h3 : (σb'.get m).st = (σa'.get m).st) (h4 : (σb'.get m).busy = (σa'.get m).busy)
    (h : Qm σa σa' tr m) : Qm σb σb' tr m := by
  unfold Qm at h ⊢
  rw [h1, h2, h3, h4]; exact h

/-! ### progress of the body of a lifecycle function of the busy module `n` -/

/-- so far: the other modules are tracked, `n` is still busy, its hook automaton went from its
`state_` at the start to `h`, and its `state_` is now `s1` -/
def Prog (n : Nat) (σ0 σ : Store) (tr : List Ev) (h s1 : St) : Prop :=
  (∀ m, m ≠ n → Qm σ0 σ tr m) ∧ (σ.get n).busy = true ∧ hookRun n (σ0.get n).st tr = some h ∧ (σ.get n).st = s1

/-- result of a body: others tracked, `n` still busy, `n`'s hooks walked from old to new `state_` -/
def BodyOK (σ0 : Store) (r : Res) (n : Nat) : Prop :=
  (∀ m, m ≠ n → Qm σ0 r.σ r.tr m) ∧ (r.σ.get n).busy = true ∧ hookRun n (σ0.get n).st r.tr = some (r.σ.get n).st

theorem Prog.start {n : Nat} {σ0 : Store} (hb : (σ0.get n).busy = true) : Prog n σ0 σ0 [] (σ0.get n).st (σ0.get n).st :=
  ⟨fun m _ => Qm.refl σ0 m, hb, rfl, rfl⟩

theorem Prog.nested {n : Nat} {σ0 σ σ' : Store} {tr tr' : List Ev} {h s1 : St}
    (p : Prog n σ0 σ tr h s1) (q : Q σ σ' tr') : Prog n σ0 σ' (tr ++ tr') h s1 := by
  obtain ⟨p1, p2, p3, p4⟩ := p
  have fz := q.frozen p2
  refine ⟨fun m hm => (p1 m hm).trans (q m), fz.2.1, ?_, fz.1.trans p4⟩
  rw [hookRun_append, p3]; exact fz.2.2 h

theorem Prog.own {n : Nat} {σ0 σ : Store} {tr : List Ev} {h s1 h' : St} (e : Ev)
    (p : Prog n σ0 σ tr h s1) (he : e.id = n) (hs : hookStep n h e = some h') : Prog n σ0 σ (tr ++ [e]) h' s1 := by
  obtain ⟨p1, p2, p3, p4⟩ := p
  refine ⟨fun m hm => (p1 m hm).trans (Qm.other_ev σ (by rw [he]; exact fun x => hm x.symm)), p2, ?_, p4⟩
  rw [hookRun_append, p3]; simp [hookRun, hs]

theorem Prog.ofBody {n : Nat} {σ0 : Store} {r : Res} (b : BodyOK σ0 r n) :
    Prog n σ0 r.σ r.tr (r.σ.get n).st (r.σ.get n).st := ⟨b.1, b.2.1, b.2.2, rfl⟩

/-- finish by `state_ = h` -/
theorem Prog.finishSet {n : Nat} {σ0 σ : Store} {tr : List Ev} {h s1 : St} (p : Prog n σ0 σ tr h s1) (ret : Bool) :
    BodyOK σ0 (Res.ok (σ.setSt n h) ret tr) n := by
  obtain ⟨p1, p2, p3, _⟩ := p
  refine ⟨fun m hm => ?_, ?_, ?_⟩
  · have := setSt_get σ n m h
    simp only [hm, if_false] at this
    exact Qm.congr rfl rfl this.1 this.2 (p1 m hm)
  · have := setSt_get σ n n h; simp only [Res.ok]; rw [this.2]; exact p2
  · have := setSt_get σ n n h; simp only [Res.ok]; rw [this.1, p3]; simp

/-- finish without touching `state_` (it already equals the automaton's state) -/
theorem Prog.finishSame {n : Nat} {σ0 σ : Store} {tr : List Ev} {h : St} (p : Prog n σ0 σ tr h h)
    (ret thrown oof td : Bool) : BodyOK σ0 ⟨σ, ret, tr, thrown, oof, td⟩ n := by
  obtain ⟨p1, p2, p3, p4⟩ := p
  exact ⟨p1, p2, by simp only; rw [p3, p4]⟩

/-! ### the induction on fuel

`g = true` (re-entrancy guard), `x = true` (patches/C11-07).  The statements hold for EVERY result that is not
`bad` — in particular for results with `thrown = true`: an exception that comes out of an `onInit`/`onStart`
hook (or out of a script run by one) is rolled back by every frame it passes. -/

macro "bad_split" : tactic => `(tactic| (simp only [Res.bad, Res.ok] at *; grind))

structure P (f : Nat) : Prop where
  call : ∀ σ n a, (aCall true true f σ n a true).bad = false →
    Q σ (aCall true true f σ n a true).σ (aCall true true f σ n a true).tr
  init : ∀ σ n, (σ.get n).busy = true → (bInit true true f σ n).bad = false → BodyOK σ (bInit true true f σ n) n
  start : ∀ σ n, (σ.get n).busy = true → (bStart true true f σ n).bad = false → BodyOK σ (bStart true true f σ n) n
  stop : ∀ σ n, (σ.get n).busy = true → (bStop true true f σ n true).bad = false → BodyOK σ (bStop true true f σ n true) n
  cleanup : ∀ σ n, (σ.get n).busy = true → (bCleanup true true f σ n true).bad = false → BodyOK σ (bCleanup true true f σ n true) n
  fwd : ∀ σ n a i, (fwdLoop true true f σ n a i).bad = false → Q σ (fwdLoop true true f σ n a i).σ (fwdLoop true true f σ n a i).tr
  rev : ∀ σ n a i, (revLoop true true f σ n a i).bad = false → Q σ (revLoop true true f σ n a i).σ (revLoop true true f σ n a i).tr
  hook : ∀ σ n h, (runHook true true f σ n h).bad = false → Q σ (runHook true true f σ n h).σ (runHook true true f σ n h).tr
  acts : ∀ σ as, (runActs true true f σ as).bad = false → Q σ (runActs true true f σ as).σ (runActs true true f σ as).tr

theorem P.zero : P 0 := by
  constructor <;> intros <;> simp_all [aCall, bInit, bStart, bStop, bCleanup, fwdLoop, revLoop, runHook, runActs, Res.outOfFuel, Res.bad]

theorem P.succ_acts {f : Nat} (ih : P f) : ∀ σ as, (runActs true true (f + 1) σ as).bad = false →
    Q σ (runActs true true (f + 1) σ as).σ (runActs true true (f + 1) σ as).tr := by
  intro σ as
  cases as with
  | nil => intro _; simp only [runActs, Res.ok]; exact Q.refl σ
  | cons a rest =>
    cases a with
    | throw => intro _; simp only [runActs]; exact Q.refl σ
    | call t ap =>
      simp only [runActs]
      split
      · split
        · intro h
          exact ih.call σ t ap (by bad_split)
        · intro h
          have h1 := ih.call σ t ap (by bad_split)
          have h2 := ih.acts (aCall true true f σ t ap true).σ rest (by bad_split)
          exact h1.trans h2
      · exact ih.acts σ rest
    | add p c req =>
      simp only [runActs]
      split
      · exact ih.acts σ rest
      · rename_i σ' ok hadd
        intro h
        have h1 : Q σ σ' [] := fun m => Qm.same (addOp_same σ σ' p c req ok hadd m).1 (addOp_same σ σ' p c req ok hadd m).2
        simpa using h1.trans (ih.acts σ' rest h)

theorem P.succ_hook {f : Nat} (ih : P f) : ∀ σ n h, (runHook true true (f + 1) σ n h).bad = false →
    Q σ (runHook true true (f + 1) σ n h).σ (runHook true true (f + 1) σ n h).tr := by
  intro σ n h hth
  simp only [runHook] at hth ⊢
  have h1 : Q σ (σ.set n ((σ.get n).clearSlot h)) [] := by
    intro m
    by_cases hm : m = n
    · subst hm; exact Qm.same (by simp [(clearSlot_same _ h).1]) (by simp [(clearSlot_same _ h).2])
    · exact Qm.same (by rw [get_set_other _ _ _ _ hm]) (by rw [get_set_other _ _ _ _ hm])
  simpa using h1.trans (ih.acts _ _ hth)

theorem P.succ_rev {f : Nat} (ih : P f) : ∀ σ n a i, (revLoop true true (f + 1) σ n a i).bad = false →
    Q σ (revLoop true true (f + 1) σ n a i).σ (revLoop true true (f + 1) σ n a i).tr := by
  intro σ n a i
  cases i with
  | zero => intro _; simp only [revLoop, Res.ok]; exact Q.refl σ
  | succ j =>
    simp only [revLoop]
    split
    · exact ih.rev σ n a j
    · rename_i c req hk
      split
      · intro h; exact ih.call σ c a (by bad_split)
      · intro h
        exact (ih.call σ c a (by bad_split)).trans (ih.rev (aCall true true f σ c a true).σ n a j (by bad_split))

theorem P.succ_fwd {f : Nat} (ih : P f) : ∀ σ n a i, (fwdLoop true true (f + 1) σ n a i).bad = false →
    Q σ (fwdLoop true true (f + 1) σ n a i).σ (fwdLoop true true (f + 1) σ n a i).tr := by
  intro σ n a i
  simp only [fwdLoop, Bool.not_true, Bool.and_false, Bool.false_eq_true, if_false]
  split
  · intro _; simp only [Res.ok]; exact Q.refl σ
  · rename_i c req hk
    split
    · intro h; exact (ih.call σ c a (by bad_split)).trans (ih.rev (aCall true true f σ c a true).σ n (undo a) i (by bad_split))
    · intro h; exact (ih.call σ c a (by bad_split)).trans (ih.fwd (aCall true true f σ c a true).σ n a (i + 1) (by bad_split))

theorem Prog.start' {n : Nat} {σ0 : Store} {s : St} (hb : (σ0.get n).busy = true) (hs : (σ0.get n).st = s) :
    Prog n σ0 σ0 [] s s := by
  have := Prog.start hb; rwa [hs] at this

/-- finish by `state_ = h`, any flags -/
theorem Prog.finishSet' {n : Nat} {σ0 σ : Store} {tr : List Ev} {h s1 : St} (p : Prog n σ0 σ tr h s1) (ret th o t : Bool) :
    BodyOK σ0 ⟨σ.setSt n h, ret, tr, th, o, t⟩ n := by
  have := p.finishSet ret
  exact this

/-! ### `stop()` / `cleanup()` throw only when a teardown hook throws (or the fuel runs out) -/

def isDown : Api → Bool | .stop => true | .cleanup => true | _ => false

theorem undo_isDown (a : Api) (h : a = .init ∨ a = .start ∨ isDown a = true) : isDown (undo a) = true := by
  cases a <;> simp_all [undo, isDown]

structure T (f : Nat) : Prop where
  call : ∀ σ n a own, isDown a = true → (aCall true true f σ n a own).thrown = true → (aCall true true f σ n a own).bad = true
  stop : ∀ σ n own, (bStop true true f σ n own).thrown = true → (bStop true true f σ n own).bad = true
  cleanup : ∀ σ n own, (bCleanup true true f σ n own).thrown = true → (bCleanup true true f σ n own).bad = true
  rev : ∀ σ n a i, isDown a = true → (revLoop true true f σ n a i).thrown = true → (revLoop true true f σ n a i).bad = true

theorem T.zero : T 0 := by
  constructor <;> intros <;> simp [aCall, bStop, bCleanup, revLoop, Res.outOfFuel, Res.bad]

theorem T.succ {f : Nat} (ih : T f) : T (f + 1) := by
  constructor
  · intro σ n a own hd
    simp only [aCall, Bool.true_and, if_true]
    split
    · simp [Res.ok]
    · cases a with
      | init => simp [isDown] at hd
      | start => simp [isDown] at hd
      | stop => exact ih.stop _ n own
      | cleanup => exact ih.cleanup _ n own
  · intro σ n own
    simp only [bStop]
    split
    · simp [Res.ok]
    split
    · rename_i hl
      intro _
      have := ih.rev σ n .stop _ rfl hl
      bad_split
    split
    · split
      · intro _; simp [Res.bad]
      · simp
    · simp
  · intro σ n own
    simp only [bCleanup]
    split
    · simp [Res.ok]
    split
    · exact ih.stop σ n own
    split
    · rename_i hl
      intro _
      have := ih.rev _ n .cleanup _ rfl hl
      bad_split
    split
    · split
      · intro _; simp [Res.bad]
      · simp
    · simp
  · intro σ n a i hd
    cases i with
    | zero => simp [revLoop, Res.ok]
    | succ j =>
      simp only [revLoop]
      split
      · exact ih.rev σ n a j hd
      · rename_i c req hk
        split
        · rename_i hr
          intro _
          have := ih.call σ c a true hd hr
          bad_split
        · intro hl
          have := ih.rev _ n a j hd hl
          bad_split

theorem T.all : ∀ f, T f
  | 0 => T.zero
  | f + 1 => T.succ (T.all f)

/-- the loop of `initialize()` / `start()`: an exception that comes out WITHOUT the roll-back having completed
(`ret = false`) came out of the roll-back itself -/
theorem fwd_thrown_bad : ∀ f σ n a i, (fwdLoop true true f σ n a i).thrown = true → (fwdLoop true true f σ n a i).ret = false →
    (fwdLoop true true f σ n a i).bad = true
  | 0, σ, n, a, i => by simp [fwdLoop, Res.outOfFuel, Res.bad]
  | f + 1, σ, n, a, i => by
    simp only [fwdLoop, Bool.not_true, Bool.and_false, Bool.false_eq_true, if_false]
    split
    · simp [Res.ok]
    · rename_i c req hk
      split
      · intro h1 h2
        have hb : (revLoop true true f (aCall true true f σ c a true).σ n (undo a) i).thrown = true := by
          simp only [Bool.or_eq_true, Bool.and_eq_false_imp, Bool.not_eq_eq_eq_not, Bool.not_false] at h1 h2
          grind
        have := (T.all f).rev _ n (undo a) i (by cases a <;> rfl) hb
        bad_split
      · intro h1 h2
        have := fwd_thrown_bad f (aCall true true f σ c a true).σ n a (i + 1) h1 h2
        bad_split

theorem P.succ_init {f : Nat} (ih : P f) : ∀ σ n, (σ.get n).busy = true → (bInit true true (f + 1) σ n).bad = false →
    BodyOK σ (bInit true true (f + 1) σ n) n := by
  intro σ n hb
  simp only [bInit, Bool.true_and]
  split
  · intro _; exact (Prog.start hb).finishSame false false false false
  rename_i hst
  have hst : (σ.get n).st = .none := by simpa using hst
  have p0 := Prog.start' hb hst
  split
  · intro _; exact p0.finishSame false false false false
  split
  · intro h
    have p1 := p0.nested (ih.hook σ n .onInit (by bad_split))
    have p2 := p1.own (h' := .none) (Ev.init n false) rfl (by simp [hookStep, Ev.id])
    exact p2.finishSame _ _ _ _
  split
  · intro h
    have p1 := p0.nested (ih.hook σ n .onInit (by bad_split))
    have p2 := p1.own (h' := .none) (Ev.init n false) rfl (by simp [hookStep, Ev.id])
    exact p2.finishSame _ _ _ _
  split
  · rename_i hl
    intro h
    simp only [Bool.and_eq_true, Bool.not_eq_eq_eq_not, Bool.not_true] at hl
    have := fwd_thrown_bad f _ n .init 0 hl.1 hl.2
    bad_split
  split
  · intro h
    have p1 := p0.nested (ih.hook σ n .onInit (by bad_split))
    have p2 := p1.own (h' := .inited) (Ev.init n true) rfl (by simp [hookStep, Ev.id])
    have p3 := p2.nested (ih.fwd (runHook true true f σ n .onInit).σ n .init 0 (by bad_split))
    exact p3.finishSet' _ _ _ _
  · intro h
    have p1 := p0.nested (ih.hook σ n .onInit (by bad_split))
    have p2 := p1.own (h' := .inited) (Ev.init n true) rfl (by simp [hookStep, Ev.id])
    have p3 := p2.nested (ih.fwd (runHook true true f σ n .onInit).σ n .init 0 (by bad_split))
    have p4 := p3.nested (ih.hook (fwdLoop true true f (runHook true true f σ n .onInit).σ n .init 0).σ n .onCleanup (by bad_split))
    have p5 := p4.own (h' := .none) (Ev.cleanup n) rfl (by simp [hookStep, Ev.id])
    have := p5.finishSame false
      ((fwdLoop true true f (runHook true true f σ n .onInit).σ n .init 0).thrown ||
        (runHook true true f (fwdLoop true true f (runHook true true f σ n .onInit).σ n .init 0).σ n .onCleanup).thrown)
      ((runHook true true f σ n .onInit).oof || (fwdLoop true true f (runHook true true f σ n .onInit).σ n .init 0).oof ||
        (runHook true true f (fwdLoop true true f (runHook true true f σ n .onInit).σ n .init 0).σ n .onCleanup).oof)
      ((runHook true true f σ n .onInit).td || (fwdLoop true true f (runHook true true f σ n .onInit).σ n .init 0).td ||
        (runHook true true f (fwdLoop true true f (runHook true true f σ n .onInit).σ n .init 0).σ n .onCleanup).td ||
        (runHook true true f (fwdLoop true true f (runHook true true f σ n .onInit).σ n .init 0).σ n .onCleanup).thrown)
    simpa [List.append_assoc] using this

theorem P.succ_start {f : Nat} (ih : P f) : ∀ σ n, (σ.get n).busy = true → (bStart true true (f + 1) σ n).bad = false →
    BodyOK σ (bStart true true (f + 1) σ n) n := by
  intro σ n hb
  simp only [bStart, Bool.true_and]
  split
  · intro _; exact (Prog.start hb).finishSame false false false false
  rename_i hst
  have hst : (σ.get n).st = .inited := by simpa using hst
  have p0 := Prog.start' hb hst
  split
  · intro h
    have p1 := p0.nested (ih.hook σ n .onStart (by bad_split))
    have p2 := p1.own (h' := .inited) (Ev.start n false) rfl (by simp [hookStep, Ev.id])
    exact p2.finishSame _ _ _ _
  split
  · intro h
    have p1 := p0.nested (ih.hook σ n .onStart (by bad_split))
    have p2 := p1.own (h' := .inited) (Ev.start n false) rfl (by simp [hookStep, Ev.id])
    exact p2.finishSame _ _ _ _
  split
  · rename_i hl
    intro h
    simp only [Bool.and_eq_true, Bool.not_eq_eq_eq_not, Bool.not_true] at hl
    have := fwd_thrown_bad f _ n .start 0 hl.1 hl.2
    bad_split
  split
  · intro h
    have p1 := p0.nested (ih.hook σ n .onStart (by bad_split))
    have p2 := p1.own (h' := .running) (Ev.start n true) rfl (by simp [hookStep, Ev.id])
    have p3 := p2.nested (ih.fwd (runHook true true f σ n .onStart).σ n .start 0 (by bad_split))
    exact p3.finishSet' _ _ _ _
  · intro h
    have p1 := p0.nested (ih.hook σ n .onStart (by bad_split))
    have p2 := p1.own (h' := .running) (Ev.start n true) rfl (by simp [hookStep, Ev.id])
    have p3 := p2.nested (ih.fwd (runHook true true f σ n .onStart).σ n .start 0 (by bad_split))
    have p4 := p3.nested (ih.hook (fwdLoop true true f (runHook true true f σ n .onStart).σ n .start 0).σ n .onStop (by bad_split))
    have p5 := p4.own (h' := .inited) (Ev.stop n) rfl (by simp [hookStep, Ev.id])
    have := p5.finishSame false
      ((fwdLoop true true f (runHook true true f σ n .onStart).σ n .start 0).thrown ||
        (runHook true true f (fwdLoop true true f (runHook true true f σ n .onStart).σ n .start 0).σ n .onStop).thrown)
      ((runHook true true f σ n .onStart).oof || (fwdLoop true true f (runHook true true f σ n .onStart).σ n .start 0).oof ||
        (runHook true true f (fwdLoop true true f (runHook true true f σ n .onStart).σ n .start 0).σ n .onStop).oof)
      ((runHook true true f σ n .onStart).td || (fwdLoop true true f (runHook true true f σ n .onStart).σ n .start 0).td ||
        (runHook true true f (fwdLoop true true f (runHook true true f σ n .onStart).σ n .start 0).σ n .onStop).td ||
        (runHook true true f (fwdLoop true true f (runHook true true f σ n .onStart).σ n .start 0).σ n .onStop).thrown)
    simpa [List.append_assoc] using this

theorem bStop_inited : ∀ f σ n, (σ.get n).st ≠ .none → (bStop true true f σ n true).thrown = false →
    ((bStop true true f σ n true).σ.get n).st = .inited
  | 0, σ, n => by simp [bStop, Res.outOfFuel]
  | f + 1, σ, n => by
    intro h0
    simp only [bStop, if_true]
    split
    · rename_i h1
      intro _
      simp only [Res.ok]
      cases h2 : (σ.get n).st <;> simp_all
    split
    · simp
    split
    · simp
    · intro _; exact (setSt_get _ n n .inited).1.trans (by simp)

theorem P.succ_stop {f : Nat} (ih : P f) : ∀ σ n, (σ.get n).busy = true → (bStop true true (f + 1) σ n true).bad = false →
    BodyOK σ (bStop true true (f + 1) σ n true) n := by
  intro σ n hb
  simp only [bStop, if_true]
  split
  · intro _; exact (Prog.start hb).finishSame true false false false
  rename_i hst
  have hst : (σ.get n).st = .running := by simpa using hst
  have p0 := Prog.start' hb hst
  split
  · intro h
    have p1 := p0.nested (ih.rev σ n .stop (σ.get n).kids.length (by bad_split))
    exact p1.finishSame _ _ _ _
  split
  · simp [Res.bad]
  · intro h
    have p1 := p0.nested (ih.rev σ n .stop (σ.get n).kids.length (by bad_split))
    have p2 := p1.nested (ih.hook (revLoop true true f σ n .stop (σ.get n).kids.length).σ n .onStop (by bad_split))
    have p3 := p2.own (h' := .inited) (Ev.stop n) rfl (by simp [hookStep, Ev.id])
    simpa [List.append_assoc] using p3.finishSet' true false
      ((revLoop true true f σ n .stop (σ.get n).kids.length).oof || (runHook true true f (revLoop true true f σ n .stop (σ.get n).kids.length).σ n .onStop).oof)
      ((revLoop true true f σ n .stop (σ.get n).kids.length).td || (runHook true true f (revLoop true true f σ n .stop (σ.get n).kids.length).σ n .onStop).td)

theorem P.succ_cleanup {f : Nat} (ih : P f) : ∀ σ n, (σ.get n).busy = true → (bCleanup true true (f + 1) σ n true).bad = false →
    BodyOK σ (bCleanup true true (f + 1) σ n true) n := by
  intro σ n hb
  simp only [bCleanup, if_true]
  split
  · intro _; exact (Prog.start hb).finishSame true false false false
  rename_i hst
  split
  · intro h; exact ih.stop σ n hb h
  rename_i hs
  have hs : (bStop true true f σ n true).thrown = false := by simpa using hs
  have hin := bStop_inited f σ n hst hs
  split
  · intro h
    have p0 := Prog.ofBody (ih.stop σ n hb (by bad_split))
    have p1 := p0.nested (ih.rev (bStop true true f σ n true).σ n .cleanup ((bStop true true f σ n true).σ.get n).kids.length (by bad_split))
    exact p1.finishSame _ _ _ _
  split
  · simp [Res.bad]
  · intro h
    have p0 := Prog.ofBody (ih.stop σ n hb (by bad_split))
    have p1 := p0.nested (ih.rev (bStop true true f σ n true).σ n .cleanup ((bStop true true f σ n true).σ.get n).kids.length (by bad_split))
    have p2 := p1.nested (ih.hook (revLoop true true f (bStop true true f σ n true).σ n .cleanup ((bStop true true f σ n true).σ.get n).kids.length).σ n .onCleanup (by bad_split))
    rw [hin] at p2
    have p3 := p2.own (h' := .none) (Ev.cleanup n) rfl (by simp [hookStep, Ev.id])
    simpa [List.append_assoc] using p3.finishSet' true false _ _

theorem P.succ_call {f : Nat} (ih : P f) : ∀ σ n a, (aCall true true (f + 1) σ n a true).bad = false →
    Q σ (aCall true true (f + 1) σ n a true).σ (aCall true true (f + 1) σ n a true).tr := by
  intro σ n a
  simp only [aCall, Bool.true_and, if_true]
  split
  · intro _; simp only [Res.ok]; exact Q.refl σ
  rename_i hnb
  have hnb : (σ.get n).busy = false := by simpa using hnb
  have hb1 : ((σ.setBusy n true).get n).busy = true := by have := (setBusy_get σ n n true).2; simpa using this
  intro hth
  have key : ∀ r : Res, BodyOK (σ.setBusy n true) r n → Q σ (r.σ.setBusy n false) r.tr := by
    intro r b m
    by_cases hm : m = n
    · subst hm
      have h2 := setBusy_get r.σ m m false
      have h1 := setBusy_get σ m m true
      refine ⟨by simp [h2.2, hnb], ?_⟩
      simp only [hnb, Bool.false_eq_true, if_false]
      rw [h2.1, ← h1.1]; exact b.2.2
    · have h1 := setBusy_get σ n m true
      have h2 := setBusy_get r.σ n m false
      simp only [hm, if_false] at h1 h2
      exact Qm.congr h1.1.symm h1.2.symm h2.1 h2.2 (b.1 m hm)
  cases a with
  | init => exact key _ (ih.init _ n hb1 (by simpa [Res.bad] using hth))
  | start => exact key _ (ih.start _ n hb1 (by simpa [Res.bad] using hth))
  | stop => exact key _ (ih.stop _ n hb1 (by simpa [Res.bad] using hth))
  | cleanup => exact key _ (ih.cleanup _ n hb1 (by simpa [Res.bad] using hth))

theorem P.all : ∀ f, P f
  | 0 => P.zero
  | f + 1 =>
    have ih := P.all f
    ⟨P.succ_call ih, P.succ_init ih, P.succ_start ih, P.succ_stop ih, P.succ_cleanup ih, P.succ_fwd ih, P.succ_rev ih,
     P.succ_hook ih, P.succ_acts ih⟩

end Tbox.C11.Arena
