/-
C11 — model of `tbox::main::Start()` / `tbox::main::Stop()` (modules/main/run_in_backend.cpp) and of
a stop signal arriving during `tbox::main::Main()` (modules/main/run_in_frontend.cpp).

run_in_backend.cpp runs the same lifecycle as `Main()` on a background thread:

```
bool Start(argc, argv) {
    if (_runtime != nullptr) return false;                 // "process started"
    _runtime = new Runtime;                                // Log, ContextImp, Module apps(""); RegisterApps(apps, ctx)
    if (!args.parse(argc, argv)) return false;             // (A)
    if (!pid_filename.empty() && !pid_file.lock(..)) return false;   // (B)
    if (ctx.initialize(..)) {
        if (apps.initialize(js_conf)) {
            if (ctx.start()) {
                if (apps.start()) { _runtime->thread = std::thread(RunInBackend); return true; }
                ctx.stop();
            }
            apps.cleanup();
        }
        ctx.cleanup();
    }
    End();                                                 // delete _runtime (-> ~Module(apps)); _runtime = nullptr
    return false;
}
void Stop() {
    if (_runtime == nullptr) return;                       // "process not start"
    loop->runInLoop([] { apps.stop(); ctx.stop(); loop->exitLoop(..); });
    _runtime->thread.join();
    apps.cleanup(); ctx.cleanup();
    End();
}
```

`fx` selects the code at (A)/(B): `fx = false` is the file as found — the early `return false` leaves
`_runtime` allocated, so every later `Start()` answers "process started" and `Stop()` calls
`join()` on a thread that was never started (`std::system_error`, nobody catches: `std::terminate`);
`fx = true` is the file with patches/C11-06 (the runtime is released before those returns; in /repo since 6f7372e).
`rb` is the roll-back switch of Model.lean (`true` = module.cpp as it is now).

Every `Start()` builds a NEW Apps tree (`RegisterApps` runs in the `Runtime` constructor): the tree
and the answers of the parts that are not modules (argument parser, pid file, `ContextImp::initialize`,
`ContextImp::start`) are oracle inputs of each `Start()`.
-/
import TboxModel.C11.Model
namespace Tbox.C11.Backend
open Tbox.C11

/-- oracle inputs of one `Start()` -/
structure StartIn where
  t : Mod            -- the Apps tree `RegisterApps` builds (as constructed)
  argsOk : Bool      -- `Args::parse`
  pidOk : Bool       -- `PidFile::lock` (true also when no pid file is configured)
  ctxInit : Bool     -- `ContextImp::initialize`
  ctxStart : Bool    -- `ContextImp::start`

/-- `*_runtime`: the Apps tree and whether `_runtime->thread` was started (is joinable) -/
structure Rt where
  apps : Mod
  joinable : Bool

/-- what one call shows: return value (`true` for `Stop()`), user hooks that ran, and whether the
process died in it (`std::terminate`) -/
structure Out where
  ret : Bool
  tr : List Ev
  crash : Bool

/-- `Start()` -/
def startB (fx rb : Bool) (s : Option Rt) (i : StartIn) : Option Rt × Out :=
  match s with
  | some _ => (s, ⟨false, [], false⟩)                               -- "process started"
  | none =>
    if !i.argsOk || !i.pidOk then
      if fx then (none, ⟨false, destroy i.t, false⟩)               -- runtime released (~Module(apps))
      else (some ⟨i.t, false⟩, ⟨false, [], false⟩)                 -- as found: `_runtime` stays
    else if !i.ctxInit then (none, ⟨false, destroy i.t, false⟩)    -- "Context init fail"; End()
    else
      let a := initM rb i.t
      if !a.2.1 then (none, ⟨false, a.2.2 ++ destroy a.1, false⟩)  -- "Apps init fail"; ctx.cleanup(); End()
      else if !i.ctxStart then                                      -- "Ctx start fail"; apps.cleanup(); …
        let c := cleanup true a.1
        (none, ⟨false, a.2.2 ++ c.2 ++ destroy c.1, false⟩)
      else
        let st := start rb a.1
        if st.2.1 then (some ⟨st.1, true⟩, ⟨true, a.2.2 ++ st.2.2, false⟩)   -- thread started
        else                                                        -- "App start fail"; ctx.stop(); apps.cleanup(); …
          let c := cleanup true st.1
          (none, ⟨false, a.2.2 ++ st.2.2 ++ c.2 ++ destroy c.1, false⟩)

/-- `Stop()` -/
def stopB (s : Option Rt) : Option Rt × Out :=
  match s with
  | none => (none, ⟨true, [], false⟩)                               -- "process not start"
  | some r =>
    if !r.joinable then (s, ⟨true, [], true⟩)                       -- join() of a thread never started
    else
      let p := stop true r.apps                                     -- on the loop thread
      let c := cleanup true p.1                                     -- after join(), on the caller's thread
      (none, ⟨true, p.2 ++ c.2 ++ destroy c.1, false⟩)

inductive Op where
  | start (i : StartIn)
  | stop

def stepB (fx rb : Bool) (s : Option Rt) : Op → Option Rt × Out
  | .start i => startB fx rb s i
  | .stop => stopB s

/-- a history of `Start()` / `Stop()` calls: final `_runtime`, all hooks that ran, whether the
process died (nothing runs after that) -/
def runB (fx rb : Bool) (s : Option Rt) : List Op → Option Rt × List Ev × Bool
  | [] => (s, [], false)
  | o :: os =>
    let r := stepB fx rb s o
    if r.2.crash then (r.1, r.2.tr, true)
    else
      let q := runB fx rb r.1 os
      (q.1, r.2.tr ++ q.2.1, q.2.2)

/-- the root calls one `Start()` makes on its Apps tree (before the closing `cleanup(); ~Module()`
of a failing `Start()`, resp. before returning `true`) -/
def startCalls (rb : Bool) (i : StartIn) : List Call :=
  if !i.argsOk || !i.pidOk || !i.ctxInit then []
  else if !(initM rb i.t).2.1 then [.init]
  else if !i.ctxStart then [.init]
  else [.init, .start]

/-! ### a stop signal (SIGINT/SIGTERM/…) during `Main()` (run_in_frontend.cpp) — the code as it is

`Main()` watches the stop signals only inside `RunInFrontend()`: the (one-shot) signal event is enabled
just before `runLoop()` and is gone again when its callback starts.  A stop signal that arrives while a
user hook runs therefore meets the default disposition and kills the process at once — during
start-up (`onInit`/`onStart`), during the stop sequence (`onStop`) and during `onCleanup` alike.  Only a
signal that arrives while the loop idles (no hook running) is the orderly stop request of `mainTrace`.
This lies outside the property's quantifier (tree shapes × failure assignments × lifecycle calls on the
root) and is not repaired (DESIGN §10, C11 r4): the model records what the code does, the scenario harness
ties it with a real `raise(SIGTERM)` from inside a probe hook.

The signal is raised at the start of the `k`-th hook call of the run (`k` indexes the hook trace
`Main()` would produce undisturbed; `k ≥` its length = no signal inside a hook). -/

/-- number of hooks `Main()` runs before the loop is entered (initialise + start), when it is entered
(used to name the phase a signal falls in) -/
def upLen (rb ctxInit ctxStart : Bool) (t : Mod) : Option Nat :=
  if ctxInit && ctxStart && (initM rb t).2.1 && (start rb (initM rb t).1).2.1 then
    some ((initM rb t).2.2.length + (start rb (initM rb t).1).2.2.length)
  else none

/-- hook trace of `Main()` with the signal at hook `k`, and whether the process was killed by it -/
def mainSig (rb ctxInit ctxStart : Bool) (t : Mod) (k : Nat) : List Ev × Bool :=
  let full := mainTrace rb ctxInit ctxStart t
  if k ≥ full.length then (full, false)
  else (full.take k, true)                                 -- default disposition: killed inside hook k

/-- index of the first `h`-hook of module `n` in a trace (`h`: 0 onInit, 1 onStart, 2 onStop, 3 onCleanup) -/
def hookIdx (h : Nat) (n : Nat) (tr : List Ev) : Nat :=
  tr.findIdx fun e => e.id == n && (match e with
    | .init _ _ => h == 0 | .start _ _ => h == 1 | .stop _ => h == 2 | .cleanup _ => h == 3)

end Tbox.C11.Backend
