/-
C11 — helper lemmas, part D: call sequences, counting, the destructor on a cleaned tree.
-/
import TboxModel.C11.Stack
namespace Tbox.C11

mutual
theorem setFlags_stAt (k : Nat) (c i s : Bool) (n : Nat) (d : St) : ∀ m : Mod,
    (m.setFlags k c i s).stAt n d = m.stAt n d ∧ (m.setFlags k c i s).ids = m.ids
  | .node inf ks => by
    have hk := setFlagsK_stAt k c i s n d ks
    simp only [Mod.setFlags, Mod.stAt, Mod.ids, hk.1, hk.2]
    split <;> simp
theorem setFlagsK_stAt (k : Nat) (c i s : Bool) (n : Nat) (d : St) : ∀ ks : Kids,
    (ks.setFlags k c i s).stAt n d = ks.stAt n d ∧ (ks.setFlags k c i s).ids = ks.ids
  | .nil => by simp [Kids.setFlags]
  | .cons m r rest => by
    have h1 := setFlags_stAt k c i s n (rest.stAt n d) m
    have h2 := setFlagsK_stAt k c i s n d rest
    simp only [Kids.setFlags, Kids.stAt, Kids.ids, h2.1, h2.2, h1.1, h1.2]
    simp
end

theorem call_ok (t : Mod) (c : Call) (h : t.ids.Nodup) : StepOK t (call true t c).1 (call true t c).2.2 := by
  cases c with
  | init => exact init_ok t h
  | start => exact start_ok t h
  | stop => exact stop_ok true t h rfl
  | cleanup => exact cleanup_ok t h
  | setFlags k c i s =>
    refine ⟨(setFlags_stAt k c i s 0 .none t).2, by simp [call], fun n d => ?_⟩
    simp only [call, hookRun]
    rw [(setFlags_stAt k c i s n d t).1]

theorem runCalls_ok (t : Mod) (cs : List Call) (h : t.ids.Nodup) :
    StepOK t (runCalls true t cs).1 (runCalls true t cs).2 := by
  induction cs generalizing t with
  | nil => exact StepOK.refl t
  | cons c cs ih =>
    simp only [runCalls]
    have h1 := call_ok t c h
    exact h1.trans (ih _ (h1.ids ▸ h))

mutual
theorem allNone_stAt (n : Nat) : ∀ m : Mod, m.allNone = true → m.stAt n .none = .none
  | .node i ks => by
    intro h; rw [allNone_node] at h
    simp only [Mod.stAt]
    split
    · exact h.1
    · exact allNoneK_stAt n ks h.2
theorem allNoneK_stAt (n : Nat) : ∀ ks : Kids, ks.allNone = true → ks.stAt n .none = .none
  | .nil => by intro _; rfl
  | .cons m _ rest => by
    intro h; rw [allNone_cons] at h
    simp only [Kids.stAt]
    rw [allNoneK_stAt n rest h.2]; exact allNone_stAt n m h.1
end

/-! ### the destructor on an all-`kNone` tree runs no hook -/
mutual
theorem destroy_allNone (m : Mod) (h : m.allNone = true) : destroy m = [] := by
  cases m with
  | node i ks =>
    have h' := (allNone_node i ks).1 h
    rw [destroy, cleanup]
    simp only [h'.1, if_true, Mod.kids, List.nil_append]
    exact destroyKids_allNone ks h'.2
termination_by m.size
decreasing_by
  subst_vars; simp only [Mod.size]; omega
theorem destroyKids_allNone (ks : Kids) (h : ks.allNone = true) : destroyKids ks = [] := by
  cases ks with
  | nil => rw [destroyKids]
  | cons m r rest =>
    rw [allNone_cons] at h
    rw [destroyKids, destroy_allNone m h.1, destroyKids_allNone rest h.2]; rfl
termination_by ks.size
decreasing_by
  all_goals (subst_vars; simp only [Kids.size]; omega)
end

/-! ### from the automaton to counting -/
def nn (s : St) : Nat := if s = .none then 0 else 1
def rr (s : St) : Nat := if s = .running then 1 else 0

theorem hookRun_counts (n : Nat) (tr : List Ev) : ∀ (s s' : St), hookRun n s tr = some s' →
    tr.count (Ev.init n true) + nn s = tr.count (Ev.cleanup n) + nn s' ∧
    tr.count (Ev.start n true) + rr s = tr.count (Ev.stop n) + rr s' := by
  induction tr with
  | nil => intro s s' h; simp only [hookRun, Option.some.injEq] at h; subst h; simp
  | cons e es ih =>
    intro s s' h
    simp only [hookRun] at h
    cases hst : hookStep n s e with
    | none => simp [hst] at h
    | some s1 =>
      rw [hst] at h
      simp only [Option.bind_some] at h
      have := ih s1 s' h
      simp only [List.count_cons]
      by_cases hid : e.id = n
      · subst hid
        cases e with
        | init m ok =>
          cases ok <;> cases s <;> simp [hookStep, Ev.id] at hst <;>
            (subst hst; simp [nn, rr, Ev.id] at this ⊢; omega)
        | start m ok =>
          cases ok <;> cases s <;> simp [hookStep, Ev.id] at hst <;>
            (subst hst; simp [nn, rr, Ev.id] at this ⊢; omega)
        | stop m =>
          cases s <;> simp [hookStep, Ev.id] at hst <;>
            (subst hst; simp [nn, rr, Ev.id] at this ⊢; omega)
        | cleanup m =>
          cases s <;> simp [hookStep, Ev.id] at hst <;>
            (subst hst; simp [nn, rr, Ev.id] at this ⊢; omega)
      · have hs1 : s1 = s := by simp [hookStep, hid] at hst; exact hst.symm
        subst hs1
        have h1 : (e == Ev.init n true) = false := by
          cases e <;> simp_all [Ev.id]
        have h2 : (e == Ev.cleanup n) = false := by cases e <;> simp_all [Ev.id]
        have h3 : (e == Ev.start n true) = false := by cases e <;> simp_all [Ev.id]
        have h4 : (e == Ev.stop n) = false := by cases e <;> simp_all [Ev.id]
        simp only [h1, h2, h3, h4]
        simpa using this

/-! ### explicit form of the `stop` / `cleanup` traces on `wf` trees -/
mutual
theorem stop_explicit : ∀ m : Mod, m.wf = true → (stop true m).2 = m.rrr.map Ev.stop
  | .node i ks => by
    intro h
    have h' := (wf_node i ks).1 h
    by_cases hrun : i.st = .running
    · rw [stop_node_running true i ks hrun]
      simp [Mod.rrr, hrun, stopKids_explicit ks h'.1]
    · have := (stop_wf true (.node i ks) h).2
      rw [stop_node_idle true i ks hrun] at this ⊢
      simp [noRun_rrr _ this]
theorem stopKids_explicit : ∀ ks : Kids, ks.wf = true → (stopKids ks).2 = ks.rrr.map Ev.stop
  | .nil => by intro _; rfl
  | .cons m r rest => by
    intro h
    rw [wf_cons] at h
    simp [stopKids, Kids.rrr, stop_explicit m h.1, stopKids_explicit rest h.2]
end

mutual
theorem cleanup_explicit (m : Mod) (h : m.wf = true) :
    (cleanup true m).2 = m.rrr.map Ev.stop ++ m.rnn.map Ev.cleanup := by
  cases m with
  | node i ks =>
    have h' := (wf_node i ks).1 h
    have hst := stop_explicit (.node i ks) h
    rw [cleanup]
    split
    · rename_i hn
      have ha := wf_none_allNone _ h hn
      simp [allNone_rnn _ ha, allNone_rrr _ ha]
    · rename_i hn
      dsimp only
      rw [hst]
      by_cases hrun : i.st = .running
      · rw [stop_node_running true i ks hrun]
        have hk := stopKids_wf ks h'.1
        have := cleanupKids_explicit (stopKids ks).1 hk.1 hk.2
        simp [Mod.kids, Mod.rnn, hn, this, rnn_stopKids]
      · rw [stop_node_idle true i ks hrun]
        have hin : i.st = .inited := by cases hh : i.st <;> simp_all
        have := cleanupKids_explicit ks h'.1 (h'.2.2 hin)
        simp [Mod.kids, Mod.rnn, hn, this]
termination_by m.size
decreasing_by
  all_goals (subst_vars; have := stopKids_size ks; simp only [Mod.size]; omega)
theorem cleanupKids_explicit (ks : Kids) (h : ks.wf = true) (hn : ks.noRun = true) :
    (cleanupKids ks).2 = ks.rnn.map Ev.cleanup := by
  cases ks with
  | nil => rw [cleanupKids]; rfl
  | cons m r rest =>
    rw [wf_cons] at h
    rw [noRun_cons] at hn
    rw [cleanupKids]
    have h1 := cleanup_explicit m h.1
    rw [noRun_rrr _ hn.1] at h1
    simp [Kids.rnn, h1, cleanupKids_explicit rest h.2 hn.2]
termination_by ks.size
decreasing_by
  all_goals (subst_vars; simp only [Kids.size]; omega)
end

end Tbox.C11
