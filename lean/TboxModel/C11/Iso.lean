/-
C11 — helper lemmas, part F: isolation of optional children.  If two trees differ only inside
optional child subtrees (`simP p`, `p` selecting none of their modules), every lifecycle function
returns the same value on both, runs the same hooks on the modules selected by `p`, and leaves
trees that again differ only inside those optional subtrees.
-/
import TboxModel.C11.Order
namespace Tbox.C11

theorem proj_append (p : Nat → Bool) (a b : List Ev) : proj p (a ++ b) = proj p a ++ proj p b := by
  simp [proj]

theorem proj_cons (p : Nat → Bool) (e : Ev) (a : List Ev) :
    proj p (e :: a) = (if p e.id then [e] else []) ++ proj p a := by
  simp only [proj, List.filter_cons]; split <;> simp

theorem proj_hidden (p : Nat → Bool) (ids : List Nat) (tr : List Ev)
    (he : ∀ e ∈ tr, e.id ∈ ids) (hp : ∀ x ∈ ids, p x = false) : proj p tr = [] := by
  simp only [proj, List.filter_eq_nil_iff]
  intro e h; simp [hp _ (he e h)]

theorem simP_node {p : Nat → Bool} {i i' : Info} {ks ks' : Kids} :
    (Mod.node i ks).simP p (.node i' ks') ↔ i = i' ∧ ks.simP p ks' := by simp [Mod.simP]

theorem simP_cons {p : Nat → Bool} {m m' : Mod} {r r' : Bool} {rest rest' : Kids} :
    (Kids.cons m r rest).simP p (.cons m' r' rest') ↔
      r = r' ∧ (m.simP p m' ∨ (r = false ∧ (∀ x ∈ m.ids, p x = false) ∧ (∀ x ∈ m'.ids, p x = false))) ∧
      rest.simP p rest' := by simp [Kids.simP]

mutual
theorem simP_refl (p : Nat → Bool) : ∀ m : Mod, m.simP p m
  | .node _ ks => simP_node.2 ⟨rfl, simPK_refl p ks⟩
theorem simPK_refl (p : Nat → Bool) : ∀ ks : Kids, ks.simP p ks
  | .nil => by simp [Kids.simP]
  | .cons m r rest => simP_cons.2 ⟨rfl, Or.inl (simP_refl p m), simPK_refl p rest⟩
end

/-! ### stop -/
mutual
theorem stop_iso (p : Nat → Bool) : ∀ m m' : Mod, m.simP p m' →
    proj p (stop true m).2 = proj p (stop true m').2 ∧ (stop true m).1.simP p (stop true m').1
  | .node i ks, .node i' ks' => by
    intro h
    obtain ⟨hi, hk⟩ := simP_node.1 h
    subst hi
    have ih := stopKids_iso p ks ks' hk
    by_cases hrun : i.st = .running
    · rw [stop_node_running true i ks hrun, stop_node_running true i ks' hrun]
      exact ⟨by simp [proj_append, ih.1], simP_node.2 ⟨rfl, ih.2⟩⟩
    · rw [stop_node_idle true i ks hrun, stop_node_idle true i ks' hrun]
      exact ⟨rfl, h⟩
theorem stopKids_iso (p : Nat → Bool) : ∀ ks ks' : Kids, ks.simP p ks' →
    proj p (stopKids ks).2 = proj p (stopKids ks').2 ∧ (stopKids ks).1.simP p (stopKids ks').1
  | .nil, .nil => by intro _; simp [stopKids, Kids.simP]
  | .nil, .cons _ _ _ => by intro h; simp [Kids.simP] at h
  | .cons _ _ _, .nil => by intro h; simp [Kids.simP] at h
  | .cons m r rest, .cons m' r' rest' => by
    intro h
    obtain ⟨hr, hm, hrest⟩ := simP_cons.1 h
    subst hr
    have ih := stopKids_iso p rest rest' hrest
    simp only [stopKids, proj_append]
    rcases hm with hm | ⟨hopt, h1, h2⟩
    · have ihm := stop_iso p m m' hm
      exact ⟨by rw [ih.1, ihm.1], simP_cons.2 ⟨rfl, Or.inl ihm.2, ih.2⟩⟩
    · have s1 := stop_shape true m
      have s2 := stop_shape true m'
      rw [proj_hidden p _ _ s1.2 h1, proj_hidden p _ _ s2.2 h2, ih.1]
      exact ⟨rfl, simP_cons.2 ⟨rfl, Or.inr ⟨hopt, s1.1 ▸ h1, s2.1 ▸ h2⟩, ih.2⟩⟩
end

/-! ### cleanup -/
mutual
theorem cleanup_iso (p : Nat → Bool) (m m' : Mod) (h : m.simP p m') :
    proj p (cleanup true m).2 = proj p (cleanup true m').2 ∧ (cleanup true m).1.simP p (cleanup true m').1 := by
  cases m with
  | node i ks =>
  cases m' with
  | node i' ks' =>
    obtain ⟨hi, hk⟩ := simP_node.1 h
    subst hi
    rw [cleanup, cleanup]
    split
    · exact ⟨rfl, h⟩
    · by_cases hrun : i.st = .running
      · rw [stop_node_running true i ks hrun, stop_node_running true i ks' hrun]
        have hs := stopKids_iso p ks ks' hk
        have hc := cleanupKids_iso p (stopKids ks).1 (stopKids ks').1 hs.2
        simp only [Mod.kids, Mod.info, if_true, proj_append, hs.1, hc.1]
        exact ⟨by first | rfl | trivial, simP_node.2 ⟨rfl, hc.2⟩⟩
      · rw [stop_node_idle true i ks hrun, stop_node_idle true i ks' hrun]
        have hc := cleanupKids_iso p ks ks' hk
        simp only [Mod.kids, Mod.info, if_true, proj_append, hc.1]
        exact ⟨by first | rfl | trivial, simP_node.2 ⟨rfl, hc.2⟩⟩
termination_by m.size
decreasing_by
  all_goals (subst_vars; have := stopKids_size ks; simp only [Mod.size]; omega)
theorem cleanupKids_iso (p : Nat → Bool) (ks ks' : Kids) (h : ks.simP p ks') :
    proj p (cleanupKids ks).2 = proj p (cleanupKids ks').2 ∧ (cleanupKids ks).1.simP p (cleanupKids ks').1 := by
  cases ks with
  | nil =>
    cases ks' with
    | nil => rw [cleanupKids]; simp [Kids.simP]
    | cons _ _ _ => simp [Kids.simP] at h
  | cons m r rest =>
    cases ks' with
    | nil => simp [Kids.simP] at h
    | cons m' r' rest' =>
      obtain ⟨hr, hm, hrest⟩ := simP_cons.1 h
      subst hr
      have ih := cleanupKids_iso p rest rest' hrest
      rw [cleanupKids, cleanupKids]
      simp only [proj_append]
      rcases hm with hm | ⟨hopt, h1, h2⟩
      · have ihm := cleanup_iso p m m' hm
        exact ⟨by rw [ih.1, ihm.1], simP_cons.2 ⟨rfl, Or.inl ihm.2, ih.2⟩⟩
      · have s1 := cleanup_shape m
        have s2 := cleanup_shape m'
        rw [proj_hidden p _ _ s1.2 h1, proj_hidden p _ _ s2.2 h2, ih.1]
        exact ⟨rfl, simP_cons.2 ⟨rfl, Or.inr ⟨hopt, s1.1 ▸ h1, s2.1 ▸ h2⟩, ih.2⟩⟩
termination_by ks.size
decreasing_by
  all_goals (subst_vars; simp only [Kids.size]; omega)
end

/-! ### initialize -/
mutual
theorem init_iso (p : Nat → Bool) : ∀ m m' : Mod, m.simP p m' →
    (initM true m).2.1 = (initM true m').2.1 ∧ proj p (initM true m).2.2 = proj p (initM true m').2.2 ∧
    (initM true m).1.simP p (initM true m').1
  | .node i ks, .node i' ks' => by
    intro h
    obtain ⟨hi, hk⟩ := simP_node.1 h
    subst hi
    have ih := initKids_iso p ks ks' hk
    unfold initM
    split
    · exact ⟨rfl, rfl, h⟩
    split
    · exact ⟨rfl, rfl, h⟩
    split
    · exact ⟨rfl, rfl, h⟩
    dsimp only
    rw [← ih.1]
    split
    · exact ⟨rfl, by simp [proj_cons, ih.2.1], simP_node.2 ⟨rfl, ih.2.2⟩⟩
    · simp only [if_true]
      exact ⟨by first | rfl | trivial, by simp [proj_cons, proj_append, ih.2.1], simP_node.2 ⟨rfl, ih.2.2⟩⟩
theorem initKids_iso (p : Nat → Bool) : ∀ ks ks' : Kids, ks.simP p ks' →
    (initKids true ks).2.1 = (initKids true ks').2.1 ∧ proj p (initKids true ks).2.2 = proj p (initKids true ks').2.2 ∧
    (initKids true ks).1.simP p (initKids true ks').1
  | .nil, .nil => by intro _; simp [initKids, Kids.simP]
  | .nil, .cons _ _ _ => by intro h; simp [Kids.simP] at h
  | .cons _ _ _, .nil => by intro h; simp [Kids.simP] at h
  | .cons m r rest, .cons m' r' rest' => by
    intro h
    obtain ⟨hr, hm, hrest⟩ := simP_cons.1 h
    subst hr
    have ih := initKids_iso p rest rest' hrest
    rcases hm with hm | ⟨hopt, h1, h2⟩
    · have ihm := init_iso p m m' hm
      have hc := cleanup_iso p _ _ ihm.2.2
      unfold initKids
      dsimp only
      rw [← ihm.1, ← ih.1]
      split
      · exact ⟨rfl, ihm.2.1, simP_cons.2 ⟨rfl, Or.inl ihm.2.2, hrest⟩⟩
      split
      · exact ⟨rfl, by simp [proj_append, ihm.2.1, ih.2.1], simP_cons.2 ⟨rfl, Or.inl ihm.2.2, ih.2.2⟩⟩
      · simp only [if_true]
        exact ⟨by first | rfl | trivial, by simp [proj_append, ihm.2.1, ih.2.1, hc.1], simP_cons.2 ⟨rfl, Or.inl hc.2, ih.2.2⟩⟩
    · subst hopt
      have s1 := init_shape m
      have s2 := init_shape m'
      have c1 := cleanup_shape (initM true m).1
      have c2 := cleanup_shape (initM true m').1
      have p1 := proj_hidden p _ _ s1.2 h1
      have p2 := proj_hidden p _ _ s2.2 h2
      have q1 := proj_hidden p _ _ c1.2 (s1.1 ▸ h1)
      have q2 := proj_hidden p _ _ c2.2 (s2.1 ▸ h2)
      unfold initKids
      dsimp only
      simp only [Bool.and_false, Bool.false_eq_true, if_false]
      rw [← ih.1]
      split
      · exact ⟨rfl, by simp [proj_append, p1, p2, ih.2.1],
          simP_cons.2 ⟨rfl, Or.inr ⟨rfl, s1.1 ▸ h1, s2.1 ▸ h2⟩, ih.2.2⟩⟩
      · simp only [if_true]
        refine ⟨by first | rfl | trivial, by simp [proj_append, p1, p2, q1, q2, ih.2.1], simP_cons.2 ⟨rfl, Or.inr ⟨rfl, ?_, ?_⟩, ih.2.2⟩⟩
        · rw [c1.1, s1.1]; exact h1
        · rw [c2.1, s2.1]; exact h2
end

/-! ### start -/
mutual
theorem start_iso (p : Nat → Bool) : ∀ m m' : Mod, m.simP p m' →
    (start true m).2.1 = (start true m').2.1 ∧ proj p (start true m).2.2 = proj p (start true m').2.2 ∧
    (start true m).1.simP p (start true m').1
  | .node i ks, .node i' ks' => by
    intro h
    obtain ⟨hi, hk⟩ := simP_node.1 h
    subst hi
    have ih := startKids_iso p ks ks' hk
    unfold start
    split
    · exact ⟨rfl, rfl, h⟩
    split
    · exact ⟨rfl, rfl, h⟩
    dsimp only
    rw [← ih.1]
    split
    · exact ⟨rfl, by simp [proj_cons, ih.2.1], simP_node.2 ⟨rfl, ih.2.2⟩⟩
    · simp only [if_true]
      exact ⟨by first | rfl | trivial, by simp [proj_cons, proj_append, ih.2.1], simP_node.2 ⟨rfl, ih.2.2⟩⟩
theorem startKids_iso (p : Nat → Bool) : ∀ ks ks' : Kids, ks.simP p ks' →
    (startKids true ks).2.1 = (startKids true ks').2.1 ∧ proj p (startKids true ks).2.2 = proj p (startKids true ks').2.2 ∧
    (startKids true ks).1.simP p (startKids true ks').1
  | .nil, .nil => by intro _; simp [startKids, Kids.simP]
  | .nil, .cons _ _ _ => by intro h; simp [Kids.simP] at h
  | .cons _ _ _, .nil => by intro h; simp [Kids.simP] at h
  | .cons m r rest, .cons m' r' rest' => by
    intro h
    obtain ⟨hr, hm, hrest⟩ := simP_cons.1 h
    subst hr
    have ih := startKids_iso p rest rest' hrest
    rcases hm with hm | ⟨hopt, h1, h2⟩
    · have ihm := start_iso p m m' hm
      have hc := stop_iso p _ _ ihm.2.2
      unfold startKids
      dsimp only
      rw [← ihm.1, ← ih.1]
      split
      · exact ⟨rfl, ihm.2.1, simP_cons.2 ⟨rfl, Or.inl ihm.2.2, hrest⟩⟩
      split
      · exact ⟨rfl, by simp [proj_append, ihm.2.1, ih.2.1], simP_cons.2 ⟨rfl, Or.inl ihm.2.2, ih.2.2⟩⟩
      · simp only [if_true]
        exact ⟨by first | rfl | trivial, by simp [proj_append, ihm.2.1, ih.2.1, hc.1], simP_cons.2 ⟨rfl, Or.inl hc.2, ih.2.2⟩⟩
    · subst hopt
      have s1 := start_shape m
      have s2 := start_shape m'
      have c1 := stop_shape true (start true m).1
      have c2 := stop_shape true (start true m').1
      have p1 := proj_hidden p _ _ s1.2 h1
      have p2 := proj_hidden p _ _ s2.2 h2
      have q1 := proj_hidden p _ _ c1.2 (s1.1 ▸ h1)
      have q2 := proj_hidden p _ _ c2.2 (s2.1 ▸ h2)
      unfold startKids
      dsimp only
      simp only [Bool.and_false, Bool.false_eq_true, if_false]
      rw [← ih.1]
      split
      · exact ⟨rfl, by simp [proj_append, p1, p2, ih.2.1],
          simP_cons.2 ⟨rfl, Or.inr ⟨rfl, s1.1 ▸ h1, s2.1 ▸ h2⟩, ih.2.2⟩⟩
      · simp only [if_true]
        refine ⟨by first | rfl | trivial, by simp [proj_append, p1, p2, q1, q2, ih.2.1], simP_cons.2 ⟨rfl, Or.inr ⟨rfl, ?_, ?_⟩, ih.2.2⟩⟩
        · rw [c1.1, s1.1]; exact h1
        · rw [c2.1, s2.1]; exact h2
end

/-! ### fault flags -/
mutual
theorem setFlags_ids (k : Nat) (c i s : Bool) : ∀ m : Mod, (m.setFlags k c i s).ids = m.ids
  | .node inf ks => by
    simp only [Mod.setFlags, Mod.ids, setFlagsK_ids k c i s ks]
    split <;> simp
theorem setFlagsK_ids (k : Nat) (c i s : Bool) : ∀ ks : Kids, (ks.setFlags k c i s).ids = ks.ids
  | .nil => rfl
  | .cons m r rest => by simp [Kids.setFlags, Kids.ids, setFlags_ids k c i s m, setFlagsK_ids k c i s rest]
end

mutual
theorem setFlags_iso (p : Nat → Bool) (k : Nat) (c i s : Bool) : ∀ m m' : Mod, m.simP p m' →
    (m.setFlags k c i s).simP p (m'.setFlags k c i s)
  | .node inf ks, .node inf' ks' => by
    intro h
    obtain ⟨hi, hk⟩ := simP_node.1 h
    subst hi
    simp only [Mod.setFlags]
    exact simP_node.2 ⟨rfl, setFlagsK_iso p k c i s ks ks' hk⟩
theorem setFlagsK_iso (p : Nat → Bool) (k : Nat) (c i s : Bool) : ∀ ks ks' : Kids, ks.simP p ks' →
    (ks.setFlags k c i s).simP p (ks'.setFlags k c i s)
  | .nil, .nil => by intro _; simp [Kids.setFlags, Kids.simP]
  | .nil, .cons _ _ _ => by intro h; simp [Kids.simP] at h
  | .cons _ _ _, .nil => by intro h; simp [Kids.simP] at h
  | .cons m r rest, .cons m' r' rest' => by
    intro h
    obtain ⟨hr, hm, hrest⟩ := simP_cons.1 h
    subst hr
    simp only [Kids.setFlags]
    refine simP_cons.2 ⟨rfl, ?_, setFlagsK_iso p k c i s rest rest' hrest⟩
    rcases hm with hm | ⟨hopt, h1, h2⟩
    · exact Or.inl (setFlags_iso p k c i s m m' hm)
    · exact Or.inr ⟨hopt, by rw [setFlags_ids]; exact h1, by rw [setFlags_ids]; exact h2⟩
end

/-! ### root calls and call sequences -/
theorem call_iso (p : Nat → Bool) (t t' : Mod) (h : t.simP p t') (c : Call) :
    (call true t c).2.1 = (call true t' c).2.1 ∧ proj p (call true t c).2.2 = proj p (call true t' c).2.2 ∧
    (call true t c).1.simP p (call true t' c).1 := by
  cases c with
  | init => exact init_iso p t t' h
  | start => exact start_iso p t t' h
  | stop => exact ⟨rfl, stop_iso p t t' h⟩
  | cleanup => exact ⟨rfl, cleanup_iso p t t' h⟩
  | setFlags k c i s => exact ⟨rfl, rfl, setFlags_iso p k c i s t t' h⟩

theorem runCalls_iso (p : Nat → Bool) (t t' : Mod) (h : t.simP p t') (cs : List Call) :
    rets true t cs = rets true t' cs ∧ proj p (runCalls true t cs).2 = proj p (runCalls true t' cs).2 ∧
    (runCalls true t cs).1.simP p (runCalls true t' cs).1 := by
  induction cs generalizing t t' with
  | nil => exact ⟨rfl, rfl, h⟩
  | cons c cs ih =>
    have hc := call_iso p t t' h c
    have := ih _ _ hc.2.2
    simp only [rets, runCalls, proj_append]
    exact ⟨by rw [hc.1, this.1], by rw [hc.2.1, this.2.1], this.2.2⟩

end Tbox.C11
