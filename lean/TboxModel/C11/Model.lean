/-
C11 — model of `tbox::main::Module` (modules/main/module.{h,cpp}).

A module tree is a mutual inductive (`Mod` = one module with its `state_` and the
behaviour of its user hooks, `Kids` = the ordered `children_` vector of
`(module_ptr, required)` items).  `initialize / start / stop / cleanup` are transcribed
function by function from module.cpp; each returns the new tree, the return value and
the list of USER hooks that ran (`Ev`).  The parameter `rb` selects the code:

* `rb = true`  — module.cpp with patches/C11-01 applied (roll back on the failure path of
  `initialize()` / `start()`): this is the code the property theorems are about;
* `rb = false` — module.cpp as it was before the patch (kept for the counterexample).

Loops over `children_` become recursion over `Kids`: a forward loop handles the head and
then the rest, a reverse loop (`rbegin → rend`) handles the rest and then the head.  The
roll-back loop of the patch (`while (iter != begin) (--iter)->cleanup()`) runs when the
recursion over the rest reports failure: the rest has already rolled back its own part,
then the head is cleaned — the same reverse order.

`own = false` is the destructor: `~Module()` calls `cleanup()`, but virtual dispatch from
inside `~Module` reaches `Module::onStop / Module::onCleanup` (the empty base hooks), so
the module being destroyed emits no user hook of its own; its children are still complete
objects and get their real hooks.

Names: a module is either unnamed (`name_ == ""`) or named `"m<id>"` (unique), so the only
name clash `add()` can see is two unnamed siblings.  `cfg` says whether the configuration
object handed down contains this module's key.
-/
namespace Tbox.C11

/-- `Module::State` -/
inductive St | none | inited | running
  deriving DecidableEq, Repr, Inhabited

structure Info where
  id : Nat
  named : Bool
  cfg : Bool
  initOk : Bool
  startOk : Bool
  st : St
  deriving DecidableEq, Repr, Inhabited

mutual
inductive Mod where
  | node (i : Info) (ks : Kids)
inductive Kids where
  | nil
  | cons (m : Mod) (req : Bool) (rest : Kids)
end

/-- a user hook that ran (`onInit`/`onStart` with what it returned, `onStop`, `onCleanup`) -/
inductive Ev where
  | init (id : Nat) (ok : Bool)
  | start (id : Nat) (ok : Bool)
  | stop (id : Nat)
  | cleanup (id : Nat)
  deriving DecidableEq, Repr

def Ev.id : Ev → Nat
  | .init n _ => n | .start n _ => n | .stop n => n | .cleanup n => n

def setSt (i : Info) (s : St) : Info := { i with st := s }

def Mod.info : Mod → Info | .node i _ => i
def Mod.kids : Mod → Kids | .node _ ks => ks

mutual
def Mod.size : Mod → Nat
  | .node _ ks => 1 + ks.size
def Kids.size : Kids → Nat
  | .nil => 0
  | .cons m _ rest => 1 + m.size + rest.size
end

/-! ### `Module::stop()` -/
mutual
def stop (own : Bool) : Mod → Mod × List Ev
  | .node i ks =>
    if i.st ≠ .running then (.node i ks, [])
    else
      let r := stopKids ks
      (.node (setSt i .inited) r.1, r.2 ++ (if own then [Ev.stop i.id] else []))
/-- `for (iter = children_.rbegin(); iter != children_.rend(); ++iter) iter->module_ptr->stop();` -/
def stopKids : Kids → Kids × List Ev
  | .nil => (.nil, [])
  | .cons m req rest =>
    let r := stopKids rest
    let h := stop true m
    (.cons h.1 req r.1, r.2 ++ h.2)
end

mutual
theorem stop_size (own : Bool) : ∀ m, (stop own m).1.size = m.size
  | .node i ks => by
    unfold stop
    split
    · rfl
    · simp only [Mod.size, stopKids_size ks]
theorem stopKids_size : ∀ ks, (stopKids ks).1.size = ks.size
  | .nil => by simp [stopKids]
  | .cons m req rest => by
    simp only [stopKids, Kids.size, stop_size true m, stopKids_size rest]
end

theorem kids_size_lt (m : Mod) : m.kids.size < m.size := by
  cases m; simp [Mod.kids, Mod.size]

/-! ### `Module::cleanup()` -/
mutual
def cleanup (own : Bool) : Mod → Mod × List Ev
  | .node i ks =>
    if i.st = .none then (.node i ks, [])
    else
      let s := stop own (.node i ks)
      let c := cleanupKids s.1.kids
      (.node (setSt s.1.info .none) c.1, s.2 ++ c.2 ++ (if own then [Ev.cleanup i.id] else []))
termination_by m => m.size
decreasing_by
  have h1 := stop_size own (.node i ks)
  have h2 := kids_size_lt (stop own (.node i ks)).1
  omega
/-- `for (iter = children_.rbegin(); …) iter->module_ptr->cleanup();` -/
def cleanupKids : Kids → Kids × List Ev
  | .nil => (.nil, [])
  | .cons m req rest =>
    let r := cleanupKids rest
    let h := cleanup true m
    (.cons h.1 req r.1, r.2 ++ h.2)
termination_by ks => ks.size
decreasing_by
  all_goals simp only [Kids.size]; omega
end

/-! ### `Module::initialize()` -/
mutual
def initM (rb : Bool) : Mod → Mod × Bool × List Ev
  | .node i ks =>
    if i.st ≠ .none then (.node i ks, false, [])
    else if i.named && !i.cfg then (.node i ks, false, [])
    else if !i.initOk then (.node i ks, false, [Ev.init i.id false])
    else
      let r := initKids rb ks
      if r.2.1 then (.node (setSt i .inited) r.1, true, Ev.init i.id true :: r.2.2)
      else if rb then (.node i r.1, false, Ev.init i.id true :: (r.2.2 ++ [Ev.cleanup i.id]))
      else (.node i r.1, false, Ev.init i.id true :: r.2.2)
/-- the loop over `children_` of `initialize()`; result `false` = a required child failed -/
def initKids (rb : Bool) : Kids → Kids × Bool × List Ev
  | .nil => (.nil, true, [])
  | .cons m req rest =>
    let h := initM rb m
    if !h.2.1 && req then (.cons h.1 req rest, false, h.2.2)
    else
      let r := initKids rb rest
      if r.2.1 then (.cons h.1 req r.1, true, h.2.2 ++ r.2.2)
      else if rb then
        let c := cleanup true h.1
        (.cons c.1 req r.1, false, h.2.2 ++ r.2.2 ++ c.2)
      else (.cons h.1 req r.1, false, h.2.2 ++ r.2.2)
end

/-! ### `Module::start()` -/
mutual
def start (rb : Bool) : Mod → Mod × Bool × List Ev
  | .node i ks =>
    if i.st ≠ .inited then (.node i ks, false, [])
    else if !i.startOk then (.node i ks, false, [Ev.start i.id false])
    else
      let r := startKids rb ks
      if r.2.1 then (.node (setSt i .running) r.1, true, Ev.start i.id true :: r.2.2)
      else if rb then (.node i r.1, false, Ev.start i.id true :: (r.2.2 ++ [Ev.stop i.id]))
      else (.node i r.1, false, Ev.start i.id true :: r.2.2)
def startKids (rb : Bool) : Kids → Kids × Bool × List Ev
  | .nil => (.nil, true, [])
  | .cons m req rest =>
    let h := start rb m
    if !h.2.1 && req then (.cons h.1 req rest, false, h.2.2)
    else
      let r := startKids rb rest
      if r.2.1 then (.cons h.1 req r.1, true, h.2.2 ++ r.2.2)
      else if rb then
        let c := stop true h.1
        (.cons c.1 req r.1, false, h.2.2 ++ r.2.2 ++ c.2)
      else (.cons h.1 req r.1, false, h.2.2 ++ r.2.2)
end

/-! ### calls on the root -/

mutual
def Mod.setFlags (n : Nat) (cfg initOk startOk : Bool) : Mod → Mod
  | .node i ks =>
    .node (if i.id = n then { i with cfg := cfg, initOk := initOk, startOk := startOk } else i)
      (ks.setFlags n cfg initOk startOk)
def Kids.setFlags (n : Nat) (cfg initOk startOk : Bool) : Kids → Kids
  | .nil => .nil
  | .cons m req rest => .cons (m.setFlags n cfg initOk startOk) req (rest.setFlags n cfg initOk startOk)
end

/-- what the owner of the root may do between construction and destruction: the four
public lifecycle functions in any order, and changing what the hooks of some module will
return next time (a fault that appears or disappears between calls) -/
inductive Call where
  | init | start | stop | cleanup
  | setFlags (id : Nat) (cfg initOk startOk : Bool)
  deriving DecidableEq, Repr

/-- new tree, return value (`true` for the `void` functions), hooks that ran -/
def call (rb : Bool) (t : Mod) : Call → Mod × Bool × List Ev
  | .init => initM rb t
  | .start => start rb t
  | .stop => ((stop true t).1, true, (stop true t).2)
  | .cleanup => ((cleanup true t).1, true, (cleanup true t).2)
  | .setFlags n c i s => (t.setFlags n c i s, true, [])

def runCalls (rb : Bool) (t : Mod) : List Call → Mod × List Ev
  | [] => (t, [])
  | c :: cs =>
    let r := call rb t c
    let q := runCalls rb r.1 cs
    (q.1, r.2.2 ++ q.2)

/-! ### `Module::~Module()` -/

mutual
theorem cleanup_size (own : Bool) (m : Mod) : (cleanup own m).1.size = m.size := by
  cases m with
  | node i ks =>
    rw [cleanup]
    split
    · rfl
    · have hs := stop_size own (.node i ks)
      have := cleanupKids_size (stop own (.node i ks)).1.kids
      dsimp only
      generalize (stop own (.node i ks)).1 = sm at hs this ⊢
      cases sm with
      | node si sks =>
        simp only [Mod.kids, Mod.size] at hs this ⊢
        omega
termination_by m.size
decreasing_by
  have := stop_size own (.node i ks)
  have := kids_size_lt (stop own (.node i ks)).1
  omega
theorem cleanupKids_size (ks : Kids) : (cleanupKids ks).1.size = ks.size := by
  cases ks with
  | nil => rw [cleanupKids]
  | cons m req rest =>
    rw [cleanupKids]
    simp only [Kids.size, cleanup_size true m, cleanupKids_size rest]
termination_by ks.size
decreasing_by
  all_goals simp only [Kids.size]; omega
end

mutual
/-- `cleanup(); for (item : children_) delete item.module_ptr;` — only the hook trace matters,
the objects are gone afterwards -/
def destroy (m : Mod) : List Ev :=
  let c := cleanup false m
  c.2 ++ destroyKids c.1.kids
termination_by m.size
decreasing_by
  have h1 := cleanup_size false m
  have h2 := kids_size_lt (cleanup false m).1
  omega
def destroyKids (ks : Kids) : List Ev :=
  match ks with
  | .nil => []
  | .cons m _ rest => destroy m ++ destroyKids rest
termination_by ks.size
decreasing_by
  all_goals simp only [Kids.size]; omega
end

/-! ### `Main()` (run_in_frontend.cpp) / `Start()`+`Stop()` (run_in_backend.cpp)

What both do with the Apps tree `t` (a base `Module("")` whose children are the user's modules):
```
if (ctx.initialize(..)) {
    if (apps.initialize(js_conf)) {
        if (ctx.start() && apps.start()) { run loop; on the stop signal: apps.stop(); … }
        apps.cleanup();
    }
    ctx.cleanup();
}
… ~Module(apps)
```
`ctxInit` / `ctxStart` are what `ContextImp::initialize()` / `start()` return. -/

/-- the root calls `Main()` makes on the Apps tree before its final `cleanup()` (if any) -/
def mainCalls (rb ctxInit ctxStart : Bool) (t : Mod) : List Call :=
  if !ctxInit then []
  else if !(initM rb t).2.1 then [.init]
  else if !ctxStart then [.init]
  else if (start rb (initM rb t).1).2.1 then [.init, .start, .stop]
  else [.init, .start]

/-- the hooks that run during one `Main()`, up to and including the destruction of the Apps tree -/
def mainTrace (rb ctxInit ctxStart : Bool) (t : Mod) : List Ev :=
  if !ctxInit then destroy t
  else
    let i := initM rb t
    if !i.2.1 then i.2.2 ++ destroy i.1                      -- "Apps init fail": no cleanup() call
    else if !ctxStart then
      let c := cleanup true i.1
      i.2.2 ++ c.2 ++ destroy c.1
    else
      let s := start rb i.1
      if s.2.1 then
        let p := stop true s.1                                  -- stop signal
        let c := cleanup true p.1
        i.2.2 ++ s.2.2 ++ p.2 ++ c.2 ++ destroy c.1
      else
        let c := cleanup true s.1                               -- "Apps start fail"
        i.2.2 ++ s.2.2 ++ c.2 ++ destroy c.1

/-! ### tree observations -/
mutual
/-- ids in pre-order (a module, then its children in registration order) -/
def Mod.ids : Mod → List Nat
  | .node i ks => i.id :: ks.ids
def Kids.ids : Kids → List Nat
  | .nil => []
  | .cons m _ rest => m.ids ++ rest.ids
end

mutual
def Mod.states : Mod → List (Nat × St)
  | .node i ks => (i.id, i.st) :: ks.states
def Kids.states : Kids → List (Nat × St)
  | .nil => []
  | .cons m _ rest => m.states ++ rest.states
end

mutual
/-- every module of the tree is in `State::kNone` (a tree as constructed, or cleaned up) -/
def Mod.allNone : Mod → Bool
  | .node i ks => i.st == .none && ks.allNone
def Kids.allNone : Kids → Bool
  | .nil => true
  | .cons m _ rest => m.allNone && rest.allNone
end

mutual
/-- no module of the tree is `kRunning` -/
def Mod.noRun : Mod → Bool
  | .node i ks => i.st != .running && ks.noRun
def Kids.noRun : Kids → Bool
  | .nil => true
  | .cons m _ rest => m.noRun && rest.noRun
end

/-! ### `Module::toJson()` — the canonical rendering compared with the harness

`vc n` = number of variables in `vars()` of module `n` (`"vars"` is written only when there are some); children are rendered in
registration order with their `required` flag.  Structural recursion: total on every (finite, acyclic) tree — that `add()` cannot
build anything else is patches/C11-08. -/
mutual
def Mod.jsonStr (vc : Nat → Nat) : Mod → String
  | .node i ks => toString i.id ++ (if vc i.id = 0 then "" else "v" ++ toString (vc i.id)) ++ "[" ++ ks.jsonStr vc ++ "]"
def Kids.jsonStr (vc : Nat → Nat) : Kids → String
  | .nil => ""
  | .cons m req rest => (if req then "1:" else "0:") ++ m.jsonStr vc ++ (match rest with | .nil => "" | _ => ",") ++ rest.jsonStr vc
end

/-! ### forest of free-standing modules: construction and `Module::add()` (driver level) -/

abbrev Forest := List Mod

def Mod.id (m : Mod) : Nat := m.info.id

mutual
def Mod.find (n : Nat) : Mod → Option Mod
  | .node i ks => if i.id = n then some (.node i ks) else ks.find n
def Kids.find (n : Nat) : Kids → Option Mod
  | .nil => none
  | .cons m _ rest => match m.find n with
      | some x => some x
      | none => rest.find n
end

def Kids.snoc : Kids → Mod → Bool → Kids
  | .nil, c, r => .cons c r .nil
  | .cons m req rest, c, r => .cons m req (rest.snoc c r)

def Kids.hasUnnamed : Kids → Bool
  | .nil => false
  | .cons m _ rest => !m.info.named || rest.hasUnnamed

mutual
/-- `children_.emplace_back({child, required})` at module `p` -/
def Mod.attach (p : Nat) (c : Mod) (r : Bool) : Mod → Mod
  | .node i ks => if i.id = p then .node i (ks.snoc c r) else .node i (Kids.attach p c r ks)
def Kids.attach (p : Nat) (c : Mod) (r : Bool) : Kids → Kids
  | .nil => .nil
  | .cons m req rest => .cons (Mod.attach p c r m) req (Kids.attach p c r rest)
end

def Forest.find (f : Forest) (n : Nat) : Option Mod := f.findSome? (Mod.find n)
def Forest.root? (f : Forest) (n : Nat) : Option Mod := List.find? (fun m => m.id == n) f

/-- `parent.add(child, required)`.  Outer `none` = the request is not about a forest
(unknown id); inner Bool = what `add()` returns. -/
def Forest.add (f : Forest) (p c : Nat) (r : Bool) : Option (Forest × Bool) :=
  match f.find p, f.find c with
  | some pm, some cm =>
    match f.root? c with
    | none => some (f, false)                       -- `child->parent_ != nullptr`
    | some croot =>
      if croot.ids.contains p then some (f, false)  -- p inside c's own tree: refused (patches/C11-08)
      else if pm.info.st != .none then some (f, false)
      else if !cm.info.named && pm.kids.hasUnnamed then some (f, false)   -- name duplicated ("")
      else
        some (((f.filter fun m => m.id != c).map (Mod.attach p croot r)), true)
  | _, _ => none

def Forest.states (f : Forest) : List (Nat × St) :=
  (f.flatMap Mod.states).mergeSort (fun a b => a.1 ≤ b.1)

end Tbox.C11
