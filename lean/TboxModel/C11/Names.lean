/-
C11 — names, `addAs()` and the configuration object.

The tree/arena models know two kinds of names only (`""` and a name unique to the module).  Here a
module carries an arbitrary name (a code: `0` = the empty name, `1` = the key `"#"` every probe writes
its identity into, other codes = other keys, among them `children` / `required` / `vars`), `add()` /
`addAs()` are transcribed with the duplicate-name check over real names, and the configuration is a
JSON value, so that the model answers WHICH sub-object every `onFillDefaultConfig` / `onInit` receives:

* `fill`  = `Module::fillDefaultConfig(js_parent)`: `js_this = name_.empty() ? js_parent : js_parent[name_]`,
  the module's hook (writes `"#" = id` when named, then its scripted keys `= 7`), then the children in
  registration order on `js_this`.  `none` = nlohmann's `type_error` (`operator[]` with a key on a number).
* `kInit` = `Module::initialize(js_parent)` (all hooks succeed here; what fails is a missing key), with the
  roll-back of the repaired module.cpp; the event of an `onInit` carries the owner marker of the object it got.
* `kCleanup` = `Module::cleanup()` for modules that were never started.
-/
namespace Tbox.C11.Names

inductive J where
  | null
  | num (v : Nat)
  | obj (fs : List (Nat × J))
  deriving Repr, Inhabited

def lookup (fs : List (Nat × J)) (k : Nat) : Option J := (fs.find? fun p => p.1 == k).map (·.2)

/-- `js.contains(key)`: false on anything but an object -/
def J.contains : J → Nat → Bool
  | .obj fs, k => fs.any fun p => p.1 == k
  | _, _ => false

/-- const `js[key]` (called after `contains` only) -/
def J.get : J → Nat → J
  | .obj fs, k => (lookup fs k).getD .null
  | _, _ => .null

/-- what the non-const `js[key]` refers to (`null` for an element it creates); `none` = `type_error` -/
def J.ref : J → Nat → Option J
  | .null, _ => some .null
  | .obj fs, k => some ((lookup fs k).getD .null)
  | .num _, _ => none

/-- `js[key] = v` -/
def J.put : J → Nat → J → Option J
  | .null, k, v => some (.obj [(k, v)])
  | .obj fs, k, v =>
    some (.obj (if fs.any (fun p => p.1 == k) then fs.map (fun p => if p.1 == k then (k, v) else p) else fs ++ [(k, v)]))
  | .num _, _, _ => none

/-- the owner marker of an object: the number under `"#"` (key code 1) -/
def J.marker : J → Option Nat
  | .obj fs => match lookup fs 1 with
    | some (.num v) => some v
    | _ => none
  | _ => none

structure KNode where
  alive : Bool := false
  name : Nat := 0
  st : Bool := false            -- `state_ != kNone`
  hasParent : Bool := false
  parent : Nat := 0
  kids : List (Nat × Bool) := []
  writes : List Nat := []       -- keys its `onFillDefaultConfig` sets (after the marker)
  deriving Repr, Inhabited

structure KStore where
  l : List (Nat × KNode) := []

def KStore.get (σ : KStore) (n : Nat) : KNode :=
  match σ.l.find? (fun p => p.1 == n) with
  | some p => p.2
  | none => {}

def KStore.set (σ : KStore) (n : Nat) (v : KNode) : KStore := ⟨(n, v) :: σ.l.filter (fun p => p.1 != n)⟩

/-- the root of `n`'s tree (bounded walk along `parent_`) -/
def rootOf (σ : KStore) : Nat → Nat → Nat
  | 0, n => n
  | f + 1, n => if (σ.get n).hasParent then rootOf σ f (σ.get n).parent else n

/-- `std::find_if(children_, name() == child->name())` -/
def dupName (σ : KStore) (ks : List (Nat × Bool)) (nm : Nat) : Bool := ks.any fun k => (σ.get k.1).name == nm

/-- `p->add(c, req)` on live modules (`c` not null): the new store and the result -/
def addK (σ : KStore) (p c : Nat) (req : Bool) : KStore × Bool :=
  if (σ.get p).st then (σ, false)
  else if (σ.get c).hasParent then (σ, false)
  else if rootOf σ 1000 p = c then (σ, false)
  else if dupName σ (σ.get p).kids (σ.get c).name then (σ, false)
  else
    let x := σ.get p
    let σ1 := σ.set p { x with kids := x.kids ++ [(c, req)] }
    let y := σ1.get c
    (σ1.set c { y with hasParent := true, parent := p }, true)

/-- `p->addAs(c, nm, req)`: rename, `add()`, restore the name when refused -/
def addAsK (σ : KStore) (p c nm : Nat) (req : Bool) : KStore × Bool :=
  let old := (σ.get c).name
  let σ1 := σ.set c { σ.get c with name := nm }
  let r := addK σ1 p c req
  if r.2 then r
  else (r.1.set c { r.1.get c with name := old }, false)

/-- `p->addAs(nullptr, nm, req)`: with patches/C11-09 the null check of `add()` is reached (`fixed`); before it
`child->name_` is read through the null pointer — no defined result (`none`: the process dies) -/
def addAsNull (fixed : Bool) (σ : KStore) : Option (KStore × Bool) := if fixed then some (σ, false) else none

/-- the probe's `onFillDefaultConfig(js_this)` -/
def hookFill (x : KNode) (n : Nat) (j : J) : Option J :=
  (if x.name != 0 then j.put 1 (.num n) else some j).bind fun j1 =>
    x.writes.foldlM (fun acc k => acc.put k (.num 7)) j1

mutual
def fill : Nat → KStore → Nat → J → Option J
  | 0, _, _, _ => none
  | f + 1, σ, n, jp =>
    let x := σ.get n
    if x.name == 0 then
      (hookFill x n jp).bind fun j => fillKids f σ x.kids j
    else
      (jp.ref x.name).bind fun jt =>
      (hookFill x n jt).bind fun jt1 =>
      (fillKids f σ x.kids jt1).bind fun jt2 =>
      -- `js_parent[name_]` made `js_parent` an object holding the key (before anything could throw)
      jp.put x.name jt2

def fillKids : Nat → KStore → List (Nat × Bool) → J → Option J
  | 0, _, _, _ => none
  | _ + 1, _, [], j => some j
  | f + 1, σ, (c, _) :: rest, j => (fill f σ c j).bind fun j1 => fillKids f σ rest j1
end

inductive KEv where
  | init (n : Nat) (m : Option Nat)   -- `onInit` of `n` ran on an object whose marker is `m`
  | cleanup (n : Nat)
  deriving DecidableEq, Repr

mutual
def kInit : Nat → KStore → Nat → J → KStore × Bool × List KEv
  | 0, σ, _, _ => (σ, false, [])
  | f + 1, σ, n, jp =>
    let x := σ.get n
    if x.st then (σ, false, [])
    else if x.name != 0 && !jp.contains x.name then (σ, false, [])
    else
      let jt := if x.name == 0 then jp else jp.get x.name
      let r := kInitKids f σ x.kids [] jt
      if r.2.1 then (r.1.set n { x with st := true }, true, KEv.init n jt.marker :: r.2.2)
      else (r.1, false, KEv.init n jt.marker :: r.2.2 ++ [KEv.cleanup n])

/-- the loop over `children_`; `done` = the children already passed, last first (what the roll-back walks) -/
def kInitKids : Nat → KStore → List (Nat × Bool) → List Nat → J → KStore × Bool × List KEv
  | 0, σ, _, _, _ => (σ, false, [])
  | _ + 1, σ, [], _, _ => (σ, true, [])
  | f + 1, σ, (c, req) :: rest, done, jt =>
    let r := kInit f σ c jt
    if !r.2.1 && req then
      let b := kCleanupList f r.1 done
      (b.1, false, r.2.2 ++ b.2)
    else
      let l := kInitKids f r.1 rest (c :: done) jt
      (l.1, l.2.1, r.2.2 ++ l.2.2)

def kCleanup : Nat → KStore → Nat → KStore × List KEv
  | 0, σ, _ => (σ, [])
  | f + 1, σ, n =>
    if !(σ.get n).st then (σ, [])
    else
      let b := kCleanupList f σ ((σ.get n).kids.map (·.1)).reverse
      (b.1.set n { b.1.get n with st := false }, b.2 ++ [KEv.cleanup n])

def kCleanupList : Nat → KStore → List Nat → KStore × List KEv
  | 0, σ, _ => (σ, [])
  | _ + 1, σ, [] => (σ, [])
  | f + 1, σ, c :: rest =>
    let r := kCleanup f σ c
    let l := kCleanupList f r.1 rest
    (l.1, r.2 ++ l.2)
end

/-- `toJson` of the subtree, as the harness renders it: `id[req:child,…]` -/
def jsonStr : Nat → KStore → Nat → String
  | 0, _, n => toString n ++ "[]"
  | f + 1, σ, n =>
    toString n ++ "[" ++ ",".intercalate ((σ.get n).kids.map fun k => (if k.2 then "1:" else "0:") ++ jsonStr f σ k.1) ++ "]"

/-- `delete n`: `~Module()` = `cleanup()` with the empty base hooks for `n` itself (its own `onCleanup` does not run), then the
children are deleted in registration order — each runs its own destructor, which matters when an initialised subtree was added
below a module that is not initialised (`add()` looks at the parent's state only) -/
def kDestroy : Nat → KStore → Nat → KStore × List KEv
  | 0, σ, _ => (σ, [])
  | f + 1, σ, n =>
    let c := kCleanup f σ n
    let r := (σ.get n).kids.foldl (fun acc k => let d := kDestroy f acc.1 k.1; (d.1, acc.2 ++ d.2))
      (c.1, c.2.filter fun e => e != KEv.cleanup n)
    (r.1.set n {}, r.2)

/-- write `v` at a path of keys below `j` (`j[k1][k2]… = v`, the harness's config editor); `none` = `type_error` -/
def putPath : J → List Nat → J → Option J
  | _, [], v => some v
  | j, k :: ks, v => (j.ref k).bind fun sub => (putPath sub ks v).bind fun sub' => j.put k sub'

/-- erase the key at a path (no-op when absent) -/
def delPath : J → List Nat → J
  | j, [] => j
  | .obj fs, [k] => .obj (fs.filter fun p => p.1 != k)
  | .obj fs, k :: ks => .obj (fs.map fun p => if p.1 == k then (k, delPath p.2 ks) else p)
  | j, _ => j

def fuelK : Nat := 2000

end Tbox.C11.Names
