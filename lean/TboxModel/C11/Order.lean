/-
C11 — helper lemmas, part E: shape/alphabet facts that need no hypothesis at all (ids are kept,
only modules of the tree are mentioned, stop/cleanup never run onInit/onStart), and the
pre-order of the onInit / onStart hooks inside one initialize() / start() call.
-/
import TboxModel.C11.Final
namespace Tbox.C11

/-! ### shape and alphabet, no hypothesis -/

/-- the step keeps the ids and only mentions modules of the tree -/
def Shape (ids ids' : List Nat) (tr : List Ev) : Prop := ids' = ids ∧ ∀ e ∈ tr, e.id ∈ ids

theorem Shape.nil (l : List Nat) : Shape l l [] := ⟨rfl, by simp⟩

mutual
theorem stop_shape (own : Bool) : ∀ m : Mod, Shape m.ids (stop own m).1.ids (stop own m).2
  | .node i ks => by
    unfold stop
    split
    · exact Shape.nil _
    · have hk := stopKids_shape ks
      refine ⟨by simp [Mod.ids, setSt, hk.1], ?_⟩
      intro e he
      simp only [List.mem_append] at he
      rcases he with he | he
      · simp [Mod.ids, hk.2 e he]
      · split at he <;> simp at he; simp [he, Ev.id, Mod.ids]
theorem stopKids_shape : ∀ ks : Kids, Shape ks.ids (stopKids ks).1.ids (stopKids ks).2
  | .nil => Shape.nil _
  | .cons m r rest => by
    have h1 := stop_shape true m
    have h2 := stopKids_shape rest
    simp only [stopKids]
    refine ⟨by simp [Kids.ids, h1.1, h2.1], ?_⟩
    intro e he
    simp only [List.mem_append] at he
    rcases he with he | he
    · simp [Kids.ids, h2.2 e he]
    · simp [Kids.ids, h1.2 e he]
end

mutual
theorem cleanup_shape (m : Mod) : Shape m.ids (cleanup true m).1.ids (cleanup true m).2 := by
  cases m with
  | node i ks =>
    rw [cleanup]
    split
    · exact Shape.nil _
    · by_cases hrun : i.st = .running
      · rw [stop_node_running true i ks hrun]
        have hs := stopKids_shape ks
        have hk := cleanupKids_shape (stopKids ks).1
        simp only [Mod.kids, Mod.info, if_true]
        refine ⟨by simp [Mod.ids, setSt, hk.1, hs.1], ?_⟩
        intro e he
        simp only [List.mem_append, List.mem_singleton] at he
        rcases he with ((he | he) | he) | he
        · simp [Mod.ids, hs.2 e he]
        · simp [he, Ev.id, Mod.ids]
        · have := hk.2 e he; rw [hs.1] at this; simp [Mod.ids, this]
        · simp [he, Ev.id, Mod.ids]
      · rw [stop_node_idle true i ks hrun]
        have hk := cleanupKids_shape ks
        simp only [Mod.kids, Mod.info, if_true, List.nil_append]
        refine ⟨by simp [Mod.ids, setSt, hk.1], ?_⟩
        intro e he
        simp only [List.mem_append, List.mem_singleton] at he
        rcases he with he | he
        · simp [Mod.ids, hk.2 e he]
        · simp [he, Ev.id, Mod.ids]
termination_by m.size
decreasing_by
  all_goals (subst_vars; have := stopKids_size ks; simp only [Mod.size]; omega)
theorem cleanupKids_shape (ks : Kids) : Shape ks.ids (cleanupKids ks).1.ids (cleanupKids ks).2 := by
  cases ks with
  | nil => rw [cleanupKids]; exact Shape.nil _
  | cons m r rest =>
    have h1 := cleanup_shape m
    have h2 := cleanupKids_shape rest
    rw [cleanupKids]
    refine ⟨by simp [Kids.ids, h1.1, h2.1], ?_⟩
    intro e he
    simp only [List.mem_append] at he
    rcases he with he | he
    · simp [Kids.ids, h2.2 e he]
    · simp [Kids.ids, h1.2 e he]
termination_by ks.size
decreasing_by
  all_goals (subst_vars; simp only [Kids.size]; omega)
end

mutual
theorem init_shape : ∀ m : Mod, Shape m.ids (initM true m).1.ids (initM true m).2.2
  | .node i ks => by
    have hk := initKids_shape ks
    unfold initM
    split
    · exact Shape.nil _
    split
    · exact Shape.nil _
    split
    · exact ⟨rfl, by simp [Ev.id, Mod.ids]⟩
    dsimp only
    split
    · refine ⟨by simp [Mod.ids, setSt, hk.1], ?_⟩
      intro e he
      simp only [List.mem_cons] at he
      rcases he with he | he
      · simp [he, Ev.id, Mod.ids]
      · simp [Mod.ids, hk.2 e he]
    · refine ⟨by simp [Mod.ids, hk.1], ?_⟩
      intro e he
      simp only [if_true, List.mem_cons, List.mem_append, List.not_mem_nil, or_false] at he
      rcases he with he | he | he
      · simp [he, Ev.id, Mod.ids]
      · simp [Mod.ids, hk.2 e he]
      · simp [he, Ev.id, Mod.ids]
theorem initKids_shape : ∀ ks : Kids, Shape ks.ids (initKids true ks).1.ids (initKids true ks).2.2
  | .nil => Shape.nil _
  | .cons m r rest => by
    have h1 := init_shape m
    have h2 := initKids_shape rest
    have h3 := cleanup_shape (initM true m).1
    unfold initKids
    dsimp only
    split
    · exact ⟨by simp [Kids.ids, h1.1], fun e he => by simp [Kids.ids, h1.2 e he]⟩
    split
    · refine ⟨by simp [Kids.ids, h1.1, h2.1], ?_⟩
      intro e he
      simp only [List.mem_append] at he
      rcases he with he | he
      · simp [Kids.ids, h1.2 e he]
      · simp [Kids.ids, h2.2 e he]
    · refine ⟨by simp [Kids.ids, h1.1, h2.1, h3.1], ?_⟩
      intro e he
      simp only [if_true, List.mem_append] at he
      rcases he with (he | he) | he
      · simp [Kids.ids, h1.2 e he]
      · simp [Kids.ids, h2.2 e he]
      · have := h3.2 e he; rw [h1.1] at this; simp [Kids.ids, this]
end

mutual
theorem start_shape : ∀ m : Mod, Shape m.ids (start true m).1.ids (start true m).2.2
  | .node i ks => by
    have hk := startKids_shape ks
    unfold start
    split
    · exact Shape.nil _
    split
    · exact ⟨rfl, by simp [Ev.id, Mod.ids]⟩
    dsimp only
    split
    · refine ⟨by simp [Mod.ids, setSt, hk.1], ?_⟩
      intro e he
      simp only [List.mem_cons] at he
      rcases he with he | he
      · simp [he, Ev.id, Mod.ids]
      · simp [Mod.ids, hk.2 e he]
    · refine ⟨by simp [Mod.ids, hk.1], ?_⟩
      intro e he
      simp only [if_true, List.mem_cons, List.mem_append, List.not_mem_nil, or_false] at he
      rcases he with he | he | he
      · simp [he, Ev.id, Mod.ids]
      · simp [Mod.ids, hk.2 e he]
      · simp [he, Ev.id, Mod.ids]
theorem startKids_shape : ∀ ks : Kids, Shape ks.ids (startKids true ks).1.ids (startKids true ks).2.2
  | .nil => Shape.nil _
  | .cons m r rest => by
    have h1 := start_shape m
    have h2 := startKids_shape rest
    have h3 := stop_shape true (start true m).1
    unfold startKids
    dsimp only
    split
    · exact ⟨by simp [Kids.ids, h1.1], fun e he => by simp [Kids.ids, h1.2 e he]⟩
    split
    · refine ⟨by simp [Kids.ids, h1.1, h2.1], ?_⟩
      intro e he
      simp only [List.mem_append] at he
      rcases he with he | he
      · simp [Kids.ids, h1.2 e he]
      · simp [Kids.ids, h2.2 e he]
    · refine ⟨by simp [Kids.ids, h1.1, h2.1, h3.1], ?_⟩
      intro e he
      simp only [if_true, List.mem_append] at he
      rcases he with (he | he) | he
      · simp [Kids.ids, h1.2 e he]
      · simp [Kids.ids, h2.2 e he]
      · have := h3.2 e he; rw [h1.1] at this; simp [Kids.ids, this]
end

/-! ### stop / cleanup run neither onInit nor onStart -/

def isUp : Ev → Bool | .init _ _ => true | .start _ _ => true | _ => false

theorem ids_of_noUp (tr : List Ev) (h : ∀ e ∈ tr, isUp e = false) : initIds tr = [] ∧ startIds tr = [] := by
  induction tr with
  | nil => exact ⟨rfl, rfl⟩
  | cons e es ih =>
    have he := h e (by simp)
    have := ih fun e' h' => h e' (by simp [h'])
    cases e <;> simp_all [initIds, startIds, isUp]

mutual
theorem stop_noUp (own : Bool) : ∀ m : Mod, ∀ e ∈ (stop own m).2, isUp e = false
  | .node i ks => by
    unfold stop
    split
    · simp
    · intro e he
      simp only [List.mem_append] at he
      rcases he with he | he
      · exact stopKids_noUp ks e he
      · split at he <;> simp at he; simp [he, isUp]
theorem stopKids_noUp : ∀ ks : Kids, ∀ e ∈ (stopKids ks).2, isUp e = false
  | .nil => by simp [stopKids]
  | .cons m r rest => by
    intro e he
    simp only [stopKids, List.mem_append] at he
    rcases he with he | he
    · exact stopKids_noUp rest e he
    · exact stop_noUp true m e he
end

mutual
theorem cleanup_noUp (m : Mod) : ∀ e ∈ (cleanup true m).2, isUp e = false := by
  cases m with
  | node i ks =>
    rw [cleanup]
    split
    · simp
    · intro e he
      have hs := stop_noUp true (.node i ks)
      have hsz := stop_size true (.node i ks)
      generalize stop true (.node i ks) = s at he hs hsz
      obtain ⟨sm, str⟩ := s
      cases sm with
      | node si sks =>
        simp only [Mod.kids, if_true, List.mem_append, List.mem_singleton] at he
        rcases he with (he | he) | he
        · exact hs e he
        · exact cleanupKids_noUp sks e he
        · simp [he, isUp]
termination_by m.size
decreasing_by
  subst_vars
  simp only [Mod.size] at hsz ⊢; omega
theorem cleanupKids_noUp (ks : Kids) : ∀ e ∈ (cleanupKids ks).2, isUp e = false := by
  cases ks with
  | nil => rw [cleanupKids]; simp
  | cons m r rest =>
    rw [cleanupKids]
    intro e he
    simp only [List.mem_append] at he
    rcases he with he | he
    · exact cleanupKids_noUp rest e he
    · exact cleanup_noUp m e he
termination_by ks.size
decreasing_by
  all_goals (subst_vars; simp only [Kids.size]; omega)
end

theorem initIds_append (a b : List Ev) : initIds (a ++ b) = initIds a ++ initIds b := by
  simp [initIds]
theorem startIds_append (a b : List Ev) : startIds (a ++ b) = startIds a ++ startIds b := by
  simp [startIds]

/-! ### pre-order inside one call -/
mutual
theorem init_preorder : ∀ m : Mod, (initIds (initM true m).2.2).Sublist m.ids
  | .node i ks => by
    have hk := initKids_preorder ks
    unfold initM
    split
    · simp [initIds]
    split
    · simp [initIds]
    split
    · simp [initIds, Mod.ids]
    dsimp only
    split
    · simpa [initIds, Mod.ids] using hk
    · simp only [if_true]
      rw [← List.cons_append, initIds_append]
      simpa [initIds, Mod.ids] using hk
theorem initKids_preorder : ∀ ks : Kids, (initIds (initKids true ks).2.2).Sublist ks.ids
  | .nil => by simp [initKids, initIds]
  | .cons m r rest => by
    have h1 := init_preorder m
    have h2 := initKids_preorder rest
    unfold initKids
    dsimp only
    split
    · simpa [Kids.ids] using h1.trans (List.sublist_append_left _ _)
    split
    · rw [initIds_append]; exact List.Sublist.append h1 h2
    · simp only [if_true]
      rw [initIds_append, initIds_append, (ids_of_noUp _ (cleanup_noUp _)).1, List.append_nil]
      exact List.Sublist.append h1 h2
end

mutual
theorem start_preorder : ∀ m : Mod, (startIds (start true m).2.2).Sublist m.ids
  | .node i ks => by
    have hk := startKids_preorder ks
    unfold start
    split
    · simp [startIds]
    split
    · simp [startIds, Mod.ids]
    dsimp only
    split
    · simpa [startIds, Mod.ids] using hk
    · simp only [if_true]
      rw [← List.cons_append, startIds_append]
      simpa [startIds, Mod.ids] using hk
theorem startKids_preorder : ∀ ks : Kids, (startIds (startKids true ks).2.2).Sublist ks.ids
  | .nil => by simp [startKids, startIds]
  | .cons m r rest => by
    have h1 := start_preorder m
    have h2 := startKids_preorder rest
    unfold startKids
    dsimp only
    split
    · simpa [Kids.ids] using h1.trans (List.sublist_append_left _ _)
    split
    · rw [startIds_append]; exact List.Sublist.append h1 h2
    · simp only [if_true]
      rw [startIds_append, startIds_append, (ids_of_noUp _ (stop_noUp true _)).2, List.append_nil]
      exact List.Sublist.append h1 h2
end

end Tbox.C11
