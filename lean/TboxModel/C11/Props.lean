/-
C11 — PROPERTY THEOREMS (statements rely only on Model.lean / Spec.lean; helper lemmas live in
Track.lean, Wf.lean, Stack.lean, Final.lean).

Property: "For any tree of modules the framework calls the user hooks in nesting order … stop
and cleanup hooks run in exactly the reverse order, start only after a successful init, stop only
for started modules, cleanup only after stop.  Every init hook that returned success is matched
by exactly one cleanup hook, and every start hook that returned success by exactly one stop hook
before that cleanup, by the time the tree has been cleaned up and destroyed — also when some
required or optional module fails to initialise or start."

All theorems are about `rb = true`: module.cpp WITH patches/C11-01 (roll back on the failure path
of initialize()/start()).  `C11_balanced_counterexample_unrepaired` / `C11_reverse_…` show the
same statements are false of the code before the patch (`rb = false`).

Quantification: every tree `t` (any depth, fan-out, required/optional flags, named/unnamed,
config present/missing, any onInit/onStart results) whose modules have distinct identities and
which is as constructed (all `kNone`); every list `cs` of root calls (initialize/start/stop/
cleanup in any order and multiplicity, and changes of any module's fault flags between calls).
-/
import TboxModel.C11.Final
namespace Tbox.C11

/-- the whole history of the property: root calls, then `cleanup()`, then `~Module()` -/
def history (t : Mod) (cs : List Call) : List Ev :=
  let r := runCalls true t cs
  let c := cleanup true r.1
  r.2 ++ c.2 ++ destroy c.1

/-! ### concrete trees used by the examples and counterexamples -/

/-- root 0 with required children 1 (fine) and 2 (`onInit` fails) -/
def cexTree : Mod :=
  .node ⟨0, true, true, true, true, .none⟩
    (.cons (.node ⟨1, true, true, true, true, .none⟩ .nil) true
    (.cons (.node ⟨2, true, true, false, true, .none⟩ .nil) true .nil))

/-- same shape, child 2 fails in `onStart` -/
def cexTree2 : Mod :=
  .node ⟨0, true, true, true, true, .none⟩
    (.cons (.node ⟨1, true, true, true, true, .none⟩ .nil) true
    (.cons (.node ⟨2, true, true, true, false, .none⟩ .nil) true .nil))

example : cexTree.allNone = true ∧ cexTree.ids.Nodup := by decide
example : cexTree2.allNone = true ∧ cexTree2.ids.Nodup := by decide

/-! ### C11_gating — start only after a successful init, stop only if started, cleanup only after stop -/

/-- From ANY state of the tree, after ANY sequence of root calls: for every module `n` the hooks
that ran form a path of `n`'s lifecycle automaton (`hookRun … ≠ none`) from `n`'s old `state_`
to `n`'s new `state_`.  So `onStart` runs only between a successful `onInit` and the matching
`onCleanup`, `onStop` only after a successful `onStart`, `onCleanup` only when not started. -/
theorem C11_gating (t : Mod) (hid : t.ids.Nodup) (cs : List Call) (n : Nat) (d : St) :
    hookRun n (t.stAt n d) (runCalls true t cs).2 = some ((runCalls true t cs).1.stAt n d) :=
  (runCalls_ok t cs hid).track n d

/-- only hooks of modules of the tree run, and the shape of the tree never changes -/
theorem C11_hooks_of_tree (t : Mod) (hid : t.ids.Nodup) (cs : List Call) :
    (runCalls true t cs).1.ids = t.ids ∧ ∀ e ∈ (runCalls true t cs).2, e.id ∈ t.ids :=
  ⟨(runCalls_ok t cs hid).ids, (runCalls_ok t cs hid).evs⟩

/-! ### C11_balanced -/

/-- After any call sequence on a freshly built tree followed by `cleanup(); ~Module()`: every
module is back in `kNone`, the destructor ran no further hook, and for EVERY module the complete
hook trace is a closed walk `none → … → none` of its lifecycle automaton — every successful
`onInit` is followed by exactly one `onCleanup` before the next `onInit`, every successful
`onStart` by exactly one `onStop` before that `onCleanup` — whatever fails, required or optional. -/
theorem C11_balanced (t : Mod) (hf : t.allNone = true) (hid : t.ids.Nodup) (cs : List Call) :
    (∀ n, hookRun n .none (history t cs) = some .none) ∧
    (cleanup true (runCalls true t cs).1).1.allNone = true ∧
    destroy (cleanup true (runCalls true t cs).1).1 = [] := by
  have hwf := runCalls_wf t cs (allNone_wf_noRun t hf).1
  have hall := cleanup_allNone true _ hwf
  have hd := destroy_allNone _ hall
  refine ⟨fun n => ?_, hall, hd⟩
  have h1 := runCalls_ok t cs hid
  have h2 := cleanup_ok (runCalls true t cs).1 (h1.ids ▸ hid)
  have h := (h1.trans h2).track n .none
  rw [allNone_stAt n t hf, allNone_stAt n _ hall] at h
  simp only [history, hd, List.append_nil]
  exact h

/-- the same in numbers: in the complete history the successful `onInit`s of a module equal its
`onCleanup`s and its successful `onStart`s equal its `onStop`s -/
theorem C11_balanced_counts (t : Mod) (hf : t.allNone = true) (hid : t.ids.Nodup) (cs : List Call) (n : Nat) :
    (history t cs).count (Ev.init n true) = (history t cs).count (Ev.cleanup n) ∧
    (history t cs).count (Ev.start n true) = (history t cs).count (Ev.stop n) := by
  have := hookRun_counts n _ _ _ ((C11_balanced t hf hid cs).1 n)
  simpa [nn, rr] using this

/-! ### C11_reverse — stop / cleanup hooks run in exactly the reverse order -/

/-- LIFO nesting.  Run the two-stack discipline over the trace (`init n true` pushes `n`,
`cleanup n` must find `n` on top; `start n true` / `stop n` likewise): it never gets stuck, and
after any call sequence the stacks are exactly the non-`kNone` resp. `kRunning` modules of the
tree in reverse pre-order.  Hence every `onCleanup` (`onStop`) closes the most recent still open
successful `onInit` (`onStart`): the exact reverse order, children before their parent, later
registered children first. -/
theorem C11_reverse (t : Mod) (hf : t.allNone = true) (cs : List Call) :
    stackRun ([], []) (runCalls true t cs).2 =
      some ((runCalls true t cs).1.rnn, (runCalls true t cs).1.rrr) := by
  have := runCalls_stack t cs (allNone_wf_noRun t hf).1 [] []
  simpa [allNone_rnn t hf, allNone_rrr t hf] using this

/-- the complete history (… `cleanup(); ~Module()`) is LIFO-nested and leaves both stacks empty -/
theorem C11_reverse_closed (t : Mod) (hf : t.allNone = true) (cs : List Call) :
    stackRun ([], []) (history t cs) = some ([], []) := by
  have hwf := runCalls_wf t cs (allNone_wf_noRun t hf).1
  have hall := cleanup_allNone true _ hwf
  simp only [history, destroy_allNone _ hall, List.append_nil]
  rw [stackRun_append, C11_reverse t hf cs]
  simpa using cleanup_stack _ hwf [] []

/-- … and explicitly: in the tree reached by any call sequence, `stop()` runs `onStop` on exactly
the running modules and `cleanup()` then runs `onCleanup` on exactly the initialised ones, both
in REVERSE pre-order — i.e. (by `C11_reverse`) in the exact reverse order of the still open
successful `onStart` / `onInit` hooks. -/
theorem C11_reverse_explicit (t : Mod) (hf : t.allNone = true) (cs : List Call) :
    let t' := (runCalls true t cs).1
    (stop true t').2 = t'.rrr.map Ev.stop ∧
    (cleanup true t').2 = t'.rrr.map Ev.stop ++ t'.rnn.map Ev.cleanup := by
  have hwf := runCalls_wf t cs (allNone_wf_noRun t hf).1
  exact ⟨stop_explicit _ hwf, cleanup_explicit _ hwf⟩

/-- non-vacuity: a started three-module tree; stacks and traces are the reverse pre-order -/
example : (runCalls true cexTree [.setFlags 2 true true true, .init, .start]).1.rrr = [2, 1, 0] ∧
    (cleanup true (runCalls true cexTree [.setFlags 2 true true true, .init, .start]).1).2 =
      [.stop 2, .stop 1, .stop 0, .cleanup 2, .cleanup 1, .cleanup 0] := by
  simp [cexTree, runCalls, call, Mod.setFlags, Kids.setFlags, initM, initKids, start, startKids, cleanup, cleanupKids,
    stop, stopKids, Mod.kids, Mod.info, Mod.rrr, Kids.rrr, setSt]

/-! ### the code before the patch violates both (DESIGN §7 row 5) -/

/-- unrepaired `initialize()`: `onInit` of 0 and 1 succeeded, the call failed, and no later
`cleanup()`/destructor can reach them with a user hook (root is `kNone`; `~Module` of child 1
dispatches to the base hooks) -/
theorem C11_balanced_counterexample_unrepaired :
    (initM false cexTree).2.2 = [.init 0 true, .init 1 true, .init 2 false] ∧
    (cleanup true (initM false cexTree).1).2 = [] ∧
    destroy (initM false cexTree).1 = [] ∧
    hookRun 0 .none (initM false cexTree).2.2 = some .inited ∧
    hookRun 1 .none (initM false cexTree).2.2 = some .inited := by
  simp [cexTree, initM, initKids, cleanup, cleanupKids, stop, destroy, destroyKids, Mod.kids, Mod.info, hookRun, hookStep,
    Ev.id, setSt]

/-- the repaired code on the same tree -/
theorem C11_balanced_witness_repaired :
    (initM true cexTree).2.2 = [.init 0 true, .init 1 true, .init 2 false, .cleanup 1, .cleanup 0] := by
  simp [cexTree, initM, initKids, cleanup, cleanupKids, stop, Mod.kids, Mod.info, setSt]

/-- unrepaired `start()`: root's successful `onStart` is never matched by `onStop` -/
theorem C11_start_counterexample_unrepaired :
    let t1 := (initM false cexTree2).1
    let r := start false t1
    let c := cleanup true r.1
    r.2.2 = [.start 0 true, .start 1 true, .start 2 false] ∧
    c.2 = [.cleanup 2, .stop 1, .cleanup 1, .cleanup 0] ∧
    hookRun 0 .none ((initM false cexTree2).2.2 ++ r.2.2 ++ c.2) = none := by
  simp [cexTree2, initM, initKids, start, startKids, cleanup, cleanupKids, stop, stopKids, Mod.kids, Mod.info,
    hookRun, hookStep, Ev.id, setSt]

/-! ### stated, not proved in this round

-- OPEN  C11_preorder: for every call, the ids on which `onInit` (`onStart`) is invoked form a
--       sublist of `t.ids` (pre-order: parent before children, children in registration order):
--       `((initM true t).2.2.filterMap initId).Sublist t.ids`.  Implied for the SUCCESSFUL hooks by
--       `C11_reverse` (the stack after the call is the reverse pre-order of the initialised modules and
--       pushes happen in trace order); not yet proved for hooks that returned failure.
-- OPEN  C11_optional_isolated: replacing an optional child subtree by any other subtree leaves the
--       return values and the hook trace restricted to the other modules unchanged.  Covered by the
--       differential tie only (tags `init-ok-optfail` / `start-ok-optfail`).
-/

/-! ### remarks -/

/-- `~Module()` WITHOUT a preceding `cleanup()` skips the destroyed module's own `onStop` /
`onCleanup` (C++ dispatches to the base hooks inside the destructor) but not its children's: the
property is stated for histories that end with `cleanup(); ~Module()`. -/
theorem C11_destroy_only_remark :
    let t := (start true (initM true cexTree2).1).1
    let t' := (runCalls true cexTree2 [.init, .setFlags 2 true true true, .start]).1
    t.st = .inited ∧ destroy t' = [.stop 2, .stop 1, .cleanup 2, .cleanup 1] := by
  simp [cexTree2, runCalls, call, Mod.setFlags, Kids.setFlags, initM, initKids, start, startKids, cleanup, cleanupKids,
    stop, stopKids, destroy, destroyKids, Mod.kids, Mod.info, Mod.st, setSt]

end Tbox.C11
