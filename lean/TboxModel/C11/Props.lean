/-
C11 — PROPERTY THEOREMS (statements rely only on Model.lean / Spec.lean; helper lemmas live in
Track.lean, Wf.lean, Stack.lean, Final.lean).

Property: "For any tree of modules the framework calls the user hooks in nesting order … stop
and cleanup hooks run in exactly the reverse order, start only after a successful init, stop only
for started modules, cleanup only after stop.  Every init hook that returned success is matched
by exactly one cleanup hook, and every start hook that returned success by exactly one stop hook
before that cleanup, by the time the tree has been cleaned up and destroyed — also when some
required or optional module fails to initialise or start."

All theorems are about `rb = true`: module.cpp WITH patches/C11-01 (roll back on the failure path
of initialize()/start()).  `C11_balanced_counterexample_unrepaired` / `C11_reverse_…` show the
same statements are false of the code before the patch (`rb = false`).

Quantification: every tree `t` (any depth, fan-out, required/optional flags, named/unnamed,
config present/missing, any onInit/onStart results) whose modules have distinct identities and
which is as constructed (all `kNone`); every list `cs` of root calls (initialize/start/stop/
cleanup in any order and multiplicity, and changes of any module's fault flags between calls).
-/
import TboxModel.C11.Iso
import TboxModel.C11.GenTable
namespace Tbox.C11

/-- the whole history of the property: root calls, then `cleanup()`, then `~Module()` -/
def history (t : Mod) (cs : List Call) : List Ev :=
  let r := runCalls true t cs
  let c := cleanup true r.1
  r.2 ++ c.2 ++ destroy c.1

/-! ### concrete trees used by the examples and counterexamples -/

/-- root 0 with required children 1 (fine) and 2 (`onInit` fails) -/
def cexTree : Mod :=
  .node ⟨0, true, true, true, true, .none⟩
    (.cons (.node ⟨1, true, true, true, true, .none⟩ .nil) true
    (.cons (.node ⟨2, true, true, false, true, .none⟩ .nil) true .nil))

/-- same shape, child 2 fails in `onStart` -/
def cexTree2 : Mod :=
  .node ⟨0, true, true, true, true, .none⟩
    (.cons (.node ⟨1, true, true, true, true, .none⟩ .nil) true
    (.cons (.node ⟨2, true, true, true, false, .none⟩ .nil) true .nil))

example : cexTree.allNone = true ∧ cexTree.ids.Nodup := by decide
example : cexTree2.allNone = true ∧ cexTree2.ids.Nodup := by decide

/-! ### C11_gating — start only after a successful init, stop only if started, cleanup only after stop -/

/-- From ANY state of the tree, after ANY sequence of root calls: for every module `n` the hooks
that ran form a path of `n`'s lifecycle automaton (`hookRun … ≠ none`) from `n`'s old `state_`
to `n`'s new `state_`.  So `onStart` runs only between a successful `onInit` and the matching
`onCleanup`, `onStop` only after a successful `onStart`, `onCleanup` only when not started. -/
theorem C11_gating (t : Mod) (hid : t.ids.Nodup) (cs : List Call) (n : Nat) (d : St) :
    hookRun n (t.stAt n d) (runCalls true t cs).2 = some ((runCalls true t cs).1.stAt n d) :=
  (runCalls_ok t cs hid).track n d

/-- only hooks of modules of the tree run, and the shape of the tree never changes -/
theorem C11_hooks_of_tree (t : Mod) (hid : t.ids.Nodup) (cs : List Call) :
    (runCalls true t cs).1.ids = t.ids ∧ ∀ e ∈ (runCalls true t cs).2, e.id ∈ t.ids :=
  ⟨(runCalls_ok t cs hid).ids, (runCalls_ok t cs hid).evs⟩

/-! ### C11_balanced -/

/-- After any call sequence on a freshly built tree followed by `cleanup(); ~Module()`: every
module is back in `kNone`, the destructor ran no further hook, and for EVERY module the complete
hook trace is a closed walk `none → … → none` of its lifecycle automaton — every successful
`onInit` is followed by exactly one `onCleanup` before the next `onInit`, every successful
`onStart` by exactly one `onStop` before that `onCleanup` — whatever fails, required or optional. -/
theorem C11_balanced (t : Mod) (hf : t.allNone = true) (hid : t.ids.Nodup) (cs : List Call) :
    (∀ n, hookRun n .none (history t cs) = some .none) ∧
    (cleanup true (runCalls true t cs).1).1.allNone = true ∧
    destroy (cleanup true (runCalls true t cs).1).1 = [] := by
  have hwf := runCalls_wf t cs (allNone_wf_noRun t hf).1
  have hall := cleanup_allNone true _ hwf
  have hd := destroy_allNone _ hall
  refine ⟨fun n => ?_, hall, hd⟩
  have h1 := runCalls_ok t cs hid
  have h2 := cleanup_ok (runCalls true t cs).1 (h1.ids ▸ hid)
  have h := (h1.trans h2).track n .none
  rw [allNone_stAt n t hf, allNone_stAt n _ hall] at h
  simp only [history, hd, List.append_nil]
  exact h

/-- the same in numbers: in the complete history the successful `onInit`s of a module equal its
`onCleanup`s and its successful `onStart`s equal its `onStop`s -/
theorem C11_balanced_counts (t : Mod) (hf : t.allNone = true) (hid : t.ids.Nodup) (cs : List Call) (n : Nat) :
    (history t cs).count (Ev.init n true) = (history t cs).count (Ev.cleanup n) ∧
    (history t cs).count (Ev.start n true) = (history t cs).count (Ev.stop n) := by
  have := hookRun_counts n _ _ _ ((C11_balanced t hf hid cs).1 n)
  simpa [nn, rr] using this

/-! ### C11_reverse — stop / cleanup hooks run in exactly the reverse order -/

/-- LIFO nesting.  Run the two-stack discipline over the trace (`init n true` pushes `n`,
`cleanup n` must find `n` on top; `start n true` / `stop n` likewise): it never gets stuck, and
after any call sequence the stacks are exactly the non-`kNone` resp. `kRunning` modules of the
tree in reverse pre-order.  Hence every `onCleanup` (`onStop`) closes the most recent still open
successful `onInit` (`onStart`): the exact reverse order, children before their parent, later
registered children first. -/
theorem C11_reverse (t : Mod) (hf : t.allNone = true) (cs : List Call) :
    stackRun ([], []) (runCalls true t cs).2 =
      some ((runCalls true t cs).1.rnn, (runCalls true t cs).1.rrr) := by
  have := runCalls_stack t cs (allNone_wf_noRun t hf).1 [] []
  simpa [allNone_rnn t hf, allNone_rrr t hf] using this

/-- the complete history (… `cleanup(); ~Module()`) is LIFO-nested and leaves both stacks empty -/
theorem C11_reverse_closed (t : Mod) (hf : t.allNone = true) (cs : List Call) :
    stackRun ([], []) (history t cs) = some ([], []) := by
  have hwf := runCalls_wf t cs (allNone_wf_noRun t hf).1
  have hall := cleanup_allNone true _ hwf
  simp only [history, destroy_allNone _ hall, List.append_nil]
  rw [stackRun_append, C11_reverse t hf cs]
  simpa using cleanup_stack _ hwf [] []

/-- … and explicitly: in the tree reached by any call sequence, `stop()` runs `onStop` on exactly
the running modules and `cleanup()` then runs `onCleanup` on exactly the initialised ones, both
in REVERSE pre-order — i.e. (by `C11_reverse`) in the exact reverse order of the still open
successful `onStart` / `onInit` hooks. -/
theorem C11_reverse_explicit (t : Mod) (hf : t.allNone = true) (cs : List Call) :
    let t' := (runCalls true t cs).1
    (stop true t').2 = t'.rrr.map Ev.stop ∧
    (cleanup true t').2 = t'.rrr.map Ev.stop ++ t'.rnn.map Ev.cleanup := by
  have hwf := runCalls_wf t cs (allNone_wf_noRun t hf).1
  exact ⟨stop_explicit _ hwf, cleanup_explicit _ hwf⟩

/-- non-vacuity: a started three-module tree; stacks and traces are the reverse pre-order -/
example : (runCalls true cexTree [.setFlags 2 true true true, .init, .start]).1.rrr = [2, 1, 0] ∧
    (cleanup true (runCalls true cexTree [.setFlags 2 true true true, .init, .start]).1).2 =
      [.stop 2, .stop 1, .stop 0, .cleanup 2, .cleanup 1, .cleanup 0] := by
  simp [cexTree, runCalls, call, Mod.setFlags, Kids.setFlags, initM, initKids, start, startKids, cleanup, cleanupKids,
    stop, stopKids, Mod.kids, Mod.info, Mod.rrr, Kids.rrr, setSt]

/-! ### the code before the patch violates both (DESIGN §7 row 5) -/

/-- unrepaired `initialize()`: `onInit` of 0 and 1 succeeded, the call failed, and no later
`cleanup()`/destructor can reach them with a user hook (root is `kNone`; `~Module` of child 1
dispatches to the base hooks) -/
theorem C11_balanced_counterexample_unrepaired :
    (initM false cexTree).2.2 = [.init 0 true, .init 1 true, .init 2 false] ∧
    (cleanup true (initM false cexTree).1).2 = [] ∧
    destroy (initM false cexTree).1 = [] ∧
    hookRun 0 .none (initM false cexTree).2.2 = some .inited ∧
    hookRun 1 .none (initM false cexTree).2.2 = some .inited := by
  simp [cexTree, initM, initKids, cleanup, cleanupKids, stop, destroy, destroyKids, Mod.kids, Mod.info, hookRun, hookStep,
    Ev.id, setSt]

/-- the repaired code on the same tree -/
theorem C11_balanced_witness_repaired :
    (initM true cexTree).2.2 = [.init 0 true, .init 1 true, .init 2 false, .cleanup 1, .cleanup 0] := by
  simp [cexTree, initM, initKids, cleanup, cleanupKids, stop, Mod.kids, Mod.info, setSt]

/-- unrepaired `start()`: root's successful `onStart` is never matched by `onStop` -/
theorem C11_start_counterexample_unrepaired :
    let t1 := (initM false cexTree2).1
    let r := start false t1
    let c := cleanup true r.1
    r.2.2 = [.start 0 true, .start 1 true, .start 2 false] ∧
    c.2 = [.cleanup 2, .stop 1, .cleanup 1, .cleanup 0] ∧
    hookRun 0 .none ((initM false cexTree2).2.2 ++ r.2.2 ++ c.2) = none := by
  simp [cexTree2, initM, initKids, start, startKids, cleanup, cleanupKids, stop, stopKids, Mod.kids, Mod.info,
    hookRun, hookStep, Ev.id, setSt]

/-! ### C11_preorder — parent before children, children in registration order -/

/-- In the trace of ONE `initialize()` (on any tree, in any state) the modules whose `onInit` ran —
whether it returned success or failure — appear in the pre-order of the tree (`t.ids`: a module,
then its children in registration order, each with its whole subtree) restricted to the modules
that were reached: a sublist of `t.ids`.  With distinct ids this says: a parent's `onInit` runs
before any of its descendants', a child's whole subtree before the next registered child's. -/
theorem C11_preorder (t : Mod) : (initIds (initM true t).2.2).Sublist t.ids ∧
    (startIds (start true t).2.2).Sublist t.ids :=
  ⟨init_preorder t, start_preorder t⟩

/-- the same inside any call sequence: every `initialize()` / `start()` call of the sequence runs
its `onInit` / `onStart` hooks in pre-order of the (unchanging) tree -/
theorem C11_preorder_in_sequence (t : Mod) (hid : t.ids.Nodup) (cs : List Call) :
    let t' := (runCalls true t cs).1
    (initIds (call true t' .init).2.2).Sublist t.ids ∧ (startIds (call true t' .start).2.2).Sublist t.ids := by
  have h := (runCalls_ok t cs hid).ids
  exact ⟨h ▸ init_preorder _, h ▸ start_preorder _⟩

/-- when nothing fails the order is exactly the pre-order (non-vacuity of the sublist statement) -/
example : initIds (initM true cexTree2).2.2 = cexTree2.ids ∧
    startIds (start true (initM true (cexTree2.setFlags 2 true true true)).1).2.2 = cexTree2.ids := by
  simp [cexTree2, Mod.setFlags, Kids.setFlags, initM, initKids, start, startKids, initIds, startIds, Mod.ids, Kids.ids, setSt]

/-- a failing `onInit` is part of the order too: 0, 1, then the failing 2 -/
example : initIds (initM true cexTree).2.2 = [0, 1, 2] := by
  simp [cexTree, initM, initKids, cleanup, cleanupKids, stop, Mod.kids, Mod.info, initIds, setSt]

/-! ### C11_optional_isolated -/

/-- Let `t` and `t'` be equal except that optional child subtrees may have been replaced by ANY
other subtrees (other shape, other fault flags — in particular the same subtree with its fault
flags flipped —, other states), and let `p` select "the other modules" (none of the replaced or
replacing ones).  Then for every sequence of root calls: every call returns the same value on both
trees, the hook traces projected onto the other modules are equal, and the final trees are again
equal outside those optional subtrees (same `state_`, flags and shape for all other modules).
So a failing optional module never changes what is run on, returned to, or reached by its
siblings and ancestors. -/
theorem C11_optional_isolated (p : Nat → Bool) (t t' : Mod) (h : t.simP p t') (cs : List Call) :
    rets true t cs = rets true t' cs ∧
    proj p (runCalls true t cs).2 = proj p (runCalls true t' cs).2 ∧
    (runCalls true t cs).1.simP p (runCalls true t' cs).1 :=
  runCalls_iso p t t' h cs

/-- in particular the root reaches the same `state_` -/
theorem C11_optional_isolated_root (p : Nat → Bool) (t t' : Mod) (h : t.simP p t') (cs : List Call) :
    (runCalls true t cs).1.st = (runCalls true t' cs).1.st := by
  have := (runCalls_iso p t t' h cs).2.2
  cases h1 : (runCalls true t cs).1 with
  | node i ks =>
  cases h2 : (runCalls true t' cs).1 with
  | node i' ks' =>
    rw [h1, h2] at this
    exact congrArg Info.st (simP_node.1 this).1

/-- root 0 with required child 1 and OPTIONAL child 2 that has a child 3 -/
def optTree (i2 s2 i3 s3 : Bool) : Mod :=
  .node ⟨0, true, true, true, true, .none⟩
    (.cons (.node ⟨1, true, true, true, true, .none⟩ .nil) true
    (.cons (.node ⟨2, true, true, i2, s2, .none⟩ (.cons (.node ⟨3, false, true, i3, s3, .none⟩ .nil) true .nil)) false .nil))

/-- non-vacuity: the hypothesis holds for any two fault assignments of the optional subtree, with
`p` = modules 0 and 1 … -/
example (a b c d a' b' c' d' : Bool) : (optTree a b c d).simP (fun n => n < 2) (optTree a' b' c' d') := by
  simp [optTree, Mod.simP, Kids.simP, Mod.ids, Kids.ids]

/-- … and for replacing the optional subtree by a single different module -/
example : (optTree true true false true).simP (fun n => n < 2)
    (.node ⟨0, true, true, true, true, .none⟩
      (.cons (.node ⟨1, true, true, true, true, .none⟩ .nil) true
      (.cons (.node ⟨7, false, false, false, false, .none⟩ .nil) false .nil))) := by
  simp [optTree, Mod.simP, Kids.simP, Mod.ids, Kids.ids]

/-- concrete instance: whether the optional subtree works or fails, 0 and 1 see the same hooks -/
example : proj (fun n => n < 2) (runCalls true (optTree true true false true) [.init, .start, .stop, .cleanup]).2 =
    [.init 0 true, .init 1 true, .start 0 true, .start 1 true, .stop 1, .stop 0, .cleanup 1, .cleanup 0] := by
  simp [optTree, runCalls, call, initM, initKids, start, startKids, cleanup, cleanupKids, stop, stopKids,
    Mod.kids, Mod.info, proj, Ev.id, setSt]

/-- the REQUIRED flag matters: the same replacement under a required child is not isolated
(the root fails to initialise when required child 2 does) -/
theorem C11_required_not_isolated :
    (initM true cexTree).2.1 = false ∧ (initM true (cexTree.setFlags 2 true true true)).2.1 = true := by
  simp [cexTree, Mod.setFlags, Kids.setFlags, initM, initKids, cleanup, cleanupKids, stop, Mod.kids, Mod.info, setSt]

/-! ### the state machine of `Module::State` — total transition table, tied to the source

`Gen.*` (lean/TboxModel/C11/GenTable.lean) is regenerated on every run from module.cpp: for each API
function the `state_` guard that makes it return early and the `state_` assignment it ends with.
The table below is stated with those definitions, so a changed guard or assignment in the source
breaks `C11_state_table` at `lake build` (not only the differential run). -/

/-- what one root call may do to the root's `state_` and return, according to the source's guards -/
def tableAllows (s : St) (c : Call) (s' : St) (ret : Bool) : Prop :=
  match c with
  | .init => if Gen.initRefuses s then s' = s ∧ ret = false
             else (ret = true ∧ s' = Gen.initNext) ∨ (ret = false ∧ s' = s)
  | .start => if Gen.startRefuses s then s' = s ∧ ret = false
              else (ret = true ∧ s' = Gen.startNext) ∨ (ret = false ∧ s' = s)
  | .stop => if Gen.stopRefuses s then s' = s else s' = Gen.stopNext
  | .cleanup => if Gen.cleanupRefuses s then s' = s else s' = Gen.cleanupNext
  | .setFlags _ _ _ _ => s' = s

/-- total: for EVERY tree, EVERY state of it and EVERY call the outcome is the table's -/
theorem C11_state_table (t : Mod) (c : Call) :
    tableAllows t.st c (call true t c).1.st (call true t c).2.1 := by
  cases t with
  | node i ks =>
    cases c with
    | init =>
      simp only [tableAllows, call, Gen.initRefuses, Gen.initNext]
      by_cases hn : i.st = .none
      · have g : ((Mod.node i ks).st != St.none) = false := by simp [Mod.st, Mod.info, hn]
        simp only [g, Bool.false_eq_true, if_false]
        unfold initM
        simp only [hn, ne_eq, not_true_eq_false, if_false]
        split
        · simp [Mod.st, Mod.info, hn]
        split
        · simp [Mod.st, Mod.info, hn]
        split
        · simp [Mod.st, Mod.info, setSt]
        · simp [Mod.st, Mod.info, hn]
      · have g : ((Mod.node i ks).st != St.none) = true := by simp [Mod.st, Mod.info, hn]
        simp only [g, if_true]
        unfold initM
        simp [hn]
    | start =>
      simp only [tableAllows, call, Gen.startRefuses, Gen.startNext]
      by_cases hn : i.st = .inited
      · have g : ((Mod.node i ks).st != St.inited) = false := by simp [Mod.st, Mod.info, hn]
        simp only [g, Bool.false_eq_true, if_false]
        unfold start
        simp only [hn, ne_eq, not_true_eq_false, if_false]
        split
        · simp [Mod.st, Mod.info, hn]
        split
        · simp [Mod.st, Mod.info, setSt]
        · simp [Mod.st, Mod.info, hn]
      · have g : ((Mod.node i ks).st != St.inited) = true := by simp [Mod.st, Mod.info, hn]
        simp only [g, if_true]
        unfold start
        simp [hn]
    | stop =>
      simp only [tableAllows, call, Gen.stopRefuses, Gen.stopNext]
      by_cases hn : i.st = .running
      · have g : ((Mod.node i ks).st != St.running) = false := by simp [Mod.st, Mod.info, hn]
        simp only [g, Bool.false_eq_true, if_false]
        unfold stop
        simp [hn, Mod.st, Mod.info, setSt]
      · have g : ((Mod.node i ks).st != St.running) = true := by simp [Mod.st, Mod.info, hn]
        simp only [g, if_true]
        unfold stop
        simp [hn]
    | cleanup =>
      simp only [tableAllows, call, Gen.cleanupRefuses, Gen.cleanupNext]
      by_cases hn : i.st = .none
      · have g : ((Mod.node i ks).st == St.none) = true := by simp [Mod.st, Mod.info, hn]
        simp only [g, if_true]
        rw [cleanup]
        simp [hn]
      · have g : ((Mod.node i ks).st == St.none) = false := by simp [Mod.st, Mod.info, hn]
        simp only [g, Bool.false_eq_true, if_false]
        rw [cleanup]
        simp [hn, Mod.st, Mod.info, setSt]
    | setFlags k c i' s =>
      simp only [tableAllows, call, Mod.setFlags, Mod.st, Mod.info]
      split <;> rfl

/-- the states reachable through any interleaving of the calls are those of the table's automaton -/
def tableReach : St → List Call → St → Prop
  | s, [], s' => s' = s
  | s, c :: cs, s' => ∃ s1 r, tableAllows s c s1 r ∧ tableReach s1 cs s'

theorem C11_state_machine (t : Mod) (cs : List Call) : tableReach t.st cs (runCalls true t cs).1.st := by
  induction cs generalizing t with
  | nil => rfl
  | cons c cs ih => exact ⟨_, _, C11_state_table t c, ih _⟩

/-- `add()` (the sixth API function) succeeds only where the source's guard lets it, and never
changes a `state_` -/
theorem C11_add_guard (f f' : Forest) (p c : Nat) (r : Bool) (h : f.add p c r = some (f', true)) :
    ∃ pm, f.find p = some pm ∧ Gen.addRefuses pm.info.st = false := by
  unfold Forest.add at h
  split at h
  · rename_i pm cm hp hc
    refine ⟨pm, hp, ?_⟩
    split at h
    · simp at h
    · split at h
      · simp at h
      · split at h
        · simp at h
        · rename_i hst
          simpa [Gen.addRefuses] using hst
  · simp at h

/-! ### Main() sequencing (run_in_frontend.cpp / run_in_backend.cpp) -/

theorem cleanup_of_allNone (m : Mod) (h : m.allNone = true) : cleanup true m = (m, []) := by
  cases m with
  | node i ks => rw [cleanup]; simp [((allNone_node i ks).1 h).1]

/-- what `Main()` does with the Apps tree is one of the histories of `C11_balanced`: some root
calls, then `cleanup()`, then `~Module()` — also on the "Apps init fail" path, where `Main()` does
NOT call `cleanup()`: after a failed `initialize()` of the repaired code the tree is all `kNone`,
so the missing call would have run nothing. -/
theorem C11_main_is_history (ctxInit ctxStart : Bool) (t : Mod) (hf : t.allNone = true) :
    mainTrace true ctxInit ctxStart t = history t (mainCalls true ctxInit ctxStart t) := by
  unfold mainTrace mainCalls
  cases ctxInit
  · simp [history, runCalls, cleanup_of_allNone t hf]
  · simp only [Bool.not_true, Bool.false_eq_true, if_false]
    cases hi : (initM true t).2.1
    · have := (init_fresh t hf).2.2 hi
      simp [history, runCalls, call, cleanup_of_allNone _ this]
    · cases ctxStart
      · simp [history, runCalls, call]
      · cases hs : (start true (initM true t).1).2.1 <;> simp [history, runCalls, call]

/-- every successful `onInit` / `onStart` is balanced by the time `Main()` returns, whatever
`ContextImp::initialize()/start()` return and whichever module fails: each module's hooks are a
closed walk of its automaton, the counts match, and the whole trace is LIFO-nested. -/
theorem C11_main_balanced (ctxInit ctxStart : Bool) (t : Mod) (hf : t.allNone = true) (hid : t.ids.Nodup) :
    (∀ n, hookRun n .none (mainTrace true ctxInit ctxStart t) = some .none) ∧
    (∀ n, (mainTrace true ctxInit ctxStart t).count (Ev.init n true) = (mainTrace true ctxInit ctxStart t).count (Ev.cleanup n) ∧
          (mainTrace true ctxInit ctxStart t).count (Ev.start n true) = (mainTrace true ctxInit ctxStart t).count (Ev.stop n)) ∧
    stackRun ([], []) (mainTrace true ctxInit ctxStart t) = some ([], []) := by
  rw [C11_main_is_history ctxInit ctxStart t hf]
  exact ⟨(C11_balanced t hf hid _).1, fun n => C11_balanced_counts t hf hid _ n, C11_reverse_closed t hf _⟩

/-- before the patch `Main()` itself was unbalanced on the "Apps init fail" path -/
theorem C11_main_counterexample_unrepaired :
    mainTrace false true true cexTree = [.init 0 true, .init 1 true, .init 2 false] := by
  simp [mainTrace, cexTree, initM, initKids, cleanup, cleanupKids, stop, destroy, destroyKids, Mod.kids, Mod.info, setSt]

example : mainTrace true true true cexTree = [.init 0 true, .init 1 true, .init 2 false, .cleanup 1, .cleanup 0] := by
  simp [mainTrace, cexTree, initM, initKids, cleanup, cleanupKids, stop, destroy, destroyKids, Mod.kids, Mod.info, setSt]

/-! ### remarks -/

/-- `~Module()` WITHOUT a preceding `cleanup()` skips the destroyed module's own `onStop` /
`onCleanup` (C++ dispatches to the base hooks inside the destructor) but not its children's: the
property is stated for histories that end with `cleanup(); ~Module()`. -/
theorem C11_destroy_only_remark :
    let t := (start true (initM true cexTree2).1).1
    let t' := (runCalls true cexTree2 [.init, .setFlags 2 true true true, .start]).1
    t.st = .inited ∧ destroy t' = [.stop 2, .stop 1, .cleanup 2, .cleanup 1] := by
  simp [cexTree2, runCalls, call, Mod.setFlags, Kids.setFlags, initM, initKids, start, startKids, cleanup, cleanupKids,
    stop, stopKids, destroy, destroyKids, Mod.kids, Mod.info, Mod.st, setSt]

end Tbox.C11
