/-
C11 — PROPERTY THEOREMS for user hooks that call back into the module tree (hook scripts).
Statements rely on Arena.lean / Spec.lean; helper lemmas live in ArenaProofs.lean.

Model: every module lives in one store; each hook of each module carries a script — any list of
`target->initialize()/start()/stop()/cleanup()` on ANY module (itself, its parent, a sibling, the
root, a free-standing module …), `parent->add(child)`, or `throw`.  Calls nest to any depth
(a hook of a module reached by a script runs its own script).  `g = true` is module.cpp with
patches/C11-02 (re-entrancy guard + index loop), `g = false` the code before it.

Quantification: every store (any number of modules, any shape — the theorems do not even need the
parent links to form a tree), every assignment of scripts and of onInit/onStart results, every
sequence of public calls on any modules, every fuel; `thrown = false` excludes runs in which a hook
threw (and runs cut short by the fuel of the executable model).
-/
import TboxModel.C11.ArenaProofs
import TboxModel.C11.Final
namespace Tbox.C11.Arena
open Tbox.C11

/-- a sequence of public lifecycle calls, each on any module; stops at the first exception -/
def aRun (g : Bool) (fuel : Nat) : Store → List (Nat × Api) → Res
  | σ, [] => Res.ok σ true []
  | σ, (n, a) :: cs =>
    let r := aCall g fuel σ n a true
    if r.thrown then r
    else
      let q := aRun g fuel r.σ cs
      ⟨q.σ, q.ret, r.tr ++ q.tr, q.thrown, q.oof⟩

/-- no module is inside a lifecycle function (the situation between top-level calls) -/
def quiescent (σ : Store) : Prop := ∀ m, (σ.get m).busy = false

theorem aRun_Q (fuel : Nat) (σ : Store) (cs : List (Nat × Api)) (h : (aRun true fuel σ cs).thrown = false) :
    Q σ (aRun true fuel σ cs).σ (aRun true fuel σ cs).tr := by
  induction cs generalizing σ with
  | nil => exact Q.refl σ
  | cons c cs ih =>
    obtain ⟨n, a⟩ := c
    simp only [aRun] at h ⊢
    split
    · rename_i ht; rw [if_pos ht] at h; rw [ht] at h; simp at h
    · rename_i ht
      rw [if_neg ht] at h
      exact ((P.all fuel).call σ n a (by simpa using ht)).trans (ih _ h)

/-! ### C11_scripts_gating -/

/-- With the re-entrancy guard, whatever the hooks do — call any API function of any module from
inside any hook, to any nesting depth, add children while the vector is being walked — for EVERY
module the hooks that ran form a path of its lifecycle automaton from its old to its new `state_`:
start only after a successful init, stop only if started, cleanup only after stop, never two
successful inits without a cleanup in between.  And no module is left marked busy. -/
theorem C11_scripts_gating (fuel : Nat) (σ : Store) (hq : quiescent σ) (cs : List (Nat × Api))
    (hnt : (aRun true fuel σ cs).thrown = false) (m : Nat) :
    hookRun m (σ.get m).st (aRun true fuel σ cs).tr = some ((aRun true fuel σ cs).σ.get m).st ∧
    ((aRun true fuel σ cs).σ.get m).busy = false := by
  obtain ⟨b, c⟩ := aRun_Q fuel σ cs hnt m
  simp only [hq m, Bool.false_eq_true, if_false] at c
  exact ⟨c, b.trans (hq m)⟩

/-- balance, per module: a module that is in `kNone` before and after has had every successful
`onInit` matched by exactly one `onCleanup` and every successful `onStart` by exactly one `onStop` -/
theorem C11_scripts_balanced (fuel : Nat) (σ : Store) (hq : quiescent σ) (cs : List (Nat × Api))
    (hnt : (aRun true fuel σ cs).thrown = false) (m : Nat)
    (h0 : (σ.get m).st = .none) (h1 : ((aRun true fuel σ cs).σ.get m).st = .none) :
    (aRun true fuel σ cs).tr.count (Ev.init m true) = (aRun true fuel σ cs).tr.count (Ev.cleanup m) ∧
    (aRun true fuel σ cs).tr.count (Ev.start m true) = (aRun true fuel σ cs).tr.count (Ev.stop m) := by
  have h := (C11_scripts_gating fuel σ hq cs hnt m).1
  rw [h0, h1] at h
  simpa [nn, rr] using hookRun_counts m _ _ _ h

/-- what the guard buys: while a module is inside one of its own lifecycle functions, nothing its
hooks (or hooks of hooks …) call can change its `state_` or run one of its hooks -/
theorem C11_scripts_busy_untouched (fuel : Nat) (σ : Store) (t : Nat) (a : Api) (n : Nat)
    (hb : (σ.get n).busy = true) (hnt : (aCall true fuel σ t a true).thrown = false) :
    ((aCall true fuel σ t a true).σ.get n).st = (σ.get n).st ∧ ∀ e ∈ (aCall true fuel σ t a true).tr, e.id ≠ n := by
  obtain ⟨_, c⟩ := (P.all fuel).call σ t a hnt n
  simpa [hb] using c

/-! ### the code before patches/C11-02 violates gating (found by the hook-script generator) -/

/-- root 0 with required child 1 -/
def two (s0 s1 : Node → Node) : Store :=
  (({} : Store).set 0 (s0 { alive := true, named := true, cfg := true, initOk := true, startOk := true, kids := [(1, true)] })).set 1
    (s1 { alive := true, named := true, cfg := true, initOk := true, startOk := true, hasParent := true, parent := 0 })

/-- child's `onStart` calls `root.cleanup()` while the root is in `start()`: unguarded, both modules
are cleaned up in the middle of being started and end up `kRunning`; later they are cleaned again -/
theorem C11_reentrant_cleanup_counterexample :
    (aRun false 40 (two id fun x => { x with sStart := [.call 0 .cleanup] }) [(0, .init), (0, .start), (0, .cleanup)]).tr =
      [.init 0 true, .init 1 true, .start 0 true, .cleanup 1, .cleanup 0, .start 1 true,
       .stop 1, .stop 0, .cleanup 1, .cleanup 0] := by
  decide +kernel

/-- the same scripts with the guard: the nested call is refused -/
theorem C11_reentrant_cleanup_repaired :
    (aRun true 40 (two id fun x => { x with sStart := [.call 0 .cleanup] }) [(0, .init), (0, .start), (0, .cleanup)]).tr =
      [.init 0 true, .init 1 true, .start 0 true, .start 1 true, .stop 1, .stop 0, .cleanup 1, .cleanup 0] := by
  decide +kernel

/-- child's `onInit` calls `root.initialize()`: unguarded, both `onInit`s run twice for one cleanup -/
theorem C11_reentrant_init_counterexample :
    (aRun false 40 (two id fun x => { x with sInit := [.call 0 .init] }) [(0, .init), (0, .cleanup)]).tr =
      [.init 0 true, .init 0 true, .init 1 true, .init 1 true, .cleanup 1, .cleanup 0] := by
  decide +kernel

/-! ### the scripts named in DESIGN §10 lesson (e), evaluated on the model of the present code -/

/-- child's `onStart` calls `stop()` on its parent (which is inside `start()`): refused, the start-up
completes; child's `onStop` calls `cleanup()` on itself and on the parent (both inside `stop()`): refused
too; the trace is that of the undisturbed tree -/
theorem C11_script_stop_parent_from_onStart :
    (aRun true 60 (two id fun x => { x with sStart := [.call 0 .stop], sStop := [.call 1 .cleanup, .call 0 .cleanup] })
      [(0, .init), (0, .start), (0, .stop), (0, .cleanup)]).tr =
      [.init 0 true, .init 1 true, .start 0 true, .start 1 true, .stop 1, .stop 0, .cleanup 1, .cleanup 0] := by
  decide +kernel

/-- root 0 (required child 1) and a free-standing unnamed module 2 -/
def twoFree (s0 s1 : Node → Node) : Store :=
  (two s0 s1).set 2 { alive := true, named := false, cfg := false, initOk := true, startOk := true }

/-- a child is `add()`ed from inside `onInit` of its parent-to-be (state still `kNone`: accepted; the index
loop of `initialize()` then reaches it), and once more from `onStart` (state `kInited`: refused) -/
theorem C11_script_add_from_parent_onInit :
    let r := aRun true 60 (twoFree (fun x => { x with sInit := [.add 0 2 true], sStart := [.add 0 2 true] }) id)
      [(0, .init), (0, .start), (0, .cleanup)]
    r.tr = [.init 0 true, .init 1 true, .init 2 true, .start 0 true, .start 1 true, .start 2 true,
            .stop 2, .stop 1, .stop 0, .cleanup 2, .cleanup 1, .cleanup 0] ∧
    (r.σ.get 0).kids = [(1, true), (2, true)] := by
  decide +kernel

/-- … and from `onInit` of a sibling, while the parent walks `children_` -/
theorem C11_script_add_from_sibling_onInit :
    (aRun true 60 (twoFree id fun x => { x with sInit := [.add 0 2 false] }) [(0, .init), (0, .cleanup)]).tr =
      [.init 0 true, .init 1 true, .init 2 true, .cleanup 2, .cleanup 1, .cleanup 0] := by
  decide +kernel

/-! ### LIFO nesting is NOT kept by arbitrary scripts (it is a theorem for trees driven through the root)

-- OPEN (false): `stackRun ([], []) (aRun true fuel σ cs).tr ≠ none` for every program of scripts.  A hook may call the
--      public API of a module that is not on top of the nesting order — module.h warns against driving a child by
--      hand but does not forbid it; the re-entrancy guard only protects modules that are inside a lifecycle function. -/

/-- root 0 with required children 1, 2, 3 -/
def kidOf (p : Nat) : Node :=
  { alive := true, named := true, cfg := true, initOk := true, startOk := true, hasParent := true, parent := p }

def four (s3 : Node → Node) : Store :=
  let r : Node := { alive := true, named := true, cfg := true, initOk := true, startOk := true }
  (((({} : Store).set 0 { r with kids := [(1, true), (2, true), (3, true)] }).set 1 (kidOf 0)).set 2 (kidOf 0)).set 3 (s3 (kidOf 0))

/-- child 3's `onInit` cleans up its eldest sibling: gating and balance hold (`C11_scripts_*`), nesting does not -/
theorem C11_scripts_nesting_counterexample :
    let r := aRun true 60 (four fun x => { x with sInit := [.call 1 .cleanup] }) [(0, .init), (0, .cleanup)]
    r.thrown = false ∧
    r.tr = [.init 0 true, .init 1 true, .init 2 true, .cleanup 1, .init 3 true, .cleanup 3, .cleanup 2, .cleanup 0] ∧
    stackRun ([], []) r.tr = none ∧ (∀ m < 4, hookRun m .none r.tr = some .none) := by
  decide +kernel

/-! ### a hook that throws — outside the property (assumption), shown to break it

-- OPEN (by design of the code): an exception from a user hook propagates through initialize()/start()/stop()/
--      cleanup() without roll-back (module.cpp has no try/catch), so the modules brought up so far stay up with a
--      parent that is `kNone`.  `C11_scripts_*` therefore assume `thrown = false`. -/
theorem C11_throwing_hook_counterexample :
    let r := aRun true 40 (two id fun x => { x with sInit := [.throw] }) [(0, .init)]
    r.thrown = true ∧ r.tr = [.init 0 true, .init 1 false] ∧ (r.σ.get 0).st = .none ∧
    hookRun 0 .none r.tr = some .inited := by
  decide +kernel

/-- non-vacuity of the hypotheses: a quiescent store, scripts on several hooks, no exception -/
example : (aRun true 60 (two (fun x => { x with sStop := [.call 1 .start, .call 0 .init] })
      (fun x => { x with sInit := [.call 0 .cleanup], sCleanup := [.call 1 .init] }))
      [(0, .init), (0, .start), (0, .stop), (0, .cleanup)]).thrown = false := by
  decide +kernel

end Tbox.C11.Arena
