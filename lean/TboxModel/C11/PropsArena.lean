/-
C11 — PROPERTY THEOREMS for user hooks that call back into the module tree (hook scripts).
Statements rely on Arena.lean / Spec.lean; helper lemmas live in ArenaProofs.lean.

Model: every module lives in one store; each hook of each module carries a script — any list of
`target->initialize()/start()/stop()/cleanup()` on ANY module (itself, its parent, a sibling, the
root, a free-standing module …), `parent->add(child)`, or `throw`.  Calls nest to any depth
(a hook of a module reached by a script runs its own script).  `g = true` is module.cpp with
patches/C11-02 (re-entrancy guard + index loop), `g = false` the code before it.

Quantification: every store (any number of modules, any shape — the theorems do not even need the
parent links to form a tree), every assignment of scripts and of onInit/onStart results — re-armed
and changed at will between the calls (`Op.arm`, `Op.flags`: an oracle per hook call: return true,
return false, throw, or run any script first) —, every sequence of public calls on any modules, every
fuel.  Exceptions are caught by the caller of the public function (the harness boundary) and the
history goes on.  `bad = false` excludes runs cut short by the fuel of the executable model and runs
in which an exception left an `onStop` / `onCleanup` hook.
-/
import TboxModel.C11.ArenaProofs
import TboxModel.C11.Final
namespace Tbox.C11.Arena
open Tbox.C11

/-- what the owner of the modules may do: call a public lifecycle function of any module, give any hook of any
module a new script (scripts are one-shot), change what a module's `onInit` / `onStart` return and whether the
configuration has its key -/
inductive Op where
  | call (n : Nat) (a : Api)
  | arm (n : Nat) (h : Hook) (acts : List Act)
  | flags (n : Nat) (cfg initOk startOk : Bool)
  deriving DecidableEq, Repr

/-- a history; an exception that comes out of a public call is caught by the caller, the history continues -/
def aHist (g x : Bool) (fuel : Nat) : Store → List Op → Res
  | σ, [] => Res.ok σ true []
  | σ, .call n a :: cs =>
    let r := aCall g x fuel σ n a true
    let q := aHist g x fuel r.σ cs
    ⟨q.σ, q.ret, r.tr ++ q.tr, r.thrown || q.thrown, r.oof || q.oof, r.td || q.td⟩
  | σ, .arm n h acts :: cs => aHist g x fuel (σ.set n ((σ.get n).setSlot h acts)) cs
  | σ, .flags n c i s :: cs =>
    let nd := σ.get n
    aHist g x fuel (σ.set n { nd with cfg := c, initOk := i, startOk := s }) cs

/-- a sequence of public lifecycle calls, each on any module -/
def aRun (g x : Bool) (fuel : Nat) (σ : Store) (cs : List (Nat × Api)) : Res :=
  aHist g x fuel σ (cs.map fun c => .call c.1 c.2)

/-- no module is inside a lifecycle function (the situation between top-level calls) -/
def quiescent (σ : Store) : Prop := ∀ m, (σ.get m).busy = false

theorem setSlot_same (nd : Node) (h : Hook) (a : List Act) : (nd.setSlot h a).st = nd.st ∧ (nd.setSlot h a).busy = nd.busy := by
  cases h <;> exact ⟨rfl, rfl⟩

theorem aHist_Q (fuel : Nat) (σ : Store) (cs : List Op) (h : (aHist true true fuel σ cs).bad = false) :
    Q σ (aHist true true fuel σ cs).σ (aHist true true fuel σ cs).tr := by
  induction cs generalizing σ with
  | nil => exact Q.refl σ
  | cons c cs ih =>
    cases c with
    | call n a =>
      simp only [aHist] at h ⊢
      exact ((P.all fuel).call σ n a (by bad_split)).trans (ih (aCall true true fuel σ n a true).σ (by bad_split))
    | arm n hk acts =>
      simp only [aHist] at h ⊢
      have h1 : Q σ (σ.set n ((σ.get n).setSlot hk acts)) [] := by
        intro m
        by_cases hm : m = n
        · subst hm; exact Qm.same (by simp [(setSlot_same _ hk acts).1]) (by simp [(setSlot_same _ hk acts).2])
        · exact Qm.same (by rw [get_set_other _ _ _ _ hm]) (by rw [get_set_other _ _ _ _ hm])
      simpa using h1.trans (ih _ h)
    | flags n c i s =>
      simp only [aHist] at h ⊢
      have h1 : Q σ (σ.set n { σ.get n with cfg := c, initOk := i, startOk := s }) [] := by
        intro m
        by_cases hm : m = n
        · subst hm; exact Qm.same (by simp) (by simp)
        · exact Qm.same (by rw [get_set_other _ _ _ _ hm]) (by rw [get_set_other _ _ _ _ hm])
      simpa using h1.trans (ih _ h)

/-! ### C11_scripts_gating -/

/-- With the re-entrancy guard and the roll-back of exceptions, whatever the hooks do — call any API function of any
module from inside any hook, to any nesting depth, add children while the vector is being walked, THROW from
`onInit` / `onStart` (directly or out of anything they call) — for EVERY module the hooks that ran form a path of its
lifecycle automaton from its old to its new `state_`: start only after a successful init, stop only if started, cleanup
only after stop, never two successful inits without a cleanup in between; a module whose `initialize()` / `start()` was
left by an exception is where a failed one would be.  And no module is left marked busy (the scope-exit action
releases `is_in_action_` on every path). -/
theorem C11_scripts_gating (fuel : Nat) (σ : Store) (hq : quiescent σ) (cs : List Op)
    (hnb : (aHist true true fuel σ cs).bad = false) (m : Nat) :
    hookRun m (σ.get m).st (aHist true true fuel σ cs).tr = some ((aHist true true fuel σ cs).σ.get m).st ∧
    ((aHist true true fuel σ cs).σ.get m).busy = false := by
  obtain ⟨b, c⟩ := aHist_Q fuel σ cs hnb m
  simp only [hq m, Bool.false_eq_true, if_false] at c
  exact ⟨c, b.trans (hq m)⟩

/-- balance, per module, over histories in which hooks may throw: a module that is in `kNone` before and after has had
every successful `onInit` matched by exactly one `onCleanup` and every successful `onStart` by exactly one `onStop` -/
theorem C11_scripts_balanced (fuel : Nat) (σ : Store) (hq : quiescent σ) (cs : List Op)
    (hnb : (aHist true true fuel σ cs).bad = false) (m : Nat)
    (h0 : (σ.get m).st = .none) (h1 : ((aHist true true fuel σ cs).σ.get m).st = .none) :
    (aHist true true fuel σ cs).tr.count (Ev.init m true) = (aHist true true fuel σ cs).tr.count (Ev.cleanup m) ∧
    (aHist true true fuel σ cs).tr.count (Ev.start m true) = (aHist true true fuel σ cs).tr.count (Ev.stop m) := by
  have h := (C11_scripts_gating fuel σ hq cs hnb m).1
  rw [h0, h1] at h
  simpa [nn, rr] using hookRun_counts m _ _ _ h

/-- what the guard buys: while a module is inside one of its own lifecycle functions, nothing its
hooks (or hooks of hooks …) call can change its `state_` or run one of its hooks -/
theorem C11_scripts_busy_untouched (fuel : Nat) (σ : Store) (t : Nat) (a : Api) (n : Nat)
    (hb : (σ.get n).busy = true) (hnb : (aCall true true fuel σ t a true).bad = false) :
    ((aCall true true fuel σ t a true).σ.get n).st = (σ.get n).st ∧ ∀ e ∈ (aCall true true fuel σ t a true).tr, e.id ≠ n := by
  obtain ⟨_, c⟩ := (P.all fuel).call σ t a hnb n
  simpa [hb] using c

/-- `stop()` and `cleanup()` let an exception out only when it came out of an `onStop` / `onCleanup` hook (or the
fuel of the model ran out): hooks with a result cannot make the teardown functions throw -/
theorem C11_teardown_throws_only_from_teardown_hooks (fuel : Nat) (σ : Store) (n : Nat) (a : Api) (ha : a = .stop ∨ a = .cleanup)
    (ht : (aCall true true fuel σ n a true).thrown = true) : (aCall true true fuel σ n a true).bad = true :=
  (T.all fuel).call σ n a true (by rcases ha with h | h <;> subst h <;> rfl) ht

/-! ### the code before patches/C11-02 violates gating (found by the hook-script generator) -/

/-- root 0 with required child 1 -/
def two (s0 s1 : Node → Node) : Store :=
  (({} : Store).set 0 (s0 { alive := true, named := true, cfg := true, initOk := true, startOk := true, kids := [(1, true)] })).set 1
    (s1 { alive := true, named := true, cfg := true, initOk := true, startOk := true, hasParent := true, parent := 0 })

/-- root 0 with required children 1 and 2 -/
def three (s2 : Node → Node) : Store :=
  let r : Node := { alive := true, named := true, cfg := true, initOk := true, startOk := true }
  let k : Node := { r with hasParent := true, parent := 0 }
  ((({} : Store).set 0 { r with kids := [(1, true), (2, true)] }).set 1 k).set 2 (s2 k)

/-- `cleanup(); ~Module()` at the end of a history on root `n` -/
def closeDown (g x : Bool) (fuel : Nat) (r : Res) (n : Nat) : List Ev :=
  let c := aCall g x fuel r.σ n .cleanup true
  r.tr ++ c.tr ++ (aDestroy g x fuel c.σ n).tr

/-- child's `onStart` calls `root.cleanup()` while the root is in `start()`: unguarded, both modules
are cleaned up in the middle of being started and end up `kRunning`; later they are cleaned again -/
theorem C11_reentrant_cleanup_counterexample :
    (aRun false true 40 (two id fun x => { x with sStart := [.call 0 .cleanup] }) [(0, .init), (0, .start), (0, .cleanup)]).tr =
      [.init 0 true, .init 1 true, .start 0 true, .cleanup 1, .cleanup 0, .start 1 true,
       .stop 1, .stop 0, .cleanup 1, .cleanup 0] := by
  decide +kernel

/-- the same scripts with the guard: the nested call is refused -/
theorem C11_reentrant_cleanup_repaired :
    (aRun true true 40 (two id fun x => { x with sStart := [.call 0 .cleanup] }) [(0, .init), (0, .start), (0, .cleanup)]).tr =
      [.init 0 true, .init 1 true, .start 0 true, .start 1 true, .stop 1, .stop 0, .cleanup 1, .cleanup 0] := by
  decide +kernel

/-- child's `onInit` calls `root.initialize()`: unguarded, both `onInit`s run twice for one cleanup -/
theorem C11_reentrant_init_counterexample :
    (aRun false true 40 (two id fun x => { x with sInit := [.call 0 .init] }) [(0, .init), (0, .cleanup)]).tr =
      [.init 0 true, .init 0 true, .init 1 true, .init 1 true, .cleanup 1, .cleanup 0] := by
  decide +kernel

/-! ### the scripts named in DESIGN §10 lesson (e), evaluated on the model of the present code -/

/-- child's `onStart` calls `stop()` on its parent (which is inside `start()`): refused, the start-up
completes; child's `onStop` calls `cleanup()` on itself and on the parent (both inside `stop()`): refused
too; the trace is that of the undisturbed tree -/
theorem C11_script_stop_parent_from_onStart :
    (aRun true true 60 (two id fun x => { x with sStart := [.call 0 .stop], sStop := [.call 1 .cleanup, .call 0 .cleanup] })
      [(0, .init), (0, .start), (0, .stop), (0, .cleanup)]).tr =
      [.init 0 true, .init 1 true, .start 0 true, .start 1 true, .stop 1, .stop 0, .cleanup 1, .cleanup 0] := by
  decide +kernel

/-- root 0 (required child 1) and a free-standing unnamed module 2 -/
def twoFree (s0 s1 : Node → Node) : Store :=
  (two s0 s1).set 2 { alive := true, named := false, cfg := false, initOk := true, startOk := true }

/-- a child is `add()`ed from inside `onInit` of its parent-to-be (state still `kNone`: accepted; the index
loop of `initialize()` then reaches it), and once more from `onStart` (state `kInited`: refused) -/
theorem C11_script_add_from_parent_onInit :
    let r := aRun true true 60 (twoFree (fun x => { x with sInit := [.add 0 2 true], sStart := [.add 0 2 true] }) id)
      [(0, .init), (0, .start), (0, .cleanup)]
    r.tr = [.init 0 true, .init 1 true, .init 2 true, .start 0 true, .start 1 true, .start 2 true,
            .stop 2, .stop 1, .stop 0, .cleanup 2, .cleanup 1, .cleanup 0] ∧
    (r.σ.get 0).kids = [(1, true), (2, true)] := by
  decide +kernel

/-- … and from `onInit` of a sibling, while the parent walks `children_` -/
theorem C11_script_add_from_sibling_onInit :
    (aRun true true 60 (twoFree id fun x => { x with sInit := [.add 0 2 false] }) [(0, .init), (0, .cleanup)]).tr =
      [.init 0 true, .init 1 true, .init 2 true, .cleanup 2, .cleanup 1, .cleanup 0] := by
  decide +kernel

/-! ### `add()` cannot close a cycle (patches/C11-08) -/

/-- an accepted `add()`: the parent is `kNone`, the child had no parent, and the child is neither the parent itself nor the
root of the tree the parent hangs in (the only ways a parentless module could close a cycle) -/
theorem C11_add_no_cycle (σ σ' : Store) (p c : Nat) (req : Bool) (h : addOp σ p c req = some (σ', true)) :
    (σ.get p).st = .none ∧ (σ.get c).hasParent = false ∧ rootOf σ 1000 p ≠ c ∧ p ≠ c ∧
    (σ'.get c).parent = p ∧ (σ'.get p).kids = (σ.get p).kids ++ [(c, req)] := by
  unfold addOp at h
  split at h
  · simp at h
  split at h
  · simp at h
  rename_i hst
  split at h
  · simp at h
  rename_i hpar
  split at h
  · simp at h
  rename_i hroot
  split at h
  · simp at h
  simp only [Option.some.injEq, Prod.mk.injEq, and_true] at h
  have hpc : p ≠ c := by
    intro e; subst e
    apply hroot
    have hp : (σ.get p).hasParent = false := by simpa using hpar
    simp [rootOf, hp]
  refine ⟨by simpa using hst, by simpa using hpar, hroot, hpc, ?_, ?_⟩
  · rw [← h]; simp
  · rw [← h, get_set_other _ _ _ _ hpc]; simp

/-- before the patch: the root of a tree is accepted as a child of its own child (the walk along `parent_` then never reaches a
root: where it stops depends on the fuel), and a module as its own child; the patched `add()` refuses both -/
theorem C11_add_cycle_counterexample :
    (addOpOrig (two id id) 1 0 true).map (fun r => (r.2, (r.1.get 0).parent, (r.1.get 1).parent, rootOf r.1 1000 0, rootOf r.1 1001 0)) =
      some (true, 1, 0, 0, 1) ∧
    (addOp (two id id) 1 0 true).map (·.2) = some false ∧ (addOp (two id id) 0 0 true).map (·.2) = some false ∧
    (addOpOrig (({} : Store).set 0 { alive := true }) 0 0 true).map (fun r => (r.1.get 0).kids) = some [(0, true)] := by
  decide +kernel

/-! ### LIFO nesting under scripts: the class for which it holds, and the sharp counterexamples

The decidable class: scripts whose acts are all calls of lifecycle functions of modules that are INSIDE a lifecycle function at
that moment (`onlyBusyCalls`) — the hook's own module always is, and when the tree is driven through its root so is every
ancestor (the path root … parent is on the C++ stack).  For this class every scripted call is refused by the re-entrancy guard:
the script changes nothing and runs no hook (`C11_scripts_refused_noop`, for every store, script and fuel), so the run is the
run of the script-free tree, for which `C11_reverse` / `C11_reverse_closed` are theorems.  The class is sharp on both sides: a
call DOWN into the hook's own subtree breaks balance at destruction (`C11_scripts_own_subtree_counterexample`), a call SIDEWAYS
to an idle sibling breaks nesting (`C11_scripts_nesting_counterexample`); module.h forbids both in prose only.

-- OPEN (false): `stackRun ([], []) (aRun true true fuel σ cs).tr ≠ none` for every program of scripts.
-- OPEN (composition): the step from `C11_scripts_refused_noop` to "`stackRun` of the whole arena run succeeds" needs the refinement
--      arena(script-free) = tree model, which is checked on every run (`M MODEL-MISMATCH` line of the driver: both models are executed
--      on every unscripted case) but is not a Lean theorem. -/

def onlyBusyCalls (σ : Store) : List Act → Bool
  | [] => true
  | .call t _ :: rest => (σ.get t).busy && onlyBusyCalls σ rest
  | _ :: _ => false

theorem C11_scripts_refused_noop (x : Bool) (σ : Store) : ∀ (as : List Act) (fuel : Nat), onlyBusyCalls σ as = true →
    as.length + 1 < fuel →
    (runActs true x fuel σ as).σ = σ ∧ (runActs true x fuel σ as).tr = [] ∧ (runActs true x fuel σ as).thrown = false ∧
    (runActs true x fuel σ as).bad = false
  | [], fuel, _, hf => by
    obtain ⟨f, rfl⟩ : ∃ f, fuel = f + 1 := ⟨fuel - 1, by omega⟩
    simp [runActs, Res.ok, Res.bad]
  | .throw :: _, _, h, _ => by simp [onlyBusyCalls] at h
  | .add _ _ _ :: _, _, h, _ => by simp [onlyBusyCalls] at h
  | .call t a :: rest, fuel, h, hf => by
    obtain ⟨f, rfl⟩ : ∃ f, fuel = f + 2 := ⟨fuel - 2, by simp at hf; omega⟩
    simp only [onlyBusyCalls, Bool.and_eq_true] at h
    have ih := C11_scripts_refused_noop x σ rest (f + 1) h.2 (by simp at hf ⊢; omega)
    have hc : aCall true x (f + 1) σ t a true = Res.ok σ false [] := by simp [aCall, h.1]
    simp only [runActs, hc, Res.ok]
    split
    · simp only [Bool.false_eq_true, if_false, List.nil_append, Bool.false_or]
      exact ⟨ih.1, ih.2.1, ih.2.2.1, by simpa [Res.bad] using ih.2.2.2⟩
    · exact ih

/-- non-vacuity: a child's `onStart` script calling `stop()` and `cleanup()` on itself and on its parent while the parent starts it -/
example : onlyBusyCalls ((two id id).setBusy 0 true |>.setBusy 1 true) [.call 0 .stop, .call 1 .cleanup, .call 0 .cleanup] = true := by
  decide +kernel

/-- a call DOWN the tree: the root's `onInit` initialises its child by hand.  The loop of `initialize()` then finds the child
`kInited` (its `initialize()` answers false), treats that as a failed required child and rolls the root back — the child stays
initialised below a `kNone` parent and its `onInit` is never matched, not even by `cleanup(); ~Module()` -/
theorem C11_scripts_own_subtree_counterexample :
    let r := aRun true true 60 (two (fun nd => { nd with sInit := [.call 1 .init] }) id) [(0, .init)]
    r.bad = false ∧ r.thrown = false ∧ closeDown true true 60 r 0 = [.init 1 true, .init 0 true, .cleanup 0] ∧
    hookRun 1 .none (closeDown true true 60 r 0) = some .inited := by
  decide +kernel

/-- root 0 with required children 1, 2, 3 -/
def kidOf (p : Nat) : Node :=
  { alive := true, named := true, cfg := true, initOk := true, startOk := true, hasParent := true, parent := p }

def four (s3 : Node → Node) : Store :=
  let r : Node := { alive := true, named := true, cfg := true, initOk := true, startOk := true }
  (((({} : Store).set 0 { r with kids := [(1, true), (2, true), (3, true)] }).set 1 (kidOf 0)).set 2 (kidOf 0)).set 3 (s3 (kidOf 0))

/-- child 3's `onInit` cleans up its eldest sibling: gating and balance hold (`C11_scripts_*`), nesting does not -/
theorem C11_scripts_nesting_counterexample :
    let r := aRun true true 60 (four fun x => { x with sInit := [.call 1 .cleanup] }) [(0, .init), (0, .cleanup)]
    r.thrown = false ∧
    r.tr = [.init 0 true, .init 1 true, .init 2 true, .cleanup 1, .init 3 true, .cleanup 3, .cleanup 2, .cleanup 0] ∧
    stackRun ([], []) r.tr = none ∧ (∀ m < 4, hookRun m .none r.tr = some .none) := by
  decide +kernel

/-! ### hooks that throw

As found (before patches/C11-07, `x = false`) module.cpp had no try/catch: an exception from a child's `onInit` unwound
`initialize()` of every ancestor without roll-back.  The re-entrancy flags were released (scope-exit action), but the
modules brought up so far stayed up below a parent that is `kNone` — which `cleanup()` then skips, and whose
destructor reaches the children with the base hooks only. -/

/-- as found: child 2's `onInit` throws; the successful `onInit` hooks of 0 and 1 are never matched, not even by
`cleanup(); ~Module()` — the balance clause of the property is violated -/
theorem C11_throwing_hook_counterexample :
    let r := aRun true false 40 (three fun nd => { nd with sInit := [.throw] }) [(0, .init)]
    r.thrown = true ∧ r.tr = [.init 0 true, .init 1 true, .init 2 false] ∧
    (r.σ.get 0).st = .none ∧ (r.σ.get 1).st = .inited ∧ (r.σ.get 0).busy = false ∧
    closeDown true false 40 r 0 = [.init 0 true, .init 1 true, .init 2 false] ∧
    hookRun 0 .none (closeDown true false 40 r 0) = some .inited ∧ hookRun 1 .none (closeDown true false 40 r 0) = some .inited := by
  decide +kernel

/-- repaired (patches/C11-07): the same exception is rolled back on its way out — and is still delivered to the caller -/
theorem C11_throwing_hook_repaired :
    let r := aRun true true 40 (three fun nd => { nd with sInit := [.throw] }) [(0, .init)]
    r.thrown = true ∧ r.bad = false ∧ r.tr = [.init 0 true, .init 1 true, .init 2 false, .cleanup 1, .cleanup 0] ∧
    (∀ m < 3, (r.σ.get m).st = .none ∧ (r.σ.get m).busy = false) ∧ closeDown true true 40 r 0 = r.tr := by
  decide +kernel

/-- the same for `onStart`, as found and repaired; afterwards the tree is usable: `start()` again works, and
`cleanup()` balances everything -/
theorem C11_throwing_start_counterexample :
    let σ := three fun nd => { nd with sStart := [.throw] }
    (aRun true false 60 σ [(0, .init), (0, .start), (0, .cleanup)]).tr =
      [.init 0 true, .init 1 true, .init 2 true, .start 0 true, .start 1 true, .start 2 false,
       .cleanup 2, .stop 1, .cleanup 1, .cleanup 0] ∧
    hookRun 0 .none (aRun true false 60 σ [(0, .init), (0, .start), (0, .cleanup)]).tr = none ∧
    (aRun true true 60 σ [(0, .init), (0, .start), (0, .start), (0, .cleanup)]).tr =
      [.init 0 true, .init 1 true, .init 2 true, .start 0 true, .start 1 true, .start 2 false, .stop 1, .stop 0,
       .start 0 true, .start 1 true, .start 2 true, .stop 2, .stop 1, .stop 0, .cleanup 2, .cleanup 1, .cleanup 0] := by
  decide +kernel

/-- an exception that crosses several levels and a hook script: 2's `onInit` calls `initialize()` of the free-standing
tree 5 → 6, whose leaf throws; every frame on the way rolls back, the caller of `0.initialize()` gets the exception -/
theorem C11_throw_through_script_repaired :
    let k : Node := { alive := true, named := false, initOk := true, startOk := true }
    let σ := ((three fun nd => { nd with sInit := [.call 5 .init] }).set 5 { k with kids := [(6, true)] }).set 6
      { k with hasParent := true, parent := 5, sInit := [.throw] }
    let r := aRun true true 60 σ [(0, .init)]
    r.thrown = true ∧ r.bad = false ∧
    r.tr = [.init 0 true, .init 1 true, .init 5 true, .init 6 false, .cleanup 5, .init 2 false, .cleanup 1, .cleanup 0] := by
  decide +kernel

-- OPEN (not repaired, `bad = false` excludes it): an exception that leaves `onStop` / `onCleanup`.  `state_` is assigned after the
--      hook, so a throwing `onStop` leaves the module `kRunning` and the next `stop()`/`cleanup()` runs `onStop` a second time;
--      on the destructor path (`~Module()` is noexcept) it is `std::terminate`.  Teardown hooks must not throw.
theorem C11_throwing_teardown_counterexample :
    let r := aRun true true 60 (two id fun nd => { nd with sStop := [.throw] }) [(0, .init), (0, .start), (0, .stop), (0, .cleanup)]
    r.bad = true ∧ r.tr = [.init 0 true, .init 1 true, .start 0 true, .start 1 true, .stop 1, .stop 1, .stop 0, .cleanup 1, .cleanup 0] ∧
    hookRun 1 .none r.tr = none := by
  decide +kernel

/-- non-vacuity of the hypotheses: a quiescent store, scripts on several hooks, no exception -/
example : (aRun true true 60 (two (fun x => { x with sStop := [.call 1 .start, .call 0 .init] })
      (fun x => { x with sInit := [.call 0 .cleanup], sCleanup := [.call 1 .init] }))
      [(0, .init), (0, .start), (0, .stop), (0, .cleanup)]).bad = false := by
  decide +kernel

/-- … and a history with exceptions, re-armed scripts and changed results that is not `bad` -/
example : (aHist true true 60 (three fun nd => { nd with sInit := [.throw] })
      [.call 0 .init, .arm 2 .onStart [.call 0 .stop, .throw], .call 0 .init, .call 0 .start, .flags 1 true true false,
       .call 0 .start, .call 0 .cleanup]).bad = false := by
  decide +kernel

end Tbox.C11.Arena
