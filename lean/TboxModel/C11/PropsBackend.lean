/-
C11 — PROPERTY THEOREMS for the process-level entry points: `Start()` / `Stop()` of
run_in_backend.cpp (any history of calls) and a stop signal arriving during `Main()` of
run_in_frontend.cpp.  Statements rely on Backend.lean / Model.lean / Spec.lean.

`fx = true`: run_in_backend.cpp with patches/C11-06 (in /repo since 6f7372e; `C11_backend_leak_counterexample`
is about the file before it).  The signal theorems are about run_in_frontend.cpp as it is: a stop signal
inside a hook is outside the property's quantifier and is not repaired.

Quantification: every history of `Start()` / `Stop()` calls in any order and multiplicity (Start
twice, Stop without Start, Start failing at any stage and then Start again, …); for every `Start()` any
Apps tree as `RegisterApps` constructs it (all `kNone`, distinct modules; any shape, flags, hook
results) and any answers of the argument parser, the pid file, `ContextImp::initialize()` and
`ContextImp::start()`.  For the signal: every tree, every path of `Main()`, every hook call `k` of the
run during which the signal is raised.
-/
import TboxModel.C11.Props
import TboxModel.C11.Backend
namespace Tbox.C11.Backend
open Tbox.C11

/-- an Apps tree as constructed by `RegisterApps` -/
def StartIn.fresh (i : StartIn) : Prop := i.t.allNone = true ∧ i.t.ids.Nodup

def Op.fresh : Op → Prop
  | .start i => i.fresh
  | .stop => True

/-- a hook trace in which every successful `onInit` / `onStart` is matched (`hookRun` closes for every
module) and which is LIFO-nested with nothing left open (`stackRun` ends with both stacks empty) -/
def Closed (tr : List Ev) : Prop :=
  stackRun ([], []) tr = some ([], []) ∧ ∀ n, hookRun n .none tr = some .none

theorem Closed.nil : Closed [] := ⟨rfl, fun _ => rfl⟩

theorem Closed.append {a b : List Ev} (ha : Closed a) (hb : Closed b) : Closed (a ++ b) := by
  refine ⟨?_, fun n => ?_⟩
  · rw [stackRun_append, ha.1]; simpa using hb.1
  · rw [hookRun_append, ha.2 n]; simpa using hb.2 n

theorem history_closed (t : Mod) (hf : t.allNone = true) (hid : t.ids.Nodup) (cs : List Call) :
    Closed (history t cs) :=
  ⟨C11_reverse_closed t hf cs, (C11_balanced t hf hid cs).1⟩

/-- what is open while the runtime exists: the hooks of its Apps tree -/
def Inv (s : Option Rt) (tr : List Ev) : Prop :=
  match s with
  | none => Closed tr
  | some r => r.joinable = true ∧ r.apps.wf = true ∧ r.apps.ids.Nodup ∧
      stackRun ([], []) tr = some (r.apps.rnn, r.apps.rrr) ∧
      ∀ n, hookRun n .none tr = some (r.apps.stAt n .none)

/-! ### one `Start()` on a process without runtime -/

/-- a failing `Start()` is a complete `C11_balanced` history of its tree (root calls, `cleanup()`,
`~Module()`) and leaves no runtime; a successful one has made exactly the calls `initialize(); start()` -/
theorem start_none (i : StartIn) (hf : i.fresh) :
    (startB true true none i).2.crash = false ∧
    (((startB true true none i).2.ret = false ∧ (startB true true none i).1 = none ∧
        (startB true true none i).2.tr = history i.t (startCalls true i)) ∨
     ((startB true true none i).2.ret = true ∧
        (startB true true none i).1 = some ⟨(runCalls true i.t [.init, .start]).1, true⟩ ∧
        (startB true true none i).2.tr = (runCalls true i.t [.init, .start]).2)) := by
  obtain ⟨t, a, p, ci, cs⟩ := i
  obtain ⟨hn, _⟩ := hf
  simp only at hn
  unfold startB startCalls
  by_cases hap : (!a || !p) = true
  · simp [hap, history, runCalls, cleanup_of_allNone t hn]
  · simp only [hap, Bool.false_eq_true, if_false]
    have hap' : (!a || !p) = false := by simpa using hap
    cases ci
    · simp [history, runCalls, cleanup_of_allNone t hn]
    · cases hi : (initM true t).2.1
      · have := (init_fresh t hn).2.2 hi
        simp [history, runCalls, call, cleanup_of_allNone _ this]
      · cases cs
        · simp [history, runCalls, call]
        · cases hs : (start true (initM true t).1).2.1 <;> simp [history, runCalls, call]

theorem step_inv (s : Option Rt) (tr : List Ev) (o : Op) (hi : Inv s tr) (hf : o.fresh) :
    (stepB true true s o).2.crash = false ∧ Inv (stepB true true s o).1 (tr ++ (stepB true true s o).2.tr) := by
  cases o with
  | start i =>
    cases s with
    | some r => simpa [stepB, startB] using hi
    | none =>
      have hc : Closed tr := hi
      obtain ⟨h0, h⟩ := start_none i hf
      refine ⟨h0, ?_⟩
      simp only [stepB]
      rcases h with ⟨_, h2, h3⟩ | ⟨_, h2, h3⟩
      · rw [h2, h3]
        exact hc.append (history_closed i.t hf.1 hf.2 _)
      · rw [h2, h3]
        have hwf := runCalls_wf i.t [.init, .start] (allNone_wf_noRun i.t hf.1).1
        have hok := runCalls_ok i.t [.init, .start] hf.2
        refine ⟨rfl, hwf, hok.ids ▸ hf.2, ?_, fun n => ?_⟩
        · rw [stackRun_append, hc.1]
          simpa using C11_reverse i.t hf.1 [.init, .start]
        · rw [hookRun_append, hc.2 n]
          have := C11_gating i.t hf.2 [.init, .start] n .none
          rw [allNone_stAt n i.t hf.1] at this
          simpa using this
  | stop =>
    cases s with
    | none => simpa [stepB, stopB, Inv] using hi
    | some r =>
      obtain ⟨hj, hwf, hid, hst, hh⟩ := hi
      have hcs : (runCalls true r.apps [.stop, .cleanup]).2 =
          (stop true r.apps).2 ++ (cleanup true (stop true r.apps).1).2 := by simp [runCalls, call]
      have hc1 : (runCalls true r.apps [.stop, .cleanup]).1 = (cleanup true (stop true r.apps).1).1 := by
        simp [runCalls, call]
      have hall : (cleanup true (stop true r.apps).1).1.allNone = true :=
        cleanup_allNone true _ (stop_wf true r.apps hwf).1
      have hd := destroy_allNone _ hall
      simp only [stepB, stopB, hj, Bool.not_true, Bool.false_eq_true, if_false, hd, List.append_nil, true_and]
      show Closed _
      rw [← hcs]
      refine ⟨?_, fun n => ?_⟩
      · rw [stackRun_append, hst]
        have := runCalls_stack r.apps [.stop, .cleanup] hwf [] []
        rw [hc1, allNone_rnn _ hall, allNone_rrr _ hall] at this
        simpa using this
      · rw [hookRun_append, hh n]
        have := (runCalls_ok r.apps [.stop, .cleanup] hid).track n .none
        rw [hc1, allNone_stAt n _ hall] at this
        simpa using this

theorem run_inv (ops : List Op) (hf : ∀ o ∈ ops, o.fresh) (s : Option Rt) (tr : List Ev) (hi : Inv s tr) :
    (runB true true s ops).2.2 = false ∧ Inv (runB true true s ops).1 (tr ++ (runB true true s ops).2.1) := by
  induction ops generalizing s tr with
  | nil => simpa [runB] using hi
  | cons o os ih =>
    obtain ⟨h0, h1⟩ := step_inv s tr o hi (hf o (by simp))
    have := ih (fun o' h' => hf o' (by simp [h'])) _ _ h1
    simp only [runB, h0, Bool.false_eq_true, if_false]
    simpa [List.append_assoc] using this

theorem run_stop_none (ops : List Op) (hf : ∀ o ∈ ops, o.fresh) (s : Option Rt) (tr : List Ev) (hi : Inv s tr) :
    (runB true true s (ops ++ [.stop])).1 = none := by
  induction ops generalizing s tr with
  | nil =>
    cases s with
    | none => simp [runB, stepB, stopB]
    | some r => simp [runB, stepB, stopB, hi.1]
  | cons o os ih =>
    obtain ⟨h0, h1⟩ := step_inv s tr o hi (hf o (by simp))
    simp only [List.cons_append, runB, h0, Bool.false_eq_true, if_false]
    exact ih (fun o' h' => hf o' (by simp [h'])) _ _ h1

/-! ### C11_backend_balanced -/

/-- Every history of `Start()` / `Stop()` calls on a process that begins without runtime: the process
never dies in one of them; the hooks that ran so far are LIFO-nested and leave open exactly the
non-`kNone` / `kRunning` modules of the Apps tree of the runtime that exists now (nothing when there is
none) — in reverse pre-order; and for every module the hooks form a path of its lifecycle automaton
from `kNone` to its present `state_` (`kNone` when no runtime exists).  So after every `Start()` that
returned `false` — at whatever stage it failed — and after every `Stop()`, every successful `onInit`
has had its `onCleanup` and every successful `onStart` its `onStop` before that, exactly as
`C11_balanced` / `C11_reverse_closed` say for `Main()`. -/
theorem C11_backend_balanced (ops : List Op) (hf : ∀ o ∈ ops, o.fresh) :
    (runB true true none ops).2.2 = false ∧
    match (runB true true none ops).1 with
    | none => Closed (runB true true none ops).2.1
    | some r => r.joinable = true ∧
        stackRun ([], []) (runB true true none ops).2.1 = some (r.apps.rnn, r.apps.rrr) ∧
        ∀ n, hookRun n .none (runB true true none ops).2.1 = some (r.apps.stAt n .none) := by
  obtain ⟨h0, h1⟩ := run_inv ops hf none [] Closed.nil
  refine ⟨h0, ?_⟩
  simp only [List.nil_append] at h1
  cases h : (runB true true none ops).1 with
  | none => rw [h] at h1; exact h1
  | some r => rw [h] at h1; exact ⟨h1.1, h1.2.2.2.1, h1.2.2.2.2⟩

/-- … and one more `Stop()` (a no-op when nothing runs) always closes the history: every hook
matched, nothing left open, no runtime -/
theorem C11_backend_closed_after_stop (ops : List Op) (hf : ∀ o ∈ ops, o.fresh) :
    (runB true true none (ops ++ [.stop])).1 = none ∧ (runB true true none (ops ++ [.stop])).2.2 = false ∧
    Closed (runB true true none (ops ++ [.stop])).2.1 := by
  have hf' : ∀ o ∈ ops ++ [Op.stop], o.fresh := by
    intro o ho
    rcases List.mem_append.1 ho with h | h
    · exact hf o h
    · simp at h; subst h; trivial
  have hb := C11_backend_balanced (ops ++ [.stop]) hf'
  have hnone : (runB true true none (ops ++ [.stop])).1 = none := run_stop_none ops hf none [] Closed.nil
  refine ⟨hnone, hb.1, ?_⟩
  have := hb.2
  rw [hnone] at this
  exact this

/-! ### the cases named in the round goal, as equations -/

/-- `Start()` while a runtime exists ("process started"): `false`, no hook, nothing changes -/
theorem C11_backend_start_twice (fx rb : Bool) (r : Rt) (i : StartIn) :
    startB fx rb (some r) i = (some r, ⟨false, [], false⟩) := rfl

/-- `Stop()` without runtime ("process not start"): no hook, nothing changes -/
theorem C11_backend_stop_without_start : stopB none = (none, ⟨true, [], false⟩) := rfl

/-- a `Start()` that fails — at ANY stage — leaves no runtime behind, so the next `Start()` begins a
new, independent episode (the repaired file; `C11_backend_leak_counterexample` for the file as found) -/
theorem C11_backend_restart_after_failure (i : StartIn) (hf : i.fresh)
    (h : (startB true true none i).2.ret = false) : (startB true true none i).1 = none := by
  rcases (start_none i hf).2 with ⟨_, h2, _⟩ | ⟨h1, _, _⟩
  · exact h2
  · rw [h] at h1; cases h1

/-- `Start(); Stop()` runs exactly the hooks of `Main()` with the same tree and the same answers of the
context (a failing argument parser / pid file behaves like a failing `ContextImp::initialize()`:
no hook at all) — the backend runs the same lifecycle as the frontend -/
theorem C11_backend_same_as_main (i : StartIn) (hf : i.fresh) :
    (runB true true none [.start i, .stop]).2.1 =
      mainTrace true (i.argsOk && i.pidOk && i.ctxInit) i.ctxStart i.t := by
  obtain ⟨t, a, p, ci, cs⟩ := i
  obtain ⟨hn, _⟩ := hf
  simp only at hn
  simp only [runB, stepB]
  unfold startB mainTrace
  by_cases hap : (!a || !p) = true
  · have : (a && p && ci) = false := by
      cases a <;> cases p <;> simp at hap ⊢
    simp [hap, this, stopB]
  · have hap' : (!a || !p) = false := by simpa using hap
    have hapc : (a && p && ci) = ci := by
      cases a <;> cases p <;> simp at hap' ⊢
    simp only [hap', hapc, Bool.false_eq_true, if_false]
    cases ci
    · simp [stopB]
    · cases hi : (initM true t).2.1
      · simp [stopB]
      · cases cs
        · simp [stopB]
        · cases hs : (start true (initM true t).1).2.1 <;> simp [stopB, List.append_assoc]

/-! ### the file as found -/

/-- an Apps root with one child, everything succeeds -/
def okTree : Mod :=
  .node ⟨0, false, true, true, true, .none⟩ (.cons (.node ⟨1, true, true, true, true, .none⟩ .nil) true .nil)

example : (⟨okTree, false, true, true, true⟩ : StartIn).fresh := by
  refine ⟨by decide, by decide⟩

/-- run_in_backend.cpp before patches/C11-06: `Start()` with arguments that say "do not run" returns
`false` and keeps the runtime; the next `Start()` — with good arguments — is refused without a single
hook, and `Stop()` kills the process (`join()` of a thread that was never started) -/
theorem C11_backend_leak_counterexample :
    (startB false true none ⟨okTree, false, true, true, true⟩).1.isSome = true ∧
    (runB false true none [.start ⟨okTree, false, true, true, true⟩, .start ⟨okTree, true, true, true, true⟩]).2.1 = [] ∧
    (runB false true none [.start ⟨okTree, false, true, true, true⟩, .start ⟨okTree, true, true, true, true⟩, .stop]).2.2 = true := by
  simp [runB, stepB, startB, stopB]

/-- the repaired file on the same history: the second `Start()` runs, `Stop()` brings it down -/
theorem C11_backend_leak_repaired :
    (runB true true none [.start ⟨okTree, false, true, true, true⟩, .start ⟨okTree, true, true, true, true⟩, .stop]).2 =
      ([.init 0 true, .init 1 true, .start 0 true, .start 1 true, .stop 1, .stop 0, .cleanup 1, .cleanup 0], false) := by
  simp [runB, stepB, startB, stopB, okTree, initM, initKids, start, startKids, stop, stopKids, cleanup, cleanupKids,
    destroy, destroyKids, Mod.kids, Mod.info, setSt]

/-! ### a stop signal during `Main()` — theorems about run_in_frontend.cpp as it is -/

/-- a stop signal that arrives while no hook runs (the loop idles: that is where the handler is
installed) is the orderly stop: the hooks are those of `mainTrace`, balanced and LIFO-nested -/
theorem C11_main_signal_partial (ci cs : Bool) (t : Mod) (hf : t.allNone = true) (hid : t.ids.Nodup) (k : Nat)
    (hk : (mainTrace true ci cs t).length ≤ k) :
    mainSig true ci cs t k = (mainTrace true ci cs t, false) ∧ Closed (mainSig true ci cs t k).1 := by
  have h : mainSig true ci cs t k = (mainTrace true ci cs t, false) := by
    unfold mainSig; simp [hk]
  rw [h]
  exact ⟨rfl, (C11_main_balanced ci cs t hf hid).2.2, (C11_main_balanced ci cs t hf hid).1⟩

-- OPEN (outside the statement's quantifier; not repaired, see DESIGN): ∀ k, Closed (mainSig true ci cs t k).1
--   A stop signal arriving while a hook runs meets the default disposition: the process dies, which is not a
--   hook-balance violation of the statement (its histories are sequences of lifecycle calls on the root).

/-- a signal during start-up kills the process with the default disposition: `okTree`'s module 1 has been
initialised (signal inside the 3rd hook call, `onStart` of the root) and never gets `onCleanup` -/
theorem C11_main_signal_counterexample :
    mainSig true true true okTree 2 = ([.init 0 true, .init 1 true], true) ∧
    hookRun 1 .none (mainSig true true true okTree 2).1 = some .inited ∧
    (mainTrace true true true okTree).length = 8 := by
  simp [mainSig, mainTrace, okTree, initM, initKids, start, startKids, stop, stopKids, cleanup, cleanupKids,
    destroy, destroyKids, Mod.kids, Mod.info, setSt, hookRun, hookStep, Ev.id]

/-- whatever the signal does, what HAS run is a prefix of the undisturbed trace: the signal never makes a
hook run out of order, it only cuts the run short -/
theorem C11_main_signal_prefix (ci cs : Bool) (t : Mod) (k : Nat) :
    (mainSig true ci cs t k).1 <+: mainTrace true ci cs t := by
  unfold mainSig
  by_cases h : k ≥ (mainTrace true ci cs t).length
  · simp [h]
  · simpa [h] using List.take_prefix k (mainTrace true ci cs t)

end Tbox.C11.Backend
