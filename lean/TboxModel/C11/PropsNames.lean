/-
C11 — PROPERTY THEOREMS for names, `addAs()` and the configuration object (Names.lean).

Quantification: every store of modules (any number, any names, any parent links), every history of
`add` / `addAs` / `addAs(nullptr)` calls between any modules, every configuration value (any JSON built from
null / numbers / objects), every fuel.
-/
import TboxModel.C11.Names
namespace Tbox.C11.Names

/-! ### the store -/

theorem find_filter_ne (n m : Nat) (h : m ≠ n) : ∀ l : List (Nat × KNode),
    (l.filter (fun p => p.1 != n)).find? (fun p => p.1 == m) = l.find? (fun p => p.1 == m)
  | [] => rfl
  | a :: l => by
    have ih := find_filter_ne n m h l
    by_cases ha : a.1 = n
    · have hm : ¬ a.1 = m := fun e => h (e.symm.trans ha)
      have h1 : (a.1 != n) = false := by simp [ha]
      have h2 : (a.1 == m) = false := by simp [hm]
      rw [List.filter_cons, h1, List.find?_cons, h2]
      simpa using ih
    · have h1 : (a.1 != n) = true := by simp [ha]
      rw [List.filter_cons, h1]
      simp only [if_true, List.find?_cons]
      cases a.1 == m
      · simpa using ih
      · rfl

theorem KStore.get_set (σ : KStore) (n m : Nat) (v : KNode) :
    (σ.set n v).get m = if m = n then v else σ.get m := by
  unfold KStore.get KStore.set
  by_cases h : m = n
  · subst h; simp
  · have h' : (n == m) = false := by simpa using fun e => h e.symm
    simp only [List.find?_cons, h', h, if_false]
    rw [find_filter_ne n m h]

/-- two stores that answer every lookup alike (what the code can observe) -/
def KStore.same (σ τ : KStore) : Prop := ∀ m, σ.get m = τ.get m

/-! ### `add()` / `addAs()` -/

/-- `add()` that refuses changes nothing -/
theorem addK_refused (σ : KStore) (p c : Nat) (req : Bool) (h : (addK σ p c req).2 = false) :
    (addK σ p c req).1 = σ := by
  unfold addK at h ⊢
  split
  · rfl
  · split
    · rfl
    · split
      · rfl
      · split
        · rfl
        · rename_i h1 h2 h3 h4
          simp [h1, h2, h3, h4] at h

/-- **`addAs()` that refuses leaves every module as it was — the child's old name is restored**, whatever the reason
(state of the parent, child has a parent, cycle, duplicate of the NEW name among the parent's children). -/
theorem C11_addAs_refused_unchanged (σ : KStore) (p c nm : Nat) (req : Bool)
    (h : (addAsK σ p c nm req).2 = false) : ((addAsK σ p c nm req).1).same σ := by
  intro m
  unfold addAsK at h ⊢
  simp only at h ⊢
  by_cases hr : (addK (σ.set c { σ.get c with name := nm }) p c req).2 = true
  · simp [hr] at h
  · have hr' : (addK (σ.set c { σ.get c with name := nm }) p c req).2 = false := by simpa using hr
    simp only [hr', Bool.false_eq_true, if_false]
    rw [addK_refused _ _ _ _ hr']
    rw [KStore.get_set, KStore.get_set]
    by_cases hm : m = c
    · subst hm; simp
    · simp [hm, KStore.get_set]

/-- what an accepted `add()` does: the child is appended LAST to the parent's children with its flag, gets the parent
link, keeps its name; nobody else changes -/
theorem addK_accepted (σ : KStore) (p c : Nat) (req : Bool) (h : (addK σ p c req).2 = true) :
    (σ.get p).st = false ∧ (σ.get c).hasParent = false ∧ rootOf σ 1000 p ≠ c ∧
    dupName σ (σ.get p).kids (σ.get c).name = false ∧
    (addK σ p c req).1 =
      (σ.set p { σ.get p with kids := (σ.get p).kids ++ [(c, req)] }).set c
        { (σ.set p { σ.get p with kids := (σ.get p).kids ++ [(c, req)] }).get c with hasParent := true, parent := p } := by
  unfold addK at h ⊢
  split at h
  · simp at h
  · split at h
    · simp at h
    · split at h
      · simp at h
      · split at h
        · simp at h
        · rename_i h1 h2 h3 h4
          simp [h1, h2, h3, h4]

theorem rootOf_self (σ : KStore) (f n : Nat) (h : (σ.get n).hasParent = false) : rootOf σ f n = n := by
  cases f <;> simp [rootOf, h]

/-- an accepted `add()` never adds a module to itself -/
theorem addK_ne (σ : KStore) (p c : Nat) (req : Bool) (h : (addK σ p c req).2 = true) : p ≠ c := by
  obtain ⟨_, h2, h3, _⟩ := addK_accepted σ p c req h
  intro e; subst e
  exact h3 (rootOf_self σ 1000 p h2)

/-- the tree invariant of construction: every registered child has its parent link, and the children of one module have
pairwise different names -/
def KInv (σ : KStore) : Prop :=
  (∀ p k, k ∈ (σ.get p).kids → (σ.get k.1).hasParent = true) ∧
  (∀ p, ((σ.get p).kids.map fun k => (σ.get k.1).name).Nodup)

theorem map_name_congr (σ τ : KStore) (ks : List (Nat × Bool)) (h : ∀ k ∈ ks, (τ.get k.1).name = (σ.get k.1).name) :
    (ks.map fun k => (τ.get k.1).name) = ks.map fun k => (σ.get k.1).name :=
  List.map_congr_left h

theorem dupName_false (σ : KStore) (ks : List (Nat × Bool)) (nm : Nat) (h : dupName σ ks nm = false) :
    nm ∉ ks.map fun k => (σ.get k.1).name := by
  intro hm
  obtain ⟨k, hk, e⟩ := List.mem_map.1 hm
  have : dupName σ ks nm = true := by
    unfold dupName
    exact List.any_eq_true.2 ⟨k, hk, by simp [e]⟩
  simp [this] at h

theorem addK_inv (σ : KStore) (p c : Nat) (req : Bool) (hi : KInv σ) : KInv (addK σ p c req).1 := by
  by_cases h : (addK σ p c req).2 = true
  · have hne := addK_ne σ p c req h
    obtain ⟨_, h2, _, h4, e⟩ := addK_accepted σ p c req h
    rw [e]
    -- nobody's child list holds `c` (it has no parent link)
    have hc : ∀ q k, k ∈ (σ.get q).kids → k.1 ≠ c := by
      intro q k hk e'
      have := hi.1 q k hk
      rw [e', h2] at this; simp at this
    have hget : ∀ m, (((σ.set p { σ.get p with kids := (σ.get p).kids ++ [(c, req)] }).set c
        { (σ.set p { σ.get p with kids := (σ.get p).kids ++ [(c, req)] }).get c with hasParent := true, parent := p }).get m)
        = if m = c then { σ.get c with hasParent := true, parent := p }
          else if m = p then { σ.get p with kids := (σ.get p).kids ++ [(c, req)] } else σ.get m := by
      intro m
      rw [KStore.get_set, KStore.get_set]
      by_cases hm : m = c
      · subst hm
        have : ¬ m = p := fun e => hne e.symm
        simp [this]
      · simp [hm, KStore.get_set]
    have hname : ∀ m, (((σ.set p { σ.get p with kids := (σ.get p).kids ++ [(c, req)] }).set c
        { (σ.set p { σ.get p with kids := (σ.get p).kids ++ [(c, req)] }).get c with hasParent := true, parent := p }).get m).name
        = (σ.get m).name := by
      intro m; rw [hget]
      by_cases hm : m = c
      · subst hm; simp
      · by_cases hp : m = p
        · subst hp; simp [hm]
        · simp [hm, hp]
    constructor
    · intro q k hk
      rw [hget] at hk ⊢
      by_cases hq : q = c
      · subst hq
        simp only [if_true] at hk
        by_cases hkc : k.1 = q
        · simp [hkc]
        · simp only [hkc, if_false]
          have := hi.1 q k hk
          by_cases hkp : k.1 = p <;> simp [hkp, this]
          · rw [← hkp]; exact this
      · simp only [hq, if_false] at hk
        by_cases hp : q = p
        · subst hp
          simp only [if_true] at hk
          rcases List.mem_append.1 hk with hk | hk
          · have hkc := hc q k hk
            have := hi.1 q k hk
            simp only [hkc, if_false]
            by_cases hkp : k.1 = q <;> simp [hkp, this]
            · rw [← hkp]; exact this
          · simp at hk; subst hk; simp
        · simp only [hp, if_false] at hk
          have hkc := hc q k hk
          have := hi.1 q k hk
          simp only [hkc, if_false]
          by_cases hkp : k.1 = p <;> simp [hkp, this]
          · rw [← hkp]; exact this
    · intro q
      rw [map_name_congr σ _ _ (fun k _ => hname k.1)]
      rw [hget]
      by_cases hq : q = c
      · subst hq; simpa using hi.2 q
      · by_cases hp : q = p
        · subst hp
          simp only [hq, if_false, if_true, List.map_append, List.map_cons, List.map_nil]
          refine List.nodup_append.2 ⟨hi.2 q, by simp, ?_⟩
          intro a ha b hb
          simp at hb; subst hb
          intro e; subst e
          exact dupName_false σ _ _ h4 ha
        · simpa [hq, hp] using hi.2 q
  · have h' : (addK σ p c req).2 = false := by simpa using h
    rw [addK_refused σ p c req h']; exact hi

theorem KInv_same (σ τ : KStore) (h : τ.same σ) (hi : KInv σ) : KInv τ := by
  constructor
  · intro p k hk
    rw [h p] at hk; rw [h k.1]; exact hi.1 p k hk
  · intro p
    rw [h p, map_name_congr σ τ _ (fun k _ => by rw [h k.1])]; exact hi.2 p

/-- renaming a module that is nobody's child keeps the invariant -/
theorem rename_inv (σ : KStore) (c nm : Nat) (hc : (σ.get c).hasParent = false) (hi : KInv σ) :
    KInv (σ.set c { σ.get c with name := nm }) := by
  have hk : ∀ q k, k ∈ (σ.get q).kids → k.1 ≠ c := by
    intro q k hk e'
    have := hi.1 q k hk
    rw [e', hc] at this; simp at this
  have hkids : ∀ q, ((σ.set c { σ.get c with name := nm }).get q).kids = (σ.get q).kids := by
    intro q; rw [KStore.get_set]; by_cases hq : q = c
    · subst hq; simp
    · simp [hq]
  constructor
  · intro q k hkq
    rw [hkids] at hkq
    rw [KStore.get_set]; simp [hk q k hkq, hi.1 q k hkq]
  · intro q
    rw [hkids, map_name_congr σ _ _ (fun k hkq => by rw [KStore.get_set]; simp [hk q k hkq])]
    exact hi.2 q

theorem addAsK_inv (σ : KStore) (p c nm : Nat) (req : Bool) (hi : KInv σ) : KInv (addAsK σ p c nm req).1 := by
  by_cases h : (addAsK σ p c nm req).2 = true
  · have h0 := h
    unfold addAsK at h ⊢
    simp only at h ⊢
    by_cases hr : (addK (σ.set c { σ.get c with name := nm }) p c req).2 = true
    · simp only [hr, if_true]
      obtain ⟨_, h2, _⟩ := addK_accepted _ p c req hr
      rw [KStore.get_set] at h2
      simp only [if_true] at h2
      exact addK_inv _ p c req (rename_inv σ c nm h2 hi)
    · simp [hr] at h
  · have h' : (addAsK σ p c nm req).2 = false := by simpa using h
    exact KInv_same σ _ (C11_addAs_refused_unchanged σ p c nm req h') hi

/-- a construction call between any two modules -/
inductive COp where
  | add (p c : Nat) (req : Bool)
  | addAs (p c nm : Nat) (req : Bool)
  | addAsNull (p nm : Nat) (req : Bool)
  deriving DecidableEq, Repr

def build : KStore → List COp → KStore
  | σ, [] => σ
  | σ, .add p c req :: r => build (addK σ p c req).1 r
  | σ, .addAs p c nm req :: r => build (addAsK σ p c nm req).1 r
  | σ, .addAsNull _ _ _ :: r => build (((addAsNull true σ).map (·.1)).getD σ) r

/-- **Siblings never share a name**: in every forest built by any history of `add` / `addAs` / `addAs(nullptr)` calls
(accepted or refused, between any modules, with any new names — also names the modules carried before), every registered
child has its parent link and the children of one module have pairwise different names: each child of a module has its own
key in that module's configuration object. -/
theorem C11_siblings_distinct_names (σ : KStore) (ops : List COp) (hi : KInv σ) : KInv (build σ ops) := by
  induction ops generalizing σ with
  | nil => exact hi
  | cons o r ih =>
    cases o with
    | add p c req => exact ih _ (addK_inv σ p c req hi)
    | addAs p c nm req => exact ih _ (addAsK_inv σ p c nm req hi)
    | addAsNull p nm req => exact ih _ hi

/-- free-standing modules (no child lists) satisfy the invariant whatever their names -/
theorem KInv_fresh (σ : KStore) (h : ∀ n, (σ.get n).kids = []) : KInv σ :=
  ⟨fun p k hk => by rw [h p] at hk; simp at hk, fun p => by rw [h p]; simp⟩

/-- `addAs(nullptr, …)` with patches/C11-09: refused, nothing changes -/
theorem C11_addAs_null (σ : KStore) : addAsNull true σ = some (σ, false) := rfl

/-- as found: `child->name_` is read through the null pointer before `add()` can refuse it — no defined result -/
theorem C11_addAs_null_counterexample : addAsNull false ({} : KStore) = none := rfl

/-- what an accepted `addAs()` does: the child carries the NEW name, is the parent's last child, has its parent link -/
theorem C11_addAs_accepted (σ : KStore) (p c nm : Nat) (req : Bool) (h : (addAsK σ p c nm req).2 = true) :
    (((addAsK σ p c nm req).1).get c).name = nm ∧ (((addAsK σ p c nm req).1).get c).hasParent = true ∧
    (((addAsK σ p c nm req).1).get c).parent = p ∧
    (((addAsK σ p c nm req).1).get p).kids = (σ.get p).kids ++ [(c, req)] := by
  unfold addAsK at h ⊢
  simp only at h ⊢
  by_cases hr : (addK (σ.set c { σ.get c with name := nm }) p c req).2 = true
  · simp only [hr, if_true]
    have hne := addK_ne _ p c req hr
    obtain ⟨_, _, _, _, e⟩ := addK_accepted _ p c req hr
    rw [e]
    have hpc : ¬ p = c := hne
    have hcp : ¬ c = p := fun e => hne e.symm
    simp [KStore.get_set, hpc, hcp]
  · simp [hr] at h

/-! ### the configuration object -/

theorem put_contains (j j' v : J) (k : Nat) (h : j.put k v = some j') : j'.contains k = true := by
  cases j with
  | null => simp [J.put] at h; subst h; simp [J.contains]
  | num n => simp [J.put] at h
  | obj fs =>
    simp only [J.put, Option.some.injEq] at h; subst h
    by_cases hk : fs.any (fun p => p.1 == k) = true
    · simp only [hk, if_true, J.contains]
      obtain ⟨a, ha, e⟩ := List.any_eq_true.1 hk
      exact List.any_eq_true.2 ⟨(k, v), List.mem_map.2 ⟨a, ha, by simp [e]⟩, by simp⟩
    · simp only [hk, J.contains]
      simp

/-- **`fillDefaultConfig()` creates the module's own key**: whatever the object held before (also a key of that name written by
somebody else), whatever the hooks of the module and of its subtree write — if `fillDefaultConfig` returns (no `type_error`),
the parent object contains the key of a named module. -/
theorem C11_fill_creates_own_key (f : Nat) (σ : KStore) (n : Nat) (jp j' : J) (hn : (σ.get n).name ≠ 0)
    (h : fill f σ n jp = some j') : j'.contains (σ.get n).name = true := by
  cases f with
  | zero => simp [fill] at h
  | succ f =>
    have hn' : ((σ.get n).name == 0) = false := by simpa using hn
    simp only [fill, hn', Bool.false_eq_true, if_false] at h
    cases h1 : jp.ref (σ.get n).name with
    | none => simp [h1] at h
    | some jt =>
      simp only [h1, Option.bind_some] at h
      cases h2 : hookFill (σ.get n) n jt with
      | none => simp [h2] at h
      | some jt1 =>
        simp only [h2, Option.bind_some] at h
        cases h3 : fillKids f σ (σ.get n).kids jt1 with
        | none => simp [h3] at h
        | some jt2 =>
          simp only [h3, Option.bind_some] at h
          exact put_contains _ _ _ _ h

/-- **a named module whose key is missing is gated**: no hook runs, nothing changes, `initialize()` returns false — for a
missing key, for a parent value that is a number or null (a changed configuration after `cleanup()`), at any depth -/
theorem C11_init_missing_key_gated (f : Nat) (σ : KStore) (n : Nat) (jp : J) (hs : (σ.get n).st = false)
    (hn : (σ.get n).name ≠ 0) (hc : jp.contains (σ.get n).name = false) : kInit (f + 1) σ n jp = (σ, false, []) := by
  have hn' : ((σ.get n).name != 0) = true := by simpa using hn
  simp [kInit, hs, hn', hc]

/-- **which object `onInit` receives**: when `initialize()` is not gated, the first hook that runs is the module's own `onInit`,
on `js_parent[name_]` (its marker is that object's marker) resp. on `js_parent` itself for an unnamed module — never on anything
else, whoever wrote that object -/
theorem C11_init_receives_own_subobject (f : Nat) (σ : KStore) (n : Nat) (jp : J) (hs : (σ.get n).st = false)
    (hc : (σ.get n).name = 0 ∨ jp.contains (σ.get n).name = true) :
    (kInit (f + 1) σ n jp).2.2.head? =
      some (KEv.init n (if (σ.get n).name = 0 then jp else jp.get (σ.get n).name).marker) := by
  have hg : ((σ.get n).name != 0 && !jp.contains (σ.get n).name) = false := by
    rcases hc with h | h <;> simp [h]
  simp only [kInit, hs, hg, Bool.false_eq_true, if_false]
  by_cases h0 : (σ.get n).name = 0
  · simp only [h0, beq_self_eq_true, if_true]
    split <;> simp
  · have : ((σ.get n).name == 0) = false := by simpa using h0
    simp only [this, h0, Bool.false_eq_true, if_false]
    split <;> simp

/-- after `fillDefaultConfig()` has returned, `initialize()` of that root on that object is not gated: its `onInit` runs -/
theorem C11_fill_then_init_root_runs (f g : Nat) (σ : KStore) (n : Nat) (jp j' : J) (hs : (σ.get n).st = false)
    (h : fill f σ n jp = some j') : (kInit (g + 1) σ n j').2.2 ≠ [] := by
  have hc : (σ.get n).name = 0 ∨ j'.contains (σ.get n).name = true := by
    by_cases h0 : (σ.get n).name = 0
    · exact Or.inl h0
    · exact Or.inr (C11_fill_creates_own_key f σ n jp j' h0 h)
  have := C11_init_receives_own_subobject g σ n j' hs hc
  intro e; rw [e] at this; simp at this

/-! concrete trees (the corpus files `11-…`, and K_FIXED of the generator replay them on the real code) -/

def mk (l : List (Nat × Nat)) : KStore := l.foldl (fun σ p => σ.set p.1 { alive := true, name := p.2 }) {}

/-- root `0` (unnamed) with an unnamed child `1` holding `2` named `a`, and a second child `3` named `a` too: accepted (the
two `a` are not siblings) -/
def shared : KStore := build (mk [(0, 0), (1, 0), (2, 2), (3, 2)]) [.add 0 1 true, .add 1 2 true, .add 0 3 true]

/-- **equal names that are not siblings can still share ONE configuration object**: an unnamed module hands its parent's object
through, so its child `a` and its sibling `a` both get `js["a"]` — `fillDefaultConfig` lets the later one overwrite the earlier
one's defaults (marker 3), and both `onInit` hooks receive that same object.  As the code is; `add()` checks siblings only. -/
theorem C11_equal_names_share_object_counterexample :
    (fill 10 shared 0 .null).map (fun j => (kInit 10 shared 0 j).2) =
      some (true, [KEv.init 0 none, KEv.init 1 none, KEv.init 2 (some 3), KEv.init 3 (some 3)]) := by decide

/-- with different names every module sees its own marker -/
theorem C11_distinct_names_own_object_example :
    let σ := build (mk [(0, 0), (1, 0), (2, 2), (3, 3)]) [.add 0 1 true, .add 1 2 true, .add 0 3 true]
    (fill 10 σ 0 .null).map (fun j => (kInit 10 σ 0 j).2) =
      some (true, [KEv.init 0 none, KEv.init 1 none, KEv.init 2 (some 2), KEv.init 3 (some 3)]) := by decide

/-- **a child named like a key its parent's hook writes**: the parent (named `a`) writes `"#"`, the child is called `#`:
`js_parent["#"]` is a number and `fillDefaultConfig` throws nlohmann's `type_error` — as the code is (user error) -/
theorem C11_reserved_key_fill_throws_counterexample :
    fill 10 (build (mk [(0, 2), (1, 1)]) [.add 0 1 true]) 0 .null = none := by decide

/-- OPEN (false as stated, see the counterexample): "after `fillDefaultConfig()` has returned, `initialize()` on that object
initialises the whole tree".  A later unnamed sibling whose hook writes the key `a` replaces the object of the earlier child `a`
by a number; `a` then receives a number, its required child is gated and the whole tree is rolled back. -/
theorem C11_fill_then_init_counterexample :
    let σ0 := mk [(0, 0), (1, 2), (2, 3), (3, 0)]
    let σ := build (σ0.set 3 { σ0.get 3 with writes := [2] }) [.add 0 1 true, .add 1 2 true, .add 0 3 true]
    (fill 10 σ 0 .null).map (fun j => (kInit 10 σ 0 j).2) =
      some (false, [KEv.init 0 none, KEv.init 1 none, KEv.cleanup 1, KEv.cleanup 0]) := by decide

/-- **re-`initialize()` after `cleanup()` with changed content**: `a{b, c(optional){b}}`; first the filled object (all four run),
then `cleanup()`, then the same object without `a/c/b`: `c`'s required child is gated, `c` is rolled back and — being
optional — skipped; the run is balanced and `a`, `b` are initialised again. -/
theorem C11_reinit_changed_config_example :
    let σ := build (mk [(0, 2), (1, 3), (2, 4), (3, 3)]) [.add 0 1 true, .add 0 2 false, .add 2 3 true]
    (fill 10 σ 0 .null).map (fun j =>
      let r1 := kInit 10 σ 0 j
      let c := kCleanup 10 r1.1 0
      let r2 := kInit 10 c.1 0 (delPath j [2, 4, 3])
      (r1.2, c.2, r2.2)) =
      some ((true, [KEv.init 0 (some 0), KEv.init 1 (some 1), KEv.init 2 (some 2), KEv.init 3 (some 3)]),
            [KEv.cleanup 3, KEv.cleanup 2, KEv.cleanup 1, KEv.cleanup 0],
            (true, [KEv.init 0 (some 0), KEv.init 1 (some 1), KEv.init 2 (some 2), KEv.cleanup 2])) := by decide

/-- non-vacuity of `C11_addAs_refused_unchanged` / `C11_addAs_accepted`: renaming to a sibling's name is refused, to a free name accepted -/
example : (addAsK (build (mk [(0, 2), (1, 3), (2, 4)]) [.add 0 1 true]) 0 2 3 true).2 = false := by decide
example : (addAsK (build (mk [(0, 2), (1, 3), (2, 3)]) [.add 0 1 true]) 0 2 4 true).2 = true := by decide
example : KInv (mk [(0, 2), (1, 2)]) := KInv_fresh _ (by intro n; unfold mk; simp [KStore.get_set]; split <;> (try split) <;> rfl)

end Tbox.C11.Names
