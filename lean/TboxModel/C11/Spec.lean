/-
C11 — what the property demands of a hook trace (specification side), and the tree
observations the theorems relate it to.
-/
import TboxModel.C11.Model
namespace Tbox.C11

/-! ### the hook discipline of ONE module (what the property demands of a trace)

`none --init ok--> inited --start ok--> running --stop--> inited --cleanup--> none`,
a failing `onInit` only in `none`, a failing `onStart` only in `inited`; nothing else. -/

def hookStep (n : Nat) (s : St) (e : Ev) : Option St :=
  if e.id ≠ n then some s else
  match e, s with
  | .init _ ok, .none => some (if ok then .inited else .none)
  | .start _ ok, .inited => some (if ok then .running else .inited)
  | .stop _, .running => some .inited
  | .cleanup _, .inited => some .none
  | _, _ => none

/-- run module `n`'s discipline over a trace; `none` = the trace breaks it -/
def hookRun (n : Nat) (s : St) : List Ev → Option St
  | [] => some s
  | e :: es => (hookStep n s e).bind fun s' => hookRun n s' es

/-! ### the LIFO discipline of the whole tree (stacks, top = head) -/

/-- `init n true` pushes `n` on the first stack, `cleanup n` must pop exactly `n` from it;
`start n true` / `stop n` likewise on the second stack. `none` = not nested. -/
def stackStep (s : List Nat × List Nat) : Ev → Option (List Nat × List Nat)
  | .init n ok => some (if ok then (n :: s.1, s.2) else s)
  | .start n ok => some (if ok then (s.1, n :: s.2) else s)
  | .stop n => match s.2 with
      | m :: r => if m = n then some (s.1, r) else none
      | [] => none
  | .cleanup n => match s.1 with
      | m :: r => if m = n then some (r, s.2) else none
      | [] => none

def stackRun (s : List Nat × List Nat) : List Ev → Option (List Nat × List Nat)
  | [] => some s
  | e :: es => (stackStep s e).bind fun s' => stackRun s' es

/-! ### observations used to state the theorems -/

mutual
/-- `state_` of module `n` in the tree, `d` if there is no such module -/
def Mod.stAt (n : Nat) (d : St) : Mod → St
  | .node i ks => if i.id = n then i.st else ks.stAt n d
def Kids.stAt (n : Nat) (d : St) : Kids → St
  | .nil => d
  | .cons m _ rest => m.stAt n (rest.stAt n d)
end

mutual
/-- ids of the modules that are not `kNone`, in REVERSE pre-order (last registered first) -/
def Mod.rnn : Mod → List Nat
  | .node i ks => ks.rnn ++ (if i.st = .none then [] else [i.id])
def Kids.rnn : Kids → List Nat
  | .nil => []
  | .cons m _ rest => rest.rnn ++ m.rnn
end

mutual
/-- ids of the `kRunning` modules in reverse pre-order -/
def Mod.rrr : Mod → List Nat
  | .node i ks => ks.rrr ++ (if i.st = .running then [i.id] else [])
def Kids.rrr : Kids → List Nat
  | .nil => []
  | .cons m _ rest => rest.rrr ++ m.rrr
end

mutual
/-- states a tree can be in when it is only driven through its root: below a `kNone` module
everything is `kNone`, below a `kInited` module nothing is `kRunning` -/
def Mod.wf : Mod → Bool
  | .node i ks => ks.wf && (i.st != .none || ks.allNone) && (i.st != .inited || ks.noRun)
def Kids.wf : Kids → Bool
  | .nil => true
  | .cons m _ rest => m.wf && rest.wf
end

def Mod.st (m : Mod) : St := m.info.st

/-- the modules whose `onInit` (resp. `onStart`) ran, successful or not, in trace order -/
def initIds (tr : List Ev) : List Nat := tr.filterMap fun | .init n _ => some n | _ => none
def startIds (tr : List Ev) : List Nat := tr.filterMap fun | .start n _ => some n | _ => none

/-- projection of a trace onto the modules selected by `p` -/
def proj (p : Nat → Bool) (tr : List Ev) : List Ev := tr.filter fun e => p e.id

/-- return values of the root calls of a sequence, in order -/
def rets (rb : Bool) (t : Mod) : List Call → List Bool
  | [] => []
  | c :: cs => (call rb t c).2.1 :: rets rb (call rb t c).1 cs

mutual
/-- `t.simP p t'`: the two trees are equal except that an OPTIONAL child subtree may have been
replaced by any other subtree (different shape, flags, states), provided `p` selects no module of
the replaced or the replacing subtree (`p` = "the other modules") -/
def Mod.simP (p : Nat → Bool) : Mod → Mod → Prop
  | .node i ks, .node i' ks' => i = i' ∧ ks.simP p ks'
def Kids.simP (p : Nat → Bool) : Kids → Kids → Prop
  | .nil, .nil => True
  | .nil, .cons _ _ _ => False
  | .cons _ _ _, .nil => False
  | .cons m r rest, .cons m' r' rest' =>
      r = r' ∧ (m.simP p m' ∨ (r = false ∧ (∀ x ∈ m.ids, p x = false) ∧ (∀ x ∈ m'.ids, p x = false))) ∧
      rest.simP p rest'
end

/-- number of `init n true` / `cleanup n` / `start n true` / `stop n` hooks in a trace -/
def cnt (e : Ev) (tr : List Ev) : Nat := tr.count e

end Tbox.C11
