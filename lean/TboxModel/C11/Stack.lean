/-
C11 — helper lemmas, part C: over `wf` trees the hook trace of every lifecycle function is
LIFO-nested: it takes the pair of stacks (reverse pre-order of the non-`kNone` modules,
reverse pre-order of the `kRunning` modules) of the old tree to that of the new tree.
-/
import TboxModel.C11.Wf
import TboxModel.C11.Track
namespace Tbox.C11

theorem stackRun_append (s : List Nat × List Nat) (a b : List Ev) :
    stackRun s (a ++ b) = (stackRun s a).bind fun s' => stackRun s' b := by
  induction a generalizing s with
  | nil => simp [stackRun]
  | cons e es ih =>
    simp only [List.cons_append, stackRun]
    cases stackStep s e with
    | none => simp
    | some s' => simp [ih]

mutual
theorem allNone_rnn : ∀ m : Mod, m.allNone = true → m.rnn = []
  | .node i ks => by
    intro h; rw [allNone_node] at h
    simp [Mod.rnn, h.1, allNoneK_rnn ks h.2]
theorem allNoneK_rnn : ∀ ks : Kids, ks.allNone = true → ks.rnn = []
  | .nil => by intro _; rfl
  | .cons m _ rest => by
    intro h; rw [allNone_cons] at h
    simp [Kids.rnn, allNone_rnn m h.1, allNoneK_rnn rest h.2]
end

mutual
theorem noRun_rrr : ∀ m : Mod, m.noRun = true → m.rrr = []
  | .node i ks => by
    intro h; rw [noRun_node] at h
    simp [Mod.rrr, h.1, noRunK_rrr ks h.2]
theorem noRunK_rrr : ∀ ks : Kids, ks.noRun = true → ks.rrr = []
  | .nil => by intro _; rfl
  | .cons m _ rest => by
    intro h; rw [noRun_cons] at h
    simp [Kids.rrr, noRun_rrr m h.1, noRunK_rrr rest h.2]
end

theorem allNone_rrr (m : Mod) (h : m.allNone = true) : m.rrr = [] := noRun_rrr m (allNone_wf_noRun m h).2
theorem allNoneK_rrr (ks : Kids) (h : ks.allNone = true) : ks.rrr = [] := noRunK_rrr ks (allNoneK_wf_noRun ks h).2

/-! ### `stop` / `start` / `setFlags` never change which modules are `kNone` -/
mutual
theorem rnn_stop (own : Bool) : ∀ m : Mod, (stop own m).1.rnn = m.rnn
  | .node i ks => by
    unfold stop
    split
    · rfl
    · rename_i h
      have h : i.st = .running := by simpa using h
      simp [Mod.rnn, setSt, h, rnn_stopKids ks]
theorem rnn_stopKids : ∀ ks : Kids, (stopKids ks).1.rnn = ks.rnn
  | .nil => rfl
  | .cons m _ rest => by simp [stopKids, Kids.rnn, rnn_stop true m, rnn_stopKids rest]
end

mutual
theorem rnn_start : ∀ m : Mod, (start true m).1.rnn = m.rnn
  | .node i ks => by
    unfold start
    split
    · rfl
    rename_i h
    have h : i.st = .inited := by simpa using h
    split
    · rfl
    dsimp only
    split
    · simp [Mod.rnn, setSt, h, rnn_startKids ks]
    · simp [Mod.rnn, rnn_startKids ks]
theorem rnn_startKids : ∀ ks : Kids, (startKids true ks).1.rnn = ks.rnn
  | .nil => rfl
  | .cons m _ rest => by
    unfold startKids
    dsimp only
    split
    · simp [Kids.rnn, rnn_start m]
    split
    · simp [Kids.rnn, rnn_start m, rnn_startKids rest]
    · simp [Kids.rnn, rnn_stop, rnn_start m, rnn_startKids rest]
end

mutual
theorem setFlags_stacks (n : Nat) (c i s : Bool) : ∀ m : Mod,
    (m.setFlags n c i s).rnn = m.rnn ∧ (m.setFlags n c i s).rrr = m.rrr
  | .node inf ks => by
    have hk := setFlagsK_stacks n c i s ks
    simp only [Mod.setFlags, Mod.rnn, Mod.rrr, hk.1, hk.2]
    split <;> simp
theorem setFlagsK_stacks (n : Nat) (c i s : Bool) : ∀ ks : Kids,
    (ks.setFlags n c i s).rnn = ks.rnn ∧ (ks.setFlags n c i s).rrr = ks.rrr
  | .nil => by simp [Kids.setFlags]
  | .cons m r rest => by
    have h1 := setFlags_stacks n c i s m
    have h2 := setFlagsK_stacks n c i s rest
    simp [Kids.setFlags, Kids.rnn, Kids.rrr, h1.1, h1.2, h2.1, h2.2]
end

/-! ### stop -/
mutual
theorem stop_stack : ∀ m : Mod, m.wf = true → ∀ X R,
    stackRun (X, m.rrr ++ R) (stop true m).2 = some (X, R)
  | .node i ks => by
    intro h X R
    have h' := (wf_node i ks).1 h
    by_cases hrun : i.st = .running
    · rw [stop_node_running true i ks hrun]
      simp only [Mod.rrr, hrun, if_true, List.append_assoc]
      rw [stackRun_append, stopKids_stack ks h'.1 X ([i.id] ++ R)]
      simp [stackRun, stackStep]
    · rw [stop_node_idle true i ks hrun]
      have := (stop_wf true (.node i ks) h).2
      rw [stop_node_idle true i ks hrun] at this
      simp [noRun_rrr _ this, stackRun]
theorem stopKids_stack : ∀ ks : Kids, ks.wf = true → ∀ X R,
    stackRun (X, ks.rrr ++ R) (stopKids ks).2 = some (X, R)
  | .nil => by intro _ X R; simp [stopKids, Kids.rrr, stackRun]
  | .cons m r rest => by
    intro h X R
    rw [wf_cons] at h
    simp only [stopKids, Kids.rrr, List.append_assoc]
    rw [stackRun_append, stopKids_stack rest h.2 X (m.rrr ++ R)]
    simpa using stop_stack m h.1 X R
end

/-! ### cleanup -/
mutual
theorem cleanup_stack (m : Mod) (h : m.wf = true) (I R : List Nat) :
    stackRun (m.rnn ++ I, m.rrr ++ R) (cleanup true m).2 = some (I, R) := by
  cases m with
  | node i ks =>
    have h' := (wf_node i ks).1 h
    rw [cleanup]
    split
    · rename_i hn
      have ha := wf_none_allNone _ h hn
      simp [allNone_rnn _ ha, allNone_rrr _ ha, stackRun]
    · rename_i hn
      have hst := stop_stack (.node i ks) h ((Mod.node i ks).rnn ++ I) R
      dsimp only
      rw [List.append_assoc, stackRun_append, hst]
      by_cases hrun : i.st = .running
      · rw [stop_node_running true i ks hrun]
        have hk := stopKids_wf ks h'.1
        simp only [Mod.kids, Mod.rnn, hn, if_false, Option.bind_some, if_true, List.append_assoc]
        rw [stackRun_append]
        have := cleanupKids_stack (stopKids ks).1 hk.1 ([i.id] ++ I) R
        rw [noRunK_rrr _ hk.2, rnn_stopKids] at this
        simp only [List.nil_append] at this
        rw [this]
        simp [stackRun, stackStep]
      · rw [stop_node_idle true i ks hrun]
        have hin : i.st = .inited := by cases hh : i.st <;> simp_all
        simp only [Mod.kids, Mod.rnn, hn, if_false, Option.bind_some, if_true, List.append_assoc]
        rw [stackRun_append]
        have := cleanupKids_stack ks h'.1 ([i.id] ++ I) R
        rw [noRunK_rrr _ (h'.2.2 hin)] at this
        simp only [List.nil_append] at this
        rw [this]
        simp [stackRun, stackStep]
termination_by m.size
decreasing_by
  all_goals (subst_vars; have := stopKids_size ks; simp only [Mod.size]; omega)
theorem cleanupKids_stack (ks : Kids) (h : ks.wf = true) (I R : List Nat) :
    stackRun (ks.rnn ++ I, ks.rrr ++ R) (cleanupKids ks).2 = some (I, R) := by
  cases ks with
  | nil => rw [cleanupKids]; simp [Kids.rnn, Kids.rrr, stackRun]
  | cons m r rest =>
    rw [wf_cons] at h
    rw [cleanupKids]
    simp only [Kids.rnn, Kids.rrr, List.append_assoc]
    rw [stackRun_append, cleanupKids_stack rest h.2 (m.rnn ++ I) (m.rrr ++ R)]
    simpa using cleanup_stack m h.1 I R
termination_by ks.size
decreasing_by
  all_goals (subst_vars; simp only [Kids.size]; omega)
end

/-! ### initialize -/
mutual
theorem init_stack : ∀ m : Mod, m.allNone = true → ∀ I R,
    stackRun (I, R) (initM true m).2.2 = some ((initM true m).1.rnn ++ I, R)
  | .node i ks => by
    intro h I R
    have h' := (allNone_node i ks).1 h
    have hk := initKids_fresh ks h'.2
    have hks := initKids_stack ks h'.2 (i.id :: I) R
    unfold initM
    split
    · simp [allNone_rnn _ h, stackRun]
    split
    · simp [allNone_rnn _ h, stackRun]
    split
    · simp [allNone_rnn _ h, stackRun, stackStep]
    dsimp only
    split
    · simp [stackRun, stackStep, hks, Mod.rnn, setSt]
    · rename_i hok
      have hall := hk.2.2 (by simpa using hok)
      simp only [if_true, stackRun, stackStep, Option.bind_some, stackRun_append, hks, Mod.rnn, h'.1,
        allNoneK_rnn _ hall, List.nil_append]
theorem initKids_stack : ∀ ks : Kids, ks.allNone = true → ∀ I R,
    stackRun (I, R) (initKids true ks).2.2 = some ((initKids true ks).1.rnn ++ I, R)
  | .nil => by intro _ I R; simp [initKids, Kids.rnn, stackRun]
  | .cons m r rest => by
    intro h I R
    rw [allNone_cons] at h
    have h1 := init_fresh m h.1
    have h2 := initKids_fresh rest h.2
    have s1 := init_stack m h.1 I R
    have s2 := initKids_stack rest h.2 ((initM true m).1.rnn ++ I) R
    unfold initKids
    dsimp only
    split
    · simp [Kids.rnn, allNoneK_rnn _ h.2, s1]
    split
    · simp [Kids.rnn, stackRun_append, s1, s2]
    · rename_i hok
      have hall := h2.2.2 (by simpa using hok)
      have hc := cleanup_allNone true _ h1.1
      have sc := cleanup_stack (initM true m).1 h1.1 I R
      rw [noRun_rrr _ h1.2.1] at sc
      simp only [if_true, stackRun_append, s1, s2, Option.bind_some, allNoneK_rnn _ hall, List.nil_append,
        Kids.rnn, allNone_rnn _ hc]
      simpa using sc
end

/-! ### start -/
mutual
theorem start_stack : ∀ m : Mod, m.wf = true → m.noRun = true → ∀ X R,
    stackRun (X, R) (start true m).2.2 = some (X, (start true m).1.rrr ++ R)
  | .node i ks => by
    intro h hn X R
    have h' := (wf_node i ks).1 h
    have hn' := (noRun_node i ks).1 hn
    have hkw := startKids_wf ks h'.1
    have hks := startKids_stack ks h'.1 hn'.2 X (i.id :: R)
    unfold start
    split
    · simp [noRun_rrr _ hn, stackRun]
    rename_i hin
    have hin : i.st = .inited := by simpa using hin
    split
    · simp [noRun_rrr _ hn, stackRun, stackStep]
    dsimp only
    split
    · simp [stackRun, stackStep, hks, Mod.rrr, setSt]
    · rename_i hok
      have hnr := hkw.2 hn'.2 (by simpa using hok)
      simp only [if_true, stackRun, stackStep, Option.bind_some, stackRun_append, hks, Mod.rrr, hin,
        noRunK_rrr _ hnr, List.nil_append]
      simp
theorem startKids_stack : ∀ ks : Kids, ks.wf = true → ks.noRun = true → ∀ X R,
    stackRun (X, R) (startKids true ks).2.2 = some (X, (startKids true ks).1.rrr ++ R)
  | .nil => by intro _ _ X R; simp [startKids, Kids.rrr, stackRun]
  | .cons m r rest => by
    intro h hn X R
    rw [wf_cons] at h
    rw [noRun_cons] at hn
    have h1 := start_wf m h.1
    have h2 := startKids_wf rest h.2
    have s1 := start_stack m h.1 hn.1 X R
    have s2 := startKids_stack rest h.2 hn.2 X ((start true m).1.rrr ++ R)
    unfold startKids
    dsimp only
    split
    · simp [Kids.rrr, noRunK_rrr _ hn.2, s1]
    split
    · simp [Kids.rrr, stackRun_append, s1, s2]
    · rename_i hok
      have hnr := h2.2 hn.2 (by simpa using hok)
      have hc := stop_wf true _ h1.1
      have sc := stop_stack (start true m).1 h1.1 X R
      simp only [if_true, stackRun_append, s1, s2, Option.bind_some, noRunK_rrr _ hnr, List.nil_append,
        Kids.rrr, noRun_rrr _ hc.2]
      simpa using sc
end

/-! ### root calls and call sequences -/

theorem call_stack (t : Mod) (c : Call) (h : t.wf = true) (I R : List Nat) :
    stackRun (t.rnn ++ I, t.rrr ++ R) (call true t c).2.2 =
      some ((call true t c).1.rnn ++ I, (call true t c).1.rrr ++ R) := by
  cases c with
  | init =>
    simp only [call]
    by_cases hs : t.st = .none
    · have ha := wf_none_allNone t h hs
      have hf := init_fresh t ha
      rw [allNone_rnn _ ha, allNone_rrr _ ha, noRun_rrr _ hf.2.1]
      simpa using init_stack t ha I R
    · rw [init_unchanged t hs]
      cases t with
      | node i ks =>
        have : i.st ≠ .none := hs
        unfold initM; simp [this, stackRun]
  | start =>
    simp only [call]
    rw [rnn_start]
    by_cases hs : t.st = .inited
    · cases t with
      | node i ks =>
        have hn : (Mod.node i ks).noRun = true := by
          rw [noRun_node]; exact ⟨by rw [show i.st = .inited from hs]; simp, ((wf_node i ks).1 h).2.2 hs⟩
        rw [noRun_rrr _ hn]
        simpa using start_stack _ h hn (Mod.rnn (.node i ks) ++ I) R
    · cases t with
      | node i ks =>
        have : i.st ≠ .inited := hs
        unfold start; simp [this, stackRun]
  | stop =>
    simp only [call]
    rw [rnn_stop, noRun_rrr _ (stop_wf true t h).2]
    simpa using stop_stack t h (t.rnn ++ I) R
  | cleanup =>
    simp only [call]
    have ha := cleanup_allNone true t h
    rw [allNone_rnn _ ha, allNone_rrr _ ha]
    simpa using cleanup_stack t h I R
  | setFlags n c i s =>
    simp only [call, stackRun]
    rw [(setFlags_stacks n c i s t).1, (setFlags_stacks n c i s t).2]

theorem runCalls_stack (t : Mod) (cs : List Call) (h : t.wf = true) (I R : List Nat) :
    stackRun (t.rnn ++ I, t.rrr ++ R) (runCalls true t cs).2 =
      some ((runCalls true t cs).1.rnn ++ I, (runCalls true t cs).1.rrr ++ R) := by
  induction cs generalizing t with
  | nil => rfl
  | cons c cs ih =>
    simp only [runCalls]
    rw [stackRun_append, call_stack t c h I R]
    exact ih _ (call_wf t c h)

end Tbox.C11
