/-
C11 — helper lemmas, part A: every lifecycle function moves each module's hook automaton
exactly as it moves that module's `state_` (no assumption on the states of the tree).
-/
import TboxModel.C11.Spec
namespace Tbox.C11

theorem hookRun_append (n : Nat) (s : St) (a b : List Ev) :
    hookRun n s (a ++ b) = (hookRun n s a).bind fun s' => hookRun n s' b := by
  induction a generalizing s with
  | nil => simp [hookRun]
  | cons e es ih =>
    simp only [List.cons_append, hookRun]
    cases hookStep n s e with
    | none => simp
    | some s' => simp [ih]

theorem hookRun_skip (n : Nat) (s : St) (tr : List Ev) (h : ∀ e ∈ tr, e.id ≠ n) :
    hookRun n s tr = some s := by
  induction tr with
  | nil => rfl
  | cons e es ih =>
    have he : e.id ≠ n := h e (by simp)
    simp only [hookRun, hookStep, he, ne_eq, not_false_eq_true, if_true, Option.bind_some]
    exact ih fun e' h' => h e' (by simp [h'])

mutual
theorem stAt_notin (n : Nat) (d : St) : ∀ m : Mod, n ∉ m.ids → m.stAt n d = d
  | .node i ks => by
    intro h
    simp only [Mod.ids, List.mem_cons, not_or] at h
    simp only [Mod.stAt, Ne.symm h.1, if_false]
    exact stAtK_notin n d ks h.2
theorem stAtK_notin (n : Nat) (d : St) : ∀ ks : Kids, n ∉ ks.ids → ks.stAt n d = d
  | .nil => by intro _; rfl
  | .cons m _ rest => by
    intro h
    simp only [Kids.ids, List.mem_append, not_or] at h
    simp only [Kids.stAt]
    rw [stAt_notin n _ m h.1, stAtK_notin n d rest h.2]
end

mutual
theorem stAt_in (n : Nat) (d d' : St) : ∀ m : Mod, n ∈ m.ids → m.stAt n d = m.stAt n d'
  | .node i ks => by
    intro h
    simp only [Mod.stAt]
    split
    · rfl
    · rename_i hne
      simp only [Mod.ids, List.mem_cons] at h
      rcases h with h | h
      · exact absurd h.symm hne
      · exact stAtK_in n d d' ks h
theorem stAtK_in (n : Nat) (d d' : St) : ∀ ks : Kids, n ∈ ks.ids → ks.stAt n d = ks.stAt n d'
  | .nil => by intro h; simp [Kids.ids] at h
  | .cons m _ rest => by
    intro h
    simp only [Kids.stAt]
    by_cases hm : n ∈ m.ids
    · exact stAt_in n _ _ m hm
    · simp only [Kids.ids, List.mem_append, hm, false_or] at h
      rw [stAt_notin n _ m hm, stAt_notin n _ m hm]
      exact stAtK_in n d d' rest h
end

/-- a step from tree `t` to `t'` with hook trace `tr` that keeps the shape, mentions only
modules of the tree, and moves every module's hook automaton from its old to its new `state_` -/
structure StepOK (t t' : Mod) (tr : List Ev) : Prop where
  ids : t'.ids = t.ids
  evs : ∀ e ∈ tr, e.id ∈ t.ids
  track : ∀ n s, hookRun n (t.stAt n s) tr = some (t'.stAt n s)

structure StepOKK (t t' : Kids) (tr : List Ev) : Prop where
  ids : t'.ids = t.ids
  evs : ∀ e ∈ tr, e.id ∈ t.ids
  track : ∀ n s, hookRun n (t.stAt n s) tr = some (t'.stAt n s)

theorem StepOK.refl (t : Mod) : StepOK t t [] := ⟨rfl, by simp, fun _ _ => rfl⟩
theorem StepOKK.refl (t : Kids) : StepOKK t t [] := ⟨rfl, by simp, fun _ _ => rfl⟩

theorem StepOK.trans {t t' t'' : Mod} {a b : List Ev} (h1 : StepOK t t' a) (h2 : StepOK t' t'' b) :
    StepOK t t'' (a ++ b) := by
  refine ⟨h2.ids.trans h1.ids, ?_, ?_⟩
  · intro e he
    rcases List.mem_append.1 he with he | he
    · exact h1.evs e he
    · exact h1.ids ▸ h2.evs e he
  · intro n s
    rw [hookRun_append, h1.track n s]; exact h2.track n s

theorem StepOKK.trans {t t' t'' : Kids} {a b : List Ev} (h1 : StepOKK t t' a) (h2 : StepOKK t' t'' b) :
    StepOKK t t'' (a ++ b) := by
  refine ⟨h2.ids.trans h1.ids, ?_, ?_⟩
  · intro e he
    rcases List.mem_append.1 he with he | he
    · exact h1.evs e he
    · exact h1.ids ▸ h2.evs e he
  · intro n s
    rw [hookRun_append, h1.track n s]; exact h2.track n s

/-- a step of the head child is a step of the children vector -/
theorem StepOKK.head {m m' : Mod} {a : List Ev} (req : Bool) (rest : Kids) (h : StepOK m m' a) :
    StepOKK (.cons m req rest) (.cons m' req rest) a := by
  refine ⟨by simp [Kids.ids, h.ids], ?_, ?_⟩
  · intro e he; simp [Kids.ids, h.evs e he]
  · intro n s; exact h.track n _

/-- a step of the later children is a step of the children vector (ids are distinct) -/
theorem StepOKK.tail {rest rest' : Kids} {b : List Ev} (m : Mod) (req : Bool) (h : StepOKK rest rest' b)
    (hd : ∀ x ∈ m.ids, x ∉ rest.ids) :
    StepOKK (.cons m req rest) (.cons m req rest') b := by
  refine ⟨by simp [Kids.ids, h.ids], ?_, ?_⟩
  · intro e he; simp [Kids.ids, h.evs e he]
  · intro n s
    simp only [Kids.stAt]
    by_cases hm : n ∈ m.ids
    · rw [hookRun_skip n _ b (fun e he hn => hd n hm (hn ▸ h.evs e he))]
      rw [stAt_in n _ _ m hm]
    · rw [stAt_notin n _ m hm, stAt_notin n _ m hm]; exact h.track n s

/-- a step of the children is a step of the module -/
theorem StepOK.kids {ks ks' : Kids} {b : List Ev} (i : Info) (h : StepOKK ks ks' b) (hi : i.id ∉ ks.ids) :
    StepOK (.node i ks) (.node i ks') b := by
  refine ⟨by simp [Mod.ids, h.ids], ?_, ?_⟩
  · intro e he; simp [Mod.ids, h.evs e he]
  · intro n s
    simp only [Mod.stAt]
    split
    · rename_i heq
      exact hookRun_skip n _ b (fun e he hn => hi (heq ▸ hn ▸ h.evs e he))
    · exact h.track n s

/-- one own hook of the module, allowed by its automaton in its current `state_` -/
theorem StepOK.own (i : Info) (ks : Kids) (e : Ev) (s' : St) (he : e.id = i.id)
    (hs : hookStep i.id i.st e = some s') : StepOK (.node i ks) (.node (setSt i s') ks) [e] := by
  refine ⟨by simp [Mod.ids, setSt], ?_, ?_⟩
  · intro e' he'; simp at he'; simp [he', Mod.ids, he]
  · intro n s
    simp only [Mod.stAt, setSt]
    by_cases hn : i.id = n
    · subst hn; simp [hookRun, hs]
    · simp only [hn, if_false]
      exact hookRun_skip n _ _ (by intro e' he'; simp at he'; rw [he', he]; exact hn)

theorem setSt_same (i : Info) : setSt i i.st = i := by cases i; rfl

/-- an own hook that leaves the automaton where it is (a failing `onInit` / `onStart`) -/
theorem StepOK.own_same (i : Info) (ks : Kids) (e : Ev) (he : e.id = i.id)
    (hs : hookStep i.id i.st e = some i.st) : StepOK (.node i ks) (.node i ks) [e] := by
  have := StepOK.own i ks e i.st he hs
  rwa [setSt_same] at this

theorem nodup_node {i : Info} {ks : Kids} (h : (Mod.node i ks).ids.Nodup) : i.id ∉ ks.ids ∧ ks.ids.Nodup := by
  simpa [Mod.ids] using h

theorem nodup_cons {m : Mod} {req : Bool} {rest : Kids} (h : (Kids.cons m req rest).ids.Nodup) :
    m.ids.Nodup ∧ rest.ids.Nodup ∧ ∀ x ∈ m.ids, x ∉ rest.ids := by
  simp only [Kids.ids, List.nodup_append] at h
  exact ⟨h.1, h.2.1, fun x hx hr => h.2.2 x hx x hr rfl⟩

/-! ### stop -/
mutual
theorem stop_ok (own : Bool) : ∀ m : Mod, m.ids.Nodup → own = true → StepOK m (stop own m).1 (stop own m).2
  | .node i ks => by
    intro hnd hown
    subst hown
    obtain ⟨hi, hk⟩ := nodup_node hnd
    unfold stop
    split
    · exact StepOK.refl _
    · rename_i hrun
      have hrun : i.st = .running := by simpa using hrun
      have h1 := StepOK.kids i (stopKids_ok ks hk) hi
      have h2 := StepOK.own i (stopKids ks).1 (Ev.stop i.id) .inited rfl (by simp [hookStep, Ev.id, hrun])
      simpa using h1.trans h2
theorem stopKids_ok : ∀ ks : Kids, ks.ids.Nodup → StepOKK ks (stopKids ks).1 (stopKids ks).2
  | .nil => by intro _; exact StepOKK.refl _
  | .cons m req rest => by
    intro hnd
    obtain ⟨hm, hr, hd⟩ := nodup_cons hnd
    simp only [stopKids]
    have h1 := StepOKK.tail m req (stopKids_ok rest hr) hd
    have h2 := StepOKK.head req (stopKids rest).1 (stop_ok true m hm rfl)
    exact h1.trans h2
end

/-! ### cleanup -/

theorem stop_node_running (own : Bool) (i : Info) (ks : Kids) (h : i.st = .running) :
    stop own (.node i ks) = (.node (setSt i .inited) (stopKids ks).1,
      (stopKids ks).2 ++ (if own then [Ev.stop i.id] else [])) := by
  simp [stop, h]

theorem stop_node_idle (own : Bool) (i : Info) (ks : Kids) (h : i.st ≠ .running) :
    stop own (.node i ks) = (.node i ks, []) := by
  simp [stop, h]

mutual
theorem cleanup_ok (m : Mod) (hnd : m.ids.Nodup) : StepOK m (cleanup true m).1 (cleanup true m).2 := by
  cases m with
  | node i ks =>
    obtain ⟨hi, hk⟩ := nodup_node hnd
    rw [cleanup]
    split
    · exact StepOK.refl _
    · rename_i hnone
      have hstop := stop_ok true (.node i ks) hnd rfl
      by_cases hrun : i.st = .running
      · rw [stop_node_running true i ks hrun] at hstop ⊢
        simp only [Mod.kids, Mod.info, if_true] at hstop ⊢
        have hk' : (stopKids ks).1.ids.Nodup := (stopKids_ok ks hk).ids ▸ hk
        have hi' : i.id ∉ (stopKids ks).1.ids := (stopKids_ok ks hk).ids ▸ hi
        have h2 := StepOK.kids (setSt i .inited) (cleanupKids_ok (stopKids ks).1 hk') hi'
        have h3 := StepOK.own (setSt i .inited) (cleanupKids (stopKids ks).1).1 (Ev.cleanup i.id) .none rfl
          (by simp [hookStep, Ev.id, setSt])
        exact (hstop.trans h2).trans h3
      · rw [stop_node_idle true i ks hrun]
        simp only [Mod.kids, Mod.info, if_true, List.nil_append]
        have hin : i.st = .inited := by cases h : i.st <;> simp_all
        have h2 := StepOK.kids i (cleanupKids_ok ks hk) hi
        have h3 := StepOK.own i (cleanupKids ks).1 (Ev.cleanup i.id) .none rfl
          (by simp [hookStep, Ev.id, hin])
        exact h2.trans h3
termination_by m.size
decreasing_by
  all_goals (subst_vars; have := stopKids_size ks; simp only [Mod.size]; omega)
theorem cleanupKids_ok (ks : Kids) (hnd : ks.ids.Nodup) : StepOKK ks (cleanupKids ks).1 (cleanupKids ks).2 := by
  cases ks with
  | nil => rw [cleanupKids]; exact StepOKK.refl _
  | cons m req rest =>
    obtain ⟨hm, hr, hd⟩ := nodup_cons hnd
    rw [cleanupKids]
    have h1 := StepOKK.tail m req (cleanupKids_ok rest hr) hd
    have h2 := StepOKK.head req (cleanupKids rest).1 (cleanup_ok m hm)
    exact h1.trans h2
termination_by ks.size
decreasing_by
  all_goals (subst_vars; simp only [Kids.size]; omega)
end

/-! ### initialize / start (repaired code, `rb = true`) -/

mutual
theorem init_ok : ∀ m : Mod, m.ids.Nodup → StepOK m (initM true m).1 (initM true m).2.2
  | .node i ks => by
    intro hnd
    obtain ⟨hi, hk⟩ := nodup_node hnd
    unfold initM
    split
    · exact StepOK.refl _
    rename_i hnone
    have hnone : i.st = .none := by simpa using hnone
    split
    · exact StepOK.refl _
    split
    · exact StepOK.own_same i ks (Ev.init i.id false) rfl (by simp [hookStep, Ev.id, hnone])
    have hkids := initKids_ok ks hk
    have hi' : i.id ∉ (initKids true ks).1.ids := hkids.ids ▸ hi
    have h1 := StepOK.own i ks (Ev.init i.id true) .inited rfl (by simp [hookStep, Ev.id, hnone])
    have h2 := StepOK.kids (setSt i .inited) hkids hi
    dsimp only
    split
    · simpa using h1.trans h2
    · have h3 := StepOK.own (setSt i .inited) (initKids true ks).1 (Ev.cleanup i.id) .none rfl
        (by simp [hookStep, Ev.id, setSt])
      have h := (h1.trans h2).trans h3
      have hback : setSt (setSt i .inited) .none = i := by cases i; simp_all [setSt]
      rw [hback] at h
      simpa using h
theorem initKids_ok : ∀ ks : Kids, ks.ids.Nodup → StepOKK ks (initKids true ks).1 (initKids true ks).2.2
  | .nil => by intro _; exact StepOKK.refl _
  | .cons m req rest => by
    intro hnd
    obtain ⟨hm, hr, hd⟩ := nodup_cons hnd
    have hhead := init_ok m hm
    have h1 := StepOKK.head req rest hhead
    have hd' : ∀ x ∈ (initM true m).1.ids, x ∉ rest.ids := hhead.ids ▸ hd
    have h2 := StepOKK.tail (initM true m).1 req (initKids_ok rest hr) hd'
    unfold initKids
    dsimp only
    split
    · exact h1
    split
    · exact h1.trans h2
    · have hm' : (initM true m).1.ids.Nodup := hhead.ids ▸ hm
      have h3 := StepOKK.head req (initKids true rest).1 (cleanup_ok (initM true m).1 hm')
      simpa using (h1.trans h2).trans h3
end

mutual
theorem start_ok : ∀ m : Mod, m.ids.Nodup → StepOK m (start true m).1 (start true m).2.2
  | .node i ks => by
    intro hnd
    obtain ⟨hi, hk⟩ := nodup_node hnd
    unfold start
    split
    · exact StepOK.refl _
    rename_i hin
    have hin : i.st = .inited := by simpa using hin
    split
    · exact StepOK.own_same i ks (Ev.start i.id false) rfl (by simp [hookStep, Ev.id, hin])
    have hkids := startKids_ok ks hk
    have h1 := StepOK.own i ks (Ev.start i.id true) .running rfl (by simp [hookStep, Ev.id, hin])
    have h2 := StepOK.kids (setSt i .running) hkids hi
    dsimp only
    split
    · simpa using h1.trans h2
    · have h3 := StepOK.own (setSt i .running) (startKids true ks).1 (Ev.stop i.id) .inited rfl
        (by simp [hookStep, Ev.id, setSt])
      have h := (h1.trans h2).trans h3
      have hback : setSt (setSt i .running) .inited = i := by cases i; simp_all [setSt]
      rw [hback] at h
      simpa using h
theorem startKids_ok : ∀ ks : Kids, ks.ids.Nodup → StepOKK ks (startKids true ks).1 (startKids true ks).2.2
  | .nil => by intro _; exact StepOKK.refl _
  | .cons m req rest => by
    intro hnd
    obtain ⟨hm, hr, hd⟩ := nodup_cons hnd
    have hhead := start_ok m hm
    have h1 := StepOKK.head req rest hhead
    have hd' : ∀ x ∈ (start true m).1.ids, x ∉ rest.ids := hhead.ids ▸ hd
    have h2 := StepOKK.tail (start true m).1 req (startKids_ok rest hr) hd'
    unfold startKids
    dsimp only
    split
    · exact h1
    split
    · exact h1.trans h2
    · have hm' : (start true m).1.ids.Nodup := hhead.ids ▸ hm
      have h3 := StepOKK.head req (startKids true rest).1 (stop_ok true (start true m).1 hm' rfl)
      simpa using (h1.trans h2).trans h3
end

end Tbox.C11
