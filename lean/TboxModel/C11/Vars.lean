/-
C11 — model of `tbox::util::Variables` (modules/util/variables.{h,cpp}, with patches/C11-03/04):
a map of named values per object plus a parent pointer; `has/get/set` fall back to the parent
chain; `setParent` refuses a parent whose chain already contains the object.  `Module::add()` links
`child.vars()` to `parent.vars()`, so for module-owned objects the parent is the module's parent.
-/
namespace Tbox.C11.Vars

structure VObj where
  map : List (String × Int) := []
  parent : Option Nat := none
  deriving Repr, Inhabited

structure VStore where
  l : List (Nat × VObj) := []

def VStore.get (σ : VStore) (k : Nat) : VObj :=
  match σ.l.find? (fun p => p.1 == k) with
  | some p => p.2
  | none => {}

def VStore.set (σ : VStore) (k : Nat) (v : VObj) : VStore := ⟨(k, v) :: σ.l.filter (fun p => p.1 != k)⟩

def mapGet (m : List (String × Int)) (name : String) : Option Int := (m.find? (fun p => p.1 == name)).map (·.2)
def mapSet (m : List (String × Int)) (name : String) (v : Int) : List (String × Int) :=
  m.map fun p => if p.1 == name then (name, v) else p
def mapDel (m : List (String × Int)) (name : String) : List (String × Int) := m.filter fun p => p.1 != name

/-- the parent of object `k`: `ext k` (the module tree) decides for module-owned objects -/
def parentOf (σ : VStore) (ext : Nat → Option (Option Nat)) (k : Nat) : Option Nat :=
  match ext k with
  | some p => p
  | none => (σ.get k).parent

/-- nearest object along the parent chain of `k` that defines `name` (`has` / `get` / `set`) -/
def findDef (σ : VStore) (ext : Nat → Option (Option Nat)) : Nat → Nat → String → Bool → Option (Nat × Int)
  | 0, _, _, _ => none
  | f + 1, k, name, loc =>
    match mapGet (σ.get k).map name with
    | some v => some (k, v)
    | none =>
      if loc then none
      else match parentOf σ ext k with
        | some p => findDef σ ext f p name false
        | none => none

/-- does the parent chain starting AT `k` contain `target` -/
def reaches (σ : VStore) (ext : Nat → Option (Option Nat)) : Nat → Nat → Nat → Bool
  | 0, _, _ => false
  | f + 1, k, target =>
    if k = target then true
    else match parentOf σ ext k with
      | some p => reaches σ ext f p target
      | none => false

def fuelV : Nat := 200

def define (σ : VStore) (k : Nat) (name : String) (v : Int) : VStore × Bool :=
  let o := σ.get k
  if (mapGet o.map name).isSome then (σ, false) else (σ.set k { o with map := o.map ++ [(name, v)] }, true)

def undefine (σ : VStore) (k : Nat) (name : String) : VStore × Bool :=
  let o := σ.get k
  if (mapGet o.map name).isSome then (σ.set k { o with map := mapDel o.map name }, true) else (σ, false)

def setVar (σ : VStore) (ext : Nat → Option (Option Nat)) (k : Nat) (name : String) (v : Int) (loc : Bool) : VStore × Bool :=
  match findDef σ ext fuelV k name loc with
  | some (d, _) => let o := σ.get d; (σ.set d { o with map := mapSet o.map name v }, true)
  | none => (σ, false)

/-- `a.setParent(p)` (patched: refused when `p`'s chain contains `a`) -/
def setParent (σ : VStore) (ext : Nat → Option (Option Nat)) (a : Nat) (p : Option Nat) : VStore × Bool :=
  match p with
  | none => let o := σ.get a; (σ.set a { o with parent := none }, true)
  | some b =>
    if reaches σ ext fuelV b a then (σ, false)
    else let o := σ.get a; (σ.set a { o with parent := some b }, true)

/-- `a = b` (copy assignment) -/
def copy (σ : VStore) (ext : Nat → Option (Option Nat)) (a b : Nat) : VStore :=
  if a = b then σ
  else
    let bp := (σ.get b).parent
    let bm := (σ.get b).map
    let o := σ.get a
    let σ1 := σ.set a { o with parent := none }
    let σ2 := (setParent σ1 ext a bp).1
    let o2 := σ2.get a
    σ2.set a { o2 with map := bm }

/-- `a.swap(b)` -/
def swap (σ : VStore) (ext : Nat → Option (Option Nat)) (a b : Nat) : VStore :=
  let oa := σ.get a
  let ob := σ.get b
  if a = b then σ
  else
    let σ1 := (σ.set a { map := ob.map, parent := none }).set b { map := oa.map, parent := none }
    let σ2 := (setParent σ1 ext a ob.parent).1
    (setParent σ2 ext b oa.parent).1

/-! ### what can be said without the tie

A ranking (`rk parent < rk child` along every parent link) is what "no cycle" means; under a
ranking the bounded walk never runs out of fuel: more fuel never changes the answer. -/

def Ranked (σ : VStore) (ext : Nat → Option (Option Nat)) (rk : Nat → Nat) : Prop :=
  ∀ k p, parentOf σ ext k = some p → rk p < rk k

theorem findDef_fuel_stable (σ : VStore) (ext : Nat → Option (Option Nat)) (rk : Nat → Nat) (h : Ranked σ ext rk) :
    ∀ (f : Nat) (k : Nat) (name : String) (loc : Bool), rk k < f →
      findDef σ ext (f + 1) k name loc = findDef σ ext f k name loc := by
  intro f
  induction f with
  | zero => intro k _ _ hk; omega
  | succ f ih =>
    intro k name loc hk
    rw [findDef, findDef]
    split
    · rfl
    · split
      · rfl
      · split
        · rename_i p hp
          exact ih p name false (by have := h k p hp; omega)
        · rfl

/-- `get` of a name nobody on the chain defines terminates with "not found" (no stack overflow) and
`get` of a defined name returns the value of the nearest definer: both are what `findDef` computes
by definition; this lemma says a definer found is really on the chain and really defines it -/
theorem findDef_sound (σ : VStore) (ext : Nat → Option (Option Nat)) :
    ∀ (f k : Nat) (name : String) (loc : Bool) (d : Nat) (v : Int),
      findDef σ ext f k name loc = some (d, v) → mapGet (σ.get d).map name = some v ∧ reaches σ ext f k d = true := by
  intro f
  induction f with
  | zero => intro k name loc d v h; simp [findDef] at h
  | succ f ih =>
    intro k name loc d v h
    rw [findDef] at h
    split at h
    · rename_i v' hv
      simp only [Option.some.injEq, Prod.mk.injEq] at h
      obtain ⟨h1, h2⟩ := h
      subst h1; subst h2
      exact ⟨hv, by simp [reaches]⟩
    · split at h
      · simp at h
      · split at h
        · rename_i p hp
          have := ih p name false d v h
          refine ⟨this.1, ?_⟩
          rw [reaches]
          split
          · rfl
          · simp [hp, this.2]
        · simp at h

end Tbox.C11.Vars
