/-
C11 — helper lemmas, part B: the states reachable through the root (`Mod.wf`) are preserved
by every lifecycle function of the repaired code, `cleanup` brings a `wf` tree back to all
`kNone`, a failed `initialize` leaves a fresh tree fresh, a failed `start` leaves nothing running.
-/
import TboxModel.C11.Spec
namespace Tbox.C11

theorem wf_node (i : Info) (ks : Kids) :
    (Mod.node i ks).wf = true ↔ ks.wf = true ∧ (i.st = .none → ks.allNone = true) ∧ (i.st = .inited → ks.noRun = true) := by
  cases h : i.st <;> simp [Mod.wf, h]

theorem wf_cons (m : Mod) (r : Bool) (rest : Kids) :
    (Kids.cons m r rest).wf = true ↔ m.wf = true ∧ rest.wf = true := by simp [Kids.wf]

theorem allNone_node (i : Info) (ks : Kids) :
    (Mod.node i ks).allNone = true ↔ i.st = .none ∧ ks.allNone = true := by simp [Mod.allNone]

theorem allNone_cons (m : Mod) (r : Bool) (rest : Kids) :
    (Kids.cons m r rest).allNone = true ↔ m.allNone = true ∧ rest.allNone = true := by simp [Kids.allNone]

theorem noRun_node (i : Info) (ks : Kids) :
    (Mod.node i ks).noRun = true ↔ i.st ≠ .running ∧ ks.noRun = true := by simp [Mod.noRun]

theorem noRun_cons (m : Mod) (r : Bool) (rest : Kids) :
    (Kids.cons m r rest).noRun = true ↔ m.noRun = true ∧ rest.noRun = true := by simp [Kids.noRun]

mutual
theorem allNone_wf_noRun : ∀ m : Mod, m.allNone = true → m.wf = true ∧ m.noRun = true
  | .node i ks => by
    intro h
    rw [allNone_node] at h
    have := allNoneK_wf_noRun ks h.2
    rw [wf_node, noRun_node]
    simp [h.1, h.2, this.1, this.2]
theorem allNoneK_wf_noRun : ∀ ks : Kids, ks.allNone = true → ks.wf = true ∧ ks.noRun = true
  | .nil => by intro _; simp [Kids.wf, Kids.noRun]
  | .cons m r rest => by
    intro h
    rw [allNone_cons] at h
    have h1 := allNone_wf_noRun m h.1
    have h2 := allNoneK_wf_noRun rest h.2
    rw [wf_cons, noRun_cons]
    exact ⟨⟨h1.1, h2.1⟩, h1.2, h2.2⟩
end

/-- a `wf` module in `kNone` heads an all-`kNone` tree -/
theorem wf_none_allNone (m : Mod) (h : m.wf = true) (hs : m.st = .none) : m.allNone = true := by
  cases m with
  | node i ks =>
    rw [wf_node] at h
    rw [allNone_node]
    exact ⟨hs, h.2.1 hs⟩

/-! ### stop -/
mutual
theorem stop_wf (own : Bool) : ∀ m : Mod, m.wf = true → (stop own m).1.wf = true ∧ (stop own m).1.noRun = true
  | .node i ks => by
    intro h
    have h' := (wf_node i ks).1 h
    unfold stop
    split
    · rename_i hrun
      have hrun : i.st ≠ .running := by simpa using hrun
      refine ⟨h, ?_⟩
      rw [noRun_node]
      refine ⟨hrun, ?_⟩
      cases hs : i.st with
      | none => exact (allNoneK_wf_noRun ks (h'.2.1 hs)).2
      | inited => exact h'.2.2 hs
      | running => exact absurd hs hrun
    · have hk := stopKids_wf ks h'.1
      dsimp only
      rw [wf_node, noRun_node]
      simp [setSt, hk.1, hk.2]
theorem stopKids_wf : ∀ ks : Kids, ks.wf = true → (stopKids ks).1.wf = true ∧ (stopKids ks).1.noRun = true
  | .nil => by intro _; simp [stopKids, Kids.wf, Kids.noRun]
  | .cons m r rest => by
    intro h
    rw [wf_cons] at h
    have h1 := stop_wf true m h.1
    have h2 := stopKids_wf rest h.2
    simp only [stopKids]
    rw [wf_cons, noRun_cons]
    exact ⟨⟨h1.1, h2.1⟩, h1.2, h2.2⟩
end

/-! ### cleanup -/
mutual
theorem cleanup_allNone (own : Bool) (m : Mod) (h : m.wf = true) : (cleanup own m).1.allNone = true := by
  cases m with
  | node i ks =>
    rw [cleanup]
    split
    · rename_i hn
      exact wf_none_allNone _ h hn
    · have hs := (stop_wf own (.node i ks) h).1
      have hsz := stop_size own (.node i ks)
      generalize stop own (.node i ks) = s at hs hsz ⊢
      obtain ⟨sm, str⟩ := s
      cases sm with
      | node si sks =>
        dsimp only [Mod.kids, Mod.info]
        rw [allNone_node]
        have hk := ((wf_node si sks).1 hs).1
        exact ⟨rfl, cleanupKids_allNone sks hk⟩
termination_by m.size
decreasing_by
  subst_vars
  simp only [Mod.size] at hsz ⊢; omega
theorem cleanupKids_allNone (ks : Kids) (h : ks.wf = true) : (cleanupKids ks).1.allNone = true := by
  cases ks with
  | nil => rw [cleanupKids]; rfl
  | cons m r rest =>
    rw [wf_cons] at h
    rw [cleanupKids]
    dsimp only
    rw [allNone_cons]
    exact ⟨cleanup_allNone true m h.1, cleanupKids_allNone rest h.2⟩
termination_by ks.size
decreasing_by
  all_goals (subst_vars; simp only [Kids.size]; omega)
end

/-! ### initialize -/
mutual
theorem init_fresh : ∀ m : Mod, m.allNone = true →
    (initM true m).1.wf = true ∧ (initM true m).1.noRun = true ∧
    ((initM true m).2.1 = false → (initM true m).1.allNone = true)
  | .node i ks => by
    intro h
    have hw := allNone_wf_noRun _ h
    have h' := (allNone_node i ks).1 h
    have hk := initKids_fresh ks h'.2
    unfold initM
    split
    · exact ⟨hw.1, hw.2, fun _ => h⟩
    split
    · exact ⟨hw.1, hw.2, fun _ => h⟩
    split
    · exact ⟨hw.1, hw.2, fun _ => h⟩
    dsimp only
    split
    · rename_i hok
      refine ⟨?_, ?_, by simp⟩
      · rw [wf_node]; simp [setSt, hk.1, hk.2.1]
      · rw [noRun_node]; simp [setSt, hk.2.1]
    · rename_i hok
      have hall := hk.2.2 (by simpa using hok)
      have : (Mod.node i (initKids true ks).1).allNone = true := by rw [allNone_node]; exact ⟨h'.1, hall⟩
      simp only [if_true]
      exact ⟨(allNone_wf_noRun _ this).1, (allNone_wf_noRun _ this).2, fun _ => this⟩
theorem initKids_fresh : ∀ ks : Kids, ks.allNone = true →
    (initKids true ks).1.wf = true ∧ (initKids true ks).1.noRun = true ∧
    ((initKids true ks).2.1 = false → (initKids true ks).1.allNone = true)
  | .nil => by intro _; simp [initKids, Kids.wf, Kids.noRun]
  | .cons m r rest => by
    intro h
    rw [allNone_cons] at h
    have h1 := init_fresh m h.1
    have h2 := initKids_fresh rest h.2
    have hr := allNoneK_wf_noRun rest h.2
    unfold initKids
    dsimp only
    split
    · rename_i hf
      have hf : (initM true m).2.1 = false := by
        simp only [Bool.and_eq_true, Bool.not_eq_true'] at hf; exact hf.1
      rw [wf_cons, noRun_cons, allNone_cons]
      exact ⟨⟨h1.1, hr.1⟩, ⟨h1.2.1, hr.2⟩, fun _ => ⟨h1.2.2 hf, h.2⟩⟩
    split
    · rw [wf_cons, noRun_cons]
      exact ⟨⟨h1.1, h2.1⟩, ⟨h1.2.1, h2.2.1⟩, by simp [*]⟩
    · rename_i hok
      have hall := h2.2.2 (by simpa using hok)
      have hc := cleanup_allNone true _ h1.1
      have hcw := allNone_wf_noRun _ hc
      simp only [if_true]
      rw [wf_cons, noRun_cons, allNone_cons]
      exact ⟨⟨hcw.1, h2.1⟩, ⟨hcw.2, h2.2.1⟩, fun _ => ⟨hc, hall⟩⟩
end

theorem init_unchanged (m : Mod) (h : m.st ≠ .none) : (initM true m).1 = m := by
  cases m with
  | node i ks =>
    have : i.st ≠ .none := h
    unfold initM; simp [this]

theorem init_wf (m : Mod) (h : m.wf = true) : (initM true m).1.wf = true := by
  by_cases hs : m.st = .none
  · exact (init_fresh m (wf_none_allNone m h hs)).1
  · rw [init_unchanged m hs]; exact h

/-! ### start -/
mutual
theorem start_wf : ∀ m : Mod, m.wf = true →
    (start true m).1.wf = true ∧ (m.noRun = true → (start true m).2.1 = false → (start true m).1.noRun = true)
  | .node i ks => by
    intro h
    have h' := (wf_node i ks).1 h
    have hk := startKids_wf ks h'.1
    unfold start
    split
    · exact ⟨h, fun hn _ => hn⟩
    rename_i hin
    have hin : i.st = .inited := by simpa using hin
    split
    · exact ⟨h, fun hn _ => hn⟩
    dsimp only
    split
    · refine ⟨?_, by simp⟩
      rw [wf_node]; simp [setSt, hk.1]
    · rename_i hok
      have hnr := hk.2 (h'.2.2 hin) (by simpa using hok)
      simp only [if_true]
      refine ⟨?_, fun _ _ => ?_⟩
      · rw [wf_node]; simp [hk.1, hin, hnr]
      · rw [noRun_node]; simp [hin, hnr]
theorem startKids_wf : ∀ ks : Kids, ks.wf = true →
    (startKids true ks).1.wf = true ∧ (ks.noRun = true → (startKids true ks).2.1 = false → (startKids true ks).1.noRun = true)
  | .nil => by intro _; simp [startKids, Kids.wf, Kids.noRun]
  | .cons m r rest => by
    intro h
    rw [wf_cons] at h
    have h1 := start_wf m h.1
    have h2 := startKids_wf rest h.2
    unfold startKids
    dsimp only
    split
    · rename_i hf
      have hf : (start true m).2.1 = false := by
        simp only [Bool.and_eq_true, Bool.not_eq_true'] at hf; exact hf.1
      rw [wf_cons]
      refine ⟨⟨h1.1, h.2⟩, fun hn _ => ?_⟩
      rw [noRun_cons] at hn ⊢
      exact ⟨h1.2 hn.1 hf, hn.2⟩
    split
    · rw [wf_cons]
      exact ⟨⟨h1.1, h2.1⟩, by simp [*]⟩
    · rename_i hok
      have hc := stop_wf true _ h1.1
      simp only [if_true]
      rw [wf_cons]
      refine ⟨⟨hc.1, h2.1⟩, fun hn _ => ?_⟩
      rw [noRun_cons] at hn ⊢
      exact ⟨hc.2, h2.2 hn.2 (by simpa using hok)⟩
end

/-! ### flags, calls, call sequences -/
mutual
theorem setFlags_preds (n : Nat) (c i s : Bool) : ∀ m : Mod,
    (m.setFlags n c i s).wf = m.wf ∧ (m.setFlags n c i s).allNone = m.allNone ∧ (m.setFlags n c i s).noRun = m.noRun
  | .node inf ks => by
    have hk := setFlagsK_preds n c i s ks
    simp only [Mod.setFlags, Mod.wf, Mod.allNone, Mod.noRun, hk.1, hk.2.1, hk.2.2]
    split <;> simp
theorem setFlagsK_preds (n : Nat) (c i s : Bool) : ∀ ks : Kids,
    (ks.setFlags n c i s).wf = ks.wf ∧ (ks.setFlags n c i s).allNone = ks.allNone ∧ (ks.setFlags n c i s).noRun = ks.noRun
  | .nil => by simp [Kids.setFlags]
  | .cons m r rest => by
    have h1 := setFlags_preds n c i s m
    have h2 := setFlagsK_preds n c i s rest
    simp only [Kids.setFlags, Kids.wf, Kids.allNone, Kids.noRun, h1.1, h1.2.1, h1.2.2, h2.1, h2.2.1, h2.2.2]
    simp
end

theorem call_wf (t : Mod) (c : Call) (h : t.wf = true) : (call true t c).1.wf = true := by
  cases c with
  | init => exact init_wf t h
  | start => exact (start_wf t h).1
  | stop => exact (stop_wf true t h).1
  | cleanup => exact (allNone_wf_noRun _ (cleanup_allNone true t h)).1
  | setFlags n c i s => simp only [call]; rw [(setFlags_preds n c i s t).1]; exact h

theorem runCalls_wf (t : Mod) (cs : List Call) (h : t.wf = true) : (runCalls true t cs).1.wf = true := by
  induction cs generalizing t with
  | nil => exact h
  | cons c cs ih => simp only [runCalls]; exact ih _ (call_wf t c h)

end Tbox.C11
