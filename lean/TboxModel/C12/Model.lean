/-
C12 (part A) — executable model of the HTTP request parser and of the server's feed loop.

Transcribed from
  modules/http/server/request_parser.cpp  (RequestParser::parse, getRequest)
  modules/http/common.cpp                 (StringToMethod / StringToHttpVer; tables in GenTables.lean)
  modules/http/url.cpp                    (StringToUrlPath, UrlDecode)
  modules/util/string.cpp                 (Split, Strip)
  modules/http/server/server_imp.cpp      (onTcpReceived: accumulating buffer, `while readable > 0`; IsLastRequest)

The tree described is /repo HEAD, which contains the fixes patches/C12-01..04 (`Cfg.fixed`); the
three places patches 01-03 touch are parameterised by `Cfg` so that the behaviour of the unpatched code
(`Cfg.orig`) is available for the counterexample theorems.

How `std::string` positions are represented.  `parse` builds `std::string str(data, size)` and
walks it with `find*`; every position it computes is used either to cut a substring or as the
number of bytes consumed.  The model keeps *the remaining suffix* instead of a position
(`consumed = size - rest.length`), and a line of the buffer is obtained with `splitCRLF`
(`str.find("\r\n", pos)`).  Stage 1 is transcribed literally over the whole buffer
(`startLineLit`); that it only depends on the bytes in front of the first CRLF is a lemma
(`Proofs.startLineLit_eq`), not a modelling decision.

Core Lean only (linked into the driver).
-/
import TboxModel.C12.GenTables
namespace Tbox.C12

abbrev Bytes := List UInt8

def ascii (s : String) : Bytes := s.toList.map (fun c => UInt8.ofNat c.toNat)

/-- decimal digits of `n`, most significant first (`operator<<(size_t)`) -/
def decimal (n : Nat) : Bytes :=
  if n < 10 then [UInt8.ofNat (48 + n)] else decimal (n / 10) ++ [UInt8.ofNat (48 + n % 10)]
termination_by n
decreasing_by omega

/-- one header line as `Request::toString` / `Respond::toString` print it: `key ": " value CRLF` -/
def hdrLine (kv : Bytes × Bytes) : Bytes := kv.1 ++ 58 :: 32 :: (kv.2 ++ [13, 10])

/-- which of the three repairs are present (patches/C12-01, -02, -03) -/
structure Cfg where
  checkedLen : Bool      -- 01: Content-Length parsed by a checked digit loop (else `std::stoi`)
  crlfFirst : Bool       -- 02: look for the end of the start line before classifying the method
  stopAfterLast : Bool   -- 03: stop parsing (and drop the buffer) after a closing request
deriving DecidableEq, Repr

def Cfg.fixed : Cfg := ⟨true, true, true⟩
def Cfg.orig : Cfg := ⟨false, false, false⟩

/-! ### small string functions -/

/-- `str.find("\r\n")`: the bytes before the first CRLF and the bytes after it -/
def splitCRLF : Bytes → Option (Bytes × Bytes)
  | [] => none
  | b :: rest =>
    if b = 13 ∧ rest.head? = some 10 then some ([], rest.tail)
    else match splitCRLF rest with
      | none => none
      | some (l, r) => some (b :: l, r)

def dropSpaces (l : Bytes) : Bytes := l.dropWhile (· == 32)

/-- `util::string::Strip` (spaces only) -/
def strip (l : Bytes) : Bytes := ((dropSpaces l).reverse.dropWhile (· == 32)).reverse

/-- `str.find_first_of(c)` -/
def findByte (c : UInt8) (s : Bytes) : Option Nat := s.findIdx? (· == c)

/-- `str.substr(pos, count)`; `none` = npos (or a `size_t` difference that wrapped) -/
def substr (s : Bytes) (pos : Nat) (count : Option Nat) : Bytes :=
  match count with
  | none => s.drop pos
  | some n => (s.drop pos).take n

/-- the `size_t` expression `end_pos - start - 1` used as a count: npos, or an end position in
front of `start`, wraps to a huge count, i.e. "up to the end" -/
def wrapCount (endPos : Option Nat) (start : Nat) : Option Nat :=
  match endPos with
  | none => none
  | some e => if e > start then some (e - start - 1) else none

/-- `util::string::Split` with a one-byte separator (always at least one chunk) -/
def splitOn (sep : UInt8) : Bytes → List Bytes
  | [] => [[]]
  | c :: rest =>
    if c = sep then [] :: splitOn sep rest
    else match splitOn sep rest with
      | [] => [[c]]
      | h :: t => (c :: h) :: t

/-- `s.find(pat) != npos` -/
def hasInfix (pat : Bytes) : Bytes → Bool
  | [] => pat.isEmpty
  | c :: rest => pat.isPrefixOf (c :: rest) || hasInfix pat rest

/-- `std::string` `operator<` (unsigned bytes, shorter prefix first) -/
def bytesLt : Bytes → Bytes → Bool
  | [], [] => false
  | [], _ :: _ => true
  | _ :: _, [] => false
  | a :: as, b :: bs => a < b || (a == b && bytesLt as bs)

/-- `std::map<std::string,std::string>::operator[] =` on a key-sorted association list -/
def mapInsert (k v : Bytes) : List (Bytes × Bytes) → List (Bytes × Bytes)
  | [] => [(k, v)]
  | (k', v') :: rest =>
    if k == k' then (k, v) :: rest
    else if bytesLt k k' then (k, v) :: (k', v') :: rest
    else (k', v') :: mapInsert k v rest

/-! ### url.cpp -/

def hexCharToValue (c : UInt8) : Option Nat :=
  if 48 ≤ c ∧ c ≤ 57 then some (c.toNat - 48)
  else if 65 ≤ c ∧ c ≤ 70 then some (c.toNat - 55)
  else if 97 ≤ c ∧ c ≤ 102 then some (c.toNat - 87)
  else none     -- throws std::out_of_range

/-- `UrlDecode`; `none` = it threw (always caught by the caller). A truncated escape at the end
of the string is dropped silently, as in the code. -/
def urlDecode : Bytes → Option Bytes
  | [] => some []
  | c :: rest =>
    if c = 37 then
      match rest with
      | [] => some []
      | h :: rest' =>
        match hexCharToValue h with
        | none => none
        | some hv =>
          match rest' with
          | [] => some []
          | l :: rest'' =>
            match hexCharToValue l with
            | none => none
            | some lv => (urlDecode rest'').map (UInt8.ofNat (hv * 16 + lv) :: ·)
    else (urlDecode rest).map (c :: ·)

structure UrlPath where
  path : Bytes := []
  params : List (Bytes × Bytes) := []
  query : List (Bytes × Bytes) := []
  frag : Bytes := []
deriving DecidableEq, Repr

/-- the `k=v` lists of params (`;`) and query (`&`) -/
def kvStep (m : List (Bytes × Bytes)) (chunk : Bytes) : Option (List (Bytes × Bytes)) :=
  match splitOn 61 chunk with
  | [k, v] =>
    if k.isEmpty then none
    else match urlDecode k, urlDecode v with
      | some k', some v' => some (mapInsert k' v' m)
      | _, _ => none
  | _ => none

def parseKVs (sep : UInt8) (s : Bytes) : Option (List (Bytes × Bytes)) :=
  (splitOn sep s).foldlM (init := []) kvStep

/-- `StringToUrlPath`; `none` = returned false -/
def parseUrlPath (s : Bytes) : Option UrlPath :=
  if s.head? != some 47 then none else
  let semi := findByte 59 s
  let query := findByte 63 s
  let pound := findByte 35 s
  let pathEnd := (semi.orElse fun _ => query).orElse fun _ => pound
  match urlDecode (substr s 0 pathEnd) with
  | none => none
  | some path =>
    let params? : Option (List (Bytes × Bytes)) := match semi with
      | none => some []
      | some sp => parseKVs 59 (substr s (sp + 1) (wrapCount (query.orElse fun _ => pound) sp))
    match params? with
    | none => none
    | some params =>
      let query? : Option (List (Bytes × Bytes)) := match query with
        | none => some []
        | some qp => parseKVs 38 (substr s (qp + 1) (wrapCount pound qp))
      match query? with
      | none => none
      | some qs =>
        let frag? : Option Bytes := match pound with
          | none => some []
          | some pp => urlDecode (s.drop (pp + 1))
        match frag? with
        | none => none
        | some frag => some ⟨path, params, qs, frag⟩

/-- `UrlEncode`: `%XX` (upper-case hex) for the special characters of the mode and for every byte
that is not printable ASCII (`!std::isprint(c)`, "C" locale; bytes ≥ 0x80 are negative `char`s) -/
def fullSpecial : Bytes := ascii " +&=<>\"#,%{}|\\^[]`;?:@$/."
def pathSpecial : Bytes := ascii " +&=<>\"#,%{}|\\^[]`;?:@$"

def hexUpper (n : Nat) : UInt8 := if n < 10 then UInt8.ofNat (48 + n) else UInt8.ofNat (55 + n)

def needsEscape (pathMode : Bool) (c : UInt8) : Bool :=
  (if pathMode then pathSpecial else fullSpecial).contains c || !(32 ≤ c && c ≤ 126)

def urlEncode (pathMode : Bool) : Bytes → Bytes
  | [] => []
  | c :: rest =>
    if needsEscape pathMode c then 37 :: hexUpper (c.toNat / 16) :: hexUpper (c.toNat % 16) :: urlEncode pathMode rest
    else c :: urlEncode pathMode rest

/-- `UrlPathToString`: encoded path, `;k=v` per parameter, `?k=v&k=v`, and the fragment AS IT IS
(the code does not encode it) -/
def urlPathToString (u : UrlPath) : Bytes :=
  urlEncode true u.path ++
  (u.params.map fun kv => 59 :: (urlEncode false kv.1 ++ 61 :: urlEncode false kv.2)).flatten ++
  (match u.query with
    | [] => []
    | kv :: rest => 63 :: (urlEncode false kv.1 ++ 61 :: urlEncode false kv.2) ++
        (rest.map fun kv => 38 :: (urlEncode false kv.1 ++ 61 :: urlEncode false kv.2)).flatten) ++
  (if u.frag.isEmpty then [] else 35 :: u.frag)

/-! ### common.cpp tables -/

/-- `StringToMethod`: the enum name of the first table entry whose string equals `m` -/
def methodOf (m : Bytes) : Option String := (Gen.methodTable.find? fun p => ascii p.2 == m).map (·.1)
/-- `StringToHttpVer` -/
def verOf (v : Bytes) : Option String := (Gen.verTable.find? fun p => ascii p.2 == v).map (·.1)
/-- `MethodToString` / `HttpVerToString` (for printing) -/
def methodStr (e : String) : String := ((Gen.methodTable.find? fun p => p.1 == e).map (·.2)).getD ""
def verStr (e : String) : String := ((Gen.verTable.find? fun p => p.1 == e).map (·.2)).getD ""

/-- Reference (NOT regenerated): the standard request methods / protocol versions and the enum
constant of common.h each must map to.  The tables above follow the source so that the theorems
hold for whatever the tables contain; this reference is what a well-formed request is entitled to,
and the check compares `StringToMethod` / `StringToHttpVer` of the working tree against it
(ops `method`, `version`), so a wrong table entry is reported with the offending name as replay. -/
def stdMethods : List (String × String) :=
  [("GET", "kGet"), ("HEAD", "kHead"), ("PUT", "kPut"), ("POST", "kPost"), ("TRACE", "kTrace"),
   ("OPTIONS", "kOptions"), ("DELETE", "kDelete")]
def stdVersions : List (String × String) := [("HTTP/1.0", "k1_0"), ("HTTP/1.1", "k1_1"), ("HTTP/2.0", "k2_0")]

def stdLookup (t : List (String × String)) (b : Bytes) : String :=
  ((t.find? fun p => ascii p.1 == b).map (·.2)).getD "kUnset"

/-! ### the request and the parser state -/

structure Req where
  method : String := "kUnset"
  url : UrlPath := {}
  ver : String := "kUnset"
  headers : List (Bytes × Bytes) := []
  body : Bytes := []
deriving DecidableEq, Repr

/-- `Request::toString()` (request.cpp): request line, the header map, ALWAYS one more
`Content-Length` line with the body size, blank line, body -/
def Req.render (r : Req) : Bytes :=
  ascii (methodStr r.method) ++ 32 :: (urlPathToString r.url ++ 32 :: (ascii (verStr r.ver) ++ 13 :: 10 ::
    ((r.headers.map hdrLine).flatten ++ (hdrLine (ascii "Content-Length", decimal r.body.length) ++ 13 :: 10 :: r.body))))

inductive St | init | startLine | heads | all | fail
deriving DecidableEq, Repr

/-- `state_`, `*sp_request_`, `content_length_` (`none` = `numeric_limits<size_t>::max()`) -/
structure PState where
  st : St := .init
  req : Req := {}
  clen : Option Nat := none
deriving DecidableEq, Repr

/-- state after construction and after `getRequest()`.  In `kInit` the request object is
either absent or untouched and `content_length_` is overwritten on entry, so the model keeps
both fields at their defaults in this state. -/
def PState.init : PState := {}

/-- result of one `parse` call: new state and the unconsumed suffix, or an exception that
leaves `parse`, or (model only) a loop that ran out of fuel -/
inductive PResult
  | ok (ps : PState) (rest : Bytes)
  | threw
  | hang
deriving DecidableEq, Repr

/-! ### stage 1: the start line -/

/-- Literal transcription of stage 1 of `parse` after `end_pos` (the first CRLF) has been found.
`s` is the WHOLE buffer (`str`), every `find*` of the code runs over it and may run past the
CRLF exactly as in the code.  A position `p` of the code is represented by the suffix of `s`
that starts at `p` (a `const char*`), `npos` by the empty suffix (a successful `find` never
returns the end position), so `p >= end_pos` reads `suffix.length ≤ endLen` where `endLen` is
the length of the suffix starting at `end_pos`.  `none` = `state_ = kFail; return 0`. -/
def startLineLit (s : Bytes) (endLen : Nat) : Option (String × UrlPath × String) :=
  let methodStr := s.takeWhile (· != 32)        -- str.substr(pos, method_str_end), pos = 0
  let mEnd := s.dropWhile (· != 32)             -- method_str_end = str.find_first_of(' ', pos)
  match methodOf methodStr with
  | none => none                                -- method == Method::kUnset
  | some method =>
    let uBeg := mEnd.dropWhile (· == 32)        -- url_str_begin = str.find_first_not_of(' ', method_str_end)
    if uBeg.isEmpty || uBeg.length ≤ endLen then none else    -- npos || url_str_begin >= end_pos
    let urlStr := uBeg.takeWhile (· != 32)      -- str.substr(url_str_begin, url_str_end - url_str_begin)
    let uEnd := uBeg.dropWhile (· != 32)        -- url_str_end = str.find_first_of(' ', url_str_begin)
    match parseUrlPath urlStr with
    | none => none                              -- !StringToUrlPath(url_str, …)
    | some url =>
      let vBeg := uEnd.dropWhile (· == 32)      -- ver_str_begin = str.find_first_not_of(' ', url_str_end)
      if vBeg.isEmpty || vBeg.length ≤ endLen then none else  -- npos || ver_str_begin >= end_pos
      let verStr := vBeg.take (vBeg.length - endLen)          -- str.substr(ver_str_begin, end_pos - ver_str_begin)
      if verStr.take 5 != ascii "HTTP/" then none else        -- ver_str.compare(0, 5, "HTTP/") != 0
      match verOf verStr with
      | none => none                            -- ver == HttpVer::kUnset
      | some ver => some (method, url, ver)

/-! ### stage 2: header lines -/

/-- one header line (without CRLF): key and value, `none` = `kFail` (no colon before the CRLF,
or nothing but spaces after it) -/
def parseHeaderLine (line : Bytes) : Option (Bytes × Bytes) :=
  match line.dropWhile (· != 58) with
  | [] => none
  | _ :: afterColon =>
    let v := dropSpaces afterColon
    if v.isEmpty then none else some (strip (line.takeWhile (· != 58)), strip v)

/-- patches/C12-01 `ParseContentLength`: decimal digits only, value `< SIZE_MAX` (64-bit) -/
def parseLenChecked (v : Bytes) : Option Nat :=
  if v.isEmpty then none else
  v.foldl (fun (acc : Option Nat) (c : UInt8) =>
    match acc with
    | none => none
    | some r =>
      if c < 48 || c > 57 then none
      else
        let d := c.toNat - 48
        if r > (2 ^ 64 - 2 - d) / 10 then none else some (r * 10 + d)) (some 0)

def isSpaceC (c : UInt8) : Bool := c == 32 || (9 ≤ c && c ≤ 13)

/-- `std::stoi` (unpatched code): skips `isspace`, optional sign, decimal digits, ignores what
follows; `none` = throws (`invalid_argument` without digits, `out_of_range` outside `int`) -/
def stoi (v : Bytes) : Option Int :=
  let s := v.dropWhile isSpaceC
  let (neg, s) := match s with
    | 45 :: t => (true, t)
    | 43 :: t => (false, t)
    | _ => (false, s)
  let ds := s.takeWhile (fun c => 48 ≤ c && c ≤ 57)
  if ds.isEmpty then none else
  let n : Nat := ds.foldl (fun (a : Nat) (c : UInt8) => a * 10 + (c.toNat - 48)) 0
  if neg then (if n > 2147483648 then none else some (- (Int.ofNat n)))
  else (if n > 2147483647 then none else some (Int.ofNat n))

/-- `content_length_ = <int>` : conversion to `size_t`; `SIZE_MAX` is the "unset" marker -/
def castSizeT (i : Int) : Option Nat :=
  if i ≥ 0 then some i.toNat
  else if i = -1 then none else some (2 ^ 64 - (-i).toNat)

inductive LenResult
  | ok (n : Option Nat)
  | bad     -- patched code: kFail
  | threw   -- unpatched code: exception out of parse()

def contentLength (cfg : Cfg) (v : Bytes) : LenResult :=
  if cfg.checkedLen then
    match parseLenChecked v with
    | some n => .ok (some n)
    | none => .bad
  else
    match stoi v with
    | some i => .ok (castSizeT i)
    | none => .threw

inductive HResult
  | more (req : Req) (clen : Option Nat) (rest : Bytes)   -- current header incomplete: break
  | done (req : Req) (clen : Option Nat) (rest : Bytes)   -- blank line found
  | fail (req : Req) (clen : Option Nat) (rest : Bytes)   -- kFail, return pos (start of the line)
  | threw
  | hang
deriving DecidableEq, Repr

/-- the `for (;;)` of stage 2.  `fuel` bounds the iterations (each consumes ≥ 2 bytes;
`s.length + 1` suffices — `Proofs.headersLoop_fuel`). -/
def headersLoop (cfg : Cfg) : Nat → Req → Option Nat → Bytes → HResult
  | 0, _, _, _ => .hang
  | fuel + 1, req, clen, s =>
    match splitCRLF s with
    | none => .more req clen s
    | some (line, after) =>
      if line.isEmpty then .done req clen after
      else match parseHeaderLine line with
        | none => .fail req clen s
        | some (k, v) =>
          let req' := { req with headers := mapInsert k v req.headers }
          if k == ascii "Content-Length" then
            match contentLength cfg v with
            | .threw => .threw
            | .bad => .fail req' clen s
            | .ok n => headersLoop cfg fuel req' n after
          else headersLoop cfg fuel req' clen after

/-! ### stage 3: the body -/

def bodyStage (req : Req) (clen : Option Nat) (s : Bytes) : PResult :=
  match clen with
  | some n =>
    if n ≤ s.length then .ok ⟨.all, { req with body := s.take n }, clen⟩ (s.drop n)
    else .ok ⟨.heads, req, clen⟩ s
  | none => .ok ⟨.all, { req with body := s }, none⟩ []   -- no Content-Length: all that is there

def headersStage (cfg : Cfg) (req : Req) (clen : Option Nat) (s : Bytes) : PResult :=
  match headersLoop cfg (s.length + 1) req clen s with
  | .more r c rest => .ok ⟨.startLine, r, c⟩ rest
  | .done r c rest => bodyStage r c rest
  | .fail r c rest => .ok ⟨.fail, r, c⟩ rest
  | .threw => .threw
  | .hang => .hang

/-- `RequestParser::parse` -/
def parse (cfg : Cfg) (ps : PState) (s : Bytes) : PResult :=
  match ps.st with
  | .init =>
    -- unpatched order: the method is classified on whatever precedes the first space of the
    -- buffer (or on the whole buffer) before the CRLF is looked for
    if !cfg.crlfFirst && (methodOf (s.takeWhile (· != 32))).isNone then .ok ⟨.fail, {}, none⟩ s
    else match splitCRLF s with
      | none => .ok PState.init s            -- return 0, state stays kInit
      | some (_, after) =>
        match startLineLit s (after.length + 2) with
        | none => .ok ⟨.fail, {}, none⟩ s    -- state_ = kFail; return 0
        | some (m, u, v) => headersStage cfg { method := m, url := u, ver := v } none after
  | .startLine => headersStage cfg ps.req ps.clen s
  | .heads => bodyStage ps.req ps.clen s
  | .all => .ok ps s       -- no stage applies: return 0
  | .fail => .ok ps s

/-! ### the feed loop of `Server::Impl::onTcpReceived` -/

/-- `IsLastRequest` (server_imp.cpp) -/
def isLast (r : Req) : Bool :=
  match r.headers.lookup (ascii "Connection") with
  | none => r.ver == "k1_0"
  | some v => if r.ver == "k1_0" then !hasInfix (ascii "keep-alive") v else hasInfix (ascii "close") v

/-- per-connection receive side: parser, accumulating receive buffer, "dropped after kFail",
"close_index is set" -/
structure Conn where
  ps : PState := PState.init
  buf : Bytes := []
  dead : Bool := false
  closed : Bool := false
deriving DecidableEq, Repr

inductive Ev
  | parsed (consumed : Nat) (st : St)               -- one parse() call (model-internal)
  | req (r : Req) (last : Bool) (declared : Bool)   -- a request handed to the handler
deriving DecidableEq, Repr

inductive Status | ok | threw | hang
deriving DecidableEq, Repr

structure Out where
  conn : Conn
  evs : List Ev
  status : Status
deriving DecidableEq, Repr

/-- `while (buff.readableSize() > 0) { … }`.  `markP` = "this request closes the connection"
(`IsLastRequest` in the server; constantly false when the parser is driven alone).
`fuel`: every iteration that continues has consumed at least one byte, except possibly the
first one when the loop is entered in a state other than `kInit`; `buf.length + 2` suffices
(`ProofsFeed.feedLoop_status`). -/
def feedLoop (cfg : Cfg) (markP : Req → Bool) : Nat → Conn → Out
  | 0, c => ⟨c, [], .hang⟩
  | fuel + 1, c =>
    if c.buf.isEmpty then ⟨c, [], .ok⟩ else
    match parse cfg c.ps c.buf with
    | .threw => ⟨c, [], .threw⟩
    | .hang => ⟨c, [], .hang⟩
    | .ok ps1 rest =>
      let ev := Ev.parsed (c.buf.length - rest.length) ps1.st
      match ps1.st with
      | .all =>
        let last := markP ps1.req
        let rq := Ev.req ps1.req last ps1.clen.isSome
        if last && cfg.stopAfterLast then
          ⟨{ c with ps := PState.init, buf := [], closed := true }, [ev, rq], .ok⟩
        else
          let o := feedLoop cfg markP fuel { c with ps := PState.init, buf := rest, closed := c.closed || last }
          ⟨o.conn, ev :: rq :: o.evs, o.status⟩
      | .fail => ⟨{ c with ps := ps1, buf := [], dead := true }, [ev], .ok⟩   -- disconnect; delete conn
      | _ => ⟨{ c with ps := ps1, buf := rest }, [ev], .ok⟩

/-- one `onTcpReceived` with `seg` newly appended to the receive buffer -/
def recv (cfg : Cfg) (markP : Req → Bool) (c : Conn) (seg : Bytes) : Out :=
  if c.dead then ⟨c, [], .ok⟩                                 -- connection gone: no callback
  else if c.closed then ⟨{ c with buf := [] }, [], .ok⟩       -- "should not recv any data": hasReadAll
  else feedLoop cfg markP (c.buf.length + seg.length + 2) { c with buf := c.buf ++ seg }

/-- the requests handed to the handler: request, "closes the connection", "length was declared" -/
def reqsOf (evs : List Ev) : List (Req × Bool × Bool) :=
  evs.filterMap fun e => match e with | .req r l d => some (r, l, d) | _ => none

def allDeclared (evs : List Ev) : Bool :=
  evs.all fun e => match e with | .req _ _ d => d | _ => true

/-- a whole stream delivered as the given segments: requests handed out, final connection,
and whether every call returned normally -/
def feedSegs (cfg : Cfg) (markP : Req → Bool) : Conn → List Bytes → Conn × List (Req × Bool × Bool) × Bool
  | c, [] => (c, [], true)
  | c, seg :: segs =>
    let o := recv cfg markP c seg
    let (c', rs, okk) := feedSegs cfg markP o.conn segs
    (c', reqsOf o.evs ++ rs, (o.status == .ok) && okk)

end Tbox.C12
