/-
C12 (part C) — several connections of one http server.

Transcribed from
  modules/network/tcp_server.cpp     (TcpServer: `cabinet::Cabinet<TcpConnection> conns`, one `ConnToken` per accepted
                                      connection bound into its callbacks; stop() = disconnect every connection, conns.clear();
                                      disconnect(ct)/onTcpDisconnected = conns.free(ct); isClientValid(ct)/getContext(ct)/send(ct) = conns.at(ct))
  modules/base/cabinet.hpp           (alloc: id = ++last_id_, position from the LIFO free list or appended; at/free compare the
                                      cell's id with the token's; clear() keeps last_id_ — the C08 repair; `resetIds` = the cabinet as found)
  modules/http/server/server_imp.cpp (every callback and commitRespond look the Connection up through the token; stop()/cleanup())
  modules/http/server/context.cpp    (a Context keeps the token of the connection its request arrived on and commits with it)

One `Server` record (Pipeline.lean: parser, pipeline, send side, handler scripts) per accepted connection, indexed in accept
order; the cabinet says which connection a TOKEN resolves to. Events of a connection's own socket (segment, peer close, read
error …) come from its living TcpConnection and reach its own record; a Context that is released later goes through the
cabinet with the token it was created with (`MServer.target`) — that this is always its own connection or nothing, also after
the slot was reused, is a theorem (Props: C12_multi_token_own), not a modelling decision.

Core Lean only (linked into the driver).
-/
import TboxModel.C12.Pipeline
namespace Tbox.C12

/-- `cabinet::Token` -/
structure Tok where
  id : Nat
  pos : Nat
deriving DecidableEq, Repr

/-- `cabinet::Cabinet<TcpConnection>`: a cell holds (id, which connection) or is free; `free` is the chain
`first_free_ → next_free → …`; `lastId` = `last_id_` (64-bit wrap not modelled: fewer than 2^64 connections) -/
structure Cab where
  cells : List (Option (Nat × Nat)) := []
  free : List Nat := []
  lastId : Nat := 0
deriving Repr

namespace Cab

def alloc (c : Cab) (cl : Nat) : Cab × Tok :=
  match c.free with
  | p :: rest => ({ cells := c.cells.set p (some (c.lastId + 1, cl)), free := rest, lastId := c.lastId + 1 }, ⟨c.lastId + 1, p⟩)
  | [] => ({ cells := c.cells ++ [some (c.lastId + 1, cl)], free := [], lastId := c.lastId + 1 }, ⟨c.lastId + 1, c.cells.length⟩)

/-- `at(token)` (the word is reserved in Lean): position inside the vector and the cell's id equal to the token's -/
def lookup (c : Cab) (t : Tok) : Option Nat :=
  match c.cells[t.pos]? with
  | some (some (id, cl)) => if id = t.id then some cl else none
  | _ => none

/-- `free(token)` -/
def release (c : Cab) (t : Tok) : Cab :=
  match c.lookup t with
  | some _ => { c with cells := c.cells.set t.pos none, free := t.pos :: c.free }
  | none => c

/-- `clear()`; `resetIds` = as found before the C08 repair (`last_id_ = 0`) -/
def clear (c : Cab) (resetIds : Bool) : Cab := { cells := [], free := [], lastId := if resetIds then 0 else c.lastId }

end Cab

/-- `Server::Impl::state_` -/
inductive SState | none | inited | running
deriving DecidableEq, Repr

structure Client where
  tok : Tok
  srv : Server := {}
deriving Repr

structure MServer where
  clients : List Client := []       -- in accept order: index = connection index of the op lines
  cab : Cab := {}
  state : SState := .running
  /-- the kernel's answers to the next `write()` calls on ANY server-side socket (the harness has one queue) -/
  wq : List WAns := []
  resetIds : Bool := false          -- the cabinet as found (counterexample only)
  /-- clients that have connected but were not accepted yet: `TcpAcceptor::stop()` only disables the read event of the
  listening socket, the kernel keeps completing connections into the listen backlog (FIFO); `start()` enables the event again
  and every following loop pass accepts one; `cleanup()` closes the listening socket — the queued connections are reset -/
  pending : Nat := 0
deriving Repr

/-- what happens on the connections of one server -/
inductive MOp
  | conn                          -- a client connects and is accepted
  | connq                         -- a client connects while the listening socket is open but not watched (server stopped / not started yet)
  | on (c : Nat) (op : SrvOp)     -- an event of connection c (segment, handler completion, peer close, …)
  | stop (cleanup : Bool)         -- `Server::stop()` / `cleanup()` outside any handler
  | start                         -- `Server::start()` again
  | wq (q : List WAns)
deriving Repr

namespace MServer

def poisoned (m : MServer) : Bool := m.clients.any (·.srv.poisoned)

/-- the connection a Context of connection `c` reaches through its token: `conns.at(ct)` -/
def target (m : MServer) (c : Nat) : Option Nat := (m.clients[c]?).bind fun cl => m.cab.lookup cl.tok

def setSrv (m : MServer) (c : Nat) (s : Server) : MServer :=
  match m.clients[c]? with
  | some cl => { m with clients := m.clients.set c { cl with srv := s } }
  | none => m

/-- run `f` on connection `c` with the write answers in front of it; a connection that is gone makes no `write()` call -/
def withWq (m : MServer) (c : Nat) (f : Server → Server) : MServer :=
  match m.clients[c]? with
  | none => m
  | some cl =>
    if cl.srv.pipe.valid then
      let s' := f { cl.srv with wq := m.wq }
      { m.setSrv c { s' with wq := [] } with wq := s'.wq }
    else m.setSrv c (f cl.srv)

/-- `conns.free(ct)` when the connection was dropped (tcp_server_.disconnect / onTcpDisconnected) -/
def sync (m : MServer) (c : Nat) : MServer :=
  match m.clients[c]? with
  | some cl => if cl.srv.pipe.valid then m else { m with cab := m.cab.release cl.tok }
  | none => m

/-- `TcpServer::stop()`: every connection is disconnected, the cabinet cleared -/
def stopAll (m : MServer) (cleanup : Bool) : MServer :=
  { m with clients := m.clients.map (fun cl => { cl with srv := cl.srv.sstop }),
           cab := m.cab.clear m.resetIds, state := if cleanup then .none else .inited,
           pending := if cleanup then 0 else m.pending }

/-- `Server::Impl::stop()` (only when running) / `cleanup()` (unless already cleaned up; the listening socket is closed, whoever
waits in its backlog is reset) -/
def stopOutside (m : MServer) (cleanup : Bool) : MServer :=
  if m.state = .running then m.stopAll cleanup
  else if cleanup then { m with state := .none, pending := 0 } else m

/-- `TcpServer::onTcpConnected`: the accepted connection gets a cabinet cell and a fresh record -/
def accept (m : MServer) : MServer :=
  let (cab, t) := m.cab.alloc m.clients.length
  { m with clients := m.clients ++ [⟨t, {}⟩], cab := cab }

/-- the loop passes after `start()`: one `accept()` per pass until the backlog is empty, in the order the clients connected -/
def acceptN : Nat → MServer → MServer
  | 0, m => m
  | n + 1, m => acceptN n m.accept

/-- did a handler run by this segment call `server.stop()` (some false) / `server.cleanup()` (some true)? -/
def segStops (s : Server) (bytes : Bytes) : Option Bool :=
  (s.seg Cfg.fixed bytes).2.1.foldl (fun acc d =>
    let h := runChain ((s.scripts.lookup d.idx).getD defaultScript) nLevels 0 {}
    if h.stopped then some h.cleaned else acc) none

/-- the Context of request `i` of connection `c` is gone without a commit reaching any connection -/
def dropCtx (s : Server) (i : Nat) : Server := { s with outstanding := s.outstanding.filter (· != i) }

def step (m : MServer) : MOp → MServer
  | .conn =>
    if m.poisoned || m.state != .running then m else m.accept
  | .connq => if m.poisoned then m else if m.state = .inited then { m with pending := m.pending + 1 } else m
  | .start =>
    if m.poisoned then m else
    if m.state = .inited then acceptN m.pending { m with state := .running, pending := 0 } else m
  | .stop cl => if m.poisoned then m else m.stopOutside cl
  | .wq q => if m.poisoned then m else { m with wq := m.wq ++ q }
  | .on c op =>
    if m.poisoned then m else
    match m.clients[c]? with
    | none => m
    | some cl =>
      match op with
      | .wq q => { m with wq := m.wq ++ q }
      | .sstop => m                        -- not an event of one connection (MOp.stop)
      | .done i r =>
        if !cl.srv.outstanding.contains i then m else
        -- ~Context → commitRespond(ct, i, res): isClientValid(ct), getContext(ct)
        match m.target c with
        | none => m.setSrv c (dropCtx cl.srv i)                       -- `delete res; return`
        | some d =>
          if d = c then (m.withWq c (·.step (.done i r))).sync c
          else ((m.setSrv c (dropCtx cl.srv i)).withWq d (fun s => (s.commitW i r.render).quiesce)).sync d
      | .cclose (some (i, r)) cf =>
        -- a handler completes request i in the loop pass in which the peer closes its socket (cf = the close comes first):
        -- the commit goes through the cabinet exactly like `.done`
        if !cl.srv.outstanding.contains i then m else
        match m.target c with
        | none => ((m.setSrv c (dropCtx cl.srv i)).withWq c (·.step (.cclose none cf))).sync c
        | some d =>
          if d = c then (m.withWq c (·.step (.cclose (some (i, r)) cf))).sync c
          else ((((m.setSrv c (dropCtx cl.srv i)).withWq d (fun s => s.commitW i r.render)).sync d).withWq c (·.step (.cclose none cf))).sync c
      | .seg b =>
        let m1 := (m.withWq c (·.step (.seg b))).sync c
        match segStops cl.srv b with
        | none => m1
        | some cleanup =>
          -- the handler stopped the server from inside connection c's receive callback: `TcpServer::stop()` disconnects EVERY
          -- connection (c itself was already dropped by `Server.walk`; dropping it again changes nothing) and clears the cabinet
          m1.stopAll cleanup
      | op => (m.withWq c (·.step op)).sync c

def run (m : MServer) (ops : List MOp) : MServer := ops.foldl step m

end MServer

end Tbox.C12
